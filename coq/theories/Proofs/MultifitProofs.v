(** Properties of the MultiFit model (Model/Multifit.v, prtpy/partitioning/multifit.py).

    The binary-search capacities are IEEE doubles, modelled exactly as dyadic rationals
    (m, e) = m * 2^e; [rnd53] is round-to-nearest-even to 53 significant bits.  The model was
    validated bit-exactly against prtpy on > 6000 random instances (see the task report).
    Here the dyadics are given their rational value [dval : dyadic -> Q] and we prove:

    - [rnd53_rounds]: rnd53 num den is representable, lies between the representable
      neighbours of num/den (so it is monotone and exact on representable values) and has
      relative error <= 2^-53;
    - the loop invariant  M <= lower <= upper, all representable  ([mf_loop_inv]);
    - a.  [multifit_partition], [multifit_total]
    - b.  [multifit_at_most_k]  (side condition numbins < 2^53)
    - c.  [multifit_erase], [multifit_names]
    - d.  [multifit_ratio_2_bound], [multifit_ratio_2]  (largest sum <= 2 * optimum).

    Extra hypotheses (beyond items <> [], values >= 0, k >= 1):
    - [zmax values <= 2^53] for totality / at-most-k: the largest value must be a double,
      otherwise (lower+upper)/2 can round BELOW the largest item and first-fit raises
      ValueError (Python does too; see [multifit_unrepresentable_max_fails]);
    - [Z.of_nat k < 2^53] for at-most-k;
    - [zsum values <= 2^53] for the ratio bound. *)
From Prtpy Require Import Base.Prelude Model.Binner Model.Packing Model.Multifit Spec.Partition
  Model.Objectives Proofs.BaseLemmas Proofs.BinnerLemmas Proofs.PackingProofs Proofs.RatioProofs.
From Coq Require Import QArith Qround Qpower Lqa ZifyBool Sorting.Sorted.
Open Scope Z_scope.

(** ---- 1. round-to-nearest-even on integers ---- *)
Lemma rne_spec n d : 0 <= n -> 0 < d ->
  (forall z, z * d <= n -> z <= rne n d) /\
  (forall z, n <= z * d -> rne n d <= z) /\
  2 * n - d <= 2 * (rne n d * d) <= 2 * n + d.
Proof.
  intros Hn Hd. unfold rne.
  pose proof (Z.div_mod n d ltac:(lia)) as E. pose proof (Z.mod_pos_bound n d Hd) as B.
  set (q := n / d) in *. set (r := n mod d) in *.
  destruct (2 * r <? d) eqn:E1; [|destruct (d <? 2 * r) eqn:E2; [|destruct (Z.even q) eqn:E3]];
    (split; [intros z Hz; nia|split; [intros z Hz; nia|nia]]).
Qed.

(** ---- 2. the exponent chosen by rnd53 ---- *)
Lemma pow2_pos e : 0 <= e -> 0 < 2 ^ e.
Proof. intros H. apply Z.pow_pos_nonneg; lia. Qed.

Lemma scale_range num den : 0 < num -> 0 < den ->
  let nd := dy_scale num den (Z.log2 num - Z.log2 den - 53) in
  0 < snd nd /\ 2 ^ 52 * snd nd <= fst nd < 2 ^ 54 * snd nd.
Proof.
  intros Hn Hd.
  pose proof (Z.log2_spec num Hn) as [Ln1 Ln2]. pose proof (Z.log2_spec den Hd) as [Ld1 Ld2].
  pose proof (Z.log2_nonneg num) as Pn. pose proof (Z.log2_nonneg den) as Pd.
  set (ln := Z.log2 num) in *. set (ld := Z.log2 den) in *.
  unfold dy_scale. cbv zeta. destruct (0 <=? ln - ld - 53) eqn:E; cbn [fst snd].
  - set (e := ln - ld - 53) in *.
    assert (Ea : 2 ^ ln = 2 ^ ld * 2 ^ 53 * 2 ^ e).
    { rewrite <- !Z.pow_add_r by lia. f_equal. lia. }
    assert (Eb : 2 ^ Z.succ ln = 2 * 2 ^ ln) by (apply Z.pow_succ_r; lia).
    assert (Ec : 2 ^ Z.succ ld = 2 * 2 ^ ld) by (apply Z.pow_succ_r; lia).
    pose proof (pow2_pos e ltac:(lia)) as Pe. pose proof (pow2_pos ld Pd) as Pld.
    change (2 ^ 53) with (2 * 2 ^ 52) in Ea. change (2 ^ 54) with (4 * 2 ^ 52).
    set (c := 2 ^ e) in *. set (b := 2 ^ ld) in *. set (a := 2 ^ ln) in *. set (t := 2 ^ 52) in *.
    assert (0 < t) by (subst t; reflexivity).
    split; [nia|]. split.
    + assert (den * c < 2 * b * c) by nia. nia.
    + assert (b * c <= den * c) by nia. nia.
  - set (e := - (ln - ld - 53)) in *.
    assert (Ea : 2 ^ ln * 2 ^ e = 2 ^ ld * 2 ^ 53).
    { rewrite <- !Z.pow_add_r by lia. f_equal. lia. }
    assert (Eb : 2 ^ Z.succ ln = 2 * 2 ^ ln) by (apply Z.pow_succ_r; lia).
    assert (Ec : 2 ^ Z.succ ld = 2 * 2 ^ ld) by (apply Z.pow_succ_r; lia).
    pose proof (pow2_pos e ltac:(lia)) as Pe. pose proof (pow2_pos ld Pd) as Pld.
    change (2 ^ 53) with (2 * 2 ^ 52) in Ea. change (2 ^ 54) with (4 * 2 ^ 52).
    set (c := 2 ^ e) in *. set (b := 2 ^ ld) in *. set (a := 2 ^ ln) in *. set (t := 2 ^ 52) in *.
    assert (0 < t) by (subst t; reflexivity).
    split; [lia|]. split.
    + assert (a * c <= num * c) by nia. assert (t * den < t * (2 * b)) by nia. nia.
    + assert (num * c < 2 * a * c) by nia. assert (t * b <= t * den) by nia. nia.
Qed.

(** ---- 3. dyadic values as rationals ---- *)
Definition p2 (e : Z) : Q := Qpower 2 e.
Definition dval (x : dyadic) : Q := (inject_Z (fst x) * p2 (snd x))%Q.

Lemma p2_pos e : (0 < p2 e)%Q.
Proof. apply Qpower_0_lt. reflexivity. Qed.
Lemma p2_add a b : (p2 (a + b) == p2 a * p2 b)%Q.
Proof. apply Qpower_plus. intro H. discriminate H. Qed.
Lemma p2_Z e : 0 <= e -> (p2 e == inject_Z (2 ^ e))%Q.
Proof. intros H. unfold p2. rewrite Zpower_Qpower by exact H. reflexivity. Qed.
Lemma p2_0 : (p2 0 == 1)%Q. Proof. reflexivity. Qed.
Lemma p2_1 : (p2 1 == 2)%Q. Proof. reflexivity. Qed.
Lemma p2_m1 : (p2 (-1) == 1 # 2)%Q. Proof. reflexivity. Qed.
Lemma p2_ge1 e : 0 <= e -> (1 <= p2 e)%Q.
Proof.
  intros H. rewrite p2_Z by exact H. change 1%Q with (inject_Z 1). rewrite <- Zle_Qle.
  pose proof (pow2_pos e H). lia.
Qed.
Lemma p2_mono a b : a <= b -> (p2 a <= p2 b)%Q.
Proof.
  intros H. replace b with (a + (b - a)) by lia. rewrite p2_add.
  pose proof (p2_pos a). assert (1 <= p2 (b - a))%Q by (apply p2_ge1; lia). nra.
Qed.
Lemma p2_cancel e : 0 <= e -> (inject_Z (2 ^ e) * p2 (- e) == 1)%Q.
Proof.
  intros H. rewrite <- p2_Z by exact H. rewrite <- p2_add. replace (e + - e) with 0 by lia. reflexivity.
Qed.

(** shifting the exponent down: m * 2^e = (m * 2^(e - s)) * 2^s *)
Lemma dval_shift x s : s <= snd x -> (dval x == inject_Z (fst x * 2 ^ (snd x - s)) * p2 s)%Q.
Proof.
  intros H. unfold dval. rewrite inject_Z_mult. rewrite <- p2_Z by lia.
  rewrite <- Qmult_assoc. rewrite <- p2_add. replace (snd x - s + s) with (snd x) by lia. reflexivity.
Qed.

Lemma scale_rel num den e :
  let nd := dy_scale num den e in
  (inject_Z (fst nd) * inject_Z den * p2 e == inject_Z num * inject_Z (snd nd))%Q.
Proof.
  unfold dy_scale. cbv zeta. destruct (0 <=? e) eqn:E; cbn [fst snd].
  - rewrite inject_Z_mult. rewrite p2_Z by lia. ring.
  - rewrite inject_Z_mult. pose proof (p2_cancel (- e) ltac:(lia)) as C.
    replace (- - e) with e in C by lia.
    transitivity (inject_Z num * inject_Z den * (inject_Z (2 ^ (- e)) * p2 e))%Q; [ring|].
    rewrite C. ring.
Qed.

Lemma rnd53_cases num den : 0 < num -> 0 < den ->
  exists n d e, 0 <= n /\ 0 < d /\ 2 ^ 52 * d <= n < 2 ^ 53 * d /\
    (inject_Z n * inject_Z den * p2 e == inject_Z num * inject_Z d)%Q /\
    rnd53 num den = (rne n d, e).
Proof.
  intros Hn Hd. unfold rnd53. destruct (num <=? 0) eqn:E0; [lia|]. cbv zeta.
  pose proof (scale_range num den Hn Hd) as R. pose proof (scale_rel num den (Z.log2 num - Z.log2 den - 53)) as S.
  cbv zeta in R, S. set (e0 := Z.log2 num - Z.log2 den - 53) in *.
  destruct (dy_scale num den e0) as [n0 d0]. cbn [fst snd] in *. destruct R as (R0 & R1 & R2).
  destruct (n0 / d0 <? 2 ^ 53) eqn:E1.
  - exists n0, d0, e0. repeat split; try lia; auto.
    assert (n0 / d0 < 2 ^ 53) by lia.
    pose proof (Z.div_mod n0 d0 ltac:(lia)). pose proof (Z.mod_pos_bound n0 d0 R0). nia.
  - exists n0, (2 * d0), (e0 + 1). repeat split; try lia.
    + assert (2 ^ 53 <= n0 / d0) by lia.
      pose proof (Z.div_mod n0 d0 ltac:(lia)). pose proof (Z.mod_pos_bound n0 d0 R0). nia.
    + rewrite p2_add, p2_1, inject_Z_mult.
      transitivity (2 * (inject_Z n0 * inject_Z den * p2 e0))%Q; [ring|]. rewrite S.
      change (inject_Z 2) with 2%Q. ring.
Qed.

(** ---- 4. what correct rounding to 53 bits gives ---- *)
Definition repr (a : dyadic) : Prop := 0 <= fst a <= 2 ^ 53.

Definition rounds_to (x : Q) (r : dyadic) : Prop :=
  repr r /\
  (forall a, repr a -> (dval a <= x)%Q -> (dval a <= dval r)%Q) /\
  (forall a, repr a -> (x <= dval a)%Q -> (dval r <= dval a)%Q) /\
  (x * inject_Z (2 ^ 53 - 1) <= dval r * inject_Z (2 ^ 53))%Q /\
  (dval r * inject_Z (2 ^ 53) <= x * inject_Z (2 ^ 53 + 1))%Q.

Lemma Qcancel_r (a b c : Q) : (0 < c)%Q -> (a * c <= b * c)%Q -> (a <= b)%Q.
Proof. intros Hc H. apply (Qmult_le_r a b c Hc). exact H. Qed.

(** a representable value with a smaller exponent is at most 2^52 * 2^e *)
Lemma repr_small a e : repr a -> snd a < e -> (dval a <= inject_Z (2 ^ 52) * p2 e)%Q.
Proof.
  intros [Ha0 Ha1] He. unfold dval.
  assert (H1 : (inject_Z (fst a) <= inject_Z (2 ^ 53))%Q) by (rewrite <- Zle_Qle; exact Ha1).
  assert (H2 : (p2 (snd a) <= p2 (e - 1))%Q) by (apply p2_mono; lia).
  assert (H3 : (p2 e == p2 (e - 1) * 2)%Q).
  { rewrite <- p2_1, <- p2_add. replace (e - 1 + 1) with e by lia. reflexivity. }
  rewrite H3. pose proof (p2_pos (snd a)) as P1. pose proof (p2_pos (e - 1)) as P2.
  change (inject_Z (2 ^ 53)) with (inject_Z (2 ^ 52) * 2)%Q in H1.
  assert (P3 : (0 < inject_Z (2 ^ 52))%Q) by reflexivity.
  set (A := inject_Z (fst a)) in *. set (T := inject_Z (2 ^ 52)) in *.
  set (u := p2 (snd a)) in *. set (v := p2 (e - 1)) in *.
  assert (A * u <= T * 2 * u)%Q by (apply Qmult_le_compat_r; lra).
  assert (T * 2 * u <= T * 2 * v)%Q by (apply Qmult_le_l; lra).
  lra.
Qed.

Lemma rnd53_rounds num den x : 0 <= num -> 0 < den ->
  (x * inject_Z den == inject_Z num)%Q -> rounds_to x (rnd53 num den).
Proof.
  intros Hn Hd Hx.
  assert (HD : (0 < inject_Z den)%Q) by (change 0%Q with (inject_Z 0); rewrite <- Zlt_Qlt; exact Hd).
  destruct (Z.eq_dec num 0) as [E|E].
  - subst num. assert (X0 : (x == 0)%Q) by (change (inject_Z 0) with 0%Q in Hx; nra).
    unfold rnd53. cbn [Z.leb Z.compare]. unfold rounds_to, repr.
    assert (D0 : (dval (0%Z, 0%Z) == 0)%Q) by reflexivity. cbn [fst snd].
    split; [lia|]. split; [intros a _ H; rewrite D0; rewrite X0 in H; exact H|].
    split; [intros a _ H; rewrite D0; rewrite X0 in H; exact H|]. rewrite D0, X0. split; lra.
  - destruct (rnd53_cases num den ltac:(lia) Hd) as (n & d & e & Hn0 & Hd0 & [R1 R2] & S & ->).
    destruct (rne_spec n d Hn0 Hd0) as (Ra & Rb & Rc1 & Rc2). set (q := rne n d) in *.
    assert (PD : (0 < inject_Z d)%Q) by (change 0%Q with (inject_Z 0); rewrite <- Zlt_Qlt; exact Hd0).
    pose proof (p2_pos e) as Pe.
    assert (X : (x * inject_Z d == inject_Z n * p2 e)%Q).
    { apply (Qmult_inj_r _ _ (inject_Z den)); [lra|].
      transitivity (x * inject_Z den * inject_Z d)%Q; [ring|]. rewrite Hx, <- S. ring. }
    assert (Q52 : 2 ^ 52 <= q) by (apply Ra; lia).
    assert (Q53 : q <= 2 ^ 53) by (apply Rb; lia).
    assert (Xlow : (inject_Z (2 ^ 52) * p2 e <= x)%Q).
    { apply (Qcancel_r _ _ (inject_Z d) PD). rewrite X.
      assert (H : (inject_Z (2 ^ 52) * inject_Z d <= inject_Z n)%Q) by (rewrite <- inject_Z_mult, <- Zle_Qle; lia).
      nra. }
    assert (Rlow : (inject_Z (2 ^ 52) * p2 e <= inject_Z q * p2 e)%Q).
    { apply Qmult_le_compat_r; [rewrite <- Zle_Qle; exact Q52|lra]. }
    unfold rounds_to, repr. cbn [fst snd]. split; [lia|]. split; [|split; [|split]].
    + intros a Ha Hax. unfold dval at 2. cbn [fst snd].
      destruct (Z_lt_le_dec (snd a) e) as [Hlt|Hge].
      * pose proof (repr_small a e Ha Hlt). lra.
      * rewrite (dval_shift a e Hge) in *. set (z := fst a * 2 ^ (snd a - e)) in *.
        assert (Hz : z * d <= n).
        { rewrite Zle_Qle, inject_Z_mult. apply (Qcancel_r _ _ (p2 e) Pe). rewrite <- X.
          assert (inject_Z z * p2 e * inject_Z d <= x * inject_Z d)%Q by (apply Qmult_le_compat_r; lra). lra. }
        apply Ra in Hz. apply Qmult_le_compat_r; [rewrite <- Zle_Qle; exact Hz|lra].
    + intros a Ha Hax. unfold dval at 1. cbn [fst snd].
      destruct (Z_lt_le_dec (snd a) e) as [Hlt|Hge].
      * pose proof (repr_small a e Ha Hlt) as Hs.
        assert (Hz : n <= 2 ^ 52 * d).
        { rewrite Zle_Qle, inject_Z_mult. apply (Qcancel_r _ _ (p2 e) Pe). rewrite <- X.
          assert (x * inject_Z d <= inject_Z (2 ^ 52) * p2 e * inject_Z d)%Q by (apply Qmult_le_compat_r; lra). lra. }
        apply Rb in Hz. assert (q = 2 ^ 52) by lia.
        assert (inject_Z q * p2 e <= inject_Z (2 ^ 52) * p2 e)%Q by (apply Qmult_le_compat_r; [rewrite <- Zle_Qle; lia|lra]).
        lra.
      * rewrite (dval_shift a e Hge) in *. set (z := fst a * 2 ^ (snd a - e)) in *.
        assert (Hz : n <= z * d).
        { rewrite Zle_Qle, inject_Z_mult. apply (Qcancel_r _ _ (p2 e) Pe). rewrite <- X.
          assert (x * inject_Z d <= inject_Z z * p2 e * inject_Z d)%Q by (apply Qmult_le_compat_r; lra). lra. }
        apply Rb in Hz. apply Qmult_le_compat_r; [rewrite <- Zle_Qle; exact Hz|lra].
    + unfold dval. cbn [fst snd]. apply (Qcancel_r _ _ (inject_Z d) PD).
      assert (F : (inject_Z n * inject_Z (2 ^ 53 - 1) <= inject_Z q * inject_Z d * inject_Z (2 ^ 53))%Q).
      { rewrite <- !inject_Z_mult, <- Zle_Qle. lia. }
      set (c1 := inject_Z (2 ^ 53 - 1)) in *. set (c2 := inject_Z (2 ^ 53)) in *.
      assert (G : (inject_Z n * c1 * p2 e <= inject_Z q * inject_Z d * c2 * p2 e)%Q)
        by (apply Qmult_le_compat_r; lra).
      assert (X1 : (x * c1 * inject_Z d == inject_Z n * c1 * p2 e)%Q).
      { transitivity (x * inject_Z d * c1)%Q; [ring|]. rewrite X. ring. }
      rewrite X1. lra.
    + unfold dval. cbn [fst snd]. apply (Qcancel_r _ _ (inject_Z d) PD).
      assert (F : (inject_Z q * inject_Z d * inject_Z (2 ^ 53) <= inject_Z n * inject_Z (2 ^ 53 + 1))%Q).
      { rewrite <- !inject_Z_mult, <- Zle_Qle. lia. }
      set (c1 := inject_Z (2 ^ 53 + 1)) in *. set (c2 := inject_Z (2 ^ 53)) in *.
      assert (G : (inject_Z q * inject_Z d * c2 * p2 e <= inject_Z n * c1 * p2 e)%Q)
        by (apply Qmult_le_compat_r; lra).
      assert (X1 : (x * c1 * inject_Z d == inject_Z n * c1 * p2 e)%Q).
      { transitivity (x * inject_Z d * c1)%Q; [ring|]. rewrite X. ring. }
      rewrite X1. lra.
Qed.

Lemma rounds_to_ext x x' r : (x == x')%Q -> rounds_to x r -> rounds_to x' r.
Proof.
  intros E (H1 & H2 & H3 & H4 & H5). unfold rounds_to. split; [exact H1|].
  split; [intros a Ha Hl; apply H2; [exact Ha|rewrite E; exact Hl]|].
  split; [intros a Ha Hl; apply H3; [exact Ha|rewrite E; exact Hl]|].
  rewrite <- E. split; assumption.
Qed.

(** ---- 5. the float operations of the model ---- *)
Lemma dy_add_spec x y : (dval (dy_add x y) == dval x + dval y)%Q.
Proof.
  unfold dy_add. set (e := Z.min (snd x) (snd y)).
  rewrite (dval_shift x e) by lia. rewrite (dval_shift y e) by lia.
  unfold dval. cbn [fst snd]. rewrite inject_Z_plus. ring.
Qed.

Lemma dy_add_nonneg x y : 0 <= fst x -> 0 <= fst y -> 0 <= fst (dy_add x y).
Proof.
  intros Hx Hy. unfold dy_add. cbn [fst].
  pose proof (pow2_pos (snd x - Z.min (snd x) (snd y)) ltac:(lia)).
  pose proof (pow2_pos (snd y - Z.min (snd x) (snd y)) ltac:(lia)). nia.
Qed.

Lemma dy_round_rounds x : 0 <= fst x -> rounds_to (dval x) (dy_round x).
Proof.
  intros Hx. unfold dy_round. destruct (0 <=? snd x) eqn:E.
  - apply rnd53_rounds; [pose proof (pow2_pos (snd x) ltac:(lia)); nia|lia|].
    unfold dval. rewrite inject_Z_mult, p2_Z by lia. change (inject_Z 1) with 1%Q. ring.
  - apply rnd53_rounds; [exact Hx|apply pow2_pos; lia|].
    unfold dval. pose proof (p2_cancel (- snd x) ltac:(lia)) as C.
    replace (- - snd x) with (snd x) in C by lia.
    transitivity (inject_Z (fst x) * (inject_Z (2 ^ (- snd x)) * p2 (snd x)))%Q; [ring|]. rewrite C. ring.
Qed.

Lemma fadd_rounds x y : 0 <= fst x -> 0 <= fst y -> rounds_to (dval x + dval y) (fadd x y).
Proof.
  intros Hx Hy. unfold fadd. apply (rounds_to_ext (dval (dy_add x y))); [apply dy_add_spec|].
  apply dy_round_rounds. apply dy_add_nonneg; assumption.
Qed.

Lemma fhalf_spec x : (dval (fhalf x) * 2 == dval x)%Q.
Proof.
  unfold fhalf, dval. cbn [fst snd]. rewrite <- Qmult_assoc, <- p2_1, <- p2_add.
  replace (snd x - 1 + 1) with (snd x) by lia. reflexivity.
Qed.

Lemma fleb_spec x y : fleb x y = true <-> (dval x <= dval y)%Q.
Proof.
  unfold fleb. set (e := Z.min (snd x) (snd y)).
  rewrite (dval_shift x e) by lia. rewrite (dval_shift y e) by lia.
  rewrite Z.leb_le, Zle_Qle. symmetry. apply Qmult_le_r. apply p2_pos.
Qed.

Lemma fmax_spec x y :
  (dval x <= dval (fmax x y))%Q /\ (dval y <= dval (fmax x y))%Q /\ (fmax x y = x \/ fmax x y = y).
Proof.
  unfold fmax, fltb. destruct (fleb y x) eqn:E; cbn [negb].
  - apply fleb_spec in E. split; [apply Qle_refl|]. split; [exact E|left; reflexivity].
  - assert (H : ~ (dval y <= dval x)%Q) by (rewrite <- fleb_spec; congruence).
    apply Qnot_le_lt in H. split; [apply Qlt_le_weak; exact H|]. split; [apply Qle_refl|right; reflexivity].
Qed.

Lemma ffloor_spec x : (inject_Z (ffloor x) <= dval x)%Q /\ (dval x < inject_Z (ffloor x + 1))%Q.
Proof.
  unfold ffloor. destruct (0 <=? snd x) eqn:E.
  - unfold dval. rewrite p2_Z by lia. rewrite <- inject_Z_mult. split; [apply Qle_refl|].
    rewrite <- Zlt_Qlt. lia.
  - set (D := 2 ^ (- snd x)). assert (HD : 0 < D) by (apply pow2_pos; lia).
    pose proof (Z.div_mod (fst x) D ltac:(lia)) as E1. pose proof (Z.mod_pos_bound (fst x) D HD) as B.
    set (f := fst x / D) in *.
    assert (PD : (0 < inject_Z D)%Q) by (change 0%Q with (inject_Z 0); rewrite <- Zlt_Qlt; exact HD).
    assert (X : (dval x * inject_Z D == inject_Z (fst x))%Q).
    { unfold dval. pose proof (p2_cancel (- snd x) ltac:(lia)) as C.
      replace (- - snd x) with (snd x) in C by lia. fold D in C.
      transitivity (inject_Z (fst x) * (inject_Z D * p2 (snd x)))%Q; [ring|]. rewrite C. ring. }
    split.
    + apply (Qcancel_r _ _ (inject_Z D) PD). rewrite X, <- inject_Z_mult, <- Zle_Qle. nia.
    + apply (Qmult_lt_r _ _ (inject_Z D) PD). rewrite X, <- inject_Z_mult, <- Zlt_Qlt. nia.
Qed.

Lemma ffloor_ge z x : (inject_Z z <= dval x)%Q -> z <= ffloor x.
Proof.
  intros H. destruct (ffloor_spec x) as [_ H2].
  assert (H3 : (inject_Z z < inject_Z (ffloor x + 1))%Q) by (eapply Qle_lt_trans; eassumption).
  rewrite <- Zlt_Qlt in H3. lia.
Qed.

Lemma dval_fof_Z z : (dval (fof_Z z) == inject_Z z)%Q.
Proof. unfold dval, fof_Z. cbn [fst snd]. rewrite p2_0. ring. Qed.

(** ---- 6. the binary search keeps  M <= lower <= upper  and never fails ---- *)
Definition dbl (a : dyadic) : dyadic := (fst a, snd a + 1).
Lemma dbl_spec a : (dval (dbl a) == dval a * 2)%Q.
Proof. unfold dbl, dval. cbn [fst snd]. rewrite p2_add, p2_1. ring. Qed.
Lemma dbl_repr a : repr a -> repr (dbl a).
Proof. intros H. exact H. Qed.

Lemma mf_mid_spec lo up : repr lo -> repr up -> (dval lo <= dval up)%Q ->
  repr (mf_mid lo up) /\ (dval lo <= dval (mf_mid lo up))%Q /\ (dval (mf_mid lo up) <= dval up)%Q.
Proof.
  intros Hlo Hup Hle. unfold mf_mid.
  destruct (fadd_rounds lo up ltac:(destruct Hlo; assumption) ltac:(destruct Hup; assumption))
    as (Hr & Hge & Hle2 & _).
  pose proof (fhalf_spec (fadd lo up)) as Hh. set (r := fadd lo up) in *.
  split; [exact Hr|]. split.
  - assert (H : (dval (dbl lo) <= dval r)%Q).
    { apply Hge; [apply dbl_repr; exact Hlo|]. rewrite dbl_spec. lra. }
    rewrite dbl_spec in H. lra.
  - assert (H : (dval r <= dval (dbl up))%Q).
    { apply Hle2; [apply dbl_repr; exact Hup|]. rewrite dbl_spec. lra. }
    rewrite dbl_spec in H. lra.
Qed.

Definition mf_ok (M : Z) (lo up : dyadic) : Prop :=
  repr lo /\ repr up /\ (inject_Z M <= dval lo)%Q /\ (dval lo <= dval up)%Q.

(** [good k svs c]: first-fit with capacity c needs at most k bins *)
Definition good (k : nat) (svs : list Z) (c : dyadic) : Prop :=
  forall b, first_fit (fun v : Z => v) false (ffloor c) svs = Ok b -> (length b <= k)%nat.

Lemma probe_ok M svs c : Forall (fun v => v <= M) svs -> (inject_Z M <= dval c)%Q ->
  exists b, first_fit (fun v : Z => v) false (ffloor c) svs = Ok b.
Proof.
  intros Hall Hc. destruct (first_fit (fun v : Z => v) false (ffloor c) svs) as [b|e] eqn:E.
  - exists b. reflexivity.
  - exfalso. assert (Hex : exists e', first_fit (fun v : Z => v) false (ffloor c) svs = Err e') by (exists e; exact E).
    apply ff_error_iff_gen in Hex. apply Exists_exists in Hex. destruct Hex as (v & Hin & Hv).
    rewrite Forall_forall in Hall. specialize (Hall v Hin). apply ffloor_ge in Hc. lia.
Qed.

Lemma mf_loop_inv (G : dyadic -> Prop) M k svs : Forall (fun v => v <= M) svs ->
  (forall c b, first_fit (fun v : Z => v) false (ffloor c) svs = Ok b -> (length b <= k)%nat -> G c) ->
  forall it lo up, mf_ok M lo up -> G up ->
  exists cap, mf_loop it k svs lo up = Ok cap /\ repr cap /\
              (inject_Z M <= dval cap)%Q /\ (dval cap <= dval up)%Q /\ G cap.
Proof.
  intros Hall HG. induction it as [|it IH]; intros lo up (Hlo & Hup & HM & Hle) Hg; cbn [mf_loop].
  - exists up. split; [reflexivity|]. split; [exact Hup|]. split; [lra|]. split; [apply Qle_refl|exact Hg].
  - destruct (mf_mid_spec lo up Hlo Hup Hle) as (Hm & Hm1 & Hm2). set (mid := mf_mid lo up) in *.
    destruct (probe_ok M svs mid Hall ltac:(lra)) as [b Hb]. unfold mf_probe. rewrite Hb. cbn [rmap].
    destruct (length b <=? k)%nat eqn:E.
    + destruct (IH lo mid) as (cap & H1 & H2 & H3 & H4 & H5).
      * exact (conj Hlo (conj Hm (conj HM Hm1))).
      * apply (HG mid b Hb). apply Nat.leb_le. exact E.
      * exists cap. split; [exact H1|]. split; [exact H2|]. split; [exact H3|]. split; [lra|exact H5].
    + destruct (IH mid up) as (cap & H1 & H2 & H3 & H4 & H5).
      * assert (HM' : (inject_Z M <= dval mid)%Q) by lra. exact (conj Hm (conj Hup (conj HM' Hm2))).
      * exact Hg.
      * exists cap. split; [exact H1|]. split; [exact H2|]. split; [exact H3|]. split; [exact H4|exact H5].
Qed.


Lemma good_intro k svs c b :
  first_fit (fun v : Z => v) false (ffloor c) svs = Ok b -> (length b <= k)%nat -> good k svs c.
Proof. intros Hb Hl b' Hb'. rewrite Hb in Hb'. injection Hb' as <-. exact Hl. Qed.

(** ---- 7. the initial bounds ---- *)
Lemma inject_Z_pos z : 0 < z -> (0 < inject_Z z)%Q.
Proof. intros H. change 0%Q with (inject_Z 0). rewrite <- Zlt_Qlt. exact H. Qed.
Lemma inject_Z_nonneg z : 0 <= z -> (0 <= inject_Z z)%Q.
Proof. intros H. change 0%Q with (inject_Z 0). rewrite <- Zle_Qle. exact H. Qed.

Lemma Qdiv_Z_spec a b : 0 < b -> (inject_Z a / inject_Z b * inject_Z b == inject_Z a)%Q.
Proof. intros H. pose proof (inject_Z_pos b H). field. lra. Qed.

Lemma fof_Z_repr M : 0 <= M <= 2 ^ 53 -> repr (fof_Z M).
Proof. intros H. exact H. Qed.

Lemma init_ok k S M : 0 < k -> 0 <= S -> 0 <= M <= 2 ^ 53 ->
  mf_ok M (mf_lower0 k S M) (mf_upper0 k S M).
Proof.
  intros Hk HS HM. unfold mf_lower0, mf_upper0, fdiv_int.
  set (x1 := (inject_Z S / inject_Z k)%Q).
  assert (X1 : (x1 * inject_Z k == inject_Z S)%Q) by (apply Qdiv_Z_spec; exact Hk).
  assert (X2 : (x1 * 2 * inject_Z k == inject_Z (2 * S))%Q).
  { rewrite inject_Z_mult. change (inject_Z 2) with 2%Q. rewrite <- X1. ring. }
  pose proof (rnd53_rounds S k x1 HS Hk X1) as (R1 & _ & _ & _ & E1).
  pose proof (rnd53_rounds (2 * S) k (x1 * 2)%Q ltac:(lia) Hk X2) as (R2 & G2 & _ & _ & _).
  set (r1 := rnd53 S k) in *. set (r2 := rnd53 (2 * S) k) in *.
  assert (P1 : (0 <= x1)%Q).
  { pose proof (inject_Z_pos k Hk). pose proof (inject_Z_nonneg S HS). nra. }
  assert (H12 : (dval r1 <= dval r2)%Q).
  { apply G2; [exact R1|]. change (inject_Z (2 ^ 53)) with 9007199254740992%Q in E1.
    change (inject_Z (2 ^ 53 + 1)) with 9007199254740993%Q in E1. lra. }
  destruct (fmax_spec r1 (fof_Z M)) as (A1 & A2 & A3). destruct (fmax_spec r2 (fof_Z M)) as (B1 & B2 & B3).
  rewrite dval_fof_Z in *. unfold mf_ok. split; [|split; [|split]].
  - destruct A3 as [-> | ->]; [exact R1|apply fof_Z_repr; exact HM].
  - destruct B3 as [-> | ->]; [exact R2|apply fof_Z_repr; exact HM].
  - exact A2.
  - destruct A3 as [-> | ->]; [lra|rewrite dval_fof_Z; exact B2].
Qed.

(** the initial upper bound is large enough for first-fit to stay within k bins:
    (k+1) * (floor(upper0) + 1) > 2 S, because upper0 >= fl(2S/k) >= (2S/k)(1 - 2^-53) and k < 2^53 *)
Lemma cap0_ok k S M : 0 < k < 2 ^ 53 -> 0 <= S ->
  (k + 1) * (ffloor (mf_upper0 k S M) + 1) > 2 * S.
Proof.
  intros Hk HS. unfold mf_upper0, fdiv_int.
  set (x2 := (inject_Z (2 * S) / inject_Z k)%Q).
  assert (X2 : (x2 * inject_Z k == inject_Z (2 * S))%Q) by (apply Qdiv_Z_spec; lia).
  pose proof (rnd53_rounds (2 * S) k x2 ltac:(lia) ltac:(lia) X2) as (R2 & _ & _ & E2 & _).
  set (r2 := rnd53 (2 * S) k) in *.
  destruct (fmax_spec r2 (fof_Z M)) as (B1 & _ & _). set (u := fmax r2 (fof_Z M)) in *.
  destruct (ffloor_spec u) as [_ F]. set (C := ffloor u) in *.
  assert (PK : (0 < inject_Z k)%Q) by (apply inject_Z_pos; lia).
  assert (P2 : (0 <= x2)%Q).
  { pose proof (inject_Z_nonneg (2 * S) ltac:(lia)). nra. }
  apply Z.lt_gt. rewrite Zlt_Qlt. rewrite (inject_Z_mult (k + 1)), (inject_Z_plus k 1), <- X2.
  assert (KT : (inject_Z k + 1 <= inject_Z (2 ^ 53))%Q).
  { change 1%Q with (inject_Z 1). rewrite <- inject_Z_plus, <- Zle_Qle. lia. }
  change (inject_Z 1) with 1%Q.
  change (inject_Z (2 ^ 53)) with 9007199254740992%Q in *.
  change (inject_Z (2 ^ 53 - 1)) with 9007199254740991%Q in *.
  set (K := inject_Z k) in *. set (c := inject_Z (C + 1)) in *.
  set (rv := dval r2) in *. set (uv := dval u) in *.
  assert (S1 : (rv < c)%Q) by lra.
  assert (S2 : ((K + 1) * rv * 9007199254740992 < (K + 1) * c * 9007199254740992)%Q) by nra.
  assert (S3 : ((K + 1) * (x2 * 9007199254740991) <= (K + 1) * (rv * 9007199254740992))%Q) by nra.
  assert (S4 : (x2 * K * 9007199254740992 <= (K + 1) * (x2 * 9007199254740991))%Q) by nra.
  nra.
Qed.

(** ---- 8. any-fit: every two bins together exceed the capacity ---- *)
Lemma mf_zsum_cons x l : zsum (x :: l) = x + zsum l.
Proof. reflexivity. Qed.

Lemma pairwise_sum_aux T : forall n,
  (forall l, length l = (n + 2)%nat -> StronglySorted (fun a c => T <= a + c) l ->
             Z.of_nat (length l) * T <= 2 * zsum l) /\
  (forall l, length l = (S n + 2)%nat -> StronglySorted (fun a c => T <= a + c) l ->
             Z.of_nat (length l) * T <= 2 * zsum l).
Proof.
  induction n as [|n [IH1 IH2]].
  - split; intros l Hlen Hs.
    + destruct l as [|a [|c [|d t]]]; try discriminate Hlen.
      inversion Hs as [|a' l' Hs1 Ha]; subst. inversion Ha as [|c' l' Hac _]; subst.
      rewrite !mf_zsum_cons. cbn [length zsum fold_right]. lia.
    + destruct l as [|a [|c [|d [|f t]]]]; try discriminate Hlen.
      inversion Hs as [|a' l' Hs1 Ha]; subst. inversion Ha as [|c' l' Hac Ha2]; subst.
      inversion Ha2 as [|d' l' Had _]; subst.
      inversion Hs1 as [|c' l' _ Hc]; subst. inversion Hc as [|d' l' Hcd _]; subst.
      rewrite !mf_zsum_cons. cbn [length zsum fold_right]. lia.
  - split; [exact IH2|]. intros l Hlen Hs.
    destruct l as [|a [|c t]]; try discriminate Hlen.
    inversion Hs as [|a' l' Hs1 Ha]; subst. inversion Ha as [|c' l' Hac _]; subst.
    inversion Hs1 as [|c' l' Hs2 _]; subst.
    assert (Ht : length t = (n + 2)%nat) by (cbn [length] in Hlen; lia).
    specialize (IH1 t Ht Hs2). rewrite !mf_zsum_cons. cbn [length]. rewrite !Nat2Z.inj_succ. lia.
Qed.

Lemma pairwise_sum T l : StronglySorted (fun a c => T <= a + c) l -> (2 <= length l)%nat ->
  Z.of_nat (length l) * T <= 2 * zsum l.
Proof.
  intros Hs Hlen. destruct (pairwise_sum_aux T (length l - 2)) as [H _]. apply H; [lia|exact Hs].
Qed.

Section AnyfitPairwise.
  Context {A : Type} (valueof : A -> Z).

  Lemma Forall_contents (P : A -> Prop) (b : bins A) :
    Forall P (contents b) -> Forall (fun bn => Forall P (snd bn)) b.
  Proof.
    induction b as [|bn t IH]; intros H; [constructor|].
    rewrite contents_cons in H. apply Forall_app in H. destruct H as [H1 H2].
    constructor; [exact H1|apply IH; exact H2].
  Qed.

  Lemma anyfit_pairwise C (b : bins A) :
    anyfit valueof C b -> wf valueof b -> Forall (fun x => 0 <= valueof x) (contents b) ->
    StronglySorted (fun a c => C + 1 <= a + c) (sums b).
  Proof.
    intros Ha Hw Hnn. apply Forall_contents in Hnn.
    induction b as [|bn t IH]; [constructor|].
    rewrite anyfit_cons in Ha. destruct Ha as [Hl Ht].
    inversion Hw as [|bn' t' Hwb Hwt]; subst. inversion Hnn as [|bn' t' Hnb Hnt]; subst.
    unfold sums. cbn [map]. constructor; [apply IH; assumption|].
    rewrite Forall_map. unfold wf in Hwt. rewrite Forall_forall in *.
    intros later Hin. specialize (Hl later Hin). unfold later_ok in Hl.
    destruct (snd later) as [|y l] eqn:E; [contradiction|].
    pose proof (wf_bin_head_le valueof later y l (Hwt later Hin) (Hnt later Hin) E). lia.
  Qed.
End AnyfitPairwise.

(** hence first-fit with a capacity C such that (k+1)(C+1) > 2 S uses at most k bins *)
Lemma good_of_cap0 (k : nat) svs C : svs <> [] -> Forall (fun v => 0 <= v) svs -> (1 <= k)%nat ->
  (Z.of_nat k + 1) * (C + 1) > 2 * zsum svs ->
  forall b, first_fit (fun v : Z => v) false C svs = Ok b -> (length b <= k)%nat.
Proof.
  intros Hne Hnn Hk Hcap b Hb.
  pose proof (ff_erase (fun v : Z => v) C svs) as He. rewrite Hb in He.
  destruct (first_fit (fun v : Z => v) true C svs) as [b1|e] eqn:E1; [|discriminate He].
  cbn [rmap] in He. injection He as He. subst b. rewrite erase_length.
  destruct (ff_Inv (fun v : Z => v) C svs b1 Hne Hnn E1) as (Hw & _ & Hp & _ & _ & Ha).
  destruct (le_lt_dec (length b1) k) as [Hle|Hgt]; [exact Hle|exfalso].
  assert (Hnn1 : Forall (fun x : Z => 0 <= x) (contents b1)).
  { eapply Permutation_Forall; [symmetry; exact Hp|exact Hnn]. }
  pose proof (anyfit_pairwise (fun v : Z => v) C b1 Ha Hw Hnn1) as Hs.
  pose proof (pairwise_sum (C + 1) (sums b1) Hs) as Hsum.
  assert (Hlen : length (sums b1) = length b1) by apply map_length.
  rewrite Hlen in Hsum. specialize (Hsum ltac:(lia)).
  rewrite (wf_total (fun v : Z => v) b1 Hw), map_id, (zsum_perm _ _ Hp) in Hsum.
  assert (Hs0 : 0 <= zsum svs) by (apply zsum_nonneg; exact Hnn).
  nia.
Qed.

Lemma cdiv_spec a b : 0 < b -> a <= cdiv a b * b < a + b.
Proof.
  intros Hb. unfold cdiv. pose proof (Z.div_mod (- a) b ltac:(lia)). pose proof (Z.mod_pos_bound (- a) b Hb). nia.
Qed.

(** ---- 9. the theorems ---- *)
Lemma multifit_capacity_unfold it k vs : vs <> [] -> (1 <= k)%nat ->
  multifit_capacity it k vs =
  mf_loop it k (sort_desc (fun v : Z => v) vs)
    (mf_lower0 (Z.of_nat k) (zsum vs) (zmax vs)) (mf_upper0 (Z.of_nat k) (zsum vs) (zmax vs)).
Proof.
  intros Hne Hk. unfold multifit_capacity. destruct vs as [|v t]; [congruence|].
  destruct k as [|k]; [lia|]. reflexivity.
Qed.

Lemma zmax_le_zsum l : Forall (fun v => 0 <= v) l -> zmax l <= zsum l.
Proof.
  intros Hnn. destruct l as [|x t]; [cbn; lia|].
  pose proof (zmax_in (x :: t) ltac:(discriminate)) as Hin. revert Hin. generalize (zmax (x :: t)). intros m Hin.
  induction Hnn as [|y l Hy Hl IH]; [destruct Hin|].
  rewrite mf_zsum_cons. pose proof (zsum_nonneg l Hl). destruct Hin as [->|Hin]; [lia|]. specialize (IH Hin). lia.
Qed.

Section MultifitTheorems.
  Context {A : Type} (valueof : A -> Z).
  Notation idZ := (fun v : Z => v).

  Section Facts.
    Variables (items : list A).
    Hypothesis Hne : items <> [].
    Hypothesis Hnn : Forall (fun x => 0 <= valueof x) items.
    Let vs := map valueof items.

    Lemma vs_ne : vs <> [].
    Proof. subst vs. destruct items; [congruence|discriminate]. Qed.
    Lemma vs_nonneg : Forall (fun v => 0 <= v) vs.
    Proof. subst vs. rewrite Forall_map. exact Hnn. Qed.
    Lemma vs_sum_nonneg : 0 <= zsum vs.
    Proof. apply zsum_nonneg, vs_nonneg. Qed.
    Lemma vs_max_nonneg : 0 <= zmax vs.
    Proof. pose proof (zmax_in vs vs_ne) as H. pose proof vs_nonneg as H2. rewrite Forall_forall in H2. apply H2, H. Qed.
    Lemma svs_le_max : Forall (fun v => v <= zmax vs) (sort_desc idZ vs).
    Proof. eapply Permutation_Forall; [symmetry; apply sort_desc_perm|apply zmax_ge]. Qed.
    Lemma svs_ne : sort_desc idZ vs <> [].
    Proof. apply sort_desc_nonnil, vs_ne. Qed.
    Lemma svs_nonneg : Forall (fun v => 0 <= v) (sort_desc idZ vs).
    Proof. eapply Permutation_Forall; [symmetry; apply sort_desc_perm|apply vs_nonneg]. Qed.
    Lemma svs_sum : zsum (sort_desc idZ vs) = zsum vs.
    Proof. apply zsum_perm, sort_desc_perm. Qed.
    Lemma svs_map : sort_desc idZ vs = map valueof (sort_desc valueof items).
    Proof. subst vs. symmetry. apply (sort_desc_map valueof valueof idZ). reflexivity. Qed.

    (** the binary search succeeds; its result is representable, at least the largest value,
        at most the initial upper bound, and satisfies every predicate that holds for the
        initial upper bound and for every probed capacity that needed <= k bins *)
    Lemma capacity_inv (G : dyadic -> Prop) it k : (1 <= k)%nat -> zmax vs <= 2 ^ 53 ->
      (forall c b, first_fit idZ false (ffloor c) (sort_desc idZ vs) = Ok b -> (length b <= k)%nat -> G c) ->
      G (mf_upper0 (Z.of_nat k) (zsum vs) (zmax vs)) ->
      exists cap, multifit_capacity it k vs = Ok cap /\ repr cap /\
        (inject_Z (zmax vs) <= dval cap)%Q /\
        (dval cap <= dval (mf_upper0 (Z.of_nat k) (zsum vs) (zmax vs)))%Q /\ G cap.
    Proof.
      intros Hk HM HG HG0. rewrite (multifit_capacity_unfold it k vs vs_ne Hk).
      apply (mf_loop_inv G (zmax vs) k (sort_desc idZ vs) svs_le_max HG).
      - apply init_ok; [lia|apply vs_sum_nonneg|]. split; [apply vs_max_nonneg|exact HM].
      - exact HG0.
    Qed.
  End Facts.

  (** a. the result is a partition of the items into non-empty bins with correct sums *)
  Theorem multifit_partition it k items b :
    items <> [] -> Forall (fun x => 0 <= valueof x) items ->
    multifit valueof true it k items = Ok b ->
    Permutation (contents b) items /\ wf valueof b /\ all_nonempty b.
  Proof.
    intros Hne Hnn H. unfold multifit in H.
    destruct (multifit_capacity it k (map valueof items)) as [cap|e]; [|discriminate H]. cbn [rbind] in H.
    destruct (ffd_Inv valueof (ffloor cap) items b Hne Hnn H) as (Hw & _ & Hp & Hr & _).
    split; [exact Hp|]. split; [exact Hw|exact Hr].
  Qed.

  (** a'. it never fails (either binner) *)
  Theorem multifit_total keep it k items :
    items <> [] -> Forall (fun x => 0 <= valueof x) items -> (1 <= k)%nat ->
    zmax (map valueof items) <= 2 ^ 53 ->
    exists b, multifit valueof keep it k items = Ok b.
  Proof.
    intros Hne Hnn Hk HM.
    destruct (capacity_inv items Hne Hnn (fun _ => True) it k Hk HM) as (cap & Hc & _ & Hge & _); [trivial|trivial|].
    unfold multifit. rewrite Hc. cbn [rbind].
    destruct (first_fit valueof keep (ffloor cap) (sort_desc valueof items)) as [b|e] eqn:E; [exists b; reflexivity|].
    exfalso. assert (Hex : exists e', first_fit valueof keep (ffloor cap) (sort_desc valueof items) = Err e') by (exists e; exact E).
    apply ff_error_iff_gen in Hex. apply sort_desc_Exists in Hex. apply Exists_exists in Hex.
    destruct Hex as (x & Hin & Hx). apply ffloor_ge in Hge.
    pose proof (zmax_ge (map valueof items)) as Hmax. rewrite Forall_forall in Hmax.
    specialize (Hmax (valueof x) (in_map valueof items x Hin)). lia.
  Qed.

  (** c. the sums-only binner makes the same decisions; names are irrelevant *)
  Theorem multifit_erase it k items :
    rmap erase (multifit valueof true it k items) = multifit valueof false it k items.
  Proof.
    unfold multifit. destruct (multifit_capacity it k (map valueof items)) as [cap|e]; [|reflexivity].
    cbn [rbind]. apply ff_erase.
  Qed.

  Theorem multifit_names it k items :
    rmap (map_bins valueof) (multifit valueof true it k items) =
    multifit idZ true it k (map valueof items).
  Proof.
    unfold multifit. rewrite map_id.
    destruct (multifit_capacity it k (map valueof items)) as [cap|e]; [|reflexivity].
    cbn [rbind]. rewrite ff_names. rewrite (sort_desc_map valueof valueof idZ) by reflexivity. reflexivity.
  Qed.

  (** the bin count of the final run equals the bin count of the probe at the same capacity *)
  Lemma final_probe C items b :
    first_fit valueof true C (sort_desc valueof items) = Ok b ->
    first_fit idZ false C (sort_desc idZ (map valueof items)) = Ok (erase (map_bins valueof b)).
  Proof.
    intros H. rewrite <- (sort_desc_map valueof valueof idZ) by reflexivity.
    rewrite <- (ff_erase idZ), <- ff_names, H. reflexivity.
  Qed.

  (** b. at most k bins.  [k < 2^53]: numbins must itself be a double-representable count
      (for larger k the rounding error of 2*S/k could exceed the slack of the any-fit bound). *)
  Theorem multifit_at_most_k it k items b :
    items <> [] -> Forall (fun x => 0 <= valueof x) items -> (1 <= k)%nat ->
    zmax (map valueof items) <= 2 ^ 53 -> Z.of_nat k < 2 ^ 53 ->
    multifit valueof true it k items = Ok b -> (length b <= k)%nat.
  Proof.
    intros Hne Hnn Hk HM Hk53 H. set (vs := map valueof items).
    destruct (capacity_inv items Hne Hnn (good k (sort_desc idZ vs)) it k Hk HM) as (cap & Hc & _ & _ & _ & Hg).
    - intros c b0. apply good_intro.
    - unfold good. apply good_of_cap0.
      + apply svs_ne; assumption.
      + apply svs_nonneg; assumption.
      + exact Hk.
      + unfold vs. rewrite (svs_sum items). apply cap0_ok; [lia|apply vs_sum_nonneg; assumption].
    - unfold multifit in H. rewrite Hc in H. cbn [rbind] in H.
      apply final_probe in H. apply Hg in H. rewrite erase_length in H. unfold map_bins in H.
      rewrite map_length in H. exact H.
  Qed.

  (** d. (C08, constant 2) every bin sum is at most floor(upper_bound) <= 2 * max(ceil(S/k), M) *)
  Theorem multifit_ratio_2_bound it k items b :
    items <> [] -> Forall (fun x => 0 <= valueof x) items -> (1 <= k)%nat ->
    zsum (map valueof items) <= 2 ^ 53 ->
    multifit valueof true it k items = Ok b ->
    Forall (fun s => s <= 2 * Z.max (cdiv (zsum (map valueof items)) (Z.of_nat k)) (zmax (map valueof items)))
           (sums b).
  Proof.
    intros Hne Hnn Hk HS H.
    pose proof (vs_nonneg items Hnn) as Vnn. pose proof (vs_sum_nonneg items Hnn) as VS.
    pose proof (vs_max_nonneg items Hne Hnn) as VM. pose proof (zmax_le_zsum _ Vnn) as VMS.
    set (vs := map valueof items) in *. set (S := zsum vs) in *. set (M := zmax vs) in *.
    set (kz := Z.of_nat k). assert (Hkz : 0 < kz) by (subst kz; lia).
    destruct (cdiv_spec S kz Hkz) as [C1 C2]. set (c := cdiv S kz) in *.
    assert (Hc0 : 0 <= c <= 2 ^ 53) by nia.
    destruct (capacity_inv items Hne Hnn (fun _ => True) it k Hk ltac:(fold vs; fold M; lia))
      as (cap & Hc & _ & _ & Hle & _); [trivial|trivial|]. fold vs S M kz in Hc, Hle.
    (* upper0 <= 2 * max c M *)
    assert (HU : (dval (mf_upper0 kz S M) <= inject_Z (2 * Z.max c M))%Q).
    { unfold mf_upper0, fdiv_int.
      set (x2 := (inject_Z (2 * S) / inject_Z kz)%Q).
      assert (X2 : (x2 * inject_Z kz == inject_Z (2 * S))%Q) by (apply Qdiv_Z_spec; exact Hkz).
      pose proof (rnd53_rounds (2 * S) kz x2 ltac:(lia) Hkz X2) as (_ & _ & G3 & _ & _).
      destruct (fmax_spec (rnd53 (2 * S) kz) (fof_Z M)) as (_ & _ & [-> | ->]).
      - assert (Ha : (dval (rnd53 (2 * S) kz) <= dval (dbl (fof_Z c)))%Q).
        { apply G3; [apply dbl_repr, fof_Z_repr; exact Hc0|]. rewrite dbl_spec, dval_fof_Z.
          apply (Qcancel_r _ _ (inject_Z kz) (inject_Z_pos kz Hkz)). rewrite X2.
          change 2%Q with (inject_Z 2). rewrite <- !inject_Z_mult, <- Zle_Qle. lia. }
        rewrite dbl_spec, dval_fof_Z in Ha. change 2%Q with (inject_Z 2) in Ha.
        rewrite <- inject_Z_mult in Ha. eapply Qle_trans; [exact Ha|]. rewrite <- Zle_Qle. lia.
      - rewrite dval_fof_Z, <- Zle_Qle. lia. }
    unfold multifit in H. fold vs in H. rewrite Hc in H. cbn [rbind] in H.
    destruct (ffd_Inv valueof (ffloor cap) items b Hne Hnn H) as (_ & Hf & _).
    unfold sums. rewrite Forall_map. eapply Forall_impl; [|exact Hf]. intros bn Hbn. cbv beta in Hbn.
    destruct (ffloor_spec cap) as [F1 _].
    rewrite Zle_Qle. eapply Qle_trans; [rewrite <- Zle_Qle; exact Hbn|].
    eapply Qle_trans; [exact F1|]. eapply Qle_trans; [exact Hle|exact HU].
  Qed.

  (** hence the largest sum is at most twice the optimal largest sum *)
  Theorem multifit_ratio_2 it k items b opt :
    items <> [] -> Forall (fun x => 0 <= valueof x) items -> (1 <= k)%nat ->
    zsum (map valueof items) <= 2 ^ 53 ->
    multifit valueof true it k items = Ok b ->
    Opt MinLargest k (map valueof items) opt ->
    zmax (sums b) <= 2 * opt.
  Proof.
    intros Hne Hnn Hk HS H Hopt.
    pose proof (multifit_ratio_2_bound it k items b Hne Hnn Hk HS H) as Hb.
    pose proof (vs_nonneg items Hnn) as Vnn.
    destruct (opt_minlargest_lower_bounds k _ opt Hopt Vnn Hk) as [O1 _].
    pose proof (opt_minlargest_ge_vmax k _ opt Hopt Vnn Hk) as O2.
    assert (Hkz : 0 < Z.of_nat k) by lia.
    destruct (cdiv_spec (zsum (map valueof items)) (Z.of_nat k) Hkz) as [C1 C2].
    assert (Hc : cdiv (zsum (map valueof items)) (Z.of_nat k) <= opt) by nia.
    assert (Hbne : sums b <> []).
    { destruct b as [|bn t]; [|discriminate]. unfold multifit in H.
      destruct (multifit_capacity it k (map valueof items)) as [cap|e]; [|discriminate H]. cbn [rbind] in H.
      destruct (ffd_Inv valueof (ffloor cap) items [] Hne Hnn H) as (_ & _ & Hp & _).
      apply Permutation_nil in Hp. congruence. }
    pose proof (zmax_in (sums b) Hbne) as Hin. rewrite Forall_forall in Hb. specialize (Hb _ Hin). lia.
  Qed.
End MultifitTheorems.

(** sums-only binner: same bound *)
Corollary multifit_at_most_k_sums {A} (valueof : A -> Z) it k items b :
  items <> [] -> Forall (fun x => 0 <= valueof x) items -> (1 <= k)%nat ->
  zmax (map valueof items) <= 2 ^ 53 -> Z.of_nat k < 2 ^ 53 ->
  multifit valueof false it k items = Ok b -> (length b <= k)%nat.
Proof.
  intros Hne Hnn Hk HM Hk53 H. rewrite <- multifit_erase in H.
  destruct (multifit valueof true it k items) as [b1|e] eqn:E; [|discriminate H].
  cbn [rmap] in H. injection H as <-. rewrite erase_length.
  apply (multifit_at_most_k valueof it k items b1); assumption.
Qed.

(** ---- 10. examples (docstring of multifit.py) ---- *)
Definition example4 : list Z := [9; 7; 6; 5; 5; 4; 4; 4; 4; 4; 4; 4; 4; 4].
Definition example13 : list Z :=
  concat (repeat [40; 13; 13] 8) ++ concat (repeat [25; 25; 16] 3) ++ concat (repeat [25; 24; 17] 2).

Example multifit_doc_1234 :
  multifit (fun v : Z => v) true 10 2 [1; 2; 3; 4] = Ok [(5, [4; 1]); (5, [3; 2])].
Proof. vm_compute. reflexivity. Qed.

Example multifit_example4_k4 :
  multifit (fun v : Z => v) true 10 4 example4 =
  Ok [(20, [9; 7; 4]); (20, [6; 5; 5; 4]); (20, [4; 4; 4; 4; 4]); (8, [4; 4])].
Proof. vm_compute. reflexivity. Qed.

Example multifit_example4_k5 :
  multifit (fun v : Z => v) true 10 5 example4 =
  Ok [(16, [9; 7]); (16, [6; 5; 5]); (16, [4; 4; 4; 4]); (16, [4; 4; 4; 4]); (4, [4])].
Proof. vm_compute. reflexivity. Qed.

Example multifit_example13_k13 :
  rmap (@sums Z) (multifit (fun v : Z => v) false 10 13 example13) = Ok (repeat 78 11).
Proof. vm_compute. reflexivity. Qed.

Example multifit_example13_k14 :
  rmap (@sums Z) (multifit (fun v : Z => v) false 10 14 example13) = Ok (repeat 65 13 ++ [13]).
Proof. vm_compute. reflexivity. Qed.

(** MultiFit may return FEWER than numbins bins (it returns first-fit's bins unpadded), so
    [is_partition k] (which demands exactly k bins) does not hold in general: *)
Example multifit_fewer_bins :
  rmap (@length (bin Z)) (multifit (fun v : Z => v) true 10 13 example13) = Ok 11%nat.
Proof. vm_compute. reflexivity. Qed.

(** the hypothesis [zmax <= 2^53] of [multifit_total] is needed: with the single item 2^53 + 1
    and 3 bins, lower = upper = 2^53 + 1 (a Python int), (lower+upper)/2 rounds to 2^53 and
    first-fit refuses the item.  prtpy raises the same ValueError. *)
Example multifit_unrepresentable_max_fails :
  multifit (fun v : Z => v) true 10 3 [2 ^ 53 + 1] = Err ValueError.
Proof. vm_compute. reflexivity. Qed.

(** degenerate inputs: max() of an empty sequence / division by zero *)
Example multifit_empty : multifit (fun v : Z => v) true 10 3 [] = Err ValueError.
Proof. vm_compute. reflexivity. Qed.
Example multifit_zero_bins : multifit (fun v : Z => v) true 10 0 [1; 2] = Err ZeroDivisionError.
Proof. vm_compute. reflexivity. Qed.

Check rnd53_rounds.
Check mf_loop_inv.
Check multifit_partition.
Check multifit_total.
Check multifit_at_most_k.
Check multifit_at_most_k_sums.
Check multifit_erase.
Check multifit_names.
Check multifit_ratio_2_bound.
Check multifit_ratio_2.

Print Assumptions rnd53_rounds.
Print Assumptions mf_loop_inv.
Print Assumptions multifit_partition.
Print Assumptions multifit_total.
Print Assumptions multifit_at_most_k.
Print Assumptions multifit_at_most_k_sums.
Print Assumptions multifit_erase.
Print Assumptions multifit_names.
Print Assumptions multifit_ratio_2_bound.
Print Assumptions multifit_ratio_2.
Print Assumptions multifit_example4_k4.
Print Assumptions multifit_unrepresentable_max_fails.
