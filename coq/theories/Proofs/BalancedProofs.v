(** Properties of the model of balanced.py (Model/Balanced.v): partition (C01), the sums-only run makes the same
    decisions (C06), names are irrelevant (C07), input order is irrelevant and scaling commutes (C18). *)
From Coq Require Import ZifyBool.
From Prtpy Require Import Base.Prelude Model.Binner Model.Balanced Spec.Partition Proofs.BaseLemmas Proofs.BinnerLemmas Proofs.GreedyProofs Proofs.MetaProofs Model.Output Proofs.EraseProofs.

Section BalancedProofs.
  Context {A : Type} (valueof : A -> Z).

  Lemma bidir_next_lt k ibin up : (ibin < k)%nat -> (fst (bidir_next k ibin up) < k)%nat.
  Proof.
    intros H. unfold bidir_next. destruct up.
    - destruct (Nat.ltb (k - 1) (S ibin)) eqn:E; cbn [fst]; lia.
    - destruct ibin; cbn [fst]; lia.
  Qed.

  Lemma bidir_loop_part_inv k l : forall ibin up b, (ibin < k)%nat -> length b = k -> wf valueof b ->
    length (bidir_loop valueof true k l ibin up b) = k /\
    wf valueof (bidir_loop valueof true k l ibin up b) /\
    Permutation (contents (bidir_loop valueof true k l ibin up b)) (l ++ contents b).
  Proof.
    induction l as [|x t IH]; intros ibin up b Hi Hlen Hwf.
    - simpl. auto.
    - cbn [bidir_loop]. pose proof (bidir_next_lt k ibin up Hi) as Hn.
      destruct (bidir_next k ibin up) as [i' up']. cbn [fst] in Hn.
      destruct (IH i' up' (add_item valueof true b x ibin)) as (H1 & H2 & H3).
      + exact Hn.
      + rewrite add_item_length; auto.
      + apply add_item_wf; auto.
      + split; [auto|]. split; [auto|].
        rewrite H3. rewrite add_item_contents by lia.
        simpl. symmetry. apply Permutation_middle.
  Qed.

  Theorem bidirectional_balanced_partition : forall k items, (1 <= k)%nat ->
    is_partition valueof k items (bidirectional_balanced valueof true k items).
  Proof.
    intros k items Hk. unfold is_partition, bidirectional_balanced.
    destruct (bidir_loop_part_inv k (sort_desc valueof items) O true (new_bins k)) as (H1 & H2 & H3).
    - lia.
    - apply new_bins_length.
    - apply new_bins_wf.
    - rewrite new_bins_contents, app_nil_r in H3.
      split; [|split]; auto.
      rewrite H3. apply sort_desc_perm.
  Qed.

  Lemma erase_bidir_loop k l : forall ibin up (b : bins A),
    erase (bidir_loop valueof true k l ibin up b) = bidir_loop valueof false k l ibin up (erase b).
  Proof.
    induction l as [|x t IH]; intros ibin up b; cbn [bidir_loop]; [reflexivity|].
    destruct (bidir_next k ibin up) as [i' up'].
    rewrite IH, erase_add_item. reflexivity.
  Qed.

  Theorem bidirectional_balanced_erase : forall k items,
    erase (bidirectional_balanced valueof true k items) = bidirectional_balanced valueof false k items.
  Proof.
    intros k items. unfold bidirectional_balanced. rewrite erase_bidir_loop, erase_new_bins. reflexivity.
  Qed.

  Lemma map_bins_bidir_loop k l : forall ibin up (b : bins A),
    map_bins valueof (bidir_loop valueof true k l ibin up b) =
    bidir_loop (fun v : Z => v) true k (map valueof l) ibin up (map_bins valueof b).
  Proof.
    induction l as [|x t IH]; intros ibin up b; cbn [bidir_loop map]; [reflexivity|].
    destruct (bidir_next k ibin up) as [i' up'].
    rewrite IH, map_bins_add_item. reflexivity.
  Qed.

  Theorem bidirectional_balanced_names : forall k items,
    map_bins valueof (bidirectional_balanced valueof true k items) =
    bidirectional_balanced (fun v : Z => v) true k (map valueof items).
  Proof.
    intros k items. unfold bidirectional_balanced.
    rewrite map_bins_bidir_loop, map_bins_new_bins.
    rewrite (sort_desc_map valueof valueof (fun v : Z => v)) by reflexivity.
    reflexivity.
  Qed.

  Theorem C06_bidirectional_balanced : forall o k items, keeps o = false ->
    run_partition o (@bidirectional_balanced A) valueof k items = derive o (sums (bidirectional_balanced valueof true k items)).
  Proof.
    intros o k items Hk. unfold run_partition.
    apply (C06_schema (fun keep => bidirectional_balanced valueof keep k items)); [apply bidirectional_balanced_erase|exact Hk].
  Qed.
End BalancedProofs.

(** ---- input order is irrelevant; scaling commutes (C18) ---- *)
Theorem bidirectional_balanced_perm k vs1 vs2 : Permutation vs1 vs2 ->
  bidirectional_balanced id true k vs1 = bidirectional_balanced id true k vs2.
Proof. intros P. unfold bidirectional_balanced. rewrite (sort_desc_perm_eq vs1 vs2 P). reflexivity. Qed.

Lemma bidir_loop_scale c k l : forall ibin up b,
  bidir_loop id true k (map (Z.mul c) l) ibin up (scale_bins c b) = scale_bins c (bidir_loop id true k l ibin up b).
Proof.
  induction l as [|x t IH]; intros ibin up b; cbn [bidir_loop map]; [reflexivity|].
  destruct (bidir_next k ibin up) as [i' up'].
  rewrite add_item_scale. apply IH.
Qed.

Theorem bidirectional_balanced_scale : forall c k vs, 0 < c ->
  bidirectional_balanced id true k (map (Z.mul c) vs) = scale_bins c (bidirectional_balanced id true k vs).
Proof.
  intros c k vs Hc. unfold bidirectional_balanced. rewrite (sort_desc_scale c vs Hc).
  rewrite <- bidir_loop_scale, scale_bins_new. reflexivity.
Qed.

Print Assumptions bidirectional_balanced_partition.
Print Assumptions bidirectional_balanced_erase.
Print Assumptions bidirectional_balanced_names.
Print Assumptions bidirectional_balanced_perm.
Print Assumptions bidirectional_balanced_scale.
Print Assumptions C06_bidirectional_balanced.
