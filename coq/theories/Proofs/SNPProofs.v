(** Proofs about Model/SNP.v: sequential number partitioning (snp) and, marginally, rnp.

    1. [find_diff_perm]            find_diff is the multiset difference (names determine items)
    2. [snp_partition]             snp returns a partition (C01)
    3. [snp_never_worse_than_kk]   the incumbent only improves
    4. [snp_optimal_from_ckk]      snp is optimal for MinDiff (C02), given 2-way optimality of ckk
       with the stand-alone arithmetic lemmas [smallest_bin_in_window] (Korf's window) and
       [balanced_two_minimises_spread] (the 2-way base case)
    5. [rnp_k2], [rnp_partition_small]

    Section hypothesis [Hinj]: equal names mean equal items.  It holds in both uses of the
    library: plain numeric input (name = value = the item) and named input (distinct names).
    find_diff works on names (collections.Counter of the item names) and returns copies of
    the FIRST item carrying each name, so without [Hinj] it is not a multiset difference of
    items. *)
From Prtpy Require Import Base.Prelude Model.Binner Model.Objectives Model.KK Model.InExTree Model.SNP
  Spec.Partition Proofs.BaseLemmas Proofs.BinnerLemmas Proofs.KKProofs Proofs.EnumProofs
  Proofs.ObjectivesProofs Proofs.CoveringProofs.
From Coq Require Import ZifyBool.

(** ---- stand-alone facts about lists of integers ---- *)

Lemma spread_perm l1 l2 : Permutation l1 l2 -> spread l1 = spread l2.
Proof. intros P. unfold spread. rewrite (zmax_perm l1 l2 P), (zmin_perm l1 l2 P). reflexivity. Qed.

Lemma spread_nonneg l : 0 <= spread l.
Proof. unfold spread. pose proof (zmin_le_zmax l). lia. Qed.

Lemma In_zmax_le x l : In x l -> x <= zmax l.
Proof. intros H. pose proof (zmax_ge l) as G. rewrite Forall_forall in G. apply G. exact H. Qed.

Lemma In_zmin_ge x l : In x l -> zmin l <= x.
Proof. intros H. pose proof (zmin_le l) as G. rewrite Forall_forall in G. apply G. exact H. Qed.

(** one element set aside, the others bounded by M *)
Lemma zsum_pull x l M : In x l -> Forall (fun y => y <= M) l ->
  zsum l <= x + (Z.of_nat (length l) - 1) * M.
Proof.
  intros Hin HM. destruct (in_split _ _ Hin) as (l1 & l2 & E). subst l.
  apply Forall_app in HM. destruct HM as [HM1 HM2]. apply Forall_inv_tail in HM2.
  pose proof (zsum_le_len_mul _ _ HM1) as G1. pose proof (zsum_le_len_mul _ _ HM2) as G2.
  rewrite zsum_app, app_length. cbn [length zsum fold_right]. fold (zsum l2). nia.
Qed.

(** Korf's window: in a partition of total [zsum s] into [length s] bins whose spread is at
    most d, the smallest bin lies in [ (t - (k-1) d) / k , t / k ]. *)
Theorem smallest_bin_in_window : forall (s : list Z) (d : Z), s <> [] -> spread s <= d ->
  let k := Z.of_nat (length s) in
  k * zmin s <= zsum s /\ zsum s - (k - 1) * d <= k * zmin s.
Proof.
  intros s d Hne Hd k. subst k. split.
  - apply zsum_ge_len. apply zmin_le.
  - pose proof (zsum_pull (zmin s) s (zmax s) (zmin_in s Hne) (zmax_ge s)) as G.
    unfold spread in Hd.
    assert (Hk : 1 <= Z.of_nat (length s)) by (destruct s; [congruence|cbn [length]; lia]).
    nia.
Qed.

(** the 2-way base case: with the total of the two bins fixed, the more balanced pair gives
    the smaller overall spread together with any fixed other sums *)
Theorem balanced_two_minimises_spread : forall (a b a' b' : Z) (p : list Z),
  a + b = a' + b' -> spread [a; b] <= spread [a'; b'] ->
  spread ([a; b] ++ p) <= spread ([a'; b'] ++ p).
Proof.
  intros a b a' b' p Hs Hd. unfold spread in *. cbn [zmax zmin zmax_list zmin_list] in Hd.
  assert (HM : zmax ([a; b] ++ p) <= zmax ([a'; b'] ++ p)).
  { pose proof (zmax_in ([a; b] ++ p)) as Hin. cbn [app] in *.
    destruct Hin as [E|[E|Hin]]; [discriminate| | |].
    - pose proof (In_zmax_le a' (a' :: b' :: p)) as G1. pose proof (In_zmax_le b' (a' :: b' :: p)) as G2.
      cbn [In] in G1, G2. rewrite <- E. lia.
    - pose proof (In_zmax_le a' (a' :: b' :: p)) as G1. pose proof (In_zmax_le b' (a' :: b' :: p)) as G2.
      cbn [In] in G1, G2. rewrite <- E. lia.
    - apply In_zmax_le. right. right. exact Hin. }
  assert (Hm : zmin ([a'; b'] ++ p) <= zmin ([a; b] ++ p)).
  { pose proof (zmin_in ([a; b] ++ p)) as Hin. cbn [app] in *.
    destruct Hin as [E|[E|Hin]]; [discriminate| | |].
    - pose proof (In_zmin_ge a' (a' :: b' :: p)) as G1. pose proof (In_zmin_ge b' (a' :: b' :: p)) as G2.
      cbn [In] in G1, G2. rewrite <- E. lia.
    - pose proof (In_zmin_ge a' (a' :: b' :: p)) as G1. pose proof (In_zmin_ge b' (a' :: b' :: p)) as G2.
      cbn [In] in G1, G2. rewrite <- E. lia.
    - apply In_zmin_ge. right. right. exact Hin. }
  lia.
Qed.

(** ---- generic list helpers ---- *)

Lemma concat_perm {T} (l1 l2 : list (list T)) : Permutation l1 l2 -> Permutation (concat l1) (concat l2).
Proof.
  induction 1 as [|x l l' HP IH|x y l|l l' l'' HP1 IH1 HP2 IH2]; cbn [concat].
  - apply Permutation_refl.
  - apply Permutation_app_head. exact IH.
  - rewrite !app_assoc. apply Permutation_app_tail. apply Permutation_app_comm.
  - etransitivity; eassumption.
Qed.

Lemma concat_update_cons {T} (x : T) : forall (l : list (list T)) i, (i < length l)%nat ->
  Permutation (concat (update i (cons x) l)) (x :: concat l).
Proof.
  induction l as [|y t IH]; intros [|j] Hi; cbn [length] in Hi; try lia; cbn [update concat].
  - apply Permutation_refl.
  - rewrite (IH j) by lia. symmetry. apply Permutation_middle.
Qed.

Lemma map_repeat_eq {T U} (f : T -> U) x n : map f (repeat x n) = repeat (f x) n.
Proof. induction n as [|n IH]; cbn [repeat map]; [reflexivity|]. rewrite IH. reflexivity. Qed.

Lemma concat_repeat_nil {T} n : concat (repeat (@nil T) n) = [].
Proof. induction n as [|n IH]; cbn [repeat concat]; [reflexivity|]. rewrite IH. reflexivity. Qed.

(** positional sub-collections *)
Inductive sub {T} : list T -> list T -> Prop :=
| sub_nil : sub [] []
| sub_take x s l : sub s l -> sub (x :: s) (x :: l)
| sub_skip x s l : sub s l -> sub s (x :: l).

Lemma sub_nil_inv {T} (s : list T) : sub s [] -> s = [].
Proof. intros H. inversion H as [E1 E2| |]. reflexivity. Qed.

Lemma sub_perm {T} (s l : list T) : sub s l -> exists ex, Permutation (s ++ ex) l.
Proof.
  induction 1 as [|x s l H IH|x s l H IH].
  - exists []. apply Permutation_refl.
  - destruct IH as (ex & P). exists ex. cbn [app]. apply perm_skip. exact P.
  - destruct IH as (ex & P). exists (x :: ex). rewrite <- P. symmetry. apply Permutation_middle.
Qed.

(** every sub-multiset is realised by some positional sub-collection *)
Lemma multiset_sub {T} : forall (l c ex : list T), Permutation (c ++ ex) l ->
  exists s, sub s l /\ Permutation s c.
Proof.
  induction l as [|y l IH]; intros c ex P.
  - apply Permutation_sym, Permutation_nil in P. apply app_eq_nil in P. destruct P as [-> _].
    exists []. split; [constructor|apply Permutation_refl].
  - assert (Hin : In y (c ++ ex)) by (eapply Permutation_in; [symmetry; exact P|left; reflexivity]).
    apply in_app_or in Hin. destruct Hin as [Hin|Hin].
    + destruct (in_split _ _ Hin) as (c1 & c2 & E). subst c.
      assert (P' : Permutation ((c1 ++ c2) ++ ex) l).
      { apply (Permutation_cons_inv (a := y)). rewrite <- P. rewrite <- !app_assoc. cbn [app].
        apply Permutation_middle. }
      destruct (IH _ _ P') as (s & Hs & Ps). exists (y :: s). split; [constructor; exact Hs|].
      rewrite Ps. apply Permutation_middle.
    + destruct (in_split _ _ Hin) as (e1 & e2 & E). subst ex.
      assert (P' : Permutation (c ++ e1 ++ e2) l).
      { apply (Permutation_cons_inv (a := y)). rewrite <- P. rewrite app_assoc.
        rewrite (app_assoc c e1 (y :: e2)). apply Permutation_middle. }
      destruct (IH _ _ P') as (s & Hs & Ps). exists s. split; [constructor; exact Hs|exact Ps].
Qed.

Section SNPProofs.
  Context {A : Type} (valueof nameof : A -> Z).
  Hypothesis Hinj : forall x y : A, nameof x = nameof y -> x = y.

  Local Notation vsum := (vsum valueof).
  Local Notation nonneg := (Forall (fun x : A => 0 <= valueof x)).

  (** ------------------------------------------------------------------ *)
  (** * 1. find_diff                                                      *)
  (** ------------------------------------------------------------------ *)

  Lemma A_eq_dec (x y : A) : {x = y} + {x <> y}.
  Proof.
    destruct (Z.eq_dec (nameof x) (nameof y)) as [E|E].
    - left. apply Hinj. exact E.
    - right. intros Hxy. apply E. rewrite Hxy. reflexivity.
  Qed.

  Lemma item_eqb_eq x y : item_eqb nameof x y = true <-> x = y.
  Proof.
    unfold item_eqb. rewrite Z.eqb_eq. split; [apply Hinj|intros ->; reflexivity].
  Qed.

  Lemma count_occ_b_eq x l : count_occ_b nameof x l = count_occ A_eq_dec l x.
  Proof.
    unfold count_occ_b. induction l as [|y t IH]; cbn [filter count_occ length]; [reflexivity|].
    destruct (item_eqb nameof x y) eqn:E.
    - apply item_eqb_eq in E. subst y. destruct (A_eq_dec x x) as [_|N]; [|congruence].
      cbn [length]. rewrite IH. reflexivity.
    - destruct (A_eq_dec y x) as [Eyx|_]; [|exact IH].
      subst y. assert (H : item_eqb nameof x x = true) by (apply item_eqb_eq; reflexivity). congruence.
  Qed.

  Lemma existsb_item_In x seen : existsb (item_eqb nameof x) seen = true <-> In x seen.
  Proof.
    rewrite existsb_exists. split.
    - intros (y & Hy & E). apply item_eqb_eq in E. subst y. exact Hy.
    - intros H. exists x. split; [exact H|apply item_eqb_eq; reflexivity].
  Qed.

  Lemma distinct_in_order_In x : forall l seen,
    In x (distinct_in_order nameof l seen) <-> In x l /\ ~ In x seen.
  Proof using Hinj.
    clear valueof.
    induction l as [|y t IH]; intros seen; cbn [distinct_in_order In].
    - tauto.
    - destruct (existsb (item_eqb nameof y) seen) eqn:E.
      + apply existsb_item_In in E. rewrite IH. split.
        * intros [H1 H2]. tauto.
        * intros [[H1|H1] H2]; [subst y; contradiction|tauto].
      + assert (Hy : ~ In y seen) by (rewrite <- existsb_item_In; congruence).
        cbn [In]. rewrite IH. cbn [In]. split.
        * intros [H|[H1 H2]]; [subst y; tauto|tauto].
        * intros [[H1|H1] H2]; [tauto|].
          destruct (A_eq_dec y x) as [Eyx|Nyx]; [tauto|right; tauto].
  Qed.

  Lemma distinct_in_order_nodup : forall l seen, NoDup (distinct_in_order nameof l seen).
  Proof using Hinj.
    clear valueof.
    induction l as [|y t IH]; intros seen; cbn [distinct_in_order]; [constructor|].
    destruct (existsb (item_eqb nameof y) seen); [apply IH|].
    constructor; [|apply IH]. rewrite distinct_in_order_In. cbn [In]. tauto.
  Qed.

  Lemma count_flat_repeat (n : A -> nat) x : forall l, NoDup l ->
    count_occ A_eq_dec (flat_map (fun y => repeat y (n y)) l) x = if in_dec A_eq_dec x l then n x else O.
  Proof.
    induction l as [|y t IH]; intros ND; cbn [flat_map]; [reflexivity|].
    inversion ND as [|y' t' Hy Ht]; subst y' t'. rewrite count_occ_app, (IH Ht).
    destruct (A_eq_dec x y) as [E|N].
    - subst y. rewrite (count_occ_repeat_eq A_eq_dec (n x) (eq_refl x)).
      destruct (in_dec A_eq_dec x t) as [I|_]; [contradiction|].
      destruct (in_dec A_eq_dec x (x :: t)) as [_|NI]; [lia|exfalso; apply NI; left; reflexivity].
    - rewrite (count_occ_repeat_neq A_eq_dec (n y) N).
      destruct (in_dec A_eq_dec x t) as [I|NI]; destruct (in_dec A_eq_dec x (y :: t)) as [I'|NI']; try reflexivity.
      + exfalso. apply NI'. right. exact I.
      + exfalso. destruct I' as [E|I']; [apply N; symmetry; exact E|contradiction].
  Qed.

  Lemma find_diff_count items cur x :
    count_occ A_eq_dec (find_diff nameof items cur) x =
    (count_occ A_eq_dec items x - count_occ A_eq_dec cur x)%nat.
  Proof.
    unfold find_diff. rewrite count_flat_repeat by apply distinct_in_order_nodup.
    destruct (in_dec A_eq_dec x (distinct_in_order nameof items [])) as [I|NI].
    - rewrite !count_occ_b_eq. reflexivity.
    - rewrite distinct_in_order_In in NI.
      assert (Hx : ~ In x items) by (intros H; apply NI; split; [exact H|intros []]).
      apply (count_occ_not_In A_eq_dec) in Hx. rewrite Hx. reflexivity.
  Qed.

  Theorem find_diff_perm : forall items cur,
    (exists rest', Permutation (cur ++ rest') items) ->
    Permutation (cur ++ find_diff nameof items cur) items.
  Proof.
    intros items cur (rest' & P). rewrite (Permutation_count_occ A_eq_dec) in *. intros x.
    specialize (P x). rewrite count_occ_app in *. rewrite find_diff_count. lia.
  Qed.

  (** ------------------------------------------------------------------ *)
  (** * 2. snp returns a partition (C01)                                  *)
  (** ------------------------------------------------------------------ *)

  Local Notation snp_rec := (snp_rec valueof nameof true).
  Local Notation bin_of := (bin_of valueof true).
  Local Notation find_diff := (find_diff nameof).

  (** the inner depth-first search of [snp_rec], with the recursive call abstracted *)
  Definition snp_dfs (next : list A -> bins A -> bins A) (kz t : Z)
    : list A -> list A -> bins A -> bins A :=
    fix dfs (rest cur : list A) (best : bins A) : bins A :=
      if (t <? kz * vsum cur) || (kz * (vsum cur + vsum rest) <? t - (kz - 1) * bins_spread best)
      then best
      else match rest with
           | [] => next cur best
           | x :: r => dfs r cur (dfs r (cur ++ [x]) best)
           end.

  Definition dfs_pruned (kz t : Z) (rest cur : list A) (best : bins A) : bool :=
    (t <? kz * vsum cur) || (kz * (vsum cur + vsum rest) <? t - (kz - 1) * bins_spread best).

  Lemma snp_dfs_nil next kz t cur best :
    snp_dfs next kz t [] cur best = if dfs_pruned kz t [] cur best then best else next cur best.
  Proof. reflexivity. Qed.

  Lemma snp_dfs_cons next kz t x r cur best :
    snp_dfs next kz t (x :: r) cur best =
    if dfs_pruned kz t (x :: r) cur best then best
    else snp_dfs next kz t r cur (snp_dfs next kz t r (cur ++ [x]) best).
  Proof. reflexivity. Qed.

  Definition snp_next (n : nat) (prior : bins A) (items : list A) (cur : list A) (b : bins A) : bins A :=
    snp_rec (S (S n)) (prior ++ [bin_of cur]) (find_diff items cur) b.

  Lemma snp_rec_unfold3 n prior items best :
    snp_rec (S (S (S n))) prior items best =
    snp_dfs (snp_next n prior items) (Z.of_nat (S (S (S n)))) (vsum items) (sort_desc valueof items) [] best.
  Proof. reflexivity. Qed.

  Lemma snp_rec_unfold2 prior items best :
    snp_rec 2 prior items best =
    match ckk valueof nameof true 2 items with
    | Ok two => if spread (sums two ++ sums prior) <? bins_spread best then two ++ prior else best
    | Err _ => best
    end.
  Proof. reflexivity. Qed.

  Lemma ckk_nil k : ckk valueof nameof true (S (S k)) [] = Err OtherError.
  Proof. reflexivity. Qed.

  Lemma fold_add_bin l : forall b : bin A,
    fold_left (fun b x => add_to_bin valueof true x b) l b = (fst b + vsum l, snd b ++ l).
  Proof.
    induction l as [|x t IH]; intros b.
    - cbn [fold_left]. rewrite vsum_nil, Z.add_0_r, app_nil_r. destruct b; reflexivity.
    - cbn [fold_left]. rewrite IH. unfold add_to_bin. cbn [fst snd]. rewrite vsum_cons, <- app_assoc.
      f_equal. lia.
  Qed.

  Lemma bin_of_eq l : bin_of l = (vsum l, l).
  Proof. unfold SNP.bin_of. rewrite fold_add_bin. reflexivity. Qed.

  Lemma bin_of_wf l : wf_bin valueof (bin_of l).
  Proof. rewrite bin_of_eq. reflexivity. Qed.

  Lemma sums_app (b1 b2 : bins A) : sums (b1 ++ b2) = sums b1 ++ sums b2.
  Proof. apply map_app. Qed.

  (** any property of the incumbent that every recursive call preserves is preserved by the
      search; [cur] stays a sub-collection of [base] *)
  Lemma snp_dfs_preserves (P : bins A -> Prop) (base : list A) next kz t :
    (forall c b, (exists ex, Permutation (c ++ ex) base) -> P b -> P (next c b)) ->
    forall rest cur b, (exists ex, Permutation (cur ++ rest ++ ex) base) -> P b ->
      P (snp_dfs next kz t rest cur b).
  Proof.
    intros Hnext. induction rest as [|x r IH]; intros cur b Hsub Pb;
      [rewrite snp_dfs_nil|rewrite snp_dfs_cons]; destruct (dfs_pruned _ _ _ _ _); try exact Pb.
    - apply Hnext; [|exact Pb]. destruct Hsub as (ex & HP). exists ex. exact HP.
    - destruct Hsub as (ex & HP). apply IH.
      + exists (x :: ex). rewrite <- HP. apply Permutation_app_head. cbn [app].
        symmetry. apply Permutation_middle.
      + apply IH; [|exact Pb]. exists ex. rewrite <- HP. rewrite <- app_assoc. reflexivity.
  Qed.

  Lemma snp_rec_partition k orig : forall kc prior items' best,
    is_partition valueof k orig best -> wf valueof prior -> (length prior + kc = k)%nat ->
    Permutation (contents prior ++ items') orig ->
    is_partition valueof k orig (snp_rec kc prior items' best).
  Proof.
    induction kc as [|kc IH]; intros prior items' best Hbest Hwf Hlen HP; [exact Hbest|].
    destruct kc as [|[|n]]; [exact Hbest| |].
    - rewrite snp_rec_unfold2. destruct items' as [|y ys]; [rewrite ckk_nil; exact Hbest|].
      destruct (ckk_partition valueof nameof 2 (y :: ys)) as (two & E & P2 & L2 & W2); [lia|discriminate|].
      rewrite E. destruct (spread (sums two ++ sums prior) <? bins_spread best); [|exact Hbest].
      split; [|split].
      + rewrite contents_app, P2. rewrite <- HP. apply Permutation_app_comm.
      + rewrite app_length. lia.
      + apply Forall_app. split; assumption.
    - rewrite snp_rec_unfold3. apply (snp_dfs_preserves _ items').
      + intros c b Hc Pb. unfold snp_next. apply IH; [exact Pb| | |].
        * apply Forall_app. split; [exact Hwf|]. constructor; [apply bin_of_wf|constructor].
        * rewrite app_length. cbn [length]. lia.
        * rewrite contents_app. unfold contents at 2, lists. cbn [map concat]. rewrite bin_of_eq. cbn [snd].
          rewrite app_nil_r, <- app_assoc. rewrite (find_diff_perm items' c Hc). exact HP.
      + exists []. cbn [app]. rewrite app_nil_r. apply sort_desc_perm.
      + exact Hbest.
  Qed.

  Theorem snp_partition : forall k items, (1 <= k)%nat -> items <> [] ->
    exists b, snp valueof nameof true k items = Ok b /\ is_partition valueof k items b.
  Proof.
    intros k items Hk Hne. destruct (kk_partition valueof k items Hk Hne) as (best & E & Hbest).
    unfold snp. rewrite E. destruct (bins_spread best =? 0).
    - exists best. split; [reflexivity|exact Hbest].
    - eexists. split; [reflexivity|]. apply snp_rec_partition; [exact Hbest|constructor|cbn [length]; lia|].
      apply Permutation_refl.
  Qed.

  (** ------------------------------------------------------------------ *)
  (** * 3. the incumbent only improves                                    *)
  (** ------------------------------------------------------------------ *)

  Lemma snp_dfs_le next kz t :
    (forall c b, bins_spread (next c b) <= bins_spread b) ->
    forall rest cur b, bins_spread (snp_dfs next kz t rest cur b) <= bins_spread b.
  Proof.
    intros Hnext. induction rest as [|x r IH]; intros cur b;
      [rewrite snp_dfs_nil|rewrite snp_dfs_cons]; destruct (dfs_pruned _ _ _ _ _); try lia.
    - apply Hnext.
    - pose proof (IH cur (snp_dfs next kz t r (cur ++ [x]) b)) as H1.
      pose proof (IH (cur ++ [x]) b) as H2. lia.
  Qed.

  Lemma snp_rec_le : forall kc prior items' best,
    bins_spread (snp_rec kc prior items' best) <= bins_spread best.
  Proof.
    induction kc as [|kc IH]; intros prior items' best; [cbn [SNP.snp_rec]; lia|].
    destruct kc as [|[|n]]; [cbn [SNP.snp_rec]; lia| |].
    - rewrite snp_rec_unfold2. destruct (ckk valueof nameof true 2 items') as [two|e]; [|lia].
      destruct (spread (sums two ++ sums prior) <? bins_spread best) eqn:E; [|lia].
      unfold bins_spread at 1. rewrite sums_app. lia.
    - rewrite snp_rec_unfold3. apply snp_dfs_le. intros c b. unfold snp_next. apply IH.
  Qed.

  Theorem snp_never_worse_than_kk : forall k items b bk,
    snp valueof nameof true k items = Ok b -> kk valueof true k items = Ok bk ->
    bins_spread b <= bins_spread bk.
  Proof.
    intros k items b bk Hs Hk. unfold snp in Hs. rewrite Hk in Hs.
    destruct (bins_spread bk =? 0); injection Hs as <-; [lia|apply snp_rec_le].
  Qed.

  (** ------------------------------------------------------------------ *)
  (** * 4. optimality (C02), given 2-way optimality of ckk                *)
  (** ------------------------------------------------------------------ *)

  Definition ckk2_optimal_statement : Prop :=
    forall items b, items <> [] -> nonneg items ->
      ckk valueof nameof true 2 items = Ok b ->
      Opt MinDiff 2 (map valueof items) (value MinDiff (sums b) false).

  (** ---- 4a. partitions as lists of lists versus [Attainable] ---- *)
  Definition tsums (T : list (list A)) : list Z := map vsum T.

  Lemma vsum_perm l1 l2 : Permutation l1 l2 -> vsum l1 = vsum l2.
  Proof. intros P. unfold InExTree.vsum. apply zsum_perm, Permutation_map, P. Qed.

  Lemma vsum_concat T : vsum (concat T) = zsum (tsums T).
  Proof.
    induction T as [|l T IH]; cbn [concat tsums map]; [reflexivity|].
    rewrite vsum_app, IH. reflexivity.
  Qed.

  Lemma nonneg_vsum l : nonneg l -> 0 <= vsum l.
  Proof. intros H. unfold InExTree.vsum. apply zsum_nonneg. rewrite Forall_map. exact H. Qed.

  Lemma partition_attainable k items (b : bins A) :
    is_partition valueof k items b -> Attainable k (map valueof items) (sums b).
  Proof.
    intros (HP & HL & HW). destruct (bins_attainable valueof b HW) as (ps & Hm & Hf & Hs).
    apply (Attainable_perm _ (map valueof (contents b))); [apply Permutation_map; exact HP|].
    apply Attainable_pairs. exists ps. rewrite HL in *. repeat split; assumption.
  Qed.

  Lemma lists_attainable k items T : length T = k -> Permutation (concat T) items ->
    Attainable k (map valueof items) (tsums T).
  Proof.
    intros HL HP. set (b := map (fun l => (vsum l, l)) T : bins A).
    assert (Hs : sums b = tsums T) by (unfold sums, b, tsums; rewrite map_map; reflexivity).
    rewrite <- Hs. apply partition_attainable. split; [|split].
    - unfold contents, lists, b. rewrite map_map. cbn [snd]. rewrite map_id. exact HP.
    - unfold b. rewrite map_length. exact HL.
    - unfold wf, b. rewrite Forall_map. apply Forall_forall. intros l _. reflexivity.
  Qed.

  Lemma lrun_lists : forall items ps (T0 : list (list A)),
    map fst ps = map valueof items -> Forall (fun p : Z * nat => (snd p < length T0)%nat) ps ->
    exists T1, length T1 = length T0 /\ Permutation (concat T1) (concat T0 ++ items) /\
               lrun ps (tsums T0) = tsums T1.
  Proof.
    induction items as [|x its IH]; intros ps T0 Hm Hf.
    - destruct ps as [|p ps]; [|discriminate]. exists T0. rewrite app_nil_r.
      split; [reflexivity|split; [apply Permutation_refl|reflexivity]].
    - destruct ps as [|[v i] ps]; [discriminate|]. cbn [map fst] in Hm. injection Hm as Hv Hm.
      inversion Hf as [|p ps' Hi Hf']; subst p ps'. cbn [snd] in Hi.
      destruct (IH ps (update i (cons x) T0) Hm) as (T1 & HL & HP & HR).
      { rewrite update_length. exact Hf'. }
      exists T1. split; [rewrite HL; apply update_length|split].
      + rewrite HP. rewrite (concat_update_cons x T0 i Hi). cbn [app]. apply Permutation_middle.
      + rewrite <- HR. unfold lrun. cbn [fold_left]. f_equal. unfold CoveringProofs.lstep. cbn [fst snd].
        unfold tsums. symmetry. apply map_update. intros l. rewrite vsum_cons. subst v. lia.
  Qed.

  Lemma attainable_lists k items s : Attainable k (map valueof items) s ->
    exists T, length T = k /\ Permutation (concat T) items /\ tsums T = s.
  Proof.
    intros H. apply Attainable_pairs in H. destruct H as (ps & Hm & Hf & Hs).
    destruct (lrun_lists items ps (repeat [] k) Hm) as (T1 & HL & HP & HR).
    { rewrite repeat_length. exact Hf. }
    exists T1. rewrite repeat_length in HL. split; [exact HL|split].
    - rewrite HP, concat_repeat_nil. apply Permutation_refl.
    - rewrite <- HR, <- Hs. f_equal. unfold tsums. rewrite map_repeat_eq. reflexivity.
  Qed.

  (** a smallest bin can be put first *)
  Lemma smallest_first : forall T : list (list A), T <> [] ->
    exists c T', Permutation T (c :: T') /\ Forall (fun l => vsum c <= vsum l) T'.
  Proof.
    induction T as [|l T IH]; intros Hne; [congruence|].
    destruct T as [|l' T].
    - exists l, []. split; [apply Permutation_refl|constructor].
    - destruct IH as (c & T' & HP & HF); [discriminate|].
      destruct (Z_le_gt_dec (vsum l) (vsum c)) as [Hle|Hgt].
      + exists l, (c :: T'). split; [apply perm_skip; exact HP|].
        constructor; [exact Hle|]. eapply Forall_impl; [|exact HF]. cbv beta. intros a Ha. lia.
      + exists c, (l :: T'). split.
        * rewrite HP. apply perm_swap.
        * constructor; [lia|exact HF].
  Qed.

  Lemma sub_vsum s l : sub s l -> nonneg l -> nonneg s /\ vsum s <= vsum l.
  Proof.
    induction 1 as [|x s l H IH|x s l H IH]; intros Hl.
    - split; [constructor|lia].
    - inversion Hl as [|x' l' Hx Hl']; subst x' l'. destruct (IH Hl') as [N L].
      split; [constructor; assumption|]. rewrite !vsum_cons. lia.
    - inversion Hl as [|x' l' Hx Hl']; subst x' l'. destruct (IH Hl') as [N L].
      split; [exact N|]. rewrite vsum_cons. lia.
  Qed.

  (** ---- 4b. the search is exhaustive relative to its final incumbent ---- *)
  Section DfsComplete.
    Variables (next : list A -> bins A -> bins A) (kz t : Z) (base : list A).
    Variable Psi : list A -> Z -> Prop.
    Hypothesis Hkz : 1 <= kz.
    Hypothesis Hbase : nonneg base.
    Hypothesis Psi_mono : forall c d d', Psi c d -> d' <= d -> Psi c d'.
    Hypothesis Psi_upper : forall c d, t < kz * vsum c -> Psi c d.
    Hypothesis Psi_lower : forall c d, kz * vsum c < t - (kz - 1) * d -> Psi c d.
    Hypothesis next_ok : forall c b, (exists ex, Permutation (c ++ ex) base) -> kz * vsum c <= t ->
      bins_spread (next c b) <= bins_spread b /\ Psi c (bins_spread (next c b)).

    Lemma snp_dfs_complete : forall rest cur b,
      (exists ex, Permutation (cur ++ rest ++ ex) base) ->
      bins_spread (snp_dfs next kz t rest cur b) <= bins_spread b /\
      forall s, sub s rest -> Psi (cur ++ s) (bins_spread (snp_dfs next kz t rest cur b)).
    Proof.
      induction rest as [|x r IH]; intros cur b Hsub.
      - rewrite snp_dfs_nil. unfold dfs_pruned. rewrite vsum_nil, Z.add_0_r.
        destruct (t <? kz * vsum cur) eqn:E1; cbn [orb].
        { split; [lia|]. intros s Hs. rewrite (sub_nil_inv s Hs), app_nil_r. apply Psi_upper. lia. }
        destruct (kz * vsum cur <? t - (kz - 1) * bins_spread b) eqn:E2.
        { split; [lia|]. intros s Hs. rewrite (sub_nil_inv s Hs), app_nil_r. apply Psi_lower. lia. }
        destruct Hsub as (ex & HP). cbn [app] in HP.
        destruct (next_ok cur b) as [N1 N2]; [exists ex; exact HP|lia|].
        split; [exact N1|]. intros s Hs. rewrite (sub_nil_inv s Hs), app_nil_r. exact N2.
      - assert (Hrest : nonneg (x :: r)).
        { destruct Hsub as (ex & HP). apply Permutation_sym in HP.
          pose proof (Permutation_Forall HP Hbase) as HF.
          apply Forall_app in HF. destruct HF as [_ HF]. apply Forall_app in HF. apply HF. }
        rewrite snp_dfs_cons. unfold dfs_pruned.
        destruct (t <? kz * vsum cur) eqn:E1; cbn [orb].
        { split; [lia|]. intros s Hs. apply Psi_upper. destruct (sub_vsum s _ Hs Hrest) as [N L].
          apply nonneg_vsum in N. rewrite vsum_app. nia. }
        destruct (kz * (vsum cur + vsum (x :: r)) <? t - (kz - 1) * bins_spread b) eqn:E2.
        { split; [lia|]. intros s Hs. apply Psi_lower. destruct (sub_vsum s _ Hs Hrest) as [N L].
          rewrite vsum_app. nia. }
        destruct Hsub as (ex & HP).
        destruct (IH (cur ++ [x]) b) as [A1 A2].
        { exists ex. rewrite <- HP. rewrite <- app_assoc. reflexivity. }
        destruct (IH cur (snp_dfs next kz t r (cur ++ [x]) b)) as [B1 B2].
        { exists (x :: ex). rewrite <- HP. apply Permutation_app_head. cbn [app].
          symmetry. apply Permutation_middle. }
        split; [lia|]. intros s Hs. inversion Hs as [|x' s' l' Hs'|x' s' l' Hs']; subst.
        + apply (Psi_mono _ (bins_spread (snp_dfs next kz t r (cur ++ [x]) b))); [|exact B1].
          replace (cur ++ x :: s') with ((cur ++ [x]) ++ s') by (rewrite <- app_assoc; reflexivity).
          apply A2. exact Hs'.
        + apply B2. exact Hs'.
    Qed.
  End DfsComplete.

  (** ---- 4c. the recursion ---- *)

  (** what the search at one level owes to the targets whose smallest bin is [c] *)
  Definition owes (n : nat) (prior : bins A) (items' : list A) (c : list A) (d : Z) : Prop :=
    forall T', length T' = S (S n) -> Permutation (c ++ concat T') items' ->
      Forall (fun l => vsum c <= vsum l) T' ->
      d <= spread ((vsum c :: tsums T') ++ sums prior).

  Lemma owes_upper n prior items' c d :
    vsum items' < Z.of_nat (S (S (S n))) * vsum c -> owes n prior items' c d.
  Proof.
    intros H T' HL HP HF. exfalso.
    pose proof (vsum_perm _ _ HP) as Et. rewrite vsum_app, vsum_concat in Et.
    assert (G : Z.of_nat (length (tsums T')) * vsum c <= zsum (tsums T')).
    { apply zsum_ge_len. unfold tsums. rewrite Forall_map. exact HF. }
    unfold tsums in G at 1. rewrite map_length, HL in G. lia.
  Qed.

  Lemma owes_lower n prior items' c d :
    Z.of_nat (S (S (S n))) * vsum c < vsum items' - (Z.of_nat (S (S (S n))) - 1) * d ->
    owes n prior items' c d.
  Proof.
    intros H T' HL HP HF.
    pose proof (vsum_perm _ _ HP) as Et. rewrite vsum_app, vsum_concat in Et.
    set (all := (vsum c :: tsums T') ++ sums prior) in *.
    assert (Hm : zmin all <= vsum c) by (apply In_zmin_ge; left; reflexivity).
    assert (G : zsum (tsums T') <= Z.of_nat (length (tsums T')) * zmax all).
    { apply zsum_le_len_mul. apply Forall_forall. intros y Hy. apply In_zmax_le.
      unfold all. cbn [app]. right. apply in_or_app. left. exact Hy. }
    unfold tsums in G at 2. rewrite map_length, HL in G. unfold spread.
    set (M := zmax all) in *. set (m := zmin all) in *. set (vc := vsum c) in *.
    set (S' := zsum (tsums T')) in *. set (t := vsum items') in *.
    clearbody M m vc S' t all. nia.
  Qed.

  Lemma snp_rec_optimal (Hckk : ckk2_optimal_statement) : forall kc, (2 <= kc)%nat ->
    forall prior items' best T,
      nonneg items' -> 0 < vsum items' -> length T = kc -> Permutation (concat T) items' ->
      bins_spread (snp_rec kc prior items' best) <= spread (tsums T ++ sums prior).
  Proof.
    induction kc as [|kc IH]; intros Hkc prior items' best T Hnn Hpos HL HP; [lia|].
    destruct kc as [|[|n]]; [lia| |].
    - (* two bins left: ckk *)
      rewrite snp_rec_unfold2.
      assert (Hne : items' <> []) by (intros ->; rewrite vsum_nil in Hpos; lia).
      destruct (ckk_partition valueof nameof 2 items') as (two & E & Hpart); [lia|exact Hne|].
      rewrite E. pose proof (Hckk items' two Hne Hnn E) as [_ Hopt].
      specialize (Hopt (tsums T) (lists_attainable 2 items' T HL HP)).
      assert (Hle : spread (sums two ++ sums prior) <= spread (tsums T ++ sums prior)).
      { destruct Hpart as (P2 & L2 & W2).
        pose proof (wf_total valueof two W2) as Etwo. fold (vsum (contents two)) in Etwo.
        rewrite (vsum_perm _ _ P2) in Etwo.
        pose proof (vsum_concat T) as ET. rewrite (vsum_perm _ _ HP) in ET.
        destruct two as [|[a la] [|[b lb] [|? ?]]]; try discriminate.
        destruct T as [|ta [|tb [|? ?]]]; try discriminate.
        cbn [tsums sums map fst zsum fold_right] in *.
        apply balanced_two_minimises_spread; [lia|].
        cbn [value] in Hopt. exact Hopt. }
      destruct (spread (sums two ++ sums prior) <? bins_spread best) eqn:Ec.
      + unfold bins_spread. rewrite sums_app. exact Hle.
      + lia.
    - (* at least three bins left: choose the next bin by depth-first search *)
      rewrite snp_rec_unfold3.
      destruct (smallest_first T) as (c0 & T' & PT & HF0); [intros ->; discriminate|].
      assert (PC : Permutation (c0 ++ concat T') (sort_desc valueof items')).
      { change (c0 ++ concat T') with (concat (c0 :: T')). rewrite <- (concat_perm _ _ PT), HP.
        symmetry. apply sort_desc_perm. }
      destruct (multiset_sub _ _ _ PC) as (s & Hs & Ps).
      pose proof (snp_dfs_complete (snp_next n prior items') (Z.of_nat (S (S (S n)))) (vsum items') items'
                    (owes n prior items')) as D.
      destruct (D ltac:(lia) Hnn) with (rest := sort_desc valueof items') (cur := @nil A) (b := best)
        as [_ D2]; clear D.
      + intros c d d' H1 H2 T1 L1 P1 F1. specialize (H1 T1 L1 P1 F1). lia.
      + intros c d. apply owes_upper.
      + intros c d. apply owes_lower.
      + intros c b Hc Hup. split; [apply snp_rec_le|].
        intros T1 L1 P1 F1. unfold snp_next.
        pose proof (find_diff_perm items' c Hc) as PF.
        assert (P1' : Permutation (concat T1) (find_diff items' c)).
        { apply (Permutation_app_inv_l c). rewrite P1, PF. apply Permutation_refl. }
        assert (Hnn' : nonneg (find_diff items' c)).
        { apply Permutation_sym in PF. pose proof (Permutation_Forall PF Hnn) as HFa.
          apply Forall_app in HFa. apply HFa. }
        assert (Hnc : nonneg c).
        { apply Permutation_sym in PF. pose proof (Permutation_Forall PF Hnn) as HFa.
          apply Forall_app in HFa. apply HFa. }
        pose proof (vsum_perm _ _ PF) as Et. rewrite vsum_app in Et.
        pose proof (nonneg_vsum _ Hnc) as Hc0.
        assert (Hpos' : 0 < vsum (find_diff items' c)) by nia.
        pose proof (IH ltac:(lia) (prior ++ [bin_of c]) (find_diff items' c) b T1 Hnn' Hpos' L1 P1') as G.
        rewrite G. apply Z.eq_le_incl, spread_perm.
        rewrite sums_app. cbn [sums map]. rewrite bin_of_eq. cbn [fst].
        rewrite app_assoc. cbn [app]. symmetry. apply Permutation_cons_append.
      + exists []. cbn [app]. rewrite app_nil_r. apply sort_desc_perm.
      + specialize (D2 s Hs). cbn [app] in D2.
        assert (L1 : length T' = S (S n)).
        { apply Permutation_length in PT. cbn [length] in PT. lia. }
        assert (P1 : Permutation (s ++ concat T') items').
        { rewrite Ps, PC. apply sort_desc_perm. }
        assert (F1 : Forall (fun l => vsum s <= vsum l) T').
        { rewrite (vsum_perm _ _ Ps). exact HF0. }
        rewrite (D2 T' L1 P1 F1). apply Z.eq_le_incl, spread_perm.
        apply Permutation_app_tail. rewrite (vsum_perm _ _ Ps).
        change (vsum c0 :: tsums T') with (tsums (c0 :: T')). symmetry.
        unfold tsums. apply Permutation_map. exact PT.
  Qed.

  (** all values zero: every partition is perfect *)
  Lemma zero_total_perfect k items (b : bins A) :
    is_partition valueof k items b -> nonneg items -> vsum items = 0 -> bins_spread b = 0.
  Proof.
    intros (HP & HL & HW) Hnn Hz.
    assert (Hnn' : nonneg (contents b)) by (eapply Permutation_Forall; [symmetry; exact HP|exact Hnn]).
    pose proof (sums_nonneg valueof b HW Hnn') as Hs.
    pose proof (wf_total valueof b HW) as Et. fold (vsum (contents b)) in Et.
    rewrite (vsum_perm _ _ HP), Hz in Et.
    assert (Hall : forall x, In x (sums b) -> x = 0).
    { revert Hs Et. generalize (sums b). intros l. induction l as [|y l IHl]; intros Hs Et x Hx; [destruct Hx|].
      inversion Hs as [|y' l' Hy Hl]; subst y' l'. cbn [zsum fold_right] in Et. fold (zsum l) in Et.
      pose proof (zsum_nonneg l Hl) as Hl0. destruct Hx as [<-|Hx]; [lia|]. apply IHl; [exact Hl|lia|exact Hx]. }
    unfold bins_spread, spread. destruct (sums b) as [|y l] eqn:E; [reflexivity|].
    rewrite (Hall (zmax (y :: l))) by (apply zmax_in; discriminate).
    rewrite (Hall (zmin (y :: l))) by (apply zmin_in; discriminate). reflexivity.
  Qed.

  Theorem snp_optimal_from_ckk : ckk2_optimal_statement ->
    forall k items b, (1 <= k)%nat -> items <> [] -> nonneg items ->
      snp valueof nameof true k items = Ok b ->
      Opt MinDiff k (map valueof items) (value MinDiff (sums b) false).
  Proof.
    intros Hckk k items b Hk Hne Hnn Hs.
    destruct (snp_partition k items Hk Hne) as (b' & Hs' & Hpart).
    rewrite Hs in Hs'. injection Hs' as <-.
    split.
    - exists (sums b). split; [apply partition_attainable; exact Hpart|reflexivity].
    - intros s Hatt. cbn [value]. change (zmax (sums b) - zmin (sums b)) with (bins_spread b).
      change (zmax s - zmin s) with (spread s).
      destruct (kk_partition valueof k items Hk Hne) as (best & E & Hbest).
      unfold snp in Hs. rewrite E in Hs. destruct (bins_spread best =? 0) eqn:E0.
      + injection Hs as <-. pose proof (spread_nonneg s). lia.
      + injection Hs as <-.
        assert (Hpos : 0 < vsum items).
        { pose proof (nonneg_vsum _ Hnn) as H0.
          destruct (Z.eq_dec (vsum items) 0) as [Ez|Nz]; [|lia].
          pose proof (zero_total_perfect k items best Hbest Hnn Ez). lia. }
        destruct (attainable_lists k items s Hatt) as (T & HL & HP & <-).
        destruct (Nat.eq_dec k 1) as [->|Hk1].
        * exfalso. destruct Hbest as (_ & HLb & _). destruct best as [|[x lx] [|? ?]]; try discriminate.
          unfold bins_spread, spread in E0. cbn in E0. lia.
        * pose proof (snp_rec_optimal Hckk k ltac:(lia) [] items best T Hnn Hpos HL HP) as G.
          cbn [sums map] in G. rewrite app_nil_r in G. exact G.
  Qed.

  (** ------------------------------------------------------------------ *)
  (** * 5. rnp (a known finding of the library for k >= 4): small k only  *)
  (** ------------------------------------------------------------------ *)

  Theorem rnp_k2 : forall items,
    rnp valueof nameof true 2 items =
    match kk valueof true 2 items with
    | Err e => Err e
    | Ok best => if bins_spread best =? 0 then Ok best else ckk valueof nameof true 2 items
    end.
  Proof. reflexivity. Qed.

  (** the inner search of [rnp_rec] for an odd number of bins *)
  Definition rnp_dfs (next : list A -> bins A -> result (bins A)) (kz t d0 : Z)
    : list A -> list A -> bins A -> result (bins A) :=
    fix dfs (rest cur : list A) (best : bins A) : result (bins A) :=
      if (t <? kz * vsum cur) || (kz * (vsum cur + vsum rest) <? t - (kz - 1) * d0)
      then Ok best
      else match rest with
           | [] => next cur best
           | x :: r => match dfs r (cur ++ [x]) best with
                       | Err e => Err e
                       | Ok best1 => dfs r cur best1
                       end
           end.

  Definition rnp_next3 (items cur : list A) (best : bins A) : result (bins A) :=
    match ckk valueof nameof true 2 (find_diff items cur) with
    | Err e => Err e
    | Ok nb => if spread (sums nb ++ sums ([] ++ [bin_of cur])) <? bins_spread best
               then Ok (([] ++ [bin_of cur]) ++ nb) else Ok best
    end.

  Lemma rnp_rec_unfold3 items best :
    rnp_rec valueof nameof true 4 3 false [] items best =
    rnp_dfs (rnp_next3 items) 3 (vsum items) (bins_spread best) (sort_desc valueof items) [] best.
  Proof. reflexivity. Qed.

  Lemma rnp_dfs_preserves (P : bins A -> Prop) (base : list A) next kz t d0 :
    (forall c b b', (exists ex, Permutation (c ++ ex) base) -> P b -> next c b = Ok b' -> P b') ->
    forall rest cur b b', (exists ex, Permutation (cur ++ rest ++ ex) base) -> P b ->
      rnp_dfs next kz t d0 rest cur b = Ok b' -> P b'.
  Proof.
    intros Hnext. induction rest as [|x r IH]; intros cur b b' Hsub Pb E; cbn [rnp_dfs] in E;
      destruct ((t <? kz * vsum cur) || _).
    - injection E as <-. exact Pb.
    - destruct Hsub as (ex & HP). apply (Hnext cur b b'); [exists ex; exact HP|exact Pb|exact E].
    - injection E as <-. exact Pb.
    - destruct Hsub as (ex & HP).
      destruct (rnp_dfs next kz t d0 r (cur ++ [x]) b) as [b1|e] eqn:E1; [|discriminate].
      apply (IH cur b1 b'); [| |exact E].
      + exists (x :: ex). rewrite <- HP. apply Permutation_app_head. cbn [app].
        symmetry. apply Permutation_middle.
      + apply (IH (cur ++ [x]) b b1); [|exact Pb|exact E1].
        exists ex. rewrite <- HP. rewrite <- app_assoc. reflexivity.
  Qed.

  Theorem rnp_partition_small : forall k items b, (1 <= k <= 3)%nat -> items <> [] ->
    rnp valueof nameof true k items = Ok b -> is_partition valueof k items b.
  Proof.
    intros k items b Hk Hne Hr.
    destruct (kk_partition valueof k items ltac:(lia) Hne) as (best & E & Hbest).
    unfold rnp in Hr. rewrite E in Hr.
    destruct (bins_spread best =? 0) eqn:E0; [injection Hr as <-; exact Hbest|].
    assert (Hk' : k = 1%nat \/ k = 2%nat \/ k = 3%nat) by lia. destruct Hk' as [->|[->| ->]].
    - exfalso. destruct Hbest as (_ & HLb & _). destruct best as [|[x lx] [|? ?]]; try discriminate.
      unfold bins_spread, spread in E0. cbn in E0. lia.
    - change (rnp_rec valueof nameof true 3 2 false [] items best) with (ckk valueof nameof true 2 items) in Hr.
      destruct (ckk_partition valueof nameof 2 items) as (two & E2 & P2); [lia|exact Hne|].
      rewrite Hr in E2. injection E2 as <-. exact P2.
    - rewrite rnp_rec_unfold3 in Hr.
      apply (rnp_dfs_preserves (is_partition valueof 3 items) items) in Hr; [exact Hr| | |exact Hbest].
      + intros c b0 b' Hc Pb0 En. unfold rnp_next3 in En.
        destruct (find_diff items c) as [|y ys] eqn:Ef; [rewrite ckk_nil in En; discriminate|].
        destruct (ckk_partition valueof nameof 2 (y :: ys)) as (two & E2 & P2 & L2 & W2); [lia|discriminate|].
        rewrite E2 in En.
        destruct (spread (sums two ++ sums ([] ++ [bin_of c])) <? bins_spread b0);
          injection En as <-; [|exact Pb0].
        cbn [app]. split; [|split].
        * rewrite contents_cons, bin_of_eq. cbn [snd]. rewrite P2, <- Ef. apply find_diff_perm. exact Hc.
        * cbn [length]. lia.
        * constructor; [apply bin_of_wf|exact W2].
      + exists []. cbn [app]. rewrite app_nil_r. apply sort_desc_perm.
  Qed.

End SNPProofs.

(** [Hinj] is needed: with two items of the same name and different values, find_diff
    duplicates the first of them and snp returns something that is not a partition. *)
Example snp_needs_names_determine_items :
  snp (@snd Z Z) (@fst Z Z) true 3 [(1, 5); (1, 3); (2, 4)] =
  Ok [(5, [(1, 5)]); (5, [(1, 5)]); (4, [(2, 4)])].
Proof. vm_compute. reflexivity. Qed.

Print Assumptions smallest_bin_in_window.
Print Assumptions balanced_two_minimises_spread.
Print Assumptions find_diff_perm.
Print Assumptions snp_partition.
Print Assumptions snp_never_worse_than_kk.
Print Assumptions snp_optimal_from_ckk.
Print Assumptions rnp_k2.
Print Assumptions rnp_partition_small.
