(** Asymptotic bounds for first-fit-decreasing below 3/2 (Model/Packing.v).

    Proved here (b = bins returned by first_fit_decreasing, n = any number of bins of capacity C
    into which the values can be packed; hypotheses: items <> [], values >= 0, nothing else):

      ffd_ratio_43_partial   :  3 * length b <= 4 * n + 2      (FFD <= 4/3 OPT + 2/3)
      ffd_ratio_54_partial   :  4 * length b <= 5 * n + 4      (FFD <= 5/4 OPT + 1)
      ffd_ratio_11_9_partial :  9 * length b <= 11 * n + 8     (FFD <= 11/9 OPT + 8/9)
                                provided no value lies in (2C/11, C/4]
      ffd_ratio_76_large     :  6 * length b <= 7 * n + 5      provided every value exceeds C/4
      ffd_119_ranges         :  the last two bounds in terms of x = first item of the last bin
                                (11 x <= 2 C gives 11/9, C < 4 x gives 7/6)

    Method.  A new invariant of first-fit on a descending list, [sfit2] (stronger than [sfit] of
    FFDRatioProofs): an item y of a later bin does not fit into an earlier bin even if only the
    items of that bin that are >= y are counted (these include everything that was in the bin when
    y was placed).  Let x be the first item of the last bin.
    - If K x <= C: by [sfit2] every other bin is filled above C - x >= (K-1) C / K:
      volume argument, (K-1) (m-1) < K n  ([volume_case], [volume_case_q] for K = 11/2).
    - Otherwise give weight 0 to the values below x ([sel]: the others exceed C/K, so a feasible set
      holds at most K-1 of them) and a weight depending on C, x and the size class to the others,
      so that a feasible set weighs <= R ([light43], [light54], [light76]) and every bin but the
      last, restricted to the values >= x, weighs >= 1 with a bounded total deficiency
      ([heavy43], [heavy54], [heavy76]): a deficient bin type forbids, by [sfit2], a class of values
      in all later bins ([no_follow]), after which that type cannot occur again.
      4/3 (x > C/4), scale 12:  12 above C-x, 8 in (C/2, C-x], 6 in (C/3, C/2], 4 in [x, C/3];
           feasible <= 16; deficient {M,S} = 10 once.
      5/4 (x > C/5), scale 8:   8 above C-x, 6 in (max(C/2, 2(C-x)/3), C-x], 5 in (C/2, 2(C-x)/3],
           4 in ((C-x)/2, C/2] (L), 3 in ((C-x)/3, (C-x)/2] (m), 2 in [x, (C-x)/3] (t);
           feasible <= 10; deficient {L,m} = 7, {L,t} = 6 (then no L follows), {m,t,t} = 7 (then no
           m or L follows): total deficiency <= 3.
      7/6 (x > C/4), scale 6:   6 above C-x, 4 in (C/2, C-x], 3 in ((C-x)/2, C/2], 2 in [x, (C-x)/2];
           feasible <= 7; deficient {L,s} = 5 once.
    All class facts are closed by lia on lists of at most 4 values.

    OPEN: ffd_ratio_11_9 (9 * length b <= 11 * n + c) for x in (2C/11, C/4].  Numerical evidence
    (linear programs over all bin configurations, /root/scratch/ffd119/full.py, full2.py): weights
    that depend only on C, x and the size of the value cannot give 11/9 there, whatever potential
    on the sequence of bins is used.  For C = 44, x = 10 the runs (25,10)^k, (24,11)^k and (19,19)^k
    are each legal first-fit-decreasing outputs, and their values repack as (25,19), (24,10,10),
    (11,11,11,11): any such weights need 16/13 > 11/9.  The known proofs (Johnson, Baker, Yue,
    Dosa) weight an item by the type of the FFD bin that holds it; this is not attempted here. *)
From Prtpy Require Import Base.Prelude Model.Binner Model.Packing Spec.Partition
  Proofs.BaseLemmas Proofs.BinnerLemmas Proofs.PackingProofs Proofs.FFDRatioProofs
  Proofs.BCOptimalProofs Oracle.Reach Proofs.OracleSpec.
From Coq Require Import ZifyBool Sorting.Sorted.

(** ---- 1. the values of a list that are at least x ---- *)
Definition sel (x : Z) (l : list Z) : list Z := filter (fun a => x <=? a) l.

Lemma sel_nil x : sel x [] = [].
Proof. reflexivity. Qed.

Lemma sel_cons x a l : sel x (a :: l) = if x <=? a then a :: sel x l else sel x l.
Proof. reflexivity. Qed.

Lemma sel_app x l1 l2 : sel x (l1 ++ l2) = sel x l1 ++ sel x l2.
Proof. unfold sel. apply filter_app. Qed.

Lemma sel_ge x l : Forall (fun a => x <= a) (sel x l).
Proof.
  apply Forall_forall. intros a Ha. unfold sel in Ha. apply filter_In in Ha. destruct Ha as [_ Ha]. lia.
Qed.

Lemma sel_incl x l (P : Z -> Prop) : Forall P l -> Forall P (sel x l).
Proof.
  intros H. apply Forall_forall. intros a Ha. unfold sel in Ha. apply filter_In in Ha.
  destruct Ha as [Ha _]. rewrite Forall_forall in H. apply H. exact Ha.
Qed.

Lemma sel_all x l : Forall (fun a => x <= a) l -> sel x l = l.
Proof.
  intros H. induction H as [|a l Ha Hl IH]; [reflexivity|].
  rewrite sel_cons, IH. destruct (x <=? a) eqn:E; [reflexivity|lia].
Qed.

Lemma sel_sel x y l : x <= y -> sel y (sel x l) = sel y l.
Proof.
  intros Hxy. induction l as [|a l IH]; [reflexivity|].
  rewrite !sel_cons. destruct (x <=? a) eqn:E1.
  - rewrite sel_cons, IH. reflexivity.
  - rewrite IH. destruct (y <=? a) eqn:E2; [lia|reflexivity].
Qed.

Lemma zsum_sel_le x l : Forall (fun a => 0 <= a) l -> 0 <= zsum (sel x l) <= zsum l.
Proof.
  intros H. induction H as [|a l Ha Hl IH]; [rewrite sel_nil, pk_zsum_nil; lia|].
  rewrite sel_cons. destruct (x <=? a); rewrite ?pk_zsum_cons; lia.
Qed.

(** ---- 2. the invariant of first-fit on a descending list ---- *)
Section SFit2.
  Context {A : Type} (valueof : A -> Z).
  Notation add := (add_to_bin valueof true).
  Notation vals bn := (map valueof (snd bn)).

  Fixpoint sfit2 (C : Z) (b : bins A) : Prop :=
    match b with
    | [] => True
    | bn :: t =>
        Forall (fun y => C < zsum (sel (valueof y) (vals bn)) + valueof y) (contents t) /\ sfit2 C t
    end.

  Lemma ff_place_sfit2 C x b : 0 <= valueof x ->
    Forall (fun z => valueof x <= valueof z) (contents b) -> wf valueof b ->
    sfit2 C b -> sfit2 C (ff_place valueof true C x b).
  Proof.
    intros Hx. induction b as [|bn t IH]; cbn [ff_place].
    - intros _ _ _. cbn [sfit2]. split; [apply Forall_nil|exact I].
    - intros Hge Hw. rewrite contents_cons in Hge. apply Forall_app in Hge. destruct Hge as [Hge1 Hge2].
      unfold wf in Hw. apply Forall_cons_iff in Hw. destruct Hw as [Hwb Hw].
      destruct (fst bn + valueof x <=? C) eqn:E; cbn [sfit2]; intros [H1 H2].
      + split; [|exact H2]. eapply Forall_impl; [|exact H1]. intros y Hy. cbv beta in Hy.
        unfold add_to_bin. cbn [snd]. rewrite map_app, sel_app, zsum_app. cbn [map].
        assert (H0 : 0 <= zsum (sel (valueof y) [valueof x])).
        { apply zsum_sel_le. constructor; [exact Hx|constructor]. }
        lia.
      + split; [|apply IH; assumption].
        eapply Permutation_Forall; [symmetry; apply ff_place_contents|].
        apply Forall_app. split; [exact H1|]. constructor; [|constructor].
        rewrite sel_all; [|rewrite Forall_map; exact Hge1].
        unfold wf_bin in Hwb. lia.
  Qed.

  Notation desc_sorted := (StronglySorted (fun a c : A => valueof c <= valueof a)).

  Lemma ff_loop_sfit2 C : forall items b b', desc_sorted items ->
    Forall (fun x => 0 <= valueof x) items ->
    Forall (fun z => Forall (fun x => valueof x <= valueof z) items) (contents b) ->
    wf valueof b -> sfit2 C b -> ff_loop valueof true C items b = Ok b' -> sfit2 C b'.
  Proof.
    induction items as [|x t IH]; intros b b' Hs Hnn Hd Hw Hh; cbn [ff_loop].
    - intros H. injection H as H. subst b'. exact Hh.
    - destruct (valueof x >? C); [intros H; discriminate H|]. intros H.
      inversion Hs as [|x' t' Hst Hxt]; subst.
      apply Forall_cons_iff in Hnn. destruct Hnn as [Hx Hnn].
      apply (IH (ff_place valueof true C x b) b'); [exact Hst|exact Hnn| | | |exact H].
      + eapply Permutation_Forall; [symmetry; apply ff_place_contents|]. apply Forall_app. split.
        * eapply Forall_impl; [|exact Hd]. intros z Hz. cbv beta in Hz.
          apply Forall_cons_iff in Hz. destruct Hz as [_ Hz]. exact Hz.
        * constructor; [exact Hxt|constructor].
      + apply (step_wf valueof C x b); [apply ff_place_step|exact Hw].
      + apply ff_place_sfit2; [exact Hx| |exact Hw|exact Hh].
        eapply Forall_impl; [|exact Hd]. intros z Hz. cbv beta in Hz.
        apply Forall_cons_iff in Hz. destruct Hz as [Hz _]. exact Hz.
  Qed.

  Lemma ffd_sfit2 C items b : Forall (fun x => 0 <= valueof x) items ->
    first_fit_decreasing valueof true C items = Ok b -> sfit2 C b.
  Proof.
    intros Hnn H. unfold first_fit_decreasing, first_fit in H.
    apply (ff_loop_sfit2 C (sort_desc valueof items) (new_bins 1) b); [apply sort_desc_sorted| | | | |exact H].
    - apply sort_desc_nonneg. exact Hnn.
    - rewrite new_bins_contents. constructor.
    - apply new_bins_wf.
    - unfold new_bins. cbn [repeat sfit2]. split; [apply Forall_nil|exact I].
  Qed.

  (** splitting at a position *)
  Lemma sfit2_app C (b1 b2 : bins A) : sfit2 C (b1 ++ b2) ->
    Forall (fun c => Forall (fun y => C < zsum (sel (valueof y) (vals c)) + valueof y) (contents b2)) b1 /\
    sfit2 C b1.
  Proof.
    induction b1 as [|c b1 IH]; cbn [app sfit2].
    - intros _. split; [constructor|exact I].
    - intros [H1 H2]. destruct (IH H2) as [I1 I2]. rewrite contents_app in H1.
      apply Forall_app in H1. destruct H1 as [H1a H1b].
      split; [constructor; [exact H1b|exact I1]|split; [exact H1a|exact I2]].
  Qed.
End SFit2.

(** ---- 3. weights lifted to a packing ---- *)
Section GenWeights.
  Variable w : Z -> Z.
  Definition gws (l : list Z) : Z := zsum (map w l).

  Lemma gws_nil : gws [] = 0.
  Proof. reflexivity. Qed.
  Lemma gws_cons a l : gws (a :: l) = w a + gws l.
  Proof. reflexivity. Qed.
  Lemma gws_app l1 l2 : gws (l1 ++ l2) = gws l1 + gws l2.
  Proof. unfold gws. rewrite map_app. apply zsum_app. Qed.
  Lemma gws_perm l1 l2 : Permutation l1 l2 -> gws l1 = gws l2.
  Proof. intros P. unfold gws. apply zsum_perm. apply Permutation_map. exact P. Qed.

  Lemma gws_nonneg l : (forall a, 0 <= w a) -> 0 <= gws l.
  Proof.
    intros Hw. induction l as [|a l IH]; [rewrite gws_nil; lia|].
    rewrite gws_cons. specialize (Hw a). lia.
  Qed.

  (** values below x weigh nothing *)
  Lemma gws_sel x l : (forall a, a < x -> w a = 0) -> gws (sel x l) = gws l.
  Proof.
    intros H0. induction l as [|a l IH]; [reflexivity|].
    rewrite sel_cons. destruct (x <=? a) eqn:E; rewrite !gws_cons, ?IH; [reflexivity|].
    rewrite (H0 a); lia.
  Qed.

  Lemma gws_concat_le K (G : list (list Z)) :
    Forall (fun g => gws g <= K) G -> gws (concat G) <= K * Z.of_nat (length G).
  Proof.
    intros H. induction H as [|g G Hg HG IH]; [cbn [concat length Z.of_nat]; rewrite gws_nil; lia|].
    cbn [concat length]. rewrite gws_app, Nat2Z.inj_succ. lia.
  Qed.

  Lemma Forall_concat_elim' (P : Z -> Prop) (G : list (list Z)) :
    Forall P (concat G) -> Forall (Forall P) G.
  Proof.
    induction G as [|g G IH]; cbn [concat]; intros H; [constructor|].
    apply Forall_app in H. destruct H as [H1 H2]. constructor; [exact H1|apply IH; exact H2].
  Qed.

  Lemma packable_gws C K vs n :
    (forall g, Forall (fun a => 0 <= a) g -> zsum g <= C -> gws g <= K) ->
    Forall (fun a => 0 <= a) vs -> Packable C vs n -> gws vs <= K * Z.of_nat n.
  Proof.
    intros HK Hnn Hp. apply packable_gpack in Hp. destruct Hp as (G & HL & HP & HF).
    rewrite <- (gws_perm _ _ HP), <- HL. apply gws_concat_le.
    assert (Hnn' : Forall (Forall (fun a => 0 <= a)) G).
    { apply Forall_concat_elim'. eapply Permutation_Forall; [symmetry; exact HP|exact Hnn]. }
    clear HL HP. induction HF as [|g G Hg HG IH]; [constructor|].
    apply Forall_cons_iff in Hnn'. destruct Hnn' as [Hg0 HG0].
    constructor; [apply HK; assumption|apply IH; exact HG0].
  Qed.
End GenWeights.

(** ---- 4. the weights for 4/3 ---- *)
Definition w43 (C x a : Z) : Z :=
  if a <? x then 0
  else if C - x <? a then 12
  else if C <? 2 * a then 8
  else if C <? 3 * a then 6
  else 4.

Lemma w43_spec C x a :
  (a < x /\ w43 C x a = 0) \/
  (x <= a /\ C - x < a /\ w43 C x a = 12) \/
  (x <= a /\ a <= C - x /\ C < 2 * a /\ w43 C x a = 8) \/
  (x <= a /\ a <= C - x /\ 2 * a <= C /\ C < 3 * a /\ w43 C x a = 6) \/
  (x <= a /\ a <= C - x /\ 3 * a <= C /\ w43 C x a = 4).
Proof.
  unfold w43. destruct (a <? x) eqn:E0; [left; lia|].
  destruct (C - x <? a) eqn:E1; [right; left; lia|].
  destruct (C <? 2 * a) eqn:E2; [right; right; left; lia|].
  destruct (C <? 3 * a) eqn:E3; [right; right; right; left; lia|].
  right; right; right; right; lia.
Qed.

Notation ws43 C x := (gws (w43 C x)).

Lemma w43_nonneg C x a : 0 <= w43 C x a.
Proof. pose proof (w43_spec C x a). lia. Qed.

Lemma w43_small C x a : a < x -> w43 C x a = 0.
Proof. intros H. pose proof (w43_spec C x a). lia. Qed.

(** a feasible set weighs at most 16 *)
Lemma light43 C x g : C < 4 * x ->
  Forall (fun a => 0 <= a) g -> zsum g <= C -> ws43 C x g <= 16.
Proof.
  intros Hx Hnn HS. rewrite <- (gws_sel (w43 C x) x g (w43_small C x)).
  pose proof (zsum_sel_le x g Hnn) as Hle. pose proof (sel_ge x g) as Hge.
  destruct (sel x g) as [|a [|c [|d [|e r]]]].
  - rewrite gws_nil. lia.
  - rewrite gws_cons, gws_nil. pose proof (w43_spec C x a). lia.
  - rewrite !gws_cons, gws_nil. rewrite !pk_zsum_cons, pk_zsum_nil in Hle.
    apply Forall_cons_iff in Hge. destruct Hge as [Ha Hge].
    apply Forall_cons_iff in Hge. destruct Hge as [Hc _].
    pose proof (w43_spec C x a). pose proof (w43_spec C x c). lia.
  - rewrite !gws_cons, gws_nil. rewrite !pk_zsum_cons, pk_zsum_nil in Hle.
    apply Forall_cons_iff in Hge. destruct Hge as [Ha Hge].
    apply Forall_cons_iff in Hge. destruct Hge as [Hc Hge].
    apply Forall_cons_iff in Hge. destruct Hge as [Hd _].
    pose proof (w43_spec C x a). pose proof (w43_spec C x c). pose proof (w43_spec C x d). lia.
  - exfalso. rewrite !pk_zsum_cons in Hle.
    apply Forall_cons_iff in Hge. destruct Hge as [Ha Hge].
    apply Forall_cons_iff in Hge. destruct Hge as [Hc Hge].
    apply Forall_cons_iff in Hge. destruct Hge as [Hd Hge].
    apply Forall_cons_iff in Hge. destruct Hge as [He Hge].
    assert (0 <= zsum r).
    { apply zsum_nonneg. eapply Forall_impl; [|exact Hge]. intros z Hz. cbv beta in Hz. lia. }
    lia.
Qed.

(** a value in (C/3, C/2] *)
Definition isM (C a : Z) : Prop := C < 3 * a /\ 2 * a <= C.

(** a set of values >= x that x does not fit with weighs at least 12, except {M, S} *)
Lemma bin43_cases C x l : C < 4 * x -> x <= C ->
  Forall (fun a => x <= a) l -> C < zsum l + x ->
  12 <= ws43 C x l \/
  (10 <= ws43 C x l /\ 3 * x <= C /\ forall y, isM C y -> zsum (sel y l) + y <= C).
Proof.
  intros Hx HxC Hge Hcl. destruct l as [|a [|c [|d r]]].
  - rewrite pk_zsum_nil in Hcl. lia.
  - left. rewrite pk_zsum_cons, pk_zsum_nil in Hcl. rewrite gws_cons, gws_nil.
    apply Forall_cons_iff in Hge. destruct Hge as [Ha _].
    pose proof (w43_spec C x a). lia.
  - rewrite !pk_zsum_cons, pk_zsum_nil in Hcl. rewrite !gws_cons, gws_nil.
    apply Forall_cons_iff in Hge. destruct Hge as [Ha Hge].
    apply Forall_cons_iff in Hge. destruct Hge as [Hc _].
    pose proof (w43_spec C x a) as Sa. pose proof (w43_spec C x c) as Sc.
    destruct (Z_le_dec 12 (w43 C x a + (w43 C x c + 0))) as [H12|H12]; [left; exact H12|].
    right. split; [lia|]. split; [lia|]. intros y [Hy1 Hy2].
    rewrite !sel_cons, sel_nil.
    destruct (y <=? a) eqn:Ea; destruct (y <=? c) eqn:Ec;
      rewrite ?pk_zsum_cons, ?pk_zsum_nil; lia.
  - left. rewrite !gws_cons.
    apply Forall_cons_iff in Hge. destruct Hge as [Ha Hge].
    apply Forall_cons_iff in Hge. destruct Hge as [Hc Hge].
    apply Forall_cons_iff in Hge. destruct Hge as [Hd _].
    pose proof (gws_nonneg (w43 C x) r (w43_nonneg C x)).
    pose proof (w43_spec C x a). pose proof (w43_spec C x c). pose proof (w43_spec C x d). lia.
Qed.

(** ... and with no value in (C/3, C/2] there is no exception *)
Lemma bin43_noM C x l : C < 4 * x -> x <= C ->
  Forall (fun a => x <= a) l -> C < zsum l + x -> Forall (fun a => ~ isM C a) l ->
  12 <= ws43 C x l.
Proof.
  intros Hx HxC Hge Hcl HnM. unfold isM in HnM. destruct l as [|a [|c [|d r]]].
  - rewrite pk_zsum_nil in Hcl. lia.
  - rewrite pk_zsum_cons, pk_zsum_nil in Hcl. rewrite gws_cons, gws_nil.
    apply Forall_cons_iff in Hge. destruct Hge as [Ha _].
    pose proof (w43_spec C x a). lia.
  - rewrite !pk_zsum_cons, pk_zsum_nil in Hcl. rewrite !gws_cons, gws_nil.
    apply Forall_cons_iff in Hge. destruct Hge as [Ha Hge].
    apply Forall_cons_iff in Hge. destruct Hge as [Hc _].
    apply Forall_cons_iff in HnM. destruct HnM as [Ma HnM].
    apply Forall_cons_iff in HnM. destruct HnM as [Mc _].
    pose proof (w43_spec C x a) as Sa. pose proof (w43_spec C x c) as Sc. lia.
  - rewrite !gws_cons.
    apply Forall_cons_iff in Hge. destruct Hge as [Ha Hge].
    apply Forall_cons_iff in Hge. destruct Hge as [Hc Hge].
    apply Forall_cons_iff in Hge. destruct Hge as [Hd _].
    pose proof (gws_nonneg (w43 C x) r (w43_nonneg C x)).
    pose proof (w43_spec C x a). pose proof (w43_spec C x c). pose proof (w43_spec C x d). lia.
Qed.

(** ---- 5. the bins of first-fit-decreasing are heavy ---- *)
Section Heavy43.
  Context {A : Type} (valueof : A -> Z).
  Notation vals bn := (map valueof (snd bn)).
  Notation cw C x b := (ws43 C x (map valueof (contents b))).

  (** every bin is closed for x, counting only the values >= x *)
  Definition closed (C x : Z) (t : bins A) : Prop :=
    Forall (fun bn => C < zsum (sel x (vals bn)) + x) t.

  Lemma cw_cons C x bn (t : bins A) : cw C x (bn :: t) = ws43 C x (sel x (vals bn)) + cw C x t.
  Proof.
    rewrite contents_cons, map_app, gws_app. rewrite (gws_sel (w43 C x) x _ (w43_small C x)). reflexivity.
  Qed.

  Lemma heavy43_noM C x : C < 4 * x -> x <= C -> forall t : bins A, closed C x t ->
    Forall (fun y => ~ isM C (valueof y)) (contents t) ->
    12 * Z.of_nat (length t) <= cw C x t.
  Proof.
    intros Hx HxC. induction t as [|bn t IH]; intros Hcl HnM.
    - cbn [length Z.of_nat]. unfold contents, lists. cbn [map concat]. rewrite gws_nil. lia.
    - unfold closed in Hcl. apply Forall_cons_iff in Hcl. destruct Hcl as [Hc Hcl].
      rewrite contents_cons in HnM. apply Forall_app in HnM. destruct HnM as [HnM1 HnM2].
      specialize (IH Hcl HnM2). rewrite cw_cons. cbn [length]. rewrite Nat2Z.inj_succ.
      assert (H12 : 12 <= ws43 C x (sel x (vals bn))).
      { apply bin43_noM; [exact Hx|exact HxC|apply sel_ge|exact Hc|].
        apply sel_incl. rewrite Forall_map. exact HnM1. }
      lia.
  Qed.

  Lemma heavy43 C x : C < 4 * x -> x <= C -> forall t : bins A, closed C x t ->
    sfit2 valueof C t -> 12 * Z.of_nat (length t) <= cw C x t + 2.
  Proof.
    intros Hx HxC. induction t as [|bn t IH]; intros Hcl Hsf.
    - cbn [length Z.of_nat]. unfold contents, lists. cbn [map concat]. rewrite gws_nil. lia.
    - pose proof Hcl as Hcl0. unfold closed in Hcl. apply Forall_cons_iff in Hcl. destruct Hcl as [Hc Hcl].
      cbn [sfit2] in Hsf. destruct Hsf as [Hs1 Hsf].
      rewrite cw_cons. cbn [length]. rewrite Nat2Z.inj_succ.
      destruct (bin43_cases C x (sel x (vals bn)) Hx HxC (sel_ge x _) Hc) as [H12|(H10 & H3x & HM)].
      + specialize (IH Hcl Hsf). lia.
      + assert (HnM : Forall (fun y => ~ isM C (valueof y)) (contents t)).
        { rewrite Forall_forall in *. intros y Hy HMy. specialize (Hs1 y Hy). cbv beta in Hs1.
          specialize (HM (valueof y) HMy). unfold isM in HMy.
          rewrite sel_sel in HM; [|lia]. lia. }
        pose proof (heavy43_noM C x Hx HxC t Hcl HnM). lia.
  Qed.
End Heavy43.

(** ---- 6. the theorem ---- *)
Section FFD43.
  Context {A : Type} (valueof : A -> Z).
  Notation vals bn := (map valueof (snd bn)).

  Lemma sums_lower (K : Z) (t : bins A) : Forall (fun bn => K <= fst bn) t ->
    Z.of_nat (length t) * K <= zsum (sums t).
  Proof.
    intros H. induction H as [|bn t Hb Ht IH]; [unfold sums; cbn [map length Z.of_nat]; rewrite pk_zsum_nil; lia|].
    unfold sums in *. cbn [map length]. rewrite pk_zsum_cons, Nat2Z.inj_succ. lia.
  Qed.

  (** what the proofs use of the result of first-fit-decreasing: all bins but the last are closed
      for an item x0 of the last bin *)
  Lemma ffd_last C items b : items <> [] -> Forall (fun x => 0 <= valueof x) items ->
    first_fit_decreasing valueof true C items = Ok b ->
    exists (t : bins A) (last : bin A) (x0 : A),
      b = t ++ [last] /\ In x0 (snd last) /\ 0 <= valueof x0 <= C /\
      closed valueof C (valueof x0) t /\ sfit2 valueof C t /\ wf valueof b /\
      Forall (fun y => 0 <= valueof y) (contents b) /\ Permutation (contents b) items.
  Proof.
    intros Hne Hnn H.
    destruct (ffd_Inv valueof C items b Hne Hnn H) as (Hw & Hf & Hp & Hnem & Hns & _).
    pose proof (ffd_sfit2 valueof C items b Hnn H) as Hsf.
    assert (Hnnb : Forall (fun y => 0 <= valueof y) (contents b))
      by (eapply Permutation_Forall; [symmetry; exact Hp|exact Hnn]).
    assert (Hb : b <> []).
    { intros E. subst b. apply Permutation_nil in Hp. congruence. }
    destruct (exists_last Hb) as (t & last & E). subst b.
    unfold all_nonempty in Hnem. apply Forall_app in Hnem. destruct Hnem as [_ Hl].
    apply Forall_cons_iff in Hl. destruct Hl as [Hl _].
    destruct (snd last) as [|x0 r] eqn:El; [congruence|].
    exists t, last, x0. rewrite El.
    assert (Hin : In x0 (contents [last])).
    { rewrite contents_cons, El. left. reflexivity. }
    destruct (sfit2_app valueof C t [last] Hsf) as [Hcl Hsft].
    assert (Hx0 : 0 <= valueof x0).
    { rewrite Forall_forall in Hnnb. apply Hnnb. rewrite contents_app. apply in_or_app. right. exact Hin. }
    assert (Hx0C : valueof x0 <= C).
    { unfold feasible in Hf. apply Forall_app in Hf. destruct Hf as [_ Hf].
      apply Forall_cons_iff in Hf. destruct Hf as [Hf _].
      unfold wf in Hw. apply Forall_app in Hw. destruct Hw as [_ Hwl].
      apply Forall_cons_iff in Hwl. destruct Hwl as [Hwl _]. unfold wf_bin in Hwl.
      rewrite El in Hwl. cbn [map] in Hwl. rewrite pk_zsum_cons in Hwl.
      assert (0 <= zsum (map valueof r)).
      { apply zsum_nonneg. rewrite Forall_map. rewrite contents_app, contents_cons, El in Hnnb.
        apply Forall_app in Hnnb. destruct Hnnb as [_ Hnnb]. apply Forall_app in Hnnb.
        destruct Hnnb as [Hnnb _]. apply Forall_cons_iff in Hnnb. destruct Hnnb as [_ Hnnb]. exact Hnnb. }
      lia. }
    repeat split; auto; try lia.
    - left. reflexivity.
    - unfold closed. eapply Forall_impl; [|exact Hcl]. intros c Hc. cbv beta in Hc.
      rewrite Forall_forall in Hc. apply Hc. exact Hin.
  Qed.

  (** the volume case, for any threshold K *)
  Lemma volume_case C K (t : bins A) (last : bin A) x0 items n : 1 <= K -> 0 <= C ->
    In x0 (snd last) -> 0 <= valueof x0 -> K * valueof x0 <= C ->
    closed valueof C (valueof x0) t -> wf valueof (t ++ [last]) ->
    Forall (fun y => 0 <= valueof y) (contents (t ++ [last])) ->
    Permutation (contents (t ++ [last])) items -> Packable C (map valueof items) n ->
    t <> [] -> (K - 1) * Z.of_nat (length t) < K * Z.of_nat n.
  Proof.
    intros HK HC Hin Hx0 HKx Hcl Hw Hnn Hp Hpack Ht.
    pose proof (packable_total C _ n Hpack) as Htot.
    rewrite <- (zsum_perm _ _ (Permutation_map valueof Hp)), <- (wf_total valueof _ Hw) in Htot.
    assert (Esums : sums (t ++ [last]) = sums t ++ [fst last]) by (unfold sums; apply map_app).
    rewrite Esums, zsum_app, pk_zsum_cons, pk_zsum_nil in Htot.
    unfold wf in Hw. apply Forall_app in Hw. destruct Hw as [Hwt Hwl].
    apply Forall_cons_iff in Hwl. destruct Hwl as [Hwl _].
    rewrite contents_app in Hnn. apply Forall_app in Hnn. destruct Hnn as [Hnnt Hnnl].
    (* the last bin holds x0 *)
    assert (Hlast : valueof x0 <= fst last).
    { unfold wf_bin in Hwl. rewrite Hwl. rewrite contents_cons in Hnnl.
      apply Forall_app in Hnnl. destruct Hnnl as [Hnnl _].
      apply in_split in Hin. destruct Hin as (l1 & l2 & E). rewrite E in *.
      rewrite map_app, zsum_app. cbn [map]. rewrite pk_zsum_cons.
      apply Forall_app in Hnnl. destruct Hnnl as [N1 N2]. apply Forall_cons_iff in N2. destruct N2 as [_ N2].
      assert (0 <= zsum (map valueof l1)) by (apply zsum_nonneg; rewrite Forall_map; exact N1).
      assert (0 <= zsum (map valueof l2)) by (apply zsum_nonneg; rewrite Forall_map; exact N2).
      lia. }
    (* the other bins are filled above C - x0 *)
    assert (Hlow : Forall (fun bn => C - valueof x0 + 1 <= fst bn) t).
    { unfold closed in Hcl. rewrite Forall_forall in *. intros bn Hbn.
      specialize (Hcl bn Hbn). specialize (Hwt bn Hbn). unfold wf_bin in Hwt.
      assert (Hv : Forall (fun a => 0 <= a) (vals bn)).
      { rewrite Forall_map. apply Forall_forall. intros y Hy. apply Hnnt.
        unfold contents, lists. apply in_concat. exists (snd bn). split; [|exact Hy].
        apply in_map. exact Hbn. }
      pose proof (zsum_sel_le (valueof x0) (vals bn) Hv). lia. }
    pose proof (sums_lower _ t Hlow) as Hsum.
    set (T := Z.of_nat (length t)) in *. set (N := Z.of_nat n) in *.
    assert (HT : 1 <= T) by (subst T; destruct t; [congruence|cbn [length]; lia]).
    assert (HN : 0 <= N) by (subst N; lia). clearbody T N.
    assert (H1 : 0 <= T * (C - K * valueof x0)) by (apply Z.mul_nonneg_nonneg; lia).
    assert (H0 : T * (C - valueof x0 + 1) + valueof x0 <= N * C) by lia.
    assert (H0' : K * (T * (C - valueof x0 + 1) + valueof x0) <= K * (N * C))
      by (apply Z.mul_le_mono_nonneg_l; lia).
    assert (H0'' : 0 <= K * valueof x0) by (apply Z.mul_nonneg_nonneg; lia).
    assert (H2 : K * T <= (K * N - (K - 1) * T) * C) by lia.
    destruct (Z_lt_le_dec ((K - 1) * T) (K * N)) as [Hlt|Hge]; [exact Hlt|exfalso].
    assert (H3 : (K * N - (K - 1) * T) * C <= 0) by (apply Z.mul_nonpos_nonneg; lia).
    nia.
  Qed.

  Theorem ffd_ratio_43_partial C (items : list A) (b : bins A) (n : nat) :
    items <> [] -> Forall (fun x : A => 0 <= valueof x) items ->
    first_fit_decreasing valueof true C items = Ok b -> Packable C (map valueof items) n ->
    (3 * length b <= 4 * n + 2)%nat.
  Proof.
    intros Hne Hnn H Hpack.
    destruct (ffd_last C items b Hne Hnn H) as (t & last & x0 & E & Hin & [Hx0 Hx0C] & Hcl & Hsf & Hw & Hnnb & Hp).
    subst b. rewrite app_length. cbn [length].
    assert (HC : 0 <= C) by lia.
    destruct (Z_lt_le_dec C (4 * valueof x0)) as [Hbig|Hsmall].
    - (* weights *)
      pose proof (heavy43 valueof C (valueof x0) Hbig Hx0C t Hcl Hsf) as Hheavy.
      assert (Hlight : ws43 C (valueof x0) (map valueof items) <= 16 * Z.of_nat n).
      { apply (packable_gws (w43 C (valueof x0)) C 16); [|rewrite Forall_map; exact Hnn|exact Hpack].
        intros g Hg0 Hg. apply light43; assumption. }
      rewrite <- (gws_perm _ _ _ (Permutation_map valueof Hp)) in Hlight.
      rewrite contents_app, map_app, gws_app in Hlight.
      assert (Hl4 : 4 <= ws43 C (valueof x0) (map valueof (contents [last]))).
      { rewrite contents_cons. apply in_split in Hin. destruct Hin as (l1 & l2 & El). rewrite El.
        rewrite !map_app, !gws_app. cbn [map]. rewrite gws_cons.
        pose proof (gws_nonneg (w43 C (valueof x0)) (map valueof l1) (w43_nonneg C (valueof x0))).
        pose proof (gws_nonneg (w43 C (valueof x0)) (map valueof l2) (w43_nonneg C (valueof x0))).
        pose proof (gws_nonneg (w43 C (valueof x0)) (map valueof (contents [])) (w43_nonneg C (valueof x0))).
        pose proof (w43_spec C (valueof x0) (valueof x0)). lia. }
      lia.
    - (* volume *)
      destruct t as [|bn t']; [cbn [length]; destruct n as [|n]; [|lia]|].
      + apply packable_zero in Hpack. apply map_eq_nil in Hpack. congruence.
      + pose proof (volume_case C 4 (bn :: t') last x0 items n ltac:(lia) HC Hin Hx0 Hsmall Hcl Hw Hnnb Hp Hpack
                      ltac:(discriminate)) as Hv.
        cbn [length] in *. lia.
  Qed.
End FFD43.


(** ---- 7. the weights for 5/4 ---- *)
Definition w54 (C x a : Z) : Z :=
  if a <? x then 0
  else if C - x <? a then 8
  else if C <? 2 * a then (if 2 * C - 2 * x <? 3 * a then 6 else 5)
  else if C - x <? 2 * a then 4
  else if C - x <? 3 * a then 3
  else 2.

Lemma w54_spec C x a :
  (a < x /\ w54 C x a = 0) \/
  (x <= a /\ C - x < a /\ w54 C x a = 8) \/
  (x <= a /\ a <= C - x /\ C < 2 * a /\ 2 * C - 2 * x < 3 * a /\ w54 C x a = 6) \/
  (x <= a /\ a <= C - x /\ C < 2 * a /\ 3 * a <= 2 * C - 2 * x /\ w54 C x a = 5) \/
  (x <= a /\ a <= C - x /\ 2 * a <= C /\ C - x < 2 * a /\ w54 C x a = 4) \/
  (x <= a /\ a <= C - x /\ 2 * a <= C - x /\ C - x < 3 * a /\ w54 C x a = 3) \/
  (x <= a /\ a <= C - x /\ 3 * a <= C - x /\ w54 C x a = 2).
Proof.
  unfold w54. destruct (a <? x) eqn:E0; [left; lia|].
  destruct (C - x <? a) eqn:E1; [right; left; lia|].
  destruct (C <? 2 * a) eqn:E2.
  - destruct (2 * C - 2 * x <? 3 * a) eqn:E3; [right; right; left; lia|right; right; right; left; lia].
  - destruct (C - x <? 2 * a) eqn:E4; [right; right; right; right; left; lia|].
    destruct (C - x <? 3 * a) eqn:E5; [right; right; right; right; right; left; lia|].
    right; right; right; right; right; right; lia.
Qed.

Notation ws54 C x := (gws (w54 C x)).

Lemma w54_nonneg C x a : 0 <= w54 C x a.
Proof. pose proof (w54_spec C x a). lia. Qed.

Lemma w54_small C x a : a < x -> w54 C x a = 0.
Proof. intros H. pose proof (w54_spec C x a). lia. Qed.

Lemma w54_ge2 C x a : x <= a -> 2 <= w54 C x a.
Proof. intros H. pose proof (w54_spec C x a). lia. Qed.

Ltac split_ge H Ha := apply Forall_cons_iff in H; destruct H as [Ha H].

(** a feasible set weighs at most 10 *)
Lemma light54 C x g : C < 5 * x ->
  Forall (fun a => 0 <= a) g -> zsum g <= C -> ws54 C x g <= 10.
Proof.
  intros Hx Hnn HS. rewrite <- (gws_sel (w54 C x) x g (w54_small C x)).
  pose proof (zsum_sel_le x g Hnn) as Hle. pose proof (sel_ge x g) as Hge.
  destruct (sel x g) as [|a [|c [|d [|e [|f r]]]]].
  - rewrite gws_nil. lia.
  - rewrite gws_cons, gws_nil. pose proof (w54_spec C x a). lia.
  - rewrite !gws_cons, gws_nil. rewrite !pk_zsum_cons, pk_zsum_nil in Hle.
    split_ge Hge Ha. split_ge Hge Hc.
    pose proof (w54_spec C x a). pose proof (w54_spec C x c). lia.
  - rewrite !gws_cons, gws_nil. rewrite !pk_zsum_cons, pk_zsum_nil in Hle.
    split_ge Hge Ha. split_ge Hge Hc. split_ge Hge Hd.
    pose proof (w54_spec C x a). pose proof (w54_spec C x c). pose proof (w54_spec C x d). lia.
  - rewrite !gws_cons, gws_nil. rewrite !pk_zsum_cons, pk_zsum_nil in Hle.
    split_ge Hge Ha. split_ge Hge Hc. split_ge Hge Hd. split_ge Hge He.
    pose proof (w54_spec C x a). pose proof (w54_spec C x c). pose proof (w54_spec C x d).
    pose proof (w54_spec C x e). lia.
  - exfalso. rewrite !pk_zsum_cons in Hle.
    split_ge Hge Ha. split_ge Hge Hc. split_ge Hge Hd. split_ge Hge He. split_ge Hge Hf.
    assert (0 <= zsum r).
    { apply zsum_nonneg. eapply Forall_impl; [|exact Hge]. intros z Hz. cbv beta in Hz. lia. }
    lia.
Qed.


(** classes of values >= x: L = ((C-x)/2, C/2], ML = ((C-x)/3, C/2] *)
Definition isL (C x y : Z) : Prop := x <= y /\ C - x < 2 * y /\ 2 * y <= C.
Definition isML (C x y : Z) : Prop := x <= y /\ C - x < 3 * y /\ 2 * y <= C.

Ltac sel_cases y :=
  rewrite ?sel_cons, ?sel_nil;
  repeat match goal with |- context [y <=? ?a] => destruct (y <=? a) eqn:? end;
  rewrite ?pk_zsum_cons, ?pk_zsum_nil; lia.

(** a set of values >= x that x does not fit with weighs at least 8, except {m,t,t} (7, no value
    of class ML can follow), {L,m} (7) and {L,t} (6) (no value of class L can follow) *)
Lemma bin54_cases C x l : C < 5 * x -> x <= C ->
  Forall (fun a => x <= a) l -> C < zsum l + x ->
  8 <= ws54 C x l \/
  (7 <= ws54 C x l /\ forall y, isML C x y -> zsum (sel y l) + y <= C) \/
  (6 <= ws54 C x l /\ forall y, isL C x y -> zsum (sel y l) + y <= C).
Proof.
  intros Hx HxC Hge Hcl. destruct l as [|a [|c [|d [|e r]]]].
  - rewrite pk_zsum_nil in Hcl. lia.
  - left. rewrite pk_zsum_cons, pk_zsum_nil in Hcl. rewrite gws_cons, gws_nil.
    split_ge Hge Ha. pose proof (w54_spec C x a). lia.
  - rewrite !pk_zsum_cons, pk_zsum_nil in Hcl. rewrite !gws_cons, gws_nil.
    split_ge Hge Ha. split_ge Hge Hc.
    pose proof (w54_spec C x a) as Sa. pose proof (w54_spec C x c) as Sc.
    destruct (Z_le_dec 8 (w54 C x a + (w54 C x c + 0))) as [H8|H8]; [left; exact H8|].
    right; right. split; [lia|]. intros y (Hy0 & Hy1 & Hy2). sel_cases y.
  - rewrite !pk_zsum_cons, pk_zsum_nil in Hcl. rewrite !gws_cons, gws_nil.
    split_ge Hge Ha. split_ge Hge Hc. split_ge Hge Hd.
    pose proof (w54_spec C x a) as Sa. pose proof (w54_spec C x c) as Sc. pose proof (w54_spec C x d) as Sd.
    destruct (Z_le_dec 8 (w54 C x a + (w54 C x c + (w54 C x d + 0)))) as [H8|H8]; [left; exact H8|].
    right; left. split; [lia|]. intros y (Hy0 & Hy1 & Hy2). sel_cases y.
  - left. rewrite !gws_cons.
    split_ge Hge Ha. split_ge Hge Hc. split_ge Hge Hd. split_ge Hge He.
    pose proof (gws_nonneg (w54 C x) r (w54_nonneg C x)).
    pose proof (w54_ge2 C x a Ha). pose proof (w54_ge2 C x c Hc).
    pose proof (w54_ge2 C x d Hd). pose proof (w54_ge2 C x e He). lia.
Qed.

Lemma bin54_noL C x l : C < 5 * x -> x <= C ->
  Forall (fun a => x <= a) l -> C < zsum l + x -> Forall (fun a => ~ isL C x a) l ->
  8 <= ws54 C x l \/
  (7 <= ws54 C x l /\ forall y, isML C x y -> zsum (sel y l) + y <= C).
Proof.
  intros Hx HxC Hge Hcl HnL. unfold isL in HnL. destruct l as [|a [|c [|d [|e r]]]].
  - rewrite pk_zsum_nil in Hcl. lia.
  - left. rewrite pk_zsum_cons, pk_zsum_nil in Hcl. rewrite gws_cons, gws_nil.
    split_ge Hge Ha. pose proof (w54_spec C x a). lia.
  - left. rewrite !pk_zsum_cons, pk_zsum_nil in Hcl. rewrite !gws_cons, gws_nil.
    split_ge Hge Ha. split_ge Hge Hc. split_ge HnL La. split_ge HnL Lc.
    pose proof (w54_spec C x a) as Sa. pose proof (w54_spec C x c) as Sc. lia.
  - rewrite !pk_zsum_cons, pk_zsum_nil in Hcl. rewrite !gws_cons, gws_nil.
    split_ge Hge Ha. split_ge Hge Hc. split_ge Hge Hd.
    pose proof (w54_spec C x a) as Sa. pose proof (w54_spec C x c) as Sc. pose proof (w54_spec C x d) as Sd.
    destruct (Z_le_dec 8 (w54 C x a + (w54 C x c + (w54 C x d + 0)))) as [H8|H8]; [left; exact H8|].
    right. split; [lia|]. intros y (Hy0 & Hy1 & Hy2). sel_cases y.
  - left. rewrite !gws_cons.
    split_ge Hge Ha. split_ge Hge Hc. split_ge Hge Hd. split_ge Hge He.
    pose proof (gws_nonneg (w54 C x) r (w54_nonneg C x)).
    pose proof (w54_ge2 C x a Ha). pose proof (w54_ge2 C x c Hc).
    pose proof (w54_ge2 C x d Hd). pose proof (w54_ge2 C x e He). lia.
Qed.

Lemma bin54_noML C x l : C < 5 * x -> x <= C ->
  Forall (fun a => x <= a) l -> C < zsum l + x -> Forall (fun a => ~ isML C x a) l ->
  8 <= ws54 C x l.
Proof.
  intros Hx HxC Hge Hcl HnL. unfold isML in HnL. destruct l as [|a [|c [|d [|e r]]]].
  - rewrite pk_zsum_nil in Hcl. lia.
  - rewrite pk_zsum_cons, pk_zsum_nil in Hcl. rewrite gws_cons, gws_nil.
    split_ge Hge Ha. pose proof (w54_spec C x a). lia.
  - rewrite !pk_zsum_cons, pk_zsum_nil in Hcl. rewrite !gws_cons, gws_nil.
    split_ge Hge Ha. split_ge Hge Hc. split_ge HnL La. split_ge HnL Lc.
    pose proof (w54_spec C x a) as Sa. pose proof (w54_spec C x c) as Sc. lia.
  - rewrite !pk_zsum_cons, pk_zsum_nil in Hcl. rewrite !gws_cons, gws_nil.
    split_ge Hge Ha. split_ge Hge Hc. split_ge Hge Hd.
    split_ge HnL La. split_ge HnL Lc. split_ge HnL Ld.
    pose proof (w54_spec C x a) as Sa. pose proof (w54_spec C x c) as Sc. pose proof (w54_spec C x d) as Sd.
    lia.
  - rewrite !gws_cons.
    split_ge Hge Ha. split_ge Hge Hc. split_ge Hge Hd. split_ge Hge He.
    pose proof (gws_nonneg (w54 C x) r (w54_nonneg C x)).
    pose proof (w54_ge2 C x a Ha). pose proof (w54_ge2 C x c Hc).
    pose proof (w54_ge2 C x d Hd). pose proof (w54_ge2 C x e He). lia.
Qed.


(** ---- 8. the bins of first-fit-decreasing are heavy (5/4 weights) ---- *)
Section Heavy54.
  Context {A : Type} (valueof : A -> Z).
  Notation vals bn := (map valueof (snd bn)).
  Notation cw C x b := (ws54 C x (map valueof (contents b))).

  Lemma cw54_nil C x : cw C x (@nil (bin A)) = 0.
  Proof. unfold contents, lists. cbn [map concat]. apply gws_nil. Qed.

  Lemma cw54_cons C x bn (t : bins A) : cw C x (bn :: t) = ws54 C x (sel x (vals bn)) + cw C x t.
  Proof.
    rewrite contents_cons, map_app, gws_app. rewrite (gws_sel (w54 C x) x _ (w54_small C x)). reflexivity.
  Qed.

  (** from [sfit2]: a class of values that does not fit into the first bin cannot follow *)
  Lemma no_follow C x (P : Z -> Prop) (bn : bin A) (t : bins A) :
    (forall y, P y -> x <= y) ->
    Forall (fun y => C < zsum (sel (valueof y) (vals bn)) + valueof y) (contents t) ->
    (forall y, P y -> zsum (sel y (sel x (vals bn))) + y <= C) ->
    Forall (fun y => ~ P (valueof y)) (contents t).
  Proof.
    intros HP Hs HM. rewrite Forall_forall in *. intros y Hy HPy. specialize (Hs y Hy). cbv beta in Hs.
    specialize (HM (valueof y) HPy). rewrite sel_sel in HM; [|apply HP; exact HPy]. lia.
  Qed.

  Lemma heavy54_noML C x : C < 5 * x -> x <= C -> forall t : bins A, closed valueof C x t ->
    Forall (fun y => ~ isML C x (valueof y)) (contents t) ->
    8 * Z.of_nat (length t) <= cw C x t.
  Proof.
    intros Hx HxC. induction t as [|bn t IH]; intros Hcl HnM.
    - cbn [length Z.of_nat]. rewrite cw54_nil. lia.
    - unfold closed in Hcl. apply Forall_cons_iff in Hcl. destruct Hcl as [Hc Hcl].
      rewrite contents_cons in HnM. apply Forall_app in HnM. destruct HnM as [HnM1 HnM2].
      specialize (IH Hcl HnM2). rewrite cw54_cons. cbn [length]. rewrite Nat2Z.inj_succ.
      assert (H8 : 8 <= ws54 C x (sel x (vals bn))).
      { apply bin54_noML; [exact Hx|exact HxC|apply sel_ge|exact Hc|].
        apply sel_incl. rewrite Forall_map. exact HnM1. }
      lia.
  Qed.

  Lemma heavy54_noL C x : C < 5 * x -> x <= C -> forall t : bins A, closed valueof C x t ->
    sfit2 valueof C t -> Forall (fun y => ~ isL C x (valueof y)) (contents t) ->
    8 * Z.of_nat (length t) <= cw C x t + 1.
  Proof.
    intros Hx HxC. induction t as [|bn t IH]; intros Hcl Hsf HnL.
    - cbn [length Z.of_nat]. rewrite cw54_nil. lia.
    - unfold closed in Hcl. apply Forall_cons_iff in Hcl. destruct Hcl as [Hc Hcl].
      cbn [sfit2] in Hsf. destruct Hsf as [Hs1 Hsf].
      rewrite contents_cons in HnL. apply Forall_app in HnL. destruct HnL as [HnL1 HnL2].
      rewrite cw54_cons. cbn [length]. rewrite Nat2Z.inj_succ.
      assert (HnLv : Forall (fun a => ~ isL C x a) (sel x (vals bn))).
      { apply sel_incl. rewrite Forall_map. exact HnL1. }
      destruct (bin54_noL C x (sel x (vals bn)) Hx HxC (sel_ge x _) Hc HnLv) as [H8|(H7 & HM)].
      + specialize (IH Hcl Hsf HnL2). lia.
      + assert (HnM : Forall (fun y => ~ isML C x (valueof y)) (contents t)).
        { apply (no_follow C x (isML C x) bn t); [|exact Hs1|exact HM]. intros y Hy. unfold isML in Hy. lia. }
        pose proof (heavy54_noML C x Hx HxC t Hcl HnM). lia.
  Qed.

  Lemma heavy54 C x : C < 5 * x -> x <= C -> forall t : bins A, closed valueof C x t ->
    sfit2 valueof C t -> 8 * Z.of_nat (length t) <= cw C x t + 3.
  Proof.
    intros Hx HxC. induction t as [|bn t IH]; intros Hcl Hsf.
    - cbn [length Z.of_nat]. rewrite cw54_nil. lia.
    - unfold closed in Hcl. apply Forall_cons_iff in Hcl. destruct Hcl as [Hc Hcl].
      cbn [sfit2] in Hsf. destruct Hsf as [Hs1 Hsf].
      rewrite cw54_cons. cbn [length]. rewrite Nat2Z.inj_succ.
      destruct (bin54_cases C x (sel x (vals bn)) Hx HxC (sel_ge x _) Hc) as [H8|[(H7 & HM)|(H6 & HL)]].
      + specialize (IH Hcl Hsf). lia.
      + assert (HnM : Forall (fun y => ~ isML C x (valueof y)) (contents t)).
        { apply (no_follow C x (isML C x) bn t); [|exact Hs1|exact HM]. intros y Hy. unfold isML in Hy. lia. }
        pose proof (heavy54_noML C x Hx HxC t Hcl HnM). lia.
      + assert (HnL : Forall (fun y => ~ isL C x (valueof y)) (contents t)).
        { apply (no_follow C x (isL C x) bn t); [|exact Hs1|exact HL]. intros y Hy. unfold isL in Hy. lia. }
        pose proof (heavy54_noL C x Hx HxC t Hcl Hsf HnL). lia.
  Qed.
End Heavy54.

(** ---- 9. the 5/4 theorem ---- *)
Section FFD54.
  Context {A : Type} (valueof : A -> Z).

  Theorem ffd_ratio_54_partial C (items : list A) (b : bins A) (n : nat) :
    items <> [] -> Forall (fun x : A => 0 <= valueof x) items ->
    first_fit_decreasing valueof true C items = Ok b -> Packable C (map valueof items) n ->
    (4 * length b <= 5 * n + 4)%nat.
  Proof.
    intros Hne Hnn H Hpack.
    destruct (ffd_last valueof C items b Hne Hnn H)
      as (t & last & x0 & E & Hin & [Hx0 Hx0C] & Hcl & Hsf & Hw & Hnnb & Hp).
    subst b. rewrite app_length. cbn [length].
    assert (HC : 0 <= C) by lia.
    destruct (Z_lt_le_dec C (5 * valueof x0)) as [Hbig|Hsmall].
    - (* weights *)
      pose proof (heavy54 valueof C (valueof x0) Hbig Hx0C t Hcl Hsf) as Hheavy.
      assert (Hlight : ws54 C (valueof x0) (map valueof items) <= 10 * Z.of_nat n).
      { apply (packable_gws (w54 C (valueof x0)) C 10); [|rewrite Forall_map; exact Hnn|exact Hpack].
        intros g Hg0 Hg. apply light54; assumption. }
      rewrite <- (gws_perm _ _ _ (Permutation_map valueof Hp)) in Hlight.
      rewrite contents_app, map_app, gws_app in Hlight.
      assert (Hl2 : 2 <= ws54 C (valueof x0) (map valueof (contents [last]))).
      { rewrite contents_cons. apply in_split in Hin. destruct Hin as (l1 & l2 & El). rewrite El.
        rewrite !map_app, !gws_app. cbn [map]. rewrite gws_cons.
        pose proof (gws_nonneg (w54 C (valueof x0)) (map valueof l1) (w54_nonneg C (valueof x0))).
        pose proof (gws_nonneg (w54 C (valueof x0)) (map valueof l2) (w54_nonneg C (valueof x0))).
        pose proof (gws_nonneg (w54 C (valueof x0)) (map valueof (contents [])) (w54_nonneg C (valueof x0))).
        pose proof (w54_ge2 C (valueof x0) (valueof x0) ltac:(lia)). lia. }
      lia.
    - (* volume *)
      destruct t as [|bn t']; [cbn [length]; destruct n as [|n]; [|lia]|].
      + apply packable_zero in Hpack. apply map_eq_nil in Hpack. congruence.
      + pose proof (volume_case valueof C 5 (bn :: t') last x0 items n ltac:(lia) HC Hin Hx0 Hsmall Hcl Hw Hnnb Hp Hpack
                      ltac:(discriminate)) as Hv.
        cbn [length] in *. lia.
  Qed.
End FFD54.


(** ---- 10. 7/6 when the first item of the last bin exceeds C/4, and a conditional 11/9 ---- *)
Definition w76 (C x a : Z) : Z :=
  if a <? x then 0
  else if C - x <? a then 6
  else if C <? 2 * a then 4
  else if C - x <? 2 * a then 3
  else 2.

Lemma w76_spec C x a :
  (a < x /\ w76 C x a = 0) \/
  (x <= a /\ C - x < a /\ w76 C x a = 6) \/
  (x <= a /\ a <= C - x /\ C < 2 * a /\ w76 C x a = 4) \/
  (x <= a /\ a <= C - x /\ 2 * a <= C /\ C - x < 2 * a /\ w76 C x a = 3) \/
  (x <= a /\ a <= C - x /\ 2 * a <= C - x /\ w76 C x a = 2).
Proof.
  unfold w76. destruct (a <? x) eqn:E0; [left; lia|].
  destruct (C - x <? a) eqn:E1; [right; left; lia|].
  destruct (C <? 2 * a) eqn:E2; [right; right; left; lia|].
  destruct (C - x <? 2 * a) eqn:E3; [right; right; right; left; lia|].
  right; right; right; right; lia.
Qed.

Notation ws76 C x := (gws (w76 C x)).

Lemma w76_nonneg C x a : 0 <= w76 C x a.
Proof. pose proof (w76_spec C x a). lia. Qed.

Lemma w76_small C x a : a < x -> w76 C x a = 0.
Proof. intros H. pose proof (w76_spec C x a). lia. Qed.

Lemma w76_ge2 C x a : x <= a -> 2 <= w76 C x a.
Proof. intros H. pose proof (w76_spec C x a). lia. Qed.

(** a feasible set weighs at most 7 *)
Lemma light76 C x g : C < 4 * x ->
  Forall (fun a => 0 <= a) g -> zsum g <= C -> ws76 C x g <= 7.
Proof.
  intros Hx Hnn HS. rewrite <- (gws_sel (w76 C x) x g (w76_small C x)).
  pose proof (zsum_sel_le x g Hnn) as Hle. pose proof (sel_ge x g) as Hge.
  destruct (sel x g) as [|a [|c [|d [|e r]]]].
  - rewrite gws_nil. lia.
  - rewrite gws_cons, gws_nil. pose proof (w76_spec C x a). lia.
  - rewrite !gws_cons, gws_nil. rewrite !pk_zsum_cons, pk_zsum_nil in Hle.
    split_ge Hge Ha. split_ge Hge Hc.
    pose proof (w76_spec C x a). pose proof (w76_spec C x c). lia.
  - rewrite !gws_cons, gws_nil. rewrite !pk_zsum_cons, pk_zsum_nil in Hle.
    split_ge Hge Ha. split_ge Hge Hc. split_ge Hge Hd.
    pose proof (w76_spec C x a). pose proof (w76_spec C x c). pose proof (w76_spec C x d). lia.
  - exfalso. rewrite !pk_zsum_cons in Hle.
    split_ge Hge Ha. split_ge Hge Hc. split_ge Hge Hd. split_ge Hge He.
    assert (0 <= zsum r).
    { apply zsum_nonneg. eapply Forall_impl; [|exact Hge]. intros z Hz. cbv beta in Hz. lia. }
    lia.
Qed.

Lemma bin76_cases C x l : C < 4 * x -> x <= C ->
  Forall (fun a => x <= a) l -> C < zsum l + x ->
  6 <= ws76 C x l \/
  (5 <= ws76 C x l /\ forall y, isL C x y -> zsum (sel y l) + y <= C).
Proof.
  intros Hx HxC Hge Hcl. destruct l as [|a [|c [|d r]]].
  - rewrite pk_zsum_nil in Hcl. lia.
  - left. rewrite pk_zsum_cons, pk_zsum_nil in Hcl. rewrite gws_cons, gws_nil.
    split_ge Hge Ha. pose proof (w76_spec C x a). lia.
  - rewrite !pk_zsum_cons, pk_zsum_nil in Hcl. rewrite !gws_cons, gws_nil.
    split_ge Hge Ha. split_ge Hge Hc.
    pose proof (w76_spec C x a) as Sa. pose proof (w76_spec C x c) as Sc.
    destruct (Z_le_dec 6 (w76 C x a + (w76 C x c + 0))) as [H6|H6]; [left; exact H6|].
    right. split; [lia|]. intros y (Hy0 & Hy1 & Hy2). sel_cases y.
  - left. rewrite !gws_cons.
    split_ge Hge Ha. split_ge Hge Hc. split_ge Hge Hd.
    pose proof (gws_nonneg (w76 C x) r (w76_nonneg C x)).
    pose proof (w76_ge2 C x a Ha). pose proof (w76_ge2 C x c Hc). pose proof (w76_ge2 C x d Hd). lia.
Qed.

Lemma bin76_noL C x l : C < 4 * x -> x <= C ->
  Forall (fun a => x <= a) l -> C < zsum l + x -> Forall (fun a => ~ isL C x a) l ->
  6 <= ws76 C x l.
Proof.
  intros Hx HxC Hge Hcl HnL. unfold isL in HnL. destruct l as [|a [|c [|d r]]].
  - rewrite pk_zsum_nil in Hcl. lia.
  - rewrite pk_zsum_cons, pk_zsum_nil in Hcl. rewrite gws_cons, gws_nil.
    split_ge Hge Ha. pose proof (w76_spec C x a). lia.
  - rewrite !pk_zsum_cons, pk_zsum_nil in Hcl. rewrite !gws_cons, gws_nil.
    split_ge Hge Ha. split_ge Hge Hc. split_ge HnL La. split_ge HnL Lc.
    pose proof (w76_spec C x a) as Sa. pose proof (w76_spec C x c) as Sc. lia.
  - rewrite !gws_cons.
    split_ge Hge Ha. split_ge Hge Hc. split_ge Hge Hd.
    pose proof (gws_nonneg (w76 C x) r (w76_nonneg C x)).
    pose proof (w76_ge2 C x a Ha). pose proof (w76_ge2 C x c Hc). pose proof (w76_ge2 C x d Hd). lia.
Qed.

Section Heavy76.
  Context {A : Type} (valueof : A -> Z).
  Notation vals bn := (map valueof (snd bn)).
  Notation cw C x b := (ws76 C x (map valueof (contents b))).

  Lemma cw76_nil C x : cw C x (@nil (bin A)) = 0.
  Proof. unfold contents, lists. cbn [map concat]. apply gws_nil. Qed.

  Lemma cw76_cons C x bn (t : bins A) : cw C x (bn :: t) = ws76 C x (sel x (vals bn)) + cw C x t.
  Proof.
    rewrite contents_cons, map_app, gws_app. rewrite (gws_sel (w76 C x) x _ (w76_small C x)). reflexivity.
  Qed.

  Lemma heavy76_noL C x : C < 4 * x -> x <= C -> forall t : bins A, closed valueof C x t ->
    Forall (fun y => ~ isL C x (valueof y)) (contents t) ->
    6 * Z.of_nat (length t) <= cw C x t.
  Proof.
    intros Hx HxC. induction t as [|bn t IH]; intros Hcl HnM.
    - cbn [length Z.of_nat]. rewrite cw76_nil. lia.
    - unfold closed in Hcl. apply Forall_cons_iff in Hcl. destruct Hcl as [Hc Hcl].
      rewrite contents_cons in HnM. apply Forall_app in HnM. destruct HnM as [HnM1 HnM2].
      specialize (IH Hcl HnM2). rewrite cw76_cons. cbn [length]. rewrite Nat2Z.inj_succ.
      assert (H6 : 6 <= ws76 C x (sel x (vals bn))).
      { apply bin76_noL; [exact Hx|exact HxC|apply sel_ge|exact Hc|].
        apply sel_incl. rewrite Forall_map. exact HnM1. }
      lia.
  Qed.

  Lemma heavy76 C x : C < 4 * x -> x <= C -> forall t : bins A, closed valueof C x t ->
    sfit2 valueof C t -> 6 * Z.of_nat (length t) <= cw C x t + 1.
  Proof.
    intros Hx HxC. induction t as [|bn t IH]; intros Hcl Hsf.
    - cbn [length Z.of_nat]. rewrite cw76_nil. lia.
    - unfold closed in Hcl. apply Forall_cons_iff in Hcl. destruct Hcl as [Hc Hcl].
      cbn [sfit2] in Hsf. destruct Hsf as [Hs1 Hsf].
      rewrite cw76_cons. cbn [length]. rewrite Nat2Z.inj_succ.
      destruct (bin76_cases C x (sel x (vals bn)) Hx HxC (sel_ge x _) Hc) as [H6|(H5 & HL)].
      + specialize (IH Hcl Hsf). lia.
      + assert (HnL : Forall (fun y => ~ isL C x (valueof y)) (contents t)).
        { apply (no_follow valueof C x (isL C x) bn t); [|exact Hs1|exact HL].
          intros y Hy. unfold isL in Hy. lia. }
        pose proof (heavy76_noL C x Hx HxC t Hcl HnL). lia.
  Qed.
End Heavy76.

Section FFD119.
  Context {A : Type} (valueof : A -> Z).

  (** the volume case with a rational threshold: P x <= Q C *)
  Lemma volume_case_q C P Q (t : bins A) (last : bin A) x0 items n : 0 < Q <= P -> 0 <= C ->
    In x0 (snd last) -> 0 <= valueof x0 -> P * valueof x0 <= Q * C ->
    closed valueof C (valueof x0) t -> wf valueof (t ++ [last]) ->
    Forall (fun y => 0 <= valueof y) (contents (t ++ [last])) ->
    Permutation (contents (t ++ [last])) items -> Packable C (map valueof items) n ->
    t <> [] -> (P - Q) * Z.of_nat (length t) < P * Z.of_nat n.
  Proof.
    intros HK HC Hin Hx0 HKx Hcl Hw Hnn Hp Hpack Ht.
    pose proof (packable_total C _ n Hpack) as Htot.
    rewrite <- (zsum_perm _ _ (Permutation_map valueof Hp)), <- (wf_total valueof _ Hw) in Htot.
    assert (Esums : sums (t ++ [last]) = sums t ++ [fst last]) by (unfold sums; apply map_app).
    rewrite Esums, zsum_app, pk_zsum_cons, pk_zsum_nil in Htot.
    unfold wf in Hw. apply Forall_app in Hw. destruct Hw as [Hwt Hwl].
    apply Forall_cons_iff in Hwl. destruct Hwl as [Hwl _].
    rewrite contents_app in Hnn. apply Forall_app in Hnn. destruct Hnn as [Hnnt Hnnl].
    assert (Hlast : valueof x0 <= fst last).
    { unfold wf_bin in Hwl. rewrite Hwl. rewrite contents_cons in Hnnl.
      apply Forall_app in Hnnl. destruct Hnnl as [Hnnl _].
      apply in_split in Hin. destruct Hin as (l1 & l2 & E). rewrite E in *.
      rewrite map_app, zsum_app. cbn [map]. rewrite pk_zsum_cons.
      apply Forall_app in Hnnl. destruct Hnnl as [N1 N2]. apply Forall_cons_iff in N2. destruct N2 as [_ N2].
      assert (0 <= zsum (map valueof l1)) by (apply zsum_nonneg; rewrite Forall_map; exact N1).
      assert (0 <= zsum (map valueof l2)) by (apply zsum_nonneg; rewrite Forall_map; exact N2).
      lia. }
    assert (Hlow : Forall (fun bn => C - valueof x0 + 1 <= fst bn) t).
    { unfold closed in Hcl. rewrite Forall_forall in *. intros bn Hbn.
      specialize (Hcl bn Hbn). specialize (Hwt bn Hbn). unfold wf_bin in Hwt.
      assert (Hv : Forall (fun a => 0 <= a) (map valueof (snd bn))).
      { rewrite Forall_map. apply Forall_forall. intros y Hy. apply Hnnt.
        unfold contents, lists. apply in_concat. exists (snd bn). split; [|exact Hy].
        apply in_map. exact Hbn. }
      pose proof (zsum_sel_le (valueof x0) (map valueof (snd bn)) Hv). lia. }
    pose proof (sums_lower _ t Hlow) as Hsum.
    set (T := Z.of_nat (length t)) in *. set (N := Z.of_nat n) in *.
    assert (HT : 1 <= T) by (subst T; destruct t; [congruence|cbn [length]; lia]).
    assert (HN : 0 <= N) by (subst N; lia). clearbody T N.
    assert (H1 : 0 <= T * (Q * C - P * valueof x0)) by (apply Z.mul_nonneg_nonneg; lia).
    assert (H0 : T * (C - valueof x0 + 1) + valueof x0 <= N * C) by lia.
    assert (H0' : P * (T * (C - valueof x0 + 1) + valueof x0) <= P * (N * C))
      by (apply Z.mul_le_mono_nonneg_l; lia).
    assert (H0'' : 0 <= P * valueof x0) by (apply Z.mul_nonneg_nonneg; lia).
    assert (H2 : P * T <= (P * N - (P - Q) * T) * C) by lia.
    destruct (Z_lt_le_dec ((P - Q) * T) (P * N)) as [Hlt|Hge]; [exact Hlt|exfalso].
    assert (H3 : (P * N - (P - Q) * T) * C <= 0) by (apply Z.mul_nonpos_nonneg; lia).
    assert (H4 : 0 < P * T) by (apply Z.mul_pos_pos; lia).
    lia.
  Qed.

  (** the two easy ranges of x = the first item of the last bin *)
  Lemma ffd_119_ranges C (items : list A) (b : bins A) (n : nat) :
    items <> [] -> Forall (fun x : A => 0 <= valueof x) items ->
    first_fit_decreasing valueof true C items = Ok b -> Packable C (map valueof items) n ->
    exists x0, In x0 items /\
      (11 * valueof x0 <= 2 * C -> (9 * length b <= 11 * n + 8)%nat) /\
      (C < 4 * valueof x0 -> (6 * length b <= 7 * n + 5)%nat).
  Proof.
    intros Hne Hnn H Hpack.
    destruct (ffd_last valueof C items b Hne Hnn H)
      as (t & last & x0 & E & Hin & [Hx0 Hx0C] & Hcl & Hsf & Hw & Hnnb & Hp).
    subst b. rewrite app_length. cbn [length].
    assert (HC : 0 <= C) by lia.
    exists x0. split; [|split].
    - eapply Permutation_in; [exact Hp|]. rewrite contents_app, contents_cons.
      apply in_or_app. right. apply in_or_app. left. exact Hin.
    - intros Hsmall.
      destruct t as [|bn t']; [cbn [length]; destruct n as [|n]; [|lia]|].
      + apply packable_zero in Hpack. apply map_eq_nil in Hpack. congruence.
      + pose proof (volume_case_q C 11 2 (bn :: t') last x0 items n ltac:(lia) HC Hin Hx0 Hsmall Hcl Hw Hnnb Hp Hpack
                      ltac:(discriminate)) as Hv.
        cbn [length] in *. lia.
    - intros Hbig.
      pose proof (heavy76 valueof C (valueof x0) Hbig Hx0C t Hcl Hsf) as Hheavy.
      assert (Hlight : ws76 C (valueof x0) (map valueof items) <= 7 * Z.of_nat n).
      { apply (packable_gws (w76 C (valueof x0)) C 7); [|rewrite Forall_map; exact Hnn|exact Hpack].
        intros g Hg0 Hg. apply light76; assumption. }
      rewrite <- (gws_perm _ _ _ (Permutation_map valueof Hp)) in Hlight.
      rewrite contents_app, map_app, gws_app in Hlight.
      assert (Hl2 : 2 <= ws76 C (valueof x0) (map valueof (contents [last]))).
      { rewrite contents_cons. apply in_split in Hin. destruct Hin as (l1 & l2 & El). rewrite El.
        rewrite !map_app, !gws_app. cbn [map]. rewrite gws_cons.
        pose proof (gws_nonneg (w76 C (valueof x0)) (map valueof l1) (w76_nonneg C (valueof x0))).
        pose proof (gws_nonneg (w76 C (valueof x0)) (map valueof l2) (w76_nonneg C (valueof x0))).
        pose proof (gws_nonneg (w76 C (valueof x0)) (map valueof (contents [])) (w76_nonneg C (valueof x0))).
        pose proof (w76_ge2 C (valueof x0) (valueof x0) ltac:(lia)). lia. }
      lia.
  Qed.

  (** 11/9 when no value lies in (2C/11, C/4] *)
  Theorem ffd_ratio_11_9_partial C (items : list A) (b : bins A) (n : nat) :
    items <> [] -> Forall (fun x : A => 0 <= valueof x) items ->
    Forall (fun x : A => 11 * valueof x <= 2 * C \/ C < 4 * valueof x) items ->
    first_fit_decreasing valueof true C items = Ok b -> Packable C (map valueof items) n ->
    (9 * length b <= 11 * n + 8)%nat.
  Proof.
    intros Hne Hnn Hgap H Hpack.
    destruct (ffd_119_ranges C items b n Hne Hnn H Hpack) as (x0 & Hin & H1 & H2).
    rewrite Forall_forall in Hgap. destruct (Hgap x0 Hin) as [Hs|Hb].
    - apply H1. exact Hs.
    - specialize (H2 Hb). lia.
  Qed.

  (** 7/6 when every value exceeds C/4 *)
  Theorem ffd_ratio_76_large C (items : list A) (b : bins A) (n : nat) :
    items <> [] -> Forall (fun x : A => C < 4 * valueof x) items ->
    first_fit_decreasing valueof true C items = Ok b -> Packable C (map valueof items) n ->
    (6 * length b <= 7 * n + 5)%nat.
  Proof.
    intros Hne Hbig H Hpack.
    assert (Hnn : Forall (fun x : A => 0 <= valueof x) items).
    { destruct (Z_lt_le_dec C 0) as [Hneg|Hpos].
      - exfalso. destruct items as [|x r]; [congruence|].
        assert (Hex : exists e, first_fit_decreasing valueof true C (x :: r) = Err e).
        { apply ffd_error_iff. apply Exists_cons_hd. apply Forall_cons_iff in Hbig. destruct Hbig as [Hx _]. lia. }
        destruct Hex as [e He]. rewrite He in H. discriminate H.
      - eapply Forall_impl; [|exact Hbig]. intros y Hy. cbv beta in Hy. lia. }
    destruct (ffd_119_ranges C items b n Hne Hnn H Hpack) as (x0 & Hin & _ & H2).
    rewrite Forall_forall in Hbig. apply H2. apply Hbig. exact Hin.
  Qed.
End FFD119.


(** ---- 11. examples ---- *)
(** one third of the smallest member of Johnson's 11/9 family (C = 60: 31, 17, 16, 13, the last
    above C/5): FFD uses 4 bins, the optimum is 3 *)
Example ffd_54_johnson_thm b :
  first_fit_decreasing idZ true 60 (repeat 31 2 ++ repeat 17 2 ++ repeat 16 2 ++ repeat 13 4) = Ok b ->
  (4 * length b <= 5 * 3 + 4)%nat.
Proof.
  intros H. set (L := repeat 31 2 ++ repeat 17 2 ++ repeat 16 2 ++ repeat 13 4) in *.
  apply (ffd_ratio_54_partial idZ 60 L b 3); [discriminate| |exact H|].
  - repeat constructor; lia.
  - assert (HF : Forall (fun v => 0 <= v <= 60) L) by (repeat constructor; lia).
    pose proof (min_bins_spec_strong 60 L HF) as [M _]. rewrite map_id. exact M.
Qed.

Example ffd_54_johnson_run :
  ffd_count_ex 60 (repeat 31 6 ++ repeat 17 6 ++ repeat 16 6 ++ repeat 13 12) = Some 11%nat.
Proof. vm_compute. reflexivity. Qed.

(** all values above C/4: FFD 3 bins, optimum 2, 6 * 3 <= 7 * 2 + 5 *)
Example ffd_76_tight_thm b :
  first_fit_decreasing idZ true 10 [4; 4; 3; 3; 3; 3] = Ok b -> (6 * length b <= 7 * 2 + 5)%nat.
Proof.
  intros H. apply (ffd_ratio_76_large idZ 10 [4; 4; 3; 3; 3; 3] b 2); [discriminate| |exact H|].
  - repeat constructor; lia.
  - assert (HF : Forall (fun v => 0 <= v <= 10) [4; 4; 3; 3; 3; 3]) by (repeat constructor; lia).
    pose proof (min_bins_spec_strong 10 [4; 4; 3; 3; 3; 3] HF) as [M _]. rewrite map_id. exact M.
Qed.

(** the three runs that defeat size-only weights for C = 44, x = 10 (see OPEN above) *)
Example ffd_mix_runs :
  first_fit_decreasing idZ true 44 [25; 25; 10; 10; 10] = Ok [(35, [25; 10]); (35, [25; 10]); (10, [10])] /\
  first_fit_decreasing idZ true 44 [24; 24; 11; 11; 10] = Ok [(35, [24; 11]); (35, [24; 11]); (10, [10])] /\
  first_fit_decreasing idZ true 44 [19; 19; 19; 19; 10] = Ok [(38, [19; 19]); (38, [19; 19]); (10, [10])].
Proof. vm_compute. repeat split. Qed.

Check ffd_sfit2.

Print Assumptions ffd_ratio_43_partial.
Print Assumptions ffd_ratio_54_partial.
Print Assumptions ffd_ratio_11_9_partial.
Print Assumptions ffd_ratio_76_large.
Print Assumptions ffd_119_ranges.
Print Assumptions ffd_54_johnson_thm.
