(** Properties of the model of complete_greedy.py (Model/CG.v):
    safety under every interruption point (C01, C11), incumbent bookkeeping,
    only-improves (C11), totality without a limit (C01), first solution = LPT (C11),
    sums-only run (C06). *)
From Prtpy Require Import Base.Prelude Model.Binner Model.Objectives Model.CG Model.Greedy
  Spec.Partition Proofs.BaseLemmas Proofs.BinnerLemmas.
From Coq Require Import Sorting.Sorted Arith ZifyBool.

(** ---- small list facts ---- *)

Lemma cg_range_from_app i n : range_from i (S n) = range_from i n ++ [(i + n)%nat].
Proof.
  revert i; induction n as [|n IH]; intros i.
  - simpl. rewrite Nat.add_0_r. reflexivity.
  - change (range_from i (S (S n))) with (i :: range_from (S i) (S n)).
    rewrite IH. simpl. rewrite Nat.add_succ_r. reflexivity.
Qed.

Lemma cg_rev_range_S n : rev (range (S n)) = n :: rev (range n).
Proof. unfold range. rewrite cg_range_from_app, rev_app_distr. reflexivity. Qed.

Lemma cg_In_range_from j i n : In j (range_from i n) -> (j < i + n)%nat.
Proof.
  revert i; induction n as [|n IH]; intros i H; simpl in H; [contradiction|].
  destruct H as [H|H]; [lia|]. apply IH in H. lia.
Qed.

Lemma cg_In_rev_range j n : In j (rev (range n)) -> (j < n)%nat.
Proof. intros H. apply in_rev in H. apply cg_In_range_from in H. lia. Qed.

Lemma cg_rev_range_pos k : (1 <= k)%nat -> exists bi idxs, rev (range k) = bi :: idxs.
Proof. destruct k as [|n]; intros H; [lia|]. rewrite cg_rev_range_S. eauto. Qed.

Lemma cg_rev_nil {T} (l : list T) : rev l = [] -> l = [].
Proof. intros H. apply (f_equal (@rev T)) in H. rewrite rev_involutive in H. exact H. Qed.

(** ---- the order on incumbent values: None = +inf ---- *)

(** [better_or_equal r2 r1]: r2 is at least as good as r1 *)
Definition better_or_equal (r2 r1 : option Z) : Prop :=
  match r1, r2 with
  | None, _ => True
  | Some _, None => False
  | Some v1, Some v2 => v2 <= v1
  end.

Lemma boe_refl r : better_or_equal r r.
Proof. destruct r; simpl; lia. Qed.

Lemma boe_trans r3 r2 r1 : better_or_equal r3 r2 -> better_or_equal r2 r1 -> better_or_equal r3 r1.
Proof. destruct r1, r2, r3; simpl; try lia; tauto. Qed.

Lemma boe_lt_bestv v r : lt_bestv v r = true -> better_or_equal (Some v) r.
Proof. destruct r; simpl; [lia|auto]. Qed.

(** ---- multiset facts about [update] and the LPT step on sums ---- *)

Lemma cg_update_perm_split (f : Z -> Z) i l : (i < length l)%nat ->
  exists r, Permutation l (nth i l 0 :: r) /\ Permutation (update i f l) (f (nth i l 0) :: r).
Proof.
  intros H. destruct (update_split i f l H) as (l1 & y & l2 & E1 & E2 & E3).
  assert (Hn : nth i l 0 = y).
  { rewrite E1, app_nth2 by lia. rewrite E2, Nat.sub_diag. reflexivity. }
  exists (l1 ++ l2). rewrite Hn, E3. split.
  - rewrite E1. symmetry. apply Permutation_middle.
  - symmetry. apply Permutation_middle.
Qed.

(** adding to two bins of equal sum gives the same multiset of sums *)
Lemma cg_update_same_value (f : Z -> Z) i j l : (i < length l)%nat -> (j < length l)%nat ->
  nth i l 0 = nth j l 0 -> Permutation (update i f l) (update j f l).
Proof.
  intros Hi Hj E.
  destruct (cg_update_perm_split f i l Hi) as (r1 & A1 & B1).
  destruct (cg_update_perm_split f j l Hj) as (r2 & A2 & B2).
  rewrite B1, B2, E. apply perm_skip. apply Permutation_cons_inv with (a := nth j l 0).
  rewrite <- A2, <- E, <- A1. reflexivity.
Qed.

Definition cg_sumsq (l : list Z) : Z := zsum (map (fun z => z * z) l).

Lemma cg_sumsq_perm l1 l2 : Permutation l1 l2 -> cg_sumsq l1 = cg_sumsq l2.
Proof. intros P. apply zsum_perm, Permutation_map, P. Qed.

Lemma cg_sumsq_update v i l : (i < length l)%nat ->
  cg_sumsq (update i (fun z => z + v) l) = cg_sumsq l + 2 * v * nth i l 0 + v * v.
Proof.
  intros Hi. destruct (cg_update_perm_split (fun z => z + v) i l Hi) as (r & A1 & B1).
  rewrite (cg_sumsq_perm _ _ B1). rewrite (cg_sumsq_perm _ _ A1) at 1.
  unfold cg_sumsq. cbn [map zsum fold_right]. lia.
Qed.

(** conversely (for a non-zero amount) equal multisets mean equal bin sums *)
Lemma cg_update_perm_inv v i j l : (i < length l)%nat -> (j < length l)%nat ->
  Permutation (update i (fun z => z + v) l) (update j (fun z => z + v) l) ->
  v = 0 \/ nth i l 0 = nth j l 0.
Proof.
  intros Hi Hj P. apply cg_sumsq_perm in P. rewrite !cg_sumsq_update in P by assumption.
  assert (E : v * (nth i l 0 - nth j l 0) = 0) by lia.
  apply Z.mul_eq_0 in E. lia.
Qed.

Lemma cg_update_add0 i l : update i (fun z => z + 0) l = l.
Proof.
  revert i; induction l as [|y t IH]; intros [|i]; cbn [update]; auto.
  - f_equal. lia.
  - f_equal. apply IH.
Qed.

Definition lpt_step (s : list Z) (v : Z) : list Z := update (argmin s) (fun z => z + v) s.

Lemma cg_lpt_step_perm s1 s2 v : Permutation s1 s2 -> Permutation (lpt_step s1 v) (lpt_step s2 v).
Proof.
  intros P. unfold lpt_step. destruct s1 as [|a1 t1].
  - apply Permutation_nil in P. subst s2. reflexivity.
  - assert (N1 : a1 :: t1 <> []) by discriminate.
    assert (N2 : s2 <> []).
    { intros ->. apply Permutation_sym, Permutation_nil in P. discriminate. }
    destruct (argmin_spec _ N1) as (L1 & M1 & _). destruct (argmin_spec _ N2) as (L2 & M2 & _).
    set (i1 := argmin (a1 :: t1)) in *. set (i2 := argmin s2) in *.
    assert (E : nth i1 (a1 :: t1) 0 = nth i2 s2 0).
    { rewrite Forall_forall in M1, M2.
      assert (H1 : In (nth i1 (a1 :: t1) 0) s2).
      { eapply Permutation_in; [exact P|]. apply nth_In. exact L1. }
      assert (H2 : In (nth i2 s2 0) (a1 :: t1)).
      { eapply Permutation_in; [symmetry; exact P|]. apply nth_In. exact L2. }
      apply M2 in H1. apply M1 in H2. lia. }
    destruct (cg_update_perm_split (fun z => z + v) i1 _ L1) as (r1 & A1 & B1).
    destruct (cg_update_perm_split (fun z => z + v) i2 _ L2) as (r2 & A2 & B2).
    rewrite B1, B2, E. apply perm_skip. apply Permutation_cons_inv with (a := nth i2 s2 0).
    rewrite <- A2, <- E, <- A1. exact P.
Qed.

(** on an ascending list the LPT step is (up to order) adding to position 0 *)
Lemma cg_lpt_step_sorted s v : StronglySorted Z.le s ->
  Permutation (lpt_step s v) (update O (fun z => z + v) s).
Proof.
  intros Hs. unfold lpt_step. destruct s as [|a t]; [reflexivity|].
  assert (N : a :: t <> []) by discriminate.
  destruct (argmin_spec _ N) as (L & M & _).
  apply cg_update_same_value; [exact L|cbn [length]; lia|].
  inversion Hs as [|a' t' Ht Ha]; subst.
  assert (H1 : nth (argmin (a :: t)) (a :: t) 0 <= a).
  { rewrite Forall_forall in M. apply M. left. reflexivity. }
  assert (H2 : a <= nth (argmin (a :: t)) (a :: t) 0).
  { destruct (argmin (a :: t)) as [|j] eqn:Ej; cbn [nth]; [lia|].
    rewrite Forall_forall in Ha. apply Ha. apply nth_In. cbn [length] in L. lia. }
  change (nth O (a :: t) 0) with a. lia.
Qed.

Lemma cg_rev_last {T} (l : list T) d : l <> [] -> exists l', rev l = last l d :: l'.
Proof.
  intros H. exists (rev (removelast l)).
  rewrite (app_removelast_last d H) at 1. rewrite rev_app_distr. reflexivity.
Qed.

Lemma cg_last_In {T} (l : list T) d : l <> [] -> In (last l d) l.
Proof.
  intros H. rewrite (app_removelast_last d H) at 2. apply in_or_app. right. left. reflexivity.
Qed.

Lemma cg_zlist_eqb_eq l1 : forall l2, zlist_eqb l1 l2 = true -> l1 = l2.
Proof.
  induction l1 as [|x t IH]; intros [|y u] H; cbn [zlist_eqb] in H; try discriminate; auto.
  apply andb_true_iff in H as [H1 H2]. apply Z.eqb_eq in H1. subst y. f_equal. apply IH. exact H2.
Qed.

Lemma cg_sorted_nth_le s : StronglySorted Z.le s -> forall i j, (i <= j)%nat -> (j < length s)%nat ->
  nth i s 0 <= nth j s 0.
Proof.
  induction 1 as [|a t Ht IH Ha]; intros i j Hij Hj; cbn [length] in Hj; [lia|].
  destruct i as [|i], j as [|j]; cbn [nth]; try lia.
  - rewrite Forall_forall in Ha. apply Ha. apply nth_In. lia.
  - apply IH; lia.
Qed.

Section CGProofs.
  Context {A : Type} (valueof : A -> Z).

  (** ================= 0. generic facts about one run ================= *)
  Section Generic.
    Variables (keep : bool) (o : objective) (flags : cg_flags) (limit : option nat) (k : nat)
              (glb : option Z).

    Definition cg_child (b : bins A) (x : A) (bi : nat) : bins A :=
      sort_bins (add_item valueof keep b x bi).
    Definition cg_h3bins (rest : list A) (b : bins A) : bins A :=
      sort_bins (fold_left (fun bb y => add_item valueof keep bb y O) rest b).

    Lemma cg_enter_some (st st1 : @cg_state A) : cg_enter limit st = Some st1 ->
      cg_stop st = false /\
      st1 = mk_cg (cg_best st) (cg_bestv st) (cg_seen st) false (S (cg_ticks st)) (cg_first st).
    Proof.
      unfold cg_enter. destruct (cg_stop st); [discriminate|].
      cbv zeta. destruct limit as [n|].
      - destruct (Nat.ltb n _); [discriminate|]. intros H; inversion H; auto.
      - intros H; inversion H; auto.
    Qed.

    Lemma cg_enter_stopped (st : @cg_state A) : cg_stop st = true -> cg_enter limit st = None.
    Proof. unfold cg_enter. intros ->. reflexivity. Qed.

    Lemma cg_halt_stopped (st : @cg_state A) : cg_stop st = true -> cg_halt st = st.
    Proof. unfold cg_halt. intros ->. reflexivity. Qed.

    Lemma cg_halt_stop (st : @cg_state A) : cg_stop (cg_halt st) = true.
    Proof. unfold cg_halt. destruct (cg_stop st) eqn:E; auto. Qed.

    Lemma cg_halt_fields (st : @cg_state A) :
      cg_best (cg_halt st) = cg_best st /\ cg_bestv (cg_halt st) = cg_bestv st /\
      cg_first (cg_halt st) = cg_first st /\ cg_seen (cg_halt st) = cg_seen st /\
      (cg_ticks st <= cg_ticks (cg_halt st))%nat.
    Proof. unfold cg_halt. destruct (cg_stop st); cbn; auto 10. Qed.

    (** -- the loop body of cg_children, as an unfolding equation -- *)
    Definition cg_prev_skip (prev : option Z) (cs : Z) : bool :=
      match prev with Some p => cs =? p | None => false end.

    Definition cg_fast_lb (bi : nat) (cur : list Z) (x : A) (R : Z) : option Z :=
      if use_fast_lower_bound flags then
        match o with
        | MinLargest => Some (Z.max (nth bi cur 0 + valueof x) (last0 cur))
        | MaxSmallest =>
            let ns := match bi with
                      | O => let a := head0 cur + valueof x in
                             if Nat.ltb 1 k then Z.min a (nth 1 cur 0) else a
                      | _ => head0 cur
                      end in
            Some (- (ns + R))
        | _ => None
        end
      else None.

    Definition cg_pruned (bi : nat) (b : bins A) (cur : list Z) (x : A) (R : Z) (bestv : option Z) : bool :=
      lb_ge_bestv (cg_fast_lb bi cur x R) bestv
      || (use_lower_bound flags && lb_ge_bestv (lower_bound o (sums (cg_child b x bi)) R true) bestv).

    Definition cg_seen_skip (depth : nat) (ns : list Z) (seen : list (nat * list Z)) : bool :=
      use_set_of_seen_states flags && existsb (state_eqb (S depth, ns)) seen.

    Definition cg_seen_add (depth : nat) (ns : list Z) (seen : list (nat * list Z)) :=
      if use_set_of_seen_states flags then (S depth, ns) :: seen else seen.

    Notation children := (cg_children valueof keep o flags k).

    Lemma cg_children_cons bi idxs b cur x R depth prev bestv seen :
      children (bi :: idxs) b cur x R depth prev bestv seen =
      let cs := nth bi cur 0 in
      if cg_prev_skip prev cs then children idxs b cur x R depth prev bestv seen
      else if cg_pruned bi b cur x R bestv then children idxs b cur x R depth (Some cs) bestv seen
      else let nb := cg_child b x bi in
           if cg_seen_skip depth (sums nb) seen then children idxs b cur x R depth (Some cs) bestv seen
           else let r := children idxs b cur x R depth (Some cs) bestv (cg_seen_add depth (sums nb) seen) in
                (nb :: fst r, snd r).
    Proof.
      cbn [cg_children]. cbv zeta.
      unfold cg_prev_skip, cg_pruned, cg_fast_lb, cg_seen_skip, cg_seen_add, cg_child.
      destruct (match prev with Some p => nth bi cur 0 =? p | None => false end); [reflexivity|].
      destruct (lb_ge_bestv _ bestv); [reflexivity|]. cbn [orb].
      destruct (use_lower_bound flags && _); [reflexivity|].
      destruct (use_set_of_seen_states flags); cbn [andb].
      - destruct (existsb _ seen); [reflexivity|].
        destruct (cg_children _ _ _ _ _ _ _ _ _ _ _ _ _ _) as [cs' seen']. reflexivity.
      - destruct (cg_children _ _ _ _ _ _ _ _ _ _ _ _ _ _) as [cs' seen']. reflexivity.
    Qed.

    Lemma cg_pruned_none bi b cur x R : cg_pruned bi b cur x R None = false.
    Proof.
      unfold cg_pruned, lb_ge_bestv, ge_bestv.
      destruct (cg_fast_lb bi cur x R); destruct (lower_bound o _ R true);
        destruct (use_lower_bound flags); reflexivity.
    Qed.

    (** every generated child is the parent plus the next item in some bin of the index list *)
    Lemma cg_children_spec idxs b cur x R depth : forall prev bestv seen,
      Forall (fun c => exists bi, In bi idxs /\ c = cg_child b x bi)
             (fst (children idxs b cur x R depth prev bestv seen)).
    Proof.
      induction idxs as [|bi idxs IH]; intros prev bestv seen.
      - cbn. constructor.
      - rewrite cg_children_cons. cbv zeta.
        assert (Hw : forall l, Forall (fun c => exists bi0, In bi0 idxs /\ c = cg_child b x bi0) l ->
                               Forall (fun c => exists bi0, In bi0 (bi :: idxs) /\ c = cg_child b x bi0) l).
        { intros l Hl. eapply Forall_impl; [|exact Hl]. cbv beta.
          intros c (bi0 & Hin & Hc). exists bi0. split; [right; auto|auto]. }
        destruct (cg_prev_skip _ _); [apply Hw, IH|].
        destruct (cg_pruned _ _ _ _ _ _); [apply Hw, IH|].
        destruct (cg_seen_skip _ _ _); [apply Hw, IH|].
        cbn [fst]. constructor; [|apply Hw, IH].
        exists bi. split; [left; auto|auto].
    Qed.

    Notation explore := (cg_explore valueof keep o flags limit k glb).
    Notation leaf := (cg_leaf o limit glb).

    Lemma cg_leaf_eq b (st : @cg_state A) :
      leaf b st =
      match cg_enter limit st with
      | None => cg_halt st
      | Some st1 =>
          if lt_bestv (value o (sums b) false) (cg_bestv st1) then
            mk_cg (Some b) (Some (value o (sums b) false)) (cg_seen st1)
                  (match glb with Some g => value o (sums b) false <=? g | None => false end)
                  (cg_ticks st1)
                  (match cg_first st1 with None => Some b | f => f end)
          else st1
      end.
    Proof. reflexivity. Qed.

    Lemma cg_explore_nil depth b st : explore [] depth b st = leaf b st.
    Proof. reflexivity. Qed.

    Definition cg_h3_cond (rest : list A) (cur : list Z) : bool :=
      use_heuristic_3 flags && objective_eqb o MinLargest
      && (zsum (map valueof rest) + head0 cur <=? last0 cur).

    Lemma cg_explore_cons x t depth b st :
      explore (x :: t) depth b st =
      match cg_enter limit st with
      | None => cg_halt st
      | Some st1 =>
          if cg_h3_cond (x :: t) (sums b) then leaf (cg_h3bins (x :: t) b) st1
          else
            let r := children (rev (range k)) b (sums b) x (zsum (map valueof t)) depth None
                              (cg_bestv st1) (cg_seen st1) in
            fold_left (fun s c => explore t (S depth) c s) (rev (fst r))
                      (mk_cg (cg_best st1) (cg_bestv st1) (snd r) false (cg_ticks st1) (cg_first st1))
      end.
    Proof.
      cbn [cg_explore]. destruct (cg_enter limit st) as [st1|]; [|reflexivity].
      unfold cg_h3_cond, cg_h3bins. cbv zeta.
      destruct (use_heuristic_3 flags && objective_eqb o MinLargest && _); [reflexivity|].
      destruct (cg_children _ _ _ _ _ _ _ _ _ _ _ _ _ _) as [cs' seen']. reflexivity.
    Qed.

    Lemma cg_explore_none rest depth b st : cg_enter limit st = None -> explore rest depth b st = cg_halt st.
    Proof.
      intros E. destruct rest as [|x t].
      - rewrite cg_explore_nil, cg_leaf_eq, E. reflexivity.
      - rewrite cg_explore_cons, E. reflexivity.
    Qed.

    Lemma cg_explore_stopped rest depth b st : cg_stop st = true -> explore rest depth b st = st.
    Proof.
      intros Hs. rewrite cg_explore_none by (apply cg_enter_stopped; auto).
      apply cg_halt_stopped; auto.
    Qed.

    (** -- generic invariant principle --
        [I] is a property of states that survives clock readings / seen-set updates and
        the acceptance of a leaf satisfying [V []]; [V rest b] is a property of vertices
        inherited by children. *)
    Section Inv.
      Variable I : @cg_state A -> Prop.
      Variable V : list A -> bins A -> Prop.
      Hypothesis Hframe : forall st seen' stop' n, (cg_ticks st <= n)%nat -> I st ->
        I (mk_cg (cg_best st) (cg_bestv st) seen' stop' n (cg_first st)).
      Hypothesis Haccept : forall b st stop', V [] b -> I st ->
        lt_bestv (value o (sums b) false) (cg_bestv st) = true ->
        I (mk_cg (Some b) (Some (value o (sums b) false)) (cg_seen st) stop' (cg_ticks st)
                 (match cg_first st with None => Some b | f => f end)).
      Hypothesis Hchild : forall x t b bi, V (x :: t) b -> (bi < k)%nat -> V t (cg_child b x bi).
      Hypothesis Hh3 : forall rest b, V rest b -> V [] (cg_h3bins rest b).

      Lemma cg_enter_inv st st1 : cg_enter limit st = Some st1 -> I st -> I st1.
      Proof.
        intros E HI. apply cg_enter_some in E as [_ ->]. apply Hframe; auto.
      Qed.

      Lemma cg_halt_inv st : I st -> I (cg_halt st).
      Proof.
        intros HI. unfold cg_halt. destruct (cg_stop st); auto.
      Qed.

      Lemma cg_leaf_inv b st : V [] b -> I st -> I (leaf b st).
      Proof.
        intros HV HI. rewrite cg_leaf_eq. destruct (cg_enter limit st) as [st1|] eqn:E.
        - pose proof (cg_enter_inv _ _ E HI) as HI1.
          destruct (lt_bestv _ _) eqn:El; auto.
        - apply cg_halt_inv; auto.
      Qed.

      Lemma cg_fold_inv t depth
        (IH : forall depth b st, V t b -> I st -> I (explore t depth b st)) :
        forall cs st, Forall (V t) cs -> I st ->
        I (fold_left (fun s c => explore t depth c s) cs st).
      Proof.
        induction cs as [|c cs IHcs]; intros st Hcs HI; cbn [fold_left]; auto.
        inversion Hcs as [|c' cs' Hc Hcs']; subst. apply IHcs; auto.
      Qed.

      Lemma cg_children_V x t b cur R depth prev bestv seen : V (x :: t) b ->
        Forall (V t) (fst (children (rev (range k)) b cur x R depth prev bestv seen)).
      Proof.
        intros HV. eapply Forall_impl; [|apply cg_children_spec]. cbv beta.
        intros c (bi & Hin & ->). apply Hchild; auto. apply cg_In_rev_range; auto.
      Qed.

      Lemma cg_explore_inv : forall rest depth b st, V rest b -> I st -> I (explore rest depth b st).
      Proof.
        induction rest as [|x t IH]; intros depth b st HV HI.
        - rewrite cg_explore_nil. apply cg_leaf_inv; auto.
        - rewrite cg_explore_cons. destruct (cg_enter limit st) as [st1|] eqn:E.
          + pose proof (cg_enter_inv _ _ E HI) as HI1.
            destruct (cg_h3_cond _ _).
            * apply cg_leaf_inv; auto.
            * cbv zeta. apply cg_fold_inv; [exact (fun d => IH d)| |].
              -- apply Forall_rev. apply cg_children_V; auto.
              -- apply Hframe; auto.
          + apply cg_halt_inv; auto.
      Qed.
    End Inv.
  End Generic.

  (** ================= 1. safety under every interruption point ================= *)
  Section Safety.
    Variables (o : objective) (flags : cg_flags) (limit : option nat) (k : nat) (glb : option Z).
    Variable target : list A.
    Hypothesis Hk : (1 <= k)%nat.

    (** a vertex: k well-formed bins holding exactly the items already placed *)
    Definition cg_vertex_ok (rest : list A) (b : bins A) : Prop :=
      length b = k /\ wf valueof b /\ Permutation (contents b ++ rest) target.

    Definition cg_state_ok (st : @cg_state A) : Prop :=
      (forall b, cg_best st = Some b -> cg_vertex_ok [] b) /\
      (forall f, cg_first st = Some f -> cg_vertex_ok [] f).

    Lemma cg_child_ok x t b bi : cg_vertex_ok (x :: t) b -> (bi < k)%nat ->
      cg_vertex_ok t (cg_child true b x bi).
    Proof.
      intros (Hl & Hw & Hp) Hbi. unfold cg_child. repeat split.
      - rewrite sort_bins_length, add_item_length. exact Hl.
      - apply sort_bins_wf, add_item_wf. exact Hw.
      - rewrite sort_bins_contents. rewrite add_item_contents by lia.
        rewrite <- Hp. cbn [app]. apply Permutation_middle.
    Qed.

    Lemma cg_fold_add0_ok rest : forall b, (1 <= length b)%nat -> wf valueof b ->
      let b' := fold_left (fun bb y => add_item valueof true bb y O) rest b in
      length b' = length b /\ wf valueof b' /\ Permutation (contents b') (contents b ++ rest).
    Proof.
      induction rest as [|x t IH]; intros b Hl Hw; cbn [fold_left]; cbv zeta.
      - rewrite app_nil_r. auto.
      - destruct (IH (add_item valueof true b x O)) as (H1 & H2 & H3).
        + rewrite add_item_length. exact Hl.
        + apply add_item_wf. exact Hw.
        + rewrite add_item_length in H1. repeat split; auto.
          rewrite H3. rewrite add_item_contents by lia. cbn [app]. apply Permutation_middle.
    Qed.

    Lemma cg_h3_ok rest b : cg_vertex_ok rest b -> cg_vertex_ok [] (cg_h3bins true rest b).
    Proof.
      intros (Hl & Hw & Hp). unfold cg_h3bins.
      destruct (cg_fold_add0_ok rest b) as (H1 & H2 & H3); [lia|auto|].
      repeat split.
      - rewrite sort_bins_length. lia.
      - apply sort_bins_wf. exact H2.
      - rewrite app_nil_r, sort_bins_contents, H3. exact Hp.
    Qed.

    Lemma cg_explore_ok rest depth b st : cg_vertex_ok rest b -> cg_state_ok st ->
      cg_state_ok (cg_explore valueof true o flags limit k glb rest depth b st).
    Proof.
      apply (cg_explore_inv true o flags limit k glb cg_state_ok cg_vertex_ok).
      - intros st0 seen' stop' n _ HI. exact HI.
      - intros b0 st0 stop' HV (HI1 & HI2) _. split; cbn [cg_best cg_first].
        + intros b1 E. inversion E; subst. exact HV.
        + destruct (cg_first st0) as [f0|] eqn:Ef; intros f E; inversion E; subst; auto.
      - exact cg_child_ok.
      - exact cg_h3_ok.
    Qed.
  End Safety.

  Lemma cg_run_ok o flags limit k items : (1 <= k)%nat ->
    cg_state_ok k (sort_desc valueof items) (cg_run valueof true o flags limit k items).
  Proof.
    intros Hk. unfold cg_run. apply cg_explore_ok; auto.
    - repeat split.
      + apply new_bins_length.
      + apply new_bins_wf.
      + rewrite new_bins_contents. reflexivity.
    - split; cbn; intros b E; discriminate.
  Qed.

  Lemma cg_vertex_ok_partition k items b :
    cg_vertex_ok k (sort_desc valueof items) [] b -> is_partition valueof k items b.
  Proof.
    intros (Hl & Hw & Hp). rewrite app_nil_r in Hp. repeat split; auto.
    rewrite Hp. apply sort_desc_perm.
  Qed.

  Theorem cg_safe : forall o flags limit k items b, (1 <= k)%nat ->
    cg valueof true o flags limit k items = Some b -> is_partition valueof k items b.
  Proof.
    intros o flags limit k items b Hk E. apply cg_vertex_ok_partition.
    apply (proj1 (cg_run_ok o flags limit k items Hk)). exact E.
  Qed.

  Theorem cg_first_safe : forall o flags limit k items f, (1 <= k)%nat ->
    cg_first (cg_run valueof true o flags limit k items) = Some f -> is_partition valueof k items f.
  Proof.
    intros o flags limit k items f Hk E. apply cg_vertex_ok_partition.
    apply (proj2 (cg_run_ok o flags limit k items Hk)). exact E.
  Qed.

  (** ================= 2. incumbent bookkeeping ================= *)
  Section Bookkeeping.
    Variables (keep : bool) (o : objective) (flags : cg_flags) (limit : option nat) (k : nat)
              (glb : option Z).
    Notation explore := (cg_explore valueof keep o flags limit k glb).

    (** invariants that do not depend on the vertex *)
    Lemma cg_explore_inv0 (I : @cg_state A -> Prop) :
      (forall st seen' stop' n, (cg_ticks st <= n)%nat -> I st ->
         I (mk_cg (cg_best st) (cg_bestv st) seen' stop' n (cg_first st))) ->
      (forall b st stop', I st -> lt_bestv (value o (sums b) false) (cg_bestv st) = true ->
         I (mk_cg (Some b) (Some (value o (sums b) false)) (cg_seen st) stop' (cg_ticks st)
                  (match cg_first st with None => Some b | f => f end))) ->
      forall rest depth b st, I st -> I (explore rest depth b st).
    Proof.
      intros H1 H2 rest depth b st HI.
      apply (cg_explore_inv keep o flags limit k glb I (fun _ _ => True)); auto.
    Qed.

    Lemma cg_fold_inv0 (I : @cg_state A -> Prop) :
      (forall st seen' stop' n, (cg_ticks st <= n)%nat -> I st ->
         I (mk_cg (cg_best st) (cg_bestv st) seen' stop' n (cg_first st))) ->
      (forall b st stop', I st -> lt_bestv (value o (sums b) false) (cg_bestv st) = true ->
         I (mk_cg (Some b) (Some (value o (sums b) false)) (cg_seen st) stop' (cg_ticks st)
                  (match cg_first st with None => Some b | f => f end))) ->
      forall t depth cs st, I st -> I (fold_left (fun s c => explore t depth c s) cs st).
    Proof.
      intros H1 H2 t depth cs. induction cs as [|c cs IH]; intros st HI; cbn [fold_left]; auto.
      apply IH. apply cg_explore_inv0; auto.
    Qed.

    (** best / bestv / first are in step *)
    Definition cg_bv_ok (st : @cg_state A) : Prop :=
      match cg_best st with
      | None => cg_bestv st = None /\ cg_first st = None
      | Some b => cg_bestv st = Some (value o (sums b) false) /\ cg_first st <> None
      end.

    Lemma cg_bv_ok_explore rest depth b st : cg_bv_ok st -> cg_bv_ok (explore rest depth b st).
    Proof.
      apply cg_explore_inv0.
      - intros st0 seen' stop' n _ HI. exact HI.
      - intros b0 st0 stop' HI _. unfold cg_bv_ok. cbn [cg_best cg_bestv cg_first].
        split; [reflexivity|]. destruct (cg_first st0); discriminate.
    Qed.

    Lemma cg_bv_ok_none st : cg_bv_ok st -> (cg_best st = None <-> cg_bestv st = None).
    Proof.
      unfold cg_bv_ok. destruct (cg_best st) as [b|]; intros [H1 H2]; rewrite H1; split; auto; discriminate.
    Qed.

    Lemma cg_bv_ok_some st b : cg_bv_ok st -> cg_best st = Some b ->
      cg_bestv st = Some (value o (sums b) false).
    Proof. unfold cg_bv_ok. intros H E. rewrite E in H. tauto. Qed.

    Lemma cg_bv_ok_first_none st : cg_bv_ok st -> cg_first st = None ->
      cg_best st = None /\ cg_bestv st = None.
    Proof.
      unfold cg_bv_ok. destruct (cg_best st) as [b|]; intros [H1 H2] E; [congruence|auto].
    Qed.

    (** within one run the incumbent value only decreases *)
    Lemma cg_bestv_mono rest depth b st :
      better_or_equal (cg_bestv (explore rest depth b st)) (cg_bestv st).
    Proof.
      apply (cg_explore_inv0 (fun s => better_or_equal (cg_bestv s) (cg_bestv st))).
      - intros st0 seen' stop' n _ HI. exact HI.
      - intros b0 st0 stop' HI Hlt. cbn [cg_bestv].
        eapply boe_trans; [apply boe_lt_bestv; exact Hlt|exact HI].
      - apply boe_refl.
    Qed.

    Lemma cg_ticks_mono rest depth b st : (cg_ticks st <= cg_ticks (explore rest depth b st))%nat.
    Proof.
      apply (cg_explore_inv0 (fun s => (cg_ticks st <= cg_ticks s)%nat)).
      - intros st0 seen' stop' n Hn HI. cbn [cg_ticks]. lia.
      - intros b0 st0 stop' HI _. exact HI.
      - lia.
    Qed.

    Lemma cg_ticks_mono_fold t depth cs st :
      (cg_ticks st <= cg_ticks (fold_left (fun s c => explore t depth c s) cs st))%nat.
    Proof.
      apply (cg_fold_inv0 (fun s => (cg_ticks st <= cg_ticks s)%nat)).
      - intros st0 seen' stop' n Hn HI. cbn [cg_ticks]. lia.
      - intros b0 st0 stop' HI _. exact HI.
      - lia.
    Qed.

    (** the first solution, once found, is never replaced *)
    Lemma cg_first_keep rest depth b st f : cg_first st = Some f ->
      cg_first (explore rest depth b st) = Some f.
    Proof.
      apply (cg_explore_inv0 (fun s => cg_first s = Some f)).
      - intros st0 seen' stop' n _ HI. exact HI.
      - intros b0 st0 stop' HI _. cbn [cg_first]. rewrite HI. reflexivity.
    Qed.

    (** the incumbent, once found, never disappears *)
    Lemma cg_best_keep rest depth b st : cg_best st <> None -> cg_best (explore rest depth b st) <> None.
    Proof.
      apply (cg_explore_inv0 (fun s => cg_best s <> None)).
      - intros st0 seen' stop' n _ HI. exact HI.
      - intros b0 st0 stop' HI _. cbn [cg_best]. discriminate.
    Qed.

    Lemma cg_best_keep_fold t depth cs st : cg_best st <> None ->
      cg_best (fold_left (fun s c => explore t depth c s) cs st) <> None.
    Proof.
      apply (cg_fold_inv0 (fun s => cg_best s <> None)).
      - intros st0 seen' stop' n _ HI. exact HI.
      - intros b0 st0 stop' HI _. cbn [cg_best]. discriminate.
    Qed.

    Lemma cg_first_keep_fold t depth cs st f : cg_first st = Some f ->
      cg_first (fold_left (fun s c => explore t depth c s) cs st) = Some f.
    Proof.
      apply (cg_fold_inv0 (fun s => cg_first s = Some f)).
      - intros st0 seen' stop' n _ HI. exact HI.
      - intros b0 st0 stop' HI _. cbn [cg_first]. rewrite HI. reflexivity.
    Qed.
  End Bookkeeping.

  Definition cg_init_state (flags : cg_flags) (k : nat) : @cg_state A :=
    mk_cg None None (if use_set_of_seen_states flags then [(O, repeat 0 k)] else []) false O None.

  Lemma cg_run_eq keep o flags limit k items :
    cg_run valueof keep o flags limit k items =
    cg_explore valueof keep o flags limit k
      (lower_bound o (repeat 0 k) (zsum (map valueof (sort_desc valueof items))) true)
      (sort_desc valueof items) O (new_bins k) (cg_init_state flags k).
  Proof. reflexivity. Qed.

  Lemma cg_run_bv_ok keep o flags limit k items :
    cg_bv_ok o (cg_run valueof keep o flags limit k items).
  Proof.
    rewrite cg_run_eq. apply cg_bv_ok_explore. unfold cg_bv_ok. cbn. auto.
  Qed.

  Theorem cg_bestv_spec : forall keep o flags limit k items,
    let st := cg_run valueof keep o flags limit k items in
    (cg_best st = None <-> cg_bestv st = None) /\
    (forall b, cg_best st = Some b -> cg_bestv st = Some (value o (sums b) false)).
  Proof.
    intros keep o flags limit k items st. split.
    - apply (cg_bv_ok_none o). apply cg_run_bv_ok.
    - intros b. apply cg_bv_ok_some. apply cg_run_bv_ok.
  Qed.

  (** ================= 6. sums-only run (C06) ================= *)
  Section Erase.
    Variables (o : objective) (flags : cg_flags) (limit : option nat) (k : nat) (glb : option Z).

    Definition cg_erase_state (st : @cg_state A) : @cg_state A :=
      mk_cg (option_map erase (cg_best st)) (cg_bestv st) (cg_seen st) (cg_stop st) (cg_ticks st)
            (option_map erase (cg_first st)).

    Lemma cg_erase_add_item (b : bins A) x i :
      erase (add_item valueof true b x i) = add_item valueof false (erase b) x i.
    Proof. unfold erase, add_item. apply map_update. intros bn. reflexivity. Qed.

    Lemma cg_erase_sort_bins (b : bins A) : erase (sort_bins b) = sort_bins (erase b).
    Proof. unfold erase, sort_bins. apply sort_asc_map. intros bn. reflexivity. Qed.

    Lemma cg_erase_child b x bi : erase (cg_child true b x bi) = cg_child false (erase b) x bi.
    Proof. unfold cg_child. rewrite cg_erase_sort_bins, cg_erase_add_item. reflexivity. Qed.

    Lemma cg_erase_fold_add0 rest : forall b : bins A,
      erase (fold_left (fun bb y => add_item valueof true bb y O) rest b) =
      fold_left (fun bb y => add_item valueof false bb y O) rest (erase b).
    Proof.
      induction rest as [|x t IH]; intros b; cbn [fold_left]; [reflexivity|].
      rewrite IH, cg_erase_add_item. reflexivity.
    Qed.

    Lemma cg_erase_h3bins rest b : erase (cg_h3bins true rest b) = cg_h3bins false rest (erase b).
    Proof. unfold cg_h3bins. rewrite cg_erase_sort_bins, cg_erase_fold_add0. reflexivity. Qed.

    Lemma cg_erase_new_bins : erase (@new_bins A k) = new_bins k.
    Proof. unfold erase, new_bins. induction k as [|n IH]; cbn; [reflexivity|]. f_equal. exact IH. Qed.

    Lemma cg_erase_enter st :
      cg_enter limit (cg_erase_state st) = option_map cg_erase_state (cg_enter limit st).
    Proof.
      unfold cg_enter, cg_erase_state. cbn [cg_stop cg_ticks cg_best cg_bestv cg_seen cg_first].
      destruct (cg_stop st); [reflexivity|]. destruct limit as [n|]; [|reflexivity].
      destruct (Nat.ltb n _); reflexivity.
    Qed.

    Lemma cg_erase_halt st : cg_halt (cg_erase_state st) = cg_erase_state (cg_halt st).
    Proof.
      unfold cg_halt. replace (cg_stop (cg_erase_state st)) with (cg_stop st) by reflexivity.
      destruct (cg_stop st) eqn:E; reflexivity.
    Qed.

    Lemma cg_erase_leaf b st :
      cg_leaf o limit glb (erase b) (cg_erase_state st) = cg_erase_state (cg_leaf o limit glb b st).
    Proof.
      rewrite !cg_leaf_eq, cg_erase_enter. destruct (cg_enter limit st) as [st1|]; cbn [option_map].
      - rewrite erase_sums. unfold cg_erase_state at 1 2 3 4.
        cbn [cg_stop cg_ticks cg_best cg_bestv cg_seen cg_first].
        destruct (lt_bestv _ _); [|reflexivity].
        unfold cg_erase_state. cbn [cg_stop cg_ticks cg_best cg_bestv cg_seen cg_first option_map].
        destruct (cg_first st1); reflexivity.
      - apply cg_erase_halt.
    Qed.

    Lemma cg_erase_children idxs b cur x R depth : forall prev bestv seen,
      cg_children valueof false o flags k idxs (erase b) cur x R depth prev bestv seen =
      (map erase (fst (cg_children valueof true o flags k idxs b cur x R depth prev bestv seen)),
       snd (cg_children valueof true o flags k idxs b cur x R depth prev bestv seen)).
    Proof.
      induction idxs as [|bi idxs IH]; intros prev bestv seen; [reflexivity|].
      rewrite !cg_children_cons. cbv zeta.
      destruct (cg_prev_skip _ _); [apply IH|].
      assert (Es : sums (cg_child false (erase b) x bi) = sums (cg_child true b x bi)).
      { rewrite <- cg_erase_child. apply erase_sums. }
      unfold cg_pruned. rewrite Es.
      destruct (_ || _); [apply IH|].
      destruct (cg_seen_skip _ _ _ _); [apply IH|].
      rewrite IH. cbn [fst snd map]. rewrite cg_erase_child. reflexivity.
    Qed.

    Lemma cg_erase_explore : forall rest depth b st,
      cg_explore valueof false o flags limit k glb rest depth (erase b) (cg_erase_state st) =
      cg_erase_state (cg_explore valueof true o flags limit k glb rest depth b st).
    Proof.
      induction rest as [|x t IH]; intros depth b st.
      - rewrite !cg_explore_nil. apply cg_erase_leaf.
      - rewrite !cg_explore_cons, cg_erase_enter.
        destruct (cg_enter limit st) as [st1|]; cbn [option_map]; [|apply cg_erase_halt].
        rewrite erase_sums. destruct (cg_h3_cond _ _ _ _).
        + rewrite <- cg_erase_h3bins. apply cg_erase_leaf.
        + cbv zeta.
          replace (cg_bestv (cg_erase_state st1)) with (cg_bestv st1) by reflexivity.
          replace (cg_seen (cg_erase_state st1)) with (cg_seen st1) by reflexivity.
          rewrite cg_erase_children. cbn [fst snd].
          rewrite <- map_rev.
          set (st2 := mk_cg (cg_best st1) _ _ _ _ _).
          change (mk_cg (cg_best (cg_erase_state st1)) _ _ _ _ _) with (cg_erase_state st2).
          generalize (rev (fst (cg_children valueof true o flags k (rev (range k)) b (sums b) x
                                  (zsum (map valueof t)) depth None (cg_bestv st1) (cg_seen st1)))).
          intros cs. generalize st2. clear st2.
          induction cs as [|c cs IHcs]; intros s; cbn [map fold_left]; [reflexivity|].
          rewrite IH. apply IHcs.
    Qed.
  End Erase.

  Theorem cg_erase_run : forall o flags limit k items,
    cg_run valueof false o flags limit k items =
    cg_erase_state (cg_run valueof true o flags limit k items).
  Proof.
    intros o flags limit k items. rewrite !cg_run_eq.
    rewrite <- cg_erase_explore. rewrite cg_erase_new_bins. reflexivity.
  Qed.

  Theorem cg_erase : forall o flags limit k items,
    option_map erase (cg valueof true o flags limit k items) = cg valueof false o flags limit k items.
  Proof.
    intros o flags limit k items. unfold cg. rewrite cg_erase_run. reflexivity.
  Qed.

  (** ================= 3. only improves (C11) ================= *)
  Definition objv (o : objective) (r : option (bins A)) : option Z :=
    option_map (fun b => value o (sums b) false) r.

  (** l1 <= l2 with None = no limit = infinity *)
  Definition cg_lim_le (l1 l2 : option nat) : Prop :=
    match l2 with
    | None => True
    | Some m => match l1 with Some n => (n <= m)%nat | None => False end
    end.

  Section Simulation.
    Variables (keep : bool) (o : objective) (flags : cg_flags) (l1 l2 : option nat) (k : nat)
              (glb : option Z).
    Hypothesis Hl : cg_lim_le l1 l2.
    Notation explore l := (cg_explore valueof keep o flags l k glb).

    Lemma cg_enter_sim (st st1 : @cg_state A) : cg_enter l1 st = Some st1 -> cg_enter l2 st = Some st1.
    Proof.
      unfold cg_enter. destruct (cg_stop st); [discriminate|]. cbv zeta. cbn [cg_ticks].
      unfold cg_lim_le in Hl.
      destruct l1 as [n|], l2 as [m|]; try contradiction; auto.
      - destruct (Nat.ltb n _) eqn:E1; [discriminate|]. destruct (Nat.ltb m _) eqn:E2; auto.
        apply Nat.ltb_lt in E2. apply Nat.ltb_ge in E1. lia.
      - destruct (Nat.ltb n _); [discriminate|auto].
    Qed.

    (** run 1 (smaller limit) and run 2 are in the same state, or run 1 has stopped and run 2
        is at least as good *)
    Definition cg_sim (st1 st2 : @cg_state A) : Prop :=
      st1 = st2 \/
      (cg_stop st1 = true /\ better_or_equal (cg_bestv st2) (cg_bestv st1) /\
       forall f, cg_first st1 = Some f -> cg_first st2 = Some f).

    Lemma cg_sim_right rest d b st1 st2 :
      cg_stop st1 = true -> better_or_equal (cg_bestv st2) (cg_bestv st1) ->
      (forall f, cg_first st1 = Some f -> cg_first st2 = Some f) ->
      cg_sim (explore l1 rest d b st1) (explore l2 rest d b st2).
    Proof.
      intros Hs Hb Hf. rewrite (cg_explore_stopped keep o flags l1) by exact Hs.
      right. split; [exact Hs|]. split.
      - eapply boe_trans; [apply cg_bestv_mono|exact Hb].
      - intros f E. apply cg_first_keep. apply Hf. exact E.
    Qed.

    Lemma cg_sim_none rest d b st : cg_sim (cg_halt st) (explore l2 rest d b st).
    Proof.
      right. destruct (cg_halt_fields st) as (_ & Hbv & Hfi & _).
      split; [apply cg_halt_stop|]. split.
      - rewrite Hbv. apply cg_bestv_mono.
      - intros f E. rewrite Hfi in E. apply cg_first_keep. exact E.
    Qed.

    Lemma cg_sim_leaf b st : cg_sim (cg_leaf o l1 glb b st) (cg_leaf o l2 glb b st).
    Proof.
      destruct (cg_enter l1 st) as [s|] eqn:E1.
      - rewrite !cg_leaf_eq, E1, (cg_enter_sim _ _ E1). left. reflexivity.
      - rewrite (cg_leaf_eq o l1), E1.
        change (cg_leaf o l2 glb b st) with (explore l2 [] O b st). apply cg_sim_none.
    Qed.

    Lemma cg_sim_fold t depth
      (IH : forall d b st1 st2, cg_sim st1 st2 -> cg_sim (explore l1 t d b st1) (explore l2 t d b st2)) :
      forall cs st1 st2, cg_sim st1 st2 ->
      cg_sim (fold_left (fun s c => explore l1 t depth c s) cs st1)
             (fold_left (fun s c => explore l2 t depth c s) cs st2).
    Proof.
      induction cs as [|c cs IHcs]; intros st1 st2 H; cbn [fold_left]; auto.
    Qed.

    Lemma cg_sim_explore : forall rest d b st1 st2, cg_sim st1 st2 ->
      cg_sim (explore l1 rest d b st1) (explore l2 rest d b st2).
    Proof.
      induction rest as [|x t IH]; intros d b st1 st2 [E|(Hs & Hb & Hf)];
        try (apply cg_sim_right; assumption); subst st2.
      - rewrite !cg_explore_nil. apply cg_sim_leaf.
      - destruct (cg_enter l1 st1) as [s|] eqn:E1.
        + rewrite !cg_explore_cons, E1, (cg_enter_sim _ _ E1).
          destruct (cg_h3_cond _ _ _ _); [apply cg_sim_leaf|].
          cbv zeta. apply cg_sim_fold; [exact IH|]. left. reflexivity.
        + rewrite (cg_explore_none keep o flags l1) by exact E1. apply cg_sim_none.
    Qed.
  End Simulation.

  Lemma cg_run_sim keep o flags l1 l2 k items : cg_lim_le l1 l2 ->
    cg_sim (cg_run valueof keep o flags l1 k items) (cg_run valueof keep o flags l2 k items).
  Proof.
    intros Hl. rewrite !cg_run_eq. apply cg_sim_explore; [exact Hl|]. left. reflexivity.
  Qed.

  Lemma cg_objv_best o (st : @cg_state A) : cg_bv_ok o st -> objv o (cg_best st) = cg_bestv st.
  Proof.
    unfold cg_bv_ok, objv. destruct (cg_best st) as [b|]; intros [H _]; rewrite H; reflexivity.
  Qed.

  Theorem cg_monotone_gen : forall keep o flags k items l1 l2, cg_lim_le l1 l2 ->
    better_or_equal (objv o (cg valueof keep o flags l2 k items))
                    (objv o (cg valueof keep o flags l1 k items)).
  Proof.
    intros keep o flags k items l1 l2 Hl. unfold cg.
    rewrite !cg_objv_best by apply cg_run_bv_ok.
    destruct (cg_run_sim keep o flags l1 l2 k items Hl) as [E|(_ & Hb & _)].
    - rewrite E. apply boe_refl.
    - exact Hb.
  Qed.

  Theorem cg_monotone : forall keep o flags k items n m, (n <= m)%nat ->
    better_or_equal (objv o (cg valueof keep o flags (Some m) k items))
                    (objv o (cg valueof keep o flags (Some n) k items)).
  Proof. intros keep o flags k items n m H. apply cg_monotone_gen. exact H. Qed.

  Theorem cg_monotone_none : forall keep o flags k items n,
    better_or_equal (objv o (cg valueof keep o flags None k items))
                    (objv o (cg valueof keep o flags (Some n) k items)).
  Proof. intros keep o flags k items n. apply cg_monotone_gen. exact Logic.I. Qed.

  (** a limited run that was not halted (by the limit or otherwise) is the unlimited run *)
  Theorem cg_limit_prefix : forall keep o flags k items n,
    cg_stop (cg_run valueof keep o flags (Some n) k items) = false ->
    cg_run valueof keep o flags (Some n) k items = cg_run valueof keep o flags None k items.
  Proof.
    intros keep o flags k items n Hs.
    destruct (cg_run_sim keep o flags (Some n) None k items Logic.I) as [E|(Hs' & _)]; [exact E|].
    congruence.
  Qed.

  (** the first solution of a limited run is the first solution of the unlimited run *)
  Lemma cg_first_limit keep o flags k items l f :
    cg_first (cg_run valueof keep o flags l k items) = Some f ->
    cg_first (cg_run valueof keep o flags None k items) = Some f.
  Proof.
    intros E. destruct (cg_run_sim keep o flags l None k items Logic.I) as [E'|(_ & _ & Hf)].
    - rewrite <- E'. exact E.
    - apply Hf. exact E.
  Qed.

  Section LimitNone.
    Variables (keep : bool) (o : objective) (flags : cg_flags) (k : nat) (glb : option Z) (n : nat).
    Notation explore l := (cg_explore valueof keep o flags l k glb).

    Lemma cg_enter_ticks l (st st1 : @cg_state A) rest d b : cg_enter l st = Some st1 ->
      (cg_ticks st1 <= cg_ticks (explore l rest d b st))%nat.
    Proof.
      intros E. destruct rest as [|x t].
      - rewrite cg_explore_nil, cg_leaf_eq, E. destruct (lt_bestv _ _); cbn [cg_ticks]; lia.
      - rewrite cg_explore_cons, E. destruct (cg_h3_cond _ _ _ _).
        + apply (cg_ticks_mono keep o flags l k glb [] O).
        + cbv zeta. etransitivity; [|apply cg_ticks_mono_fold]. cbn [cg_ticks]. lia.
    Qed.

    Lemma cg_enter_big (st st1 : @cg_state A) : cg_enter None st = Some st1 ->
      (cg_ticks st1 <= n)%nat -> cg_enter (Some n) st = Some st1.
    Proof.
      unfold cg_enter. destruct (cg_stop st); [discriminate|]. cbv zeta.
      intros H Ht. inversion H; subst st1. cbn [cg_ticks] in *.
      destruct (Nat.ltb n _) eqn:E; [|reflexivity]. apply Nat.ltb_lt in E. lia.
    Qed.

    Lemma cg_enter_none_stop (st : @cg_state A) : cg_enter None st = None -> cg_stop st = true.
    Proof. unfold cg_enter. destruct (cg_stop st); [auto|discriminate]. Qed.

    Lemma cg_leaf_big (b : bins A) st : (cg_ticks (cg_leaf o None glb b st) <= n)%nat ->
      cg_leaf o (Some n) glb b st = cg_leaf o None glb b st.
    Proof.
      intros Ht. destruct (cg_enter None st) as [st1|] eqn:E.
      - pose proof (cg_enter_ticks None st st1 [] O b E) as Ht1. rewrite cg_explore_nil in Ht1.
        rewrite !cg_leaf_eq, E, (cg_enter_big st st1 E) by lia. reflexivity.
      - apply cg_enter_none_stop in E.
        rewrite !cg_leaf_eq, !cg_enter_stopped by exact E. reflexivity.
    Qed.

    Lemma cg_explore_big : forall rest d b st,
      (cg_ticks (explore None rest d b st) <= n)%nat ->
      explore (Some n) rest d b st = explore None rest d b st.
    Proof.
      induction rest as [|x t IH]; intros d b st Ht.
      - rewrite !cg_explore_nil in *. apply cg_leaf_big. exact Ht.
      - destruct (cg_enter None st) as [st1|] eqn:E.
        + pose proof (cg_enter_ticks None st st1 (x :: t) d b E) as Ht1.
          rewrite !cg_explore_cons, E, (cg_enter_big st st1 E) by lia.
          rewrite cg_explore_cons, E in Ht.
          destruct (cg_h3_cond _ _ _ _); [apply cg_leaf_big; exact Ht|].
          cbv zeta in *.
          revert Ht. generalize (mk_cg (cg_best st1) (cg_bestv st1)
            (snd (cg_children valueof keep o flags k (rev (range k)) b (sums b) x
                    (zsum (map valueof t)) d None (cg_bestv st1) (cg_seen st1)))
            false (cg_ticks st1) (cg_first st1)).
          generalize (rev (fst (cg_children valueof keep o flags k (rev (range k)) b (sums b) x
                    (zsum (map valueof t)) d None (cg_bestv st1) (cg_seen st1)))).
          intros cs. induction cs as [|c cs IHcs]; intros s Hs; cbn [fold_left] in *; [reflexivity|].
          pose proof (cg_ticks_mono_fold keep o flags None k glb t (S d) cs (explore None t (S d) c s)) as Hm.
          rewrite IH by lia. apply IHcs. exact Hs.
        + apply cg_enter_none_stop in E.
          rewrite !cg_explore_stopped by exact E. reflexivity.
    Qed.
  End LimitNone.

  (** with a large enough limit the run is the unlimited run (whole final state) *)
  Theorem cg_limit_none : forall keep o flags k items,
    exists N, forall n, (N <= n)%nat ->
    cg_run valueof keep o flags (Some n) k items = cg_run valueof keep o flags None k items.
  Proof.
    intros keep o flags k items.
    exists (cg_ticks (cg_run valueof keep o flags None k items)). intros n Hn.
    rewrite !cg_run_eq. apply cg_explore_big. rewrite <- cg_run_eq. exact Hn.
  Qed.

  (** ================= 4. a run without limit always returns a result (C01) ================= *)
  Section Total.
    Variables (keep : bool) (o : objective) (flags : cg_flags) (k : nat) (glb : option Z).
    Notation explore := (cg_explore valueof keep o flags None k glb).
    Notation children := (cg_children valueof keep o flags k).

    (** every recorded state has depth at most d *)
    Definition cg_seen_le (d : nat) (seen : list (nat * list Z)) : Prop :=
      Forall (fun e => (fst e <= d)%nat) seen.

    Lemma cg_seen_skip_fresh depth ns seen :
      cg_seen_le depth seen -> cg_seen_skip flags depth ns seen = false.
    Proof.
      intros H. unfold cg_seen_skip. destruct (use_set_of_seen_states flags); [|reflexivity].
      cbn [andb]. induction H as [|e seen He Hs IH]; cbn [existsb]; [reflexivity|].
      rewrite IH, orb_false_r. unfold state_eqb. cbn [fst].
      destruct (Nat.eqb (S depth) (fst e)) eqn:E; [apply Nat.eqb_eq in E; lia|reflexivity].
    Qed.

    Lemma cg_children_seen_le idxs b cur x R depth : forall prev bestv seen,
      cg_seen_le (S depth) seen ->
      cg_seen_le (S depth) (snd (children idxs b cur x R depth prev bestv seen)).
    Proof.
      induction idxs as [|bi idxs IH]; intros prev bestv seen H; [exact H|].
      rewrite cg_children_cons. cbv zeta.
      destruct (cg_prev_skip _ _); [apply IH; exact H|].
      destruct (cg_pruned _ _ _ _ _ _ _ _ _ _); [apply IH; exact H|].
      destruct (cg_seen_skip _ _ _ _); [apply IH; exact H|].
      cbn [snd]. apply IH. unfold cg_seen_add.
      destruct (use_set_of_seen_states flags); [|exact H]. constructor; [cbn [fst]; lia|exact H].
    Qed.

    Lemma cg_seen_le_S d seen : cg_seen_le d seen -> cg_seen_le (S d) seen.
    Proof. intros H. eapply Forall_impl; [|exact H]. cbv beta. intros e He. lia. Qed.

    (** while there is no incumbent and no state of the next depth was recorded, the first
        bin index tried is not pruned *)
    Lemma cg_children_nonempty bi idxs b cur x R depth seen : cg_seen_le depth seen ->
      fst (children (bi :: idxs) b cur x R depth None None seen) <> [].
    Proof.
      intros H. rewrite cg_children_cons. cbv zeta. cbn [cg_prev_skip].
      rewrite cg_pruned_none, cg_seen_skip_fresh by exact H. cbn [fst]. discriminate.
    Qed.

    Lemma cg_enter_nolimit (st : @cg_state A) : cg_stop st = false ->
      cg_enter None st =
      Some (mk_cg (cg_best st) (cg_bestv st) (cg_seen st) false (S (cg_ticks st)) (cg_first st)).
    Proof. unfold cg_enter. intros ->. reflexivity. Qed.

    Lemma cg_total_leaf (b : bins A) st : cg_stop st = false -> cg_bestv st = None ->
      cg_best (cg_leaf o None glb b st) <> None.
    Proof.
      intros Hs Hb. rewrite cg_leaf_eq, cg_enter_nolimit by exact Hs.
      cbn [cg_bestv]. rewrite Hb. cbn [lt_bestv cg_best]. discriminate.
    Qed.

    Hypothesis Hk : (1 <= k)%nat.

    Lemma cg_total_explore : forall rest depth b st,
      cg_stop st = false -> cg_bestv st = None -> cg_seen_le depth (cg_seen st) ->
      cg_best (explore rest depth b st) <> None.
    Proof.
      induction rest as [|x t IH]; intros depth b st Hs Hb Hseen.
      - rewrite cg_explore_nil. apply cg_total_leaf; assumption.
      - rewrite cg_explore_cons, cg_enter_nolimit by exact Hs.
        destruct (cg_h3_cond _ _ _ _); [apply cg_total_leaf; [reflexivity|exact Hb]|].
        cbv zeta. cbn [cg_best cg_bestv cg_seen cg_ticks cg_first]. rewrite Hb.
        destruct (cg_rev_range_pos k Hk) as (bi & idxs & Er). rewrite Er.
        pose proof (cg_children_nonempty bi idxs b (sums b) x (zsum (map valueof t)) depth
                      (cg_seen st) Hseen) as Hne.
        pose proof (cg_children_seen_le (bi :: idxs) b (sums b) x (zsum (map valueof t)) depth
                      None None (cg_seen st) (cg_seen_le_S _ _ Hseen)) as Hle.
        destruct (rev (fst _)) as [|c cs] eqn:Ec.
        + apply cg_rev_nil in Ec. contradiction.
        + cbn [fold_left]. apply cg_best_keep_fold. apply IH; [reflexivity|reflexivity|exact Hle].
    Qed.
  End Total.

  Theorem cg_total_keep : forall keep o flags k items, (1 <= k)%nat ->
    exists b, cg valueof keep o flags None k items = Some b.
  Proof.
    intros keep o flags k items Hk. unfold cg. rewrite cg_run_eq.
    destruct (cg_best _) as [b|] eqn:E; [exists b; reflexivity|]. exfalso. revert E.
    apply cg_total_explore; [exact Hk|reflexivity|reflexivity|].
    unfold cg_init_state, cg_seen_le. cbn [cg_seen].
    destruct (use_set_of_seen_states flags); repeat constructor.
  Qed.

  Theorem cg_total : forall o flags k items, (1 <= k)%nat ->
    exists b, cg valueof true o flags None k items = Some b.
  Proof. intros o flags k items. apply cg_total_keep. Qed.

  (** ================= 5. the first solution is the LPT one (C11) ================= *)
  Definition lpt_sums (s : list Z) (rest : list A) : list Z :=
    fold_left (fun s0 x => lpt_step s0 (valueof x)) rest s.

  Lemma cg_lpt_sums_perm rest : forall s1 s2, Permutation s1 s2 ->
    Permutation (lpt_sums s1 rest) (lpt_sums s2 rest).
  Proof.
    unfold lpt_sums. induction rest as [|x t IH]; intros s1 s2 P; cbn [fold_left]; [exact P|].
    apply IH. apply cg_lpt_step_perm. exact P.
  Qed.

  Lemma cg_greedy_sums keep rest : forall b : bins A,
    sums (fold_left (greedy_step valueof keep) rest b) = lpt_sums (sums b) rest.
  Proof.
    unfold lpt_sums. induction rest as [|x t IH]; intros b; cbn [fold_left]; [reflexivity|].
    rewrite IH. f_equal. unfold greedy_step, lpt_step. apply add_item_sums.
  Qed.

  Section First.
    Variables (keep : bool) (o : objective) (flags : cg_flags) (k : nat) (glb : option Z).
    Hypothesis Hk : (1 <= k)%nat.
    Hypothesis Hh3 : use_heuristic_3 flags && objective_eqb o MinLargest = false.
    Notation explore := (cg_explore valueof keep o flags None k glb).
    Notation children := (cg_children valueof keep o flags k).

    Lemma cg_child_sums (b : bins A) x bi :
      Permutation (sums (cg_child keep b x bi)) (update bi (fun z => z + valueof x) (sums b)).
    Proof. unfold cg_child. rewrite sort_bins_sums_perm, add_item_sums. reflexivity. Qed.

    Lemma cg_child_sorted (b : bins A) x bi : StronglySorted Z.le (sums (cg_child keep b x bi)).
    Proof. apply sort_bins_sorted. Qed.

    Lemma cg_child_length (b : bins A) x bi : length (cg_child keep b x bi) = length b.
    Proof. unfold cg_child. rewrite sort_bins_length. apply add_item_length. Qed.

    Section Last.
      Variables (b : bins A) (x : A) (R : Z) (depth : nat).
      Hypothesis Hlen : length b = k.
      Hypothesis Hsorted : StronglySorted Z.le (sums b).

      Lemma cg_sums_length : length (sums b) = k.
      Proof. unfold sums. rewrite map_length. exact Hlen. Qed.

      (** c has the sums of "parent plus x in a least-loaded bin" *)
      Definition cg_minq (c : bins A) : Prop :=
        Permutation (sums c) (update O (fun z => z + valueof x) (sums b)).

      (** loop invariant of the sibling generation when valueof x <> 0: the siblings recorded
          so far were made from bins whose sum is at least [prev], and the indices still to
          come have sums at most [prev] *)
      Definition cg_sib_inv (n : nat) (prev : option Z) (seen : list (nat * list Z)) : Prop :=
        (forall ns, In (S depth, ns) seen ->
           exists j p, prev = Some p /\ (j < k)%nat /\ p <= nth j (sums b) 0 /\
                       Permutation ns (update j (fun z => z + valueof x) (sums b))) /\
        (forall p, prev = Some p -> forall i, (i < n)%nat -> nth i (sums b) 0 <= p).

      Lemma cg_children_last_nz : valueof x <> 0 -> forall n prev seen,
        (n <= k)%nat -> (1 <= n)%nat -> cg_sib_inv n prev seen ->
        (fst (children (rev (range n)) b (sums b) x R depth prev None seen) <> [] /\
         cg_minq (last (fst (children (rev (range n)) b (sums b) x R depth prev None seen)) []))
        \/ (fst (children (rev (range n)) b (sums b) x R depth prev None seen) = [] /\
            prev = Some (nth O (sums b) 0)).
      Proof.
        intros Hv. pose proof cg_sums_length as Hsl.
        induction n as [|n IH]; intros prev seen Hnk Hn1 (Hi1 & Hi2); [lia|].
        rewrite cg_rev_range_S, cg_children_cons. cbv zeta.
        destruct (cg_prev_skip prev (nth n (sums b) 0)) eqn:Ep.
        - (* same sum as the previous bin: skipped *)
          destruct prev as [p|]; cbn [cg_prev_skip] in Ep; [|discriminate].
          apply Z.eqb_eq in Ep. destruct n as [|n'].
          + right. change (rev (range 0)) with (@nil nat). cbn [cg_children fst].
            split; [reflexivity|]. f_equal. lia.
          + apply IH; [lia|lia|]. split; [exact Hi1|].
            intros p' Hp' i Hi. apply (Hi2 p' Hp'). lia.
        - rewrite cg_pruned_none.
          destruct (cg_seen_skip flags depth (sums (cg_child keep b x n)) seen) eqn:Esk.
          + (* impossible: an earlier sibling came from a strictly larger bin *)
            exfalso. unfold cg_seen_skip in Esk. apply andb_true_iff in Esk as [_ Esk].
            apply existsb_exists in Esk as ([d ns] & He & Hee).
            unfold state_eqb in Hee. cbn [fst snd] in Hee.
            apply andb_true_iff in Hee as [H1 H2].
            apply Nat.eqb_eq in H1. apply cg_zlist_eqb_eq in H2. subst d ns.
            destruct (Hi1 _ He) as (j & p & Hp & Hj & Hpj & Hperm). subst prev.
            cbn [cg_prev_skip] in Ep. apply Z.eqb_neq in Ep.
            pose proof (Hi2 p eq_refl n ltac:(lia)) as Hn.
            rewrite cg_child_sums in Hperm.
            apply cg_update_perm_inv in Hperm; [|lia|lia]. lia.
          + (* generated *)
            assert (Hinv' : cg_sib_inv n (Some (nth n (sums b) 0))
                              (cg_seen_add flags depth (sums (cg_child keep b x n)) seen)).
            { split.
              - intros ns Hin.
                assert (Hold : In (S depth, ns) seen ->
                  exists j p, Some (nth n (sums b) 0) = Some p /\ (j < k)%nat /\
                              p <= nth j (sums b) 0 /\
                              Permutation ns (update j (fun z => z + valueof x) (sums b))).
                { intros Hin'. destruct (Hi1 _ Hin') as (j & p & Hp & Hj & Hpj & Hperm).
                  exists j, (nth n (sums b) 0). split; [reflexivity|]. split; [exact Hj|].
                  split; [|exact Hperm].
                  pose proof (Hi2 p Hp n ltac:(lia)) as Hn. lia. }
                unfold cg_seen_add in Hin. destruct (use_set_of_seen_states flags); [|auto].
                destruct Hin as [Hin|Hin]; [|auto].
                inversion Hin; subst ns. exists n, (nth n (sums b) 0).
                split; [reflexivity|]. split; [lia|]. split; [lia|]. apply cg_child_sums.
              - intros p' Hp' i Hi. inversion Hp'; subst p'.
                apply cg_sorted_nth_le; [exact Hsorted|lia|lia]. }
            cbn [fst snd]. destruct n as [|n'].
            * left. change (rev (range 0)) with (@nil nat). cbn [cg_children fst last].
              split; [discriminate|]. apply cg_child_sums.
            * destruct (IH _ _ ltac:(lia) ltac:(lia) Hinv') as [[Hne Hq]|[He Hp]].
              -- left. split; [discriminate|].
                 destruct (fst (children (rev (range (S n'))) b (sums b) x R depth _ None _))
                   as [|c0 l0]; [contradiction|]. exact Hq.
              -- left. rewrite He. split; [discriminate|]. cbn [last]. unfold cg_minq.
                 rewrite cg_child_sums. apply cg_update_same_value; [lia|lia|].
                 inversion Hp. reflexivity.
      Qed.

      Lemma cg_children_all_z idxs cur prev bestv seen : valueof x = 0 ->
        Forall cg_minq (fst (children idxs b cur x R depth prev bestv seen)).
      Proof.
        intros Hv. eapply Forall_impl; [|apply cg_children_spec]. cbv beta.
        intros c (bi & _ & ->). unfold cg_minq. rewrite cg_child_sums, Hv, !cg_update_add0.
        reflexivity.
      Qed.

      (** while there is no incumbent, the child explored first is sum-equivalent to the LPT step *)
      Lemma cg_children_last seen : cg_seen_le depth seen ->
        fst (children (rev (range k)) b (sums b) x R depth None None seen) <> [] /\
        cg_minq (last (fst (children (rev (range k)) b (sums b) x R depth None None seen)) []).
      Proof.
        intros Hs.
        assert (Hne : fst (children (rev (range k)) b (sums b) x R depth None None seen) <> []).
        { destruct (cg_rev_range_pos k Hk) as (bi & idxs & Er). rewrite Er.
          apply cg_children_nonempty; assumption. }
        split; [exact Hne|]. destruct (Z.eq_dec (valueof x) 0) as [Hv|Hv].
        - pose proof (cg_children_all_z (rev (range k)) (sums b) None None seen Hv) as Hall.
          rewrite Forall_forall in Hall. apply Hall. apply cg_last_In. exact Hne.
        - destruct (cg_children_last_nz Hv k None seen) as [[_ Hq]|[_ Hp]];
            [lia|exact Hk| |exact Hq|discriminate].
          split.
          + intros ns Hin. unfold cg_seen_le in Hs. rewrite Forall_forall in Hs.
            apply Hs in Hin. cbn [fst] in Hin. lia.
          + intros p Hp. discriminate.
      Qed.
    End Last.

    Lemma cg_h3_off rest cur : cg_h3_cond o flags rest cur = false.
    Proof. unfold cg_h3_cond. rewrite Hh3. reflexivity. Qed.

    Lemma cg_first_leaf (b : bins A) st : cg_stop st = false -> cg_bestv st = None ->
      cg_first st = None -> cg_first (cg_leaf o None glb b st) = Some b.
    Proof.
      intros Hs Hb Hf. rewrite cg_leaf_eq, cg_enter_nolimit by exact Hs.
      cbn [cg_bestv cg_first]. rewrite Hb, Hf. reflexivity.
    Qed.

    Lemma cg_first_explore : forall rest depth b st,
      cg_stop st = false -> cg_bestv st = None -> cg_first st = None ->
      cg_seen_le depth (cg_seen st) -> length b = k -> StronglySorted Z.le (sums b) ->
      exists f, cg_first (explore rest depth b st) = Some f /\
                Permutation (sums f) (lpt_sums (sums b) rest).
    Proof.
      induction rest as [|x t IH]; intros depth b st Hs Hb Hf Hseen Hlen Hsorted.
      - rewrite cg_explore_nil. exists b. split; [apply cg_first_leaf; assumption|reflexivity].
      - rewrite cg_explore_cons, cg_enter_nolimit by exact Hs. rewrite cg_h3_off.
        cbv zeta. cbn [cg_best cg_bestv cg_seen cg_ticks cg_first]. rewrite Hb.
        destruct (cg_children_last b x (zsum (map valueof t)) depth Hlen Hsorted (cg_seen st) Hseen)
          as [Hne Hq].
        assert (Hle : cg_seen_le (S depth)
                        (snd (children (rev (range k)) b (sums b) x (zsum (map valueof t)) depth
                                None None (cg_seen st)))).
        { apply cg_children_seen_le. apply cg_seen_le_S. exact Hseen. }
        pose proof (cg_last_In (T := bins A) _ [] Hne) as Hin.
        pose proof (cg_children_spec keep o flags k (rev (range k)) b (sums b) x
                      (zsum (map valueof t)) depth None None (cg_seen st)) as Hspec.
        rewrite Forall_forall in Hspec. destruct (Hspec _ Hin) as (bi & _ & Hc).
        destruct (cg_rev_last (T := bins A) _ [] Hne) as (cs' & Er). rewrite Er. cbn [fold_left].
        set (c := last (fst (children (rev (range k)) b (sums b) x (zsum (map valueof t)) depth
                               None None (cg_seen st))) []) in *.
        destruct (IH (S depth) c
                     (mk_cg (cg_best st) None
                        (snd (children (rev (range k)) b (sums b) x (zsum (map valueof t)) depth
                                None None (cg_seen st)))
                        false (S (cg_ticks st)) (cg_first st)))
          as (f & Ef & Pf).
        + reflexivity.
        + reflexivity.
        + exact Hf.
        + exact Hle.
        + rewrite Hc, cg_child_length. exact Hlen.
        + rewrite Hc. apply cg_child_sorted.
        + exists f. split; [apply cg_first_keep_fold; exact Ef|].
          rewrite Pf. unfold lpt_sums at 2. cbn [fold_left]. apply cg_lpt_sums_perm.
          unfold cg_minq in Hq. rewrite Hq. symmetry. apply cg_lpt_step_sorted. exact Hsorted.
    Qed.
  End First.

  Lemma cg_repeat0_sorted n : StronglySorted Z.le (repeat 0 n).
  Proof.
    induction n as [|n IH]; cbn [repeat]; constructor; [exact IH|].
    apply Forall_forall. intros z Hz. apply repeat_spec in Hz. lia.
  Qed.

  (** Statement as requested but with heuristic 3 inactive (it is active only for MinLargest);
      with heuristic 3 active the statement is false, see cg_first_h3_counterexample below. *)
  Theorem cg_first_is_lpt_keep : forall keep o flags limit k items f, (1 <= k)%nat ->
    use_heuristic_3 flags && objective_eqb o MinLargest = false ->
    cg_first (cg_run valueof keep o flags limit k items) = Some f ->
    Permutation (sums f) (sums (greedy valueof keep k items)).
  Proof.
    intros keep o flags limit k items f Hk Hh3 E.
    apply cg_first_limit in E. rewrite cg_run_eq in E.
    destruct (cg_first_explore keep o flags k
                (lower_bound o (repeat 0 k) (zsum (map valueof (sort_desc valueof items))) true)
                Hk Hh3 (sort_desc valueof items) O (new_bins k) (cg_init_state flags k))
      as (f' & Ef & Pf).
    - reflexivity.
    - reflexivity.
    - reflexivity.
    - unfold cg_init_state, cg_seen_le. cbn [cg_seen].
      destruct (use_set_of_seen_states flags); repeat constructor.
    - apply new_bins_length.
    - rewrite new_bins_sums. apply cg_repeat0_sorted.
    - rewrite E in Ef. inversion Ef; subst f'. rewrite Pf.
      unfold greedy. rewrite cg_greedy_sums. reflexivity.
  Qed.

  Theorem cg_first_is_lpt : forall o flags limit k items f, (1 <= k)%nat ->
    use_heuristic_3 flags && objective_eqb o MinLargest = false ->
    cg_first (cg_run valueof true o flags limit k items) = Some f ->
    Permutation (sums f) (sums (greedy valueof true k items)).
  Proof. intros o flags limit k items f. apply cg_first_is_lpt_keep. Qed.
End CGProofs.

(** non-vacuity / regression: these inputs returned no result before the repairs *)
Example cg_total_ex1 :
  exists b, cg (fun v => v) true MinDiff (mk_flags true true false true) None 5 [0; 3] = Some b.
Proof. eexists. vm_compute. reflexivity. Qed.

Example cg_total_ex2 :
  exists b, cg (fun v => v) true MaxSmallest (mk_flags true true false true) None 1 [1; 2] = Some b.
Proof. eexists. vm_compute. reflexivity. Qed.

(** With heuristic 3 active (objective MinLargest) the first solution is NOT the LPT one:
    after 10 is placed, heuristic 3 puts both 3s into the same bin. *)
Example cg_first_h3_counterexample :
  option_map (@sums Z) (cg_first (cg_run (fun v => v) true MinLargest (mk_flags false false true false)
                                   None 3 [10; 3; 3])) = Some [0; 6; 10]
  /\ sums (greedy (fun v => v) true 3 [10; 3; 3]) = [10; 3; 3].
Proof. vm_compute. split; reflexivity. Qed.

Print Assumptions cg_safe.
Print Assumptions cg_first_safe.
Print Assumptions cg_bestv_spec.
Print Assumptions cg_bv_ok_explore.
Print Assumptions cg_bestv_mono.
Print Assumptions cg_monotone.
Print Assumptions cg_monotone_none.
Print Assumptions cg_limit_prefix.
Print Assumptions cg_limit_none.
Print Assumptions cg_total.
Print Assumptions cg_total_keep.
Print Assumptions cg_first_is_lpt.
Print Assumptions cg_erase.
Print Assumptions cg_erase_run.
