(** Optimality of the model of complete_greedy.py (property C02): a run without a time
    limit returns a partition whose objective value is the optimum over all partitions,
    for every objective and every combination of the four pruning switches.
    Generic branch-and-bound soundness: branching is complete up to symmetry, every
    prune is admissible, the seen-set only skips vertices whose twin is (or will be)
    explored. *)
From Prtpy Require Import Base.Prelude Model.Binner Model.Objectives Model.CG Model.Greedy
  Spec.Partition Proofs.BaseLemmas Proofs.BinnerLemmas Proofs.ObjectivesProofs
  Proofs.OracleSpec Proofs.CoveringProofs Proofs.CGProofs.
From Coq Require Import Sorting.Sorted Arith ZifyBool.

(** ================= A. completions of a vector of sums ================= *)

(** f is obtained from s by adding each value of vals to some position of s *)
Definition Comp (s vals f : list Z) : Prop :=
  exists ps, map fst ps = vals /\ Forall (fun p => (snd p < length s)%nat) ps /\
             CoveringProofs.lrun ps s = f.

Lemma Comp_nil s f : Comp s [] f <-> f = s.
Proof.
  split.
  - intros (ps & Hm & _ & Hr). destruct ps as [|p ps]; [|discriminate]. symmetry. exact Hr.
  - intros ->. exists []. repeat split. constructor.
Qed.

Lemma Comp_cons s v vals f :
  Comp s (v :: vals) f <->
  exists i, (i < length s)%nat /\ Comp (update i (fun z => z + v) s) vals f.
Proof.
  split.
  - intros (ps & Hm & Hf & Hr). destruct ps as [|[v' i] ps]; [discriminate|].
    cbn [map fst] in Hm. inversion Hm; subst v' vals.
    inversion Hf as [|p ps' Hi Hf']; subst p ps'. cbn [snd] in Hi.
    exists i. split; [exact Hi|]. exists ps. split; [reflexivity|]. split.
    + rewrite update_length. exact Hf'.
    + exact Hr.
  - intros (i & Hi & ps & Hm & Hf & Hr). exists ((v, i) :: ps). split; [cbn [map fst]; rewrite Hm; reflexivity|].
    split.
    + constructor; [exact Hi|]. rewrite update_length in Hf. exact Hf.
    + exact Hr.
Qed.

Lemma Comp_Attainable k vs f : Attainable k vs f <-> Comp (repeat 0 k) vs f.
Proof. unfold Comp. rewrite repeat_length. apply Attainable_pairs. Qed.

(** completions are invariant under permutation of the start vector, up to permutation *)
Lemma Comp_perm vals : forall s s' f, Permutation s s' -> Comp s vals f ->
  exists f', Comp s' vals f' /\ Permutation f f'.
Proof.
  induction vals as [|v vals IH]; intros s s' f P H.
  - apply Comp_nil in H. subst f. exists s'. split; [apply Comp_nil; reflexivity|exact P].
  - apply Comp_cons in H. destruct H as (i & Hi & H).
    destruct (perm_update (fun z => z + v) 0 s s' P i Hi) as (j & Hj & _ & P').
    destruct (IH _ _ f P' H) as (f' & H' & Pf).
    exists f'. split; [|exact Pf]. apply Comp_cons. exists j. split; [exact Hj|exact H'].
Qed.

(** with non-negative values a completion dominates the start vector entrywise, each entry
    grows by at most the total, and the total grows by exactly the total *)
Lemma Comp_bounds vals : Forall (fun v => 0 <= v) vals -> forall s f, Comp s vals f ->
  length f = length s /\ zsum f = zsum s + zsum vals /\
  forall j, nth j s 0 <= nth j f 0 <= nth j s 0 + zsum vals.
Proof.
  induction 1 as [|v vals Hv Hvals IH]; intros s f H.
  - apply Comp_nil in H. subst f. change (zsum []) with 0. split; [reflexivity|]. split; [lia|]. intros j. lia.
  - apply Comp_cons in H. destruct H as (i & Hi & H).
    destruct (IH _ _ H) as (Hl & Hs & Hn). rewrite update_length in Hl.
    pose proof (zsum_nonneg vals Hvals) as Hnn.
    split; [exact Hl|]. split.
    + rewrite Hs, zsum_update by exact Hi. rewrite zsum_cons. lia.
    + intros j. specialize (Hn j). rewrite zsum_cons.
      destruct (Nat.eq_dec i j) as [E|E].
      * subst j. rewrite update_nth_same in Hn by exact Hi. lia.
      * rewrite update_nth_other in Hn by exact E. lia.
Qed.

Lemma nth_le_Forall2 : forall s f : list Z, length f = length s ->
  (forall j, nth j s 0 <= nth j f 0) -> Forall2 Z.le s f.
Proof.
  induction s as [|a s IH]; intros [|c f] Hl Hn; cbn [length] in Hl; try discriminate; constructor.
  - exact (Hn O).
  - apply IH; [lia|]. intros j. exact (Hn (S j)).
Qed.

Lemma Comp_dominates vals s f : Forall (fun v => 0 <= v) vals -> Comp s vals f -> Forall2 Z.le s f.
Proof.
  intros Hv H. destruct (Comp_bounds vals Hv s f H) as (Hl & _ & Hn).
  apply nth_le_Forall2; [exact Hl|]. intros j. apply Hn.
Qed.

Lemma nth_ge_zmin (f : list Z) j : (j < length f)%nat -> zmin f <= nth j f 0.
Proof.
  intros Hj. pose proof (zmin_le f) as H. rewrite Forall_forall in H. apply H. apply nth_In. exact Hj.
Qed.

Lemma nth_le_zmax (f : list Z) j : (j < length f)%nat -> nth j f 0 <= zmax f.
Proof. intros Hj. apply In_le_zmax. apply nth_In. exact Hj. Qed.

Lemma hd_nth0 (s : list Z) : hd 0 s = nth O s 0.
Proof. destruct s; reflexivity. Qed.

Lemma skipn_S_tail {T} (x : T) t : forall d l, skipn d l = x :: t -> skipn (S d) l = t.
Proof.
  induction d as [|d IH]; intros l H.
  - cbn [skipn] in H. subst l. reflexivity.
  - destruct l as [|y l]; [discriminate|]. cbn [skipn] in H. apply IH in H.
    change (skipn (S (S d)) (y :: l)) with (skipn (S d) l). exact H.
Qed.

Lemma In_range_from j : forall n i, (i <= j < i + n)%nat -> In j (range_from i n).
Proof.
  induction n as [|n IH]; intros i H; [lia|]. cbn [range_from].
  destruct (Nat.eq_dec i j) as [E|E]; [left; exact E|right; apply IH; lia].
Qed.

Lemma In_rev_range i k : (i < k)%nat -> In i (rev (range k)).
Proof. intros H. apply -> in_rev. apply In_range_from. lia. Qed.

Lemma fold_update0 vals : forall s : list Z,
  fold_left (fun s0 v => update O (fun z => z + v) s0) vals s = update O (fun z => z + zsum vals) s.
Proof.
  induction vals as [|v vals IH]; intros s; cbn [fold_left].
  - change (zsum []) with 0. destruct s as [|a s]; cbn [update]; [reflexivity|]. f_equal. lia.
  - rewrite IH, zsum_cons. destruct s as [|a s]; cbn [update]; [reflexivity|]. f_equal. lia.
Qed.

Section CGOptimal.
  Context {A : Type} (valueof : A -> Z).

  (** ================= B. branching is complete, prunes are admissible ================= *)
  Section Bounds.
    Variables (keep : bool) (o : objective) (flags : cg_flags) (k : nat).
    Hypothesis Hk : (1 <= k)%nat.

    Lemma cg_sums_len (b : bins A) : length (sums b) = length b.
    Proof. apply map_length. Qed.

    (** (b) every completion of a vertex is, up to the order of the bins, a completion of
        one of its k potential children *)
    Theorem cg_branching_complete : forall (b : bins A) x vals f, length b = k ->
      Comp (sums b) (valueof x :: vals) f ->
      exists bi f', (bi < k)%nat /\ Comp (sums (cg_child valueof keep b x bi)) vals f' /\
                    Permutation f f'.
    Proof.
      intros b x vals f Hl H. apply Comp_cons in H. destruct H as (i & Hi & H).
      rewrite cg_sums_len, Hl in Hi.
      destruct (Comp_perm vals (update i (fun z => z + valueof x) (sums b))
                  (sums (cg_child valueof keep b x i)) f) as (f' & H' & P).
      - symmetry. apply cg_child_sums.
      - exact H.
      - exists i, f'. auto.
    Qed.

    (** (c1) the fast bound never exceeds the value of a completion of that child *)
    Theorem cg_fast_bound_admissible : forall (cur : list Z) x R bi vals lbv f,
      length cur = k -> (bi < k)%nat -> 0 <= valueof x -> Forall (fun v => 0 <= v) vals ->
      R = zsum vals ->
      cg_fast_lb valueof o flags k bi cur x R = Some lbv ->
      Comp (update bi (fun z => z + valueof x) cur) vals f ->
      lbv <= value o f false.
    Proof.
      intros cur x R bi vals lbv f Hl Hbi Hx Hv HR E H.
      destruct (Comp_bounds vals Hv _ _ H) as (Hlf & _ & Hn). rewrite update_length in Hlf.
      unfold cg_fast_lb in E. destruct (use_fast_lower_bound flags); [|discriminate].
      destruct o as [| | |kk|kk]; try discriminate.
      - (* MaxSmallest *)
        inversion E as [E']. clear E E'. unfold value, head0. rewrite hd_nth0.
        pose proof (Hn O) as H0. pose proof (nth_ge_zmin f O ltac:(lia)) as Hz0.
        destruct bi as [|bi'].
        + rewrite update_nth_same in H0 by lia.
          destruct (Nat.ltb 1 k) eqn:E1.
          * apply Nat.ltb_lt in E1. pose proof (Hn 1%nat) as H1.
            rewrite update_nth_other in H1 by lia.
            pose proof (nth_ge_zmin f 1%nat ltac:(lia)) as Hz1. lia.
          * lia.
        + rewrite update_nth_other in H0 by lia. lia.
      - (* MinLargest *)
        inversion E as [E']. clear E E'. unfold value, last0. apply Z.max_lub.
        + pose proof (Hn bi) as Hb. rewrite update_nth_same in Hb by lia.
          pose proof (nth_le_zmax f bi ltac:(lia)). lia.
        + assert (Hne : cur <> []) by (intros ->; cbn [length] in Hl; lia).
          pose proof (last_In cur 0 Hne) as Hin.
          apply (In_nth _ _ 0) in Hin. destruct Hin as (j & Hj & Ej).
          pose proof (Hn j) as Hb. pose proof (nth_le_zmax f j ltac:(lia)) as Hm.
          destruct (Nat.eq_dec bi j) as [Eq|Eq].
          * subst j. rewrite update_nth_same in Hb by lia. lia.
          * rewrite update_nth_other in Hb by exact Eq. lia.
    Qed.

    (** (c2) the objective's lower bound on the child never exceeds the value of a completion *)
    Lemma cg_lower_bound_prune_sound (b : bins A) x bi R vals lb f :
      length b = k -> (bi < k)%nat -> 0 <= valueof x -> Forall (fun v => 0 <= v) vals ->
      R = zsum vals ->
      lower_bound o (sums (cg_child valueof keep b x bi)) R true = Some lb ->
      Comp (update bi (fun z => z + valueof x) (sums b)) vals f ->
      lb <= value o f false.
    Proof.
      intros Hl Hbi Hx Hv HR E H.
      destruct (Comp_perm vals (update bi (fun z => z + valueof x) (sums b))
                  (sums (cg_child valueof keep b x bi)) f) as (f' & H' & P).
      - symmetry. apply cg_child_sums.
      - exact H.
      - rewrite (value_perm o f f' P).
        destruct (Comp_bounds vals Hv _ _ H') as (_ & Hs & _).
        apply (lower_bound_admissible o (sums (cg_child valueof keep b x bi)) f' R true lb).
        + intros E0. apply (f_equal (@length Z)) in E0.
          rewrite cg_sums_len, cg_child_length, Hl in E0. cbn [length] in E0. lia.
        + intros _. apply cg_child_sorted.
        + apply (Comp_dominates vals); assumption.
        + rewrite Hs, HR. reflexivity.
        + exact E.
    Qed.

    Lemma cg_pruned_sound (b : bins A) x bi R vals bestv f :
      length b = k -> (bi < k)%nat -> 0 <= valueof x -> Forall (fun v => 0 <= v) vals ->
      R = zsum vals ->
      cg_pruned valueof keep o flags k bi b (sums b) x R bestv = true ->
      Comp (update bi (fun z => z + valueof x) (sums b)) vals f ->
      exists bv, bestv = Some bv /\ bv <= value o f false.
    Proof.
      intros Hl Hbi Hx Hv HR E H. unfold cg_pruned in E. apply orb_true_iff in E.
      destruct E as [E|E].
      - destruct (cg_fast_lb valueof o flags k bi (sums b) x R) as [lbv|] eqn:Ef; [|discriminate].
        destruct bestv as [bv|]; [|discriminate]. cbn [lb_ge_bestv ge_bestv] in E.
        exists bv. split; [reflexivity|].
        pose proof (cg_fast_bound_admissible (sums b) x R bi vals lbv f) as Hadm.
        rewrite cg_sums_len in Hadm. specialize (Hadm Hl Hbi Hx Hv HR Ef H). lia.
      - apply andb_true_iff in E. destruct E as [_ E].
        destruct (lower_bound o (sums (cg_child valueof keep b x bi)) R true) as [lb|] eqn:El;
          [|discriminate].
        destruct bestv as [bv|]; [|discriminate]. cbn [lb_ge_bestv ge_bestv] in E.
        exists bv. split; [reflexivity|].
        pose proof (cg_lower_bound_prune_sound b x bi R vals lb f Hl Hbi Hx Hv HR El H). lia.
    Qed.

    (** (c3) heuristic 3 *)
    Lemma cg_sums_fold_add0 rest : forall b : bins A,
      sums (fold_left (fun bb y => add_item valueof keep bb y O) rest b) =
      fold_left (fun s0 v => update O (fun z => z + v) s0) (map valueof rest) (sums b).
    Proof.
      induction rest as [|x t IH]; intros b; cbn [fold_left map]; [reflexivity|].
      rewrite IH, add_item_sums. reflexivity.
    Qed.

    Lemma cg_h3bins_sums rest (b : bins A) :
      Permutation (sums (cg_h3bins valueof keep rest b))
                  (update O (fun z => z + zsum (map valueof rest)) (sums b)).
    Proof.
      unfold cg_h3bins. rewrite sort_bins_sums_perm, cg_sums_fold_add0, fold_update0. reflexivity.
    Qed.

    (** when heuristic 3 fires, the single leaf "everything into the smallest bin" is at
        least as good as every completion of the vertex *)
    Theorem cg_h3_sound : forall (b : bins A) rest f,
      length b = k -> StronglySorted Z.le (sums b) ->
      Forall (fun v => 0 <= v) (map valueof rest) ->
      cg_h3_cond valueof o flags rest (sums b) = true ->
      Comp (sums b) (map valueof rest) f ->
      value o (sums (cg_h3bins valueof keep rest b)) false <= value o f false.
    Proof.
      intros b rest f Hl Hs Hv Hc H. unfold cg_h3_cond in Hc.
      apply andb_true_iff in Hc. destruct Hc as [Hc Hle].
      apply andb_true_iff in Hc. destruct Hc as [_ Ho].
      destruct o as [| | |kk|kk]; try discriminate. clear Ho.
      rewrite (value_perm MinLargest _ _ (cg_h3bins_sums rest b)). unfold value.
      unfold head0, last0 in Hle. rewrite hd_nth0 in Hle.
      set (T := zsum (map valueof rest)) in *. set (cs := sums b) in *.
      assert (Hlc : length cs = k) by (unfold cs; rewrite cg_sums_len; exact Hl).
      assert (Hne : cs <> []) by (intros E0; rewrite E0 in Hlc; cbn [length] in Hlc; lia).
      destruct (Comp_bounds _ Hv _ _ H) as (Hlf & _ & Hn).
      (* the largest current sum is below the max of every completion *)
      assert (Hlast : last cs 0 <= zmax f).
      { pose proof (last_In cs 0 Hne) as Hin. apply (In_nth _ _ 0) in Hin.
        destruct Hin as (j & Hj & Ej). pose proof (Hn j) as Hb.
        pose proof (nth_le_zmax f j ltac:(lia)). lia. }
      (* every entry of the heuristic-3 leaf is below the largest current sum *)
      assert (Hu : zmax (update O (fun z => z + T) cs) <= last cs 0).
      { assert (Hne' : update O (fun z => z + T) cs <> []).
        { intros E0. apply (f_equal (@length Z)) in E0. rewrite update_length in E0.
          cbn [length] in E0. lia. }
        pose proof (zmax_in _ Hne') as Hin. apply (In_nth _ _ 0) in Hin.
        destruct Hin as (j & Hj & Ej). rewrite update_length in Hj. rewrite <- Ej.
        destruct j as [|j].
        - rewrite update_nth_same by lia. lia.
        - rewrite update_nth_other by lia.
          pose proof (last_sorted_ge cs 0 Hs) as Hge. rewrite Forall_forall in Hge.
          apply Hge. apply nth_In. exact Hj. }
      lia.
    Qed.

    (** (c4) the global lower bound *)
    Theorem cg_glb_admissible : forall vals g f, Forall (fun v => 0 <= v) vals ->
      lower_bound o (repeat 0 k) (zsum vals) true = Some g ->
      Attainable k vals f -> g <= value o f false.
    Proof.
      intros vals g f Hv E H. apply Comp_Attainable in H.
      destruct (Comp_bounds vals Hv _ _ H) as (_ & Hs & _).
      apply (lower_bound_admissible o (repeat 0 k) f (zsum vals) true g).
      - destruct k as [|n]; [lia|discriminate].
      - intros _. apply cg_repeat0_sorted.
      - apply (Comp_dominates vals); assumption.
      - exact Hs.
      - exact E.
    Qed.
  End Bounds.

  (** ================= C. the search invariant ================= *)
  Section Search.
    Variables (keep : bool) (o : objective) (flags : cg_flags) (k : nat) (glb : option Z).
    Variable sorted : list A.
    Hypothesis Hk : (1 <= k)%nat.
    Hypothesis Hnn : Forall (fun x => 0 <= valueof x) sorted.
    Hypothesis Hglb : forall g f, glb = Some g ->
      Comp (repeat 0 k) (map valueof sorted) f -> g <= value o f false.
    Notation explore := (cg_explore valueof keep o flags None k glb).
    Notation children := (cg_children valueof keep o flags k).

    (** the values still to be placed at depth d *)
    Definition vals_at (d : nat) : list Z := map valueof (skipn d sorted).

    Lemma vals_at_nonneg d : Forall (fun v => 0 <= v) (vals_at d).
    Proof.
      unfold vals_at. rewrite Forall_map.
      pose proof Hnn as H. rewrite <- (firstn_skipn d sorted) in H.
      apply Forall_app in H. exact (proj2 H).
    Qed.

    (** the incumbent value fv is at least as good as every completion of (s, vals) *)
    Definition CovV (fv : option Z) (s vals : list Z) : Prop :=
      forall f, Comp s vals f -> exists v, fv = Some v /\ v <= value o f false.

    Lemma CovV_mono fv fv' s vals : better_or_equal fv' fv -> CovV fv s vals -> CovV fv' s vals.
    Proof.
      intros Hb H f Hf. destruct (H f Hf) as (v & E & Hv). subst fv.
      destruct fv' as [v'|]; cbn in Hb; [|contradiction]. exists v'. split; [reflexivity|lia].
    Qed.

    Lemma CovV_perm fv s s' vals : Permutation s s' -> CovV fv s vals -> CovV fv s' vals.
    Proof.
      intros P H f Hf.
      destruct (Comp_perm vals s' s f (Permutation_sym P) Hf) as (f' & Hf' & Pf).
      destruct (H f' Hf') as (v & E & Hv). exists v. split; [exact E|].
      rewrite (value_perm o f f' Pf). exact Hv.
    Qed.

    (** a stopped state (only the global bound stops a run without limit) is optimal *)
    Definition GOpt (st : @cg_state A) : Prop :=
      cg_stop st = true -> CovV (cg_bestv st) (repeat 0 k) (vals_at 0).

    (** every recorded state deeper than d has been explored: it is covered *)
    Definition SeenInv (d : nat) (st : @cg_state A) : Prop :=
      forall d' ns, In (d', ns) (cg_seen st) -> (d < d')%nat -> CovV (cg_bestv st) ns (vals_at d').

    Definition Vtx (d : nat) (b : bins A) (rest : list A) : Prop :=
      rest = skipn d sorted /\ length b = k /\ StronglySorted Z.le (sums b).

    Definition Post (d : nat) (b : bins A) (st st' : @cg_state A) : Prop :=
      GOpt st' /\
      (forall e, In e (cg_seen st') -> In e (cg_seen st) \/ (d < fst e)%nat) /\
      (cg_stop st' = false -> SeenInv d st' /\ CovV (cg_bestv st') (sums b) (vals_at d)).

    (** -- leaves -- *)
    Lemma leaf_spec (b : bins A) st : cg_stop st = false ->
      cg_seen (cg_leaf o None glb b st) = cg_seen st /\
      better_or_equal (cg_bestv (cg_leaf o None glb b st)) (cg_bestv st) /\
      (exists v, cg_bestv (cg_leaf o None glb b st) = Some v /\ v <= value o (sums b) false) /\
      (cg_stop (cg_leaf o None glb b st) = true ->
       exists v g, cg_bestv (cg_leaf o None glb b st) = Some v /\ glb = Some g /\ v <= g).
    Proof.
      intros Hs. rewrite cg_leaf_eq, cg_enter_nolimit by exact Hs.
      cbn [cg_bestv cg_seen cg_first cg_ticks].
      destruct (lt_bestv (value o (sums b) false) (cg_bestv st)) eqn:El;
        cbn [cg_seen cg_bestv cg_stop].
      - split; [reflexivity|]. split; [apply boe_lt_bestv; exact El|].
        split; [exists (value o (sums b) false); split; [reflexivity|lia]|].
        intros Hst. destruct glb as [g|]; [|discriminate].
        exists (value o (sums b) false), g. split; [reflexivity|]. split; [reflexivity|]. lia.
      - split; [reflexivity|]. split; [apply boe_refl|]. split; [|discriminate].
        destruct (cg_bestv st) as [bv|]; cbn [lt_bestv] in El; [|discriminate].
        exists bv. split; [reflexivity|lia].
    Qed.

    Lemma leaf_post d (b bl : bins A) st :
      cg_stop st = false -> SeenInv d st ->
      (forall f, Comp (sums b) (vals_at d) f -> value o (sums bl) false <= value o f false) ->
      Post d b st (cg_leaf o None glb bl st).
    Proof.
      intros Hs Hsi Hleaf.
      destruct (leaf_spec bl st Hs) as (Hseen & Hboe & (v & Ev & Hv) & Hstop).
      split; [|split].
      - intros Hst. destruct (Hstop Hst) as (v' & g & Ev' & Eg & Hle).
        intros f Hf. exists v'. split; [exact Ev'|].
        pose proof (Hglb g f Eg Hf) as Hg. lia.
      - intros e He. rewrite Hseen in He. left. exact He.
      - intros _. split.
        + intros d' ns Hin Hd. rewrite Hseen in Hin.
          eapply CovV_mono; [exact Hboe|]. apply Hsi; assumption.
        + intros f Hf. exists v. split; [exact Ev|]. specialize (Hleaf f Hf). lia.
    Qed.

    (** -- generation of the children -- *)
    Lemma seen_skip_In d ns seen : cg_seen_skip flags d ns seen = true -> In (S d, ns) seen.
    Proof.
      unfold cg_seen_skip. intros H. apply andb_true_iff in H. destruct H as [_ H].
      apply existsb_exists in H. destruct H as ([d' ns'] & Hin & He).
      unfold state_eqb in He. cbn [fst snd] in He. apply andb_true_iff in He.
      destruct He as [H1 H2]. apply Nat.eqb_eq in H1. apply cg_zlist_eqb_eq in H2.
      subst d' ns'. exact Hin.
    Qed.

    Lemma children_seen_src idxs (b : bins A) cur x R d : forall prev bestv seen e,
      In e (snd (children idxs b cur x R d prev bestv seen)) ->
      In e seen \/
      exists c, In c (fst (children idxs b cur x R d prev bestv seen)) /\ e = (S d, sums c).
    Proof.
      induction idxs as [|bi idxs IH]; intros prev bestv seen e; [cbn; auto|].
      rewrite cg_children_cons. cbv zeta.
      destruct (cg_prev_skip _ _); [apply IH|].
      destruct (cg_pruned _ _ _ _ _ _ _ _ _ _ _); [apply IH|].
      destruct (cg_seen_skip _ _ _ _); [apply IH|].
      cbn [fst snd]. intros He. apply IH in He. destruct He as [He|(c & Hc & He)].
      - unfold cg_seen_add in He. destruct (use_set_of_seen_states flags); [|left; exact He].
        destruct He as [He|He]; [|left; exact He].
        right. exists (cg_child valueof keep b x bi). split; [left; reflexivity|]. symmetry. exact He.
      - right. exists c. split; [right; exact Hc|exact He].
    Qed.

    (** branching + pruning + skipping lose nothing: if, at the end, the incumbent fv covers
        every generated child and every state of the next depth that was already recorded,
        then it covers every potential child *)
    Section Cover.
      Variables (fv bestv : option Z) (b : bins A) (x : A) (R : Z) (d : nat) (vals : list Z).
      Hypothesis Hlen : length b = k.
      Hypothesis Hx : 0 <= valueof x.
      Hypothesis Hvals : Forall (fun v => 0 <= v) vals.
      Hypothesis HR : R = zsum vals.
      Hypothesis Hfv : better_or_equal fv bestv.

      Definition childs (i : nat) : list Z := update i (fun z => z + valueof x) (sums b).

      Lemma cover_same_sum bi : (bi < k)%nat -> CovV fv (childs bi) vals ->
        forall p i, Some (nth bi (sums b) 0) = Some p -> (i < k)%nat -> nth i (sums b) 0 = p ->
        CovV fv (childs i) vals.
      Proof.
        intros Hbi Hc p i Ep Hi Ei. inversion Ep; subst p.
        eapply CovV_perm; [|exact Hc]. unfold childs.
        apply cg_update_same_value; rewrite ?cg_sums_len; try lia.
      Qed.

      Lemma children_cover : forall idxs prev seen,
        (forall i, In i idxs -> (i < k)%nat) ->
        (forall c, In c (fst (children idxs b (sums b) x R d prev bestv seen)) ->
                   CovV fv (sums c) vals) ->
        (forall ns, In (S d, ns) seen -> CovV fv ns vals) ->
        (forall p i, prev = Some p -> (i < k)%nat -> nth i (sums b) 0 = p -> CovV fv (childs i) vals) ->
        forall i, In i idxs -> CovV fv (childs i) vals.
      Proof.
        induction idxs as [|bi idxs IH]; intros prev seen Hidx Hch Hseen Hprev i Hi; [destruct Hi|].
        assert (Hbi : (bi < k)%nat) by (apply Hidx; left; reflexivity).
        assert (Hidx' : forall j, In j idxs -> (j < k)%nat) by (intros j Hj; apply Hidx; right; exact Hj).
        rewrite cg_children_cons in Hch. cbv zeta in Hch.
        destruct (cg_prev_skip prev (nth bi (sums b) 0)) eqn:Ep.
        - (* equal to the previous sum *)
          destruct Hi as [Hi|Hi]; [|eapply IH; eassumption].
          subst i. destruct prev as [p|]; cbn [cg_prev_skip] in Ep; [|discriminate].
          apply Z.eqb_eq in Ep. apply (Hprev p bi eq_refl Hbi Ep).
        - assert (Hthis : CovV fv (childs bi) vals ->
                    (forall c, In c (fst (children idxs b (sums b) x R d (Some (nth bi (sums b) 0))
                                            bestv seen)) -> CovV fv (sums c) vals) ->
                    CovV fv (childs i) vals).
          { intros Hc Hch'. destruct Hi as [Hi|Hi]; [subst i; exact Hc|].
            eapply IH; [exact Hidx'|exact Hch'|exact Hseen|exact (cover_same_sum bi Hbi Hc)|exact Hi]. }
          destruct (cg_pruned valueof keep o flags k bi b (sums b) x R bestv) eqn:Epr.
          + (* pruned by a bound *)
            apply Hthis; [|exact Hch].
            intros f Hf.
            destruct (cg_pruned_sound keep o flags k Hk b x bi R vals bestv f Hlen Hbi Hx Hvals HR Epr Hf)
              as (bv & Eb & Hbv).
            subst bestv. destruct fv as [v|]; cbn in Hfv; [|contradiction].
            exists v. split; [reflexivity|lia].
          + destruct (cg_seen_skip flags d (sums (cg_child valueof keep b x bi)) seen) eqn:Esk.
            * (* an equal state was recorded *)
              apply Hthis; [|exact Hch].
              eapply CovV_perm; [apply cg_child_sums|]. apply Hseen. apply seen_skip_In. exact Esk.
            * (* generated *)
              cbn [fst] in Hch.
              assert (Hnb : CovV fv (childs bi) vals).
              { eapply CovV_perm; [apply cg_child_sums|]. apply Hch. left. reflexivity. }
              destruct Hi as [Hi|Hi]; [subst i; exact Hnb|].
              eapply IH; [exact Hidx'| | |exact (cover_same_sum bi Hbi Hnb)|exact Hi].
              -- intros c Hc. apply Hch. right. exact Hc.
              -- intros ns Hns. unfold cg_seen_add in Hns.
                 destruct (use_set_of_seen_states flags); [|apply Hseen; exact Hns].
                 destruct Hns as [Hns|Hns]; [|apply Hseen; exact Hns].
                 inversion Hns; subst ns. apply Hch. left. reflexivity.
      Qed.

      (** hence it covers the parent *)
      Lemma parent_cover seen :
        (forall c, In c (fst (children (rev (range k)) b (sums b) x R d None bestv seen)) ->
                   CovV fv (sums c) vals) ->
        (forall ns, In (S d, ns) seen -> CovV fv ns vals) ->
        CovV fv (sums b) (valueof x :: vals).
      Proof.
        intros Hch Hseen f Hf. apply Comp_cons in Hf. destruct Hf as (i & Hi & Hf).
        rewrite cg_sums_len, Hlen in Hi.
        refine (children_cover (rev (range k)) None seen _ Hch Hseen _ i _ f Hf).
        - intros j Hj. apply cg_In_rev_range. exact Hj.
        - intros p j Ep. discriminate.
        - apply In_rev_range. exact Hi.
      Qed.
    End Cover.

    (** -- exploration -- *)
    Lemma fold_stopped t d cs : forall st, cg_stop st = true ->
      fold_left (fun s c => explore t d c s) cs st = st.
    Proof.
      induction cs as [|c cs IHcs]; intros st Hs; cbn [fold_left]; [reflexivity|].
      rewrite cg_explore_stopped by exact Hs. apply IHcs. exact Hs.
    Qed.

    Lemma fold_bestv_mono t d cs st :
      better_or_equal (cg_bestv (fold_left (fun s c => explore t d c s) cs st)) (cg_bestv st).
    Proof.
      apply (cg_fold_inv0 valueof keep o flags None k glb
               (fun s => better_or_equal (cg_bestv s) (cg_bestv st))).
      - intros st0 seen' stop' n _ HI. exact HI.
      - intros b0 st0 stop' HI Hlt. cbn [cg_bestv].
        eapply boe_trans; [apply boe_lt_bestv; exact Hlt|exact HI].
      - apply boe_refl.
    Qed.

    Lemma fold_post t d
      (IH : forall b st, Vtx (S d) b t -> GOpt st -> (cg_stop st = false -> SeenInv (S d) st) ->
                         Post (S d) b st (explore t (S d) b st)) :
      forall cs st0, Forall (fun c => Vtx (S d) c t) cs -> GOpt st0 ->
        (cg_stop st0 = false -> SeenInv (S d) st0) ->
        GOpt (fold_left (fun s c => explore t (S d) c s) cs st0) /\
        (forall e, In e (cg_seen (fold_left (fun s c => explore t (S d) c s) cs st0)) ->
                   In e (cg_seen st0) \/ (S d < fst e)%nat) /\
        (cg_stop (fold_left (fun s c => explore t (S d) c s) cs st0) = false ->
         SeenInv (S d) (fold_left (fun s c => explore t (S d) c s) cs st0) /\
         forall c, In c cs ->
           CovV (cg_bestv (fold_left (fun s c0 => explore t (S d) c0 s) cs st0)) (sums c)
                (vals_at (S d))).
    Proof.
      induction cs as [|c cs IHcs]; intros st0 Hcs HG Hsi; cbn [fold_left].
      - split; [exact HG|]. split; [intros e He; left; exact He|].
        intros Hs. split; [apply Hsi; exact Hs|]. intros c Hc. destruct Hc.
      - inversion Hcs as [|c' cs' Hc Hcs']; subst c' cs'.
        destruct (IH c st0 Hc HG Hsi) as (HG1 & Hgrow1 & Hpost1).
        destruct (IHcs (explore t (S d) c st0) Hcs' HG1 (fun Hs => proj1 (Hpost1 Hs)))
          as (HGf & Hgrowf & Hpostf).
        split; [exact HGf|]. split.
        + intros e He. destruct (Hgrowf e He) as [H|H]; [|right; exact H].
          apply Hgrow1 in H. exact H.
        + intros Hs. destruct (Hpostf Hs) as (Hsif & Hcov). split; [exact Hsif|].
          intros c' Hc'. destruct Hc' as [Hc'|Hc']; [subst c'|apply Hcov; exact Hc'].
          assert (Hs1 : cg_stop (explore t (S d) c st0) = false).
          { destruct (cg_stop (explore t (S d) c st0)) eqn:E; [|reflexivity].
            rewrite (fold_stopped t (S d) cs _ E) in Hs. congruence. }
          eapply CovV_mono; [apply fold_bestv_mono|]. exact (proj2 (Hpost1 Hs1)).
    Qed.

    Lemma explore_post : forall rest d b st, Vtx d b rest -> GOpt st ->
      (cg_stop st = false -> SeenInv d st) -> Post d b st (explore rest d b st).
    Proof.
      induction rest as [|x t IH]; intros d b st (Hrest & Hlen & Hsorted) HG Hsi;
        destruct (cg_stop st) eqn:Hs;
        try (rewrite cg_explore_stopped by exact Hs;
             split; [exact HG|]; split; [intros e He; left; exact He|intros Hc; congruence]).
      - (* a complete partition *)
        rewrite cg_explore_nil. apply leaf_post; [exact Hs|apply Hsi; reflexivity|].
        intros f Hf. unfold vals_at in Hf. rewrite <- Hrest in Hf. cbn [map] in Hf.
        apply Comp_nil in Hf. subst f. lia.
      - rewrite cg_explore_cons, cg_enter_nolimit by exact Hs.
        set (st1 := {| cg_best := cg_best st; cg_bestv := cg_bestv st; cg_seen := cg_seen st;
                       cg_stop := false; cg_ticks := S (cg_ticks st); cg_first := cg_first st |}).
        assert (Hvd : vals_at d = valueof x :: map valueof t).
        { unfold vals_at. rewrite <- Hrest. reflexivity. }
        assert (Hvt : vals_at (S d) = map valueof t).
        { unfold vals_at. rewrite (skipn_S_tail x t d sorted (eq_sym Hrest)). reflexivity. }
        pose proof (vals_at_nonneg d) as Hnnd. rewrite Hvd in Hnnd.
        inversion Hnnd as [|v0 l0 Hx Hnnt]; subst v0 l0.
        destruct (cg_h3_cond valueof o flags (x :: t) (sums b)) eqn:Eh3.
        + (* heuristic 3 *)
          refine (leaf_post d b (cg_h3bins valueof keep (x :: t) b) st1 eq_refl (Hsi eq_refl) _).
          intros f Hf. rewrite Hvd in Hf.
          apply (cg_h3_sound keep o flags k Hk b (x :: t) f Hlen Hsorted); [|exact Eh3|exact Hf].
          cbn [map]. constructor; assumption.
        + cbv zeta.
          set (r := children (rev (range k)) b (sums b) x (zsum (map valueof t)) d None
                             (cg_bestv st1) (cg_seen st1)).
          set (st2 := {| cg_best := cg_best st1; cg_bestv := cg_bestv st1; cg_seen := snd r;
                         cg_stop := false; cg_ticks := cg_ticks st1; cg_first := cg_first st1 |}).
          assert (Hsrc : forall e, In e (snd r) ->
                    In e (cg_seen st) \/ exists c, In c (fst r) /\ e = (S d, sums c)).
          { intros e He. apply (children_seen_src _ _ _ _ _ _ _ _ _ e He). }
          assert (Hchv : Forall (fun c => Vtx (S d) c t) (rev (fst r))).
          { apply Forall_rev. eapply Forall_impl; [|apply cg_children_spec]. cbv beta.
            intros c (bi & _ & Ec). subst c. split; [|split].
            - symmetry. apply (skipn_S_tail x t d sorted). symmetry. exact Hrest.
            - rewrite cg_child_length. exact Hlen.
            - apply cg_child_sorted. }
          assert (HG2 : GOpt st2) by (intros Hc; discriminate Hc).
          assert (Hsi2 : cg_stop st2 = false -> SeenInv (S d) st2).
          { intros _ d' ns Hin Hd. change (cg_seen st2) with (snd r) in Hin.
            destruct (Hsrc _ Hin) as [H|(c & _ & Ec)].
            - apply (Hsi eq_refl d' ns H). lia.
            - inversion Ec. lia. }
          destruct (fold_post t d (fun b0 st0 => IH (S d) b0 st0) (rev (fst r)) st2 Hchv HG2 Hsi2)
            as (HGf & Hgrowf & Hpostf).
          set (stf := fold_left (fun s c => explore t (S d) c s) (rev (fst r)) st2) in *.
          assert (Hmono : better_or_equal (cg_bestv stf) (cg_bestv st)).
          { apply (fold_bestv_mono t (S d) (rev (fst r)) st2). }
          split; [exact HGf|]. split.
          * intros e He. destruct (Hgrowf e He) as [H|H]; [|right; lia].
            change (cg_seen st2) with (snd r) in H.
            destruct (Hsrc _ H) as [H'|(c & _ & Ec)]; [left; exact H'|right].
            subst e. cbn [fst]. lia.
          * intros Hsf. destruct (Hpostf Hsf) as (Hsif & Hcov).
            assert (Hold : forall ns, In (S d, ns) (cg_seen st) ->
                                      CovV (cg_bestv stf) ns (map valueof t)).
            { intros ns Hns. rewrite <- Hvt. eapply CovV_mono; [exact Hmono|].
              apply (Hsi eq_refl (S d) ns Hns). lia. }
            assert (Hnew : forall c, In c (fst r) -> CovV (cg_bestv stf) (sums c) (map valueof t)).
            { intros c Hc. rewrite <- Hvt. apply Hcov. apply -> in_rev. exact Hc. }
            split.
            -- intros d' ns Hin Hd. destruct (Nat.eq_dec d' (S d)) as [E|E].
               ++ subst d'. rewrite Hvt.
                  destruct (Hgrowf _ Hin) as [H|H]; [|cbn [fst] in H; lia].
                  change (cg_seen st2) with (snd r) in H.
                  destruct (Hsrc _ H) as [H'|(c & Hc & Ec)]; [apply Hold; exact H'|].
                  inversion Ec; subst ns. apply Hnew. exact Hc.
               ++ apply Hsif; [exact Hin|lia].
            -- rewrite Hvd.
               apply (parent_cover (cg_bestv stf) (cg_bestv st) b x (zsum (map valueof t)) d
                        (map valueof t) Hlen Hx Hnnt eq_refl Hmono (cg_seen st)).
               ++ exact Hnew.
               ++ exact Hold.
    Qed.
  End Search.

  (** ================= D. optimality (C02) ================= *)
  Lemma cg_attained k items (b : bins A) : is_partition valueof k items b ->
    Attainable k (map valueof items) (sums b).
  Proof.
    intros (Hp & Hl & Hw). destruct (bins_attainable valueof b Hw) as (ps & Hm & Hf & Hr).
    rewrite Hl in Hf, Hr.
    apply (Attainable_perm k (map valueof (contents b))); [apply Permutation_map; exact Hp|].
    apply Attainable_pairs. exists ps. auto.
  Qed.

  (** the returned value is a lower bound of every attainable value (any contents manager) *)
  Theorem cg_optimal_lower : forall keep o flags k items b, (1 <= k)%nat ->
    Forall (fun x => 0 <= valueof x) items ->
    cg valueof keep o flags None k items = Some b ->
    forall s, Attainable k (map valueof items) s -> value o (sums b) false <= value o s false.
  Proof.
    intros keep o flags k items b Hk Hnn E s Hs.
    pose proof (sort_desc_perm valueof items) as Psort.
    set (sorted := sort_desc valueof items) in *.
    assert (Hnn' : Forall (fun x => 0 <= valueof x) sorted).
    { eapply Permutation_Forall; [symmetry; exact Psort|exact Hnn]. }
    assert (Hvn : Forall (fun v => 0 <= v) (map valueof sorted)) by (rewrite Forall_map; exact Hnn').
    set (glb := lower_bound o (repeat 0 k) (zsum (map valueof sorted)) true).
    assert (Hglb : forall g f, glb = Some g -> Comp (repeat 0 k) (map valueof sorted) f ->
                               g <= value o f false).
    { intros g f Eg Hf. apply (cg_glb_admissible o k Hk (map valueof sorted) g f Hvn Eg).
      apply Comp_Attainable. exact Hf. }
    unfold cg in E. rewrite cg_run_eq in E. fold sorted in E. fold glb in E.
    pose proof (cg_run_bv_ok valueof keep o flags None k items) as Hbv.
    rewrite cg_run_eq in Hbv. fold sorted in Hbv. fold glb in Hbv.
    destruct (explore_post keep o flags k glb sorted Hk Hnn' Hglb sorted O (new_bins k)
                (cg_init_state flags k)) as (HG & _ & Hpost).
    - split; [reflexivity|]. split; [apply new_bins_length|].
      rewrite new_bins_sums. apply cg_repeat0_sorted.
    - intros Hc. discriminate Hc.
    - intros _ d' ns Hin Hd. unfold cg_init_state in Hin. cbn [cg_seen] in Hin.
      destruct (use_set_of_seen_states flags); [|destruct Hin].
      destruct Hin as [Hin|[]]. inversion Hin. lia.
    - set (stf := cg_explore valueof keep o flags None k glb sorted O (new_bins k)
                    (cg_init_state flags k)) in *.
      assert (Hcov : CovV o (cg_bestv stf) (repeat 0 k) (map valueof sorted)).
      { destruct (cg_stop stf) eqn:Hst.
        - exact (HG Hst).
        - destruct (Hpost eq_refl) as (_ & Hc). rewrite new_bins_sums in Hc. exact Hc. }
      assert (Hs' : Comp (repeat 0 k) (map valueof sorted) s).
      { apply Comp_Attainable. eapply Attainable_perm; [|exact Hs].
        apply Permutation_map. symmetry. exact Psort. }
      destruct (Hcov s Hs') as (v & Ev & Hv).
      rewrite (cg_bv_ok_some o stf b Hbv E) in Ev. inversion Ev; subst v. exact Hv.
  Qed.

  (** MAIN THEOREM (C02): without a time limit, complete greedy returns an optimal partition,
      for every objective and every combination of the pruning switches *)
  Theorem cg_optimal : forall o flags k items b, (1 <= k)%nat ->
    Forall (fun x => 0 <= valueof x) items ->
    cg valueof true o flags None k items = Some b ->
    Opt o k (map valueof items) (value o (sums b) false).
  Proof.
    intros o flags k items b Hk Hnn E. split.
    - exists (sums b). split; [|reflexivity]. apply cg_attained.
      apply (cg_safe valueof o flags None k items b Hk E).
    - apply (cg_optimal_lower true o flags k items b Hk Hnn E).
  Qed.

  (** the same for the sums-only run *)
  Theorem cg_optimal_sums : forall o flags k items b, (1 <= k)%nat ->
    Forall (fun x => 0 <= valueof x) items ->
    cg valueof false o flags None k items = Some b ->
    Opt o k (map valueof items) (value o (sums b) false).
  Proof.
    intros o flags k items b Hk Hnn E.
    pose proof (cg_erase valueof o flags None k items) as Her. rewrite E in Her.
    destruct (cg valueof true o flags None k items) as [b0|] eqn:E0; [|discriminate].
    cbn [option_map] in Her. inversion Her; subst b. rewrite erase_sums.
    apply (cg_optimal o flags k items b0 Hk Hnn E0).
  Qed.

  (** special case kept for the record: without the seen-set *)
  Corollary cg_optimal_noseen : forall o flags k items b, (1 <= k)%nat ->
    use_set_of_seen_states flags = false ->
    Forall (fun x => 0 <= valueof x) items ->
    cg valueof true o flags None k items = Some b ->
    Opt o k (map valueof items) (value o (sums b) false).
  Proof. intros o flags k items b Hk _. apply cg_optimal. exact Hk. Qed.

  (** ================= E. heuristic 3: the first solution still has the LPT value ================= *)
  Definition cg_no_h3 (flags : cg_flags) : cg_flags :=
    mk_flags (use_lower_bound flags) (use_fast_lower_bound flags) false (use_set_of_seen_states flags).

  (** the generation of children does not read the heuristic-3 switch *)
  Lemma cg_children_no_h3 keep o flags k idxs (b : bins A) cur x R d : forall prev bestv seen,
    cg_children valueof keep o flags k idxs b cur x R d prev bestv seen =
    cg_children valueof keep o (cg_no_h3 flags) k idxs b cur x R d prev bestv seen.
  Proof.
    induction idxs as [|bi idxs IH]; intros prev bestv seen; [reflexivity|].
    rewrite !cg_children_cons. cbv zeta. rewrite !IH.
    destruct flags as [f1 f2 f3 f4]. reflexivity.
  Qed.

  (** LPT keeps the maximum when the remaining total fits on top of the smallest sum *)
  Lemma lpt_max_fits : forall (vals s : list Z) M, s <> [] -> Forall (fun v => 0 <= v) vals ->
    zmax s = M -> zmin s + zsum vals <= M ->
    zmax (fold_left lpt_step vals s) = M.
  Proof.
    induction vals as [|v vals IH]; intros s M Hne Hv Hmax Hfit; cbn [fold_left]; [exact Hmax|].
    inversion Hv as [|v0 l0 Hv0 Hvt]; subst v0 l0. rewrite zsum_cons in Hfit.
    pose proof (zsum_nonneg vals Hvt) as HT.
    destruct (argmin_spec s Hne) as (Hi & Hmin & _).
    set (i := argmin s) in *.
    assert (Hm : nth i s 0 = zmin s).
    { pose proof (zmin_le s) as H1. rewrite Forall_forall in H1, Hmin.
      pose proof (H1 _ (nth_In s 0 Hi)). pose proof (Hmin _ (zmin_in s Hne)). lia. }
    assert (Hl' : length (lpt_step s v) = length s) by apply update_length.
    assert (Hne' : lpt_step s v <> []).
    { intros E0. rewrite E0 in Hl'. cbn [length] in Hl'. destruct s; [congruence|discriminate]. }
    assert (Hnth : forall j, (j < length s)%nat ->
                     nth j s 0 <= nth j (lpt_step s v) 0 /\ nth j (lpt_step s v) 0 <= M).
    { intros j Hj. unfold lpt_step. fold i. pose proof (nth_le_zmax s j Hj) as Hjm.
      destruct (Nat.eq_dec i j) as [E|E].
      - subst j. rewrite update_nth_same by exact Hi. lia.
      - rewrite update_nth_other by exact E. lia. }
    apply IH; [exact Hne'|exact Hvt| |].
    - assert (H1 : zmax (lpt_step s v) <= M).
      { pose proof (zmax_in _ Hne') as Hin. apply (In_nth _ _ 0) in Hin.
        destruct Hin as (j & Hj & Ej). rewrite Hl' in Hj. rewrite <- Ej. apply Hnth. exact Hj. }
      assert (H2 : M <= zmax (lpt_step s v)).
      { pose proof (zmax_in _ Hne) as Hin. apply (In_nth _ _ 0) in Hin.
        destruct Hin as (j & Hj & Ej). destruct (Hnth j Hj) as [Hlo _].
        pose proof (nth_le_zmax (lpt_step s v) j ltac:(lia)). lia. }
      lia.
    - pose proof (nth_ge_zmin (lpt_step s v) i ltac:(lia)) as Hz.
      assert (Ei : nth i (lpt_step s v) 0 = nth i s 0 + v).
      { unfold lpt_step. fold i. rewrite update_nth_same by exact Hi. reflexivity. }
      lia.
  Qed.

  Section FirstH3.
    Variables (keep : bool) (flags : cg_flags) (k : nat) (glb : option Z).
    Hypothesis Hk : (1 <= k)%nat.
    Notation explore := (cg_explore valueof keep MinLargest flags None k glb).

    (** when heuristic 3 fires, its leaf has the current largest sum as maximum *)
    Lemma h3_leaf_max (b : bins A) rest : length b = k -> StronglySorted Z.le (sums b) ->
      Forall (fun v => 0 <= v) (map valueof rest) ->
      cg_h3_cond valueof MinLargest flags rest (sums b) = true ->
      zmax (sums (cg_h3bins valueof keep rest b)) = zmax (sums b) /\
      zmin (sums b) + zsum (map valueof rest) <= zmax (sums b).
    Proof.
      intros Hl Hs Hv Hc. unfold cg_h3_cond in Hc.
      apply andb_true_iff in Hc. destruct Hc as [_ Hle].
      unfold head0, last0 in Hle. rewrite (hd_sorted_zmin _ Hs), (last_sorted_zmax _ Hs) in Hle.
      split; [|lia].
      rewrite (zmax_perm _ _ (cg_h3bins_sums keep rest b)).
      set (T := zsum (map valueof rest)) in *. set (cs := sums b) in *.
      pose proof (zsum_nonneg _ Hv) as HT. fold T in HT.
      assert (Hlc : length cs = k) by (unfold cs; rewrite cg_sums_len; exact Hl).
      assert (Hne : cs <> []) by (intros E0; rewrite E0 in Hlc; cbn [length] in Hlc; lia).
      assert (Hne' : update O (fun z => z + T) cs <> []).
      { intros E0. apply (f_equal (@length Z)) in E0. rewrite update_length in E0.
        cbn [length] in E0. lia. }
      assert (H0 : nth O cs 0 = zmin cs) by (rewrite <- hd_nth0; apply hd_sorted_zmin; exact Hs).
      assert (Hnth : forall j, (j < length cs)%nat ->
                       nth j cs 0 <= nth j (update O (fun z => z + T) cs) 0 <= zmax cs).
      { intros j Hj. pose proof (nth_le_zmax cs j Hj) as Hjm. destruct j as [|j].
        - rewrite update_nth_same by exact Hj. lia.
        - rewrite update_nth_other by lia. lia. }
      assert (H1 : zmax (update O (fun z => z + T) cs) <= zmax cs).
      { pose proof (zmax_in _ Hne') as Hin. apply (In_nth _ _ 0) in Hin.
        destruct Hin as (j & Hj & Ej). rewrite update_length in Hj. rewrite <- Ej. apply Hnth. exact Hj. }
      assert (H2 : zmax cs <= zmax (update O (fun z => z + T) cs)).
      { pose proof (zmax_in _ Hne) as Hin. apply (In_nth _ _ 0) in Hin.
        destruct Hin as (j & Hj & Ej). pose proof (Hnth j Hj) as Hb.
        pose proof (nth_le_zmax (update O (fun z => z + T) cs) j) as Hm.
        rewrite update_length in Hm. specialize (Hm Hj). lia. }
      lia.
    Qed.

    Lemma first_h3_explore : forall rest d b st,
      cg_stop st = false -> cg_bestv st = None -> cg_first st = None ->
      cg_seen_le d (cg_seen st) -> length b = k -> StronglySorted Z.le (sums b) ->
      Forall (fun v => 0 <= v) (map valueof rest) ->
      exists f, cg_first (explore rest d b st) = Some f /\
                zmax (sums f) = zmax (lpt_sums valueof (sums b) rest).
    Proof.
      induction rest as [|x t IH]; intros d b st Hs Hb Hf Hseen Hlen Hsorted Hv.
      - rewrite cg_explore_nil. exists b. split; [apply cg_first_leaf; assumption|reflexivity].
      - rewrite cg_explore_cons, cg_enter_nolimit by exact Hs.
        destruct (cg_h3_cond valueof MinLargest flags (x :: t) (sums b)) eqn:Eh3.
        + (* heuristic 3 fires *)
          exists (cg_h3bins valueof keep (x :: t) b). split.
          * apply cg_first_leaf; [reflexivity|exact Hb|exact Hf].
          * destruct (h3_leaf_max b (x :: t) Hlen Hsorted Hv Eh3) as (E1 & Hfit). rewrite E1.
            symmetry. unfold lpt_sums.
            assert (Hne : sums b <> []).
            { intros E0. apply (f_equal (@length Z)) in E0. rewrite cg_sums_len, Hlen in E0.
              cbn [length] in E0. lia. }
            pose proof (lpt_max_fits (map valueof (x :: t)) (sums b) (zmax (sums b)) Hne Hv
                          eq_refl Hfit) as Hm.
            rewrite <- Hm. f_equal. clear. generalize (sums b). generalize (x :: t).
            intros l. induction l as [|y l IHl]; intros s0; cbn [map fold_left]; [reflexivity|].
            apply IHl.
        + cbv zeta. cbn [cg_best cg_bestv cg_seen cg_ticks cg_first]. rewrite Hb.
          inversion Hv as [|v0 l0 Hx Hvt]; subst v0 l0.
          destruct (cg_children_last valueof keep MinLargest (cg_no_h3 flags) k Hk eq_refl b x
                      (zsum (map valueof t)) d Hlen Hsorted (cg_seen st) Hseen) as [Hne Hq].
          rewrite <- cg_children_no_h3 in Hne, Hq.
          assert (Hle : cg_seen_le (S d)
                          (snd (cg_children valueof keep MinLargest flags k (rev (range k)) b (sums b) x
                                  (zsum (map valueof t)) d None None (cg_seen st)))).
          { apply cg_children_seen_le. apply cg_seen_le_S. exact Hseen. }
          pose proof (cg_last_In (T := bins A) _ [] Hne) as Hin.
          pose proof (cg_children_spec valueof keep MinLargest flags k (rev (range k)) b (sums b) x
                        (zsum (map valueof t)) d None None (cg_seen st)) as Hspec.
          rewrite Forall_forall in Hspec. destruct (Hspec _ Hin) as (bi & _ & Hc).
          destruct (cg_rev_last (T := bins A) _ [] Hne) as (cs' & Er). rewrite Er. cbn [fold_left].
          set (c := last (fst (cg_children valueof keep MinLargest flags k (rev (range k)) b (sums b) x
                                 (zsum (map valueof t)) d None None (cg_seen st))) []) in *.
          destruct (IH (S d) c
                       (mk_cg (cg_best st) None
                          (snd (cg_children valueof keep MinLargest flags k (rev (range k)) b (sums b) x
                                  (zsum (map valueof t)) d None None (cg_seen st)))
                          false (S (cg_ticks st)) (cg_first st)))
            as (f & Ef & Pf).
          * reflexivity.
          * reflexivity.
          * exact Hf.
          * exact Hle.
          * rewrite Hc, cg_child_length. exact Hlen.
          * rewrite Hc. apply cg_child_sorted.
          * exact Hvt.
          * exists f. split; [apply cg_first_keep_fold; exact Ef|].
            rewrite Pf. unfold lpt_sums at 2. cbn [fold_left]. apply zmax_perm.
            apply cg_lpt_sums_perm. unfold cg_minq in Hq. rewrite Hq. symmetry.
            apply cg_lpt_step_sorted. exact Hsorted.
    Qed.
  End FirstH3.

  (** for MinLargest the first solution has the LPT objective value, whatever the switches
      (in particular with heuristic 3 active, where its sums may differ from LPT's) *)
  Theorem cg_first_h3_value : forall flags limit k items f, (1 <= k)%nat ->
    Forall (fun x => 0 <= valueof x) items ->
    cg_first (cg_run valueof true MinLargest flags limit k items) = Some f ->
    value MinLargest (sums f) false = value MinLargest (sums (greedy valueof true k items)) false.
  Proof.
    intros flags limit k items f Hk Hnn E.
    apply cg_first_limit in E. rewrite cg_run_eq in E.
    destruct (first_h3_explore true flags k
                (lower_bound MinLargest (repeat 0 k) (zsum (map valueof (sort_desc valueof items))) true)
                Hk (sort_desc valueof items) O (new_bins k) (cg_init_state flags k))
      as (f' & Ef & Pf).
    - reflexivity.
    - reflexivity.
    - reflexivity.
    - unfold cg_init_state, cg_seen_le. cbn [cg_seen].
      destruct (use_set_of_seen_states flags); repeat constructor.
    - apply new_bins_length.
    - rewrite new_bins_sums. apply cg_repeat0_sorted.
    - rewrite Forall_map. eapply Permutation_Forall; [symmetry; apply sort_desc_perm|exact Hnn].
    - rewrite E in Ef. inversion Ef; subst f'. unfold value. rewrite Pf.
      unfold greedy. rewrite cg_greedy_sums. reflexivity.
  Qed.
End CGOptimal.

(** non-vacuity: the doctest instances of complete_greedy.py *)
Example cg_optimal_ex1 :
  option_map (fun b => value MinDiff (sums b) false)
    (cg (fun v => v) true MinDiff (mk_flags true true false true) None 3 [46; 39; 27; 26; 16; 13; 10])
  = Some 8.
Proof. vm_compute. reflexivity. Qed.

(** the hypothesis "values >= 0" of cg_optimal is necessary: with a negative value the
    bound-based prunes are not admissible (the unpruned search finds max = 0) *)
Example cg_optimal_needs_nonneg :
  option_map (fun b => value MinLargest (sums b) false)
    (cg (fun v => v) true MinLargest (mk_flags true true false true) None 2 [3; -2; -2]) = Some 1
  /\ option_map (fun b => value MinLargest (sums b) false)
    (cg (fun v => v) true MinLargest (mk_flags false false false false) None 2 [3; -2; -2]) = Some 0.
Proof. vm_compute. split; reflexivity. Qed.

Print Assumptions cg_branching_complete.
Print Assumptions cg_fast_bound_admissible.
Print Assumptions cg_h3_sound.
Print Assumptions cg_glb_admissible.
Print Assumptions cg_optimal_lower.
Print Assumptions cg_optimal.
Print Assumptions cg_optimal_sums.
Print Assumptions cg_optimal_noseen.
Print Assumptions cg_first_h3_value.
