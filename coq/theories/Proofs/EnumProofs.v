(** Property C13: the two enumerators are complete and duplicate-free.
    Part A: the inclusion/exclusion tree (Model/InExTree.v) yields exactly the
            sub-collections (by position) of the sorted items whose total lies in the
            window [lb, ub], each once, in depth-first include-first order.
    Part B: itertools.permutations(range(n)) (Base/Perms.v) lists exactly the permutations
            of range n without repetition, and all_combinations (Model/KK.v) represents
            every pairing of the bins by exactly one combination per canonical key. *)
From Prtpy Require Import Base.Prelude Base.Perms Model.Binner Model.InExTree Model.KK.
From Prtpy Require Import Proofs.BaseLemmas Proofs.BinnerLemmas.
From Coq Require Import ZifyBool.

(** ---- generic list helpers ---- *)
Lemma filter_all_false {T} (f : T -> bool) (l : list T) :
  (forall x, In x l -> f x = false) -> filter f l = [].
Proof.
  induction l as [|x t IH]; intros H; cbn [filter]; [reflexivity|].
  rewrite (H x (or_introl eq_refl)). apply IH. intros y Hy. apply H. right. exact Hy.
Qed.

Lemma filter_map_comm {T U} (f : U -> bool) (g : T -> U) (l : list T) :
  filter f (map g l) = map g (filter (fun x => f (g x)) l).
Proof.
  induction l as [|x t IH]; cbn [map filter]; [reflexivity|].
  destruct (f (g x)); cbn [map]; rewrite IH; reflexivity.
Qed.

Lemma NoDup_app_intro {T} (l1 l2 : list T) :
  NoDup l1 -> NoDup l2 -> (forall x, In x l1 -> In x l2 -> False) -> NoDup (l1 ++ l2).
Proof.
  induction l1 as [|x t IH]; intros H1 H2 Hd; cbn [app]; [exact H2|].
  inversion H1 as [|x' t' Hx Ht]; subst. constructor.
  - intros Hin. apply in_app_or in Hin. destruct Hin as [Hin|Hin]; [exact (Hx Hin)|].
    apply (Hd x); [left; reflexivity|exact Hin].
  - apply IH; [exact Ht|exact H2|]. intros y Hy1 Hy2. apply (Hd y); [right; exact Hy1|exact Hy2].
Qed.

Lemma NoDup_map_cons {T} (x : T) (L : list (list T)) : NoDup L -> NoDup (map (cons x) L).
Proof.
  induction 1 as [|q t Hq Ht IH]; cbn [map]; constructor; [|exact IH].
  intros Hin. apply in_map_iff in Hin. destruct Hin as (q' & E & Hq'). inversion E; subst. exact (Hq Hq').
Qed.

(** =================================================================== *)
(** Part A: the inclusion/exclusion enumerator                           *)
(** =================================================================== *)
Section InExComplete.
  Context {A : Type} (valueof : A -> Z).

  (** all sub-collections by position, in the DFS order (include first) *)
  Fixpoint sublists (l : list A) : list (list A) :=
    match l with
    | [] => [[]]
    | x :: t => map (cons x) (sublists t) ++ sublists t
    end.

  Definition in_window (lb ub : Z * Z) (c : list A) : bool :=
    negb (above (vsum valueof c) ub) && negb (below (vsum valueof c) lb).

  (** keep the positions marked true *)
  Fixpoint select (mask : list bool) (l : list A) : list A :=
    match mask, l with
    | b :: m, x :: t => if b then x :: select m t else select m t
    | _, _ => []
    end.

  (** all boolean vectors of length n, true first *)
  Fixpoint all_masks (n : nat) : list (list bool) :=
    match n with
    | O => [[]]
    | S m => map (cons true) (all_masks m) ++ map (cons false) (all_masks m)
    end.

  Lemma all_masks_spec n m : In m (all_masks n) <-> length m = n.
  Proof.
    revert m; induction n as [|n IH]; intros m; cbn [all_masks].
    - split.
      + intros [H|[]]. subst. reflexivity.
      + intros H. destruct m; [left; reflexivity|discriminate].
    - rewrite in_app_iff, !in_map_iff. split.
      + intros [(q & E & Hq)|(q & E & Hq)]; subst; cbn [length]; f_equal; apply IH; exact Hq.
      + intros H. destruct m as [|b q]; [discriminate|]. cbn [length] in H.
        assert (Hq : In q (all_masks n)) by (apply IH; lia).
        destruct b; [left|right]; exists q; split; auto.
  Qed.

  Lemma all_masks_nodup n : NoDup (all_masks n).
  Proof.
    induction n as [|n IH]; cbn [all_masks].
    - constructor; [intros []|constructor].
    - apply NoDup_app_intro; try (apply NoDup_map_cons; exact IH).
      intros m H1 H2. apply in_map_iff in H1. apply in_map_iff in H2.
      destruct H1 as (q1 & E1 & _). destruct H2 as (q2 & E2 & _). congruence.
  Qed.

  Lemma all_masks_length n : length (all_masks n) = (2 ^ n)%nat.
  Proof.
    induction n as [|n IH]; cbn [all_masks]; [reflexivity|].
    rewrite app_length, !map_length, IH. cbn [Nat.pow]. lia.
  Qed.

  (** [sublists l] is the image of the 2^n masks (each listed once) under [select] *)
  Lemma sublists_masks l : sublists l = map (fun m => select m l) (all_masks (length l)).
  Proof.
    induction l as [|x t IH]; [reflexivity|].
    cbn [sublists length all_masks]. rewrite map_app, !map_map, IH, map_map. reflexivity.
  Qed.

  Lemma sublists_length l : length (sublists l) = (2 ^ length l)%nat.
  Proof. rewrite sublists_masks, map_length. apply all_masks_length. Qed.

  Lemma sublists_spec l c :
    In c (sublists l) <-> exists mask : list bool, length mask = length l /\ c = select mask l.
  Proof.
    rewrite sublists_masks, in_map_iff. split.
    - intros (m & E & Hm). exists m. split; [apply all_masks_spec; exact Hm|symmetry; exact E].
    - intros (m & Hm & E). exists m. split; [symmetry; exact E|apply all_masks_spec; exact Hm].
  Qed.

  (** ---- sums ---- *)
  Lemma vsum_app l1 l2 : vsum valueof (l1 ++ l2) = vsum valueof l1 + vsum valueof l2.
  Proof. unfold vsum. rewrite map_app. apply zsum_app. Qed.

  Lemma vsum_cons x l : vsum valueof (x :: l) = valueof x + vsum valueof l.
  Proof. reflexivity. Qed.

  Lemma vsum_nil : vsum valueof [] = 0.
  Proof. reflexivity. Qed.

  Lemma sublists_vsum_bounds l s :
    Forall (fun x => 0 <= valueof x) l -> In s (sublists l) ->
    0 <= vsum valueof s <= vsum valueof l.
  Proof.
    intros Hl. revert s. induction Hl as [|x t Hx Ht IH]; intros s Hs; cbn [sublists] in Hs.
    - destruct Hs as [Hs|[]]. subst. rewrite vsum_nil. lia.
    - rewrite vsum_cons. apply in_app_or in Hs. destruct Hs as [Hs|Hs].
      + apply in_map_iff in Hs. destruct Hs as (q & E & Hq). subst s. rewrite vsum_cons.
        specialize (IH q Hq). lia.
      + specialize (IH s Hs). lia.
  Qed.

  (** ---- monotonicity of the fraction comparisons ---- *)
  Lemma above_mono s s' ub : 0 < snd ub -> s <= s' -> above s ub = true -> above s' ub = true.
  Proof. unfold above. intros Hd Hs H. apply Z.ltb_lt in H. apply Z.ltb_lt. nia. Qed.

  Lemma below_mono s s' lb : 0 < snd lb -> s' <= s -> below s lb = true -> below s' lb = true.
  Proof. unfold below. intros Hd Hs H. apply Z.ltb_lt in H. apply Z.ltb_lt. nia. Qed.

  Lemma inex_dfs_unfold lb ub rest cur :
    inex_dfs valueof lb ub rest cur =
    if above (vsum valueof cur) ub || below (vsum valueof cur + vsum valueof rest) lb then []
    else match rest with
         | [] => [cur]
         | x :: r => inex_dfs valueof lb ub r (cur ++ [x]) ++ inex_dfs valueof lb ub r cur
         end.
  Proof. destruct rest; reflexivity. Qed.

  (** the pruning test is sound: nothing below a pruned node lies in the window *)
  Lemma pruned_empty lb ub rest cur :
    0 < snd lb -> 0 < snd ub -> Forall (fun x => 0 <= valueof x) rest ->
    above (vsum valueof cur) ub || below (vsum valueof cur + vsum valueof rest) lb = true ->
    filter (in_window lb ub) (map (app cur) (sublists rest)) = [].
  Proof.
    intros Hlb Hub Hnn Hp. apply filter_all_false. intros c Hc.
    apply in_map_iff in Hc. destruct Hc as (s & E & Hs). subst c.
    pose proof (sublists_vsum_bounds rest s Hnn Hs) as Hb.
    unfold in_window. rewrite vsum_app.
    apply orb_true_iff in Hp. destruct Hp as [Hp|Hp].
    - assert (Ha : above (vsum valueof cur + vsum valueof s) ub = true).
      { apply (above_mono (vsum valueof cur)); [exact Hub|lia|exact Hp]. }
      rewrite Ha. reflexivity.
    - assert (Hbl : below (vsum valueof cur + vsum valueof s) lb = true).
      { apply (below_mono (vsum valueof cur + vsum valueof rest)); [exact Hlb|lia|exact Hp]. }
      rewrite Hbl. apply andb_false_r.
  Qed.

  Lemma inex_dfs_complete lb ub rest :
    0 < snd lb -> 0 < snd ub -> Forall (fun x => 0 <= valueof x) rest ->
    forall cur,
      inex_dfs valueof lb ub rest cur =
      filter (in_window lb ub) (map (app cur) (sublists rest)).
  Proof.
    intros Hlb Hub Hnn. induction Hnn as [|x r Hx Hr IH]; intros cur; rewrite inex_dfs_unfold.
    - destruct (above (vsum valueof cur) ub || below (vsum valueof cur + vsum valueof []) lb) eqn:Ep.
      + symmetry. apply pruned_empty; auto.
      + cbn [sublists map filter]. rewrite app_nil_r. unfold in_window.
        rewrite vsum_nil, Z.add_0_r in Ep. apply orb_false_iff in Ep. destruct Ep as [E1 E2].
        rewrite E1, E2. reflexivity.
    - destruct (above (vsum valueof cur) ub || below (vsum valueof cur + vsum valueof (x :: r)) lb) eqn:Ep.
      + symmetry. apply pruned_empty; auto.
      + rewrite !IH. cbn [sublists]. rewrite map_app, filter_app, map_map. f_equal.
        f_equal. apply map_ext. intros s. rewrite <- app_assoc. reflexivity.
  Qed.

  Lemma Forall_sort_desc (P : A -> Prop) items : Forall P items -> Forall P (sort_desc valueof items).
  Proof. intros H. eapply Permutation_Forall; [symmetry; apply sort_desc_perm|exact H]. Qed.

  (** C13 (inclusion/exclusion tree): complete, duplicate-free, nothing else, DFS order.
      Needs positive denominators (the model's convention for bounds) and non-negative
      values (without which the pruning is unsound, see [inex_negative_value_counterexample]). *)
  Theorem inex_complete lb ub items :
    0 < snd lb -> 0 < snd ub -> Forall (fun x => 0 <= valueof x) items ->
    generate_tree valueof lb ub items =
    filter (in_window lb ub) (sublists (sort_desc valueof items)).
  Proof.
    intros Hlb Hub Hnn. unfold generate_tree.
    rewrite inex_dfs_complete; auto using Forall_sort_desc.
    f_equal. cbn [app]. apply map_id.
  Qed.

  (** position form: the output is the image under [select] of the duplicate-free list of
      those masks (one per sub-collection by position) whose selection lies in the window *)
  Corollary inex_complete_masks lb ub items :
    0 < snd lb -> 0 < snd ub -> Forall (fun x => 0 <= valueof x) items ->
    let sorted := sort_desc valueof items in
    let good := filter (fun m => in_window lb ub (select m sorted)) (all_masks (length items)) in
    generate_tree valueof lb ub items = map (fun m => select m sorted) good /\
    NoDup good /\
    (forall m, In m good <-> length m = length items /\ in_window lb ub (select m sorted) = true).
  Proof.
    intros Hlb Hub Hnn sorted good. split; [|split].
    - rewrite inex_complete by auto. fold sorted. rewrite sublists_masks, filter_map_comm.
      unfold sorted at 3. rewrite sort_desc_length. reflexivity.
    - apply NoDup_filter. apply all_masks_nodup.
    - intros m. unfold good. rewrite filter_In, all_masks_spec. reflexivity.
  Qed.

  (** membership form: what is yielded is exactly the in-window positional sublists *)
  Corollary inex_complete_In lb ub items c :
    0 < snd lb -> 0 < snd ub -> Forall (fun x => 0 <= valueof x) items ->
    (In c (generate_tree valueof lb ub items) <->
     (exists mask, length mask = length items /\ c = select mask (sort_desc valueof items)) /\
     in_window lb ub c = true).
  Proof.
    intros Hlb Hub Hnn. rewrite inex_complete by auto. rewrite filter_In, sublists_spec.
    rewrite sort_desc_length. reflexivity.
  Qed.
End InExComplete.

(** non-vacuity: the Python doctest of generate_tree *)
Example inex_doctest :
  map (map (fun v : Z => v)) (generate_tree (fun v => v) (7, 1) (10, 1) [4; 5; 6; 7; 8])
  = [[8]; [7]; [6; 4]; [5; 4]].
Proof. vm_compute. reflexivity. Qed.

(** the non-negativity hypothesis of [inex_complete] is necessary: with a negative value
    the upper-bound pruning discards [5; -3] (total 2, inside [0, 4]) at the node [5], and the
    lower-bound pruning discards [] (total 0) at the node where only -3 remains. *)
Example inex_negative_value_counterexample :
  generate_tree (fun v : Z => v) (0, 1) (4, 1) [5; -3] = [] /\
  filter (in_window (fun v : Z => v) (0, 1) (4, 1)) (sublists (sort_desc (fun v : Z => v) [5; -3]))
  = [[5; -3]; []].
Proof. vm_compute. split; reflexivity. Qed.

(** =================================================================== *)
(** Part B: permutations and bin combinations                            *)
(** =================================================================== *)

(** ---- remove_nat ---- *)
Lemma remove_nat_perm x l : In x l -> Permutation l (x :: remove_nat x l).
Proof.
  induction l as [|y t IH]; intros H; [destruct H|]. cbn [remove_nat].
  destruct (Nat.eqb x y) eqn:E.
  - apply Nat.eqb_eq in E. subst. reflexivity.
  - apply Nat.eqb_neq in E. destruct H as [H|H]; [congruence|].
    rewrite perm_swap. apply perm_skip. apply IH. exact H.
Qed.

Lemma remove_nat_length x l : In x l -> S (length (remove_nat x l)) = length l.
Proof.
  intros H. apply remove_nat_perm in H. apply Permutation_length in H. cbn [length] in H. lia.
Qed.

Lemma remove_nat_nodup x l : In x l -> NoDup l -> NoDup (remove_nat x l).
Proof.
  intros H Hn. apply remove_nat_perm in H.
  apply (Permutation_NoDup H) in Hn. inversion Hn; assumption.
Qed.

(** ---- perms_fuel ---- *)
Lemma perms_fuel_unfold f l :
  perms_fuel (S f) l =
  match l with
  | [] => [[]]
  | _ => flat_map (fun x => map (cons x) (perms_fuel f (remove_nat x l))) l
  end.
Proof. reflexivity. Qed.

Lemma perms_fuel_In f : forall l p, length l = f -> (In p (perms_fuel f l) <-> Permutation p l).
Proof.
  induction f as [|f IH]; intros l p Hl.
  - destruct l; [|discriminate]. cbn [perms_fuel]. split.
    + intros [H|[]]. subst. constructor.
    + intros H. apply Permutation_sym, Permutation_nil in H. left. symmetry. exact H.
  - rewrite perms_fuel_unfold. destruct l as [|y t] eqn:El; [discriminate|]. rewrite <- El in *.
    assert (Hne : l <> []) by (subst; discriminate). clear El.
    rewrite in_flat_map. split.
    + intros (x & Hx & Hp). apply in_map_iff in Hp. destruct Hp as (q & E & Hq). subst p.
      apply IH in Hq; [|pose proof (remove_nat_length x l Hx); lia].
      rewrite (remove_nat_perm x l Hx). apply perm_skip. exact Hq.
    + intros HP. destruct p as [|x q].
      { apply Permutation_nil in HP. contradiction. }
      assert (Hx : In x l) by (eapply Permutation_in; [exact HP|left; reflexivity]).
      exists x. split; [exact Hx|]. apply in_map. apply IH.
      * pose proof (remove_nat_length x l Hx). lia.
      * apply (Permutation_cons_inv (a := x)). rewrite HP. apply remove_nat_perm. exact Hx.
Qed.

Lemma NoDup_flat_map_heads (g : nat -> list (list nat)) (l : list nat) :
  NoDup l -> (forall x, In x l -> NoDup (g x)) ->
  NoDup (flat_map (fun x => map (cons x) (g x)) l).
Proof.
  induction 1 as [|x t Hx Ht IH]; intros Hg; cbn [flat_map]; [constructor|].
  apply NoDup_app_intro.
  - apply NoDup_map_cons. apply Hg. left. reflexivity.
  - apply IH. intros y Hy. apply Hg. right. exact Hy.
  - intros p H1 H2. apply in_map_iff in H1. destruct H1 as (q & E & _). subst p.
    apply in_flat_map in H2. destruct H2 as (y & Hy & H2).
    apply in_map_iff in H2. destruct H2 as (q' & E & _). inversion E; subst. exact (Hx Hy).
Qed.

Lemma perms_fuel_nodup f : forall l, length l = f -> NoDup l -> NoDup (perms_fuel f l).
Proof.
  induction f as [|f IH]; intros l Hl Hn.
  - cbn [perms_fuel]. constructor; [intros []|constructor].
  - rewrite perms_fuel_unfold. destruct l as [|y t] eqn:El; [discriminate|]. rewrite <- El in *. clear El.
    apply (NoDup_flat_map_heads (fun x => perms_fuel f (remove_nat x l))); [exact Hn|].
    intros x Hx. apply IH.
    + pose proof (remove_nat_length x l Hx). lia.
    + apply remove_nat_nodup; assumption.
Qed.

(** ---- range ---- *)
Lemma range_from_length i n : length (range_from i n) = n.
Proof. revert i; induction n as [|n IH]; intros i; cbn [range_from length]; [reflexivity|]. rewrite IH. reflexivity. Qed.

Lemma range_from_In i n x : In x (range_from i n) <-> (i <= x < i + n)%nat.
Proof.
  revert i; induction n as [|n IH]; intros i; cbn [range_from In].
  - lia.
  - rewrite IH. lia.
Qed.

Lemma range_from_nodup i n : NoDup (range_from i n).
Proof.
  revert i; induction n as [|n IH]; intros i; cbn [range_from]; constructor; [|apply IH].
  rewrite range_from_In. lia.
Qed.

Lemma range_length n : length (range n) = n.
Proof. apply range_from_length. Qed.

Lemma range_nodup n : NoDup (range n).
Proof. apply range_from_nodup. Qed.

(** itertools.permutations(range(n)) lists exactly the permutations of range n ... *)
Theorem perms_spec n p : In p (perms n) <-> Permutation p (range n).
Proof. unfold perms. apply perms_fuel_In. apply range_length. Qed.

(** ... each exactly once *)
Theorem perms_nodup n : NoDup (perms n).
Proof. unfold perms. apply perms_fuel_nodup; [apply range_length|apply range_nodup]. Qed.

Lemma perms_fuel_length f : forall l, length l = f -> length (perms_fuel f l) = fact f.
Proof.
  induction f as [|f IH]; intros l Hl; [reflexivity|].
  rewrite perms_fuel_unfold. destruct l as [|y t] eqn:El; [discriminate|]. rewrite <- El in *. clear El.
  assert (H : forall l', (forall x, In x l' -> In x l) ->
            length (flat_map (fun x => map (cons x) (perms_fuel f (remove_nat x l))) l') = (length l' * fact f)%nat).
  { induction l' as [|x t' IH']; intros Hsub; cbn [flat_map length]; [reflexivity|].
    rewrite app_length, map_length, IH'.
    - rewrite IH; [lia|]. pose proof (remove_nat_length x l (Hsub x (or_introl eq_refl))). lia.
    - intros z Hz. apply Hsub. right. exact Hz. }
  rewrite H by auto. rewrite Hl. reflexivity.
Qed.

Theorem perms_length n : length (perms n) = fact n.
Proof. unfold perms. apply perms_fuel_length, range_length. Qed.

(** ---- decidable equality on keys ---- *)
Lemma list_eqb_eq {T} (eqb : T -> T -> bool) :
  (forall x y, eqb x y = true <-> x = y) ->
  forall l1 l2, list_eqb eqb l1 l2 = true <-> l1 = l2.
Proof.
  intros He. induction l1 as [|x t IH]; intros [|y t2]; cbn [list_eqb]; split; intros H;
    try reflexivity; try discriminate.
  - apply andb_true_iff in H. destruct H as [H1 H2]. apply He in H1. apply IH in H2. subst. reflexivity.
  - inversion H; subst. apply andb_true_iff. split; [apply He|apply IH]; reflexivity.
Qed.

Lemma key_eqb_eq k1 k2 : key_eqb k1 k2 = true <-> k1 = k2.
Proof. unfold key_eqb. apply list_eqb_eq. apply list_eqb_eq. apply Z.eqb_eq. Qed.

Lemma existsb_key_In k seen : existsb (key_eqb k) seen = true <-> In k seen.
Proof.
  rewrite existsb_exists. split.
  - intros (k' & Hk & E). apply key_eqb_eq in E. subst. exact Hk.
  - intros H. exists k. split; [exact H|apply key_eqb_eq; reflexivity].
Qed.

Section Combos.
  Context {A : Type} (valueof nameof : A -> Z).
  Variable keep : bool.

  Notation ckey := (combo_key nameof keep).
  Notation dedup := (dedup_combos nameof keep).

  Lemma dedup_unfold seen b t :
    dedup seen (b :: t) =
    if existsb (key_eqb (ckey b)) seen then dedup seen t else b :: dedup (ckey b :: seen) t.
  Proof. reflexivity. Qed.

  (** dedup yields a sub-collection of its input *)
  Lemma dedup_sound l : forall seen c, In c (dedup seen l) -> In c l.
  Proof.
    induction l as [|b t IH]; intros seen c H; [destruct H|].
    rewrite dedup_unfold in H. destruct (existsb (key_eqb (ckey b)) seen).
    - right. eapply IH. exact H.
    - destruct H as [H|H]; [left; exact H|right; eapply IH; exact H].
  Qed.

  (** no yielded key was already seen *)
  Lemma dedup_fresh l : forall seen c, In c (dedup seen l) -> ~ In (ckey c) seen.
  Proof.
    induction l as [|b t IH]; intros seen c H; [destruct H|].
    rewrite dedup_unfold in H. destruct (existsb (key_eqb (ckey b)) seen) eqn:E.
    - eapply IH. exact H.
    - destruct H as [H|H].
      + subst c. intros Hin. apply existsb_key_In in Hin. congruence.
      + apply IH in H. intros Hin. apply H. right. exact Hin.
  Qed.

  (** every input key is either already seen or represented in the output *)
  Lemma dedup_complete l : forall seen c, In c l ->
    In (ckey c) seen \/ exists c', In c' (dedup seen l) /\ ckey c' = ckey c.
  Proof.
    induction l as [|b t IH]; intros seen c H; [destruct H|].
    rewrite dedup_unfold. destruct (existsb (key_eqb (ckey b)) seen) eqn:E.
    - destruct H as [H|H].
      + subst c. left. apply existsb_key_In. exact E.
      + apply IH. exact H.
    - destruct H as [H|H].
      + subst c. right. exists b. split; [left; reflexivity|reflexivity].
      + destruct (IH (ckey b :: seen) c H) as [[Hk|Hk]|(c' & Hc' & Ek)].
        * right. exists b. split; [left; reflexivity|exact Hk].
        * left. exact Hk.
        * right. exists c'. split; [right; exact Hc'|exact Ek].
  Qed.

  Lemma dedup_nodup l : forall seen, NoDup (map ckey (dedup seen l)).
  Proof.
    induction l as [|b t IH]; intros seen; [constructor|].
    rewrite dedup_unfold. destruct (existsb (key_eqb (ckey b)) seen).
    - apply IH.
    - cbn [map]. constructor; [|apply IH].
      intros Hin. apply in_map_iff in Hin. destruct Hin as (c & Ek & Hc).
      apply dedup_fresh in Hc. apply Hc. left. symmetry. exact Ek.
  Qed.

  (** the first representative of each key is the one kept: the output is the input with
      every element whose key occurred earlier (or in [seen]) removed *)
  Lemma dedup_first l : forall seen pre c post, l = pre ++ c :: post ->
    ~ In (ckey c) seen -> ~ In (ckey c) (map ckey pre) -> In c (dedup seen l).
  Proof.
    induction l as [|b t IH]; intros seen pre c post El Hs Hp.
    - destruct pre; discriminate.
    - rewrite dedup_unfold. destruct pre as [|b' pre'].
      + cbn [app] in El. inversion El; subst.
        destruct (existsb (key_eqb (ckey c)) seen) eqn:E.
        * apply existsb_key_In in E. contradiction.
        * left. reflexivity.
      + cbn [app] in El. inversion El; subst. cbn [map] in Hp.
        destruct (existsb (key_eqb (ckey b')) seen).
        * eapply IH; [reflexivity|exact Hs|]. intros H. apply Hp. right. exact H.
        * right. eapply IH; [reflexivity| |].
          -- intros [H|H]; [apply Hp; left; exact H|exact (Hs H)].
          -- intros H. apply Hp. right. exact H.
  Qed.

  (** ---- all_combinations ---- *)

  (** soundness: every yielded combination comes from a permutation of the bin indices *)
  Theorem all_combinations_sound b1 b2 c :
    In c (all_combinations nameof keep b1 b2) ->
    exists p, Permutation p (range (length b1)) /\ c = combo_of_perm nameof keep b1 b2 p.
  Proof.
    unfold all_combinations. intros H. apply dedup_sound in H.
    apply in_map_iff in H. destruct H as (p & E & Hp). exists p. split.
    - apply perms_spec. exact Hp.
    - symmetry. exact E.
  Qed.

  (** completeness: every pairing is represented (no length hypothesis needed) *)
  Theorem all_combinations_complete_gen b1 b2 p :
    Permutation p (range (length b1)) ->
    exists c, In c (all_combinations nameof keep b1 b2) /\
              ckey c = ckey (combo_of_perm nameof keep b1 b2 p).
  Proof.
    intros Hp. unfold all_combinations.
    destruct (dedup_complete (map (combo_of_perm nameof keep b1 b2) (perms (length b1))) []
                (combo_of_perm nameof keep b1 b2 p)) as [[]|H].
    - apply in_map. apply perms_spec. exact Hp.
    - exact H.
  Qed.

  (** the statement as requested *)
  Theorem all_combinations_complete b1 b2 :
    length b1 = length b2 ->
    forall p, Permutation p (range (length b1)) ->
    exists c, In c (all_combinations nameof keep b1 b2) /\
              combo_key nameof keep c = combo_key nameof keep (combo_of_perm nameof keep b1 b2 p).
  Proof. intros _ p Hp. apply all_combinations_complete_gen. exact Hp. Qed.

  (** duplicate-freeness: no two yielded combinations share a canonical key *)
  Theorem all_combinations_nodup b1 b2 :
    NoDup (map (combo_key nameof keep) (all_combinations nameof keep b1 b2)).
  Proof. unfold all_combinations. apply dedup_nodup. Qed.

  (** hence the yielded combinations themselves are pairwise distinct *)
  Corollary all_combinations_nodup_bins b1 b2 : NoDup (all_combinations nameof keep b1 b2).
  Proof. eapply NoDup_map_inv. apply all_combinations_nodup. Qed.

  (** combined: the keys yielded are exactly the keys of the pairings *)
  Corollary all_combinations_keys b1 b2 k :
    In k (map ckey (all_combinations nameof keep b1 b2)) <->
    exists p, Permutation p (range (length b1)) /\ k = ckey (combo_of_perm nameof keep b1 b2 p).
  Proof.
    rewrite in_map_iff. split.
    - intros (c & Ek & Hc). apply all_combinations_sound in Hc. destruct Hc as (p & Hp & Ec).
      exists p. split; [exact Hp|]. subst. reflexivity.
    - intros (p & Hp & Ek). destruct (all_combinations_complete_gen b1 b2 p Hp) as (c & Hc & E).
      exists c. split; [congruence|exact Hc].
  Qed.

  (** ---- ckk_children: the combinations de-duplicated once more by their sums ---- *)
  Lemma existsb_sums_In (k : list Z) seen : existsb (list_eqb Z.eqb k) seen = true <-> In k seen.
  Proof.
    rewrite existsb_exists. split.
    - intros (k' & Hk & E). apply (list_eqb_eq Z.eqb Z.eqb_eq) in E. subst. exact Hk.
    - intros H. exists k. split; [exact H|apply (list_eqb_eq Z.eqb Z.eqb_eq); reflexivity].
  Qed.

  Lemma dedup_sums_unfold seen (b : bins A) t :
    dedup_sums seen (b :: t) =
    if existsb (list_eqb Z.eqb (sums b)) seen then dedup_sums seen t
    else b :: dedup_sums (sums b :: seen) t.
  Proof. reflexivity. Qed.

  Lemma dedup_sums_sound (l : list (bins A)) : forall seen c, In c (dedup_sums seen l) -> In c l.
  Proof.
    induction l as [|b t IH]; intros seen c H; [destruct H|].
    rewrite dedup_sums_unfold in H. destruct (existsb (list_eqb Z.eqb (sums b)) seen).
    - right. eapply IH. exact H.
    - destruct H as [H|H]; [left; exact H|right; eapply IH; exact H].
  Qed.

  Lemma dedup_sums_fresh (l : list (bins A)) : forall seen c,
    In c (dedup_sums seen l) -> ~ In (sums c) seen.
  Proof.
    induction l as [|b t IH]; intros seen c H; [destruct H|].
    rewrite dedup_sums_unfold in H. destruct (existsb (list_eqb Z.eqb (sums b)) seen) eqn:E.
    - eapply IH. exact H.
    - destruct H as [H|H].
      + subst c. intros Hin. apply existsb_sums_In in Hin. congruence.
      + apply IH in H. intros Hin. apply H. right. exact Hin.
  Qed.

  Lemma dedup_sums_complete (l : list (bins A)) : forall seen c, In c l ->
    In (sums c) seen \/ exists c', In c' (dedup_sums seen l) /\ sums c' = sums c.
  Proof.
    induction l as [|b t IH]; intros seen c H; [destruct H|].
    rewrite dedup_sums_unfold. destruct (existsb (list_eqb Z.eqb (sums b)) seen) eqn:E.
    - destruct H as [H|H].
      + subst c. left. apply existsb_sums_In. exact E.
      + apply IH. exact H.
    - destruct H as [H|H].
      + subst c. right. exists b. split; [left; reflexivity|reflexivity].
      + destruct (IH (sums b :: seen) c H) as [[Hk|Hk]|(c' & Hc' & Ek)].
        * right. exists b. split; [left; reflexivity|exact Hk].
        * left. exact Hk.
        * right. exists c'. split; [right; exact Hc'|exact Ek].
  Qed.

  Lemma dedup_sums_nodup (l : list (bins A)) : forall seen, NoDup (map sums (dedup_sums seen l)).
  Proof.
    induction l as [|b t IH]; intros seen; [constructor|].
    rewrite dedup_sums_unfold. destruct (existsb (list_eqb Z.eqb (sums b)) seen).
    - apply IH.
    - cbn [map]. constructor; [|apply IH].
      intros Hin. apply in_map_iff in Hin. destruct Hin as (c & Ek & Hc).
      apply dedup_sums_fresh in Hc. apply Hc. left. symmetry. exact Ek.
  Qed.

  (** the children of a CKK node are combinations ... *)
  Theorem ckk_children_sound b1 b2 c :
    In c (ckk_children nameof keep b1 b2) -> In c (all_combinations nameof keep b1 b2).
  Proof. unfold ckk_children. apply dedup_sums_sound. Qed.

  (** ... every combination is represented, up to its sums ... *)
  Theorem ckk_children_complete b1 b2 c :
    In c (all_combinations nameof keep b1 b2) ->
    exists c', In c' (ckk_children nameof keep b1 b2) /\ sums c' = sums c.
  Proof.
    intros H. unfold ckk_children.
    destruct (dedup_sums_complete _ [] c H) as [[]|H']. exact H'.
  Qed.

  (** ... and no two children have the same sums *)
  Theorem ckk_children_nodup b1 b2 : NoDup (map sums (ckk_children nameof keep b1 b2)).
  Proof. unfold ckk_children. apply dedup_sums_nodup. Qed.

  Lemma ckk_children_nonempty b1 b2 :
    all_combinations nameof keep b1 b2 <> [] -> ckk_children nameof keep b1 b2 <> [].
  Proof.
    unfold ckk_children. destruct (all_combinations nameof keep b1 b2) as [|c t]; [congruence|].
    intros _. rewrite dedup_sums_unfold. cbn [existsb]. discriminate.
  Qed.
End Combos.

(** non-vacuity: the two Python doctests of all_combinations *)
Example all_combinations_sums_doctest :
  map (@sums Z)
      (all_combinations (fun v : Z => v) false [(1, []); (2, []); (3, [])] [(4, []); (5, []); (6, [])])
  = [[5; 7; 9]; [5; 8; 8]; [6; 6; 9]; [6; 7; 8]; [7; 7; 7]].
Proof. vm_compute. reflexivity. Qed.

Example all_combinations_sums_doctest2 :
  map (@sums Z)
      (all_combinations (fun v : Z => v) false [(1, []); (20, []); (300, [])] [(4, []); (50, []); (600, [])])
  = [[5; 70; 900]; [5; 350; 620]; [24; 51; 900]; [24; 350; 601]; [51; 304; 620]; [70; 304; 601]].
Proof. vm_compute. reflexivity. Qed.

Example all_combinations_contents_doctest :
  map (@lists Z)
      (all_combinations (fun v : Z => v) true
         [(1, [1]); (20, [20]); (300, [300])] [(4, [1; 3]); (50, [4; 46]); (600, [600])])
  = [ [[1; 1; 3]; [4; 20; 46]; [300; 600]];
      [[1; 1; 3]; [4; 46; 300]; [20; 600]];
      [[1; 3; 20]; [1; 4; 46]; [300; 600]];
      [[1; 3; 20]; [4; 46; 300]; [1; 600]];
      [[1; 4; 46]; [1; 3; 300]; [20; 600]];
      [[4; 20; 46]; [1; 3; 300]; [1; 600]] ].
Proof. vm_compute. reflexivity. Qed.

Print Assumptions inex_complete.
Print Assumptions inex_complete_In.
Print Assumptions inex_complete_masks.
Print Assumptions sublists_spec.
Print Assumptions sublists_length.
Print Assumptions sublists_masks.
Print Assumptions all_masks_nodup.
Print Assumptions perms_spec.
Print Assumptions perms_nodup.
Print Assumptions perms_length.
Print Assumptions key_eqb_eq.
Print Assumptions all_combinations_sound.
Print Assumptions all_combinations_complete.
Print Assumptions all_combinations_complete_gen.
Print Assumptions all_combinations_nodup.
Print Assumptions all_combinations_nodup_bins.
Print Assumptions all_combinations_keys.
Print Assumptions ckk_children_sound.
Print Assumptions ckk_children_complete.
Print Assumptions ckk_children_nodup.
