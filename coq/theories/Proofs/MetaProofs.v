(** Property C18: results respect problem symmetries.
    Part 1: reordering the input never changes the result of an algorithm that sorts its input.
    Part 2: multiplying all values (and the bin size) by c > 0 multiplies all returned sums by c.
    Part 3: symmetries of the optimum (specification level).
    Part 4: corollaries for exact algorithms.
    Plain values: A = Z, valueof = id (the standard library identity [@id Z], i.e. [fun v : Z => v]),
    keep = true. *)
From Prtpy Require Import Base.Prelude Model.Binner Model.Objectives Model.Greedy Model.Packing
  Model.Covering Model.KK Model.DP Spec.Partition Proofs.BaseLemmas Proofs.BinnerLemmas
  Model.CBLDM Proofs.ObjectivesProofs Proofs.RatioProofs Proofs.DPProofs Proofs.CBLDMProofs.
From Coq Require Import Sorting.Sorted ZifyBool.

(** ================================================================== *)
(** * PART 1: permutation invariance of the sorting algorithms          *)
(** ================================================================== *)

(** two permutations of each other, both sorted by a key that is injective, are equal *)
Lemma key_sorted_perm_eq {T} (key : T -> Z) :
  (forall x y, key x = key y -> x = y) ->
  forall l1 l2, key_sorted key l1 -> key_sorted key l2 -> Permutation l1 l2 -> l1 = l2.
Proof.
  intros Hinj. unfold key_sorted. induction l1 as [|x t1 IH]; intros l2 S1 S2 P.
  - apply Permutation_nil in P. symmetry. exact P.
  - destruct l2 as [|y t2]; [apply Permutation_sym, Permutation_nil in P; discriminate P|].
    apply StronglySorted_inv in S1. destruct S1 as [S1 F1].
    apply StronglySorted_inv in S2. destruct S2 as [S2 F2].
    rewrite Forall_forall in F1, F2.
    assert (Hxy : x = y).
    { assert (I1 : In x (y :: t2)) by (eapply Permutation_in; [exact P|left; reflexivity]).
      assert (I2 : In y (x :: t1)) by (eapply Permutation_in; [symmetry; exact P|left; reflexivity]).
      destruct I1 as [I1|I1]; [symmetry; exact I1|]. destruct I2 as [I2|I2]; [exact I2|].
      apply F2 in I1. apply F1 in I2. apply Hinj. lia. }
    subst y. f_equal. apply IH; [exact S1|exact S2|]. eapply Permutation_cons_inv. exact P.
Qed.

Lemma sort_asc_perm_eq_inj {T} (key : T -> Z) :
  (forall x y, key x = key y -> x = y) ->
  forall l1 l2, Permutation l1 l2 -> sort_asc key l1 = sort_asc key l2.
Proof.
  intros Hinj l1 l2 P. apply (key_sorted_perm_eq key Hinj); try apply sort_asc_sorted.
  rewrite (sort_asc_perm key l1), (sort_asc_perm key l2). exact P.
Qed.

Lemma sort_desc_perm_eq (l1 l2 : list Z) :
  Permutation l1 l2 -> sort_desc id l1 = sort_desc id l2.
Proof.
  intros P. unfold sort_desc. apply sort_asc_perm_eq_inj; [|exact P].
  intros x y H. unfold id in H. lia.
Qed.

Theorem greedy_perm k vs1 vs2 : Permutation vs1 vs2 -> greedy id true k vs1 = greedy id true k vs2.
Proof. intros P. unfold greedy. rewrite (sort_desc_perm_eq vs1 vs2 P). reflexivity. Qed.

Theorem roundrobin_perm k vs1 vs2 : Permutation vs1 vs2 -> roundrobin id true k vs1 = roundrobin id true k vs2.
Proof. intros P. unfold roundrobin. rewrite (sort_desc_perm_eq vs1 vs2 P). reflexivity. Qed.

Theorem first_fit_decreasing_perm C vs1 vs2 : Permutation vs1 vs2 ->
  first_fit_decreasing id true C vs1 = first_fit_decreasing id true C vs2.
Proof. intros P. unfold first_fit_decreasing. rewrite (sort_desc_perm_eq vs1 vs2 P). reflexivity. Qed.

Theorem best_fit_decreasing_perm C vs1 vs2 : Permutation vs1 vs2 ->
  best_fit_decreasing id true C vs1 = best_fit_decreasing id true C vs2.
Proof. intros P. unfold best_fit_decreasing. rewrite (sort_desc_perm_eq vs1 vs2 P). reflexivity. Qed.

Theorem cover_decreasing_perm C vs1 vs2 : Permutation vs1 vs2 ->
  cover_decreasing id true C vs1 = cover_decreasing id true C vs2.
Proof. intros P. unfold cover_decreasing. rewrite (sort_desc_perm_eq vs1 vs2 P). reflexivity. Qed.

Theorem cover_twothirds_perm C vs1 vs2 : Permutation vs1 vs2 ->
  cover_twothirds id true C vs1 = cover_twothirds id true C vs2.
Proof.
  intros P. unfold cover_twothirds.
  rewrite (sort_desc_perm_eq vs1 vs2 P), (Permutation_length P). reflexivity.
Qed.

Theorem cover_threequarters_perm C vs1 vs2 : Permutation vs1 vs2 ->
  cover_threequarters id true C vs1 = cover_threequarters id true C vs2.
Proof.
  intros P. unfold cover_threequarters.
  rewrite (sort_desc_perm_eq vs1 vs2 P), (Permutation_length P). reflexivity.
Qed.

Theorem kk_perm k vs1 vs2 : Permutation vs1 vs2 -> kk id true k vs1 = kk id true k vs2.
Proof.
  intros P. unfold kk, initial_heap.
  rewrite (sort_desc_perm_eq vs1 vs2 P), (Permutation_length P). reflexivity.
Qed.

(** the unsorted packers do depend on the order (so no [first_fit_perm] / [best_fit_perm]) *)
Example first_fit_not_perm_invariant :
  first_fit id true 10 [5; 6; 4] = Ok [(9, [5; 4]); (6, [6])] /\
  first_fit id true 10 [6; 4; 5] = Ok [(10, [6; 4]); (5, [5])] /\
  best_fit id true 10 [5; 6; 4] = Ok [(5, [5]); (10, [6; 4])] /\
  best_fit id true 10 [5; 4; 6] = Ok [(9, [5; 4]); (6, [6])].
Proof. vm_compute. repeat split. Qed.

(** ================================================================== *)
(** * Shared helpers: multiplication by a positive constant             *)
(** ================================================================== *)

Lemma leb_scale c a b : 0 < c -> (c * a <=? c * b) = (a <=? b).
Proof.
  intros Hc. destruct (Z.leb_spec a b) as [H|H]; destruct (Z.leb_spec (c * a) (c * b)) as [H'|H'];
    try reflexivity; nia.
Qed.

Lemma ltb_scale c a b : 0 < c -> (c * a <? c * b) = (a <? b).
Proof.
  intros Hc. destruct (Z.ltb_spec a b) as [H|H]; destruct (Z.ltb_spec (c * a) (c * b)) as [H'|H'];
    try reflexivity; nia.
Qed.

Lemma geb_scale c a b : 0 < c -> (c * a >=? c * b) = (a >=? b).
Proof. intros Hc. rewrite !Z.geb_leb. apply leb_scale; exact Hc. Qed.

Lemma gtb_scale c a b : 0 < c -> (c * a >? c * b) = (a >? b).
Proof. intros Hc. rewrite !Z.gtb_ltb. apply ltb_scale; exact Hc. Qed.

Lemma zsum_scale c l : zsum (map (Z.mul c) l) = c * zsum l.
Proof. induction l as [|x t IH]; cbn [map zsum fold_right]; [lia|]. fold (zsum (map (Z.mul c) t)). fold (zsum t). rewrite IH. lia. Qed.

Lemma repeat0_scale c n : map (Z.mul c) (repeat 0 n) = repeat 0 n.
Proof. induction n as [|n IH]; cbn [repeat map]; [reflexivity|]. rewrite IH, Z.mul_0_r. reflexivity. Qed.

(** sorting commutes with a map that preserves the order of the keys *)
Lemma insert_asc_map_mono {T U} (g : T -> U) (kT : T -> Z) (kU : U -> Z) x l :
  (forall a b, (kU (g a) <=? kU (g b)) = (kT a <=? kT b)) ->
  map g (insert_asc kT x l) = insert_asc kU (g x) (map g l).
Proof.
  intros H. induction l as [|y t IH]; cbn [insert_asc map]; [reflexivity|].
  rewrite H. destruct (kT x <=? kT y); cbn [map]; [reflexivity|]. rewrite IH. reflexivity.
Qed.

Lemma sort_asc_map_mono {T U} (g : T -> U) (kT : T -> Z) (kU : U -> Z) l :
  (forall a b, (kU (g a) <=? kU (g b)) = (kT a <=? kT b)) ->
  map g (sort_asc kT l) = sort_asc kU (map g l).
Proof.
  intros H. induction l as [|x t IH]; [reflexivity|].
  cbn [map]. unfold sort_asc in *. cbn [fold_right].
  rewrite (insert_asc_map_mono g kT kU x _ H), IH. reflexivity.
Qed.

Lemma sort_asc_scale c l : 0 < c ->
  sort_asc (fun x => x) (map (Z.mul c) l) = map (Z.mul c) (sort_asc (fun x => x) l).
Proof. intros Hc. symmetry. apply sort_asc_map_mono. intros a b. apply leb_scale; exact Hc. Qed.

Lemma sort_desc_scale c l : 0 < c ->
  sort_desc id (map (Z.mul c) l) = map (Z.mul c) (sort_desc id l).
Proof.
  intros Hc. symmetry. unfold sort_desc. apply sort_asc_map_mono. intros a b. unfold id.
  rewrite <- !Z.mul_opp_r. apply leb_scale; exact Hc.
Qed.

Lemma zmin_list_scale c d l : 0 < c -> zmin_list (c * d) (map (Z.mul c) l) = c * zmin_list d l.
Proof.
  intros Hc. revert d. induction l as [|x t IH]; intros d; cbn [map zmin_list]; [reflexivity|].
  rewrite Z.mul_min_distr_nonneg_l by lia. apply IH.
Qed.

Lemma zmax_list_scale c d l : 0 < c -> zmax_list (c * d) (map (Z.mul c) l) = c * zmax_list d l.
Proof.
  intros Hc. revert d. induction l as [|x t IH]; intros d; cbn [map zmax_list]; [reflexivity|].
  rewrite Z.mul_max_distr_nonneg_l by lia. apply IH.
Qed.

Lemma zmin_scale c l : 0 < c -> zmin (map (Z.mul c) l) = c * zmin l.
Proof. intros Hc. destruct l as [|x t]; cbn [map zmin]; [lia|]. apply zmin_list_scale; exact Hc. Qed.

Lemma zmax_scale c l : 0 < c -> zmax (map (Z.mul c) l) = c * zmax l.
Proof. intros Hc. destruct l as [|x t]; cbn [map zmax]; [lia|]. apply zmax_list_scale; exact Hc. Qed.

(** ================================================================== *)
(** * PART 3: symmetries of the optimum (specification level)           *)
(** ================================================================== *)

(** ---- the objective value scales ---- *)
Theorem value_scale : forall o c s, 0 < c ->
  value o (map (Z.mul c) s) false = c * value o s false.
Proof.
  intros o c s Hc. destruct o as [| | |k|k]; unfold value.
  - rewrite (zmin_scale c s Hc). lia.
  - apply zmax_scale; exact Hc.
  - rewrite (zmin_scale c s Hc), (zmax_scale c s Hc). lia.
  - rewrite (sort_asc_scale c s Hc), firstn_map, zsum_scale. lia.
  - rewrite (sort_asc_scale c s Hc). unfold py_suffix.
    destruct k as [|k']; [apply zsum_scale|].
    rewrite map_length, skipn_map, zsum_scale. reflexivity.
Qed.

(** ---- Opt is invariant under permutations of the values ---- *)
Lemma Attainable_perm_iff k vs vs' s : Permutation vs vs' -> (Attainable k vs s <-> Attainable k vs' s).
Proof.
  intros P. split; apply Attainable_perm_local; [exact P|symmetry; exact P].
Qed.

Theorem Opt_perm : forall o k vs vs' v, Permutation vs vs' -> Opt o k vs v -> Opt o k vs' v.
Proof.
  intros o k vs vs' v P [(s & Hs & Hv) Hmin]. split.
  - exists s. split; [|exact Hv]. apply (Attainable_perm_local k vs vs' s P Hs).
  - intros s' Hs'. apply Hmin. apply (Attainable_perm_local k vs' vs s'); [symmetry; exact P|exact Hs'].
Qed.

(** ---- Opt scales ---- *)
Lemma loads_from_scale c vs : forall asg s0,
  loads_from (map (Z.mul c) s0) (map (Z.mul c) vs) asg = map (Z.mul c) (loads_from s0 vs asg).
Proof.
  induction vs as [|x t IH]; intros [|i asg] s0; try reflexivity.
  cbn [map]. rewrite !loads_from_cons. rewrite <- IH. f_equal.
  symmetry. apply map_update. intros a. lia.
Qed.

Lemma loads_scale c k vs asg : loads k (map (Z.mul c) vs) asg = map (Z.mul c) (loads k vs asg).
Proof. rewrite !loads_eq. rewrite <- loads_from_scale, repeat0_scale. reflexivity. Qed.

Lemma Attainable_scale c k vs s : Attainable k vs s -> Attainable k (map (Z.mul c) vs) (map (Z.mul c) s).
Proof.
  intros (asg & Hl & Hv & E). exists asg. split; [rewrite map_length; exact Hl|].
  split; [exact Hv|]. rewrite loads_scale, E. reflexivity.
Qed.

Lemma Attainable_scale_inv c k vs s : Attainable k (map (Z.mul c) vs) s ->
  exists s0, Attainable k vs s0 /\ s = map (Z.mul c) s0.
Proof.
  intros (asg & Hl & Hv & E). rewrite map_length in Hl. exists (loads k vs asg). split.
  - exists asg. split; [exact Hl|]. split; [exact Hv|reflexivity].
  - rewrite <- E. apply loads_scale.
Qed.

Theorem Opt_scale : forall o k vs v c, 0 < c -> Opt o k vs v -> Opt o k (map (Z.mul c) vs) (c * v).
Proof.
  intros o k vs v c Hc [(s & Hs & Hv) Hmin]. split.
  - exists (map (Z.mul c) s). split; [apply Attainable_scale; exact Hs|].
    rewrite (value_scale o c s Hc), Hv. reflexivity.
  - intros s' Hs'. destruct (Attainable_scale_inv c k vs s' Hs') as (s0 & H0 & ->).
    rewrite (value_scale o c s0 Hc). apply Z.mul_le_mono_nonneg_l; [lia|]. apply Hmin; exact H0.
Qed.

(** ---- zeros can be added or removed (k >= 1) ---- *)
Lemma update_add0 i (s : list Z) : update i (fun a => a + 0) s = s.
Proof.
  revert i. induction s as [|x t IH]; intros [|j]; cbn [update]; try reflexivity.
  - rewrite Z.add_0_r. reflexivity.
  - rewrite IH. reflexivity.
Qed.

Lemma Attainable_zero_cons k vs s : (1 <= k)%nat -> (Attainable k (0 :: vs) s <-> Attainable k vs s).
Proof.
  intros Hk. split.
  - intros (asg & Hl & Hv & E). destruct asg as [|i asg]; [discriminate Hl|].
    cbn [length] in Hl. inversion Hv as [|i' t' Hi Hv']; subst i' t'.
    exists asg. split; [lia|]. split; [exact Hv'|].
    rewrite loads_eq in E. rewrite loads_from_cons, update_add0 in E. rewrite loads_eq. exact E.
  - intros (asg & Hl & Hv & E). exists (O :: asg). split; [cbn [length]; lia|].
    split; [constructor; [lia|exact Hv]|].
    rewrite loads_eq, loads_from_cons, update_add0, <- loads_eq. exact E.
Qed.

Lemma Attainable_zeros_front k vs s n : (1 <= k)%nat ->
  (Attainable k (repeat 0 n ++ vs) s <-> Attainable k vs s).
Proof.
  intros Hk. induction n as [|n IH]; [reflexivity|].
  cbn [repeat app]. rewrite (Attainable_zero_cons k _ s Hk). exact IH.
Qed.

Lemma Opt_ext o k vs vs' v : (forall s, Attainable k vs s <-> Attainable k vs' s) ->
  Opt o k vs v -> Opt o k vs' v.
Proof.
  intros H [(s & Hs & Hv) Hmin]. split.
  - exists s. split; [apply H; exact Hs|exact Hv].
  - intros s' Hs'. apply Hmin. apply H. exact Hs'.
Qed.

Theorem Opt_zeros : forall o k vs v n, (1 <= k)%nat -> Opt o k vs v -> Opt o k (vs ++ repeat 0 n) v.
Proof.
  intros o k vs v n Hk H. apply (Opt_perm o k (repeat 0 n ++ vs)); [apply Permutation_app_comm|].
  apply (Opt_ext o k vs); [|exact H]. intros s. symmetry. apply Attainable_zeros_front; exact Hk.
Qed.

Theorem Opt_zeros_inv : forall o k vs v n, (1 <= k)%nat -> Opt o k (vs ++ repeat 0 n) v -> Opt o k vs v.
Proof.
  intros o k vs v n Hk H. apply (Opt_ext o k (repeat 0 n ++ vs)); [intros s; apply Attainable_zeros_front; exact Hk|].
  apply (Opt_perm o k (vs ++ repeat 0 n)); [apply Permutation_app_comm|exact H].
Qed.

(** zeros inserted anywhere *)
Theorem Opt_insert_zeros : forall o k vs vs' v n, (1 <= k)%nat ->
  Permutation vs' (vs ++ repeat 0 n) -> (Opt o k vs v <-> Opt o k vs' v).
Proof.
  intros o k vs vs' v n Hk P. split; intros H.
  - apply (Opt_perm o k (vs ++ repeat 0 n)); [symmetry; exact P|]. apply Opt_zeros; assumption.
  - apply (Opt_zeros_inv o k vs v n Hk). apply (Opt_perm o k vs'); [exact P|exact H].
Qed.

(** [1 <= k] is needed: with no bins the empty list has an optimum, a list of zeros has none *)
Example Opt_zeros_needs_a_bin :
  Opt MinLargest 0 [] 0 /\ ~ Opt MinLargest 0 ([] ++ repeat 0 1) 0.
Proof.
  split.
  - split.
    + exists []. split; [apply (Attainable_nil 0)|reflexivity].
    + intros s Hs. apply Attainable_nil_inv in Hs. subst s. cbn. lia.
  - intros [(s & (asg & Hl & Hv & _) & _) _]. destruct asg as [|i asg]; [discriminate Hl|].
    inversion Hv as [|i' t' Hi _]. lia.
Qed.

(** ---- the optimum is unique ---- *)
Theorem Opt_unique : forall o k vs v v', Opt o k vs v -> Opt o k vs v' -> v = v'.
Proof.
  intros o k vs v v' [(s & Hs & Hv) Hmin] [(s' & Hs' & Hv') Hmin'].
  pose proof (Hmin s' Hs') as H1. pose proof (Hmin' s Hs) as H2. lia.
Qed.

(** ================================================================== *)
(** * PART 2: scaling by a positive constant                            *)
(** ================================================================== *)

Definition sbin (c : Z) (bn : bin Z) : bin Z := (c * fst bn, map (Z.mul c) (snd bn)).
Definition scale_bins (c : Z) (b : bins Z) : bins Z := map (sbin c) b.

(** [scale_bins] is literally the map announced in the property statement *)
Lemma scale_bins_eq c b : scale_bins c b = map (fun bn => (c * fst bn, map (Z.mul c) (snd bn))) b.
Proof. reflexivity. Qed.

Lemma sbin_fst c bn : fst (sbin c bn) = c * fst bn.
Proof. reflexivity. Qed.

Lemma sbin_empty c : sbin c (@empty_bin Z) = empty_bin.
Proof. unfold sbin, empty_bin. cbn [fst snd map]. rewrite Z.mul_0_r. reflexivity. Qed.

Lemma add_to_bin_scale c x bn : add_to_bin id true (c * x) (sbin c bn) = sbin c (add_to_bin id true x bn).
Proof.
  unfold add_to_bin, sbin, id. cbn [fst snd]. rewrite map_app. cbn [map]. f_equal. lia.
Qed.

Lemma scale_bins_new c k : scale_bins c (new_bins k) = new_bins k.
Proof.
  unfold scale_bins, new_bins. induction k as [|k IH]; cbn [repeat map]; [reflexivity|].
  rewrite IH, sbin_empty. reflexivity.
Qed.

Lemma scale_bins_sums c b : sums (scale_bins c b) = map (Z.mul c) (sums b).
Proof. unfold sums, scale_bins. rewrite !map_map. reflexivity. Qed.

Lemma scale_bins_length c b : length (scale_bins c b) = length b.
Proof. apply map_length. Qed.

Lemma scale_bins_app c b1 b2 : scale_bins c (b1 ++ b2) = scale_bins c b1 ++ scale_bins c b2.
Proof. apply map_app. Qed.

Lemma add_item_scale c b x i :
  add_item id true (scale_bins c b) (c * x) i = scale_bins c (add_item id true b x i).
Proof.
  unfold add_item, scale_bins. symmetry. apply map_update.
  intros bn. symmetry. apply add_to_bin_scale.
Qed.

(** the sums of the scaled result are the scaled sums: the form used by the property checker *)
Lemma scale_bins_wf c b : wf id b -> wf id (scale_bins c b).
Proof.
  unfold wf, scale_bins. intros H. rewrite Forall_map. eapply Forall_impl; [|exact H].
  intros bn Hb. unfold wf_bin, sbin in *. cbn [fst snd]. rewrite Hb.
  rewrite !map_id. symmetry. apply zsum_scale.
Qed.

Lemma scale_bins_contents c b : contents (scale_bins c b) = map (Z.mul c) (contents b).
Proof.
  unfold contents, lists, scale_bins. rewrite map_map. cbn [sbin snd].
  rewrite concat_map, map_map. reflexivity.
Qed.

(** ---- argmin ---- *)
Lemma argmin_aux_scale c l : 0 < c -> forall i bi bv,
  argmin_aux (map (Z.mul c) l) i bi (c * bv) = argmin_aux l i bi bv.
Proof.
  intros Hc. induction l as [|x t IH]; intros i bi bv; cbn [map argmin_aux]; [reflexivity|].
  rewrite (ltb_scale c x bv Hc). destruct (x <? bv); apply IH.
Qed.

Lemma argmin_scale c l : 0 < c -> argmin (map (Z.mul c) l) = argmin l.
Proof. intros Hc. destruct l as [|x t]; cbn [map argmin]; [reflexivity|]. apply argmin_aux_scale; exact Hc. Qed.

(** ---- greedy ---- *)
Lemma greedy_step_scale c b x : 0 < c ->
  greedy_step id true (scale_bins c b) (c * x) = scale_bins c (greedy_step id true b x).
Proof.
  intros Hc. unfold greedy_step. rewrite scale_bins_sums, (argmin_scale c _ Hc). apply add_item_scale.
Qed.

Lemma greedy_fold_scale c l : 0 < c -> forall b,
  fold_left (greedy_step id true) (map (Z.mul c) l) (scale_bins c b) =
  scale_bins c (fold_left (greedy_step id true) l b).
Proof.
  intros Hc. induction l as [|x t IH]; intros b; cbn [map fold_left]; [reflexivity|].
  rewrite (greedy_step_scale c b x Hc). apply IH.
Qed.

Theorem greedy_scale : forall c k vs, 0 < c ->
  greedy id true k (map (Z.mul c) vs) = scale_bins c (greedy id true k vs).
Proof.
  intros c k vs Hc. unfold greedy. rewrite (sort_desc_scale c vs Hc).
  rewrite <- (greedy_fold_scale c _ Hc), scale_bins_new. reflexivity.
Qed.

(** ---- roundrobin ---- *)
Lemma rr_loop_scale c k l : forall ibin b,
  rr_loop id true k (map (Z.mul c) l) ibin (scale_bins c b) = scale_bins c (rr_loop id true k l ibin b).
Proof.
  induction l as [|x t IH]; intros ibin b; cbn [map rr_loop]; [reflexivity|].
  rewrite add_item_scale. apply IH.
Qed.

Theorem roundrobin_scale : forall c k vs, 0 < c ->
  roundrobin id true k (map (Z.mul c) vs) = scale_bins c (roundrobin id true k vs).
Proof.
  intros c k vs Hc. unfold roundrobin. rewrite (sort_desc_scale c vs Hc).
  rewrite <- rr_loop_scale, scale_bins_new. reflexivity.
Qed.

(** ---- first fit ---- *)
Lemma ff_place_scale c C x b : 0 < c ->
  ff_place id true (c * C) (c * x) (scale_bins c b) = scale_bins c (ff_place id true C x b).
Proof.
  intros Hc. induction b as [|bn t IH]; cbn [scale_bins map ff_place].
  - rewrite <- sbin_empty with (c := c) at 1. rewrite add_to_bin_scale. reflexivity.
  - rewrite sbin_fst. change (id (c * x)) with (c * x). change (id x) with x.
    rewrite <- Z.mul_add_distr_l, (leb_scale c _ C Hc).
    destruct (fst bn + x <=? C); cbn [map].
    + rewrite add_to_bin_scale. reflexivity.
    + f_equal. exact IH.
Qed.

Lemma ff_loop_scale c C l : 0 < c -> forall b,
  ff_loop id true (c * C) (map (Z.mul c) l) (scale_bins c b) = rmap (scale_bins c) (ff_loop id true C l b).
Proof.
  intros Hc. induction l as [|x t IH]; intros b; cbn [map ff_loop]; [reflexivity|].
  change (id (c * x)) with (c * x). change (id x) with x.
  rewrite (gtb_scale c x C Hc). destruct (x >? C); [reflexivity|].
  rewrite (ff_place_scale c C x b Hc). apply IH.
Qed.

Theorem first_fit_scale : forall c C vs, 0 < c ->
  first_fit id true (c * C) (map (Z.mul c) vs) = rmap (scale_bins c) (first_fit id true C vs).
Proof.
  intros c C vs Hc. unfold first_fit. rewrite <- (ff_loop_scale c C vs Hc), scale_bins_new. reflexivity.
Qed.

Theorem first_fit_decreasing_scale : forall c C vs, 0 < c ->
  first_fit_decreasing id true (c * C) (map (Z.mul c) vs) =
  rmap (scale_bins c) (first_fit_decreasing id true C vs).
Proof.
  intros c C vs Hc. unfold first_fit_decreasing. rewrite (sort_desc_scale c vs Hc).
  apply first_fit_scale; exact Hc.
Qed.

(** ---- best fit ----
    The running best is (None, -1) until a bin fits, then (Some i, new_sum).  The initial -1 is not
    scaled, but for integers [-1 < ns <-> -1 < c * ns] when c > 0, so no sign hypothesis is needed. *)
Definition best_rel (c : Z) (best best' : option nat * Z) : Prop :=
  fst best' = fst best /\ (snd best' = c * snd best \/ (snd best = -1 /\ snd best' = -1)).

Lemma bf_cmp_scale c s s' ns : 0 < c -> (s' = c * s \/ (s = -1 /\ s' = -1)) ->
  (s' <? c * ns) = (s <? ns).
Proof.
  intros Hc [->|[-> ->]]; [apply ltb_scale; exact Hc|].
  destruct (Z.ltb_spec (-1) ns) as [H|H]; destruct (Z.ltb_spec (-1) (c * ns)) as [H'|H'];
    try reflexivity; nia.
Qed.

Lemma bf_scan_scale c C v b : 0 < c -> forall i best best', best_rel c best best' ->
  best_rel c (bf_scan C v b i best) (bf_scan (c * C) (c * v) (scale_bins c b) i best').
Proof.
  intros Hc. induction b as [|bn t IH]; intros i best best' [H1 H2]; cbn [scale_bins map bf_scan].
  - split; assumption.
  - apply IH. rewrite sbin_fst, <- Z.mul_add_distr_l, (leb_scale c _ C Hc).
    rewrite (bf_cmp_scale c (snd best) (snd best') (fst bn + v) Hc H2).
    destruct ((fst bn + v <=? C) && (snd best <? fst bn + v)).
    + split; [reflexivity|left; reflexivity].
    + split; assumption.
Qed.

Lemma bf_place_scale c C x b : 0 < c ->
  bf_place id true (c * C) (c * x) (scale_bins c b) = scale_bins c (bf_place id true C x b).
Proof.
  intros Hc. unfold bf_place. change (id (c * x)) with (c * x). change (id x) with x.
  assert (H0 : best_rel c (None, -1) (None, -1)) by (split; [reflexivity|right; split; reflexivity]).
  destruct (bf_scan_scale c C x b Hc O (None, -1) (None, -1) H0) as [H1 _].
  rewrite H1. destruct (fst (bf_scan C x b 0 (None, -1))) as [i|].
  - apply add_item_scale.
  - rewrite scale_bins_app. cbn [scale_bins map].
    rewrite <- add_to_bin_scale, sbin_empty. reflexivity.
Qed.

Lemma bf_loop_scale c C l : 0 < c -> forall b,
  bf_loop id true (c * C) (map (Z.mul c) l) (scale_bins c b) = rmap (scale_bins c) (bf_loop id true C l b).
Proof.
  intros Hc. induction l as [|x t IH]; intros b; cbn [map bf_loop]; [reflexivity|].
  change (id (c * x)) with (c * x). change (id x) with x.
  rewrite (gtb_scale c x C Hc). destruct (x >? C); [reflexivity|].
  rewrite (bf_place_scale c C x b Hc). apply IH.
Qed.

Theorem best_fit_scale : forall c C vs, 0 < c ->
  best_fit id true (c * C) (map (Z.mul c) vs) = rmap (scale_bins c) (best_fit id true C vs).
Proof.
  intros c C vs Hc. unfold best_fit. rewrite <- (bf_loop_scale c C vs Hc), scale_bins_new. reflexivity.
Qed.

Theorem best_fit_decreasing_scale : forall c C vs, 0 < c ->
  best_fit_decreasing id true (c * C) (map (Z.mul c) vs) =
  rmap (scale_bins c) (best_fit_decreasing id true C vs).
Proof.
  intros c C vs Hc. unfold best_fit_decreasing. rewrite (sort_desc_scale c vs Hc).
  apply best_fit_scale; exact Hc.
Qed.

(** ---- Karmarkar-Karp ---- *)
Definition sentry (c : Z) (e : Z * bins Z) : Z * bins Z := (c * fst e, scale_bins c (snd e)).
Definition scale_heap (c : Z) (h : list (Z * bins Z)) : list (Z * bins Z) := map (sentry c) h.

Lemma sentry_fst c e : fst (sentry c e) = c * fst e.
Proof. reflexivity. Qed.

Lemma heap_insert_scale c e h : 0 < c ->
  heap_insert (sentry c e) (scale_heap c h) = scale_heap c (heap_insert e h).
Proof.
  intros Hc. induction h as [|y t IH]; cbn [scale_heap map heap_insert]; [reflexivity|].
  rewrite !sentry_fst, (ltb_scale c (fst e) (fst y) Hc).
  destruct (fst e <? fst y); cbn [map]; [reflexivity|]. f_equal. exact IH.
Qed.

Lemma sort_bins_scale c b : 0 < c -> sort_bins (scale_bins c b) = scale_bins c (sort_bins b).
Proof.
  intros Hc. unfold sort_bins, scale_bins. symmetry. apply sort_asc_map_mono.
  intros x y. rewrite !sbin_fst. apply leb_scale; exact Hc.
Qed.

Lemma hd_scale c l : hd 0 (map (Z.mul c) l) = c * hd 0 l.
Proof. destruct l as [|x t]; cbn [map hd]; lia. Qed.

Lemma last_scale c l : last (map (Z.mul c) l) 0 = c * last l 0.
Proof.
  induction l as [|x t IH]; [cbn [map last]; lia|].
  destruct t as [|y t']; [reflexivity|].
  change (last (map (Z.mul c) (x :: y :: t')) 0) with (last (map (Z.mul c) (y :: t')) 0).
  change (last (x :: y :: t') 0) with (last (y :: t') 0). exact IH.
Qed.

Lemma bins_diff_scale c b : bins_diff (scale_bins c b) = c * bins_diff b.
Proof. unfold bins_diff. rewrite scale_bins_sums, last_scale, hd_scale. lia. Qed.

Lemma heap_push_scale c h b : 0 < c ->
  heap_push (scale_heap c h) (scale_bins c b) = scale_heap c (heap_push h b).
Proof.
  intros Hc. unfold heap_push. rewrite (sort_bins_scale c b Hc), bins_diff_scale, <- Z.mul_opp_r.
  apply (heap_insert_scale c (- bins_diff (sort_bins b), sort_bins b) h Hc).
Qed.

Lemma singleton_bins_scale c k x :
  singleton_bins id true k (c * x) = scale_bins c (singleton_bins id true k x).
Proof. unfold singleton_bins. rewrite <- add_item_scale, scale_bins_new. reflexivity. Qed.

Lemma initial_fold_scale c k l : 0 < c -> forall h,
  fold_left (fun h x => heap_push h (singleton_bins id true k x)) (map (Z.mul c) l) (scale_heap c h) =
  scale_heap c (fold_left (fun h x => heap_push h (singleton_bins id true k x)) l h).
Proof.
  intros Hc. induction l as [|x t IH]; intros h; cbn [map fold_left]; [reflexivity|].
  rewrite singleton_bins_scale, (heap_push_scale c h _ Hc). apply IH.
Qed.

Lemma initial_heap_scale c k vs : 0 < c ->
  initial_heap id true k (map (Z.mul c) vs) = scale_heap c (initial_heap id true k vs).
Proof.
  intros Hc. unfold initial_heap. rewrite (sort_desc_scale c vs Hc).
  apply (initial_fold_scale c k _ Hc []).
Qed.

Lemma combine_bin_scale c (x y : bin Z) : combine_bin (sbin c x) (sbin c y) = sbin c (combine_bin x y).
Proof. unfold combine_bin, sbin. cbn [fst snd]. rewrite map_app. f_equal. lia. Qed.

Lemma zip_combine_scale c b1 : forall b2,
  zip_combine (scale_bins c b1) (scale_bins c b2) = scale_bins c (zip_combine b1 b2).
Proof.
  induction b1 as [|x t1 IH]; intros [|y t2]; cbn [scale_bins map zip_combine]; try reflexivity.
  rewrite combine_bin_scale. f_equal. apply IH.
Qed.

Lemma kk_combine_scale c b1 b2 :
  kk_combine (scale_bins c b1) (scale_bins c b2) = scale_bins c (kk_combine b1 b2).
Proof.
  unfold kk_combine. rewrite <- zip_combine_scale. f_equal. unfold scale_bins. symmetry. apply map_rev.
Qed.

Lemma kk_loop_scale c fuel : 0 < c -> forall h,
  kk_loop fuel (scale_heap c h) = scale_heap c (kk_loop fuel h).
Proof.
  intros Hc. induction fuel as [|f IH]; intros h; [reflexivity|].
  destruct h as [|[d1 b1] [|[d2 b2] rest]]; try reflexivity.
  cbn [scale_heap map kk_loop sentry fst snd].
  rewrite kk_combine_scale. fold (scale_heap c rest).
  rewrite (heap_push_scale c rest _ Hc). apply IH.
Qed.

Theorem kk_scale : forall c k vs, 0 < c ->
  kk id true k (map (Z.mul c) vs) = rmap (scale_bins c) (kk id true k vs).
Proof.
  intros c k vs Hc. unfold kk.
  rewrite map_length, (initial_heap_scale c k vs Hc), (kk_loop_scale c _ Hc).
  destruct (kk_loop (length vs - 1) (initial_heap id true k vs)) as [|e rest]; reflexivity.
Qed.

(** ---- covering: decreasing ---- *)
Definition sstate (c : Z) (st : bins Z * bin Z) : bins Z * bin Z := (scale_bins c (fst st), sbin c (snd st)).

Lemma sstate_init c : sstate c ([], empty_bin) = ([], empty_bin).
Proof. unfold sstate. cbn [fst snd scale_bins map]. rewrite sbin_empty. reflexivity. Qed.

Lemma sstate_fst c st : fst (sstate c st) = scale_bins c (fst st).
Proof. reflexivity. Qed.

Lemma sstate_snd c st : snd (sstate c st) = sbin c (snd st).
Proof. reflexivity. Qed.

Lemma sstate_close c (b : bins Z) (cur : bin Z) :
  (scale_bins c b ++ [sbin c cur], @empty_bin Z) = sstate c (b ++ [cur], empty_bin).
Proof.
  unfold sstate. cbn [fst snd]. rewrite scale_bins_app, sbin_empty. reflexivity.
Qed.

Lemma sstate_keep c (b : bins Z) (cur : bin Z) : (scale_bins c b, sbin c cur) = sstate c (b, cur).
Proof. reflexivity. Qed.

Lemma cover_add_scale c C st x : 0 < c ->
  cover_add id true (c * C) (sstate c st) (c * x) = sstate c (cover_add id true C st x).
Proof.
  intros Hc. unfold cover_add. rewrite sstate_fst, sstate_snd, add_to_bin_scale, sbin_fst.
  rewrite (geb_scale c _ C Hc).
  destruct (fst (add_to_bin id true x (snd st)) >=? C); [apply sstate_close|apply sstate_keep].
Qed.

Lemma dec_sub_scale c C l : 0 < c -> forall st,
  dec_sub id true (c * C) (sstate c st) (map (Z.mul c) l) = sstate c (dec_sub id true C st l).
Proof.
  intros Hc. unfold dec_sub. induction l as [|x t IH]; intros st; cbn [map fold_left]; [reflexivity|].
  rewrite (cover_add_scale c C st x Hc). apply IH.
Qed.

Theorem cover_decreasing_scale : forall c C vs, 0 < c ->
  cover_decreasing id true (c * C) (map (Z.mul c) vs) = scale_bins c (cover_decreasing id true C vs).
Proof.
  intros c C vs Hc. unfold cover_decreasing. rewrite (sort_desc_scale c vs Hc).
  rewrite <- sstate_fst, <- (dec_sub_scale c C _ Hc), sstate_init. reflexivity.
Qed.

(** ---- covering: twothirds ---- *)
Lemma unsnoc_map {T U} (g : T -> U) (l : list T) :
  unsnoc (map g l) = match unsnoc l with None => None | Some (r, y) => Some (map g r, g y) end.
Proof.
  unfold unsnoc. rewrite <- map_rev. destruct (rev l) as [|y r]; cbn [map]; [reflexivity|].
  rewrite map_rev. reflexivity.
Qed.

Lemma tt_loop_scale c C : 0 < c -> forall fuel st fresh rem,
  tt_loop id true fuel (c * C) (sstate c st) fresh (map (Z.mul c) rem) =
  sstate c (tt_loop id true fuel C st fresh rem).
Proof.
  intros Hc. induction fuel as [|f IH]; intros st fresh rem; [reflexivity|].
  destruct rem as [|x t]; [reflexivity|]. destruct fresh.
  - cbn [tt_loop map]. rewrite sstate_fst, sstate_snd, add_to_bin_scale, sbin_fst, (geb_scale c _ C Hc).
    destruct (fst (add_to_bin id true x (snd st)) >=? C).
    + rewrite sstate_close. apply IH.
    + rewrite sstate_keep. apply IH.
  - cbn [tt_loop]. rewrite (unsnoc_map (Z.mul c) (x :: t)). cbn [map].
    destruct (unsnoc (x :: t)) as [[r y]|]; [|reflexivity].
    rewrite sstate_fst, sstate_snd, add_to_bin_scale, sbin_fst, (geb_scale c _ C Hc).
    destruct (fst (add_to_bin id true y (snd st)) >=? C).
    + rewrite sstate_close. apply IH.
    + rewrite sstate_keep. apply IH.
Qed.

Theorem cover_twothirds_scale : forall c C vs, 0 < c ->
  cover_twothirds id true (c * C) (map (Z.mul c) vs) = scale_bins c (cover_twothirds id true C vs).
Proof.
  intros c C vs Hc. unfold cover_twothirds. rewrite map_length, (sort_desc_scale c vs Hc).
  rewrite <- sstate_fst, <- (tt_loop_scale c C Hc), sstate_init. reflexivity.
Qed.

(** ---- covering: threequarters ---- *)
Lemma is_big_scale c C x : 0 < c -> is_big id (c * C) (c * x) = is_big id C x.
Proof.
  intros Hc. unfold is_big, id. replace (2 * (c * x)) with (c * (2 * x)) by lia.
  apply leb_scale; exact Hc.
Qed.

Lemma is_medium_scale c C x : 0 < c -> is_medium id (c * C) (c * x) = is_medium id C x.
Proof.
  intros Hc. unfold is_medium, id. replace (2 * (c * x)) with (c * (2 * x)) by lia.
  replace (3 * (c * x)) with (c * (3 * x)) by lia.
  rewrite (leb_scale c C (3 * x) Hc), (ltb_scale c (2 * x) C Hc). reflexivity.
Qed.

Lemma is_small_scale c C x : 0 < c -> is_small id (c * C) (c * x) = is_small id C x.
Proof.
  intros Hc. unfold is_small, id. replace (3 * (c * x)) with (c * (3 * x)) by lia.
  apply ltb_scale; exact Hc.
Qed.

Lemma filter_map_commute {T U} (g : T -> U) (p : T -> bool) (p' : U -> bool) l :
  (forall x, p' (g x) = p x) -> filter p' (map g l) = map g (filter p l).
Proof.
  intros H. induction l as [|x t IH]; cbn [map filter]; [reflexivity|].
  rewrite H. destruct (p x); cbn [map]; rewrite IH; reflexivity.
Qed.

Lemma fill_small_scale c C : 0 < c -> forall fuel cur small,
  fill_small id true fuel (c * C) (sbin c cur) (map (Z.mul c) small) =
  (sbin c (fst (fill_small id true fuel C cur small)),
   map (Z.mul c) (snd (fill_small id true fuel C cur small))).
Proof.
  intros Hc. induction fuel as [|f IH]; intros cur small; [reflexivity|].
  cbn [fill_small]. rewrite sbin_fst, (ltb_scale c _ C Hc).
  destruct (fst cur <? C); [|reflexivity].
  rewrite unsnoc_map. destruct (unsnoc small) as [[r y]|]; [|reflexivity].
  rewrite add_to_bin_scale. apply IH.
Qed.

Lemma fold_add_scale c l : forall cur,
  fold_left (fun c0 x => add_to_bin id true x c0) (map (Z.mul c) l) (sbin c cur) =
  sbin c (fold_left (fun c0 x => add_to_bin id true x c0) l cur).
Proof.
  induction l as [|x t IH]; intros cur; cbn [map fold_left]; [reflexivity|].
  rewrite add_to_bin_scale. apply IH.
Qed.

Definition is_nil' {T} (l : list T) : bool := match l with [] => true | _ :: _ => false end.

Lemma is_nil'_map {T U} (g : T -> U) l : is_nil' (map g l) = is_nil' l.
Proof. destruct l; reflexivity. Qed.

(** the choice made at the start of an iteration of the main loop *)
Definition tq_pick' (cur : bin Z) (big medium : list Z) : bin Z * list Z * list Z :=
  if zsum (map id (firstn 1 big)) >=? zsum (map id (firstn 2 medium))
  then (fold_left (fun c0 x => add_to_bin id true x c0) (firstn 1 big) cur, skipn 1 big, medium)
  else (fold_left (fun c0 x => add_to_bin id true x c0) (firstn 2 medium) cur, big, skipn 2 medium).

Lemma tq_loop_unfold' f C (st : bins Z * bin Z) big medium small :
  tq_loop id true (S f) C st big medium small =
  if is_nil' small then dec_sub id true C (dec_sub id true C st big) medium
  else if is_nil' big && is_nil' medium then dec_sub id true C st small
  else
    let '(cur0, big', medium') := tq_pick' (snd st) big medium in
    let '(cur1, small') := fill_small id true (length small) C cur0 small in
    if fst cur1 >=? C then tq_loop id true f C (fst st ++ [cur1], empty_bin) big' medium' small'
    else tq_loop id true f C (fst st, cur1) big' medium' small'.
Proof. destruct small, big, medium; reflexivity. Qed.

Lemma tq_pick'_scale c cur big medium : 0 < c ->
  tq_pick' (sbin c cur) (map (Z.mul c) big) (map (Z.mul c) medium) =
  (sbin c (fst (fst (tq_pick' cur big medium))),
   map (Z.mul c) (snd (fst (tq_pick' cur big medium))),
   map (Z.mul c) (snd (tq_pick' cur big medium))).
Proof.
  intros Hc. unfold tq_pick'. rewrite !firstn_map, !map_id, !zsum_scale, (geb_scale c _ _ Hc).
  destruct (zsum (firstn 1 big) >=? zsum (firstn 2 medium)); cbn [fst snd];
    rewrite fold_add_scale, skipn_map; reflexivity.
Qed.

Lemma tq_loop_scale c C : 0 < c -> forall fuel st big medium small,
  tq_loop id true fuel (c * C) (sstate c st) (map (Z.mul c) big) (map (Z.mul c) medium) (map (Z.mul c) small) =
  sstate c (tq_loop id true fuel C st big medium small).
Proof.
  intros Hc. induction fuel as [|f IH]; intros st big medium small; [reflexivity|].
  rewrite !tq_loop_unfold', !is_nil'_map.
  destruct (is_nil' small); [rewrite !(dec_sub_scale c C _ Hc); reflexivity|].
  destruct (is_nil' big && is_nil' medium); [apply dec_sub_scale; exact Hc|].
  rewrite sstate_snd, (tq_pick'_scale c _ _ _ Hc).
  destruct (tq_pick' (snd st) big medium) as [[cur0 big'] medium']. cbn [fst snd].
  rewrite map_length, (fill_small_scale c C Hc).
  destruct (fill_small id true (length small) C cur0 small) as [cur1 small']. cbn [fst snd].
  rewrite sbin_fst, (geb_scale c _ C Hc), sstate_fst.
  destruct (fst cur1 >=? C).
  - rewrite sstate_close. apply IH.
  - rewrite sstate_keep. apply IH.
Qed.

Theorem cover_threequarters_scale : forall c C vs, 0 < c ->
  cover_threequarters id true (c * C) (map (Z.mul c) vs) = scale_bins c (cover_threequarters id true C vs).
Proof.
  intros c C vs Hc. unfold cover_threequarters. cbv zeta.
  rewrite map_length, (sort_desc_scale c vs Hc).
  rewrite (filter_map_commute (Z.mul c) (is_big id C)) by (intros x; apply is_big_scale; exact Hc).
  rewrite (filter_map_commute (Z.mul c) (is_medium id C)) by (intros x; apply is_medium_scale; exact Hc).
  rewrite (filter_map_commute (Z.mul c) (is_small id C)) by (intros x; apply is_small_scale; exact Hc).
  rewrite <- sstate_fst, <- (tq_loop_scale c C Hc), sstate_init. reflexivity.
Qed.

(** ================================================================== *)
(** * PART 4: corollaries for exact algorithms                          *)
(** ================================================================== *)

(** all exact algorithms report the same optimal value *)
Theorem exact_agree : forall o k vs v1 v2, Opt o k vs v1 -> Opt o k vs v2 -> v1 = v2.
Proof. exact Opt_unique. Qed.

(** no algorithm returning an attainable vector of sums is better than the optimum *)
Theorem heuristic_ge_opt : forall o k vs v s, Opt o k vs v -> Attainable k vs s -> v <= value o s false.
Proof. intros o k vs v s [_ Hmin] Hs. apply Hmin. exact Hs. Qed.

Theorem greedy_ge_opt : forall o k vs v, (1 <= k)%nat -> Opt o k vs v ->
  v <= value o (sums (greedy id true k vs)) false.
Proof.
  intros o k vs v Hk H. apply (heuristic_ge_opt o k vs v _ H).
  pose proof (greedy_attainable id true k vs Hk) as G. rewrite map_id in G. exact G.
Qed.

Lemma dp_opt_id o k vs b : (1 <= k)%nat -> dp id true o k vs = Ok b -> Opt o k vs (value o (sums b) false).
Proof.
  intros Hk H. pose proof (dp_optimal id o k vs b Hk H) as G. rewrite map_id in G. exact G.
Qed.

Theorem dp_perm_value : forall o k vs1 vs2 b1 b2, Permutation vs1 vs2 ->
  dp id true o k vs1 = Ok b1 -> dp id true o k vs2 = Ok b2 -> (1 <= k)%nat ->
  value o (sums b1) false = value o (sums b2) false.
Proof.
  intros o k vs1 vs2 b1 b2 P H1 H2 Hk. apply (Opt_unique o k vs2).
  - apply (Opt_perm o k vs1 vs2 _ P). apply dp_opt_id; assumption.
  - apply dp_opt_id; assumption.
Qed.

Theorem dp_scale_value : forall o k vs c b1 b2, 0 < c ->
  dp id true o k vs = Ok b1 -> dp id true o k (map (Z.mul c) vs) = Ok b2 -> (1 <= k)%nat ->
  value o (sums b2) false = c * value o (sums b1) false.
Proof.
  intros o k vs c b1 b2 Hc H1 H2 Hk. apply (Opt_unique o k (map (Z.mul c) vs)).
  - apply dp_opt_id; assumption.
  - apply Opt_scale; [exact Hc|]. apply dp_opt_id; assumption.
Qed.

Theorem dp_zeros_value : forall o k vs vs' n b1 b2, Permutation vs' (vs ++ repeat 0 n) ->
  dp id true o k vs = Ok b1 -> dp id true o k vs' = Ok b2 -> (1 <= k)%nat ->
  value o (sums b1) false = value o (sums b2) false.
Proof.
  intros o k vs vs' n b1 b2 P H1 H2 Hk. apply (Opt_unique o k vs').
  - apply (Opt_insert_zeros o k vs vs' _ n Hk P). apply dp_opt_id; assumption.
  - apply dp_opt_id; assumption.
Qed.

(** any two algorithms with an optimality theorem of the shape of [dp_optimal] agree on the value,
    on permuted, scaled or zero-padded inputs *)
Theorem exact_agree_perm : forall o k vs vs' v v', Permutation vs vs' ->
  Opt o k vs v -> Opt o k vs' v' -> v = v'.
Proof. intros o k vs vs' v v' P H H'. apply (Opt_unique o k vs'); [apply (Opt_perm o k vs); assumption|exact H']. Qed.

Theorem exact_agree_scale : forall o k vs c v v', 0 < c ->
  Opt o k vs v -> Opt o k (map (Z.mul c) vs) v' -> v' = c * v.
Proof. intros o k vs c v v' Hc H H'. apply (Opt_unique o k (map (Z.mul c) vs)); [exact H'|apply Opt_scale; assumption]. Qed.

Theorem exact_agree_zeros : forall o k vs vs' n v v', (1 <= k)%nat -> Permutation vs' (vs ++ repeat 0 n) ->
  Opt o k vs v -> Opt o k vs' v' -> v = v'.
Proof.
  intros o k vs vs' n v v' Hk P H H'. apply (Opt_unique o k vs'); [|exact H'].
  apply (Opt_insert_zeros o k vs vs' v n Hk P). exact H.
Qed.

(** ---- the balanced two-way optimum (the specification met by CBLDM) has the same symmetries ---- *)
Theorem OptBalanced_unique : forall d vs v v', OptBalanced d vs v -> OptBalanced d vs v' -> v = v'.
Proof.
  intros d vs v v' [(m & Hm & Hv) Hmin] [(m' & Hm' & Hv') Hmin'].
  pose proof (Hmin m' Hm') as H1. pose proof (Hmin' m Hm) as H2. lia.
Qed.

Lemma side_sum_scale c vs : forall mask, side_sum (map (Z.mul c) vs) mask = c * side_sum vs mask.
Proof.
  induction vs as [|x t IH]; intros [|b m]; cbn [map side_sum]; try lia.
  rewrite IH. destruct b; lia.
Qed.

Lemma split_diff_scale c vs mask : 0 < c -> split_diff (map (Z.mul c) vs) mask = c * split_diff vs mask.
Proof.
  intros Hc. unfold split_diff. rewrite side_sum_scale, zsum_scale.
  replace (2 * (c * side_sum vs mask) - c * zsum vs) with (c * (2 * side_sum vs mask - zsum vs)) by lia.
  rewrite Z.abs_mul, (Z.abs_eq c) by lia. reflexivity.
Qed.

Lemma balanced_split_scale c d vs mask : balanced_split d (map (Z.mul c) vs) mask <-> balanced_split d vs mask.
Proof. unfold balanced_split. rewrite map_length. reflexivity. Qed.

Theorem OptBalanced_scale : forall d vs v c, 0 < c -> OptBalanced d vs v -> OptBalanced d (map (Z.mul c) vs) (c * v).
Proof.
  intros d vs v c Hc [(m & Hm & Hv) Hmin]. split.
  - exists m. split; [apply balanced_split_scale; exact Hm|]. rewrite (split_diff_scale c vs m Hc), Hv. reflexivity.
  - intros m' Hm'. apply balanced_split_scale in Hm'. rewrite (split_diff_scale c vs m' Hc).
    apply Z.mul_le_mono_nonneg_l; [lia|]. apply Hmin; exact Hm'.
Qed.

Lemma mask_perm vs vs' : Permutation vs vs' -> forall mask, length mask = length vs ->
  exists mask', length mask' = length vs' /\ side_sum vs' mask' = side_sum vs mask /\
                side_count mask' = side_count mask.
Proof.
  induction 1 as [|x l l' P IH|x y l|l1 l2 l3 P1 IH1 P2 IH2]; intros mask Hl.
  - exists mask. auto.
  - destruct mask as [|b m]; [discriminate Hl|]. cbn [length] in Hl.
    destruct (IH m) as (m' & H1 & H2 & H3); [lia|].
    exists (b :: m'). cbn [length side_sum side_count]. repeat split; lia.
  - destruct mask as [|b1 [|b2 m]]; try discriminate Hl.
    exists (b2 :: b1 :: m). cbn [length side_sum side_count] in *. repeat split; lia.
  - destruct (IH1 mask Hl) as (m1 & H1 & H2 & H3). destruct (IH2 m1 H1) as (m2 & H4 & H5 & H6).
    exists m2. repeat split; lia.
Qed.

Lemma balanced_perm d vs vs' mask : Permutation vs vs' -> balanced_split d vs mask ->
  exists mask', balanced_split d vs' mask' /\ split_diff vs' mask' = split_diff vs mask.
Proof.
  intros P [Hl Hb]. destruct (mask_perm vs vs' P mask Hl) as (m' & H1 & H2 & H3).
  exists m'. unfold balanced_split, split_diff.
  rewrite H1, H2, H3, <- (Permutation_length P), <- (zsum_perm vs vs' P). auto.
Qed.

Theorem OptBalanced_perm : forall d vs vs' v, Permutation vs vs' -> OptBalanced d vs v -> OptBalanced d vs' v.
Proof.
  intros d vs vs' v P [(m & Hm & Hv) Hmin]. split.
  - destruct (balanced_perm d vs vs' m P Hm) as (m' & H1 & H2). exists m'. split; [exact H1|lia].
  - intros m' Hm'. destruct (balanced_perm d vs' vs m' (Permutation_sym P) Hm') as (m0 & H1 & H2).
    rewrite <- H2. apply Hmin; exact H1.
Qed.

(** CBLDM on plain non-negative values: the reported difference is invariant under reordering and
    scales with the input *)
Lemma cbldm_opt_id vs d b t : Forall (fun v => 0 <= v) vs -> vs <> [] -> 1 <= d ->
  cbldm id 2 vs true d true None = Ok (CbBins b, t) -> OptBalanced d vs (sum_diff b).
Proof.
  intros Hnn Hne Hd E. destruct (cbldm_optimal id vs d Hnn Hne Hd) as (b' & t' & E' & _ & _ & Hopt).
  rewrite E in E'. injection E' as Eb _. subst b'. rewrite map_id in Hopt. exact Hopt.
Qed.

Theorem cbldm_perm_value : forall vs1 vs2 d b1 t1 b2 t2, Permutation vs1 vs2 ->
  Forall (fun v => 0 <= v) vs1 -> vs1 <> [] -> 1 <= d ->
  cbldm id 2 vs1 true d true None = Ok (CbBins b1, t1) ->
  cbldm id 2 vs2 true d true None = Ok (CbBins b2, t2) ->
  sum_diff b1 = sum_diff b2.
Proof.
  intros vs1 vs2 d b1 t1 b2 t2 P Hnn Hne Hd E1 E2. apply (OptBalanced_unique d vs2).
  - apply (OptBalanced_perm d vs1 vs2 _ P). apply (cbldm_opt_id vs1 d b1 t1); assumption.
  - apply (cbldm_opt_id vs2 d b2 t2); try assumption.
    + eapply Permutation_Forall; [exact P|exact Hnn].
    + intros ->. apply Permutation_sym, Permutation_nil in P. contradiction.
Qed.

Theorem cbldm_scale_value : forall vs c d b1 t1 b2 t2, 0 < c ->
  Forall (fun v => 0 <= v) vs -> vs <> [] -> 1 <= d ->
  cbldm id 2 vs true d true None = Ok (CbBins b1, t1) ->
  cbldm id 2 (map (Z.mul c) vs) true d true None = Ok (CbBins b2, t2) ->
  sum_diff b2 = c * sum_diff b1.
Proof.
  intros vs c d b1 t1 b2 t2 Hc Hnn Hne Hd E1 E2. apply (OptBalanced_unique d (map (Z.mul c) vs)).
  - apply (cbldm_opt_id _ d b2 t2); try assumption.
    + rewrite Forall_map. eapply Forall_impl; [|exact Hnn]. intros v Hv. cbn beta in Hv |- *.
      apply Z.mul_nonneg_nonneg; lia.
    + destruct vs; [contradiction|discriminate].
  - apply OptBalanced_scale; [exact Hc|]. apply (cbldm_opt_id vs d b1 t1); assumption.
Qed.

(** ================================================================== *)
(** * Witnesses                                                         *)
(** ================================================================== *)

(** best fit: the unscaled initial best value -1 is harmless even with negative values *)
Example best_fit_scale_negative_values :
  best_fit id true 10 [4; -5; 6; 7; -8; 2] = Ok [(4, [4; 6; -8; 2]); (2, [-5; 7])] /\
  best_fit id true 30 (map (Z.mul 3) [4; -5; 6; 7; -8; 2]) = Ok [(12, [12; 18; -24; 6]); (6, [-15; 21])].
Proof. vm_compute. split; reflexivity. Qed.

(** an over-sized value is refused before and after scaling *)
Example first_fit_scale_error :
  first_fit id true 10 [4; 11] = Err ValueError /\
  first_fit id true (3 * 10) (map (Z.mul 3) [4; 11]) = Err ValueError.
Proof. vm_compute. split; reflexivity. Qed.

(** [0 < c] is needed: a negative factor reverses every comparison *)
Example greedy_scale_needs_positive :
  greedy id true 2 (map (Z.mul (-1)) [1; 2; 3]) = [(-6, [-1; -2; -3]); (0, [])] /\
  scale_bins (-1) (greedy id true 2 [1; 2; 3]) = [(-3, [-3]); (-3, [-2; -1])].
Proof. vm_compute. split; reflexivity. Qed.

Example scaling_examples :
  kk id true 3 (map (Z.mul 3) [4; 5; 6; 7; 8]) = rmap (scale_bins 3) (kk id true 3 [4; 5; 6; 7; 8]) /\
  cover_threequarters id true (3 * 10) (map (Z.mul 3) [4; 5; 6; 7; 8; 1; 2; 3; 2; 1]) =
    [(30, [24; 3; 3]); (33, [21; 6; 6]); (42, [18; 9; 15])] /\
  cover_threequarters id true 10 [4; 5; 6; 7; 8; 1; 2; 3; 2; 1] =
    [(10, [8; 1; 1]); (11, [7; 2; 2]); (14, [6; 3; 5])] /\
  greedy id true 3 [8; 4; 6; 5; 7] = greedy id true 3 [4; 5; 6; 7; 8].
Proof. vm_compute. repeat split; reflexivity. Qed.

Print Assumptions sort_desc_perm_eq.
Print Assumptions greedy_perm.
Print Assumptions roundrobin_perm.
Print Assumptions first_fit_decreasing_perm.
Print Assumptions best_fit_decreasing_perm.
Print Assumptions cover_decreasing_perm.
Print Assumptions cover_twothirds_perm.
Print Assumptions cover_threequarters_perm.
Print Assumptions kk_perm.
Print Assumptions greedy_scale.
Print Assumptions roundrobin_scale.
Print Assumptions first_fit_scale.
Print Assumptions first_fit_decreasing_scale.
Print Assumptions best_fit_scale.
Print Assumptions best_fit_decreasing_scale.
Print Assumptions cover_decreasing_scale.
Print Assumptions cover_twothirds_scale.
Print Assumptions cover_threequarters_scale.
Print Assumptions kk_scale.
Print Assumptions value_scale.
Print Assumptions Opt_perm.
Print Assumptions Opt_scale.
Print Assumptions Opt_zeros.
Print Assumptions Opt_zeros_inv.
Print Assumptions Opt_insert_zeros.
Print Assumptions Opt_unique.
Print Assumptions exact_agree.
Print Assumptions heuristic_ge_opt.
Print Assumptions greedy_ge_opt.
Print Assumptions dp_perm_value.
Print Assumptions dp_scale_value.
Print Assumptions dp_zeros_value.
Print Assumptions exact_agree_perm.
Print Assumptions exact_agree_scale.
Print Assumptions exact_agree_zeros.
Print Assumptions OptBalanced_unique.
Print Assumptions OptBalanced_scale.
Print Assumptions OptBalanced_perm.
Print Assumptions cbldm_perm_value.
Print Assumptions cbldm_scale_value.
