(** Property C18: results respect problem symmetries.
    Part 1: reordering the input never changes the result of an algorithm that sorts its input.
    Part 2: multiplying all values (and the bin size) by c > 0 multiplies all returned sums by c.
    Part 3: symmetries of the optimum (specification level).
    Part 4: corollaries for exact algorithms.
    Plain values: A = Z, valueof = id (the standard library identity [@id Z], i.e. [fun v : Z => v]),
    keep = true. *)
From Prtpy Require Import Base.Prelude Model.Binner Model.Objectives Model.Greedy Model.Packing
  Model.Covering Model.KK Model.DP Spec.Partition Proofs.BaseLemmas Proofs.BinnerLemmas
  Proofs.ObjectivesProofs Proofs.RatioProofs Proofs.DPProofs.
From Coq Require Import Sorting.Sorted ZifyBool.

(** ================================================================== *)
(** * PART 1: permutation invariance of the sorting algorithms          *)
(** ================================================================== *)

(** two permutations of each other, both sorted by a key that is injective, are equal *)
Lemma key_sorted_perm_eq {T} (key : T -> Z) :
  (forall x y, key x = key y -> x = y) ->
  forall l1 l2, key_sorted key l1 -> key_sorted key l2 -> Permutation l1 l2 -> l1 = l2.
Proof.
  intros Hinj. unfold key_sorted. induction l1 as [|x t1 IH]; intros l2 S1 S2 P.
  - apply Permutation_nil in P. symmetry. exact P.
  - destruct l2 as [|y t2]; [apply Permutation_sym, Permutation_nil in P; discriminate P|].
    apply StronglySorted_inv in S1. destruct S1 as [S1 F1].
    apply StronglySorted_inv in S2. destruct S2 as [S2 F2].
    rewrite Forall_forall in F1, F2.
    assert (Hxy : x = y).
    { assert (I1 : In x (y :: t2)) by (eapply Permutation_in; [exact P|left; reflexivity]).
      assert (I2 : In y (x :: t1)) by (eapply Permutation_in; [symmetry; exact P|left; reflexivity]).
      destruct I1 as [I1|I1]; [symmetry; exact I1|]. destruct I2 as [I2|I2]; [exact I2|].
      apply F2 in I1. apply F1 in I2. apply Hinj. lia. }
    subst y. f_equal. apply IH; [exact S1|exact S2|]. eapply Permutation_cons_inv. exact P.
Qed.

Lemma sort_asc_perm_eq_inj {T} (key : T -> Z) :
  (forall x y, key x = key y -> x = y) ->
  forall l1 l2, Permutation l1 l2 -> sort_asc key l1 = sort_asc key l2.
Proof.
  intros Hinj l1 l2 P. apply (key_sorted_perm_eq key Hinj); try apply sort_asc_sorted.
  rewrite (sort_asc_perm key l1), (sort_asc_perm key l2). exact P.
Qed.

Lemma sort_desc_perm_eq (l1 l2 : list Z) :
  Permutation l1 l2 -> sort_desc id l1 = sort_desc id l2.
Proof.
  intros P. unfold sort_desc. apply sort_asc_perm_eq_inj; [|exact P].
  intros x y H. unfold id in H. lia.
Qed.

Theorem greedy_perm k vs1 vs2 : Permutation vs1 vs2 -> greedy id true k vs1 = greedy id true k vs2.
Proof. intros P. unfold greedy. rewrite (sort_desc_perm_eq vs1 vs2 P). reflexivity. Qed.

Theorem roundrobin_perm k vs1 vs2 : Permutation vs1 vs2 -> roundrobin id true k vs1 = roundrobin id true k vs2.
Proof. intros P. unfold roundrobin. rewrite (sort_desc_perm_eq vs1 vs2 P). reflexivity. Qed.

Theorem first_fit_decreasing_perm C vs1 vs2 : Permutation vs1 vs2 ->
  first_fit_decreasing id true C vs1 = first_fit_decreasing id true C vs2.
Proof. intros P. unfold first_fit_decreasing. rewrite (sort_desc_perm_eq vs1 vs2 P). reflexivity. Qed.

Theorem best_fit_decreasing_perm C vs1 vs2 : Permutation vs1 vs2 ->
  best_fit_decreasing id true C vs1 = best_fit_decreasing id true C vs2.
Proof. intros P. unfold best_fit_decreasing. rewrite (sort_desc_perm_eq vs1 vs2 P). reflexivity. Qed.

Theorem cover_decreasing_perm C vs1 vs2 : Permutation vs1 vs2 ->
  cover_decreasing id true C vs1 = cover_decreasing id true C vs2.
Proof. intros P. unfold cover_decreasing. rewrite (sort_desc_perm_eq vs1 vs2 P). reflexivity. Qed.

Theorem cover_twothirds_perm C vs1 vs2 : Permutation vs1 vs2 ->
  cover_twothirds id true C vs1 = cover_twothirds id true C vs2.
Proof.
  intros P. unfold cover_twothirds.
  rewrite (sort_desc_perm_eq vs1 vs2 P), (Permutation_length P). reflexivity.
Qed.

Theorem cover_threequarters_perm C vs1 vs2 : Permutation vs1 vs2 ->
  cover_threequarters id true C vs1 = cover_threequarters id true C vs2.
Proof.
  intros P. unfold cover_threequarters.
  rewrite (sort_desc_perm_eq vs1 vs2 P), (Permutation_length P). reflexivity.
Qed.

Theorem kk_perm k vs1 vs2 : Permutation vs1 vs2 -> kk id true k vs1 = kk id true k vs2.
Proof.
  intros P. unfold kk, initial_heap.
  rewrite (sort_desc_perm_eq vs1 vs2 P), (Permutation_length P). reflexivity.
Qed.

(** the unsorted packers do depend on the order (so no [first_fit_perm] / [best_fit_perm]) *)
Example first_fit_not_perm_invariant :
  first_fit id true 10 [5; 6; 4] = Ok [(9, [5; 4]); (6, [6])] /\
  first_fit id true 10 [6; 4; 5] = Ok [(10, [6; 4]); (5, [5])] /\
  best_fit id true 10 [5; 6; 4] = Ok [(5, [5]); (10, [6; 4])] /\
  best_fit id true 10 [5; 4; 6] = Ok [(9, [5; 4]); (6, [6])].
Proof. vm_compute. repeat split. Qed.

(** ================================================================== *)
(** * Shared helpers: multiplication by a positive constant             *)
(** ================================================================== *)

Lemma leb_scale c a b : 0 < c -> (c * a <=? c * b) = (a <=? b).
Proof.
  intros Hc. destruct (Z.leb_spec a b) as [H|H]; destruct (Z.leb_spec (c * a) (c * b)) as [H'|H'];
    try reflexivity; nia.
Qed.

Lemma ltb_scale c a b : 0 < c -> (c * a <? c * b) = (a <? b).
Proof.
  intros Hc. destruct (Z.ltb_spec a b) as [H|H]; destruct (Z.ltb_spec (c * a) (c * b)) as [H'|H'];
    try reflexivity; nia.
Qed.

Lemma geb_scale c a b : 0 < c -> (c * a >=? c * b) = (a >=? b).
Proof. intros Hc. rewrite !Z.geb_leb. apply leb_scale; exact Hc. Qed.

Lemma gtb_scale c a b : 0 < c -> (c * a >? c * b) = (a >? b).
Proof. intros Hc. rewrite !Z.gtb_ltb. apply ltb_scale; exact Hc. Qed.

Lemma zsum_scale c l : zsum (map (Z.mul c) l) = c * zsum l.
Proof. induction l as [|x t IH]; cbn [map zsum fold_right]; [lia|]. fold (zsum (map (Z.mul c) t)). fold (zsum t). rewrite IH. lia. Qed.

Lemma repeat0_scale c n : map (Z.mul c) (repeat 0 n) = repeat 0 n.
Proof. induction n as [|n IH]; cbn [repeat map]; [reflexivity|]. rewrite IH, Z.mul_0_r. reflexivity. Qed.

(** sorting commutes with a map that preserves the order of the keys *)
Lemma insert_asc_map_mono {T U} (g : T -> U) (kT : T -> Z) (kU : U -> Z) x l :
  (forall a b, (kU (g a) <=? kU (g b)) = (kT a <=? kT b)) ->
  map g (insert_asc kT x l) = insert_asc kU (g x) (map g l).
Proof.
  intros H. induction l as [|y t IH]; cbn [insert_asc map]; [reflexivity|].
  rewrite H. destruct (kT x <=? kT y); cbn [map]; [reflexivity|]. rewrite IH. reflexivity.
Qed.

Lemma sort_asc_map_mono {T U} (g : T -> U) (kT : T -> Z) (kU : U -> Z) l :
  (forall a b, (kU (g a) <=? kU (g b)) = (kT a <=? kT b)) ->
  map g (sort_asc kT l) = sort_asc kU (map g l).
Proof.
  intros H. induction l as [|x t IH]; [reflexivity|].
  cbn [map]. unfold sort_asc in *. cbn [fold_right].
  rewrite (insert_asc_map_mono g kT kU x _ H), IH. reflexivity.
Qed.

Lemma sort_asc_scale c l : 0 < c ->
  sort_asc (fun x => x) (map (Z.mul c) l) = map (Z.mul c) (sort_asc (fun x => x) l).
Proof. intros Hc. symmetry. apply sort_asc_map_mono. intros a b. apply leb_scale; exact Hc. Qed.

Lemma sort_desc_scale c l : 0 < c ->
  sort_desc id (map (Z.mul c) l) = map (Z.mul c) (sort_desc id l).
Proof.
  intros Hc. symmetry. unfold sort_desc. apply sort_asc_map_mono. intros a b. unfold id.
  rewrite <- !Z.mul_opp_r. apply leb_scale; exact Hc.
Qed.

Lemma zmin_list_scale c d l : 0 < c -> zmin_list (c * d) (map (Z.mul c) l) = c * zmin_list d l.
Proof.
  intros Hc. revert d. induction l as [|x t IH]; intros d; cbn [map zmin_list]; [reflexivity|].
  rewrite Z.mul_min_distr_nonneg_l by lia. apply IH.
Qed.

Lemma zmax_list_scale c d l : 0 < c -> zmax_list (c * d) (map (Z.mul c) l) = c * zmax_list d l.
Proof.
  intros Hc. revert d. induction l as [|x t IH]; intros d; cbn [map zmax_list]; [reflexivity|].
  rewrite Z.mul_max_distr_nonneg_l by lia. apply IH.
Qed.

Lemma zmin_scale c l : 0 < c -> zmin (map (Z.mul c) l) = c * zmin l.
Proof. intros Hc. destruct l as [|x t]; cbn [map zmin]; [lia|]. apply zmin_list_scale; exact Hc. Qed.

Lemma zmax_scale c l : 0 < c -> zmax (map (Z.mul c) l) = c * zmax l.
Proof. intros Hc. destruct l as [|x t]; cbn [map zmax]; [lia|]. apply zmax_list_scale; exact Hc. Qed.

(** ================================================================== *)
(** * PART 3: symmetries of the optimum (specification level)           *)
(** ================================================================== *)

(** ---- the objective value scales ---- *)
Theorem value_scale : forall o c s, 0 < c ->
  value o (map (Z.mul c) s) false = c * value o s false.
Proof.
  intros o c s Hc. destruct o as [| | |k|k]; unfold value.
  - rewrite (zmin_scale c s Hc). lia.
  - apply zmax_scale; exact Hc.
  - rewrite (zmin_scale c s Hc), (zmax_scale c s Hc). lia.
  - rewrite (sort_asc_scale c s Hc), firstn_map, zsum_scale. lia.
  - rewrite (sort_asc_scale c s Hc). unfold py_suffix.
    destruct k as [|k']; [apply zsum_scale|].
    rewrite map_length, skipn_map, zsum_scale. reflexivity.
Qed.

(** ---- Opt is invariant under permutations of the values ---- *)
Lemma Attainable_perm_iff k vs vs' s : Permutation vs vs' -> (Attainable k vs s <-> Attainable k vs' s).
Proof.
  intros P. split; apply Attainable_perm_local; [exact P|symmetry; exact P].
Qed.

Theorem Opt_perm : forall o k vs vs' v, Permutation vs vs' -> Opt o k vs v -> Opt o k vs' v.
Proof.
  intros o k vs vs' v P [(s & Hs & Hv) Hmin]. split.
  - exists s. split; [|exact Hv]. apply (Attainable_perm_local k vs vs' s P Hs).
  - intros s' Hs'. apply Hmin. apply (Attainable_perm_local k vs' vs s'); [symmetry; exact P|exact Hs'].
Qed.

(** ---- Opt scales ---- *)
Lemma loads_from_scale c vs : forall asg s0,
  loads_from (map (Z.mul c) s0) (map (Z.mul c) vs) asg = map (Z.mul c) (loads_from s0 vs asg).
Proof.
  induction vs as [|x t IH]; intros [|i asg] s0; try reflexivity.
  cbn [map]. rewrite !loads_from_cons. rewrite <- IH. f_equal.
  symmetry. apply map_update. intros a. lia.
Qed.

Lemma loads_scale c k vs asg : loads k (map (Z.mul c) vs) asg = map (Z.mul c) (loads k vs asg).
Proof. rewrite !loads_eq. rewrite <- loads_from_scale, repeat0_scale. reflexivity. Qed.

Lemma Attainable_scale c k vs s : Attainable k vs s -> Attainable k (map (Z.mul c) vs) (map (Z.mul c) s).
Proof.
  intros (asg & Hl & Hv & E). exists asg. split; [rewrite map_length; exact Hl|].
  split; [exact Hv|]. rewrite loads_scale, E. reflexivity.
Qed.

Lemma Attainable_scale_inv c k vs s : Attainable k (map (Z.mul c) vs) s ->
  exists s0, Attainable k vs s0 /\ s = map (Z.mul c) s0.
Proof.
  intros (asg & Hl & Hv & E). rewrite map_length in Hl. exists (loads k vs asg). split.
  - exists asg. split; [exact Hl|]. split; [exact Hv|reflexivity].
  - rewrite <- E. apply loads_scale.
Qed.

Theorem Opt_scale : forall o k vs v c, 0 < c -> Opt o k vs v -> Opt o k (map (Z.mul c) vs) (c * v).
Proof.
  intros o k vs v c Hc [(s & Hs & Hv) Hmin]. split.
  - exists (map (Z.mul c) s). split; [apply Attainable_scale; exact Hs|].
    rewrite (value_scale o c s Hc), Hv. reflexivity.
  - intros s' Hs'. destruct (Attainable_scale_inv c k vs s' Hs') as (s0 & H0 & ->).
    rewrite (value_scale o c s0 Hc). apply Z.mul_le_mono_nonneg_l; [lia|]. apply Hmin; exact H0.
Qed.

(** ---- zeros can be added or removed (k >= 1) ---- *)
Lemma update_add0 i (s : list Z) : update i (fun a => a + 0) s = s.
Proof.
  revert i. induction s as [|x t IH]; intros [|j]; cbn [update]; try reflexivity.
  - rewrite Z.add_0_r. reflexivity.
  - rewrite IH. reflexivity.
Qed.

Lemma Attainable_zero_cons k vs s : (1 <= k)%nat -> (Attainable k (0 :: vs) s <-> Attainable k vs s).
Proof.
  intros Hk. split.
  - intros (asg & Hl & Hv & E). destruct asg as [|i asg]; [discriminate Hl|].
    cbn [length] in Hl. inversion Hv as [|i' t' Hi Hv']; subst i' t'.
    exists asg. split; [lia|]. split; [exact Hv'|].
    rewrite loads_eq in E. rewrite loads_from_cons, update_add0 in E. rewrite loads_eq. exact E.
  - intros (asg & Hl & Hv & E). exists (O :: asg). split; [cbn [length]; lia|].
    split; [constructor; [lia|exact Hv]|].
    rewrite loads_eq, loads_from_cons, update_add0, <- loads_eq. exact E.
Qed.

Lemma Attainable_zeros_front k vs s n : (1 <= k)%nat ->
  (Attainable k (repeat 0 n ++ vs) s <-> Attainable k vs s).
Proof.
  intros Hk. induction n as [|n IH]; [reflexivity|].
  cbn [repeat app]. rewrite (Attainable_zero_cons k _ s Hk). exact IH.
Qed.

Lemma Opt_ext o k vs vs' v : (forall s, Attainable k vs s <-> Attainable k vs' s) ->
  Opt o k vs v -> Opt o k vs' v.
Proof.
  intros H [(s & Hs & Hv) Hmin]. split.
  - exists s. split; [apply H; exact Hs|exact Hv].
  - intros s' Hs'. apply Hmin. apply H. exact Hs'.
Qed.

Theorem Opt_zeros : forall o k vs v n, (1 <= k)%nat -> Opt o k vs v -> Opt o k (vs ++ repeat 0 n) v.
Proof.
  intros o k vs v n Hk H. apply (Opt_perm o k (repeat 0 n ++ vs)); [apply Permutation_app_comm|].
  apply (Opt_ext o k vs); [|exact H]. intros s. symmetry. apply Attainable_zeros_front; exact Hk.
Qed.

Theorem Opt_zeros_inv : forall o k vs v n, (1 <= k)%nat -> Opt o k (vs ++ repeat 0 n) v -> Opt o k vs v.
Proof.
  intros o k vs v n Hk H. apply (Opt_ext o k (repeat 0 n ++ vs)); [intros s; apply Attainable_zeros_front; exact Hk|].
  apply (Opt_perm o k (vs ++ repeat 0 n)); [apply Permutation_app_comm|exact H].
Qed.

(** zeros inserted anywhere *)
Theorem Opt_insert_zeros : forall o k vs vs' v n, (1 <= k)%nat ->
  Permutation vs' (vs ++ repeat 0 n) -> (Opt o k vs v <-> Opt o k vs' v).
Proof.
  intros o k vs vs' v n Hk P. split; intros H.
  - apply (Opt_perm o k (vs ++ repeat 0 n)); [symmetry; exact P|]. apply Opt_zeros; assumption.
  - apply (Opt_zeros_inv o k vs v n Hk). apply (Opt_perm o k vs'); [exact P|exact H].
Qed.

(** [1 <= k] is needed: with no bins the empty list has an optimum, a list of zeros has none *)
Example Opt_zeros_needs_a_bin :
  Opt MinLargest 0 [] 0 /\ ~ Opt MinLargest 0 ([] ++ repeat 0 1) 0.
Proof.
  split.
  - split.
    + exists []. split; [apply (Attainable_nil 0)|reflexivity].
    + intros s Hs. apply Attainable_nil_inv in Hs. subst s. cbn. lia.
  - intros [(s & (asg & Hl & Hv & _) & _) _]. destruct asg as [|i asg]; [discriminate Hl|].
    inversion Hv as [|i' t' Hi _]. lia.
Qed.

(** ---- the optimum is unique ---- *)
Theorem Opt_unique : forall o k vs v v', Opt o k vs v -> Opt o k vs v' -> v = v'.
Proof.
  intros o k vs v v' [(s & Hs & Hv) Hmin] [(s' & Hs' & Hv') Hmin'].
  pose proof (Hmin s' Hs') as H1. pose proof (Hmin' s Hs) as H2. lia.
Qed.
