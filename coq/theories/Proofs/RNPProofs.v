(** Recursive number partitioning (Model/SNP.v, [rnp]) on 4 and 5 bins: the result is a
    partition (C01), extending [rnp_partition_small] (1..3 bins) of Proofs/SNPProofs.v.

    Structure of the model followed here:
      4 bins (even): every 2-way split (l1, l2) yielded by the CKK generator is completed by
                     ckk 2 l1 ++ ckk 2 l2;
      5 bins (odd):  the inclusion-exclusion search picks a first bin [cur]; the other items
                     (find_diff items cur) go through the 4-bin case; the result is
                     [bin_of cur] ++ (those 4 bins).
    Invariant: bins so far + remaining items = input.  A recursive call returns either the
    incumbent [best] itself or a partition of ITS items into ITS number of bins; in the first
    case the caller keeps the incumbent ([spread_app_ge]: adding bins never lowers the spread).

    Section hypothesis [Hinj] (equal names mean equal items) as in SNPProofs: find_diff works on
    names. *)
From Prtpy Require Import Base.Prelude Model.Binner Model.KK Model.InExTree Model.SNP
  Spec.Partition Proofs.BaseLemmas Proofs.BinnerLemmas Proofs.KKProofs Proofs.EnumProofs Proofs.SNPProofs.
From Coq Require Import Sorting.Sorted.
From Coq Require Import ZifyBool.

(** ---- examples (vm_compute): numeric items, name = value ---- *)
Definition rid (x : Z) : Z := x.

Example rnp4_ex1 :
  rnp rid rid true 4 [4; 5; 7; 8; 6] = Ok [(6, [6]); (7, [7]); (8, [8]); (9, [4; 5])].
Proof. vm_compute. reflexivity. Qed.

Example rnp4_ex2 : rmap (@sums Z) (rnp rid rid true 4 [1; 3; 3; 4; 4; 5; 5; 5]) = Ok [6; 8; 8; 8].
Proof. vm_compute. reflexivity. Qed.

Example rnp5_ex1 :
  rnp rid rid true 5 [1; 2; 3; 4; 5; 6; 7; 8; 9]
  = Ok [(9, [2; 7]); (9, [4; 5]); (9, [9]); (9, [3; 6]); (9, [1; 8])].
Proof. vm_compute. reflexivity. Qed.

Example rnp5_ex2 :
  rnp rid rid true 5 [3; 16; 22; 24; 24; 29]
  = Ok [(19, [16; 3]); (22, [22]); (24, [24]); (24, [24]); (29, [29])].
Proof. vm_compute. reflexivity. Qed.

(** fewer items than bins *)
Example rnp5_ex3 : rnp rid rid true 5 [1; 2] = Ok [(0, []); (0, []); (0, []); (1, [1]); (2, [2])].
Proof. vm_compute. reflexivity. Qed.

(** 6 bins: the float bin count of the pinned code (6/2 = 3.0 used as an index) *)
Example rnp6_ex : rnp rid rid true 6 [4; 5; 7; 8; 6; 9; 3] = Err IndexError.
Proof. vm_compute. reflexivity. Qed.

(** ---- adding numbers to a non-empty list never lowers max - min ---- *)
Lemma spread_app_ge (l l' : list Z) : l <> [] -> spread l <= spread (l ++ l').
Proof.
  intros Hne. unfold spread.
  assert (H1 : zmax l <= zmax (l ++ l')).
  { apply In_zmax_le. apply in_or_app. left. apply zmax_in. exact Hne. }
  assert (H2 : zmin (l ++ l') <= zmin l).
  { apply In_zmin_ge. apply in_or_app. left. apply zmin_in. exact Hne. }
  lia.
Qed.

Section RNPProofs.
  Context {A : Type} (valueof nameof : A -> Z).
  Hypothesis Hinj : forall x y : A, nameof x = nameof y -> x = y.

  Local Notation vsum := (vsum valueof).
  Local Notation bin_of := (bin_of valueof true).
  Local Notation find_diff := (find_diff nameof).
  Local Notation rnp_rec := (rnp_rec valueof nameof true).
  Local Notation ckk2 := (ckk valueof nameof true 2).
  Local Notation isP := (is_partition valueof).

  (** ---- 1. one unfolding of rnp_rec ---- *)

  (** a leaf of the inclusion-exclusion search (odd number of bins) *)
  Definition rnpp_next_odd (f kc : nat) (isfloat : bool) (prior : bins A) (items : list A)
             (cur : list A) (best : bins A) : result (bins A) :=
    if isfloat && negb (Nat.eqb (length cur) 0) then Err IndexError
    else
      let prior' := prior ++ [bin_of cur] in
      match rnp_rec f (kc - 1) isfloat prior' (find_diff items cur) best with
      | Err e => Err e
      | Ok nb =>
          if spread (sums nb ++ sums prior') <? bins_spread best
          then Ok (prior' ++ nb) else Ok best
      end.

  (** one 2-way split of the generator (even number of bins) *)
  Definition rnpp_step_even (f kc : nat) (prior : bins A) (d0 : Z)
             (acc : result (bins A)) (part : bins A) : result (bins A) :=
    match acc with
    | Err e => Err e
    | Ok best =>
        let l1 := snd (nth 0 part empty_bin) in
        let l2 := snd (nth 1 part empty_bin) in
        match rnp_rec f (Nat.div kc 2) true prior l1 best with
        | Err e => Err e
        | Ok nb1 =>
            match rnp_rec f (Nat.div kc 2) true prior l2 best with
            | Err e => Err e
            | Ok nb2 =>
                if spread (sums nb1 ++ sums nb2) <? d0 then Ok (nb1 ++ nb2) else Ok best
            end
        end
    end.

  Lemma rnpp_rec_S f kc isfloat prior items best :
    rnp_rec (S f) kc isfloat prior items best =
    if Nat.eqb kc 2 then ckk2 items
    else if Nat.odd kc then
      rnp_dfs valueof (rnpp_next_odd f kc isfloat prior items)
              (Z.of_nat kc) (vsum items) (bins_spread best) (sort_desc valueof items) [] best
    else
      fold_left (rnpp_step_even f kc prior (bins_spread best))
                (ckk_generator valueof nameof true 2 items (Some (- bins_spread best))) (Ok best).
  Proof. reflexivity. Qed.

  Lemma rnpp_rec_2 f isfloat prior items best : rnp_rec (S f) 2 isfloat prior items best = ckk2 items.
  Proof. reflexivity. Qed.

  (** ---- 2. two bins: ckk ---- *)
  Lemma ckk2_ok l b : ckk2 l = Ok b -> isP 2 l b.
  Proof.
    intros H. destruct l as [|y ys]; [rewrite ckk_nil in H; discriminate H|].
    destruct (ckk_partition valueof nameof 2 (y :: ys)) as (two & E & P2); [lia|discriminate|].
    rewrite E in H. injection H as <-. exact P2.
  Qed.

  Lemma part2_contents (part : bins A) : length part = 2%nat ->
    contents part = snd (nth 0 part empty_bin) ++ snd (nth 1 part empty_bin).
  Proof.
    intros HL. destruct part as [|a [|b [|c t]]]; try discriminate HL.
    unfold contents, lists. cbn [map concat nth]. rewrite app_nil_r. reflexivity.
  Qed.

  (** two 2-partitions of the two halves of a 2-partition make a 4-partition *)
  Lemma halves_partition items part nb1 nb2 :
    isP 2 items part ->
    isP 2 (snd (nth 0 part empty_bin)) nb1 -> isP 2 (snd (nth 1 part empty_bin)) nb2 ->
    isP 4 items (nb1 ++ nb2).
  Proof.
    intros (HP & HL & _) (P1 & L1 & W1) (P2 & L2 & W2). split; [|split].
    - rewrite contents_app, P1, P2, <- (part2_contents part HL). exact HP.
    - rewrite app_length, L1, L2. reflexivity.
    - apply Forall_app. split; assumption.
  Qed.

  (** ---- 3. four bins ---- *)

  (** the loop over the 2-way splits: the result is the incumbent it started from, or a
      4-partition *)
  Lemma rnp_even4_fold f prior d0 items best0 : forall parts acc,
    Forall (isP 2 items) parts ->
    (forall b, acc = Ok b -> b = best0 \/ isP 4 items b) ->
    forall b, fold_left (rnpp_step_even (S f) 4 prior d0) parts acc = Ok b ->
              b = best0 \/ isP 4 items b.
  Proof.
    induction parts as [|part ps IH]; intros acc Hparts Hacc b H; cbn [fold_left] in H.
    - apply Hacc. exact H.
    - inversion Hparts as [|? ? Hpart Hps]; subst.
      apply (IH (rnpp_step_even (S f) 4 prior d0 acc part)); [exact Hps| |exact H].
      intros b1 H1. destruct acc as [bc|e]; [|discriminate H1].
      unfold rnpp_step_even in H1. change (Nat.div 4 2) with 2%nat in H1. cbv zeta in H1.
      rewrite !rnpp_rec_2 in H1.
      destruct (ckk2 (snd (nth 0 part empty_bin))) as [nb1|e1] eqn:E1; [|discriminate H1].
      destruct (ckk2 (snd (nth 1 part empty_bin))) as [nb2|e2] eqn:E2; [|discriminate H1].
      destruct (spread (sums nb1 ++ sums nb2) <? d0); injection H1 as <-.
      + right. apply (halves_partition items part); [exact Hpart|apply ckk2_ok; exact E1|apply ckk2_ok; exact E2].
      + apply Hacc. reflexivity.
  Qed.

  Lemma rnp_rec_4 f isfloat prior items best b :
    rnp_rec (S (S f)) 4 isfloat prior items best = Ok b -> b = best \/ isP 4 items b.
  Proof.
    intros H. rewrite rnpp_rec_S in H.
    change (Nat.eqb 4 2) with false in H. change (Nat.odd 4) with false in H. cbv iota in H.
    apply (rnp_even4_fold f prior (bins_spread best) items best _ (Ok best)) in H; [exact H| |].
    - apply Forall_forall. intros part Hp.
      apply (ckk_generator_valid_any valueof nameof 2 items (Some (- bins_spread best)) part); [lia|exact Hp].
    - intros b0 E. injection E as <-. left. reflexivity.
  Qed.

  (** ---- 4. five bins ---- *)

  (** a leaf of the search for the first bin keeps "the incumbent is a 5-partition" *)
  Lemma rnp_next5 f items c b b' :
    (exists ex, Permutation (c ++ ex) items) -> isP 5 items b ->
    rnpp_next_odd (S (S f)) 5 false [] items c b = Ok b' -> isP 5 items b'.
  Proof.
    intros Hc Pb H. unfold rnpp_next_odd in H. cbn [andb] in H. cbv zeta in H.
    change (5 - 1)%nat with 4%nat in H. cbn [app] in H.
    destruct (rnp_rec (S (S f)) 4 false [bin_of c] (find_diff items c) b) as [nb|e] eqn:E4; [|discriminate H].
    destruct (rnp_rec_4 f false [bin_of c] (find_diff items c) b nb E4) as [->|P4].
    - (* the 4-bin call gave the incumbent back: it is kept *)
      assert (Hge : spread (sums b) <= spread (sums b ++ sums [bin_of c])).
      { apply spread_app_ge. destruct Pb as (_ & HL & _). destruct b; [discriminate HL|discriminate]. }
      unfold bins_spread in H.
      destruct (spread (sums b ++ sums [bin_of c]) <? spread (sums b)) eqn:El; [lia|].
      injection H as <-. exact Pb.
    - destruct (spread (sums nb ++ sums [bin_of c]) <? bins_spread b); injection H as <-; [|exact Pb].
      destruct P4 as (P4 & L4 & W4). split; [|split].
      + cbn [app]. rewrite contents_cons, bin_of_eq. cbn [snd]. rewrite P4.
        apply (find_diff_perm nameof Hinj). exact Hc.
      + cbn [app length]. rewrite L4. reflexivity.
      + cbn [app]. constructor; [apply bin_of_wf|exact W4].
  Qed.

  Lemma rnp_rec_5 f items best b :
    isP 5 items best ->
    rnp_rec (S (S (S f))) 5 false [] items best = Ok b -> isP 5 items b.
  Proof.
    intros Pbest H. rewrite rnpp_rec_S in H.
    change (Nat.eqb 5 2) with false in H. change (Nat.odd 5) with true in H. cbv iota in H.
    apply (rnp_dfs_preserves valueof (isP 5 items) items) in H; [exact H| | |exact Pbest].
    - intros c b0 b' Hc Pb0 En. apply (rnp_next5 f items c b0 b' Hc Pb0 En).
    - exists []. cbn [app]. rewrite app_nil_r. apply sort_desc_perm.
  Qed.

  (** ---- 5. C01 for 4 and 5 bins ---- *)
  Theorem rnp_partition_45 : forall k items b, (k = 4 \/ k = 5)%nat -> items <> [] ->
    rnp valueof nameof true k items = Ok b -> is_partition valueof k items b.
  Proof.
    intros k items b Hk Hne Hr.
    destruct (kk_partition valueof k items ltac:(lia) Hne) as (best & E & Hbest).
    unfold rnp in Hr. rewrite E in Hr.
    destruct (bins_spread best =? 0); [injection Hr as <-; exact Hbest|].
    destruct Hk as [-> | ->].
    - destruct (rnp_rec_4 3 false [] items best b Hr) as [->|P4]; [exact Hbest|exact P4].
    - apply (rnp_rec_5 3 items best b Hbest Hr).
  Qed.

  (** with [rnp_partition_small]: every bin count for which the pinned code can return at all
      without the float-index error at the first level *)
  Corollary rnp_partition_le5 : forall k items b, (1 <= k <= 5)%nat -> items <> [] ->
    rnp valueof nameof true k items = Ok b -> is_partition valueof k items b.
  Proof.
    intros k items b Hk Hne Hr.
    destruct (Nat.le_gt_cases k 3) as [H3|H3].
    - apply (rnp_partition_small valueof nameof Hinj k items b); [lia|exact Hne|exact Hr].
    - apply rnp_partition_45; [lia|exact Hne|exact Hr].
  Qed.
  (** ------------------------------------------------------------------ *)
  (** * 6. totality for values >= 0: rnp on 1..5 bins returns (no error)  *)
  (** ------------------------------------------------------------------ *)
  (** The only ways the model of 1..5 bins can fail are ckk on an empty list (OtherError, the
      UnboundLocalError of the Python code).  That needs an empty side of a 2-way split, or a
      first bin holding every item; with values >= 0 neither survives the pruning tests:
      - a split with an empty side has difference = total, and only splits of difference
        below the incumbent's spread are yielded ([generator_bounded]);
      - a first bin [c] is only expanded when kc * sum(c) <= total. *)
  Local Notation nonneg := (Forall (fun x : A => 0 <= valueof x)).

  Lemma value_le_vsum x l : nonneg l -> In x l -> valueof x <= vsum l.
  Proof.
    induction l as [|y t IH]; intros Hnn Hin; [destruct Hin|].
    inversion Hnn as [|? ? Hy Ht]; subst. rewrite vsum_cons.
    pose proof (nonneg_vsum valueof t Ht) as H0.
    destruct Hin as [->|Hin]; [lia|]. specialize (IH Ht Hin). lia.
  Qed.

  (** in bounded mode the generator only yields splits whose difference is below the bound *)
  Lemma generator_bounded k items d0 part :
    In part (ckk_generator valueof nameof true k items (Some (- d0))) -> bins_diff part < d0.
  Proof.
    intros Hp. unfold ckk_generator in Hp. apply in_rev in Hp.
    assert (G : Pst (fun best _ ys => best = Some (- d0) /\ Forall (fun y : bins A => bins_diff y < d0) ys)
                    (ckk_run valueof nameof true false (Some (- d0)) k items)).
    { unfold ckk_run. apply (explore_preserves nameof false k (Forall (@key_ok A))).
      - intros e1 e2 rest c Hh _. eapply child_Forall; [exact (@pushed_key_ok A)|exact Hh].
      - intros e best part0 ys Hh Hg [Hb Hys]. split; [exact Hb|]. constructor; [|exact Hys].
        pose proof (Forall_inv Hh) as Hk. unfold key_ok in Hk. subst best. cbn [gt_best] in Hg. lia.
      - apply initial_heap_Forall. exact (@pushed_key_ok A).
      - unfold Pst. cbn [ckk_best ckk_part ckk_yields]. split; [reflexivity|constructor]. }
    destruct G as [_ G]. rewrite Forall_forall in G. apply G. exact Hp.
  Qed.

  (** a sorted 2-way split of non-negative items whose difference is below d0 <= total has two
      non-empty sides *)
  Lemma part_sides_nonempty items d0 part :
    nonneg items -> d0 <= vsum items -> isP 2 items part ->
    StronglySorted Z.le (sums part) -> bins_diff part < d0 ->
    snd (nth 0 part empty_bin) <> [] /\ snd (nth 1 part empty_bin) <> [].
  Proof.
    intros Hnn Hd (HP & HL & HW) Hs Hdiff.
    destruct part as [|a [|b [|c t]]]; try discriminate HL.
    inversion HW as [|? ? Ha HW']; subst. inversion HW' as [|? ? Hb _]; subst.
    unfold wf_bin in Ha, Hb. fold (vsum (snd a)) in Ha. fold (vsum (snd b)) in Hb.
    unfold contents, lists in HP. cbn [map concat] in HP. rewrite app_nil_r in HP.
    pose proof (vsum_perm valueof _ _ HP) as Et. rewrite vsum_app in Et.
    assert (Hnn' : nonneg (snd a ++ snd b)) by (eapply Permutation_Forall; [symmetry; exact HP|exact Hnn]).
    apply Forall_app in Hnn'. destruct Hnn' as [Hna Hnb].
    pose proof (nonneg_vsum valueof _ Hna) as H0a. pose proof (nonneg_vsum valueof _ Hnb) as H0b.
    unfold sums in Hs. cbn [map] in Hs. inversion Hs as [|? ? _ Hab]; subst.
    pose proof (Forall_inv Hab) as Hle.
    unfold bins_diff, sums in Hdiff. cbn [map last hd] in Hdiff.
    cbn [nth]. split; intros E; rewrite E in *; rewrite vsum_nil in *; lia.
  Qed.

  (** ---- four bins ---- *)
  Lemma rnp_even4_fold_total f prior d0 : forall parts acc,
    Forall (fun part => snd (nth 0 part empty_bin) <> [] /\ snd (nth 1 part (@empty_bin A)) <> []) parts ->
    (exists b, acc = Ok b) ->
    exists b, fold_left (rnpp_step_even (S f) 4 prior d0) parts acc = Ok b.
  Proof.
    induction parts as [|part ps IH]; intros acc Hparts Hacc; cbn [fold_left]; [exact Hacc|].
    inversion Hparts as [|? ? [H1 H2] Hps]; subst. apply IH; [exact Hps|].
    destruct Hacc as (bc & ->). unfold rnpp_step_even. change (Nat.div 4 2) with 2%nat. cbv zeta.
    rewrite !rnpp_rec_2.
    destruct (ckk_partition valueof nameof 2 _ ltac:(lia) H1) as (nb1 & E1 & _).
    destruct (ckk_partition valueof nameof 2 _ ltac:(lia) H2) as (nb2 & E2 & _).
    rewrite E1, E2. destruct (spread (sums nb1 ++ sums nb2) <? d0); eexists; reflexivity.
  Qed.

  Lemma rnp_rec_4_total f isfloat prior items best :
    nonneg items -> bins_spread best <= vsum items ->
    exists b, rnp_rec (S (S f)) 4 isfloat prior items best = Ok b.
  Proof.
    intros Hnn Hd. rewrite rnpp_rec_S.
    change (Nat.eqb 4 2) with false. change (Nat.odd 4) with false. cbv iota.
    apply rnp_even4_fold_total; [|exists best; reflexivity].
    apply Forall_forall. intros part Hp.
    apply (part_sides_nonempty items (bins_spread best)); [exact Hnn|exact Hd| | |].
    - apply (ckk_generator_valid_any valueof nameof 2 items (Some (- bins_spread best)) part); [lia|exact Hp].
    - apply (ckk_generator_sorted valueof nameof 2 items (Some (- bins_spread best)) part Hp).
    - apply (generator_bounded 2 items). exact Hp.
  Qed.

  (** ---- the search for the first bin returns when every expanded leaf does ---- *)
  Lemma rnp_dfs_total (P : bins A -> Prop) (base : list A) next kz t d0 :
    (forall c b, (exists ex, Permutation (c ++ ex) base) -> kz * vsum c <= t -> P b ->
                 exists b', next c b = Ok b' /\ P b') ->
    forall rest cur b, (exists ex, Permutation (cur ++ rest ++ ex) base) -> P b ->
      exists b', rnp_dfs valueof next kz t d0 rest cur b = Ok b' /\ P b'.
  Proof.
    intros Hnext. induction rest as [|x r IH]; intros cur b Hsub Pb; cbn [rnp_dfs];
      destruct ((t <? kz * vsum cur) || _) eqn:Epr.
    - exists b. split; [reflexivity|exact Pb].
    - apply orb_false_iff in Epr. destruct Epr as [Eu _]. destruct Hsub as (ex & HP).
      apply Hnext; [exists ex; exact HP|lia|exact Pb].
    - exists b. split; [reflexivity|exact Pb].
    - destruct Hsub as (ex & HP).
      destruct (IH (cur ++ [x]) b) as (b1 & E1 & P1); [|exact Pb|].
      { exists ex. rewrite <- HP. rewrite <- app_assoc. reflexivity. }
      rewrite E1. apply IH; [|exact P1].
      exists (x :: ex). rewrite <- HP. apply Permutation_app_head. cbn [app].
      symmetry. apply Permutation_middle.
  Qed.

  (** a leaf never raises the incumbent's spread *)
  Lemma rnpp_next_odd_le f kc isfloat prior items c b b' :
    rnpp_next_odd f kc isfloat prior items c b = Ok b' -> bins_spread b' <= bins_spread b.
  Proof.
    unfold rnpp_next_odd. intros H.
    destruct (isfloat && negb (Nat.eqb (length c) 0)); [discriminate H|]. cbv zeta in H.
    destruct (rnp_rec f (kc - 1) isfloat (prior ++ [bin_of c]) (find_diff items c) b) as [nb|e];
      [|discriminate H].
    destruct (spread (sums nb ++ sums (prior ++ [bin_of c])) <? bins_spread b) eqn:El;
      injection H as <-; [|lia].
    unfold bins_spread at 1. rewrite sums_app.
    rewrite (spread_perm _ _ (Permutation_app_comm (sums (prior ++ [bin_of c])) (sums nb))). lia.
  Qed.

  (** ---- three bins: the leaf ---- *)
  Lemma rnp_next3_total f items c b :
    0 < vsum items -> (exists ex, Permutation (c ++ ex) items) -> 3 * vsum c <= vsum items ->
    exists b', rnpp_next_odd (S f) 3 false [] items c b = Ok b'.
  Proof.
    intros Ht Hc Hu. unfold rnpp_next_odd. cbn [andb]. cbv zeta. change (3 - 1)%nat with 2%nat.
    rewrite rnpp_rec_2.
    pose proof (find_diff_perm nameof Hinj items c Hc) as HPf.
    destruct (find_diff items c) as [|y ys] eqn:Ef.
    - exfalso. rewrite app_nil_r in HPf. pose proof (vsum_perm valueof _ _ HPf) as E. lia.
    - destruct (ckk_partition valueof nameof 2 (y :: ys)) as (two & E2 & _); [lia|discriminate|].
      rewrite E2. destruct (_ <? _); eexists; reflexivity.
  Qed.

  (** ---- five bins: the leaf keeps "5-partition with spread <= M" and returns ---- *)
  Lemma rnp_next5_total f items c b M :
    nonneg items -> (exists x, In x items /\ valueof x = M) ->
    (exists ex, Permutation (c ++ ex) items) -> 5 * vsum c <= vsum items ->
    isP 5 items b /\ bins_spread b <= M ->
    exists b', rnpp_next_odd (S (S f)) 5 false [] items c b = Ok b' /\
               (isP 5 items b' /\ bins_spread b' <= M).
  Proof.
    intros Hnn (x & Hx & HM) Hc Hu [Pb Hb].
    pose proof (find_diff_perm nameof Hinj items c Hc) as HPf.
    assert (Hnn' : nonneg (c ++ find_diff items c)) by (eapply Permutation_Forall; [symmetry; exact HPf|exact Hnn]).
    apply Forall_app in Hnn'. destruct Hnn' as [Hnc Hnr].
    pose proof (vsum_perm valueof _ _ HPf) as Et. rewrite vsum_app in Et.
    pose proof (nonneg_vsum valueof _ Hnc) as H0c. pose proof (nonneg_vsum valueof _ Hnr) as H0r.
    assert (HMr : M <= vsum (find_diff items c)).
    { assert (Hx' : In x (c ++ find_diff items c)) by (eapply Permutation_in; [symmetry; exact HPf|exact Hx]).
      apply in_app_or in Hx'. destruct Hx' as [Hxc|Hxr].
      - pose proof (value_le_vsum x c Hnc Hxc). lia.
      - pose proof (value_le_vsum x _ Hnr Hxr). lia. }
    assert (Hex : exists b', rnpp_next_odd (S (S f)) 5 false [] items c b = Ok b').
    { unfold rnpp_next_odd. cbn [andb]. cbv zeta. change (5 - 1)%nat with 4%nat.
      destruct (rnp_rec_4_total f false ([] ++ [bin_of c]) (find_diff items c) b Hnr ltac:(lia)) as (nb & E4).
      rewrite E4. destruct (_ <? _); eexists; reflexivity. }
    destruct Hex as (b' & E). exists b'. split; [exact E|]. split.
    - apply (rnp_next5 f items c b b' Hc Pb E).
    - pose proof (rnpp_next_odd_le _ _ _ _ _ _ _ _ E). lia.
  Qed.

  (** the largest value is the value of some item and is at most the total *)
  Lemma max_value_item items : items <> [] ->
    exists x, In x items /\ valueof x = zmax (map valueof items).
  Proof.
    intros Hne. assert (Hm : map valueof items <> []) by (destruct items; [congruence|discriminate]).
    pose proof (zmax_in _ Hm) as Hin. apply in_map_iff in Hin. destruct Hin as (x & E & Hx).
    exists x. split; [exact Hx|exact E].
  Qed.

  Theorem rnp_total_le5 : forall k items, (1 <= k <= 5)%nat -> items <> [] -> nonneg items ->
    exists b, rnp valueof nameof true k items = Ok b.
  Proof.
    intros k items Hk Hne Hnn.
    destruct (kk_partition valueof k items ltac:(lia) Hne) as (best & E & Hbest).
    unfold rnp. rewrite E.
    destruct (bins_spread best =? 0) eqn:E0; [exists best; reflexivity|].
    assert (Ht : 0 < vsum items).
    { pose proof (nonneg_vsum valueof items Hnn) as H0.
      destruct (Z.eq_dec (vsum items) 0) as [Ez|Ez]; [|lia].
      pose proof (zero_total_perfect valueof k items best Hbest Hnn Ez). lia. }
    destruct (max_value_item items Hne) as (xM & HxM & EM).
    set (M := zmax (map valueof items)) in *.
    assert (Hgap : bins_spread best <= M).
    { apply (kk_gap valueof k items best); [lia|exact Hne|exact Hnn|exact E]. }
    assert (HMt : M <= vsum items) by (rewrite <- EM; apply value_le_vsum; assumption).
    assert (Hk' : k = 1%nat \/ k = 2%nat \/ k = 3%nat \/ k = 4%nat \/ k = 5%nat) by lia.
    destruct Hk' as [->|[->|[->|[->| ->]]]].
    - exfalso. destruct Hbest as (_ & HLb & _). destruct best as [|[x lx] [|? ?]]; try discriminate HLb.
      unfold bins_spread, spread in E0. cbn in E0. lia.
    - change (rnp_rec 3 2 false [] items best) with (ckk2 items).
      destruct (ckk_partition valueof nameof 2 items) as (two & E2 & _); [lia|exact Hne|].
      exists two. exact E2.
    - rewrite rnpp_rec_S. change (Nat.eqb 3 2) with false. change (Nat.odd 3) with true. cbv iota.
      destruct (rnp_dfs_total (fun _ => True) items (rnpp_next_odd 3 3 false [] items) (Z.of_nat 3)
                  (vsum items) (bins_spread best)) with (rest := sort_desc valueof items) (cur := @nil A) (b := best)
        as (b' & Eb & _).
      + intros c b Hc Hu _. destruct (rnp_next3_total 2 items c b Ht Hc ltac:(lia)) as (b' & Eb).
        exists b'. split; [exact Eb|exact I].
      + exists []. cbn [app]. rewrite app_nil_r. apply sort_desc_perm.
      + exact I.
      + exists b'. exact Eb.
    - apply rnp_rec_4_total; [exact Hnn|lia].
    - rewrite rnpp_rec_S. change (Nat.eqb 5 2) with false. change (Nat.odd 5) with true. cbv iota.
      destruct (rnp_dfs_total (fun b => isP 5 items b /\ bins_spread b <= M) items
                  (rnpp_next_odd 5 5 false [] items) (Z.of_nat 5)
                  (vsum items) (bins_spread best)) with (rest := sort_desc valueof items) (cur := @nil A) (b := best)
        as (b' & Eb & _).
      + intros c b Hc Hu Pb. apply (rnp_next5_total 3 items c b M Hnn); [|exact Hc|lia|exact Pb].
        exists xM. split; [exact HxM|exact EM].
      + exists []. cbn [app]. rewrite app_nil_r. apply sort_desc_perm.
      + split; [exact Hbest|exact Hgap].
      + exists b'. exact Eb.
  Qed.

  (** C01 in full for 1..5 bins and values >= 0: rnp returns, and what it returns is a partition *)
  Corollary rnp_correct_le5 : forall k items, (1 <= k <= 5)%nat -> items <> [] -> nonneg items ->
    exists b, rnp valueof nameof true k items = Ok b /\ is_partition valueof k items b.
  Proof.
    intros k items Hk Hne Hnn. destruct (rnp_total_le5 k items Hk Hne Hnn) as (b & E).
    exists b. split; [exact E|]. apply (rnp_partition_le5 k items b Hk Hne E).
  Qed.
End RNPProofs.

(* OPEN / not covered here:
   - k >= 6.  6, 7, 10, ... bins end in Err IndexError at the first odd level below an even one
     (example rnp6_ex), so there is nothing to prove about an Ok result there except vacuously;
     8 = 4 + 4 does return, but is not covered: in the even branch the test
     "spread (sums nb1 ++ sums nb2) < d0" compares with the spread d0 of the incumbent AT ENTRY,
     while a half can come back as the CURRENT incumbent (rnp_rec_4: "b = best \/ partition"),
     so the argument "an incumbent handed back is never accepted as new bins" ([spread_app_ge],
     used for 5 = 1 + 4 in rnp_next5) does not go through as it stands.  A vm_compute search
     over 300 random inputs (10-11 items) found no 8-bin result with a wrong number of bins.
   - [rnp_total_le5] assumes values >= 0 (used for kk_gap: spread of the KK start <= largest
     value, and for the pruning arguments).  No failing input with negative values was found
     (exhaustive vm_compute search, lists of length <= 4 over -3..3, k = 3, 4, 5), so the
     hypothesis is what the proof needs, not a known necessity.
   - the sums-only manager (keep = false) is not treated here (see EraseProofs). *)

Check @rnp_partition_45.
Check @rnp_partition_le5.
Check @rnp_total_le5.
Check @rnp_correct_le5.
Print Assumptions rnp_partition_45.
Print Assumptions rnp_partition_le5.
Print Assumptions rnp_total_le5.
Print Assumptions rnp_correct_le5.
