(** Property C16: the heap-level model of the bins managers (Model/BinnerHeap.v: numpy
    buffers, array views, Python list objects with identity) refines the documented
    effect of every operation on abstract bins-arrays (Spec/AbsBins.v), for every
    finite sequence of operations that respects the hand-over discipline.

    Layers: (a) list/table lemmas, (b) the invariant, frame lemmas for [abs_handle],
    (c) effect lemmas per operation, (d) the one-step simulation, (e) the fold and the
    corollaries (wf, sort, copy independence, unmodified arguments), (f) a concrete run. *)
From Prtpy Require Import Base.Prelude Model.Binner Model.BinnerHeap Spec.AbsBins
  Proofs.BaseLemmas Proofs.BinnerLemmas.
From Coq Require Import Sorting.Sorted ZifyBool.

(** * (a) list and table lemmas *)
Section ListLemmas.
  Context {T : Type}.

  Lemma nth_opt_Some_lt (l : list T) i x : nth_opt l i = Some x -> (i < length l)%nat.
  Proof.
    revert i; induction l as [|y t IH]; intros [|j] H; simpl in *; try discriminate; try lia.
    apply IH in H. lia.
  Qed.

  Lemma nth_opt_lt (l : list T) i d : (i < length l)%nat -> nth_opt l i = Some (nth i l d).
  Proof.
    revert i; induction l as [|y t IH]; intros [|j] H; simpl in *; try lia; auto. apply IH; lia.
  Qed.

  Lemma nth_opt_nth (l : list T) i x d : nth_opt l i = Some x -> nth i l d = x.
  Proof.
    intros H. pose proof (nth_opt_Some_lt _ _ _ H) as Hl.
    rewrite (nth_opt_lt l i d Hl) in H. congruence.
  Qed.

  Lemma nth_opt_None_ge (l : list T) i : (length l <= i)%nat -> nth_opt l i = None.
  Proof.
    revert i; induction l as [|y t IH]; intros [|j] H; simpl in *; try lia; auto. apply IH; lia.
  Qed.

  Lemma nth_opt_app_l (l1 l2 : list T) i : (i < length l1)%nat -> nth_opt (l1 ++ l2) i = nth_opt l1 i.
  Proof.
    revert i; induction l1 as [|y t IH]; intros [|j] H; simpl in *; try lia; auto. apply IH; lia.
  Qed.

  Lemma nth_opt_app_r (l1 l2 : list T) i : (length l1 <= i)%nat ->
    nth_opt (l1 ++ l2) i = nth_opt l2 (i - length l1).
  Proof.
    revert i; induction l1 as [|y t IH]; intros i H; simpl in *.
    - f_equal. lia.
    - destruct i as [|j]; [lia|]. apply IH; lia.
  Qed.

  Lemma nth_opt_snoc_last (l : list T) x : nth_opt (l ++ [x]) (length l) = Some x.
  Proof. rewrite nth_opt_app_r by lia. rewrite Nat.sub_diag. reflexivity. Qed.

  Lemma nth_opt_update_same (l : list T) i f x : nth_opt l i = Some x -> nth_opt (update i f l) i = Some (f x).
  Proof.
    revert i; induction l as [|y t IH]; intros [|j] H; simpl in *; try discriminate; auto. congruence.
  Qed.

  Lemma nth_opt_update_other (l : list T) i j f : i <> j -> nth_opt (update i f l) j = nth_opt l j.
  Proof.
    revert i j; induction l as [|y t IH]; intros [|i] [|j] H; simpl; try congruence; auto.
  Qed.

  Lemma nth_opt_In (l : list T) i x : nth_opt l i = Some x -> In x l.
  Proof.
    revert i; induction l as [|y t IH]; intros [|j] H; simpl in *; try discriminate.
    - left; congruence.
    - right; eauto.
  Qed.

  Lemma update_ext (f g : T -> T) i l : (forall x, In x l -> f x = g x) -> update i f l = update i g l.
  Proof.
    revert i; induction l as [|y t IH]; intros [|j] H; simpl; auto.
    - f_equal. apply H. left; reflexivity.
    - f_equal. apply IH. intros x Hx. apply H. right; exact Hx.
  Qed.

  Lemma firstn_update_lt (f : T -> T) i n l : (i < n)%nat -> firstn n (update i f l) = update i f (firstn n l).
  Proof.
    revert i n; induction l as [|y t IH]; intros [|j] [|m] H; simpl; try lia; auto.
    f_equal. apply IH. lia.
  Qed.

  Lemma nth_app_l (l1 l2 : list T) i d : (i < length l1)%nat -> nth i (l1 ++ l2) d = nth i l1 d.
  Proof. intros H. apply app_nth1. exact H. Qed.

  Lemma nth_snoc_last (l : list T) x d : nth (length l) (l ++ [x]) d = x.
  Proof. rewrite app_nth2 by lia. rewrite Nat.sub_diag. reflexivity. Qed.

  Lemma NoDup_app_iff (l1 l2 : list T) :
    NoDup (l1 ++ l2) <-> NoDup l1 /\ NoDup l2 /\ (forall x, In x l1 -> In x l2 -> False).
  Proof.
    induction l1 as [|y t IH]; simpl.
    - split.
      + intros H. repeat split; auto. constructor.
      + intros (_ & H & _). exact H.
    - split.
      + intros H. inversion H as [|y' t' Hn Hd]; subst.
        apply IH in Hd. destruct Hd as (H1 & H2 & H3).
        repeat split; auto.
        * constructor; auto. intros Hi. apply Hn. apply in_or_app. left; exact Hi.
        * intros x [Hx|Hx] Hx2.
          -- subst. apply Hn. apply in_or_app. right; exact Hx2.
          -- eapply H3; eauto.
      + intros (H1 & H2 & H3). inversion H1 as [|y' t' Hn Hd]; subst.
        constructor.
        * intros Hi. apply in_app_or in Hi. destruct Hi as [Hi|Hi]; [auto|].
          apply (H3 y); auto.
        * apply IH. repeat split; auto. intros x Hx Hx2. apply (H3 x); auto.
  Qed.

  Lemma NoDup_firstn n (l : list T) : NoDup l -> NoDup (firstn n l).
  Proof.
    intros H. rewrite <- (firstn_skipn n l) in H. apply NoDup_app_iff in H. tauto.
  Qed.

  Lemma In_firstn n (l : list T) x : In x (firstn n l) -> In x l.
  Proof. intros H. rewrite <- (firstn_skipn n l). apply in_or_app. left; exact H. Qed.
End ListLemmas.

Lemma nth_opt_map {T U} (f : T -> U) l i : nth_opt (map f l) i = option_map f (nth_opt l i).
Proof. revert i; induction l as [|y t IH]; intros [|j]; simpl; auto. Qed.

Lemma nth_opt_combine {T U} (l1 : list T) (l2 : list U) i :
  nth_opt (combine l1 l2) i =
  match nth_opt l1 i, nth_opt l2 i with Some a, Some b => Some (a, b) | _, _ => None end.
Proof.
  revert l2 i; induction l1 as [|x t IH]; intros [|y u] [|j]; simpl; auto.
  - destruct (nth_opt t j); reflexivity.
Qed.

Lemma combine_update {T U} (f1 : T -> T) (f2 : U -> U) i (l1 : list T) (l2 : list U) :
  combine (update i f1 l1) (update i f2 l2) = update i (fun p => (f1 (fst p), f2 (snd p))) (combine l1 l2).
Proof.
  revert i l2; induction l1 as [|x t IH]; intros [|j] [|y u]; simpl; auto. f_equal. apply IH.
Qed.

Lemma combine_app {T U} (l1 l1' : list T) (l2 l2' : list U) : length l1 = length l2 ->
  combine (l1 ++ l1') (l2 ++ l2') = combine l1 l2 ++ combine l1' l2'.
Proof.
  revert l2; induction l1 as [|x t IH]; intros [|y u] H; simpl in *; try discriminate; auto.
  f_equal. apply IH. lia.
Qed.

Lemma combine_map_r {T U V} (g : U -> V) (l1 : list T) (l2 : list U) :
  combine l1 (map g l2) = map (fun p => (fst p, g (snd p))) (combine l1 l2).
Proof. revert l2; induction l1 as [|x t IH]; intros [|y u]; simpl; auto. f_equal. apply IH. Qed.

(** [g'] agrees with [g] except at the id [a], which occurs exactly once (at position i) *)
Lemma map_update_nodup {U} (g g' : nat -> U) (f : U -> U) (l : list nat) i a :
  NoDup l -> nth_opt l i = Some a -> (forall j, j <> a -> g' j = g j) -> g' a = f (g a) ->
  map g' l = update i f (map g l).
Proof.
  intros Hnd Hi Hoth Ha. revert i Hi; induction Hnd as [|y t Hn Hd IH]; intros [|j] Hi; simpl in *; try discriminate.
  - injection Hi as ->. rewrite Ha. f_equal. apply map_ext_in. intros z Hz. apply Hoth. intros ->. auto.
  - rewrite Hoth; [|intros ->; apply Hn; eapply nth_opt_In; eauto]. f_equal. apply IH. exact Hi.
Qed.

(** ranges *)
Lemma range_from_length k n : length (range_from k n) = n.
Proof. revert k; induction n as [|m IH]; intros k; simpl; auto. Qed.

Lemma range_from_In k n i : In i (range_from k n) <-> (k <= i < k + n)%nat.
Proof.
  revert k; induction n as [|m IH]; intros k; simpl; [lia|]. rewrite IH. lia.
Qed.

Lemma range_from_NoDup k n : NoDup (range_from k n).
Proof.
  revert k; induction n as [|m IH]; intros k; simpl; constructor; auto.
  rewrite range_from_In. lia.
Qed.

Lemma map_nth_range_from {T} (pre l : list T) d :
  map (fun i => nth i (pre ++ l) d) (range_from (length pre) (length l)) = l.
Proof.
  revert pre; induction l as [|x t IH]; intros pre; simpl; auto. f_equal.
  - rewrite app_nth2 by lia. rewrite Nat.sub_diag. reflexivity.
  - specialize (IH (pre ++ [x])). rewrite <- app_assoc, app_length in IH. simpl in IH.
    rewrite Nat.add_1_r in IH. exact IH.
Qed.

Lemma map_nth_range {T} (l : list T) d : map (fun i => nth i l d) (range (length l)) = l.
Proof. exact (map_nth_range_from [] l d). Qed.

Lemma combine_fst {T U} (l1 : list T) (l2 : list U) : length l1 = length l2 -> map fst (combine l1 l2) = l1.
Proof. revert l2; induction l1 as [|x t IH]; intros [|y u] H; simpl in *; try discriminate; auto. f_equal. apply IH. lia. Qed.

Lemma combine_snd {T U} (l1 : list T) (l2 : list U) : length l1 = length l2 -> map snd (combine l1 l2) = l2.
Proof. revert l2; induction l1 as [|x t IH]; intros [|y u] H; simpl in *; try discriminate; auto. f_equal. apply IH. lia. Qed.

(** overwrite through a view *)
Lemma overwrite_spec l old : overwrite l old = l ++ skipn (length l) old.
Proof.
  revert old; induction l as [|x t IH]; intros old; simpl; auto.
  destruct old as [|y o]; rewrite IH; simpl; auto. destruct (length t); reflexivity.
Qed.

Lemma overwrite_length l old : (length l <= length old)%nat -> length (overwrite l old) = length old.
Proof. intros H. rewrite overwrite_spec, app_length, skipn_length. lia. Qed.

Lemma firstn_overwrite l old : firstn (length l) (overwrite l old) = l.
Proof.
  rewrite overwrite_spec. rewrite <- (Nat.add_0_r (length l)). rewrite firstn_app_2. simpl. apply app_nil_r.
Qed.

(** * stable argsort: sorting the decorated list and projecting *)
Section Argsort.
  Context {T : Type} (key : T -> Z).

  Definition argsort (l : list T) : list (nat * T) :=
    sort_asc (fun p => key (snd p)) (combine (range (length l)) l).

  Lemma argsort_snd l : map snd (argsort l) = sort_asc key l.
  Proof.
    unfold argsort. rewrite (sort_asc_map snd (fun p : nat * T => key (snd p)) key) by reflexivity.
    rewrite combine_snd; auto. apply range_from_length.
  Qed.

  Lemma argsort_fst_perm l : Permutation (map fst (argsort l)) (range (length l)).
  Proof.
    unfold argsort. etransitivity; [apply Permutation_map, sort_asc_perm|].
    rewrite combine_fst; auto. apply range_from_length.
  Qed.

  Lemma combine_range_In (l : list T) k p d : In p (combine (range_from k (length l)) l) ->
    (k <= fst p)%nat /\ snd p = nth (fst p - k) l d.
  Proof.
    revert k; induction l as [|x t IH]; intros k H; simpl in *; [contradiction|].
    destruct H as [H|H].
    - subst p. simpl. rewrite Nat.sub_diag. split; [lia|reflexivity].
    - apply IH in H. destruct H as [H1 H2]. split; [lia|].
      rewrite H2. replace (fst p - k)%nat with (S (fst p - S k)) by lia. reflexivity.
  Qed.

  Lemma argsort_nth l d : map (fun i => nth i l d) (map fst (argsort l)) = sort_asc key l.
  Proof.
    rewrite <- argsort_snd, map_map. apply map_ext_in. intros p Hp.
    unfold argsort in Hp. apply sort_asc_In in Hp.
    apply (combine_range_In l O p d) in Hp. destruct Hp as [_ Hp]. rewrite Nat.sub_0_r in Hp. auto.
  Qed.
End Argsort.

(** the heap's [sorted_perm] (argsort of the sums alone) is the argsort of the pairs *)
Lemma sorted_perm_pairs {U} (vals : list Z) (ls : list U) : length vals = length ls ->
  sorted_perm vals = map fst (argsort (@fst Z U) (combine vals ls)).
Proof.
  intros H. unfold sorted_perm, argsort.
  set (g := fun p : nat * (Z * U) => (fst p, fst (snd p))).
  assert (E : combine (range (length vals)) vals = map g (combine (range (length (combine vals ls))) (combine vals ls))).
  { rewrite combine_length, <- H, Nat.min_id. unfold range. generalize O as k.
    revert ls H; induction vals as [|v t IH]; intros [|y u] H k; simpl in *; try discriminate; auto.
    unfold g at 1. simpl. f_equal. apply IH. lia. }
  rewrite E.
  rewrite <- (sort_asc_map g (fun p : nat * (Z * U) => fst (snd p)) (fun p : nat * Z => snd p)) by reflexivity.
  rewrite map_map. apply map_ext. intros p. reflexivity.
Qed.

Lemma sorted_perm_length vals : length (sorted_perm vals) = length vals.
Proof.
  unfold sorted_perm, range. rewrite map_length, sort_asc_length, combine_length, range_from_length. lia.
Qed.

Lemma sorted_perm_perm vals : Permutation (sorted_perm vals) (range (length vals)).
Proof.
  rewrite (sorted_perm_pairs vals vals eq_refl).
  etransitivity; [apply argsort_fst_perm|]. rewrite combine_length, Nat.min_id. reflexivity.
Qed.

(** the decorated sort applied to both components = stable sort of the pairs *)
Lemma sorted_perm_combine {U} (vals : list Z) (ls : list U) d : length vals = length ls ->
  combine (map (fun i => nth i vals 0) (sorted_perm vals)) (map (fun i => nth i ls d) (sorted_perm vals))
  = sort_asc fst (combine vals ls).
Proof.
  intros H. rewrite <- (argsort_nth (@fst Z U) (combine vals ls) (0, d)).
  rewrite <- (sorted_perm_pairs vals ls H).
  induction (sorted_perm vals) as [|i t IH]; simpl; auto.
  rewrite IH. f_equal. symmetry. apply combine_nth. exact H.
Qed.

Lemma sorted_perm_permutes {U} (vals : list Z) (l : list U) d : length vals = length l ->
  Permutation (map (fun i => nth i l d) (sorted_perm vals)) l.
Proof.
  intros H. etransitivity; [apply Permutation_map, sorted_perm_perm|].
  rewrite H. rewrite map_nth_range. reflexivity.
Qed.

(** * (b) the invariant and the frame lemmas *)
Section HeapProofs.
  Context {A : Type} (valueof : A -> Z).
  Notation hstate := (@hstate A).
  Notation pstate := (@pstate A).

  (** ** abstract state: liveness bookkeeping *)
  Lemma plive_lt (ps : pstate) g e : plive ps g = Some e -> (g < length ps)%nat.
  Proof.
    unfold plive. destruct (nth_opt ps g) as [o|] eqn:E; [|discriminate].
    intros _. eapply nth_opt_Some_lt; eauto.
  Qed.

  Lemma plive_update_same (ps : pstate) h e : (h < length ps)%nat -> plive (update h (fun _ => e) ps) h = e.
  Proof.
    intros H. unfold plive. destruct (nth_opt ps h) as [o|] eqn:E.
    - rewrite (nth_opt_update_same _ _ _ _ E). destruct e; reflexivity.
    - rewrite (nth_opt_lt ps h None H) in E. discriminate.
  Qed.

  Lemma plive_update_other (ps : pstate) h g f : h <> g -> plive (update h f ps) g = plive ps g.
  Proof. intros H. unfold plive. rewrite nth_opt_update_other by exact H. reflexivity. Qed.

  Lemma plive_app_l (ps l : pstate) g : (g < length ps)%nat -> plive (ps ++ l) g = plive ps g.
  Proof. intros H. unfold plive. rewrite nth_opt_app_l by exact H. reflexivity. Qed.

  Lemma plive_snoc_last (ps : pstate) e : plive (ps ++ [e]) (length ps) = e.
  Proof. unfold plive. rewrite nth_opt_snoc_last. destruct e; reflexivity. Qed.

  Lemma plive_snoc_ge (ps : pstate) e g : (length ps < g)%nat -> plive (ps ++ [e]) g = None.
  Proof. intros H. unfold plive. rewrite nth_opt_None_ge; [reflexivity|]. rewrite app_length. simpl. lia. Qed.

  Lemma plive_kill (ps : pstate) h g e : plive (kill h ps) g = Some e -> g <> h /\ plive ps g = Some e.
  Proof.
    unfold kill. intros H. destruct (Nat.eq_dec h g) as [->|Hne].
    - pose proof (plive_lt _ _ _ H) as Hl. rewrite update_length in Hl.
      rewrite plive_update_same in H by exact Hl. discriminate.
    - rewrite plive_update_other in H by exact Hne. split; auto.
  Qed.

  Lemma kill_length (ps : pstate) h : length (kill h ps) = length ps.
  Proof. apply update_length. Qed.

  (** ** heap tables *)
  Lemma buf_of_set_buf_same (st : hstate) bb f : (bb < length (bufs st))%nat -> buf_of (set_buf st bb f) bb = f (buf_of st bb).
  Proof. intros H. unfold buf_of, set_buf. cbn [bufs]. apply update_nth_same. exact H. Qed.
  Lemma buf_of_set_buf_other (st : hstate) bb f b : b <> bb -> buf_of (set_buf st bb f) b = buf_of st b.
  Proof. intros H. unfold buf_of, set_buf. cbn [bufs]. apply update_nth_other. auto. Qed.
  Lemma inner_of_set_inner_same (st : hstate) ii f : (ii < length (inners st))%nat -> inner_of (set_inner st ii f) ii = f (inner_of st ii).
  Proof. intros H. unfold inner_of, set_inner. cbn [inners]. apply update_nth_same. exact H. Qed.
  Lemma inner_of_set_inner_other (st : hstate) ii f i : i <> ii -> inner_of (set_inner st ii f) i = inner_of st i.
  Proof. intros H. unfold inner_of, set_inner. cbn [inners]. apply update_nth_other. auto. Qed.
  Lemma outer_of_set_outer_same (st : hstate) oo f : (oo < length (outers st))%nat -> outer_of (set_outer st oo f) oo = f (outer_of st oo).
  Proof. intros H. unfold outer_of, set_outer. cbn [outers]. apply update_nth_same. exact H. Qed.
  Lemma outer_of_set_outer_other (st : hstate) oo f o : o <> oo -> outer_of (set_outer st oo f) o = outer_of st o.
  Proof. intros H. unfold outer_of, set_outer. cbn [outers]. apply update_nth_other. auto. Qed.

  (** [alloc_inners] appends the new lists and returns consecutive fresh ids *)
  Lemma alloc_inners_spec (st : hstate) ls :
    alloc_inners st ls = (mk_hstate (bufs st) (inners st ++ ls) (outers st) (handles st),
                          range_from (length (inners st)) (length ls)).
  Proof.
    revert st; induction ls as [|l t IH]; intros st.
    - cbn [alloc_inners length range_from]. rewrite app_nil_r. destruct st; reflexivity.
    - cbn [alloc_inners]. unfold alloc_inner. rewrite IH. cbn [bufs inners outers handles length range_from].
      rewrite <- app_assoc, app_length. cbn [app length]. rewrite Nat.add_1_r. reflexivity.
  Qed.

  (** ** the per-handle invariant *)
  Definition ids_of (st : hstate) (hd : handle) : list nat :=
    match h_outer hd with Some o => outer_of st o | None => [] end.
  Definition kind_of (hd : handle) : bool := match h_outer hd with Some _ => true | None => false end.

  Record hwf (st : hstate) (hd : handle) (k : bool) (b : bins A) : Prop := mk_hwf {
    hw_abs : abs_handle st hd = b;                                   (* it shows the abstract value *)
    hw_len : v_len (h_view hd) = length b;
    hw_buf : (v_buf (h_view hd) < length (bufs st))%nat;              (* ids are allocated *)
    hw_fit : (v_len (h_view hd) <= length (buf_of st (v_buf (h_view hd))))%nat;
    hw_kind : kind_of hd = k;                                        (* h_outer = Some _ <-> k = true *)
    hw_outer : forall o, h_outer hd = Some o -> (o < length (outers st))%nat;
    hw_olen : forall o, h_outer hd = Some o -> length (outer_of st o) = v_len (h_view hd);
    hw_nodup : NoDup (ids_of st hd);                                 (* no inner list in two bins *)
    hw_ids : forall i, In i (ids_of st hd) -> (i < length (inners st))%nat }.

  (** separation of two handles: no shared buffer, outer list or inner list *)
  Definition sep (st : hstate) (hd1 hd2 : handle) : Prop :=
    v_buf (h_view hd1) <> v_buf (h_view hd2) /\
    (forall o, h_outer hd1 = Some o -> h_outer hd2 <> Some o) /\
    (forall i, In i (ids_of st hd1) -> In i (ids_of st hd2) -> False).

  (** the simulation invariant: same handles in the same order; every LIVE handle is
      well-formed and shows its abstract value; LIVE handles are pairwise separated.
      Nothing is required of dead handles: they may alias live ones (the view made by
      remove_bins shares its buffer, the outer lists made by remove/add_empty/concatenate
      share their inner lists with the arguments), which is harmless exactly because
      the discipline never names them again. *)
  Definition Inv (st : hstate) (ps : pstate) : Prop :=
    length (handles st) = length ps /\
    (forall h hd k b, nth_opt (handles st) h = Some hd -> plive ps h = Some (k, b) -> hwf st hd k b) /\
    (forall h1 h2 hd1 hd2 e1 e2, h1 <> h2 ->
       nth_opt (handles st) h1 = Some hd1 -> nth_opt (handles st) h2 = Some hd2 ->
       plive ps h1 = Some e1 -> plive ps h2 = Some e2 -> sep st hd1 hd2).

  Lemma sep_sym st hd1 hd2 : sep st hd1 hd2 -> sep st hd2 hd1.
  Proof.
    intros (H1 & H2 & H3). repeat split.
    - auto.
    - intros o Ho Ho'. apply (H2 o Ho' Ho).
    - intros i Hi Hi'. apply (H3 i Hi' Hi).
  Qed.

  Lemma sep_mono st st' hd1 hd2 : sep st hd1 hd2 ->
    (forall i, In i (ids_of st' hd1) -> In i (ids_of st hd1)) ->
    (forall i, In i (ids_of st' hd2) -> In i (ids_of st hd2)) -> sep st' hd1 hd2.
  Proof. intros (H1 & H2 & H3) M1 M2. repeat split; auto. intros i Hi Hi'. apply (H3 i); auto. Qed.

  Lemma hwf_vals_length st hd k b : hwf st hd k b -> length (view_vals st (h_view hd)) = v_len (h_view hd).
  Proof. intros H. unfold view_vals. apply firstn_length_le. apply (hw_fit _ _ _ _ H). Qed.

  Lemma hwf_ids_length st hd b : hwf st hd true b -> length (ids_of st hd) = v_len (h_view hd).
  Proof.
    intros H. pose proof (hw_kind _ _ _ _ H) as Hk. pose proof (hw_olen _ _ _ _ H) as Ho.
    unfold kind_of, ids_of in *. destruct (h_outer hd) as [o|]; [|discriminate]. apply Ho. reflexivity.
  Qed.

  Lemma hwf_lookup st ps h k b : Inv st ps -> plive ps h = Some (k, b) ->
    exists hd, nth_opt (handles st) h = Some hd /\ hwf st hd k b.
  Proof.
    intros (Hl & Hw & _) Hp. pose proof (plive_lt _ _ _ Hp) as Hlt. rewrite <- Hl in Hlt.
    exists (nth h (handles st) (mk_handle (mk_view O O) None)).
    pose proof (nth_opt_lt (handles st) h (mk_handle (mk_view O O) None) Hlt) as E.
    split; [exact E|]. eapply Hw; eauto.
  Qed.

  (** ** state extension (allocation only): live handles are unaffected *)
  Definition ext (st st' : hstate) : Prop :=
    (exists l, bufs st' = bufs st ++ l) /\ (exists l, inners st' = inners st ++ l) /\
    (exists l, outers st' = outers st ++ l).

  Lemma ext_refl st : ext st st.
  Proof. repeat split; exists []; rewrite app_nil_r; reflexivity. Qed.

  Lemma ext_trans st1 st2 st3 : ext st1 st2 -> ext st2 st3 -> ext st1 st3.
  Proof.
    intros ((l1 & E1) & (l2 & E2) & (l3 & E3)) ((m1 & F1) & (m2 & F2) & (m3 & F3)).
    repeat split; [exists (l1 ++ m1)|exists (l2 ++ m2)|exists (l3 ++ m3)]; rewrite app_assoc; congruence.
  Qed.

  Lemma ext_add_handle st h : ext st (add_handle st h).
  Proof. unfold add_handle. repeat split; exists []; cbn [bufs inners outers]; rewrite app_nil_r; reflexivity. Qed.

  Lemma ext_buf st st' b : ext st st' -> (b < length (bufs st))%nat -> buf_of st' b = buf_of st b.
  Proof. intros ((l & E) & _) H. unfold buf_of. rewrite E. apply app_nth1. exact H. Qed.
  Lemma ext_inner st st' i : ext st st' -> (i < length (inners st))%nat -> inner_of st' i = inner_of st i.
  Proof. intros (_ & (l & E) & _) H. unfold inner_of. rewrite E. apply app_nth1. exact H. Qed.
  Lemma ext_outer st st' o : ext st st' -> (o < length (outers st))%nat -> outer_of st' o = outer_of st o.
  Proof. intros (_ & _ & (l & E)) H. unfold outer_of. rewrite E. apply app_nth1. exact H. Qed.
  Lemma ext_lengths st st' : ext st st' ->
    (length (bufs st) <= length (bufs st') /\ length (inners st) <= length (inners st') /\
     length (outers st) <= length (outers st'))%nat.
  Proof. intros ((l1 & E1) & (l2 & E2) & (l3 & E3)). rewrite E1, E2, E3, !app_length. lia. Qed.

  Lemma ids_of_ext st st' hd k b : ext st st' -> hwf st hd k b -> ids_of st' hd = ids_of st hd.
  Proof.
    intros He Hw. unfold ids_of. destruct (h_outer hd) as [o|] eqn:Eo; [|reflexivity].
    apply ext_outer; auto. apply (hw_outer _ _ _ _ Hw). exact Eo.
  Qed.

  Lemma abs_handle_eq st st' hd :
    view_vals st' (h_view hd) = view_vals st (h_view hd) ->
    ids_of st' hd = ids_of st hd ->
    (forall i, In i (ids_of st hd) -> inner_of st' i = inner_of st i) ->
    abs_handle st' hd = abs_handle st hd.
  Proof.
    unfold abs_handle, ids_of. intros Hv Hi Hin. rewrite Hv. destruct (h_outer hd) as [o|]; [|reflexivity].
    rewrite Hi. f_equal. apply map_ext_in. exact Hin.
  Qed.

  Lemma hwf_ext st st' hd k b : ext st st' -> hwf st hd k b -> hwf st' hd k b.
  Proof.
    intros He Hw. pose proof (ext_lengths _ _ He) as (L1 & L2 & L3).
    pose proof (ids_of_ext _ _ _ _ _ He Hw) as Ei.
    pose proof (ext_buf _ _ _ He (hw_buf _ _ _ _ Hw)) as Eb.
    constructor.
    - rewrite <- (hw_abs _ _ _ _ Hw). apply abs_handle_eq; auto.
      + unfold view_vals. rewrite Eb. reflexivity.
      + intros i Hi. apply ext_inner; auto. apply (hw_ids _ _ _ _ Hw). exact Hi.
    - apply (hw_len _ _ _ _ Hw).
    - pose proof (hw_buf _ _ _ _ Hw). lia.
    - rewrite Eb. apply (hw_fit _ _ _ _ Hw).
    - apply (hw_kind _ _ _ _ Hw).
    - intros o Ho. pose proof (hw_outer _ _ _ _ Hw o Ho). lia.
    - intros o Ho. rewrite (ext_outer _ _ _ He (hw_outer _ _ _ _ Hw o Ho)). apply (hw_olen _ _ _ _ Hw o Ho).
    - rewrite Ei. apply (hw_nodup _ _ _ _ Hw).
    - intros i Hi. rewrite Ei in Hi. pose proof (hw_ids _ _ _ _ Hw i Hi). lia.
  Qed.

  (** a handle on a fresh buffer and a fresh outer list is separated from an old one as
      soon as the inner lists are *)
  Lemma sep_fresh st st' hdg kg bg hd' : hwf st hdg kg bg -> ext st st' ->
    (length (bufs st) <= v_buf (h_view hd'))%nat ->
    (forall o, h_outer hd' = Some o -> (length (outers st) <= o)%nat) ->
    (forall i, In i (ids_of st hdg) -> In i (ids_of st' hd') -> False) ->
    sep st' hdg hd'.
  Proof.
    intros Hw He Hb Ho Hi. repeat split.
    - pose proof (hw_buf _ _ _ _ Hw). lia.
    - intros o Hog Ho'. pose proof (hw_outer _ _ _ _ Hw o Hog). specialize (Ho o Ho'). lia.
    - intros i H1 H2. rewrite (ids_of_ext _ _ _ _ _ He Hw) in H1. eapply Hi; eauto.
  Qed.

  (** ** in-place modification: only the objects of one handle are written *)
  Definition mod_only (st st' : hstate) (bb : nat) (I : list nat) (oo : option nat) : Prop :=
    length (bufs st') = length (bufs st) /\ length (inners st') = length (inners st) /\
    length (outers st') = length (outers st) /\
    (forall b, b <> bb -> buf_of st' b = buf_of st b) /\
    (forall i, ~ In i I -> inner_of st' i = inner_of st i) /\
    (forall o, oo <> Some o -> outer_of st' o = outer_of st o).

  Lemma mod_only_refl st bb I oo : mod_only st st bb I oo.
  Proof. repeat split; auto. Qed.

  Lemma mod_only_trans st1 st2 st3 bb I oo : mod_only st1 st2 bb I oo -> mod_only st2 st3 bb I oo -> mod_only st1 st3 bb I oo.
  Proof.
    intros (A1 & A2 & A3 & A4 & A5 & A6) (B1 & B2 & B3 & B4 & B5 & B6).
    repeat split; try congruence.
    - intros b Hb. rewrite B4, A4; auto.
    - intros i Hi. rewrite B5, A5; auto.
    - intros o Ho. rewrite B6, A6; auto.
  Qed.

  Lemma mod_set_buf st bb f I oo : mod_only st (set_buf st bb f) bb I oo.
  Proof.
    repeat split; auto.
    - unfold set_buf. cbn [bufs]. apply update_length.
    - intros b Hb. apply buf_of_set_buf_other. exact Hb.
  Qed.

  Lemma mod_set_inner st ii f bb I oo : In ii I -> mod_only st (set_inner st ii f) bb I oo.
  Proof.
    intros Hin. repeat split; auto.
    - unfold set_inner. cbn [inners]. apply update_length.
    - intros i Hi. apply inner_of_set_inner_other. intros ->. auto.
  Qed.

  Lemma mod_set_outer st o f bb I : mod_only st (set_outer st o f) bb I (Some o).
  Proof.
    repeat split; auto.
    - unfold set_outer. cbn [outers]. apply update_length.
    - intros o' Ho. apply outer_of_set_outer_other. congruence.
  Qed.

  (** the frame lemma: a handle separated from the written one is unaffected *)
  Lemma hwf_frame st st' hd hdg kg bg :
    mod_only st st' (v_buf (h_view hd)) (ids_of st hd) (h_outer hd) ->
    sep st hd hdg -> hwf st hdg kg bg -> hwf st' hdg kg bg /\ ids_of st' hdg = ids_of st hdg.
  Proof.
    intros (M1 & M2 & M3 & M4 & M5 & M6) (S1 & S2 & S3) Hw.
    assert (Eb : buf_of st' (v_buf (h_view hdg)) = buf_of st (v_buf (h_view hdg))) by (apply M4; auto).
    assert (Ei : ids_of st' hdg = ids_of st hdg).
    { unfold ids_of. destruct (h_outer hdg) as [o|] eqn:Eo; [|reflexivity]. apply M6.
      intros Ho. apply (S2 o Ho). reflexivity. }
    assert (Ein : forall i, In i (ids_of st hdg) -> inner_of st' i = inner_of st i).
    { intros i Hi. apply M5. intros Hi'. apply (S3 i); auto. }
    split; [|exact Ei]. constructor.
    - rewrite <- (hw_abs _ _ _ _ Hw). apply abs_handle_eq; auto. unfold view_vals. rewrite Eb. reflexivity.
    - apply (hw_len _ _ _ _ Hw).
    - rewrite M1. apply (hw_buf _ _ _ _ Hw).
    - rewrite Eb. apply (hw_fit _ _ _ _ Hw).
    - apply (hw_kind _ _ _ _ Hw).
    - intros o Ho. rewrite M3. apply (hw_outer _ _ _ _ Hw o Ho).
    - intros o Ho. pose proof (hw_olen _ _ _ _ Hw o Ho) as Hl. unfold ids_of in Ei. rewrite Ho in Ei. rewrite Ei. exact Hl.
    - rewrite Ei. apply (hw_nodup _ _ _ _ Hw).
    - intros i Hi. rewrite Ei in Hi. rewrite M2. apply (hw_ids _ _ _ _ Hw i Hi).
  Qed.

  (** ** two generic preservation lemmas for the invariant *)
  (** in-place operation on the live handle h *)
  Lemma inv_inplace st ps st' h hd k b b' :
    Inv st ps -> handles st' = handles st ->
    nth_opt (handles st) h = Some hd -> plive ps h = Some (k, b) ->
    mod_only st st' (v_buf (h_view hd)) (ids_of st hd) (h_outer hd) ->
    hwf st' hd k b' ->
    (forall i, In i (ids_of st' hd) -> In i (ids_of st hd)) ->
    Inv st' (update h (fun _ => Some (k, b')) ps).
  Proof.
    intros (Hl & Hw & Hs) Hh Hn Hp Hm Hw' Hsub.
    pose proof (plive_lt _ _ _ Hp) as Hlt.
    assert (Hfr : forall g hdg kg bg, g <> h -> nth_opt (handles st) g = Some hdg -> plive ps g = Some (kg, bg) ->
                  hwf st' hdg kg bg /\ ids_of st' hdg = ids_of st hdg).
    { intros g hdg kg bg Hg Hng Hpg. eapply hwf_frame; eauto. }
    split; [|split].
    - rewrite Hh, update_length. exact Hl.
    - intros g hdg kg bg Hng Hpg. rewrite Hh in Hng. destruct (Nat.eq_dec h g) as [<-|Hne].
      + rewrite plive_update_same in Hpg by exact Hlt. injection Hpg as <- <-.
        assert (hdg = hd) by congruence. subst hdg. exact Hw'.
      + rewrite plive_update_other in Hpg by exact Hne. eapply Hfr; eauto.
    - intros h1 h2 hd1 hd2 e1 e2 Hne H1 H2 P1 P2. rewrite Hh in H1, H2.
      destruct (Nat.eq_dec h h1) as [<-|Hn1]; [|destruct (Nat.eq_dec h h2) as [<-|Hn2]].
      + assert (hd1 = hd) by congruence. subst hd1.
        rewrite plive_update_other in P2 by exact Hne. destruct e2 as [k2 b2].
        destruct (Hfr h2 hd2 k2 b2) as [_ Ei]; auto.
        apply (sep_mono st); [apply (Hs h h2 hd hd2 (k, b) (k2, b2)); auto|exact Hsub|].
        intros i Hi. rewrite <- Ei. exact Hi.
      + assert (hd2 = hd) by congruence. subst hd2.
        rewrite plive_update_other in P1 by exact Hn1. destruct e1 as [k1 b1].
        destruct (Hfr h1 hd1 k1 b1) as [_ Ei]; auto.
        apply (sep_mono st); [apply (Hs h1 h hd1 hd (k1, b1) (k, b)); auto| |exact Hsub].
        intros i Hi. rewrite <- Ei. exact Hi.
      + rewrite plive_update_other in P1 by exact Hn1. rewrite plive_update_other in P2 by exact Hn2.
        destruct e1 as [k1 b1]. destruct e2 as [k2 b2].
        destruct (Hfr h1 hd1 k1 b1) as [_ Ei1]; auto. destruct (Hfr h2 hd2 k2 b2) as [_ Ei2]; auto.
        apply (sep_mono st); [apply (Hs h1 h2 hd1 hd2 (k1, b1) (k2, b2)); auto| |];
          intros i Hi; [rewrite <- Ei1|rewrite <- Ei2]; exact Hi.
  Qed.

  (** allocating operation: some handles die (ps0), one new handle appears *)
  Lemma inv_alloc st ps st' ps0 hd' k' b' :
    Inv st ps -> ext st st' -> handles st' = handles st ++ [hd'] ->
    length ps0 = length ps -> (forall g e, plive ps0 g = Some e -> plive ps g = Some e) ->
    hwf st' hd' k' b' ->
    (forall g hdg e, plive ps0 g = Some e -> nth_opt (handles st) g = Some hdg -> sep st' hdg hd') ->
    Inv st' (ps0 ++ [Some (k', b')]).
  Proof.
    intros (Hl & Hw & Hs) He Hh Hl0 Hsub Hw' Hsep.
    assert (Hold : forall g hdg e, nth_opt (handles st') g = Some hdg -> plive (ps0 ++ [Some (k', b')]) g = Some e ->
              (g < length ps0)%nat -> nth_opt (handles st) g = Some hdg /\ plive ps0 g = Some e).
    { intros g hdg e Hng Hpg Hlt. rewrite Hh, nth_opt_app_l in Hng by lia.
      rewrite plive_app_l in Hpg by exact Hlt. auto. }
    assert (Hnew : forall g hdg e, nth_opt (handles st') g = Some hdg -> plive (ps0 ++ [Some (k', b')]) g = Some e ->
              (g < length ps0)%nat \/ (g = length ps0 /\ hdg = hd' /\ e = (k', b'))).
    { intros g hdg e Hng Hpg. destruct (Nat.lt_ge_cases g (length ps0)) as [Hlt|Hge]; [left; exact Hlt|right].
      pose proof (plive_lt _ _ _ Hpg) as Hlt. rewrite app_length in Hlt. cbn [length] in Hlt.
      assert (g = length ps0) by lia. subst g. split; [reflexivity|].
      rewrite Hh in Hng. replace (length ps0) with (length (handles st)) in Hng by lia.
      rewrite nth_opt_snoc_last in Hng. rewrite plive_snoc_last in Hpg.
      split; congruence. }
    split; [|split].
    - rewrite Hh, !app_length. cbn [length]. lia.
    - intros g hdg kg bg Hng Hpg. destruct (Hnew g hdg (kg, bg) Hng Hpg) as [Hlt|(-> & -> & E)].
      + destruct (Hold g hdg (kg, bg) Hng Hpg Hlt) as [Hng' Hpg'].
        apply (hwf_ext st); auto. eapply Hw; eauto.
      + injection E as -> ->. exact Hw'.
    - intros h1 h2 hd1 hd2 e1 e2 Hne H1 H2 P1 P2.
      destruct (Hnew h1 hd1 e1 H1 P1) as [Hlt1|(-> & -> & E1)];
        destruct (Hnew h2 hd2 e2 H2 P2) as [Hlt2|(-> & -> & E2)].
      + destruct (Hold h1 hd1 e1 H1 P1 Hlt1) as [H1' P1']. destruct (Hold h2 hd2 e2 H2 P2 Hlt2) as [H2' P2'].
        destruct e1 as [k1 b1]. destruct e2 as [k2 b2].
        pose proof (Hw _ _ _ _ H1' (Hsub _ _ P1')) as W1. pose proof (Hw _ _ _ _ H2' (Hsub _ _ P2')) as W2.
        apply (sep_mono st); [apply (Hs h1 h2 hd1 hd2 (k1, b1) (k2, b2)); auto| |]; intros i Hi.
        * rewrite <- (ids_of_ext _ _ _ _ _ He W1). exact Hi.
        * rewrite <- (ids_of_ext _ _ _ _ _ He W2). exact Hi.
      + destruct (Hold h1 hd1 e1 H1 P1 Hlt1) as [H1' P1']. eapply Hsep; eauto.
      + destruct (Hold h2 hd2 e2 H2 P2 Hlt2) as [H2' P2']. apply sep_sym. eapply Hsep; eauto.
      + congruence.
  Qed.

  (** * (c) effect lemmas *)
  (** ** freshly allocated handles *)
  Lemma fresh_sums_hwf Bf vals n (If : list (list A)) Of hs : length vals = n ->
    hwf (mk_hstate (Bf ++ [vals]) If Of hs) (mk_handle (mk_view (length Bf) n) None) false
        (map (fun s => (s, [])) vals).
  Proof.
    intros <-. constructor; unfold ids_of, abs_handle, view_vals, buf_of, kind_of;
      cbn [h_outer h_view v_buf v_len bufs inners outers].
    - rewrite nth_snoc_last, firstn_all. reflexivity.
    - rewrite map_length. reflexivity.
    - rewrite app_length. cbn [length]. lia.
    - rewrite nth_snoc_last. lia.
    - reflexivity.
    - intros o Ho. discriminate.
    - intros o Ho. discriminate.
    - constructor.
    - intros i Hi. contradiction.
  Qed.

  Lemma fresh_contents_hwf Bf vals (ls : list (list A)) n If Of hs : length vals = n -> length ls = n ->
    hwf (mk_hstate (Bf ++ [vals]) (If ++ ls) (Of ++ [range_from (length If) n]) hs)
        (mk_handle (mk_view (length Bf) n) (Some (length Of))) true (combine vals ls).
  Proof.
    intros <- Hl. constructor; unfold ids_of, abs_handle, view_vals, buf_of, outer_of, inner_of, kind_of;
      cbn [h_outer h_view v_buf v_len bufs inners outers].
    - rewrite !nth_snoc_last, firstn_all. rewrite <- Hl. rewrite map_nth_range_from. reflexivity.
    - unfold bin. rewrite combine_length. lia.
    - rewrite app_length. cbn [length]. lia.
    - rewrite nth_snoc_last. lia.
    - reflexivity.
    - intros o Ho. injection Ho as <-. rewrite app_length. cbn [length]. lia.
    - intros o Ho. injection Ho as <-. rewrite nth_snoc_last. apply range_from_length.
    - rewrite nth_snoc_last. apply range_from_NoDup.
    - intros i Hi. rewrite nth_snoc_last in Hi. apply range_from_In in Hi. rewrite app_length. lia.
  Qed.

  Lemma combine_repeat {T U} (x : T) (y : U) n : combine (repeat x n) (repeat y n) = repeat (x, y) n.
  Proof. induction n as [|m IH]; simpl; [reflexivity|]. f_equal. exact IH. Qed.

  Lemma map_repeat' {T U} (f : T -> U) x n : map f (repeat x n) = repeat (f x) n.
  Proof. induction n as [|m IH]; simpl; [reflexivity|]. f_equal. exact IH. Qed.

  Lemma new_handle_spec (st : hstate) keep n : exists st1 hn,
    new_handle st keep n = (st1, hn) /\ ext st st1 /\ handles st1 = handles st /\
    hwf st1 hn keep (new_bins n) /\ (length (bufs st) <= v_buf (h_view hn))%nat /\
    (forall o, h_outer hn = Some o -> (length (outers st) <= o)%nat) /\
    (forall i, In i (ids_of st1 hn) -> (length (inners st) <= i)%nat).
  Proof.
    unfold new_handle, alloc_buf. cbv beta iota zeta. destruct keep.
    - rewrite alloc_inners_spec. unfold alloc_outer. cbn [bufs inners outers handles].
      rewrite repeat_length. eexists _, _. split; [reflexivity|].
      split; [|split; [reflexivity|split; [|split; [|split]]]].
      + repeat split; cbn [bufs inners outers]; eexists; reflexivity.
      + replace (@new_bins A n) with (combine (repeat 0 n) (repeat (@nil A) n))
          by exact (combine_repeat 0 (@nil A) n).
        apply fresh_contents_hwf; apply repeat_length.
      + cbn [h_view v_buf]. lia.
      + cbn [h_outer]. intros o Ho. injection Ho as <-. lia.
      + unfold ids_of, outer_of. cbn [h_outer outers]. rewrite nth_snoc_last. intros i Hi.
        apply range_from_In in Hi. lia.
    - eexists _, _. split; [reflexivity|].
      split; [|split; [reflexivity|split; [|split; [|split]]]].
      + repeat split; cbn [bufs inners outers]; [eexists; reflexivity|exists []; rewrite app_nil_r; reflexivity..].
      + replace (@new_bins A n) with (map (fun s : Z => (s, @nil A)) (repeat 0 n))
          by exact (map_repeat' (fun s : Z => (s, @nil A)) 0 n).
        apply fresh_sums_hwf; apply repeat_length.
      + cbn [h_view v_buf]. lia.
      + cbn [h_outer]. intros o Ho. discriminate.
      + unfold ids_of. cbn [h_outer]. intros i Hi. contradiction.
  Qed.

  (** ** concatenation (shared by concatenate_bins and add_empty_bins) *)
  Definition concat_handles (st : hstate) (hd1 hd2 : handle) : hstate * handle :=
    let vals := view_vals st (h_view hd1) ++ view_vals st (h_view hd2) in
    let b := length (bufs st) in
    let st1 := mk_hstate (bufs st ++ [vals]) (inners st) (outers st) (handles st) in
    match h_outer hd1, h_outer hd2 with
    | Some o1, Some o2 =>
        (mk_hstate (bufs st1) (inners st1) (outers st1 ++ [outer_of st o1 ++ outer_of st o2]) (handles st1),
         mk_handle (mk_view b (length vals)) (Some (length (outers st))))
    | _, _ => (st1, mk_handle (mk_view b (length vals)) None)
    end.

  Lemma concat_handles_spec st hd1 hd2 k b1 b2 :
    hwf st hd1 k b1 -> hwf st hd2 k b2 ->
    (forall i, In i (ids_of st hd1) -> In i (ids_of st hd2) -> False) ->
    exists st' hd', concat_handles st hd1 hd2 = (st', hd') /\ ext st st' /\ handles st' = handles st /\
      hwf st' hd' k (b1 ++ b2) /\ (length (bufs st) <= v_buf (h_view hd'))%nat /\
      (forall o, h_outer hd' = Some o -> (length (outers st) <= o)%nat) /\
      ids_of st' hd' = ids_of st hd1 ++ ids_of st hd2.
  Proof.
    intros W1 W2 Hdis.
    pose proof (hwf_vals_length _ _ _ _ W1) as L1. pose proof (hwf_vals_length _ _ _ _ W2) as L2.
    pose proof (hw_kind _ _ _ _ W1) as K1. pose proof (hw_kind _ _ _ _ W2) as K2.
    pose proof (hw_abs _ _ _ _ W1) as A1. pose proof (hw_abs _ _ _ _ W2) as A2.
    pose proof (hw_nodup _ _ _ _ W1) as N1. pose proof (hw_nodup _ _ _ _ W2) as N2.
    pose proof (hw_ids _ _ _ _ W1) as I1. pose proof (hw_ids _ _ _ _ W2) as I2.
    pose proof (hw_olen _ _ _ _ W1) as O1. pose proof (hw_olen _ _ _ _ W2) as O2.
    unfold concat_handles, kind_of, abs_handle, ids_of in *.
    destruct (h_outer hd1) as [o1|] eqn:E1; destruct (h_outer hd2) as [o2|] eqn:E2;
      try (exfalso; congruence); (eexists _, _; split; [reflexivity|]); cbn [bufs inners outers handles].
    - specialize (O1 o1 eq_refl). specialize (O2 o2 eq_refl).
      split; [|split; [reflexivity|split; [|split; [|split]]]].
      + repeat split; cbn [bufs inners outers]; [eexists; reflexivity|exists []; rewrite app_nil_r; reflexivity|eexists; reflexivity].
      + constructor; unfold ids_of, abs_handle, view_vals, buf_of, outer_of, inner_of, kind_of;
          cbn [h_outer h_view v_buf v_len bufs inners outers]; rewrite ?nth_snoc_last.
        * rewrite firstn_all, map_app. fold (inner_of st). rewrite combine_app.
          -- unfold view_vals, buf_of, outer_of in A1, A2. rewrite A1, A2. reflexivity.
          -- rewrite map_length. unfold view_vals, buf_of, outer_of in L1, O1. lia.
        * rewrite <- A1, <- A2. unfold bin. rewrite !app_length, !combine_length, !map_length.
          unfold view_vals, buf_of, outer_of in *. lia.
        * rewrite app_length. cbn [length]. lia.
        * lia.
        * exact K1.
        * intros o Ho. injection Ho as <-. rewrite app_length. cbn [length]. lia.
        * intros o Ho. injection Ho as <-. rewrite nth_snoc_last, !app_length.
          unfold view_vals, buf_of, outer_of in *. lia.
        * apply NoDup_app_iff. repeat split; auto.
        * intros i Hi. apply in_app_or in Hi. destruct Hi as [Hi|Hi]; auto.
      + cbn [h_view v_buf]. lia.
      + cbn [h_outer]. intros o Ho. injection Ho as <-. lia.
      + cbn [h_outer]. unfold outer_of. cbn [outers]. rewrite nth_snoc_last. reflexivity.
    - split; [|split; [reflexivity|split; [|split; [|split]]]].
      + repeat split; cbn [bufs inners outers]; [eexists; reflexivity|exists []; rewrite app_nil_r; reflexivity..].
      + rewrite <- A1, <- A2, <- K1, <- map_app. apply fresh_sums_hwf. reflexivity.
      + cbn [h_view v_buf]. lia.
      + cbn [h_outer]. intros o Ho. discriminate.
      + reflexivity.
  Qed.

  (** ** in-place operations: the written handle *)
  Lemma hwf_rebuild st st' hd k b b' bb I oo :
    hwf st hd k b -> mod_only st st' bb I oo ->
    abs_handle st' hd = b' -> length b' = length b ->
    length (buf_of st' (v_buf (h_view hd))) = length (buf_of st (v_buf (h_view hd))) ->
    Permutation (ids_of st' hd) (ids_of st hd) -> hwf st' hd k b'.
  Proof.
    intros Hw (M1 & M2 & M3 & _) Ha Hl Hb Hp. constructor.
    - exact Ha.
    - rewrite Hl. apply (hw_len _ _ _ _ Hw).
    - rewrite M1. apply (hw_buf _ _ _ _ Hw).
    - rewrite Hb. apply (hw_fit _ _ _ _ Hw).
    - apply (hw_kind _ _ _ _ Hw).
    - intros o Ho. rewrite M3. apply (hw_outer _ _ _ _ Hw o Ho).
    - intros o Ho. pose proof (hw_olen _ _ _ _ Hw o Ho) as Hlen. apply Permutation_length in Hp.
      unfold ids_of in Hp. rewrite Ho in Hp. lia.
    - eapply Permutation_NoDup; [symmetry; exact Hp|]. apply (hw_nodup _ _ _ _ Hw).
    - intros i Hi. rewrite M2. apply (hw_ids _ _ _ _ Hw). eapply Permutation_in; eauto.
  Qed.

  Lemma hwf_sums_outer st hd b : hwf st hd false b -> h_outer hd = None.
  Proof. intros H. pose proof (hw_kind _ _ _ _ H) as K. unfold kind_of in K. destruct (h_outer hd); [discriminate|reflexivity]. Qed.

  Lemma hwf_contents_outer st hd b : hwf st hd true b -> exists o, h_outer hd = Some o.
  Proof. intros H. pose proof (hw_kind _ _ _ _ H) as K. unfold kind_of in K. destruct (h_outer hd) as [o|]; [eauto|discriminate]. Qed.

  (** bins[i] updated by f1 (sums manager: add_item_to_bin, combine_bins) *)
  Lemma bump_sums st hd b i f1 :
    hwf st hd false b -> (i < v_len (h_view hd))%nat ->
    let st' := set_buf st (v_buf (h_view hd)) (update i f1) in
    mod_only st st' (v_buf (h_view hd)) (ids_of st hd) (h_outer hd) /\
    hwf st' hd false (update i (fun p => (f1 (fst p), snd p)) b) /\
    Permutation (ids_of st' hd) (ids_of st hd).
  Proof.
    intros Hw Hi st'. pose proof (hwf_sums_outer _ _ _ Hw) as Ho.
    assert (Hm : mod_only st st' (v_buf (h_view hd)) (ids_of st hd) (h_outer hd)) by apply mod_set_buf.
    assert (Eb : buf_of st' (v_buf (h_view hd)) = update i f1 (buf_of st (v_buf (h_view hd)))).
    { apply buf_of_set_buf_same. apply (hw_buf _ _ _ _ Hw). }
    assert (Ei : ids_of st' hd = ids_of st hd) by (unfold ids_of; rewrite Ho; reflexivity).
    split; [exact Hm|split; [|rewrite Ei; reflexivity]].
    eapply hwf_rebuild; [exact Hw|exact Hm| | | |rewrite Ei; reflexivity].
    - unfold abs_handle, view_vals. rewrite Ho, Eb, firstn_update_lt by exact Hi.
      rewrite <- (hw_abs _ _ _ _ Hw). unfold abs_handle, view_vals. rewrite Ho.
      apply map_update. intros s. reflexivity.
    - apply update_length.
    - rewrite Eb. apply update_length.
  Qed.

  (** bins[i] updated by f1 on the sum and f2 on the contents (contents manager) *)
  Lemma bump_contents st hd b ou i inn f1 f2 :
    hwf st hd true b -> h_outer hd = Some ou -> (i < v_len (h_view hd))%nat ->
    nth_opt (outer_of st ou) i = Some inn ->
    let st' := set_inner (set_buf st (v_buf (h_view hd)) (update i f1)) inn f2 in
    mod_only st st' (v_buf (h_view hd)) (ids_of st hd) (h_outer hd) /\
    hwf st' hd true (update i (fun p => (f1 (fst p), f2 (snd p))) b) /\
    Permutation (ids_of st' hd) (ids_of st hd).
  Proof.
    intros Hw Ho Hi Hinn st'.
    assert (Hin : In inn (ids_of st hd)) by (unfold ids_of; rewrite Ho; eapply nth_opt_In; eauto).
    pose proof (hw_ids _ _ _ _ Hw inn Hin) as Hlt.
    assert (Hm : mod_only st st' (v_buf (h_view hd)) (ids_of st hd) (h_outer hd)).
    { eapply mod_only_trans; [apply mod_set_buf|apply mod_set_inner; exact Hin]. }
    assert (Eb : buf_of st' (v_buf (h_view hd)) = update i f1 (buf_of st (v_buf (h_view hd)))).
    { change (buf_of st' (v_buf (h_view hd))) with
        (buf_of (set_buf st (v_buf (h_view hd)) (update i f1)) (v_buf (h_view hd))).
      apply buf_of_set_buf_same. apply (hw_buf _ _ _ _ Hw). }
    assert (Ei : ids_of st' hd = ids_of st hd) by reflexivity.
    assert (Em : map (inner_of st') (outer_of st ou) = update i f2 (map (inner_of st) (outer_of st ou))).
    { apply (map_update_nodup (inner_of st) (inner_of st') f2 (outer_of st ou) i inn).
      - pose proof (hw_nodup _ _ _ _ Hw) as Hn. unfold ids_of in Hn. rewrite Ho in Hn. exact Hn.
      - exact Hinn.
      - intros j Hj. unfold st'. rewrite inner_of_set_inner_other by exact Hj. reflexivity.
      - unfold st'. rewrite inner_of_set_inner_same by exact Hlt. reflexivity. }
    split; [exact Hm|split; [|rewrite Ei; reflexivity]].
    eapply hwf_rebuild; [exact Hw|exact Hm| | | |rewrite Ei; reflexivity].
    - unfold abs_handle, view_vals. rewrite Ho, Eb, firstn_update_lt by exact Hi.
      change (outer_of st' ou) with (outer_of st ou). rewrite Em, combine_update.
      rewrite <- (hw_abs _ _ _ _ Hw). unfold abs_handle, view_vals. rewrite Ho. reflexivity.
    - apply update_length.
    - rewrite Eb. apply update_length.
  Qed.

  (** sort_by_ascending_sum, sums manager: ndarray.sort() through the view *)
  Lemma sort_sums st hd b :
    hwf st hd false b ->
    let st' := set_buf st (v_buf (h_view hd)) (overwrite (sort_asc (fun x => x) (view_vals st (h_view hd)))) in
    mod_only st st' (v_buf (h_view hd)) (ids_of st hd) (h_outer hd) /\
    hwf st' hd false (sort_bins b) /\ Permutation (ids_of st' hd) (ids_of st hd).
  Proof.
    intros Hw st'. pose proof (hwf_sums_outer _ _ _ Hw) as Ho.
    pose proof (hwf_vals_length _ _ _ _ Hw) as Lv.
    set (sorted := sort_asc (fun x => x) (view_vals st (h_view hd))) in *.
    assert (Ls : length sorted = v_len (h_view hd)) by (unfold sorted; rewrite sort_asc_length; exact Lv).
    assert (Hm : mod_only st st' (v_buf (h_view hd)) (ids_of st hd) (h_outer hd)) by apply mod_set_buf.
    assert (Eb : buf_of st' (v_buf (h_view hd)) = overwrite sorted (buf_of st (v_buf (h_view hd)))).
    { apply buf_of_set_buf_same. apply (hw_buf _ _ _ _ Hw). }
    assert (Ei : ids_of st' hd = ids_of st hd) by (unfold ids_of; rewrite Ho; reflexivity).
    split; [exact Hm|split; [|rewrite Ei; reflexivity]].
    eapply hwf_rebuild; [exact Hw|exact Hm| | | |rewrite Ei; reflexivity].
    - unfold abs_handle. rewrite Ho. unfold view_vals. rewrite Eb, <- Ls, firstn_overwrite.
      rewrite <- (hw_abs _ _ _ _ Hw). unfold abs_handle, sort_bins. rewrite Ho. unfold sorted.
      apply (sort_asc_map (fun s : Z => (s, @nil A)) (fun x => x) fst). intros s. reflexivity.
    - apply sort_bins_length.
    - rewrite Eb. apply overwrite_length. rewrite Ls. apply (hw_fit _ _ _ _ Hw).
  Qed.

  (** sort_by_ascending_sum, contents manager: stable argsort applied to sums and lists *)
  Lemma sort_contents st hd b ou :
    hwf st hd true b -> h_outer hd = Some ou ->
    let vals := view_vals st (h_view hd) in
    let perm := sorted_perm vals in
    let st1 := set_buf st (v_buf (h_view hd)) (overwrite (map (fun i => nth i vals 0) perm)) in
    let st' := set_outer st1 ou (fun _ => map (fun i => nth i (outer_of st1 ou) O) perm) in
    mod_only st st' (v_buf (h_view hd)) (ids_of st hd) (h_outer hd) /\
    hwf st' hd true (sort_bins b) /\ Permutation (ids_of st' hd) (ids_of st hd).
  Proof.
    intros Hw Ho vals perm st1 st'.
    pose proof (hwf_vals_length _ _ _ _ Hw) as Lv. fold vals in Lv.
    pose proof (hwf_ids_length _ _ _ Hw) as Li. unfold ids_of in Li. rewrite Ho in Li.
    assert (Lp : length perm = v_len (h_view hd)) by (unfold perm; rewrite sorted_perm_length; exact Lv).
    assert (Hm : mod_only st st' (v_buf (h_view hd)) (ids_of st hd) (h_outer hd)).
    { rewrite Ho. eapply mod_only_trans; [apply mod_set_buf|apply mod_set_outer]. }
    assert (Eb : buf_of st' (v_buf (h_view hd)) =
                 overwrite (map (fun i => nth i vals 0) perm) (buf_of st (v_buf (h_view hd)))).
    { change (buf_of st' (v_buf (h_view hd))) with (buf_of st1 (v_buf (h_view hd))).
      apply buf_of_set_buf_same. apply (hw_buf _ _ _ _ Hw). }
    assert (Eo : outer_of st' ou = map (fun i => nth i (outer_of st ou) O) perm).
    { unfold st'. rewrite outer_of_set_outer_same; [reflexivity|]. apply (hw_outer _ _ _ _ Hw ou Ho). }
    assert (Hp : Permutation (ids_of st' hd) (ids_of st hd)).
    { unfold ids_of. rewrite Ho, Eo. apply sorted_perm_permutes. fold vals. lia. }
    split; [exact Hm|split; [|exact Hp]].
    eapply hwf_rebuild; [exact Hw|exact Hm| | | |exact Hp].
    - unfold abs_handle. rewrite Ho. unfold view_vals. rewrite Eb, Eo.
      rewrite <- Lp at 1. rewrite <- (map_length (fun i => nth i vals 0) perm), firstn_overwrite.
      change (inner_of st') with (inner_of st). rewrite map_map.
      rewrite (map_ext (fun i => inner_of st (nth i (outer_of st ou) O))
                       (fun i => nth i (map (inner_of st) (outer_of st ou)) (inner_of st O)))
        by (intros i; symmetry; apply map_nth).
      unfold perm. rewrite sorted_perm_combine by (rewrite map_length; fold vals; lia).
      rewrite <- (hw_abs _ _ _ _ Hw). unfold abs_handle, sort_bins. rewrite Ho. reflexivity.
    - apply sort_bins_length.
    - rewrite Eb. apply overwrite_length. rewrite map_length, Lp. apply (hw_fit _ _ _ _ Hw).
  Qed.

  (** ** copy_bins and remove_bins *)
  Definition copy_handle (st : hstate) (hd : handle) : hstate * handle :=
    let vals := view_vals st (h_view hd) in
    match h_outer hd with
    | None => (mk_hstate (bufs st ++ [vals]) (inners st) (outers st) (handles st),
               mk_handle (mk_view (length (bufs st)) (length vals)) None)
    | Some ou =>
        let ls := map (inner_of st) (outer_of st ou) in
        (mk_hstate (bufs st ++ [vals]) (inners st ++ ls)
                   (outers st ++ [range_from (length (inners st)) (length ls)]) (handles st),
         mk_handle (mk_view (length (bufs st)) (length vals)) (Some (length (outers st))))
    end.

  Lemma copy_handle_spec st hd k b : hwf st hd k b ->
    exists st1 hn, copy_handle st hd = (st1, hn) /\ ext st st1 /\ handles st1 = handles st /\
      hwf st1 hn k b /\ (length (bufs st) <= v_buf (h_view hn))%nat /\
      (forall o, h_outer hn = Some o -> (length (outers st) <= o)%nat) /\
      (forall i, In i (ids_of st1 hn) -> (length (inners st) <= i)%nat).
  Proof.
    intros Hw. pose proof (hwf_vals_length _ _ _ _ Hw) as Lv.
    pose proof (hw_kind _ _ _ _ Hw) as K. pose proof (hw_abs _ _ _ _ Hw) as Ha.
    pose proof (hw_olen _ _ _ _ Hw) as Ol.
    unfold copy_handle, kind_of, abs_handle in *. destruct (h_outer hd) as [ou|];
      (eexists _, _; split; [reflexivity|]); (split; [|split; [reflexivity|split; [|split; [|split]]]]).
    - repeat split; cbn [bufs inners outers]; eexists; reflexivity.
    - rewrite <- Ha, <- K. rewrite map_length, (Ol ou eq_refl), <- Lv.
      apply fresh_contents_hwf; [reflexivity|]. rewrite map_length, (Ol ou eq_refl). symmetry. exact Lv.
    - cbn [h_view v_buf]. lia.
    - cbn [h_outer]. intros o Ho. injection Ho as <-. lia.
    - unfold ids_of, outer_of. cbn [h_outer outers]. rewrite nth_snoc_last. intros i Hi.
      apply range_from_In in Hi. lia.
    - repeat split; cbn [bufs inners outers]; [eexists; reflexivity|exists []; rewrite app_nil_r; reflexivity..].
    - rewrite <- Ha, <- K. apply fresh_sums_hwf. reflexivity.
    - cbn [h_view v_buf]. lia.
    - cbn [h_outer]. intros o Ho. discriminate.
    - unfold ids_of. cbn [h_outer]. intros i Hi. contradiction.
  Qed.

  Definition remove_handle (st : hstate) (hd : handle) (n : nat) : hstate * handle :=
    let m := (v_len (h_view hd) - n)%nat in
    match h_outer hd with
    | None => (st, mk_handle (mk_view (v_buf (h_view hd)) m) None)
    | Some ou =>
        let old := outer_of st ou in
        (mk_hstate (bufs st) (inners st) (outers st ++ [firstn (length old - n) old]) (handles st),
         mk_handle (mk_view (v_buf (h_view hd)) m) (Some (length (outers st))))
    end.

  Lemma remove_handle_spec st hd k b n : hwf st hd k b ->
    exists st1 hn, remove_handle st hd n = (st1, hn) /\ ext st st1 /\ handles st1 = handles st /\
      hwf st1 hn k (remove_bins b n) /\ v_buf (h_view hn) = v_buf (h_view hd) /\
      (forall o, h_outer hn = Some o -> (length (outers st) <= o)%nat) /\
      (forall i, In i (ids_of st1 hn) -> In i (ids_of st hd)).
  Proof.
    intros Hw. pose proof (hwf_vals_length _ _ _ _ Hw) as Lv.
    pose proof (hw_kind _ _ _ _ Hw) as K. pose proof (hw_abs _ _ _ _ Hw) as Ha.
    pose proof (hw_olen _ _ _ _ Hw) as Ol. pose proof (hw_len _ _ _ _ Hw) as Hl.
    pose proof (hw_fit _ _ _ _ Hw) as Hf. pose proof (hw_buf _ _ _ _ Hw) as Hb.
    pose proof (hw_nodup _ _ _ _ Hw) as Nd. pose proof (hw_ids _ _ _ _ Hw) as Hi.
    pose proof (hw_outer _ _ _ _ Hw) as Hou.
    unfold remove_handle, remove_bins, kind_of, abs_handle, ids_of in *. destruct (h_outer hd) as [ou|];
      (eexists _, _; split; [reflexivity|]); (split; [|split; [reflexivity|split; [|split; [|split]]]]).
    - repeat split; cbn [bufs inners outers]; [exists []; rewrite app_nil_r; reflexivity..|eexists; reflexivity].
    - specialize (Ol ou eq_refl). specialize (Hou ou eq_refl).
      constructor; unfold ids_of, abs_handle, view_vals, buf_of, outer_of, inner_of, kind_of;
        cbn [h_outer h_view v_buf v_len bufs inners outers]; rewrite ?nth_snoc_last.
      + rewrite <- Hl, <- Ha. unfold view_vals, buf_of, outer_of, inner_of in *.
        unfold bin. rewrite combine_firstn, firstn_firstn, firstn_map, Ol.
        rewrite Nat.min_l by lia. reflexivity.
      + unfold bin in *. rewrite firstn_length. lia.
      + exact Hb.
      + unfold buf_of in Hf. lia.
      + exact K.
      + intros o Ho. injection Ho as <-. rewrite app_length. cbn [length]. lia.
      + intros o Ho. injection Ho as <-. rewrite nth_snoc_last, firstn_length. unfold outer_of in Ol. lia.
      + apply NoDup_firstn. exact Nd.
      + intros i Hin. apply Hi. eapply In_firstn; eauto.
    - reflexivity.
    - cbn [h_outer]. intros o Ho. injection Ho as <-. lia.
    - unfold outer_of. cbn [h_outer outers]. rewrite nth_snoc_last. intros i Hin. eapply In_firstn; eauto.
    - apply ext_refl.
    - constructor; unfold ids_of, abs_handle, view_vals, kind_of; cbn [h_outer h_view v_buf v_len].
      + rewrite <- Hl, <- Ha. unfold view_vals, bin. rewrite firstn_map, firstn_firstn. rewrite Nat.min_l by lia. reflexivity.
      + unfold bin in *. rewrite firstn_length. lia.
      + exact Hb.
      + lia.
      + exact K.
      + intros o Ho. discriminate.
      + intros o Ho. discriminate.
      + constructor.
      + intros i Hin. contradiction.
    - reflexivity.
    - cbn [h_outer]. intros o Ho. discriminate.
    - cbn [h_outer]. intros i Hin. contradiction.
  Qed.

  (** ** the allocating branches of [step], as [add_handle] of the constructions above *)
  Lemma step_copy_eq st h hd : nth_opt (handles st) h = Some hd ->
    step valueof st (OpCopy h) = add_handle (fst (copy_handle st hd)) (snd (copy_handle st hd)).
  Proof.
    intros Hn. cbn [step]. rewrite Hn. unfold copy_handle, alloc_buf. cbv beta iota zeta.
    destruct (h_outer hd) as [ou|]; [|reflexivity].
    rewrite alloc_inners_spec. unfold alloc_outer. reflexivity.
  Qed.

  Lemma step_remove_eq st h hd n : nth_opt (handles st) h = Some hd ->
    step valueof st (OpRemove h n) = add_handle (fst (remove_handle st hd n)) (snd (remove_handle st hd n)).
  Proof.
    intros Hn. cbn [step]. rewrite Hn. unfold remove_handle, alloc_outer. cbv beta iota zeta.
    destruct (h_outer hd) as [ou|]; reflexivity.
  Qed.

  Lemma step_concat_eq st h1 h2 hd1 hd2 :
    nth_opt (handles st) h1 = Some hd1 -> nth_opt (handles st) h2 = Some hd2 -> kind_of hd1 = kind_of hd2 ->
    step valueof st (OpConcat h1 h2) = add_handle (fst (concat_handles st hd1 hd2)) (snd (concat_handles st hd1 hd2)).
  Proof.
    intros H1 H2 K. cbn [step]. rewrite H1, H2. unfold concat_handles, alloc_buf, alloc_outer, kind_of in *.
    cbv beta iota zeta. destruct (h_outer hd1) as [o1|]; destruct (h_outer hd2) as [o2|]; try discriminate; reflexivity.
  Qed.

  Lemma step_addempty_eq st h hd n st1 hn :
    nth_opt (handles st) h = Some hd -> new_handle st (kind_of hd) n = (st1, hn) -> kind_of hn = kind_of hd ->
    step valueof st (OpAddEmpty h n) = add_handle (fst (concat_handles st1 hd hn)) (snd (concat_handles st1 hd hn)).
  Proof.
    intros Hn E K. cbn [step]. rewrite Hn.
    change (match h_outer hd with Some _ => true | None => false end) with (kind_of hd). rewrite E.
    unfold concat_handles, alloc_buf, alloc_outer, kind_of in *.
    cbv beta iota zeta. destruct (h_outer hd) as [o1|]; destruct (h_outer hn) as [o2|]; try discriminate; reflexivity.
  Qed.

  (** * (d) the one-step simulation *)
  Lemma inv_alloc_fresh st ps st1 hn ps0 k b :
    Inv st ps -> ext st st1 -> handles st1 = handles st ->
    length ps0 = length ps -> (forall g e, plive ps0 g = Some e -> plive ps g = Some e) ->
    hwf st1 hn k b -> (length (bufs st) <= v_buf (h_view hn))%nat ->
    (forall o, h_outer hn = Some o -> (length (outers st) <= o)%nat) ->
    (forall g hdg e i, plive ps0 g = Some e -> nth_opt (handles st) g = Some hdg ->
       In i (ids_of st hdg) -> In i (ids_of st1 hn) -> False) ->
    Inv (add_handle st1 hn) (ps0 ++ [Some (k, b)]).
  Proof.
    intros HI He Hh Hl Hsub Hw Hb Ho Hdis.
    assert (He' : ext st (add_handle st1 hn)) by (eapply ext_trans; [exact He|apply ext_add_handle]).
    apply (inv_alloc st ps (add_handle st1 hn) ps0 hn k b); auto.
    - unfold add_handle. cbn [handles]. rewrite Hh. reflexivity.
    - apply (hwf_ext st1); [apply ext_add_handle|exact Hw].
    - intros g hdg [kg bg] Hp Hn. destruct HI as (_ & HW & _).
      apply (sep_fresh st _ hdg kg bg); auto.
      + eapply HW; eauto.
      + intros i H1 H2. eapply Hdis; eauto.
  Qed.

  Lemma inv_inplace' st ps st' h hd k b b' :
    Inv st ps -> handles st' = handles st ->
    nth_opt (handles st) h = Some hd -> plive ps h = Some (k, b) ->
    mod_only st st' (v_buf (h_view hd)) (ids_of st hd) (h_outer hd) /\
    hwf st' hd k b' /\ Permutation (ids_of st' hd) (ids_of st hd) ->
    Inv st' (update h (fun _ => Some (k, b')) ps).
  Proof.
    intros HI Hh Hn Hp (Hm & Hw & Hperm). eapply inv_inplace; eauto.
    intros i Hi. eapply Permutation_in; eauto.
  Qed.

  Lemma inv_sep st ps h1 h2 hd1 hd2 e1 e2 : Inv st ps -> h1 <> h2 ->
    nth_opt (handles st) h1 = Some hd1 -> nth_opt (handles st) h2 = Some hd2 ->
    plive ps h1 = Some e1 -> plive ps h2 = Some e2 -> sep st hd1 hd2.
  Proof. intros (_ & _ & Hs). apply Hs. Qed.

  Lemma inv_hwf st ps h hd k b : Inv st ps ->
    nth_opt (handles st) h = Some hd -> plive ps h = Some (k, b) -> hwf st hd k b.
  Proof. intros (_ & Hw & _). apply Hw. Qed.

  (** what an allocating step does to the heap besides the invariant: it only appends *)
  Definition appends (st st' : hstate) : Prop :=
    ext st st' /\ exists hd', handles st' = handles st ++ [hd'].

  Lemma appends_add_handle st st1 hn : ext st st1 -> handles st1 = handles st -> appends st (add_handle st1 hn).
  Proof.
    intros He Hh. split; [eapply ext_trans; [exact He|apply ext_add_handle]|].
    exists hn. unfold add_handle. cbn [handles]. rewrite Hh. reflexivity.
  Qed.

  Lemma sim_new st ps keep n : Inv st ps ->
    Inv (step valueof st (OpNew keep n)) (pure_step valueof ps (OpNew keep n)) /\
    appends st (step valueof st (OpNew keep n)).
  Proof.
    intros HI. cbn [step pure_step].
    destruct (new_handle_spec st keep n) as (st1 & hn & E & He & Hh & Hw & Hb & Ho & Hi). rewrite E.
    split; [|apply appends_add_handle; auto].
    apply (inv_alloc_fresh st ps st1 hn ps keep (new_bins n)); auto.
    intros g hdg [kg bg] i Hp Hn H1 H2.
    pose proof (hw_ids _ _ _ _ (inv_hwf _ _ _ _ _ _ HI Hn Hp) i H1). specialize (Hi i H2). lia.
  Qed.

  Lemma sim_copy st ps h : Inv st ps -> disciplined ps (OpCopy h) ->
    Inv (step valueof st (OpCopy h)) (pure_step valueof ps (OpCopy h)) /\
    appends st (step valueof st (OpCopy h)).
  Proof.
    intros HI [[k b] Hp]. destruct (hwf_lookup _ _ _ _ _ HI Hp) as (hd & Hn & Hw).
    rewrite (step_copy_eq _ _ _ Hn). cbn [pure_step]. rewrite Hp.
    destruct (copy_handle_spec _ _ _ _ Hw) as (st1 & hn & E & He & Hh & Hw1 & Hb & Ho & Hi).
    rewrite E. cbn [fst snd]. split; [|apply appends_add_handle; auto].
    apply (inv_alloc_fresh st ps st1 hn ps k b); auto.
    intros g hdg [kg bg] i Hpg Hng H1 H2.
    pose proof (hw_ids _ _ _ _ (inv_hwf _ _ _ _ _ _ HI Hng Hpg) i H1). specialize (Hi i H2). lia.
  Qed.

  Lemma sim_addempty st ps h n : Inv st ps -> disciplined ps (OpAddEmpty h n) ->
    Inv (step valueof st (OpAddEmpty h n)) (pure_step valueof ps (OpAddEmpty h n)) /\
    appends st (step valueof st (OpAddEmpty h n)).
  Proof.
    intros HI [[k b] Hp]. destruct (hwf_lookup _ _ _ _ _ HI Hp) as (hd & Hn & Hw).
    destruct (new_handle_spec st (kind_of hd) n) as (st1 & hn & E & He & Hh & Hwn & Hbn & Hon & Hin).
    pose proof (hw_kind _ _ _ _ Hwn) as Kn.
    rewrite (step_addempty_eq _ _ _ _ _ _ Hn E Kn). cbn [pure_step]. rewrite Hp.
    rewrite (hw_kind _ _ _ _ Hw) in Hwn.
    assert (Hw1 : hwf st1 hd k b) by (eapply hwf_ext; eauto).
    destruct (concat_handles_spec st1 hd hn k b (new_bins n) Hw1 Hwn)
      as (st2 & hd' & E2 & He2 & Hh2 & Hw2 & Hb2 & Ho2 & Hi2).
    { intros i H1 H2. rewrite (ids_of_ext _ _ _ _ _ He Hw) in H1.
      pose proof (hw_ids _ _ _ _ Hw i H1). specialize (Hin i H2). lia. }
    rewrite E2. cbn [fst snd]. unfold add_empty_bins.
    pose proof (ext_lengths _ _ He) as (L1 & L2 & L3).
    split; [|apply appends_add_handle; [eapply ext_trans; eauto|congruence]].
    apply (inv_alloc_fresh st ps st2 hd' (kill h ps) k (b ++ new_bins n)); auto.
    - eapply ext_trans; eauto.
    - congruence.
    - apply kill_length.
    - intros g e Hg. apply plive_kill in Hg. tauto.
    - lia.
    - intros o Ho. specialize (Ho2 o Ho). lia.
    - intros g hdg [kg bg] i Hpg Hng H1 H2. apply plive_kill in Hpg. destruct Hpg as [Hne Hpg].
      rewrite Hi2 in H2. apply in_app_or in H2. destruct H2 as [H2|H2].
      + rewrite (ids_of_ext _ _ _ _ _ He Hw) in H2.
        destruct (inv_sep _ _ _ _ _ _ _ _ HI Hne Hng Hn Hpg Hp) as (_ & _ & S3). eapply S3; eauto.
      + pose proof (hw_ids _ _ _ _ (inv_hwf _ _ _ _ _ _ HI Hng Hpg) i H1). specialize (Hin i H2). lia.
  Qed.

  Lemma sim_remove st ps h n : Inv st ps -> disciplined ps (OpRemove h n) ->
    Inv (step valueof st (OpRemove h n)) (pure_step valueof ps (OpRemove h n)) /\
    appends st (step valueof st (OpRemove h n)).
  Proof.
    intros HI (k & b & Hp & _). destruct (hwf_lookup _ _ _ _ _ HI Hp) as (hd & Hn & Hw).
    rewrite (step_remove_eq _ _ _ _ Hn). cbn [pure_step]. rewrite Hp.
    destruct (remove_handle_spec st hd k b n Hw) as (st1 & hn & E & He & Hh & Hw1 & Hb & Ho & Hi).
    rewrite E. cbn [fst snd].
    assert (He' : ext st (add_handle st1 hn)) by (eapply ext_trans; [exact He|apply ext_add_handle]).
    split; [|apply appends_add_handle; auto].
    apply (inv_alloc st ps (add_handle st1 hn) (kill h ps) hn k (remove_bins b n)); auto.
    - unfold add_handle. cbn [handles]. rewrite Hh. reflexivity.
    - apply kill_length.
    - intros g e Hg. apply plive_kill in Hg. tauto.
    - apply (hwf_ext st1); [apply ext_add_handle|exact Hw1].
    - intros g hdg [kg bg] Hpg Hng. apply plive_kill in Hpg. destruct Hpg as [Hne Hpg].
      pose proof (inv_hwf _ _ _ _ _ _ HI Hng Hpg) as Hwg.
      destruct (inv_sep _ _ _ _ _ _ _ _ HI Hne Hng Hn Hpg Hp) as (S1 & S2 & S3).
      repeat split.
      + rewrite Hb. exact S1.
      + intros o Hog Hon. pose proof (hw_outer _ _ _ _ Hwg o Hog). specialize (Ho o Hon). lia.
      + intros i H1 H2. rewrite (ids_of_ext _ _ _ _ _ He' Hwg) in H1. apply (S3 i H1). apply Hi. exact H2.
  Qed.

  Lemma sim_concat st ps h1 h2 : Inv st ps -> disciplined ps (OpConcat h1 h2) ->
    Inv (step valueof st (OpConcat h1 h2)) (pure_step valueof ps (OpConcat h1 h2)) /\
    appends st (step valueof st (OpConcat h1 h2)).
  Proof.
    intros HI (Hne & k & b1 & b2 & P1 & P2).
    destruct (hwf_lookup _ _ _ _ _ HI P1) as (hd1 & N1 & W1).
    destruct (hwf_lookup _ _ _ _ _ HI P2) as (hd2 & N2 & W2).
    rewrite (step_concat_eq _ _ _ _ _ N1 N2)
      by (rewrite (hw_kind _ _ _ _ W1), (hw_kind _ _ _ _ W2); reflexivity).
    cbn [pure_step]. rewrite P1, P2.
    destruct (inv_sep _ _ _ _ _ _ _ _ HI Hne N1 N2 P1 P2) as (_ & _ & S3).
    destruct (concat_handles_spec st hd1 hd2 k b1 b2 W1 W2 S3) as (st' & hd' & E & He & Hh & Hw & Hb & Ho & Hi).
    rewrite E. cbn [fst snd]. unfold concatenate_bins.
    split; [|apply appends_add_handle; auto].
    apply (inv_alloc_fresh st ps st' hd' (kill h2 (kill h1 ps)) k (b1 ++ b2)); auto.
    - rewrite !kill_length. reflexivity.
    - intros g e Hg. apply plive_kill in Hg. destruct Hg as [_ Hg]. apply plive_kill in Hg. tauto.
    - intros g hdg [kg bg] i Hpg Hng H1 H2. apply plive_kill in Hpg. destruct Hpg as [Hn2 Hpg].
      apply plive_kill in Hpg. destruct Hpg as [Hn1 Hpg].
      rewrite Hi in H2. apply in_app_or in H2. destruct H2 as [H2|H2].
      + destruct (inv_sep _ _ _ _ _ _ _ _ HI Hn1 Hng N1 Hpg P1) as (_ & _ & T3). eapply T3; eauto.
      + destruct (inv_sep _ _ _ _ _ _ _ _ HI Hn2 Hng N2 Hpg P2) as (_ & _ & T3). eapply T3; eauto.
  Qed.

  Lemma sim_add st ps h x i : Inv st ps -> disciplined ps (OpAdd h x i) ->
    Inv (step valueof st (OpAdd h x i)) (pure_step valueof ps (OpAdd h x i)).
  Proof.
    intros HI (k & b & Hp & Hi). destruct (hwf_lookup _ _ _ _ _ HI Hp) as (hd & Hn & Hw).
    pose proof (hw_len _ _ _ _ Hw) as Hl.
    assert (Hi' : (i < v_len (h_view hd))%nat) by lia.
    cbn [step pure_step]. rewrite Hn, Hp. rewrite (proj2 (Nat.ltb_lt _ _) Hi').
    destruct k.
    - destruct (hwf_contents_outer _ _ _ Hw) as [ou Ho]. rewrite Ho.
      change (outer_of (set_buf st (v_buf (h_view hd)) (update i (fun s => s + valueof x))) ou)
        with (outer_of st ou).
      assert (Hinn : nth_opt (outer_of st ou) i = Some (nth i (outer_of st ou) O)).
      { apply nth_opt_lt. rewrite (hw_olen _ _ _ _ Hw ou Ho). exact Hi'. }
      rewrite Hinn.
      eapply (inv_inplace' st ps _ h hd true b); [exact HI|reflexivity|exact Hn|exact Hp|].
      exact (bump_contents st hd b ou i _ (fun s => s + valueof x) (fun l => l ++ [x]) Hw Ho Hi' Hinn).
    - rewrite (hwf_sums_outer _ _ _ Hw).
      eapply (inv_inplace' st ps _ h hd false b); [exact HI|reflexivity|exact Hn|exact Hp|].
      exact (bump_sums st hd b i (fun s => s + valueof x) Hw Hi').
  Qed.

  Lemma sim_sort st ps h : Inv st ps -> disciplined ps (OpSort h) ->
    Inv (step valueof st (OpSort h)) (pure_step valueof ps (OpSort h)).
  Proof.
    intros HI [[k b] Hp]. destruct (hwf_lookup _ _ _ _ _ HI Hp) as (hd & Hn & Hw).
    cbn [step pure_step]. rewrite Hn, Hp. destruct k.
    - destruct (hwf_contents_outer _ _ _ Hw) as [ou Ho]. rewrite Ho.
      eapply (inv_inplace' st ps _ h hd true b); [exact HI|reflexivity|exact Hn|exact Hp|].
      exact (sort_contents st hd b ou Hw Ho).
    - rewrite (hwf_sums_outer _ _ _ Hw).
      eapply (inv_inplace' st ps _ h hd false b); [exact HI|reflexivity|exact Hn|exact Hp|].
      exact (sort_sums st hd b Hw).
  Qed.

  Lemma sim_combine st ps h1 i1 h2 i2 : Inv st ps -> disciplined ps (OpCombine h1 i1 h2 i2) ->
    Inv (step valueof st (OpCombine h1 i1 h2 i2)) (pure_step valueof ps (OpCombine h1 i1 h2 i2)).
  Proof.
    intros HI (k & b1 & b2 & P1 & P2 & Hi1 & Hi2).
    destruct (hwf_lookup _ _ _ _ _ HI P1) as (hd1 & N1 & W1).
    destruct (hwf_lookup _ _ _ _ _ HI P2) as (hd2 & N2 & W2).
    pose proof (hw_len _ _ _ _ W1) as L1. pose proof (hw_len _ _ _ _ W2) as L2.
    assert (Hi1' : (i1 < v_len (h_view hd1))%nat) by lia.
    assert (Hi2' : (i2 < v_len (h_view hd2))%nat) by lia.
    pose proof (hwf_vals_length _ _ _ _ W2) as Lv2.
    cbn [step pure_step]. rewrite N1, N2, P1, P2.
    rewrite (proj2 (Nat.ltb_lt _ _) Hi1'), (proj2 (Nat.ltb_lt _ _) Hi2'). cbn [andb].
    set (add := nth i2 (view_vals st (h_view hd2)) 0).
    set (st1 := set_buf st (v_buf (h_view hd1)) (update i1 (fun s => s + add))).
    assert (Ev2 : nth_opt (view_vals st (h_view hd2)) i2 = Some add) by (apply nth_opt_lt; lia).
    destruct k.
    - destruct (hwf_contents_outer _ _ _ W1) as [o1 Ho1]. destruct (hwf_contents_outer _ _ _ W2) as [o2 Ho2].
      rewrite Ho1, Ho2.
      change (outer_of st1 o1) with (outer_of st o1). change (outer_of st1 o2) with (outer_of st o2).
      assert (Hinn1 : nth_opt (outer_of st o1) i1 = Some (nth i1 (outer_of st o1) O)).
      { apply nth_opt_lt. rewrite (hw_olen _ _ _ _ W1 o1 Ho1). exact Hi1'. }
      assert (Hinn2 : nth_opt (outer_of st o2) i2 = Some (nth i2 (outer_of st o2) O)).
      { apply nth_opt_lt. rewrite (hw_olen _ _ _ _ W2 o2 Ho2). exact Hi2'. }
      rewrite Hinn1, Hinn2.
      set (in2 := nth i2 (outer_of st o2) O) in *. change (inner_of st1 in2) with (inner_of st in2).
      assert (Eb2 : nth_opt b2 i2 = Some (add, inner_of st in2)).
      { rewrite <- (hw_abs _ _ _ _ W2). unfold abs_handle. rewrite Ho2. unfold bin.
        rewrite nth_opt_combine, nth_opt_map, Hinn2, Ev2. reflexivity. }
      unfold combine_bins. rewrite Eb2.
      eapply (inv_inplace' st ps _ h1 hd1 true b1); [exact HI|reflexivity|exact N1|exact P1|].
      exact (bump_contents st hd1 b1 o1 i1 _ (fun s => s + add) (fun l => l ++ inner_of st in2) W1 Ho1 Hi1' Hinn1).
    - rewrite (hwf_sums_outer _ _ _ W1), (hwf_sums_outer _ _ _ W2).
      assert (Eb2 : nth_opt b2 i2 = Some (add, [])).
      { rewrite <- (hw_abs _ _ _ _ W2). unfold abs_handle. rewrite (hwf_sums_outer _ _ _ W2). unfold bin.
        rewrite nth_opt_map, Ev2. reflexivity. }
      unfold combine_bins. rewrite Eb2.
      assert (Eu : update i1 (fun y : bin A => combine_bin y (add, [])) b1 =
                   update i1 (fun p : bin A => (fst p + add, snd p)) b1).
      { apply update_ext. intros y _. unfold combine_bin. cbn [fst snd]. rewrite app_nil_r. reflexivity. }
      rewrite Eu.
      eapply (inv_inplace' st ps _ h1 hd1 false b1); [exact HI|reflexivity|exact N1|exact P1|].
      exact (bump_sums st hd1 b1 i1 (fun s => s + add) W1 Hi1').
  Qed.

  Theorem step_sim st ps o : Inv st ps -> disciplined ps o ->
    Inv (step valueof st o) (pure_step valueof ps o).
  Proof.
    intros HI Hd. destruct o as [keep n|h x i|h|h|h n|h n|h1 h2|h1 i1 h2 i2].
    - apply sim_new; auto.
    - apply sim_add; auto.
    - apply sim_copy; auto.
    - apply sim_sort; auto.
    - apply sim_addempty; auto.
    - apply sim_remove; auto.
    - apply sim_concat; auto.
    - apply sim_combine; auto.
  Qed.

  (** * (e) the fold *)
  Lemma inv_empty : Inv empty_state [].
  Proof.
    split; [reflexivity|split].
    - intros h hd k b Hn. destruct h; discriminate.
    - intros h1 h2 hd1 hd2 e1 e2 _ Hn. destruct h1; discriminate.
  Qed.

  Lemma fold_sim ops : forall st ps, Inv st ps -> disciplined_run valueof ps ops ->
    Inv (fold_left (step valueof) ops st) (fold_left (pure_step valueof) ops ps).
  Proof.
    induction ops as [|o t IH]; intros st ps HI Hd; cbn [fold_left]; [exact HI|].
    destruct Hd as [Ho Ht]. apply IH; [apply step_sim; auto|exact Ht].
  Qed.

  Theorem run_inv ops : disciplined_run valueof [] ops -> Inv (run valueof ops) (pure_run valueof ops).
  Proof. intros Hd. apply fold_sim; [apply inv_empty|exact Hd]. Qed.

  Theorem run_handles_length ops : disciplined_run valueof [] ops ->
    length (handles (run valueof ops)) = length (pure_run valueof ops).
  Proof. intros Hd. apply (run_inv ops Hd). Qed.

  Lemma inv_abs st ps h k b : Inv st ps -> plive ps h = Some (k, b) -> abs st h = Some b.
  Proof.
    intros HI Hp. destruct (hwf_lookup _ _ _ _ _ HI Hp) as (hd & Hn & Hw).
    unfold abs. rewrite Hn. rewrite (hw_abs _ _ _ _ Hw). reflexivity.
  Qed.

  (** C16: every live array shows exactly the documented result *)
  Theorem heap_refines_pure : forall ops, disciplined_run valueof [] ops ->
    forall h k b, plive (pure_run valueof ops) h = Some (k, b) -> abs (run valueof ops) h = Some b.
  Proof. intros ops Hd h k b Hp. eapply inv_abs; [apply run_inv; exact Hd|exact Hp]. Qed.

  (** the boolean discipline test evaluated by the harness (extracted) implies the
      discipline of the theorems *)
  Lemma disciplined_b_sound ps (o : op (A := A)) : disciplined_b ps o = true -> disciplined ps o.
  Proof.
    destruct o as [keep n|h x i|h|h|h n|h n|h1 h2|h1 i1 h2 i2]; cbn [disciplined_b disciplined]; intros H.
    - exact I.
    - destruct (plive ps h) as [[k b]|]; [|discriminate]. exists k, b. split; [reflexivity|apply Nat.ltb_lt; exact H].
    - destruct (plive ps h) as [e|]; [|discriminate]. exists e; reflexivity.
    - destruct (plive ps h) as [e|]; [|discriminate]. exists e; reflexivity.
    - destruct (plive ps h) as [e|]; [|discriminate]. exists e; reflexivity.
    - destruct (plive ps h) as [[k b]|]; [|discriminate]. exists k, b. split; [reflexivity|apply Nat.leb_le; exact H].
    - apply andb_prop in H. destruct H as [Hn H]. split.
      + intros E. subst h2. rewrite Nat.eqb_refl in Hn. discriminate.
      + destruct (plive ps h1) as [[k1 b1]|]; [|discriminate]. destruct (plive ps h2) as [[k2 b2]|]; [|discriminate].
        apply Bool.eqb_prop in H. subst k2. exists k1, b1, b2. split; reflexivity.
    - destruct (plive ps h1) as [[k1 b1]|]; [|discriminate]. destruct (plive ps h2) as [[k2 b2]|]; [|discriminate].
      apply andb_prop in H. destruct H as [H Hi2]. apply andb_prop in H. destruct H as [Hk Hi1].
      apply Bool.eqb_prop in Hk. subst k2. exists k1, b1, b2.
      repeat split; [apply Nat.ltb_lt; exact Hi1|apply Nat.ltb_lt; exact Hi2].
  Qed.

  Lemma disciplined_run_b_sound (ops : list (op (A := A))) : forall ps,
    disciplined_run_b valueof ps ops = true -> disciplined_run valueof ps ops.
  Proof.
    induction ops as [|o t IH]; intros ps H; cbn [disciplined_run_b disciplined_run] in *; [exact I|].
    apply andb_prop in H. destruct H as [Ho Ht]. split; [apply disciplined_b_sound; exact Ho|apply IH; exact Ht].
  Qed.

  (** C16 for the sequences the harness accepts: the boolean test suffices *)
  Theorem heap_refines_pure_b : forall ops, disciplined_run_b valueof [] ops = true ->
    forall h k b, plive (pure_run valueof ops) h = Some (k, b) -> abs (run valueof ops) h = Some b.
  Proof. intros ops Hd. apply heap_refines_pure. apply disciplined_run_b_sound. exact Hd. Qed.

End HeapProofs.

Print Assumptions run_inv.
Print Assumptions run_handles_length.
Print Assumptions heap_refines_pure.
Print Assumptions heap_refines_pure_b.
