(** Proofs about the dynamic-programming model (Model/DP.v):
    layer invariant (soundness / completeness of the final layer), totality,
    the result is a partition, the result is optimal (C02 for DP),
    sums-only run (C06), names irrelevant (C07), and a non-vacuity example. *)
From Prtpy Require Import Base.Prelude Model.Binner Model.Objectives Model.CG Model.DP
  Spec.Partition Proofs.BaseLemmas Proofs.BinnerLemmas.

(** ---- generic helpers ---- *)

Lemma zlist_eqb_eq a b : zlist_eqb a b = true <-> a = b.
Proof.
  revert b; induction a as [|x t IH]; intros [|y u]; cbn [zlist_eqb]; split; intros H;
    try discriminate; try reflexivity.
  - apply andb_true_iff in H. destruct H as [H1 H2].
    apply Z.eqb_eq in H1. apply IH in H2. subst. reflexivity.
  - injection H as -> ->. apply andb_true_iff. split; [apply Z.eqb_refl|].
    apply IH. reflexivity.
Qed.

Lemma range_from_In i n : forall a, In i (range_from a n) <-> (a <= i < a + n)%nat.
Proof.
  induction n as [|m IH]; intros a; cbn [range_from In].
  - split; [intros []|lia].
  - rewrite IH. lia.
Qed.

Lemma range_In i k : In i (range k) <-> (i < k)%nat.
Proof. unfold range. rewrite range_from_In. lia. Qed.

Lemma combine_snoc {T U} (l1 : list T) : forall (l2 : list U) x y,
  length l1 = length l2 -> combine (l1 ++ [x]) (l2 ++ [y]) = combine l1 l2 ++ [(x, y)].
Proof.
  induction l1 as [|a t IH]; intros [|b u] x y H; cbn [length] in H; try discriminate.
  - reflexivity.
  - cbn [app combine]. f_equal. apply IH. lia.
Qed.

Lemma loads_snoc k vs asg v i : length vs = length asg ->
  loads k (vs ++ [v]) (asg ++ [i]) = update i (fun x => x + v) (loads k vs asg).
Proof.
  intros H. unfold loads. rewrite (combine_snoc vs asg v i H), fold_left_app. reflexivity.
Qed.

Lemma fold_left_map {T U V} (f : V -> U -> V) (g : T -> U) l :
  forall a, fold_left f (map g l) a = fold_left (fun a x => f a (g x)) l a.
Proof. induction l as [|x t IH]; intros a; cbn [map fold_left]; auto. Qed.

(** ---- dp_insert: keeps the first record per state ---- *)

Lemma dp_insert_has r l : exists r', In r' (dp_insert r l) /\ fst r' = fst r.
Proof.
  induction l as [|y t IH]; cbn [dp_insert].
  - exists r. split; [left; reflexivity|reflexivity].
  - destruct (zlist_eqb (fst r) (fst y)) eqn:E.
    + apply zlist_eqb_eq in E. exists y. split; [left; reflexivity|congruence].
    + destruct IH as (r' & H1 & H2). exists r'. split; [right; exact H1|exact H2].
Qed.

Lemma dp_insert_incl x r l : In x l -> In x (dp_insert r l).
Proof.
  induction l as [|y t IH]; intros H; cbn [dp_insert].
  - destruct H.
  - destruct (zlist_eqb (fst r) (fst y)); [exact H|].
    destruct H as [H|H]; [left; exact H|right; apply IH; exact H].
Qed.

Lemma dp_insert_inv x r l : In x (dp_insert r l) -> x = r \/ In x l.
Proof.
  induction l as [|y t IH]; cbn [dp_insert]; intros H.
  - destruct H as [H|[]]. left. symmetry. exact H.
  - destruct (zlist_eqb (fst r) (fst y)); [right; exact H|].
    destruct H as [H|H]; [right; left; exact H|].
    destruct (IH H) as [H'|H']; [left; exact H'|right; right; exact H'].
Qed.

(** inserting a batch of records *)
Definition ins_all (rs acc : list drec) : list drec :=
  fold_left (fun acc' r' => dp_insert r' acc') rs acc.

Lemma ins_all_incl rs : forall acc x, In x acc -> In x (ins_all rs acc).
Proof.
  unfold ins_all. induction rs as [|r rs IH]; intros acc x H; cbn [fold_left]; [exact H|].
  apply IH. apply dp_insert_incl. exact H.
Qed.

Lemma ins_all_inv rs : forall acc x, In x (ins_all rs acc) -> In x rs \/ In x acc.
Proof.
  unfold ins_all. induction rs as [|r rs IH]; intros acc x H; cbn [fold_left] in H; [right; exact H|].
  destruct (IH _ _ H) as [H'|H']; [left; right; exact H'|].
  destruct (dp_insert_inv _ _ _ H') as [->|H'']; [left; left; reflexivity|right; exact H''].
Qed.

Lemma ins_all_has rs : forall acc r, In r rs -> exists r', In r' (ins_all rs acc) /\ fst r' = fst r.
Proof.
  induction rs as [|r0 rs IH]; intros acc r H; [destruct H|].
  change (ins_all (r0 :: rs) acc) with (ins_all rs (dp_insert r0 acc)).
  destruct H as [->|H].
  - destruct (dp_insert_has r acc) as (r' & H1 & H2). exists r'. split; [|exact H2].
    apply ins_all_incl. exact H1.
  - apply IH. exact H.
Qed.

(** ---- dp_succ / dp_layer ---- *)

Lemma dp_succ_In k v r s :
  In s (dp_succ k v r) <->
  exists i, (i < k)%nat /\ s = (update i (fun x => x + v) (fst r), i :: snd r).
Proof.
  unfold dp_succ. rewrite in_map_iff. split.
  - intros (i & E & Hi). exists i. apply range_In in Hi. split; [exact Hi|]. symmetry. exact E.
  - intros (i & Hi & E). exists i. split; [symmetry; exact E|]. apply range_In. exact Hi.
Qed.

Definition layer_from (k : nat) (v : Z) (layer acc : list drec) : list drec :=
  fold_left (fun acc r => ins_all (dp_succ k v r) acc) layer acc.

Lemma dp_layer_from k v layer : dp_layer k v layer = layer_from k v layer [].
Proof. reflexivity. Qed.

Lemma layer_from_incl k v layer : forall acc x, In x acc -> In x (layer_from k v layer acc).
Proof.
  unfold layer_from. induction layer as [|r t IH]; intros acc x H; cbn [fold_left]; [exact H|].
  apply IH. apply ins_all_incl. exact H.
Qed.

Lemma layer_from_inv k v layer : forall acc x, In x (layer_from k v layer acc) ->
  (exists r, In r layer /\ In x (dp_succ k v r)) \/ In x acc.
Proof.
  unfold layer_from. induction layer as [|r t IH]; intros acc x H; cbn [fold_left] in H; [right; exact H|].
  destruct (IH _ _ H) as [(r' & H1 & H2)|H'].
  - left. exists r'. split; [right; exact H1|exact H2].
  - destruct (ins_all_inv _ _ _ H') as [H''|H''].
    + left. exists r. split; [left; reflexivity|exact H''].
    + right. exact H''.
Qed.

Lemma layer_from_has k v layer : forall acc r s, In r layer -> In s (dp_succ k v r) ->
  exists r', In r' (layer_from k v layer acc) /\ fst r' = fst s.
Proof.
  induction layer as [|r0 t IH]; intros acc r s H Hs; [destruct H|].
  change (layer_from k v (r0 :: t) acc) with (layer_from k v t (ins_all (dp_succ k v r0) acc)).
  destruct H as [->|H].
  - destruct (ins_all_has _ acc s Hs) as (r' & H1 & H2). exists r'. split; [|exact H2].
    apply layer_from_incl. exact H1.
  - apply (IH _ r s H Hs).
Qed.

Lemma dp_layer_inv k v layer x : In x (dp_layer k v layer) ->
  exists r i, In r layer /\ (i < k)%nat /\ x = (update i (fun s => s + v) (fst r), i :: snd r).
Proof.
  rewrite dp_layer_from. intros H.
  destruct (layer_from_inv _ _ _ _ _ H) as [(r & H1 & H2)|[]].
  apply dp_succ_In in H2. destruct H2 as (i & Hi & E). exists r, i. auto.
Qed.

Lemma dp_layer_has k v layer r i : In r layer -> (i < k)%nat ->
  exists r', In r' (dp_layer k v layer) /\ fst r' = update i (fun s => s + v) (fst r).
Proof.
  intros H Hi. rewrite dp_layer_from.
  destruct (layer_from_has k v layer [] r (update i (fun s => s + v) (fst r), i :: snd r) H)
    as (r' & H1 & H2).
  - apply dp_succ_In. exists i. split; [exact Hi|reflexivity].
  - exists r'. split; [exact H1|exact H2].
Qed.

(** ---- dp_min: first minimum ---- *)

Lemma dp_min_spec o l : forall best,
  In (dp_min o best l) (best :: l) /\
  forall x, In x (best :: l) -> value o (fst (dp_min o best l)) false <= value o (fst x) false.
Proof.
  induction l as [|r t IH]; intros best; cbn [dp_min].
  - split; [left; reflexivity|]. intros x [<-|[]]. lia.
  - destruct (value o (fst r) false <? value o (fst best) false) eqn:E.
    + destruct (IH r) as [H1 H2]. split; [right; exact H1|].
      intros x [<-|Hx].
      * specialize (H2 r (or_introl eq_refl)). apply Z.ltb_lt in E. lia.
      * apply H2. exact Hx.
    + destruct (IH best) as [H1 H2]. split.
      * destruct H1 as [H1|H1]; [left; exact H1|right; right; exact H1].
      * intros x [<-|[<-|Hx]].
        -- apply H2. left. reflexivity.
        -- specialize (H2 best (or_introl eq_refl)). apply Z.ltb_ge in E. lia.
        -- apply H2. right. exact Hx.
Qed.

Section DPProofs.
  Context {A : Type} (valueof : A -> Z).

  (** ---- 1. layer invariant ---- *)

  Lemma dp_final_snoc k items x :
    dp_final valueof k (items ++ [x]) = dp_layer k (valueof x) (dp_final valueof k items).
  Proof. unfold dp_final. rewrite fold_left_app. reflexivity. Qed.

  Theorem dp_final_sound : forall k items r, In r (dp_final valueof k items) ->
    length (snd r) = length items /\ valid_asg k (rev (snd r)) /\
    loads k (map valueof items) (rev (snd r)) = fst r.
  Proof.
    intros k items. induction items as [|x its IH] using rev_ind; intros r H.
    - destruct H as [<-|[]]. cbn [fst snd rev map length]. split; [reflexivity|].
      split; [constructor|reflexivity].
    - rewrite dp_final_snoc in H. apply dp_layer_inv in H.
      destruct H as (r0 & i & H0 & Hi & ->). destruct (IH r0 H0) as (L & V & E).
      cbn [fst snd rev]. split; [|split].
      + rewrite app_length. cbn [length]. lia.
      + apply Forall_app. split; [exact V|]. constructor; [exact Hi|constructor].
      + rewrite map_app. cbn [map]. rewrite loads_snoc.
        * rewrite E. reflexivity.
        * rewrite map_length, rev_length. lia.
  Qed.

  Theorem dp_final_complete : forall k items asg, length asg = length items -> valid_asg k asg ->
    exists r, In r (dp_final valueof k items) /\ fst r = loads k (map valueof items) asg.
  Proof.
    intros k items. induction items as [|x its IH] using rev_ind; intros asg L V.
    - destruct asg as [|i p]; [|discriminate]. exists (repeat 0 k, []).
      split; [left; reflexivity|reflexivity].
    - rewrite app_length in L. cbn [length] in L.
      assert (Hne : asg <> []) by (intros ->; cbn [length] in L; lia).
      destruct (exists_last Hne) as (asg' & i & ->).
      rewrite app_length in L. cbn [length] in L.
      apply Forall_app in V. destruct V as [V1 V2]. pose proof (Forall_inv V2) as Hi. cbv beta in Hi.
      destruct (IH asg') as (r0 & H0 & E0); [lia|exact V1|].
      destruct (dp_layer_has k (valueof x) _ r0 i H0 Hi) as (r' & H1 & E1).
      exists r'. rewrite dp_final_snoc. split; [exact H1|].
      rewrite E1, E0, map_app. cbn [map]. rewrite loads_snoc; [reflexivity|].
      rewrite map_length. lia.
  Qed.

  (** what [dp] returns, unfolded once and for all *)
  Lemma dp_unfold keep o k items b : dp valueof keep o k items = Ok b ->
    exists best, In best (dp_final valueof k items) /\
      (forall x, In x (dp_final valueof k items) -> value o (fst best) false <= value o (fst x) false) /\
      b = dp_replay valueof keep items (rev (snd best)) (new_bins k).
  Proof.
    unfold dp. destruct (dp_final valueof k items) as [|r t]; intros H; [discriminate|].
    cbv zeta in H. injection H as <-.
    destruct (dp_min_spec o t r) as [H1 H2].
    exists (dp_min o r t). split; [exact H1|]. split; [exact H2|reflexivity].
  Qed.

  (** ---- 2. totality ---- *)

  Theorem dp_total : forall o k items, (1 <= k)%nat -> exists b, dp valueof true o k items = Ok b.
  Proof.
    intros o k items Hk. unfold dp. destruct (dp_final valueof k items) as [|r t] eqn:E.
    - exfalso.
      destruct (dp_final_complete k items (repeat 0%nat (length items))) as (r & Hr & _).
      + apply repeat_length.
      + unfold valid_asg. apply Forall_forall. intros i Hi. apply repeat_spec in Hi. lia.
      + rewrite E in Hr. destruct Hr.
    - eexists. reflexivity.
  Qed.

  (** ---- 3. replay ---- *)

  Lemma dp_replay_length keep items : forall asg b,
    length (dp_replay valueof keep items asg b) = length b.
  Proof.
    induction items as [|x t IH]; intros [|i p] b; cbn [dp_replay]; try reflexivity.
    rewrite IH. apply add_item_length.
  Qed.

  Lemma dp_replay_wf items : forall asg b,
    wf valueof b -> wf valueof (dp_replay valueof true items asg b).
  Proof.
    induction items as [|x t IH]; intros [|i p] b H; cbn [dp_replay]; try exact H.
    apply IH. apply add_item_wf. exact H.
  Qed.

  Lemma dp_replay_contents items : forall asg b,
    length asg = length items -> Forall (fun i => (i < length b)%nat) asg ->
    Permutation (contents (dp_replay valueof true items asg b)) (items ++ contents b).
  Proof.
    induction items as [|x t IH]; intros [|i p] b L V; cbn [length] in L; try discriminate.
    - reflexivity.
    - cbn [dp_replay]. pose proof (Forall_inv V) as Hi. pose proof (Forall_inv_tail V) as Hp.
      cbv beta in Hi.
      etransitivity.
      + apply IH; [lia|]. rewrite add_item_length. exact Hp.
      + etransitivity.
        * apply Permutation_app_head. apply add_item_contents. exact Hi.
        * symmetry. apply (Permutation_middle t (contents b) x).
  Qed.

  Lemma dp_replay_sums_gen keep items : forall asg b,
    sums (dp_replay valueof keep items asg b) =
    fold_left (fun s p => update (snd p) (fun x => x + fst p) s) (combine (map valueof items) asg) (sums b).
  Proof.
    induction items as [|x t IH]; intros [|i p] b; cbn [dp_replay map combine fold_left fst snd];
      try reflexivity.
    rewrite IH, add_item_sums. reflexivity.
  Qed.

  (** holds for any [asg]: [dp_replay] and [combine] truncate in the same way *)
  Lemma dp_replay_sums keep k items asg :
    sums (dp_replay valueof keep items asg (new_bins k)) = loads k (map valueof items) asg.
  Proof. rewrite dp_replay_sums_gen, new_bins_sums. reflexivity. Qed.

  Theorem dp_partition : forall o k items b, (1 <= k)%nat ->
    dp valueof true o k items = Ok b -> is_partition valueof k items b.
  Proof.
    intros o k items b _ H.
    destruct (dp_unfold _ _ _ _ _ H) as (best & Hin & _ & ->).
    destruct (dp_final_sound k items best Hin) as (L & V & _).
    unfold is_partition. split; [|split].
    - etransitivity.
      + apply dp_replay_contents.
        * rewrite rev_length. exact L.
        * rewrite new_bins_length. exact V.
      + rewrite new_bins_contents, app_nil_r. reflexivity.
    - rewrite dp_replay_length. apply new_bins_length.
    - apply dp_replay_wf. apply new_bins_wf.
  Qed.

  (** ---- 4. optimality (C02 for DP) ---- *)

  Theorem dp_optimal : forall o k items b, (1 <= k)%nat ->
    dp valueof true o k items = Ok b -> Opt o k (map valueof items) (value o (sums b) false).
  Proof.
    intros o k items b _ H.
    destruct (dp_unfold _ _ _ _ _ H) as (best & Hin & Hmin & ->).
    destruct (dp_final_sound k items best Hin) as (L & V & E).
    rewrite dp_replay_sums, E. split.
    - exists (fst best). split; [|reflexivity].
      exists (rev (snd best)). split; [|split; [exact V|exact E]].
      rewrite rev_length, map_length. exact L.
    - intros s (asg & La & Va & <-). rewrite map_length in La.
      destruct (dp_final_complete k items asg La Va) as (r & Hr & <-).
      apply Hmin. exact Hr.
  Qed.

  (** ---- 5. sums-only run (C06) ---- *)

  Lemma erase_add_item (b : bins A) x i :
    erase (add_item valueof true b x i) = add_item valueof false (erase b) x i.
  Proof. unfold erase, add_item. apply map_update. intros y. reflexivity. Qed.

  Lemma erase_new_bins k : erase (@new_bins A k) = new_bins k.
  Proof.
    unfold erase, new_bins. induction k as [|n IH]; cbn [repeat map]; [reflexivity|].
    rewrite IH. reflexivity.
  Qed.

  Lemma dp_replay_erase items : forall p b,
    erase (dp_replay valueof true items p b) = dp_replay valueof false items p (erase b).
  Proof.
    induction items as [|x t IH]; intros [|i p] b; cbn [dp_replay]; try reflexivity.
    rewrite IH, erase_add_item. reflexivity.
  Qed.

  Theorem dp_erase : forall o k items,
    rmap erase (dp valueof true o k items) = dp valueof false o k items.
  Proof.
    intros o k items. unfold dp. destruct (dp_final valueof k items) as [|r t]; cbn [rmap]; [reflexivity|].
    cbv zeta. rewrite dp_replay_erase, erase_new_bins. reflexivity.
  Qed.

  (** ---- 6. names irrelevant (C07) ---- *)

  Lemma map_bins_add_item (b : bins A) x i :
    map_bins valueof (add_item valueof true b x i) =
    add_item (fun v : Z => v) true (map_bins valueof b) (valueof x) i.
  Proof.
    unfold map_bins, add_item. apply map_update. intros y.
    unfold add_to_bin. cbn [fst snd]. rewrite map_app. reflexivity.
  Qed.

  Lemma map_bins_new_bins k : map_bins valueof (@new_bins A k) = new_bins k.
  Proof.
    unfold map_bins, new_bins. induction k as [|n IH]; cbn [repeat map]; [reflexivity|].
    rewrite IH. reflexivity.
  Qed.

  Lemma dp_replay_names items : forall p b,
    map_bins valueof (dp_replay valueof true items p b) =
    dp_replay (fun v : Z => v) true (map valueof items) p (map_bins valueof b).
  Proof.
    induction items as [|x t IH]; intros [|i p] b; cbn [dp_replay map]; try reflexivity.
    rewrite IH, map_bins_add_item. reflexivity.
  Qed.

  Lemma dp_final_names k items :
    dp_final valueof k items = dp_final (fun v : Z => v) k (map valueof items).
  Proof. unfold dp_final. rewrite fold_left_map. reflexivity. Qed.

  Theorem dp_names : forall o k items,
    rmap (map_bins valueof) (dp valueof true o k items) = dp (fun v : Z => v) true o k (map valueof items).
  Proof.
    intros o k items. unfold dp. rewrite <- dp_final_names.
    destruct (dp_final valueof k items) as [|r t]; cbn [rmap]; [reflexivity|].
    cbv zeta. rewrite dp_replay_names, map_bins_new_bins. reflexivity.
  Qed.
End DPProofs.

(** ---- 7. non-vacuity: Walter's numbers, 3 bins, sums 59/55/63, difference 8 ---- *)
Example dp_walter :
  exists b, dp (fun v : Z => v) true MinDiff 3 [46; 39; 27; 26; 16; 13; 10] = Ok b /\
            sums b = [59; 55; 63] /\ value MinDiff (sums b) false = 8.
Proof.
  exists [(59, [46; 13]); (55, [39; 16]); (63, [27; 26; 10])].
  vm_compute. repeat split; reflexivity.
Qed.

Print Assumptions dp_final_sound.
Print Assumptions dp_final_complete.
Print Assumptions dp_total.
Print Assumptions dp_partition.
Print Assumptions dp_optimal.
Print Assumptions dp_erase.
Print Assumptions dp_names.
Print Assumptions dp_walter.
