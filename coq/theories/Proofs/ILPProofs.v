(** Property C17: the ILP partitioner (Model/ILP.v): formulation + decoding.
    The external solver is not modelled: optimality of its answer is a Section hypothesis of
    Part F ([solve_optimal]); everything else is about what prtpy itself builds and decodes.

    Rationals are pairs (num, den) in the model; the proofs map them into Q ([toQ]) to use
    ring/field reasoning and come back to cross-multiplied Z statements at the end. *)
From Prtpy Require Import Base.Prelude Model.Binner Model.Objectives Model.ILP Spec.Partition
  Proofs.BaseLemmas Proofs.BinnerLemmas Proofs.ObjectivesProofs Proofs.CoveringProofs Proofs.SNPProofs.
From Coq Require Import Sorting.Sorted Arith ZifyBool QArith Lqa.
Close Scope Q_scope.
Open Scope Z_scope.

(** ================= 0. lists and ranges ================= *)

Lemma ilp_range_from_In i n : forall a, In i (range_from a n) <-> (a <= i < a + n)%nat.
Proof.
  induction n as [|n IH]; intros a; cbn [range_from In]; [lia|]. rewrite IH. lia.
Qed.

Lemma ilp_range_In i n : In i (range n) <-> (i < n)%nat.
Proof. unfold range. rewrite ilp_range_from_In. lia. Qed.

Lemma ilp_range_from_length n : forall a, length (range_from a n) = n.
Proof. induction n as [|n IH]; intros a; cbn [range_from length]; [reflexivity|]. rewrite IH. reflexivity. Qed.

Lemma ilp_range_length n : length (range n) = n.
Proof. apply ilp_range_from_length. Qed.

Lemma ilp_range_from_nth n : forall a j d, (j < n)%nat -> nth j (range_from a n) d = (a + j)%nat.
Proof.
  induction n as [|n IH]; intros a j d Hj; [lia|]. cbn [range_from]. destruct j as [|j]; cbn [nth]; [lia|].
  rewrite IH by lia. lia.
Qed.

Lemma ilp_range_nth n j d : (j < n)%nat -> nth j (range n) d = j.
Proof. intros H. unfold range. rewrite ilp_range_from_nth by exact H. reflexivity. Qed.

Lemma ilp_range_from_S n : forall a, range_from (S a) n = map S (range_from a n).
Proof. induction n as [|n IH]; intros a; cbn [range_from map]; [reflexivity|]. rewrite IH. reflexivity. Qed.

Lemma ilp_range_from_snoc n : forall a, range_from a (S n) = range_from a n ++ [(a + n)%nat].
Proof.
  induction n as [|n IH]; intros a.
  - cbn [range_from app]. rewrite Nat.add_0_r. reflexivity.
  - change (range_from a (S (S n))) with (a :: range_from (S a) (S n)). rewrite IH.
    cbn [range_from app]. rewrite Nat.add_succ_r. reflexivity.
Qed.

Lemma ilp_range_from_nodup n : forall a, NoDup (range_from a n).
Proof.
  induction n as [|n IH]; intros a; cbn [range_from]; constructor; [|apply IH].
  rewrite ilp_range_from_In. lia.
Qed.

Lemma ilp_nth_map_range {T} (f : nat -> T) k j d : (j < k)%nat -> nth j (map f (range k)) d = f j.
Proof.
  intros H. rewrite (nth_indep _ d (f O)) by (rewrite map_length, ilp_range_length; exact H).
  rewrite (map_nth f (range k) O j). rewrite ilp_range_nth by exact H. reflexivity.
Qed.

Lemma ilp_last_map_range {T} (f : nat -> T) k d : (1 <= k)%nat -> last (map f (range k)) d = f (k - 1)%nat.
Proof.
  intros H. destruct k as [|k]; [lia|]. unfold range. rewrite ilp_range_from_snoc, map_app. cbn [map].
  rewrite last_last. f_equal. lia.
Qed.

Lemma ilp_hd_map_range {T} (f : nat -> T) k d : (1 <= k)%nat -> hd d (map f (range k)) = f O.
Proof. intros H. destruct k as [|k]; [lia|]. reflexivity. Qed.

Lemma ilp_enumerate_from_map {T} (l : list T) d : forall s,
  enumerate_from s l = map (fun i => ((s + i)%nat, nth i l d)) (range (length l)).
Proof.
  induction l as [|x t IH]; intros s; cbn [enumerate_from length]; [reflexivity|].
  unfold range. cbn [range_from map nth]. rewrite Nat.add_0_r. f_equal.
  rewrite IH. rewrite ilp_range_from_S, map_map. apply map_ext. intros i. cbn [nth].
  rewrite Nat.add_succ_r. reflexivity.
Qed.

Lemma ilp_enumerate_map {T} (l : list T) d :
  enumerate l = map (fun i => (i, nth i l d)) (range (length l)).
Proof. unfold enumerate. rewrite (ilp_enumerate_from_map l d O). reflexivity. Qed.

Lemma ilp_enumerate_from_map_fun {T U} (f : T -> U) (l : list T) : forall s,
  enumerate_from s (map f l) = map (fun p => (fst p, f (snd p))) (enumerate_from s l).
Proof. induction l as [|x t IH]; intros s; cbn [map enumerate_from fst snd]; [reflexivity|]. rewrite IH. reflexivity. Qed.

Lemma ilp_enumerate_from_fst {T} (l : list T) : forall s p,
  In p (enumerate_from s l) -> (s <= fst p < s + length l)%nat.
Proof.
  induction l as [|x t IH]; intros s p H; cbn [enumerate_from In length] in *; [destruct H|].
  destruct H as [H|H]; [subst p; cbn [fst]; lia|]. apply IH in H. lia.
Qed.

Lemma ilp_update_update {T} (f g : T -> T) (l : list T) : forall i,
  update i f (update i g l) = update i (fun x => f (g x)) l.
Proof. induction l as [|x t IH]; intros [|i]; cbn [update]; try reflexivity. rewrite IH. reflexivity. Qed.

Lemma ilp_update_ext {T} (f g : T -> T) (l : list T) : (forall x, f x = g x) -> forall i,
  update i f l = update i g l.
Proof. intros H. induction l as [|x t IH]; intros [|i]; cbn [update]; try reflexivity; [rewrite H|rewrite IH]; reflexivity. Qed.

Lemma ilp_update_app_at {T} (f : T -> T) (pre : list T) x post :
  update (length pre) f (pre ++ x :: post) = pre ++ f x :: post.
Proof. induction pre as [|y pre IH]; cbn [length app update]; [reflexivity|]. rewrite IH. reflexivity. Qed.

(** the outer decoding loop: position j is rewritten once, by H j *)
Lemma ilp_fold_update_range {T} (H : nat -> T -> T) : forall (l pre : list T),
  fold_left (fun b j => update j (H j) b) (range_from (length pre) (length l)) (pre ++ l)
  = pre ++ map (fun p => H (fst p) (snd p)) (enumerate_from (length pre) l).
Proof.
  induction l as [|x t IH]; intros pre; cbn [length range_from fold_left enumerate_from map fst snd]; [reflexivity|].
  rewrite ilp_update_app_at.
  change (pre ++ H (length pre) x :: t) with (pre ++ [H (length pre) x] ++ t). rewrite app_assoc.
  assert (E : S (length pre) = length (pre ++ [H (length pre) x])) by (rewrite app_length; cbn [length]; lia).
  rewrite E. rewrite IH. rewrite <- E. rewrite <- app_assoc. reflexivity.
Qed.

Lemma ilp_enumerate_from_repeat {T} (x : T) n : forall s,
  enumerate_from s (repeat x n) = map (fun j => (j, x)) (range_from s n).
Proof. induction n as [|n IH]; intros s; cbn [repeat enumerate_from range_from map]; [reflexivity|]. rewrite IH. reflexivity. Qed.

(** concat of a double family can be taken in either order, up to permutation *)
Lemma ilp_concat_map_app_perm {T I} (f g : I -> list T) (l : list I) :
  Permutation (concat (map (fun i => f i ++ g i) l)) (concat (map f l) ++ concat (map g l)).
Proof.
  induction l as [|i l IH]; cbn [map concat]; [apply Permutation_refl|].
  rewrite IH. rewrite <- !app_assoc. apply Permutation_app_head.
  rewrite !app_assoc. apply Permutation_app_tail. apply Permutation_app_comm.
Qed.

Lemma ilp_concat_swap {T I J} (f : I -> J -> list T) (li : list I) (lj : list J) :
  Permutation (concat (map (fun j => concat (map (fun i => f i j) li)) lj))
              (concat (map (fun i => concat (map (fun j => f i j) lj)) li)).
Proof.
  induction lj as [|j lj IH]; cbn [map concat].
  - induction li as [|i li IHi]; cbn [map concat app]; [apply Permutation_refl|exact IHi].
  - rewrite IH. symmetry. apply (ilp_concat_map_app_perm (fun i => f i j) (fun i => concat (map (fun j0 => f i j0) lj))).
Qed.

Lemma ilp_zsum_map_ext {T} (f g : T -> Z) (l : list T) :
  (forall x, In x l -> f x = g x) -> zsum (map f l) = zsum (map g l).
Proof.
  induction l as [|x t IH]; intros H; cbn [map zsum fold_right]; [reflexivity|].
  fold (zsum (map f t)). fold (zsum (map g t)). rewrite IH by (intros y Hy; apply H; right; exact Hy).
  rewrite (H x) by (left; reflexivity). reflexivity.
Qed.

Lemma ilp_zsum_cons x l : zsum (x :: l) = x + zsum l.
Proof. reflexivity. Qed.

Lemma ilp_zsum_map_add {T} (f g : T -> Z) (l : list T) :
  zsum (map (fun x => f x + g x) l) = zsum (map f l) + zsum (map g l).
Proof. induction l as [|x t IH]; cbn [map]; rewrite ?ilp_zsum_cons; [reflexivity|]. rewrite IH. lia. Qed.

Lemma ilp_zsum_map_mul {T} (f : T -> Z) c (l : list T) :
  zsum (map (fun x => f x * c) l) = zsum (map f l) * c.
Proof. induction l as [|x t IH]; cbn [map]; rewrite ?ilp_zsum_cons; [reflexivity|]. rewrite IH. lia. Qed.

(** ================= 1. rationals as pairs, mapped into Q ================= *)

Definition rpos (r : rat) : Prop := 0 < snd r.
Definition toQ (r : rat) : Q := Qmake (fst r) (Z.to_pos (snd r)).

Lemma rpos_radd a b : rpos a -> rpos b -> rpos (radd a b).
Proof. unfold rpos, radd. cbn [snd]. nia. Qed.
Lemma rpos_rneg a : rpos a -> rpos (rneg a).
Proof. unfold rpos, rneg. cbn [snd]. auto. Qed.
Lemma rpos_rmulz a z : rpos a -> rpos (rmulz a z).
Proof. unfold rpos, rmulz. cbn [snd]. auto. Qed.

Lemma toQ_radd a b : rpos a -> rpos b -> (toQ (radd a b) == toQ a + toQ b)%Q.
Proof.
  unfold rpos, toQ, radd, Qeq, Qplus. destruct a as [a1 a2], b as [b1 b2]. cbn [fst snd Qnum Qden]. intros Ha Hb.
  rewrite Z2Pos.inj_mul by assumption. rewrite !Pos2Z.inj_mul. rewrite !Z2Pos.id by assumption. ring.
Qed.
Lemma toQ_rneg a : (toQ (rneg a) == - toQ a)%Q.
Proof. unfold toQ, rneg, Qeq, Qopp. cbn [fst snd Qnum Qden]. ring. Qed.
Lemma toQ_rmulz a z : (toQ (rmulz a z) == toQ a * inject_Z z)%Q.
Proof. unfold toQ, rmulz, Qeq, Qmult, inject_Z. cbn [fst snd Qnum Qden]. rewrite Pos.mul_1_r. ring. Qed.
Lemma toQ_rsub a b : rpos a -> rpos b -> (toQ (rsub a b) == toQ a - toQ b)%Q.
Proof. intros Ha Hb. unfold rsub. rewrite toQ_radd by (try apply rpos_rneg; assumption). rewrite toQ_rneg. ring. Qed.
Lemma toQ_int z : (toQ (z, 1%Z) == inject_Z z)%Q.
Proof. unfold toQ, Qeq, inject_Z. cbn [fst snd Qnum Qden]. reflexivity. Qed.
Lemma toQ_zero d : (toQ (0%Z, d) == 0)%Q.
Proof. unfold toQ, Qeq. cbn [fst snd Qnum Qden]. ring. Qed.

(** cross-multiplied readings *)
Lemma toQ_le a b : rpos a -> rpos b -> ((toQ a <= toQ b)%Q <-> fst a * snd b <= fst b * snd a).
Proof. unfold rpos, toQ, Qle. cbn [Qnum Qden]. intros Ha Hb. rewrite !Z2Pos.id by assumption. reflexivity. Qed.
Lemma toQ_eq a b : rpos a -> rpos b -> ((toQ a == toQ b)%Q <-> fst a * snd b = fst b * snd a).
Proof. unfold rpos, toQ, Qeq. cbn [Qnum Qden]. intros Ha Hb. rewrite !Z2Pos.id by assumption. reflexivity. Qed.

Lemma toQ_same_den_add a b w : (toQ (a, w) + toQ (b, w) == toQ ((a + b)%Z, w))%Q.
Proof. unfold toQ, Qeq, Qplus. cbn [fst snd Qnum Qden]. rewrite Pos2Z.inj_mul. ring. Qed.
Lemma toQ_num_mul a w z : (toQ (a, w) * inject_Z z == toQ ((a * z)%Z, w))%Q.
Proof. unfold toQ, Qeq, Qmult, inject_Z. cbn [fst snd Qnum Qden]. rewrite Pos.mul_1_r. ring. Qed.

(** sign tests used by [satisfies] *)
Lemma rsgn_pos a : rpos a -> rsgn a = Z.sgn (fst a).
Proof. unfold rpos, rsgn. intros H. rewrite (Z.sgn_pos (snd a)) by exact H. lia. Qed.
Lemma toQ_nonneg a : ((0 <= toQ a)%Q <-> 0 <= fst a).
Proof. unfold toQ, Qle. cbn [Qnum Qden]. lia. Qed.
Lemma toQ_nonpos a : ((toQ a <= 0)%Q <-> fst a <= 0).
Proof. unfold toQ, Qle. cbn [Qnum Qden]. lia. Qed.
Lemma toQ_iszero a : ((toQ a == 0)%Q <-> fst a = 0).
Proof. unfold toQ, Qeq. cbn [Qnum Qden]. lia. Qed.

Lemma rsgn_ge a : rpos a -> ((0 <=? rsgn a) = true <-> (0 <= toQ a)%Q).
Proof. intros H. rewrite rsgn_pos by exact H. rewrite toQ_nonneg. rewrite Z.leb_le. rewrite Z.sgn_nonneg. reflexivity. Qed.
Lemma rsgn_le a : rpos a -> ((rsgn a <=? 0) = true <-> (toQ a <= 0)%Q).
Proof. intros H. rewrite rsgn_pos by exact H. rewrite toQ_nonpos. rewrite Z.leb_le. rewrite Z.sgn_nonpos. reflexivity. Qed.
Lemma rsgn_eq a : rpos a -> ((rsgn a =? 0) = true <-> (toQ a == 0)%Q).
Proof. intros H. rewrite rsgn_pos by exact H. rewrite toQ_iszero. rewrite Z.eqb_eq. rewrite Z.sgn_null_iff. reflexivity. Qed.

Lemma rleb_Q a b : rpos a -> rpos b -> (rleb a b = true <-> (toQ a <= toQ b)%Q).
Proof.
  intros Ha Hb. unfold rleb. rewrite rsgn_le by (unfold rsub; apply rpos_radd; [|apply rpos_rneg]; assumption).
  rewrite toQ_rsub by assumption. split; intros H; lra.
Qed.
(** ================= 2. linear expressions: evaluation is a homomorphism ================= *)

Definition tpos (ts : list (nat * rat)) : Prop := Forall (fun t => rpos (snd t)) ts.
Definition lpos (e : linexpr) : Prop := tpos (fst e) /\ rpos (snd e).
(** the value of an expression under an assignment, as a rational number *)
Definition Qv (asg : list Z) (e : linexpr) : Q := toQ (eval_expr asg e).

Definition qterms (asg : list Z) (ts : list (nat * rat)) : Q :=
  fold_right (fun t acc => toQ (snd t) * inject_Z (nth (fst t) asg 0%Z) + acc)%Q 0%Q ts.
Definition qsum (l : list Q) : Q := fold_right Qplus 0%Q l.

Lemma qterms_cons asg t ts :
  qterms asg (t :: ts) = (toQ (snd t) * inject_Z (nth (fst t) asg 0%Z) + qterms asg ts)%Q.
Proof. reflexivity. Qed.
Lemma qterms_nil asg : qterms asg [] = 0%Q.
Proof. reflexivity. Qed.
Lemma qsum_cons x l : qsum (x :: l) = (x + qsum l)%Q.
Proof. reflexivity. Qed.
Lemma qsum_nil : qsum [] = 0%Q.
Proof. reflexivity. Qed.
Lemma eval_terms_cons asg t ts :
  eval_terms asg (t :: ts) = radd (rmulz (snd t) (nth (fst t) asg 0)) (eval_terms asg ts).
Proof. reflexivity. Qed.

Lemma rpos_01 : rpos (0, 1).
Proof. unfold rpos. cbn [snd]. lia. Qed.

Lemma eval_terms_pos asg ts : tpos ts -> rpos (eval_terms asg ts).
Proof.
  induction 1 as [|t ts Ht Hts IH]; [apply rpos_01|]. rewrite eval_terms_cons.
  apply rpos_radd; [apply rpos_rmulz; exact Ht|exact IH].
Qed.

Lemma eval_expr_pos asg e : lpos e -> rpos (eval_expr asg e).
Proof. intros [H1 H2]. unfold eval_expr. apply rpos_radd; [apply eval_terms_pos; exact H1|exact H2]. Qed.

Lemma toQ_eval_terms asg ts : tpos ts -> (toQ (eval_terms asg ts) == qterms asg ts)%Q.
Proof.
  induction 1 as [|t ts Ht Hts IH].
  - apply toQ_zero.
  - rewrite eval_terms_cons, qterms_cons.
    rewrite toQ_radd by (try apply rpos_rmulz; try apply eval_terms_pos; assumption).
    rewrite toQ_rmulz, IH. reflexivity.
Qed.

Lemma Qv_eq asg e : lpos e -> (Qv asg e == qterms asg (fst e) + toQ (snd e))%Q.
Proof.
  intros [H1 H2]. unfold Qv, eval_expr. rewrite toQ_radd by (try apply eval_terms_pos; assumption).
  rewrite toQ_eval_terms by exact H1. reflexivity.
Qed.

Lemma qterms_app asg l1 l2 : (qterms asg (l1 ++ l2) == qterms asg l1 + qterms asg l2)%Q.
Proof.
  induction l1 as [|t l1 IH]; cbn [app].
  - rewrite qterms_nil. ring.
  - rewrite !qterms_cons. rewrite IH. ring.
Qed.

Lemma qterms_neg asg l : (qterms asg (map (fun t => (fst t, rneg (snd t))) l) == - qterms asg l)%Q.
Proof.
  induction l as [|t l IH]; cbn [map].
  - rewrite qterms_nil. ring.
  - rewrite !qterms_cons. cbn [fst snd]. rewrite IH, toQ_rneg. ring.
Qed.

Lemma lpos_lzero : lpos lzero.
Proof. split; [constructor|apply rpos_01]. Qed.
Lemma lpos_ladd e1 e2 : lpos e1 -> lpos e2 -> lpos (ladd e1 e2).
Proof.
  intros [A1 A2] [B1 B2]. split; cbn [ladd fst snd].
  - apply Forall_app. split; assumption.
  - apply rpos_radd; assumption.
Qed.
Lemma lpos_lneg e : lpos e -> lpos (lneg e).
Proof.
  intros [A1 A2]. split; cbn [lneg fst snd].
  - unfold tpos. rewrite Forall_map. eapply Forall_impl; [|exact A1]. intros t Ht. cbn [snd]. apply rpos_rneg. exact Ht.
  - apply rpos_rneg. exact A2.
Qed.
Lemma lpos_lsub e1 e2 : lpos e1 -> lpos e2 -> lpos (lsub e1 e2).
Proof. intros H1 H2. apply lpos_ladd; [exact H1|apply lpos_lneg; exact H2]. Qed.
Lemma lpos_laddc e c : lpos e -> rpos c -> lpos (laddc e c).
Proof. intros [A1 A2] Hc. split; cbn [laddc fst snd]; [exact A1|apply rpos_radd; assumption]. Qed.

Lemma Qv_lzero asg : (Qv asg lzero == 0)%Q.
Proof. rewrite Qv_eq by apply lpos_lzero. cbn [lzero fst snd]. rewrite qterms_nil, toQ_zero. ring. Qed.
Lemma Qv_ladd asg e1 e2 : lpos e1 -> lpos e2 -> (Qv asg (ladd e1 e2) == Qv asg e1 + Qv asg e2)%Q.
Proof.
  intros H1 H2. rewrite !Qv_eq by (try apply lpos_ladd; assumption). cbn [ladd fst snd].
  rewrite qterms_app. rewrite toQ_radd by (apply H1 || apply H2). ring.
Qed.
Lemma Qv_lneg asg e : lpos e -> (Qv asg (lneg e) == - Qv asg e)%Q.
Proof.
  intros H. rewrite !Qv_eq by (try apply lpos_lneg; assumption). cbn [lneg fst snd].
  rewrite qterms_neg, toQ_rneg. ring.
Qed.
Lemma Qv_lsub asg e1 e2 : lpos e1 -> lpos e2 -> (Qv asg (lsub e1 e2) == Qv asg e1 - Qv asg e2)%Q.
Proof. intros H1 H2. unfold lsub. rewrite Qv_ladd by (try apply lpos_lneg; assumption). rewrite Qv_lneg by exact H2. ring. Qed.
Lemma Qv_laddc asg e c : lpos e -> rpos c -> (Qv asg (laddc e c) == Qv asg e + toQ c)%Q.
Proof.
  intros H Hc. rewrite !Qv_eq by (try apply lpos_laddc; assumption). cbn [laddc fst snd].
  rewrite toQ_radd by (apply H || exact Hc). ring.
Qed.

Lemma lsum_gen asg es : Forall lpos es -> forall acc, lpos acc ->
  lpos (fold_left ladd es acc) /\ (Qv asg (fold_left ladd es acc) == Qv asg acc + qsum (map (Qv asg) es))%Q.
Proof.
  induction 1 as [|e es He Hes IH]; intros acc Hacc; cbn [fold_left map].
  - split; [exact Hacc|rewrite qsum_nil; ring].
  - rewrite qsum_cons. destruct (IH (ladd acc e) (lpos_ladd _ _ Hacc He)) as [P E].
    split; [exact P|]. rewrite E. rewrite Qv_ladd by assumption. ring.
Qed.
Lemma lpos_lsum es : Forall lpos es -> lpos (lsum es).
Proof. intros H. apply (lsum_gen [] es H lzero lpos_lzero). Qed.
Lemma Qv_lsum asg es : Forall lpos es -> (Qv asg (lsum es) == qsum (map (Qv asg) es))%Q.
Proof. intros H. unfold lsum. destruct (lsum_gen asg es H lzero lpos_lzero) as [_ E]. rewrite E, Qv_lzero. ring. Qed.

Lemma lpos_nth es j : Forall lpos es -> lpos (nth j es lzero).
Proof.
  intros H. destruct (Nat.lt_ge_cases j (length es)) as [L|L].
  - rewrite Forall_forall in H. apply H. apply nth_In. exact L.
  - rewrite nth_overflow by exact L. apply lpos_lzero.
Qed.
Lemma lpos_last es : Forall lpos es -> lpos (last es lzero).
Proof.
  induction 1 as [|e es He Hes IH]; [apply lpos_lzero|]. destruct es as [|e' es']; [exact He|exact IH].
Qed.

Lemma Qv_hd asg es : (Qv asg (nth O es lzero) == hd 0%Q (map (Qv asg) es))%Q.
Proof. destruct es as [|e es]; cbn [nth map hd]; [apply Qv_lzero|reflexivity]. Qed.
Lemma Qv_last asg es : (Qv asg (last es lzero) == last (map (Qv asg) es) 0%Q)%Q.
Proof.
  induction es as [|e es IH]; [apply Qv_lzero|]. destruct es as [|e' es']; [reflexivity|].
  change (last (e :: e' :: es') lzero) with (last (e' :: es') lzero).
  change (last (map (Qv asg) (e :: e' :: es')) 0%Q) with (last (map (Qv asg) (e' :: es')) 0%Q). exact IH.
Qed.

(** the objective in the solver's sorted-fast-path form, over rationals *)
Definition qvalue (o : objective) (s : list Q) : Q :=
  match o with
  | MaxSmallest => (- hd 0 s)%Q
  | MinLargest => last s 0%Q
  | MinDiff => (last s 0 - hd 0 s)%Q
  | MaxKSmallest j => (- qsum (firstn j s))%Q
  | MinKLargest j => qsum (py_suffix_gen j s)
  end.

Lemma py_suffix_gen_map {T U} (f : T -> U) j l : py_suffix_gen j (map f l) = map f (py_suffix_gen j l).
Proof. destruct j as [|j]; cbn [py_suffix_gen]; [reflexivity|]. rewrite map_length, skipn_map. reflexivity. Qed.

Lemma ilp_Forall_firstn {T} (P : T -> Prop) j : forall l, Forall P l -> Forall P (firstn j l).
Proof.
  induction j as [|j IH]; intros l H; cbn [firstn]; [constructor|].
  destruct H as [|x l Hx Hl]; constructor; [exact Hx|apply IH; exact Hl].
Qed.
Lemma ilp_Forall_skipn {T} (P : T -> Prop) j : forall l, Forall P l -> Forall P (skipn j l).
Proof.
  induction j as [|j IH]; intros l H; cbn [skipn]; [exact H|].
  destruct H as [|x l Hx Hl]; [constructor|apply IH; exact Hl].
Qed.
Lemma ilp_Forall_suffix {T} (P : T -> Prop) j l : Forall P l -> Forall P (py_suffix_gen j l).
Proof. intros H. destruct j as [|j]; cbn [py_suffix_gen]; [exact H|apply ilp_Forall_skipn; exact H]. Qed.

(** evaluation of the objective expression = fast-path objective of the evaluated sums *)
Lemma Qv_objective asg o es : Forall lpos es ->
  (Qv asg (objective_expr o es) == qvalue o (map (Qv asg) es))%Q.
Proof.
  intros H. destruct o as [| | |j|j]; cbn [objective_expr qvalue].
  - rewrite Qv_lneg by (apply lpos_nth; exact H). rewrite Qv_hd. reflexivity.
  - apply Qv_last.
  - rewrite Qv_lsub by (try apply lpos_last; try apply lpos_nth; exact H). rewrite Qv_last, Qv_hd. reflexivity.
  - rewrite Qv_lneg by (apply lpos_lsum, ilp_Forall_firstn; exact H).
    rewrite Qv_lsum by (apply ilp_Forall_firstn; exact H). rewrite firstn_map. reflexivity.
  - rewrite Qv_lsum by (apply ilp_Forall_suffix; exact H). rewrite py_suffix_gen_map. reflexivity.
Qed.

(** qvalue respects pointwise equality of rationals *)
Lemma F2_hd l1 l2 : Forall2 Qeq l1 l2 -> (hd 0 l1 == hd 0 l2)%Q.
Proof. intros [|x y l l' H _]; cbn [hd]; [reflexivity|exact H]. Qed.
Lemma F2_last l1 l2 : Forall2 Qeq l1 l2 -> (last l1 0 == last l2 0)%Q.
Proof.
  induction 1 as [|x y l l' H HF IH]; [reflexivity|].
  destruct HF as [|x' y' l l' H' HF']; [exact H|]. exact IH.
Qed.
Lemma F2_firstn j : forall l1 l2, Forall2 Qeq l1 l2 -> Forall2 Qeq (firstn j l1) (firstn j l2).
Proof.
  induction j as [|j IH]; intros l1 l2 H; cbn [firstn]; [constructor|].
  destruct H as [|x y l l' H HF]; constructor; [exact H|apply IH; exact HF].
Qed.
Lemma F2_skipn j : forall l1 l2, Forall2 Qeq l1 l2 -> Forall2 Qeq (skipn j l1) (skipn j l2).
Proof.
  induction j as [|j IH]; intros l1 l2 H; cbn [skipn]; [exact H|].
  destruct H as [|x y l l' H HF]; [constructor|apply IH; exact HF].
Qed.
Lemma F2_length l1 l2 : Forall2 Qeq l1 l2 -> length l1 = length l2.
Proof. induction 1 as [|x y l l' H HF IH]; cbn [length]; [reflexivity|]. rewrite IH. reflexivity. Qed.
Lemma F2_qsum l1 l2 : Forall2 Qeq l1 l2 -> (qsum l1 == qsum l2)%Q.
Proof. induction 1 as [|x y l l' H HF IH]; [reflexivity|]. rewrite !qsum_cons, H, IH. reflexivity. Qed.
Lemma F2_map {T} (f g : T -> Q) l : (forall x, In x l -> (f x == g x)%Q) -> Forall2 Qeq (map f l) (map g l).
Proof.
  induction l as [|x l IH]; intros H; cbn [map]; constructor.
  - apply H. left. reflexivity.
  - apply IH. intros y Hy. apply H. right. exact Hy.
Qed.

Lemma qvalue_ext o l1 l2 : Forall2 Qeq l1 l2 -> (qvalue o l1 == qvalue o l2)%Q.
Proof.
  intros H. destruct o as [| | |j|j]; cbn [qvalue].
  - rewrite (F2_hd _ _ H). reflexivity.
  - apply F2_last. exact H.
  - rewrite (F2_hd _ _ H), (F2_last _ _ H). reflexivity.
  - rewrite (F2_qsum _ _ (F2_firstn j _ _ H)). reflexivity.
  - apply F2_qsum. destruct j as [|j]; cbn [py_suffix_gen]; [exact H|].
    rewrite (F2_length _ _ H). apply F2_skipn. exact H.
Qed.

(** ================= 3. the bin-sum expressions ================= *)

(** count of item i in bin j according to the assignment *)
Definition cnt (asg : list Z) (k i j : nat) : Z := nth (var i j k) asg 0.
(** the (unweighted) sum of bin j according to the assignment *)
Definition bterm (asg : list Z) (k j : nat) (p : nat * Z) : Z := snd p * cnt asg k (fst p) j.
Definition bsum (vs asg : list Z) (k j : nat) : Z := zsum (map (bterm asg k j) (enumerate vs)).
(** weight of bin j *)
Definition wt (ws : list Z) (j : nat) : Z := nth j ws 1.
(** the weighted sum of bin j, a rational *)
Definition wq (vs ws asg : list Z) (k j : nat) : Q := toQ (bsum vs asg k j, wt ws j).

Lemma lpos_bin_sum_expr vs ws k j : 0 < wt ws j -> lpos (bin_sum_expr vs ws k j).
Proof.
  intros H. split; cbn [bin_sum_expr fst snd]; [|apply rpos_01].
  unfold tpos. rewrite Forall_map. apply Forall_forall. intros p _. cbn [snd]. exact H.
Qed.

Lemma qterms_bin asg w k j : forall ps : list (nat * Z),
  (qterms asg (map (fun p => (var (fst p) j k, (snd p, w))) ps)
   == toQ (zsum (map (bterm asg k j) ps), w))%Q.
Proof.
  induction ps as [|p ps IH]; cbn [map].
  - rewrite qterms_nil. symmetry. apply toQ_zero.
  - rewrite qterms_cons, ilp_zsum_cons. cbn [fst snd]. rewrite IH.
    rewrite toQ_num_mul, toQ_same_den_add. reflexivity.
Qed.

Lemma Qv_bin_sum_expr vs ws asg k j : 0 < wt ws j ->
  (Qv asg (bin_sum_expr vs ws k j) == wq vs ws asg k j)%Q.
Proof.
  intros H. rewrite Qv_eq by (apply lpos_bin_sum_expr; exact H). cbn [bin_sum_expr fst snd].
  rewrite (qterms_bin asg (nth j ws 1) k j (enumerate vs)). rewrite toQ_zero. unfold wq, bsum, wt. ring.
Qed.

Definition wpos (ws : list Z) (k : nat) : Prop := forall j, (j < k)%nat -> 0 < wt ws j.

Lemma wpos_of_Forall ws k : Forall (fun w => 0 < w) ws -> wpos ws k.
Proof.
  intros H j _. unfold wt. destruct (Nat.lt_ge_cases j (length ws)) as [L|L].
  - rewrite Forall_forall in H. apply H. apply nth_In. exact L.
  - rewrite nth_overflow by exact L. lia.
Qed.

Lemma lpos_sum_exprs vs ws k : wpos ws k -> Forall lpos (sum_exprs vs ws k).
Proof.
  intros H. unfold sum_exprs. rewrite Forall_map. apply Forall_forall. intros j Hj.
  apply lpos_bin_sum_expr. apply H. apply ilp_range_In. exact Hj.
Qed.

Lemma sum_exprs_nth vs ws k j : (j < k)%nat -> nth j (sum_exprs vs ws k) lzero = bin_sum_expr vs ws k j.
Proof. intros H. unfold sum_exprs. apply ilp_nth_map_range. exact H. Qed.
Lemma sum_exprs_last vs ws k : (1 <= k)%nat -> last (sum_exprs vs ws k) lzero = bin_sum_expr vs ws k (k - 1).
Proof. intros H. unfold sum_exprs. apply ilp_last_map_range. exact H. Qed.

(** weighted sums of all bins, in bin order *)
Definition wqs (vs ws asg : list Z) (k : nat) : list Q := map (wq vs ws asg k) (range k).

(** (c, weighted form) the value of the objective expression is the fast-path objective of the weighted sums *)
Lemma objective_value_wqs vs ws asg k o : wpos ws k ->
  (toQ (objective_value vs k ws o asg) == qvalue o (wqs vs ws asg k))%Q.
Proof.
  intros H. unfold objective_value. fold (Qv asg (objective_expr o (sum_exprs vs ws k))).
  rewrite Qv_objective by (apply lpos_sum_exprs; exact H).
  apply qvalue_ext. unfold sum_exprs, wqs. rewrite map_map. apply F2_map.
  intros j Hj. apply Qv_bin_sum_expr. apply H. apply ilp_range_In. exact Hj.
Qed.

Lemma objective_value_pos vs ws asg k o : wpos ws k -> rpos (objective_value vs k ws o asg).
Proof.
  intros H. unfold objective_value. apply eval_expr_pos.
  pose proof (lpos_sum_exprs vs ws k H) as HF.
  destruct o as [| | |j|j]; cbn [objective_expr].
  - apply lpos_lneg, lpos_nth; exact HF.
  - apply lpos_last; exact HF.
  - apply lpos_lsub; [apply lpos_last|apply lpos_nth]; exact HF.
  - apply lpos_lneg, lpos_lsum, ilp_Forall_firstn; exact HF.
  - apply lpos_lsum, ilp_Forall_suffix; exact HF.
Qed.
(** ================= 4. what feasibility means ================= *)

Lemma satisfies_Q asg e s : lpos e ->
  (satisfies asg (e, s) = true <->
   match s with
   | SLe => (Qv asg e <= 0)%Q
   | SGe => (0 <= Qv asg e)%Q
   | SEq => (Qv asg e == 0)%Q
   end).
Proof.
  intros H. pose proof (eval_expr_pos asg e H) as P. unfold satisfies, Qv. cbn [fst snd].
  destruct s; [apply rsgn_le|apply rsgn_ge|apply rsgn_eq]; exact P.
Qed.

(** the additional constraints, read on the bin sums of the assignment (cross-multiplied) *)
Definition extra_sem (vs ws asg : list Z) (k : nat) (x : extra) : Prop :=
  match x with
  | SmallestEq c => bsum vs asg k 0 = c * wt ws 0
  | LargestLe c => bsum vs asg k (k - 1) <= c * wt ws (k - 1)
  | SmallestGe c => c * wt ws 0 <= bsum vs asg k 0
  end.

Definition sem_feasible (vs : list Z) (k : nat) (copies ws : list Z) (ex : list extra) (asg : list Z) : Prop :=
  length asg = (length vs * k)%nat /\
  (forall i j, (i < length vs)%nat -> (j < k)%nat -> 0 <= cnt asg k i j) /\
  (forall i, (i < length vs)%nat -> zsum (map (cnt asg k i) (range k)) = nth i copies 0) /\
  (forall j, (S j < k)%nat -> bsum vs asg k j * wt ws (S j) <= bsum vs asg k (S j) * wt ws j) /\
  Forall (extra_sem vs ws asg k) ex.

Lemma lpos_single v c : lpos ([(v, (1, 1))], (c, 1)).
Proof. split; cbn [fst snd]; [constructor; [|constructor]|]; unfold rpos; cbn [snd]; lia. Qed.

Lemma inject_Z_0 : inject_Z 0 = 0%Q.
Proof. reflexivity. Qed.

Lemma sat_nonneg asg v : satisfies asg (([(v, (1, 1))], (0, 1)), SGe) = true <-> 0 <= nth v asg 0.
Proof.
  rewrite satisfies_Q by apply lpos_single. rewrite Qv_eq by apply lpos_single. cbn [fst snd].
  rewrite qterms_cons, qterms_nil. cbn [fst snd]. rewrite toQ_int, toQ_zero.
  rewrite (Zle_Qle 0 (nth v asg 0)). rewrite inject_Z_0. unfold inject_Z at 1.
  split; intros H; lra.
Qed.

Lemma feas_nonneg asg n k :
  forallb (satisfies asg) (nonneg_constrs n k) = true <->
  (forall i j, (i < n)%nat -> (j < k)%nat -> 0 <= cnt asg k i j).
Proof.
  rewrite forallb_forall. unfold nonneg_constrs. split.
  - intros H i j Hi Hj. apply (sat_nonneg asg (var i j k)). apply H.
    apply in_flat_map. exists j. split; [apply ilp_range_In; exact Hj|].
    apply in_map_iff. exists i. split; [reflexivity|apply ilp_range_In; exact Hi].
  - intros H c Hc. apply in_flat_map in Hc. destruct Hc as (j & Hj & Hc).
    apply in_map_iff in Hc. destruct Hc as (i & E & Hi). subst c.
    apply sat_nonneg. apply H; apply ilp_range_In; assumption.
Qed.

Lemma tpos_ones (f : nat -> nat) l : tpos (map (fun j => (f j, (1, 1))) l).
Proof. unfold tpos. rewrite Forall_map. apply Forall_forall. intros j _. unfold rpos. cbn [snd]. lia. Qed.

Definition ones (k i : nat) (l : list nat) : list (nat * rat) := map (fun j => (var i j k, (1, 1))) l.

Lemma qterms_ones asg k i l :
  (qterms asg (ones k i l) == inject_Z (zsum (map (cnt asg k i) l)))%Q.
Proof.
  unfold ones. induction l as [|j l IH]; cbn [map].
  - rewrite qterms_nil. reflexivity.
  - rewrite qterms_cons, ilp_zsum_cons. cbn [fst snd]. rewrite IH, toQ_int, inject_Z_plus.
    unfold cnt at 2. unfold inject_Z at 1. ring.
Qed.

Lemma sat_copies asg k i c :
  satisfies asg ((map (fun j => (var i j k, (1, 1))) (range k), (- c, 1)), SEq) = true <->
  zsum (map (cnt asg k i) (range k)) = c.
Proof.
  assert (P : lpos (map (fun j => (var i j k, (1, 1))) (range k), (- c, 1))).
  { split; cbn [fst snd]; [apply tpos_ones|unfold rpos; cbn [snd]; lia]. }
  rewrite satisfies_Q by exact P. rewrite Qv_eq by exact P. cbn [fst snd].
  fold (ones k i (range k)). rewrite qterms_ones, toQ_int, <- inject_Z_plus.
  rewrite <- inject_Z_0. rewrite inject_Z_injective. lia.
Qed.

Lemma feas_copies asg n k copies :
  forallb (satisfies asg) (copies_constrs n k copies) = true <->
  (forall i, (i < n)%nat -> zsum (map (cnt asg k i) (range k)) = nth i copies 0).
Proof.
  rewrite forallb_forall. unfold copies_constrs. split.
  - intros H i Hi. apply sat_copies. apply H. apply in_map_iff. exists i. split; [reflexivity|apply ilp_range_In; exact Hi].
  - intros H c Hc. apply in_map_iff in Hc. destruct Hc as (i & E & Hi). subst c.
    apply sat_copies. apply H. apply ilp_range_In. exact Hi.
Qed.

Lemma wq_le vs ws asg k j j' : 0 < wt ws j -> 0 < wt ws j' ->
  ((wq vs ws asg k j <= wq vs ws asg k j')%Q <-> bsum vs asg k j * wt ws j' <= bsum vs asg k j' * wt ws j).
Proof. intros H H'. unfold wq. rewrite toQ_le by (unfold rpos; cbn [snd]; assumption). cbn [fst snd]. reflexivity. Qed.

Lemma sat_asc vs ws asg k j : wpos ws k -> (S j < k)%nat ->
  satisfies asg (lsub (nth (S j) (sum_exprs vs ws k) lzero) (nth j (sum_exprs vs ws k) lzero), SGe) = true <->
  bsum vs asg k j * wt ws (S j) <= bsum vs asg k (S j) * wt ws j.
Proof.
  intros W Hj. rewrite !sum_exprs_nth by lia.
  assert (W0 : 0 < wt ws j) by (apply W; lia). assert (W1 : 0 < wt ws (S j)) by (apply W; lia).
  rewrite satisfies_Q by (apply lpos_lsub; apply lpos_bin_sum_expr; assumption).
  rewrite Qv_lsub by (apply lpos_bin_sum_expr; assumption).
  rewrite !Qv_bin_sum_expr by assumption. rewrite <- (wq_le vs ws asg k j (S j) W0 W1).
  split; intros H; lra.
Qed.

Lemma feas_asc vs ws asg k : wpos ws k ->
  (forallb (satisfies asg) (asc_constrs (sum_exprs vs ws k) k) = true <->
   (forall j, (S j < k)%nat -> bsum vs asg k j * wt ws (S j) <= bsum vs asg k (S j) * wt ws j)).
Proof.
  intros W. rewrite forallb_forall. unfold asc_constrs. split.
  - intros H j Hj. apply (sat_asc vs ws asg k j W Hj). apply H. apply in_map_iff. exists j.
    split; [reflexivity|apply ilp_range_In; lia].
  - intros H c Hc. apply in_map_iff in Hc. destruct Hc as (j & E & Hj). subst c.
    apply ilp_range_In in Hj. apply sat_asc; [exact W|lia|apply H; lia].
Qed.

Lemma toQ_negc c : (toQ ((- c)%Z, 1%Z) == - inject_Z c)%Q.
Proof. change ((- c)%Z, 1%Z) with (rneg (c, 1)). rewrite toQ_rneg, toQ_int. reflexivity. Qed.

Lemma wq_vs_int vs ws asg k j c : 0 < wt ws j ->
  ((wq vs ws asg k j <= inject_Z c)%Q <-> bsum vs asg k j <= c * wt ws j) /\
  ((inject_Z c <= wq vs ws asg k j)%Q <-> c * wt ws j <= bsum vs asg k j) /\
  ((wq vs ws asg k j == inject_Z c)%Q <-> bsum vs asg k j = c * wt ws j).
Proof.
  intros W. rewrite <- (toQ_int c). unfold wq.
  assert (P1 : rpos (bsum vs asg k j, wt ws j)) by exact W.
  assert (P2 : rpos (c, 1)) by (unfold rpos; cbn [snd]; lia).
  rewrite !toQ_le, toQ_eq by assumption. cbn [fst snd]. lia.
Qed.

Lemma sat_extra vs ws asg k x : (1 <= k)%nat -> wpos ws k ->
  (satisfies asg (extra_constr (sum_exprs vs ws k) x) = true <-> extra_sem vs ws asg k x).
Proof.
  intros Hk W. assert (W0 : 0 < wt ws 0) by (apply W; lia). assert (W1 : 0 < wt ws (k - 1)) by (apply W; lia).
  assert (Pc : forall c, rpos (- c, 1)) by (intros c; unfold rpos; cbn [snd]; lia).
  destruct x as [c|c|c]; cbn [extra_constr extra_sem].
  - rewrite sum_exprs_nth by lia.
    rewrite satisfies_Q by (apply lpos_laddc; [apply lpos_bin_sum_expr; exact W0|apply Pc]).
    rewrite Qv_laddc by (try apply lpos_bin_sum_expr; try apply Pc; exact W0).
    rewrite Qv_bin_sum_expr by exact W0. rewrite toQ_negc.
    destruct (wq_vs_int vs ws asg k 0 c W0) as (_ & _ & E). rewrite <- E. split; intros H; lra.
  - rewrite sum_exprs_last by lia.
    rewrite satisfies_Q by (apply lpos_laddc; [apply lpos_bin_sum_expr; exact W1|apply Pc]).
    rewrite Qv_laddc by (try apply lpos_bin_sum_expr; try apply Pc; exact W1).
    rewrite Qv_bin_sum_expr by exact W1. rewrite toQ_negc.
    destruct (wq_vs_int vs ws asg k (k - 1) c W1) as (E & _ & _). rewrite <- E. split; intros H; lra.
  - rewrite sum_exprs_nth by lia.
    rewrite satisfies_Q by (apply lpos_laddc; [apply lpos_bin_sum_expr; exact W0|apply Pc]).
    rewrite Qv_laddc by (try apply lpos_bin_sum_expr; try apply Pc; exact W0).
    rewrite Qv_bin_sum_expr by exact W0. rewrite toQ_negc.
    destruct (wq_vs_int vs ws asg k 0 c W0) as (_ & E & _). rewrite <- E. split; intros H; lra.
Qed.

Lemma feas_extras vs ws asg k ex : (1 <= k)%nat -> wpos ws k ->
  (forallb (satisfies asg) (map (extra_constr (sum_exprs vs ws k)) ex) = true <-> Forall (extra_sem vs ws asg k) ex).
Proof.
  intros Hk W. induction ex as [|x ex IH]; cbn [map forallb].
  - split; [constructor|reflexivity].
  - rewrite andb_true_iff, IH, (sat_extra vs ws asg k x Hk W). split.
    + intros [H1 H2]. constructor; assumption.
    + intros H. inversion H; subst. split; assumption.
Qed.

(** MAIN CHARACTERISATION: the boolean feasibility test of the formulation says exactly that
    counts are >= 0, each item is placed copies[i] times, weighted sums are ascending
    (cross-multiplied) and the additional constraints hold *)
Theorem feasible_iff vs k copies ws ex asg : (1 <= k)%nat -> wpos ws k ->
  (feasible_b vs k copies ws ex asg = true <-> sem_feasible vs k copies ws ex asg).
Proof.
  intros Hk W. unfold feasible_b, constraints, sem_feasible.
  rewrite andb_true_iff, !forallb_app, !andb_true_iff, Nat.eqb_eq.
  rewrite feas_nonneg, feas_copies, (feas_asc vs ws asg k W), (feas_extras vs ws asg k ex Hk W).
  reflexivity.
Qed.
(** ================= 5. the decoding loops in closed form ================= *)

Lemma ilp_update_id {T} (f : T -> T) (l : list T) : (forall x, f x = x) -> forall i, update i f l = l.
Proof. intros H. induction l as [|x t IH]; intros [|i]; cbn [update]; try reflexivity; [rewrite H|rewrite IH]; reflexivity. Qed.

Lemma ilp_fold_left_ext {T U} (f g : T -> U -> T) (l : list U) : (forall a x, f a x = g a x) ->
  forall a, fold_left f l a = fold_left g l a.
Proof. intros H. induction l as [|x l IH]; intros a; cbn [fold_left]; [reflexivity|]. rewrite H. apply IH. Qed.

Lemma ilp_zsum_map_repeat {T} (f : T -> Z) x c : zsum (map f (repeat x c)) = Z.of_nat c * f x.
Proof. induction c as [|c IH]; cbn [repeat map]; rewrite ?ilp_zsum_cons; [reflexivity|]. rewrite IH. lia. Qed.

Lemma ilp_concat_repeat {T J} (x : T) (h : J -> Z) (l : list J) : (forall j, In j l -> 0 <= h j) ->
  concat (map (fun j => repeat x (Z.to_nat (h j))) l) = repeat x (Z.to_nat (zsum (map h l))) /\ 0 <= zsum (map h l).
Proof.
  induction l as [|j l IH]; intros H; cbn [map concat].
  - split; [reflexivity|cbn; lia].
  - destruct IH as [E P]; [intros j' Hj'; apply H; right; exact Hj'|].
    assert (Hj : 0 <= h j) by (apply H; left; reflexivity).
    rewrite ilp_zsum_cons. split; [|lia]. rewrite E. rewrite Z2Nat.inj_add by assumption.
    rewrite repeat_app. reflexivity.
Qed.

Section DecodeProofs.
  Context {A : Type} (valueof : A -> Z).

  (** adding the list [its] to a bin *)
  Definition addl (keep : bool) (its : list A) (bn : bin A) : bin A :=
    (fst bn + zsum (map valueof its), if keep then snd bn ++ its else snd bn).

  Lemma addl_nil keep bn : addl keep [] bn = bn.
  Proof. destruct bn as [s l]. unfold addl. cbn [fst snd map]. destruct keep; rewrite ?app_nil_r; f_equal; cbn; lia. Qed.

  Lemma addl_app keep l1 l2 bn : addl keep (l1 ++ l2) bn = addl keep l2 (addl keep l1 bn).
  Proof.
    unfold addl. cbn [fst snd]. rewrite map_app, zsum_app. destruct keep; rewrite ?app_assoc; f_equal; lia.
  Qed.

  Lemma addl_single keep x bn : addl keep [x] bn = add_to_bin valueof keep x bn.
  Proof. unfold addl, add_to_bin. cbn [map]. rewrite ilp_zsum_cons. f_equal. cbn. lia. Qed.

  Lemma add_copies_eq keep c : forall b x j,
    add_copies valueof keep c b x j = update j (addl keep (repeat x c)) b.
  Proof.
    induction c as [|c IH]; intros b x j; cbn [add_copies repeat].
    - symmetry. apply ilp_update_id. intros bn. apply addl_nil.
    - rewrite IH. unfold add_item. rewrite ilp_update_update. apply ilp_update_ext. intros bn.
      change (x :: repeat x c) with ([x] ++ repeat x c). rewrite addl_app, addl_single. reflexivity.
  Qed.

  (** the items put into bin j, in order: each item repeated count(i, j) times *)
  Definition bin_items (k : nat) (asg : list Z) (j : nat) (ps : list (nat * A)) : list A :=
    concat (map (fun p => repeat (snd p) (Z.to_nat (cnt asg k (fst p) j))) ps).

  Lemma inner_loop keep k asg j : forall ps b,
    fold_left (fun b' p => add_copies valueof keep (Z.to_nat (nth (var (fst p) j k) asg 0)) b' (snd p) j) ps b
    = update j (addl keep (bin_items k asg j ps)) b.
  Proof.
    induction ps as [|p ps IH]; intros b; cbn [fold_left].
    - symmetry. apply ilp_update_id. intros bn. apply addl_nil.
    - rewrite IH, add_copies_eq, ilp_update_update. apply ilp_update_ext. intros bn.
      unfold bin_items. cbn [map concat]. rewrite addl_app. reflexivity.
  Qed.

  Definition dbin (keep : bool) (k : nat) (items : list A) (asg : list Z) (j : nat) : bin A :=
    addl keep (bin_items k asg j (enumerate items)) empty_bin.

  (** the raw decoding (before the optional sort): bin j holds exactly the items with their counts *)
  Lemma decode_raw_eq keep k items asg :
    decode_raw valueof keep k items asg = map (dbin keep k items asg) (range k).
  Proof.
    unfold decode_raw.
    rewrite (ilp_fold_left_ext _ (fun b j => update j (addl keep (bin_items k asg j (enumerate items))) b))
      by (intros b j; apply inner_loop).
    pose proof (ilp_fold_update_range (fun j => addl keep (bin_items k asg j (enumerate items)))
                  (repeat (@empty_bin A) k) []) as E.
    rewrite repeat_length in E. cbn [length app] in E. unfold range, new_bins. rewrite E.
    rewrite ilp_enumerate_from_repeat, map_map. reflexivity.
  Qed.

  Lemma decode_raw_length keep k items asg : length (decode_raw valueof keep k items asg) = k.
  Proof. rewrite decode_raw_eq, map_length. apply ilp_range_length. Qed.

  Lemma decode_raw_wf k items asg : wf valueof (decode_raw valueof true k items asg).
  Proof.
    rewrite decode_raw_eq. unfold wf. rewrite Forall_map. apply Forall_forall. intros j _.
    unfold wf_bin, dbin, addl, empty_bin. cbn [fst snd app]. lia.
  Qed.

  Lemma decode_raw_contents k items asg :
    contents (decode_raw valueof true k items asg)
    = concat (map (fun j => bin_items k asg j (enumerate items)) (range k)).
  Proof.
    rewrite decode_raw_eq. unfold contents, lists. rewrite map_map. f_equal.
  Qed.

  Lemma bin_items_sum k asg j : forall ps : list (nat * A),
    (forall p, In p ps -> 0 <= cnt asg k (fst p) j) ->
    zsum (map valueof (bin_items k asg j ps))
    = zsum (map (bterm asg k j) (map (fun p => (fst p, valueof (snd p))) ps)).
  Proof.
    induction ps as [|p ps IH]; intros H; [reflexivity|].
    unfold bin_items in *. cbn [map concat]. rewrite map_app, zsum_app, ilp_zsum_cons.
    rewrite IH by (intros q Hq; apply H; right; exact Hq).
    rewrite ilp_zsum_map_repeat. unfold bterm at 2. cbn [fst snd].
    rewrite Z2Nat.id by (apply H; left; reflexivity). lia.
  Qed.

  Definition counts_nonneg (n k : nat) (asg : list Z) : Prop :=
    forall i j, (i < n)%nat -> (j < k)%nat -> 0 <= cnt asg k i j.

  (** with non-negative counts the recorded sum of bin j is the bin sum of the formulation *)
  Lemma decode_raw_sums keep k items asg : counts_nonneg (length items) k asg ->
    sums (decode_raw valueof keep k items asg) = map (bsum (map valueof items) asg k) (range k).
  Proof.
    intros H. rewrite decode_raw_eq. unfold sums. rewrite map_map. apply map_ext_in. intros j Hj.
    apply ilp_range_In in Hj. unfold dbin, addl, empty_bin. cbn [fst]. rewrite bin_items_sum.
    - unfold bsum, enumerate. rewrite ilp_enumerate_from_map_fun. lia.
    - intros p Hp. apply ilp_enumerate_from_fst in Hp. apply H; lia.
  Qed.

  Lemma decode_raw_sums_nth keep k items asg j : counts_nonneg (length items) k asg -> (j < k)%nat ->
    nth j (sums (decode_raw valueof keep k items asg)) 0 = bsum (map valueof items) asg k j.
  Proof. intros H Hj. rewrite decode_raw_sums by exact H. apply ilp_nth_map_range. exact Hj. Qed.

  (** the multiset of decoded items: item i repeated (sum over bins of its counts) times *)
  Lemma decode_raw_contents_perm k items asg copies :
    counts_nonneg (length items) k asg ->
    (forall i, (i < length items)%nat -> zsum (map (cnt asg k i) (range k)) = nth i copies 0) ->
    Permutation (contents (decode_raw valueof true k items asg))
                (concat (map (fun p => repeat (snd p) (Z.to_nat (nth (fst p) copies 0))) (enumerate items))).
  Proof.
    intros Hn Hc. rewrite decode_raw_contents. unfold bin_items.
    rewrite (ilp_concat_swap (fun (p : nat * A) j => repeat (snd p) (Z.to_nat (cnt asg k (fst p) j)))
               (enumerate items) (range k)).
    apply Permutation_refl'. f_equal. apply map_ext_in. intros p Hp.
    apply ilp_enumerate_from_fst in Hp. cbn [length] in Hp.
    destruct (ilp_concat_repeat (snd p) (cnt asg k (fst p)) (range k)) as [E _].
    - intros j Hj. apply ilp_range_In in Hj. apply Hn; lia.
    - rewrite E. rewrite Hc by lia. reflexivity.
  Qed.
End DecodeProofs.
(** ================= 6. properties of the decoded bins (C17 a-d) ================= *)

Lemma ilp_map_nth_range {T} (l : list T) d : l = map (fun j => nth j l d) (range (length l)).
Proof.
  induction l as [|x t IH]; cbn [length]; [reflexivity|].
  unfold range. cbn [range_from map nth]. f_equal. rewrite ilp_range_from_S, map_map. exact IH.
Qed.

Lemma ilp_combine_map {I T U} (f : I -> T) (g : I -> U) (l : list I) :
  combine (map f l) (map g l) = map (fun j => (f j, g j)) l.
Proof. induction l as [|x t IH]; cbn [map combine]; [reflexivity|]. rewrite IH. reflexivity. Qed.

Lemma ilp_combine_range {T U} (f : nat -> T) (l : list U) d :
  combine (map f (range (length l))) l = map (fun j => (f j, nth j l d)) (range (length l)).
Proof. rewrite (ilp_map_nth_range l d) at 2. apply ilp_combine_map. Qed.

Lemma ilp_last_nth {T} (l : list T) d : last l d = nth (length l - 1) l d.
Proof.
  induction l as [|x t IH]; [reflexivity|]. destruct t as [|y t']; [reflexivity|].
  change (last (x :: y :: t') d) with (last (y :: t') d). rewrite IH. cbn [length]. 
  replace (S (S (length t')) - 1)%nat with (S (length t')) by lia.
  replace (S (length t') - 1)%nat with (length t') by lia. reflexivity.
Qed.

Lemma ilp_hd_nth {T} (l : list T) d : hd d l = nth O l d.
Proof. destruct l; reflexivity. Qed.

Lemma ilp_mono_chain (f : nat -> Z) k : (forall j, (S j < k)%nat -> f j <= f (S j)) ->
  forall i j, (i <= j)%nat -> (j < k)%nat -> f i <= f j.
Proof.
  intros H i j. induction j as [|j IH]; intros Hij Hj.
  - assert (i = O) by lia. subst i. lia.
  - destruct (Nat.eq_dec i (S j)) as [E|E]; [subst i; lia|].
    assert (f i <= f j) by (apply IH; lia). assert (f j <= f (S j)) by (apply H; lia). lia.
Qed.

Lemma ilp_sorted_map_range (f : nat -> Z) k : (forall j, (S j < k)%nat -> f j <= f (S j)) ->
  StronglySorted Z.le (map f (range k)).
Proof.
  intros H. pose proof (ilp_mono_chain f k H) as M. unfold range.
  assert (G : forall n a, (a + n <= k)%nat -> StronglySorted Z.le (map f (range_from a n))).
  { induction n as [|n IH]; intros a Ha; cbn [range_from map]; constructor.
    - apply IH. lia.
    - rewrite Forall_map. apply Forall_forall. intros j Hj. apply ilp_range_from_In in Hj. apply M; lia. }
  apply G. lia.
Qed.

Lemma ilp_key_sorted_of_sums {A} (b : bins A) : StronglySorted Z.le (sums b) -> key_sorted fst b.
Proof.
  unfold key_sorted, sums. induction b as [|bn b IH]; intros H; [constructor|].
  cbn [map] in H. inversion H as [|x l Hs Hf]; subst. constructor; [apply IH; exact Hs|].
  rewrite Forall_map in Hf. exact Hf.
Qed.

Lemma all_equal_wt ws j : all_equal ws = true -> (j < length ws)%nat -> wt ws j = wt ws 0.
Proof.
  destruct ws as [|w ws]; cbn [all_equal length]; intros H Hj; [lia|].
  unfold wt. destruct j as [|j]; [reflexivity|]. cbn [nth]. rewrite forallb_forall in H.
  assert (In (nth j ws 1) ws) as Hin by (apply nth_In; lia). apply H in Hin. lia.
Qed.

Lemma frac_chain (F W : nat -> Z) k : (forall j, (j < k)%nat -> 0 < W j) ->
  (forall j, (S j < k)%nat -> F j * W (S j) <= F (S j) * W j) ->
  forall i j, (i <= j)%nat -> (j < k)%nat -> F i * W j <= F j * W i.
Proof.
  intros HW H i j. induction j as [|j IH]; intros Hij Hj.
  - assert (i = O) by lia. subst i. lia.
  - destruct (Nat.eq_dec i (S j)) as [E|E]; [subst i; lia|].
    assert (A1 : F i * W j <= F j * W i) by (apply IH; lia).
    assert (A2 : F j * W (S j) <= F (S j) * W j) by (apply H; lia).
    assert (P0 : 0 < W i) by (apply HW; lia). assert (P1 : 0 < W j) by (apply HW; lia).
    assert (P2 : 0 < W (S j)) by (apply HW; lia).
    apply (frac_le_trans (F i) (W i) (F j) (W j) (F (S j)) (W (S j))); lia.
Qed.

Lemma ilp_nth_repeat {T} (x d : T) n i : (i < n)%nat -> nth i (repeat x n) d = x.
Proof. intros H. rewrite (nth_indep _ d x) by (rewrite repeat_length; exact H). apply nth_repeat. Qed.

Lemma ilp_enumerate_from_snd {T} (l : list T) : forall s, map snd (enumerate_from s l) = l.
Proof. induction l as [|x t IH]; intros s; cbn [enumerate_from map snd]; [reflexivity|]. rewrite IH. reflexivity. Qed.

Lemma ilp_concat_singletons {T U} (g : T -> U) (l : list T) : concat (map (fun p => [g p]) l) = map g l.
Proof. induction l as [|p l IH]; cbn [map concat app]; [reflexivity|]. rewrite IH. reflexivity. Qed.

(** a rational with a fixed denominator *)
Definition mkq (c s : Z) : Q := toQ (s, c).

Lemma mkq_add c a b : (mkq c a + mkq c b == mkq c (a + b))%Q.
Proof. apply toQ_same_den_add. Qed.
Lemma mkq_opp c a : (- mkq c a == mkq c (- a))%Q.
Proof. unfold mkq. change ((- a)%Z, c) with (rneg (a, c)). rewrite toQ_rneg. reflexivity. Qed.
Lemma mkq_0 c : (mkq c 0 == 0)%Q.
Proof. apply toQ_zero. Qed.
Lemma mkq_hd c l : (hd 0 (map (mkq c) l) == mkq c (hd 0%Z l))%Q.
Proof. destruct l; cbn [map hd]; [symmetry; apply mkq_0|reflexivity]. Qed.
Lemma mkq_last c l : (last (map (mkq c) l) 0 == mkq c (last l 0%Z))%Q.
Proof.
  induction l as [|x l IH]; [symmetry; apply mkq_0|]. destruct l as [|y l']; [reflexivity|].
  change (last (x :: y :: l') 0%Z) with (last (y :: l') 0%Z).
  change (last (map (mkq c) (x :: y :: l')) 0%Q) with (last (map (mkq c) (y :: l')) 0%Q). exact IH.
Qed.
Lemma mkq_sum c l : (qsum (map (mkq c) l) == mkq c (zsum l))%Q.
Proof.
  induction l as [|x l IH]; cbn [map]; [rewrite qsum_nil; symmetry; apply mkq_0|].
  rewrite qsum_cons, ilp_zsum_cons, IH. apply mkq_add.
Qed.

(** with a common denominator the rational fast path is the integer fast path *)
Lemma qvalue_mkq c o l : (qvalue o (map (mkq c) l) == mkq c (value o l true))%Q.
Proof.
  destruct o as [| | |j|j]; cbn [qvalue value]; unfold head0, last0.
  - rewrite mkq_hd. apply mkq_opp.
  - apply mkq_last.
  - rewrite mkq_hd, mkq_last. unfold Qminus. rewrite mkq_opp, mkq_add. reflexivity.
  - rewrite firstn_map, mkq_sum. apply mkq_opp.
  - rewrite py_suffix_gen_map, mkq_sum. destruct j; reflexivity.
Qed.

(** the additional constraints read on a list of bin sums s whose positions match the weights *)
Definition extra_ok (ws s : list Z) (x : extra) : Prop :=
  match x with
  | SmallestEq c => hd 0 s = c * hd 1 ws
  | LargestLe c => last s 0 <= c * last ws 1
  | SmallestGe c => c * hd 1 ws <= hd 0 s
  end.

(** standing assumptions on the instance: at least one bin, one positive weight per bin *)
Definition ilp_pre (k : nat) (ws : list Z) : Prop :=
  (1 <= k)%nat /\ length ws = k /\ Forall (fun w => 0 < w) ws.

Lemma pre_wpos k ws : ilp_pre k ws -> wpos ws k.
Proof. intros (_ & _ & H). apply wpos_of_Forall. exact H. Qed.

Lemma feasible_sem vs k copies ws ex asg : ilp_pre k ws ->
  feasible_b vs k copies ws ex asg = true -> sem_feasible vs k copies ws ex asg.
Proof. intros P. apply feasible_iff; [apply P|apply pre_wpos; exact P]. Qed.

Lemma sem_feasible_b vs k copies ws ex asg : ilp_pre k ws ->
  sem_feasible vs k copies ws ex asg -> feasible_b vs k copies ws ex asg = true.
Proof. intros P. apply feasible_iff; [apply P|apply pre_wpos; exact P]. Qed.

Section C17.
  Context {A : Type} (valueof : A -> Z).

  Lemma sem_counts_nonneg items k copies ws ex asg :
    sem_feasible (map valueof items) k copies ws ex asg -> counts_nonneg (length items) k asg.
  Proof. intros (_ & H & _). rewrite map_length in H. exact H. Qed.

  (** for a feasible assignment the final sort (equal weights) is the identity: the solver's
      symmetry-breaking constraint already put the bins in ascending order *)
  Lemma decode_feasible_raw keep items k copies ws ex asg : ilp_pre k ws ->
    feasible_b (map valueof items) k copies ws ex asg = true ->
    decode valueof keep k items ws asg = decode_raw valueof keep k items asg.
  Proof.
    intros P F. pose proof (feasible_sem _ _ _ _ _ _ P F) as S.
    pose proof (sem_counts_nonneg _ _ _ _ _ _ S) as N.
    unfold decode. destruct (all_equal ws) eqn:E; [|reflexivity].
    unfold sort_bins. apply sort_asc_id. apply ilp_key_sorted_of_sums.
    rewrite (decode_raw_sums valueof keep k items asg N). apply ilp_sorted_map_range.
    intros j Hj. destruct S as (_ & _ & _ & Hasc & _). specialize (Hasc j Hj).
    destruct P as (Hk & Hl & Hw).
    rewrite (all_equal_wt ws (S j) E) in Hasc by lia. rewrite (all_equal_wt ws j E) in Hasc by lia.
    assert (0 < wt ws 0) by (apply (wpos_of_Forall ws k Hw); lia).
    apply Z.mul_le_mono_pos_r in Hasc; assumption.
  Qed.

  Lemma decode_sums keep items k copies ws ex asg : ilp_pre k ws ->
    feasible_b (map valueof items) k copies ws ex asg = true ->
    sums (decode valueof keep k items ws asg) = map (bsum (map valueof items) asg k) (range k).
  Proof.
    intros P F. rewrite (decode_feasible_raw keep items k copies ws ex asg P F).
    apply decode_raw_sums. eapply sem_counts_nonneg. apply (feasible_sem _ _ _ _ _ _ P F).
  Qed.

  (** (a) every item is placed exactly copies[i] times; the result is a well-formed array of k bins *)
  Theorem decode_copies : forall items k copies ws ex asg, ilp_pre k ws ->
    feasible_b (map valueof items) k copies ws ex asg = true ->
    Permutation (contents (decode valueof true k items ws asg))
                (concat (map (fun p => repeat (snd p) (Z.to_nat (nth (fst p) copies 0))) (enumerate items)))
    /\ wf valueof (decode valueof true k items ws asg)
    /\ length (decode valueof true k items ws asg) = k.
  Proof.
    intros items k copies ws ex asg P F. rewrite (decode_feasible_raw true items k copies ws ex asg P F).
    pose proof (feasible_sem _ _ _ _ _ _ P F) as S. pose proof (sem_counts_nonneg _ _ _ _ _ _ S) as N.
    destruct S as (_ & _ & Hc & _). rewrite map_length in Hc.
    split; [apply decode_raw_contents_perm; assumption|]. split; [apply decode_raw_wf|apply decode_raw_length].
  Qed.

  Lemma decode_length keep k items ws asg : length (decode valueof keep k items ws asg) = k.
  Proof. unfold decode. destruct (all_equal ws); rewrite ?sort_bins_length; apply decode_raw_length. Qed.

  (** with one copy of each item the result is a partition of the items *)
  Theorem decode_is_partition : forall items k ws ex asg, ilp_pre k ws ->
    feasible_b (map valueof items) k (repeat 1 (length items)) ws ex asg = true ->
    is_partition valueof k items (decode valueof true k items ws asg).
  Proof.
    intros items k ws ex asg P F. destruct (decode_copies items k _ ws ex asg P F) as (HP & HW & HL).
    split; [|split; assumption].
    assert (E : concat (map (fun p : nat * A => repeat (snd p) (Z.to_nat (nth (fst p) (repeat 1 (length items)) 0)))
                            (enumerate items)) = items).
    { rewrite (map_ext_in _ (fun p => [snd p])).
      - rewrite ilp_concat_singletons. apply ilp_enumerate_from_snd.
      - intros p Hp. apply ilp_enumerate_from_fst in Hp. rewrite ilp_nth_repeat by lia. reflexivity. }
    rewrite E in HP. exact HP.
  Qed.

  (** (b) weighted sums are ascending (cross-multiplied), between neighbours and globally;
      position j of the result is the bin whose sum is divided by weight j *)
  Theorem decode_weighted_ascending : forall keep items k copies ws ex asg, ilp_pre k ws ->
    feasible_b (map valueof items) k copies ws ex asg = true ->
    let s := sums (decode valueof keep k items ws asg) in
    (forall j, (S j < k)%nat -> nth j s 0 * nth (S j) ws 1 <= nth (S j) s 0 * nth j ws 1) /\
    (forall i j, (i <= j)%nat -> (j < k)%nat -> nth i s 0 * nth j ws 1 <= nth j s 0 * nth i ws 1).
  Proof.
    intros keep items k copies ws ex asg P F s. unfold s. rewrite (decode_sums keep items k copies ws ex asg P F).
    pose proof (feasible_sem _ _ _ _ _ _ P F) as (_ & _ & _ & Hasc & _).
    assert (G : forall i j, (i <= j)%nat -> (j < k)%nat ->
                bsum (map valueof items) asg k i * wt ws j <= bsum (map valueof items) asg k j * wt ws i).
    { apply frac_chain; [apply pre_wpos; exact P|exact Hasc]. }
    split.
    - intros j Hj. rewrite !ilp_nth_map_range by lia. apply Hasc. exact Hj.
    - intros i j Hij Hj. rewrite !ilp_nth_map_range by lia. apply G; assumption.
  Qed.

  (** with equal weights the returned sums are ascending (whatever the assignment) *)
  Theorem decode_equal_weights_sorted : forall keep items k ws asg, all_equal ws = true ->
    StronglySorted Z.le (sums (decode valueof keep k items ws asg)).
  Proof. intros keep items k ws asg E. unfold decode. rewrite E. apply sort_bins_sorted. Qed.

  (** with unequal weights there is no sort at all; and in every case the value of the j-th
      weighted-sum expression under the assignment is (sum of returned bin j) / (weight j) *)
  Theorem decode_keeps_weight_positions : forall keep items k copies ws ex asg, ilp_pre k ws ->
    (all_equal ws = false -> decode valueof keep k items ws asg = decode_raw valueof keep k items asg) /\
    (feasible_b (map valueof items) k copies ws ex asg = true ->
     forall j, (j < k)%nat ->
       (Qv asg (bin_sum_expr (map valueof items) ws k j)
        == toQ (nth j (sums (decode valueof keep k items ws asg)) 0%Z, nth j ws 1%Z))%Q).
  Proof.
    intros keep items k copies ws ex asg P. split.
    - intros E. unfold decode. rewrite E. reflexivity.
    - intros F j Hj. rewrite (decode_sums keep items k copies ws ex asg P F).
      rewrite ilp_nth_map_range by exact Hj. apply Qv_bin_sum_expr. apply (pre_wpos k ws P). exact Hj.
  Qed.

  Lemma decode_wqs keep items k copies ws ex asg : ilp_pre k ws ->
    feasible_b (map valueof items) k copies ws ex asg = true ->
    map toQ (combine (sums (decode valueof keep k items ws asg)) ws) = wqs (map valueof items) ws asg k.
  Proof.
    intros P F. rewrite (decode_sums keep items k copies ws ex asg P F). destruct P as (_ & Hl & _). subst k.
    rewrite (ilp_combine_range _ ws 1), map_map. reflexivity.
  Qed.

  (** (c, weighted) the value of the objective expression is the sorted-fast-path objective of the
      weighted sums (returned sum / weight, position by position), which are ascending by (b) *)
  Theorem objective_agrees_weighted : forall keep items k copies ws ex o asg, ilp_pre k ws ->
    feasible_b (map valueof items) k copies ws ex asg = true ->
    (toQ (objective_value (map valueof items) k ws o asg)
     == qvalue o (map toQ (combine (sums (decode valueof keep k items ws asg)) ws)))%Q.
  Proof.
    intros keep items k copies ws ex o asg P F. rewrite (decode_wqs keep items k copies ws ex asg P F).
    apply objective_value_wqs. apply pre_wpos. exact P.
  Qed.

  Lemma pre_repeat c k : 0 < c -> (1 <= k)%nat -> ilp_pre k (repeat c k).
  Proof.
    intros Hc Hk. split; [exact Hk|]. split; [apply repeat_length|].
    apply Forall_forall. intros w Hw. apply repeat_spec in Hw. lia.
  Qed.

  Lemma all_equal_repeat c k : all_equal (repeat c k) = true.
  Proof.
    destruct k as [|k]; [reflexivity|]. cbn [repeat all_equal]. apply forallb_forall. intros w Hw.
    apply repeat_spec in Hw. lia.
  Qed.

  Lemma wqs_repeat vs c asg k : wqs vs (repeat c k) asg k = map (mkq c) (map (bsum vs asg k) (range k)).
  Proof.
    unfold wqs. rewrite map_map. apply map_ext_in. intros j Hj. apply ilp_range_In in Hj.
    unfold wq, wt, mkq. rewrite ilp_nth_repeat by exact Hj. reflexivity.
  Qed.

  (** (c, equal weights c > 0) the value of the objective expression is value o (returned sums) / c,
      for the GENERAL (unsorted) definition of the objective *)
  Theorem objective_agrees : forall keep items k copies c ex o asg, 0 < c -> (1 <= k)%nat ->
    feasible_b (map valueof items) k copies (repeat c k) ex asg = true ->
    let ov := objective_value (map valueof items) k (repeat c k) o asg in
    0 < snd ov /\
    fst ov * c = value o (sums (decode valueof keep k items (repeat c k) asg)) false * snd ov.
  Proof.
    intros keep items k copies c ex o asg Hc Hk F ov. pose proof (pre_repeat c k Hc Hk) as P.
    assert (Pov : rpos ov) by (apply objective_value_pos, pre_wpos; exact P). split; [exact Pov|].
    assert (E : (toQ ov == toQ (value o (sums (decode valueof keep k items (repeat c k) asg)) false, c))%Q).
    { unfold ov. rewrite (objective_value_wqs _ _ _ _ _ (pre_wpos _ _ P)). rewrite wqs_repeat, qvalue_mkq.
      rewrite <- (decode_sums keep items k copies (repeat c k) ex asg P F).
      rewrite value_sorted_flag; [reflexivity| |].
      - intros E0. apply (f_equal (@length Z)) in E0. unfold sums in E0.
        rewrite map_length, decode_length in E0. cbn [length] in E0. lia.
      - apply decode_equal_weights_sorted. apply all_equal_repeat. }
    apply toQ_eq in E; [exact E|exact Pov|exact Hc].
  Qed.

  Lemma extra_sem_ok vs ws asg k x : (1 <= k)%nat -> length ws = k ->
    extra_sem vs ws asg k x -> extra_ok ws (map (bsum vs asg k) (range k)) x.
  Proof.
    intros Hk Hl H. destruct x as [c|c|c]; cbn [extra_sem extra_ok] in *.
    - rewrite (ilp_hd_map_range _ k 0 Hk), ilp_hd_nth. exact H.
    - rewrite (ilp_last_map_range _ k 0 Hk), ilp_last_nth, Hl. exact H.
    - rewrite (ilp_hd_map_range _ k 0 Hk), ilp_hd_nth. exact H.
  Qed.

  (** (d) the decoded bins satisfy every additional constraint: on sum[0] / weight[0], the smallest
      weighted sum, and sum[k-1] / weight[k-1], the largest one (by (b)) *)
  Theorem extras_hold : forall keep items k copies ws ex asg, ilp_pre k ws ->
    feasible_b (map valueof items) k copies ws ex asg = true ->
    Forall (extra_ok ws (sums (decode valueof keep k items ws asg))) ex.
  Proof.
    intros keep items k copies ws ex asg P F. rewrite (decode_sums keep items k copies ws ex asg P F).
    pose proof (feasible_sem _ _ _ _ _ _ P F) as (_ & _ & _ & _ & Hex). destruct P as (Hk & Hl & _).
    eapply Forall_impl; [|exact Hex]. intros x Hx. apply extra_sem_ok; assumption.
  Qed.
End C17.
(** ================= 7. completeness of the formulation (C17 e) ================= *)

(** arrangements are described with item INDICES as contents, so that equal items stay apart *)
Definition idxval (vs : list Z) (i : nat) : Z := nth i vs 0.

Definition arrangement (vs : list Z) (k : nat) (copies ws : list Z) (ex : list extra) (b : bins nat) : Prop :=
  length b = k /\ wf (idxval vs) b /\
  Forall (fun i => (i < length vs)%nat) (contents b) /\
  (forall i, (i < length vs)%nat -> Z.of_nat (count_occ Nat.eq_dec (contents b) i) = nth i copies 0) /\
  (forall j, (S j < k)%nat -> nth j (sums b) 0 * wt ws (S j) <= nth (S j) (sums b) 0 * wt ws j) /\
  Forall (extra_ok ws (sums b)) ex.

(** the assignment that describes an arrangement *)
Definition occ (i : nat) (bn : bin nat) : Z := Z.of_nat (count_occ Nat.eq_dec (snd bn) i).
Definition encode (n : nat) (b : bins nat) : list Z := flat_map (fun i => map (occ i) b) (range n).

Lemma ilp_flat_map_length {I T} (f : I -> list T) k (l : list I) : (forall x, length (f x) = k) ->
  length (flat_map f l) = (length l * k)%nat.
Proof. intros H. induction l as [|x l IH]; cbn [flat_map length]; [reflexivity|]. rewrite app_length, H, IH. lia. Qed.

Lemma ilp_nth_flat_map {I T} (f : I -> list T) k d x0 : (forall x, length (f x) = k) ->
  forall (l : list I) i j, (i < length l)%nat -> (j < k)%nat ->
  nth (i * k + j) (flat_map f l) d = nth j (f (nth i l x0)) d.
Proof.
  intros H. induction l as [|x l IH]; intros i j Hi Hj; cbn [length] in Hi; [lia|]. cbn [flat_map].
  destruct i as [|i].
  - cbn [Nat.mul Nat.add nth]. apply app_nth1. rewrite H. exact Hj.
  - rewrite app_nth2 by (rewrite H; lia). rewrite H. cbn [nth].
    replace (S i * k + j - k)%nat with (i * k + j)%nat by lia. apply IH; lia.
Qed.

Lemma encode_length n b : length (encode n b) = (n * length b)%nat.
Proof.
  unfold encode. rewrite (ilp_flat_map_length _ (length b)) by (intros i; apply map_length).
  rewrite ilp_range_length. reflexivity.
Qed.

Lemma encode_cnt n b i j : (i < n)%nat -> (j < length b)%nat ->
  cnt (encode n b) (length b) i j = occ i (nth j b empty_bin).
Proof.
  intros Hi Hj. unfold cnt, var, encode.
  rewrite (ilp_nth_flat_map _ (length b) 0 O) by (try (intros x; apply map_length); try rewrite ilp_range_length; assumption).
  rewrite ilp_range_nth by exact Hi.
  rewrite (nth_indep _ 0 (occ i empty_bin)) by (rewrite map_length; exact Hj). apply map_nth.
Qed.

Lemma ilp_zsum_map_zero {T} (l : list T) : zsum (map (fun _ => 0) l) = 0.
Proof. induction l as [|x l IH]; cbn [map]; rewrite ?ilp_zsum_cons; [reflexivity|]. lia. Qed.

Lemma indicator_sum (f : nat -> Z) x m : forall a,
  zsum (map (fun i => if Nat.eq_dec x i then f i else 0) (range_from a m))
  = if (a <=? x)%nat && (x <? a + m)%nat then f x else 0.
Proof.
  induction m as [|m IH]; intros a; cbn [range_from map].
  - destruct ((a <=? x)%nat && (x <? a + 0)%nat) eqn:E; [lia|reflexivity].
  - rewrite ilp_zsum_cons, IH. destruct (Nat.eq_dec x a) as [->|N].
    + destruct ((S a <=? a)%nat && (a <? S a + m)%nat) eqn:E1; [lia|].
      destruct ((a <=? a)%nat && (a <? a + S m)%nat) eqn:E2; lia.
    + destruct ((S a <=? x)%nat && (x <? S a + m)%nat) eqn:E1;
        destruct ((a <=? x)%nat && (x <? a + S m)%nat) eqn:E2; lia.
Qed.

(** a sum over a list of indices, regrouped by index *)
Lemma count_sum (f : nat -> Z) n (l : list nat) : Forall (fun i => (i < n)%nat) l ->
  zsum (map (fun i => f i * Z.of_nat (count_occ Nat.eq_dec l i)) (range n)) = zsum (map f l).
Proof.
  induction 1 as [|x l Hx Hl IH]; cbn [map].
  - rewrite (ilp_zsum_map_ext _ (fun _ => 0)) by (intros i _; cbn [count_occ]; lia). apply ilp_zsum_map_zero.
  - rewrite ilp_zsum_cons, <- IH.
    rewrite (ilp_zsum_map_ext _ (fun i => (if Nat.eq_dec x i then f i else 0) + f i * Z.of_nat (count_occ Nat.eq_dec l i))).
    + rewrite ilp_zsum_map_add. unfold range. rewrite indicator_sum.
      destruct ((0 <=? x)%nat && (x <? 0 + n)%nat) eqn:E; lia.
    + intros i _. cbn [count_occ]. destruct (Nat.eq_dec x i); lia.
Qed.

Lemma occ_concat i (b : bins nat) :
  zsum (map (occ i) b) = Z.of_nat (count_occ Nat.eq_dec (contents b) i).
Proof.
  induction b as [|bn b IH]; [reflexivity|]. cbn [map]. rewrite ilp_zsum_cons, contents_cons, count_occ_app, IH.
  unfold occ. lia.
Qed.

Lemma Forall_contents_nth (P : nat -> Prop) (b : bins nat) j :
  Forall P (contents b) -> Forall P (snd (nth j b empty_bin)).
Proof.
  revert j. induction b as [|bn b IH]; intros j H.
  - destruct j; cbn [nth empty_bin snd]; constructor.
  - rewrite contents_cons in H. apply Forall_app in H. destruct H as [H1 H2].
    destruct j as [|j]; cbn [nth]; [exact H1|apply IH; exact H2].
Qed.

Lemma wf_nth (vs : list Z) (b : bins nat) j : wf (idxval vs) b ->
  nth j (sums b) 0 = zsum (map (idxval vs) (snd (nth j b empty_bin))).
Proof.
  intros H. revert j. induction H as [|bn b Hb Hw IH]; intros j.
  - destruct j; reflexivity.
  - destruct j as [|j]; cbn [sums map nth]; [exact Hb|apply IH].
Qed.

(** the bin sums of the encoded assignment are the recorded sums of the arrangement *)
Lemma encode_bsum vs (b : bins nat) j : wf (idxval vs) b ->
  Forall (fun i => (i < length vs)%nat) (contents b) -> (j < length b)%nat ->
  bsum vs (encode (length vs) b) (length b) j = nth j (sums b) 0.
Proof.
  intros Hw Hc Hj. rewrite (wf_nth vs b j Hw). unfold bsum. rewrite (ilp_enumerate_map vs 0), map_map.
  rewrite <- (count_sum (idxval vs) (length vs)) by (apply Forall_contents_nth; exact Hc).
  apply ilp_zsum_map_ext. intros i Hi. apply ilp_range_In in Hi.
  unfold bterm. cbn [fst snd]. rewrite encode_cnt by assumption. reflexivity.
Qed.

Lemma encode_row (vs : list Z) (b : bins nat) i : (i < length vs)%nat ->
  zsum (map (cnt (encode (length vs) b) (length b) i) (range (length b)))
  = Z.of_nat (count_occ Nat.eq_dec (contents b) i).
Proof.
  intros Hi. rewrite <- occ_concat.
  transitivity (zsum (map (occ i) (map (fun j => nth j b empty_bin) (range (length b))))).
  2: { rewrite <- (ilp_map_nth_range b empty_bin). reflexivity. }
  rewrite map_map.
  apply ilp_zsum_map_ext. intros j Hj. apply ilp_range_In in Hj. apply encode_cnt; assumption.
Qed.

Lemma extra_ok_sem vs ws asg k x : (1 <= k)%nat -> length ws = k ->
  extra_ok ws (map (bsum vs asg k) (range k)) x -> extra_sem vs ws asg k x.
Proof.
  intros Hk Hl H. destruct x as [c|c|c]; cbn [extra_sem extra_ok] in *.
  - rewrite (ilp_hd_map_range _ k 0 Hk), ilp_hd_nth in H. exact H.
  - rewrite (ilp_last_map_range _ k 0 Hk), ilp_last_nth, Hl in H. exact H.
  - rewrite (ilp_hd_map_range _ k 0 Hk), ilp_hd_nth in H. exact H.
Qed.

Lemma encode_sums vs (b : bins nat) : wf (idxval vs) b ->
  Forall (fun i => (i < length vs)%nat) (contents b) ->
  map (bsum vs (encode (length vs) b) (length b)) (range (length b)) = sums b.
Proof.
  intros Hw Hc.
  transitivity (map (fun j => nth j (sums b) 0) (range (length (sums b)))).
  2: { symmetry. apply ilp_map_nth_range. }
  replace (length (sums b)) with (length b) by (unfold sums; rewrite map_length; reflexivity).
  apply map_ext_in. intros j Hj. apply ilp_range_In in Hj. apply encode_bsum; assumption.
Qed.

Lemma encode_sem vs k copies ws ex b : ilp_pre k ws -> arrangement vs k copies ws ex b ->
  sem_feasible vs k copies ws ex (encode (length vs) b).
Proof.
  intros (Hk & Hl & Hw) (Lb & Wf & Hc & Hcp & Hasc & Hex). subst k. rewrite <- Lb in *.
  split; [apply encode_length|]. split; [|split; [|split]].
  - intros i j Hi Hj. rewrite encode_cnt by assumption. unfold occ. lia.
  - intros i Hi. rewrite encode_row by exact Hi. apply Hcp. exact Hi.
  - intros j Hj. rewrite !encode_bsum by (try assumption; lia). apply Hasc. exact Hj.
  - eapply Forall_impl; [|exact Hex]. intros x Hx. apply extra_ok_sem; [exact Hk|symmetry; exact Lb|].
    rewrite encode_sums by assumption. exact Hx.
Qed.

(** (e) every arrangement (k bins of item indices, item i placed copies[i] times, weighted sums
    ascending, additional constraints satisfied) is the decoding of a feasible assignment, with the
    same bin sums, hence the same objective value *)
Theorem feasible_complete : forall vs k copies ws ex (b : bins nat), ilp_pre k ws ->
  arrangement vs k copies ws ex b ->
  let asg := encode (length vs) b in
  feasible_b vs k copies ws ex asg = true /\
  (forall (A : Type) (valueof : A -> Z) keep (items : list A), map valueof items = vs ->
     sums (decode valueof keep k items ws asg) = sums b) /\
  (forall o, (toQ (objective_value vs k ws o asg) == qvalue o (map toQ (combine (sums b) ws)))%Q).
Proof.
  intros vs k copies ws ex b P Arr asg.
  assert (F : feasible_b vs k copies ws ex asg = true) by (apply sem_feasible_b; [exact P|apply encode_sem; assumption]).
  destruct Arr as (Lb & Wf & Hc & _).
  assert (Es : map (bsum vs asg k) (range k) = sums b) by (subst k; apply encode_sums; assumption).
  split; [exact F|]. split.
  - intros A valueof keep items E. subst vs. rewrite (decode_sums valueof keep items k copies ws ex asg P F). exact Es.
  - intros o. rewrite (objective_value_wqs vs ws asg k o (pre_wpos k ws P)). unfold wqs.
    rewrite <- Es. destruct P as (_ & Hl & _). rewrite <- Hl at 3 4.
    rewrite (ilp_combine_range _ ws 1), map_map, Hl. reflexivity.
Qed.
(** ================= 8. optimality, given an optimal solver answer (C17 f) ================= *)

(** what the solver sees: only the formulation *)
Definition feasible_f (f : nat * linexpr * list constr) (asg : list Z) : bool :=
  Nat.eqb (length asg) (fst (fst f)) && forallb (satisfies asg) (snd f).
Definition objective_f (f : nat * linexpr * list constr) (asg : list Z) : rat := eval_expr asg (snd (fst f)).

Lemma feasible_f_formulate vs k copies ws o ex asg :
  feasible_f (formulate vs k copies ws o ex) asg = feasible_b vs k copies ws ex asg.
Proof. reflexivity. Qed.
Lemma objective_f_formulate vs k copies ws o ex asg :
  objective_f (formulate vs k copies ws o ex) asg = objective_value vs k ws o asg.
Proof. reflexivity. Qed.

(** status OPTIMAL means: the returned point is feasible and no feasible point has a smaller objective *)
Definition solver_spec (solve : nat * linexpr * list constr -> option (list Z)) : Prop :=
  forall f asg, solve f = Some asg ->
    feasible_f f asg = true /\
    forall asg', feasible_f f asg' = true -> rleb (objective_f f asg) (objective_f f asg') = true.

Lemma idxval_map vs : map (idxval vs) (range (length vs)) = vs.
Proof. symmetry. apply (ilp_map_nth_range vs 0). Qed.

Lemma ilp_sorted_nth (l : list Z) : StronglySorted Z.le l ->
  forall i j, (i <= j)%nat -> (j < length l)%nat -> nth i l 0 <= nth j l 0.
Proof.
  induction 1 as [|x l Hs IH Hf]; intros i j Hij Hj; cbn [length] in Hj; [lia|].
  destruct j as [|j]; [assert (i = O) by lia; subst i; lia|].
  destruct i as [|i]; cbn [nth].
  - rewrite Forall_forall in Hf. apply Hf. apply nth_In. lia.
  - apply IH; lia.
Qed.

Lemma wt_repeat c k j : (j < k)%nat -> wt (repeat c k) j = c.
Proof. intros H. unfold wt. apply ilp_nth_repeat. exact H. Qed.

(** the objective with weights all 1, without reference to decoded bins *)
Lemma objective_unweighted vs k copies ex o asg : (1 <= k)%nat ->
  feasible_b vs k copies (repeat 1 k) ex asg = true ->
  0 < snd (objective_value vs k (repeat 1 k) o asg) /\
  fst (objective_value vs k (repeat 1 k) o asg)
  = value o (map (bsum vs asg k) (range k)) false * snd (objective_value vs k (repeat 1 k) o asg).
Proof.
  intros Hk F. pose proof (pre_repeat 1 k ltac:(lia) Hk) as P.
  rewrite <- (idxval_map vs) in F.
  destruct (objective_agrees (idxval vs) false (range (length vs)) k copies 1 ex o asg ltac:(lia) Hk F) as [H1 H2].
  rewrite (decode_sums (idxval vs) false (range (length vs)) k copies (repeat 1 k) ex asg P F) in H2.
  rewrite (idxval_map vs) in *. split; [exact H1|lia].
Qed.

Section Solver.
  Variable solve : nat * linexpr * list constr -> option (list Z).
  Hypothesis solve_optimal : solver_spec solve.

  Context {A : Type} (valueof : A -> Z).

  (** (f, general) the decoded answer is optimal among all arrangements: its objective (fast path on
      the weighted sums, which is their true objective since they are ascending) is the least *)
  Theorem ilp_optimal_weighted : forall keep items k copies ws ex o asg, ilp_pre k ws ->
    solve (formulate (map valueof items) k copies ws o ex) = Some asg ->
    feasible_b (map valueof items) k copies ws ex asg = true /\
    forall b' : bins nat, arrangement (map valueof items) k copies ws ex b' ->
      (qvalue o (map toQ (combine (sums (decode valueof keep k items ws asg)) ws))
       <= qvalue o (map toQ (combine (sums b') ws)))%Q.
  Proof.
    intros keep items k copies ws ex o asg P E. destruct (solve_optimal _ _ E) as [F Hmin].
    rewrite feasible_f_formulate in F. split; [exact F|]. intros b' Arr.
    destruct (feasible_complete (map valueof items) k copies ws ex b' P Arr) as (F' & _ & Ho').
    specialize (Hmin _ F'). rewrite !objective_f_formulate in Hmin.
    apply rleb_Q in Hmin; try (apply objective_value_pos, pre_wpos; exact P).
    rewrite <- (objective_agrees_weighted valueof keep items k copies ws ex o asg P F).
    rewrite <- (Ho' o). exact Hmin.
  Qed.

  Lemma ilp_partition_attainable k items (b : bins A) : is_partition valueof k items b ->
    Attainable k (map valueof items) (sums b).
  Proof.
    intros (Hp & Hl & Hw). destruct (bins_attainable valueof b Hw) as (ps & Hm & Hf & Hr).
    rewrite Hl in Hf, Hr.
    apply (Attainable_perm k (map valueof (contents b))); [apply Permutation_map; exact Hp|].
    apply Attainable_pairs. exists ps. auto.
  Qed.

  (** every attainable vector of sums is, after sorting the bins, an arrangement for the
      unweighted one-copy problem without additional constraints *)
  Lemma attainable_arrangement k vs s : (1 <= k)%nat -> Attainable k vs s ->
    exists b' : bins nat, arrangement vs k (repeat 1 (length vs)) (repeat 1 k) [] b' /\ Permutation (sums b') s.
  Proof.
    intros Hk Hs. rewrite <- (idxval_map vs) in Hs.
    destruct (attainable_lists (idxval vs) k (range (length vs)) s Hs) as (T & HL & HP & HS).
    set (b0 := map (fun l => (zsum (map (idxval vs) l), l)) T : bins nat).
    assert (Hc0 : contents b0 = concat T).
    { unfold contents, lists, b0. rewrite map_map. cbn [snd]. rewrite map_id. reflexivity. }
    assert (Hs0 : sums b0 = s).
    { unfold sums, b0. rewrite map_map. cbn [fst]. exact HS. }
    assert (Hw0 : wf (idxval vs) b0).
    { unfold wf, b0. rewrite Forall_map. apply Forall_forall. intros l _. reflexivity. }
    assert (HPc : Permutation (contents (sort_bins b0)) (range (length vs))).
    { rewrite sort_bins_contents, Hc0. exact HP. }
    assert (Ls : length (sort_bins b0) = k).
    { pose proof (sort_bins_length b0) as L0. unfold b0 in L0 at 2. rewrite map_length, HL in L0. exact L0. }
    exists (sort_bins b0). split.
    - split; [exact Ls|].
      split; [apply sort_bins_wf; exact Hw0|]. split; [|split; [|split]].
      + eapply Permutation_Forall; [symmetry; exact HPc|]. apply Forall_forall. intros i Hi.
        apply ilp_range_In. exact Hi.
      + intros i Hi. rewrite ilp_nth_repeat by exact Hi.
        assert (ND : NoDup (contents (sort_bins b0))).
        { eapply Permutation_NoDup; [symmetry; exact HPc|]. apply ilp_range_from_nodup. }
        rewrite (NoDup_count_occ' Nat.eq_dec) in ND. rewrite ND; [reflexivity|].
        eapply Permutation_in; [symmetry; exact HPc|]. apply ilp_range_In. exact Hi.
      + intros j Hj. rewrite !wt_repeat by lia.
        assert (nth j (sums (sort_bins b0)) 0 <= nth (S j) (sums (sort_bins b0)) 0); [|lia].
        apply ilp_sorted_nth; [apply sort_bins_sorted|lia|].
        unfold sums. rewrite map_length. unfold bins, bin in Ls. rewrite Ls. exact Hj.
      + constructor.
    - rewrite sort_bins_sums_perm, Hs0. apply Permutation_refl.
  Qed.

  (** (f, unweighted) weights all 1, one copy of each item, no additional constraints:
      the decoded answer is a partition in ascending order whose value is THE optimum of the
      objective over all partitions of the values into k bins *)
  Theorem ilp_optimal : forall items k o asg, (1 <= k)%nat ->
    solve (formulate (map valueof items) k (repeat 1 (length items)) (repeat 1 k) o []) = Some asg ->
    let b := decode valueof true k items (repeat 1 k) asg in
    is_partition valueof k items b /\ StronglySorted Z.le (sums b) /\
    Opt o k (map valueof items) (value o (sums b) false).
  Proof.
    intros items k o asg Hk E b. pose proof (pre_repeat 1 k ltac:(lia) Hk) as P.
    destruct (solve_optimal _ _ E) as [F Hmin]. rewrite feasible_f_formulate in F.
    assert (Part : is_partition valueof k items b) by (apply (decode_is_partition valueof items k _ [] asg P F)).
    split; [exact Part|]. split; [apply decode_equal_weights_sorted, all_equal_repeat|].
    pose proof (objective_unweighted _ k _ [] o asg Hk F) as [D1 N1].
    rewrite <- (decode_sums valueof true items k _ (repeat 1 k) [] asg P F) in N1. fold b in N1.
    split.
    - exists (sums b). split; [apply ilp_partition_attainable; exact Part|reflexivity].
    - intros s Hs. rewrite <- (map_length valueof items) in F, Hmin, E.
      destruct (attainable_arrangement k (map valueof items) s Hk Hs) as (b' & Arr & Pb').
      destruct (feasible_complete _ k _ _ [] b' P Arr) as (F' & _ & _).
      pose proof (Hmin _ F') as Hle. rewrite !objective_f_formulate in Hle.
      apply rleb_Q in Hle; try (apply objective_value_pos, pre_wpos; exact P).
      pose proof (objective_unweighted _ k _ [] o _ Hk F') as [D2 N2].
      destruct Arr as (Lb & Wf & Hc & _).
      assert (Es : map (bsum (map valueof items) (encode (length (map valueof items)) b') k) (range k) = sums b')
        by (rewrite <- Lb; apply encode_sums; assumption).
      rewrite Es in N2.
      rewrite (value_perm o _ _ Pb') in N2.
      apply toQ_le in Hle; [|exact D1|exact D2]. rewrite N1, N2 in Hle.
      set (v1 := value o (sums b) false) in *. set (v2 := value o s false) in *.
      set (d1 := snd (objective_value (map valueof items) k (repeat 1 k) o asg)) in *.
      set (d2 := snd (objective_value (map valueof items) k (repeat 1 k) o
                        (encode (length (map valueof items)) b'))) in *.
      assert (H3 : v1 * (d1 * d2) <= v2 * (d1 * d2)) by lia.
      apply Z.mul_le_mono_pos_r in H3; [exact H3|]. apply Z.mul_pos_pos; assumption.
  Qed.

  (** the same, for the top-level function: if it returns bins, they are an optimal ascending partition *)
  Corollary ilp_returns_optimal : forall items k o b,
    ilp valueof true (solve (formulate (map valueof items) k (repeat 1 (length items)) (repeat 1 k) o []))
        o k items (repeat 1 (length items)) (repeat 1 k) = Ok b ->
    (1 <= k)%nat ->
    is_partition valueof k items b /\ StronglySorted Z.le (sums b) /\
    Opt o k (map valueof items) (value o (sums b) false).
  Proof.
    intros items k o b E Hk. unfold ilp in E.
    destruct (ilp_precheck k (length items) (repeat 1 (length items)) (repeat 1 k) o); [discriminate|].
    destruct (solve _) as [asg|] eqn:Es; [|discriminate]. inversion E; subst b.
    apply ilp_optimal; assumption.
  Qed.
End Solver.

(** ================= 9. error path and equal weights (C17 g) ================= *)

Theorem non_optimal_raises : forall (A : Type) (valueof : A -> Z) keep k items ws asg,
  ilp_result valueof keep false k items ws asg = Err ValueError.
Proof. reflexivity. Qed.

Theorem non_optimal_raises_ilp : forall (A : Type) (valueof : A -> Z) keep o k items copies ws,
  (exists e, ilp valueof keep None o k items copies ws = Err e) /\
  (ilp_precheck k (length items) copies ws o = None ->
   ilp valueof keep None o k items copies ws = Err ValueError).
Proof.
  intros A valueof keep o k items copies ws. unfold ilp.
  destruct (ilp_precheck k (length items) copies ws o) as [e|].
  - split; [exists e; reflexivity|discriminate].
  - split; [exists ValueError; reflexivity|reflexivity].
Qed.
(** equal weights c: the additional constraints talk about sum / c, so their constants are scaled *)
Definition scale_extra (c : Z) (x : extra) : extra :=
  match x with
  | SmallestEq z => SmallestEq (z * c)
  | LargestLe z => LargestLe (z * c)
  | SmallestGe z => SmallestGe (z * c)
  end.

Lemma ilp_bool_eq (a b : bool) : (a = true <-> b = true) -> a = b.
Proof. destruct a, b; intros [H1 H2]; try reflexivity; [symmetry; apply H1; reflexivity|apply H2; reflexivity]. Qed.

Lemma sem_feasible_equal_weights vs k copies c ex asg : 0 < c -> (1 <= k)%nat ->
  (sem_feasible vs k copies (repeat c k) ex asg <->
   sem_feasible vs k copies (repeat 1 k) (map (scale_extra c) ex) asg).
Proof.
  intros Hc Hk. unfold sem_feasible.
  assert (E1 : (forall j, (S j < k)%nat ->
                  bsum vs asg k j * wt (repeat c k) (S j) <= bsum vs asg k (S j) * wt (repeat c k) j) <->
               (forall j, (S j < k)%nat ->
                  bsum vs asg k j * wt (repeat 1 k) (S j) <= bsum vs asg k (S j) * wt (repeat 1 k) j)).
  { split; intros H j Hj; specialize (H j Hj); rewrite !wt_repeat in * by lia.
    - apply Z.mul_le_mono_pos_r in H; [lia|exact Hc].
    - apply Z.mul_le_mono_pos_r; [exact Hc|lia]. }
  assert (E2 : Forall (extra_sem vs (repeat c k) asg k) ex <->
               Forall (extra_sem vs (repeat 1 k) asg k) (map (scale_extra c) ex)).
  { rewrite Forall_map. split; intros H; (eapply Forall_impl; [|exact H]); intros x Hx;
      destruct x as [z|z|z]; cbn [scale_extra extra_sem] in *; rewrite !wt_repeat in * by lia; lia. }
  rewrite E1, E2. reflexivity.
Qed.

(** (g) equal weights never change the result: same feasible set (with the constants of the
    additional constraints scaled; identical when there are none), same comparison of objective
    values between any two assignments (hence the same minimisers), same decoding *)
Theorem equal_weights_noop : forall vs k copies c o ex, 0 < c -> (1 <= k)%nat ->
  (forall asg, feasible_b vs k copies (repeat c k) ex asg
               = feasible_b vs k copies (repeat 1 k) (map (scale_extra c) ex) asg) /\
  (forall a1 a2, rleb (objective_value vs k (repeat c k) o a1) (objective_value vs k (repeat c k) o a2)
                 = rleb (objective_value vs k (repeat 1 k) o a1) (objective_value vs k (repeat 1 k) o a2)) /\
  (forall (A : Type) (valueof : A -> Z) keep (items : list A) asg,
     decode valueof keep k items (repeat c k) asg = decode valueof keep k items (repeat 1 k) asg).
Proof.
  intros vs k copies c o ex Hc Hk.
  pose proof (pre_repeat c k Hc Hk) as Pc. pose proof (pre_repeat 1 k ltac:(lia) Hk) as P1.
  split; [|split].
  - intros asg. apply ilp_bool_eq.
    rewrite (feasible_iff vs k copies (repeat c k) ex asg Hk (pre_wpos _ _ Pc)).
    rewrite (feasible_iff vs k copies (repeat 1 k) _ asg Hk (pre_wpos _ _ P1)).
    apply sem_feasible_equal_weights; assumption.
  - intros a1 a2. apply ilp_bool_eq.
    rewrite !rleb_Q by (apply objective_value_pos, pre_wpos; assumption).
    rewrite !objective_value_wqs by (apply pre_wpos; assumption).
    rewrite !wqs_repeat, !qvalue_mkq. unfold mkq.
    rewrite !toQ_le by (unfold rpos; cbn [snd]; lia). cbn [fst snd].
    split; intros H.
    + apply Z.mul_le_mono_pos_r in H; [lia|exact Hc].
    + apply Z.mul_le_mono_pos_r; [exact Hc|lia].
  - intros A valueof keep items asg. unfold decode. rewrite !all_equal_repeat. reflexivity.
Qed.

Corollary equal_weights_noop_no_extras : forall vs k copies c asg, 0 < c -> (1 <= k)%nat ->
  feasible_b vs k copies (repeat c k) [] asg = feasible_b vs k copies (repeat 1 k) [] asg.
Proof. intros vs k copies c asg Hc Hk. apply (equal_weights_noop vs k copies c MinDiff [] Hc Hk). Qed.

(** ================= 10. examples ================= *)

Example ex_formulate :
  formulate [11; 11; 11; 11; 22] 2 [1; 1; 1; 1; 1] [1; 1] MaxSmallest []
  = (10%nat,
     ([(0%nat, (-11, 1)); (2%nat, (-11, 1)); (4%nat, (-11, 1)); (6%nat, (-11, 1)); (8%nat, (-22, 1))], (0, 1)),
     [([(0%nat, (1, 1))], (0, 1), SGe); ([(2%nat, (1, 1))], (0, 1), SGe); ([(4%nat, (1, 1))], (0, 1), SGe);
      ([(6%nat, (1, 1))], (0, 1), SGe); ([(8%nat, (1, 1))], (0, 1), SGe); ([(1%nat, (1, 1))], (0, 1), SGe);
      ([(3%nat, (1, 1))], (0, 1), SGe); ([(5%nat, (1, 1))], (0, 1), SGe); ([(7%nat, (1, 1))], (0, 1), SGe);
      ([(9%nat, (1, 1))], (0, 1), SGe);
      ([(0%nat, (1, 1)); (1%nat, (1, 1))], (-1, 1), SEq); ([(2%nat, (1, 1)); (3%nat, (1, 1))], (-1, 1), SEq);
      ([(4%nat, (1, 1)); (5%nat, (1, 1))], (-1, 1), SEq); ([(6%nat, (1, 1)); (7%nat, (1, 1))], (-1, 1), SEq);
      ([(8%nat, (1, 1)); (9%nat, (1, 1))], (-1, 1), SEq);
      ([(1%nat, (11, 1)); (3%nat, (11, 1)); (5%nat, (11, 1)); (7%nat, (11, 1)); (9%nat, (22, 1));
        (0%nat, (-11, 1)); (2%nat, (-11, 1)); (4%nat, (-11, 1)); (6%nat, (-11, 1)); (8%nat, (-22, 1))], (0, 1), SGe)]).
Proof. vm_compute. reflexivity. Qed.

(** the answer CBC returned in the validation run, and its decoding (sums 33, 33) *)
Example ex_feasible :
  feasible_b [11; 11; 11; 11; 22] 2 [1; 1; 1; 1; 1] [1; 1] [] [0; 1; 0; 1; 0; 1; 1; 0; 1; 0] = true.
Proof. vm_compute. reflexivity. Qed.
Example ex_objective :
  objective_value [11; 11; 11; 11; 22] 2 [1; 1] MaxSmallest [0; 1; 0; 1; 0; 1; 1; 0; 1; 0] = (-33, 1).
Proof. vm_compute. reflexivity. Qed.
Example ex_decode :
  decode (fun x : Z => x) true 2 [11; 11; 11; 11; 22] [1; 1] [0; 1; 0; 1; 0; 1; 1; 0; 1; 0]
  = [(33, [11; 22]); (33, [11; 11; 11])].
Proof. vm_compute. reflexivity. Qed.
(** an infeasible point: bin sums 55, 11 are not ascending *)
Example ex_infeasible :
  feasible_b [11; 11; 11; 11; 22] 2 [1; 1; 1; 1; 1] [1; 1] [] [1; 0; 1; 0; 1; 0; 0; 1; 1; 0] = false.
Proof. vm_compute. reflexivity. Qed.

(** weights [2; 1]: coefficients value/2 in bin 0; the optimum has sums 44, 22 (weighted 22, 22);
    the bins are NOT sorted by sum: bin 0 stays the bin of weight 2 *)
Example ex_weighted_formulate_objective :
  snd (fst (normalize (formulate [11; 11; 11; 11; 22] 2 [1; 1; 1; 1; 1] [2; 1] MaxSmallest [])))
  = ([(0%nat, (-11, 2)); (2%nat, (-11, 2)); (4%nat, (-11, 2)); (6%nat, (-11, 2)); (8%nat, (-22, 2))], (0, 1)).
Proof. vm_compute. reflexivity. Qed.
Example ex_weighted_asc_constraint :
  nth 15 (snd (normalize (formulate [11; 11; 11; 11; 22] 2 [1; 1; 1; 1; 1] [2; 1] MaxSmallest []))) (lzero, SEq)
  = ([(0%nat, (-11, 2)); (1%nat, (11, 1)); (2%nat, (-11, 2)); (3%nat, (11, 1)); (4%nat, (-11, 2));
      (5%nat, (11, 1)); (6%nat, (-11, 2)); (7%nat, (11, 1)); (8%nat, (-22, 2)); (9%nat, (22, 1))], (0, 1), SGe).
Proof. vm_compute. reflexivity. Qed.
Example ex_weighted_feasible :
  feasible_b [11; 11; 11; 11; 22] 2 [1; 1; 1; 1; 1] [2; 1] [] [1; 0; 1; 0; 1; 0; 1; 0; 0; 1] = true.
Proof. vm_compute. reflexivity. Qed.
Example ex_weighted_decode :
  decode (fun x : Z => x) true 2 [11; 11; 11; 11; 22] [2; 1] [1; 0; 1; 0; 1; 0; 1; 0; 0; 1]
  = [(44, [11; 11; 11; 11]); (22, [22])].
Proof. vm_compute. reflexivity. Qed.
Example ex_weighted_objective :
  reqb (objective_value [11; 11; 11; 11; 22] 2 [2; 1] MaxSmallest [1; 0; 1; 0; 1; 0; 1; 0; 0; 1]) (-22, 1) = true.
Proof. vm_compute. reflexivity. Qed.
(** additional constraint sums[-1] <= 3 on weighted sums (weights [1; 3]): 9/3 <= 3 holds, <= 2 does not *)
Example ex_extra :
  feasible_b [1; 2; 3] 2 [2; 2; 2] [1; 3] [LargestLe 3] [0; 2; 0; 2; 1; 1] = true /\
  feasible_b [1; 2; 3] 2 [2; 2; 2] [1; 3] [LargestLe 2] [0; 2; 0; 2; 1; 1] = false.
Proof. split; vm_compute; reflexivity. Qed.
(** errors raised before the solver is called *)
Example ex_errors :
  ilp (fun x : Z => x) true (Some []) MaxSmallest 2 [] [] [1; 1] = Err OtherError /\
  ilp (fun x : Z => x) true (Some []) MinLargest 0 [1; 2] [1; 1] [] = Err IndexError /\
  ilp (fun x : Z => x) true (Some []) (MaxKSmallest 0) 2 [1; 2] [1; 1] [1; 1] = Err OtherError /\
  ilp (fun x : Z => x) true (Some []) MinDiff 2 [1; 2] [1; 1] [0; 1] = Err ZeroDivisionError /\
  ilp (fun x : Z => x) true (Some []) MinDiff 2 [1; 2] [1; 1] [1] = Err IndexError /\
  ilp (fun x : Z => x) true None MinDiff 2 [1; 2] [1; 1] [1; 1] = Err ValueError.
Proof. repeat split. Qed.

Print Assumptions feasible_iff.
Print Assumptions decode_copies.
Print Assumptions decode_is_partition.
Print Assumptions decode_weighted_ascending.
Print Assumptions decode_equal_weights_sorted.
Print Assumptions decode_keeps_weight_positions.
Print Assumptions objective_agrees_weighted.
Print Assumptions objective_agrees.
Print Assumptions extras_hold.
Print Assumptions feasible_complete.
Print Assumptions ilp_optimal_weighted.
Print Assumptions ilp_optimal.
Print Assumptions ilp_returns_optimal.
Print Assumptions non_optimal_raises.
Print Assumptions non_optimal_raises_ilp.
Print Assumptions equal_weights_noop.
