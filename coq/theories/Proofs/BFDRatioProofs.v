(** The 3/2 bound for best-fit-decreasing (Model/Packing.v, prtpy/packing/best_fit.py called on
    items sorted by descending value):

      bfd_ratio_32 :  2 * length b <= 3 * n      (BFD <= 3/2 OPT)

    The proof follows FFDRatioProofs.v, but the invariant [sfit] used there (no item fits into an
    earlier bin at its final sum) is FALSE for best-fit (example [bfd_not_sfit] below).  It is
    replaced by the any-fit invariant of PackingProofs.v (the FIRST item of a bin fits into no
    earlier bin) plus a new invariant [bf2] of best-fit: the SECOND item y of a bin whose first
    item x is at most C/2 fits into no earlier bin.  (When y was placed its bin held only x; an
    earlier bin with sum s into which y fits has s <= x because best-fit prefers the fullest
    bin, and C < s + x by any-fit, so C < 2 x.)  In the volume argument the items paired with the
    bins of the first part are the first two items of each bin of the second part. *)
From Prtpy Require Import Base.Prelude Model.Binner Model.Packing Spec.Partition
  Proofs.BaseLemmas Proofs.BinnerLemmas Proofs.PackingProofs Oracle.Reach Proofs.OracleSpec
  Proofs.FFDRatioProofs.
From Coq Require Import ZifyBool Sorting.Sorted.

(** ---- 1. the best-fit scan returns a fullest bin among those that fit ---- *)
Section ScanOpt.
  Context {A : Type}.

  Lemma bf_scan_opt C v (b : bins A) : forall i best k,
    fst (bf_scan C v b i best) = Some k ->
    (fst best = Some k /\ Forall (fun c => fst c + v <= C -> fst c + v <= snd best) b) \/
    exists l1 bn l2, b = l1 ++ bn :: l2 /\ k = (i + length l1)%nat /\ fst bn + v <= C /\
      snd best < fst bn + v /\ Forall (fun c => fst c + v <= C -> fst c <= fst bn) l1.
  Proof.
    induction b as [|bn t IH]; intros i best k; cbn [bf_scan].
    - intros H. left. split; [exact H|constructor].
    - intros H. apply IH in H.
      destruct ((fst bn + v <=? C) && (snd best <? fst bn + v)) eqn:E.
      + destruct H as [[H1 H2]|(l1 & bn' & l2 & E1 & E2 & E3 & E4 & E5)].
        * right. exists [], bn, t. cbn [fst] in H1. injection H1 as H1.
          cbn [app length]. repeat split; try lia. constructor.
        * right. exists (bn :: l1), bn', l2. subst t. cbn [app length snd] in *.
          repeat split; try lia. constructor; [lia|exact E5].
      + destruct H as [[H1 H2]|(l1 & bn' & l2 & E1 & E2 & E3 & E4 & E5)].
        * left. split; [exact H1|]. constructor; [lia|exact H2].
        * right. exists (bn :: l1), bn', l2. subst t. cbn [app length].
          repeat split; try lia. constructor; [lia|exact E5].
  Qed.
End ScanOpt.

(** ---- 2. one best-fit step, and the invariant [bf2] ---- *)
Section BFDStructure.
  Context {A : Type} (valueof : A -> Z).
  Notation add := (add_to_bin valueof true).

  Lemma update_at (f : bin A -> bin A) bn l2 : forall l1 : bins A,
    update (length l1) f (l1 ++ bn :: l2) = l1 ++ f bn :: l2.
  Proof. induction l1 as [|y l IHl]; cbn [length app update]; [reflexivity|]. rewrite IHl. reflexivity. Qed.

  (** best-fit puts the item into a bin that fits and is at least as full as every earlier bin
      that fits, or opens a new bin when no bin fits *)
  Lemma bf_place_cases C x b : Forall (fun bn => -1 < fst bn + valueof x) b ->
    (exists l1 bn l2, b = l1 ++ bn :: l2 /\ bf_place valueof true C x b = l1 ++ add x bn :: l2 /\
       fst bn + valueof x <= C /\ Forall (fun c => fst c + valueof x <= C -> fst c <= fst bn) l1) \/
    (Forall (fun bn => C < fst bn + valueof x) b /\ bf_place valueof true C x b = b ++ [add x empty_bin]).
  Proof.
    intros Hpos. unfold bf_place.
    destruct (fst (bf_scan C (valueof x) b 0 (None, -1))) as [k|] eqn:E.
    - left. apply bf_scan_opt in E. destruct E as [[E _]|(l1 & bn & l2 & E1 & E2 & E3 & _ & E5)].
      + discriminate E.
      + exists l1, bn, l2. subst b. cbn [Nat.add] in E2. subst k. unfold add_item.
        rewrite update_at. repeat split; [exact E3|exact E5].
    - right. split; [|reflexivity]. apply bf_scan_none in E. cbn [snd] in E.
      rewrite Forall_forall in *. intros bn Hin. specialize (E bn Hin). specialize (Hpos bn Hin). lia.
  Qed.

  (** the second item of [c] does not fit a bin of sum [s], unless the first item exceeds C/2 *)
  Definition later2_ok (C s : Z) (c : bin A) : Prop :=
    match snd c with x :: y :: _ => C < s + valueof y \/ C < 2 * valueof x | _ => True end.

  Fixpoint bf2 (C : Z) (b : bins A) : Prop :=
    match b with
    | [] => True
    | bn :: t => Forall (later2_ok C (fst bn)) t /\ bf2 C t
    end.

  Lemma later2_ok_grow C s s' t : s <= s' -> Forall (later2_ok C s) t -> Forall (later2_ok C s') t.
  Proof.
    intros Hs H. eapply Forall_impl; [|exact H]. intros c. unfold later2_ok.
    destruct (snd c) as [|x [|y l]]; [auto|auto|lia].
  Qed.

  (** any-fit, read at a position: the first item of [bn] fits no bin of [l1] *)
  Lemma anyfit_at C (l1 : bins A) bn l2 : anyfit valueof C (l1 ++ bn :: l2) ->
    Forall (fun c => later_ok valueof C (fst c) bn) l1.
  Proof.
    induction l1 as [|a l1 IH]; cbn [app]; [intros _; constructor|].
    rewrite anyfit_cons. intros [H1 H2]. constructor; [|apply IH; exact H2].
    apply Forall_app in H1. destruct H1 as [_ H1]. apply Forall_cons_iff in H1. destruct H1 as [H1 _]. exact H1.
  Qed.

  Lemma bf2_into C x bn l2 : 0 <= valueof x -> wf_bin valueof bn -> forall l1 : bins A,
    Forall (fun c => fst c + valueof x <= C -> fst c <= fst bn) l1 ->
    Forall (fun c => later_ok valueof C (fst c) bn) l1 ->
    bf2 C (l1 ++ bn :: l2) -> bf2 C (l1 ++ add x bn :: l2).
  Proof.
    intros Hx Hw. induction l1 as [|a l1 IH]; intros Hbest Hany; cbn [app bf2].
    - intros [H1 H2]. split; [|exact H2].
      apply (later2_ok_grow C (fst bn)); [unfold add_to_bin; cbn [fst]; lia|exact H1].
    - apply Forall_cons_iff in Hbest. destruct Hbest as [Ha Hbest].
      apply Forall_cons_iff in Hany. destruct Hany as [Hb Hany].
      intros [H1 H2]. split; [|apply IH; assumption].
      apply Forall_app in H1. destruct H1 as [H1a H1b].
      apply Forall_cons_iff in H1b. destruct H1b as [Hbn Hl2].
      apply Forall_app. split; [exact H1a|]. constructor; [|exact Hl2].
      unfold later2_ok, later_ok, wf_bin in *. unfold add_to_bin. cbn [snd].
      destruct (snd bn) as [|z [|y r]]; cbn [app].
      + exact I.
      + cbn [map] in Hw. rewrite pk_zsum_cons, pk_zsum_nil in Hw.
        destruct (Z_lt_le_dec C (fst a + valueof x)) as [Hlt|Hle]; [left; exact Hlt|right].
        specialize (Ha Hle). lia.
      + exact Hbn.
  Qed.

  Lemma bf2_new C x : forall b : bins A, bf2 C b -> bf2 C (b ++ [add x empty_bin]).
  Proof.
    induction b as [|a t IH]; cbn [app bf2].
    - intros _. split; constructor.
    - intros [H1 H2]. split; [|apply IH; exact H2].
      apply Forall_app. split; [exact H1|]. constructor; [|constructor].
      unfold later2_ok, add_to_bin, empty_bin. cbn. exact I.
  Qed.

  Lemma bf_place_bf2 C x b : 0 <= valueof x -> wf valueof b -> nonneg_sums b -> anyfit valueof C b ->
    bf2 C b -> bf2 C (bf_place valueof true C x b).
  Proof.
    intros Hx Hw Hnn Ha H2.
    destruct (bf_place_cases C x b (nonneg_sums_pos b (valueof x) Hx Hnn))
      as [(l1 & bn & l2 & E1 & E2 & E3 & E4)|[E1 E2]]; rewrite E2.
    - subst b. apply bf2_into; auto.
      + unfold wf in Hw. apply Forall_app in Hw. destruct Hw as [_ Hw].
        apply Forall_cons_iff in Hw. destruct Hw as [Hw _]. exact Hw.
      + apply (anyfit_at C l1 bn l2). exact Ha.
    - apply bf2_new. exact H2.
  Qed.

  (** ---- 3. [hdesc] is kept by every any-fit step on a descending input ---- *)
  Lemma hd_dom_more (a : bin A) l l' x : hd_dom valueof a (snd a ++ l) ->
    Permutation l' (l ++ [x]) -> Forall (fun z => valueof x <= valueof z) (snd a) ->
    hd_dom valueof a (snd a ++ l').
  Proof.
    intros H P Hx. destruct (hd_dom_elim valueof _ _ H) as (x0 & l0 & Es & HF).
    apply (hd_dom_intro valueof _ x0 l0 _ Es). apply Forall_app in HF. destruct HF as [HF1 HF2].
    apply Forall_app. split; [exact HF1|]. eapply Permutation_Forall; [symmetry; exact P|].
    apply Forall_app. split; [exact HF2|]. constructor; [|constructor].
    rewrite Es in Hx. apply Forall_cons_iff in Hx. destruct Hx as [Hx _]. exact Hx.
  Qed.

  Lemma hdesc_cons_step C x (a : bin A) (t t' : bins A) : af_step valueof C x t t' ->
    Forall (fun z => valueof x <= valueof z) (snd a) ->
    hd_dom valueof a (contents (a :: t)) -> hd_dom valueof a (contents (a :: t')).
  Proof.
    intros Hs Hx H. rewrite contents_cons in *.
    apply (hd_dom_more a (contents t) (contents t') x H); [|exact Hx].
    apply (step_contents valueof C x t t' Hs).
  Qed.

  Lemma hdesc_into C x bn l2 : forall l1 : bins A, fst bn + valueof x <= C ->
    Forall (fun z => valueof x <= valueof z) (contents (l1 ++ bn :: l2)) ->
    hdesc valueof (l1 ++ bn :: l2) -> hdesc valueof (l1 ++ add x bn :: l2).
  Proof.
    induction l1 as [|a l1 IH]; intros Hfit Hx; cbn [app hdesc]; intros [H1 H2].
    - split; [|exact H2]. destruct (hd_dom_elim valueof _ _ H1) as (x0 & l0 & Es & HF).
      apply (hd_dom_intro valueof _ x0 (l0 ++ [x])); [unfold add_to_bin; cbn [snd]; rewrite Es; reflexivity|].
      rewrite contents_cons in *. unfold add_to_bin. cbn [snd]. rewrite <- app_assoc.
      apply Forall_app in HF. destruct HF as [HF1 HF2]. apply Forall_app. split; [exact HF1|].
      cbn [app]. constructor; [|exact HF2].
      apply Forall_app in Hx. destruct Hx as [Hx _]. rewrite Es in Hx.
      apply Forall_cons_iff in Hx. destruct Hx as [Hx _]. exact Hx.
    - cbn [app] in Hx. rewrite contents_cons in Hx. apply Forall_app in Hx. destruct Hx as [Hxa Hx].
      split; [|apply IH; assumption].
      apply (hdesc_cons_step C x a (l1 ++ bn :: l2)); [apply af_into; exact Hfit|exact Hxa|exact H1].
  Qed.

  Lemma hdesc_new C x : forall b : bins A, Forall (fun bn : bin A => C < fst bn + valueof x) b ->
    Forall (fun z => valueof x <= valueof z) (contents b) ->
    hdesc valueof b -> hdesc valueof (b ++ [add x empty_bin]).
  Proof.
    induction b as [|a t IH]; intros Hall Hx; cbn [app hdesc].
    - intros _. split; [|exact I]. apply (hd_dom_intro valueof _ x []); [reflexivity|].
      rewrite (contents_single valueof). constructor; [lia|constructor].
    - intros [H1 H2]. rewrite contents_cons in Hx. apply Forall_app in Hx. destruct Hx as [Hxa Hx].
      apply Forall_cons_iff in Hall. destruct Hall as [_ Hall].
      split; [|apply IH; assumption].
      apply (hdesc_cons_step C x a t); [apply af_new; exact Hall|exact Hxa|exact H1].
  Qed.

  Lemma step_hdesc C x (b b' : bins A) : af_step valueof C x b b' ->
    Forall (fun z => valueof x <= valueof z) (contents b) -> hdesc valueof b -> hdesc valueof b'.
  Proof.
    intros H Hx Hh. destruct H as [l1 bn l2 Hfit|b Hall].
    - apply (hdesc_into C); assumption.
    - apply (hdesc_new C); assumption.
  Qed.

  (** ---- 4. the loop ---- *)
  Notation desc_sorted := (StronglySorted (fun a c : A => valueof c <= valueof a)).

  Lemma bf_loop_struct C : forall items b acc b', desc_sorted items ->
    Forall (fun x => 0 <= valueof x) items ->
    Forall (fun z => Forall (fun x => valueof x <= valueof z) items) (contents b) ->
    Inv valueof C b acc -> bf2 C b -> hdesc valueof b ->
    bf_loop valueof true C items b = Ok b' ->
    Inv valueof C b' (acc ++ items) /\ bf2 C b' /\ hdesc valueof b'.
  Proof.
    induction items as [|x t IH]; intros b acc b' Hs Hnn Hd HI H2 Hh; cbn [bf_loop].
    - intros H. injection H as H. subst b'. rewrite app_nil_r. auto.
    - destruct (valueof x >? C) eqn:E; [intros H; discriminate H|]. intros H.
      inversion Hs as [|x' t' Hst Hxt]; subst.
      apply Forall_cons_iff in Hnn. destruct Hnn as [Hx Hnn].
      pose proof HI as (Hw & _ & _ & _ & Hsn & Ha).
      pose proof (bf_is_step valueof C x b Hx Hsn) as Hstep.
      assert (Hxz : Forall (fun z => valueof x <= valueof z) (contents b)).
      { eapply Forall_impl; [|exact Hd]. intros z Hz. cbv beta in Hz.
        apply Forall_cons_iff in Hz. destruct Hz as [Hz _]. exact Hz. }
      replace (acc ++ x :: t) with ((acc ++ [x]) ++ t) by (rewrite <- app_assoc; reflexivity).
      apply (IH (bf_place valueof true C x b)); [exact Hst|exact Hnn| | | | |exact H].
      + eapply Permutation_Forall; [symmetry; apply (step_contents valueof C x b _ Hstep)|].
        apply Forall_app. split.
        * eapply Forall_impl; [|exact Hd]. intros z Hz. cbv beta in Hz.
          apply Forall_cons_iff in Hz. destruct Hz as [_ Hz]. exact Hz.
        * constructor; [exact Hxt|constructor].
      + apply (step_Inv valueof C x b); [lia|exact Hstep|exact HI].
      + apply bf_place_bf2; assumption.
      + apply (step_hdesc C x b); assumption.
  Qed.

  Lemma bf_struct C items b : items <> [] -> desc_sorted items ->
    Forall (fun x => 0 <= valueof x) items -> best_fit valueof true C items = Ok b ->
    Inv valueof C b items /\ bf2 C b /\ hdesc valueof b.
  Proof.
    intros Hne Hs Hnn H. destruct items as [|x t]; [congruence|]. unfold best_fit in H. cbn [bf_loop] in H.
    destruct (valueof x >? C) eqn:E; [discriminate H|].
    apply Forall_cons_iff in Hnn. destruct Hnn as [Hx Hnn].
    assert (Hfirst : bf_place valueof true C x (new_bins 1) = [add x empty_bin]).
    { apply (af_step_first valueof C x); [lia|]. apply bf_is_step; [exact Hx|].
      unfold nonneg_sums, new_bins, empty_bin. cbn [repeat]. constructor; [cbn [fst]; lia|constructor]. }
    rewrite Hfirst in H. inversion Hs as [|x' t' Hst Hxt]; subst.
    change (x :: t) with ([x] ++ t).
    apply (bf_loop_struct C t [add x empty_bin] [x] b Hst Hnn); [| | | |exact H].
    - rewrite (contents_single valueof). constructor; [exact Hxt|constructor].
    - apply Inv_first. lia.
    - cbn [bf2]. split; constructor.
    - cbn [hdesc]. split; [|exact I]. apply (hd_dom_intro valueof _ x []); [reflexivity|].
      rewrite (contents_single valueof). constructor; [lia|constructor].
  Qed.

  (** ---- 5. counting: the first two items of each bin ---- *)
  Definition sel2 (b : bins A) : list A := flat_map (fun c : bin A => firstn 2 (snd c)) b.

  Lemma sel2_cons (c : bin A) b : sel2 (c :: b) = firstn 2 (snd c) ++ sel2 b.
  Proof. reflexivity. Qed.

  Definition small (C : Z) (y : A) : Prop := 0 <= valueof y /\ 2 * valueof y <= C.

  (** bins of small items: all but the last hold at least two items *)
  Lemma sel2_count C : forall b2 : bins A, wf valueof b2 -> anyfit valueof C b2 -> all_nonempty b2 ->
    Forall (small C) (contents b2) -> (2 * length b2 <= length (sel2 b2) + 1)%nat.
  Proof.
    induction b2 as [|bn t IH]; intros Hw Ha Hne Hsm; [cbn [length]; lia|].
    apply Forall_cons_iff in Hw. destruct Hw as [Hwb Hw].
    apply Forall_cons_iff in Hne. destruct Hne as [Hneb Hne].
    rewrite anyfit_cons in Ha. destruct Ha as [Ha1 Ha2].
    rewrite contents_cons in Hsm. apply Forall_app in Hsm. destruct Hsm as [Hsm1 Hsm2].
    specialize (IH Hw Ha2 Hne Hsm2). rewrite sel2_cons, app_length. cbn [length].
    destruct t as [|c t'].
    - destruct (snd bn) as [|z1 [|z2 r]]; [congruence| |]; cbn [firstn length]; lia.
    - apply Forall_cons_iff in Ha1. destruct Ha1 as [Hc _]. unfold later_ok in Hc.
      rewrite contents_cons in Hsm2. apply Forall_app in Hsm2. destruct Hsm2 as [Hsmc _].
      destruct (snd c) as [|y l]; [destruct Hc|].
      apply Forall_cons_iff in Hsmc. destruct Hsmc as [[Hy0 Hy1] _].
      unfold wf_bin in Hwb. destruct (snd bn) as [|z1 [|z2 r]].
      + congruence.
      + cbn [map] in Hwb. rewrite pk_zsum_cons, pk_zsum_nil in Hwb.
        apply Forall_cons_iff in Hsm1. destruct Hsm1 as [[_ Hz1] _]. lia.
      + cbn [firstn length] in *. lia.
  Qed.

  Lemma sel2_bin C s (c : bin A) : later_ok valueof C s c -> later2_ok C s c ->
    Forall (small C) (snd c) -> Forall (fun y => C < s + valueof y) (firstn 2 (snd c)).
  Proof.
    unfold later_ok, later2_ok. destruct (snd c) as [|x [|y l]]; intros H1 H2 Hsm; cbn [firstn].
    - constructor.
    - constructor; [exact H1|constructor].
    - apply Forall_cons_iff in Hsm. destruct Hsm as [[_ Hx] _].
      constructor; [exact H1|]. constructor; [lia|constructor].
  Qed.

  Lemma sel2_bins C s : forall b2 : bins A, Forall (later_ok valueof C s) b2 -> Forall (later2_ok C s) b2 ->
    Forall (small C) (contents b2) -> Forall (fun y => C < s + valueof y) (sel2 b2).
  Proof.
    induction b2 as [|c t IH]; intros H1 H2 Hsm; [constructor|].
    apply Forall_cons_iff in H1. destruct H1 as [H1c H1]. apply Forall_cons_iff in H2. destruct H2 as [H2c H2].
    rewrite contents_cons in Hsm. apply Forall_app in Hsm. destruct Hsm as [Hsmc Hsm].
    rewrite sel2_cons. apply Forall_app. split; [apply sel2_bin; assumption|apply IH; assumption].
  Qed.

  Lemma sel2_nofit C (b2 : bins A) : Forall (small C) (contents b2) -> forall b1 : bins A,
    anyfit valueof C (b1 ++ b2) -> bf2 C (b1 ++ b2) ->
    Forall (fun c => Forall (fun y => C < fst c + valueof y) (sel2 b2)) b1.
  Proof.
    intros Hsm. induction b1 as [|a b1 IH]; cbn [app]; [intros _ _; constructor|].
    rewrite anyfit_cons. cbn [bf2]. intros [Ha1 Ha2] [Hb1 Hb2].
    constructor; [|apply IH; assumption].
    apply Forall_app in Ha1. destruct Ha1 as [_ Ha1]. apply Forall_app in Hb1. destruct Hb1 as [_ Hb1].
    apply sel2_bins; assumption.
  Qed.

  Lemma firstn_volume n : forall l : list A, Forall (fun y => 0 <= valueof y) l ->
    zsum (map valueof (firstn n l)) <= zsum (map valueof l).
  Proof.
    intros l Hnn. rewrite <- (firstn_skipn n l) at 2. rewrite map_app, zsum_app.
    assert (0 <= zsum (map valueof (skipn n l))).
    { apply zsum_nonneg. rewrite Forall_map. rewrite <- (firstn_skipn n l) in Hnn.
      apply Forall_app in Hnn. destruct Hnn as [_ Hnn]. exact Hnn. }
    lia.
  Qed.

  Lemma sel2_volume : forall b : bins A, Forall (fun y => 0 <= valueof y) (contents b) ->
    zsum (map valueof (sel2 b)) <= zsum (map valueof (contents b)).
  Proof.
    induction b as [|c t IH]; intros Hnn; [cbn; lia|].
    rewrite contents_cons in *. apply Forall_app in Hnn. destruct Hnn as [Hc Hnn].
    rewrite sel2_cons, !map_app, !zsum_app.
    pose proof (firstn_volume 2 (snd c) Hc). specialize (IH Hnn). lia.
  Qed.

  Lemma sel2_nonneg (b : bins A) : Forall (fun y => 0 <= valueof y) (contents b) ->
    Forall (fun y => 0 <= valueof y) (sel2 b).
  Proof.
    induction b as [|c t IH]; intros Hnn; [constructor|].
    rewrite contents_cons in Hnn. apply Forall_app in Hnn. destruct Hnn as [Hc Hnn].
    rewrite sel2_cons. apply Forall_app. split; [|apply IH; exact Hnn].
    rewrite <- (firstn_skipn 2 (snd c)) in Hc. apply Forall_app in Hc. destruct Hc as [Hc _]. exact Hc.
  Qed.

  Lemma anyfit_app_r C (b1 b2 : bins A) : anyfit valueof C (b1 ++ b2) -> anyfit valueof C b2.
  Proof.
    induction b1 as [|a b1 IH]; cbn [app]; [auto|]. rewrite anyfit_cons. intros [_ H]. apply IH. exact H.
  Qed.

  (** ---- 6. the bound at a split position ---- *)
  Lemma bf_split_bound C (b1 b2 : bins A) items n :
    0 <= C -> b2 <> [] -> (length b1 <= 2 * length b2 - 1)%nat ->
    wf valueof (b1 ++ b2) -> Forall (fun y => 0 <= valueof y) (contents (b1 ++ b2)) ->
    anyfit valueof C (b1 ++ b2) -> bf2 C (b1 ++ b2) -> hdesc valueof (b1 ++ b2) ->
    Permutation (contents (b1 ++ b2)) items ->
    Packable C (map valueof items) n -> (length b1 + 1 <= n)%nat.
  Proof.
    intros HC Hb2 Hlen Hw Hnn Ha H2 Hh Hp Hpack.
    unfold wf in Hw. apply Forall_app in Hw. destruct Hw as [Hw1 Hw2].
    rewrite contents_app in Hnn, Hp. apply Forall_app in Hnn. destruct Hnn as [Hnn1 Hnn2].
    destruct (hdesc_app valueof b1 b2 Hh) as [Hh1 Hh2].
    assert (Hitems_nn : Forall (fun v => 0 <= v) (map valueof items)).
    { rewrite Forall_map. eapply Permutation_Forall; [exact Hp|]. apply Forall_app. split; assumption. }
    destruct b2 as [|bn t2]; [congruence|]. clear Hb2.
    pose proof Hh2 as Hh2'. cbn [hdesc] in Hh2'. destruct Hh2' as [Hd _].
    destruct (hd_dom_elim valueof _ _ Hd) as (x & l & Ex & Hdom).
    assert (Hxin : In x (contents (bn :: t2))).
    { rewrite contents_cons, Ex. left. reflexivity. }
    destruct (Z_lt_le_dec C (2 * valueof x)) as [Hbig|Hsmall].
    - pose proof (packable_big C (map valueof items) n HC Hitems_nn Hpack) as Hcnt.
      assert (E : zsum (map (bigw C) (map valueof items)) = bigcount valueof C (contents b1 ++ contents (bn :: t2))).
      { unfold bigcount. apply zsum_perm. apply Permutation_map, Permutation_map. symmetry. exact Hp. }
      rewrite E, bigcount_app in Hcnt.
      assert (H1 : Z.of_nat (length b1) <= bigcount valueof C (contents b1)).
      { apply (big_heads_count valueof C (valueof x) Hbig). eapply Forall_impl; [|exact Hh1].
        intros c Hc. cbv beta in Hc. destruct (hd_dom_elim valueof _ _ Hc) as (x0 & l0 & Es & HF).
        exists x0, l0. split; [exact Es|]. rewrite Forall_forall in HF. apply HF. exact Hxin. }
      assert (H3 : 1 <= bigcount valueof C (contents (bn :: t2))).
      { rewrite contents_cons, Ex. cbn [app]. apply bigcount_head. exact Hbig. }
      lia.
    - assert (Hsm : Forall (small C) (contents (bn :: t2))).
      { unfold small. rewrite Forall_forall in *. intros y Hy. specialize (Hdom y Hy). specialize (Hnn2 y Hy). lia. }
      pose proof (sel2_count C (bn :: t2) Hw2 (anyfit_app_r C b1 _ Ha) (hdesc_nonempty valueof _ Hh2) Hsm) as Hcount.
      pose proof (pair_volume valueof C b1 (sel2 (bn :: t2)) ltac:(lia)
                    (sel2_nofit C _ Hsm b1 Ha H2) (sel2_nonneg _ Hnn2)) as Hvol.
      pose proof (sel2_volume _ Hnn2) as Hsel.
      pose proof (packable_total C (map valueof items) n Hpack) as Htot.
      assert (E : zsum (map valueof items) = zsum (sums b1) + zsum (map valueof (contents (bn :: t2)))).
      { rewrite <- (zsum_perm _ _ (Permutation_map valueof Hp)), map_app, zsum_app.
        rewrite (wf_total valueof b1 Hw1). reflexivity. }
      rewrite E in Htot.
      destruct (Nat.eq_dec (length b1) 0) as [Hz|Hpos].
      + destruct n as [|n]; [|lia]. apply packable_zero in Hpack. apply map_eq_nil in Hpack. subst items.
        apply Permutation_sym, Permutation_nil, app_eq_nil in Hp. destruct Hp as [_ Hp].
        rewrite Hp in Hxin. destruct Hxin.
      + assert (Z.of_nat (length b1) < Z.of_nat n) by nia. lia.
  Qed.

  (** ---- 7. any bins-array with the four invariants ---- *)
  Theorem bf_struct_ratio_32 C (b : bins A) items n :
    0 <= C -> b <> [] -> wf valueof b -> Forall (fun y => 0 <= valueof y) (contents b) ->
    anyfit valueof C b -> bf2 C b -> hdesc valueof b -> Permutation (contents b) items ->
    Packable C (map valueof items) n -> (2 * length b <= 3 * n)%nat.
  Proof.
    intros HC Hne Hw Hnn Ha H2 Hh Hp Hpack.
    set (m := length b). assert (Hm : (1 <= m)%nat) by (subst m; destruct b; [congruence|cbn [length]; lia]).
    set (p := ((2 * m - 1) / 3)%nat).
    pose proof (Nat.div_mod (2 * m - 1) 3 ltac:(lia)) as Dm.
    pose proof (Nat.mod_upper_bound (2 * m - 1) 3 ltac:(lia)) as Mb. fold p in Dm.
    assert (Hpm : (p <= m)%nat) by lia.
    pose proof (firstn_skipn p b) as Eb.
    assert (L1 : length (firstn p b) = p) by (apply firstn_length_le; exact Hpm).
    assert (L2 : length (skipn p b) = (m - p)%nat) by apply skipn_length.
    assert (Hb2 : skipn p b <> []).
    { intros E. rewrite E in L2. cbn [length] in L2. lia. }
    rewrite <- Eb in Hw, Hnn, Ha, H2, Hh, Hp.
    pose proof (bf_split_bound C (firstn p b) (skipn p b) items n HC Hb2 ltac:(lia) Hw Hnn Ha H2 Hh Hp Hpack) as H.
    lia.
  Qed.

  (** ---- 8. best-fit-decreasing ---- *)
  Lemma bfd_structure C items b : items <> [] -> Forall (fun x => 0 <= valueof x) items ->
    best_fit_decreasing valueof true C items = Ok b ->
    b <> [] /\ wf valueof b /\ Forall (fun y => 0 <= valueof y) (contents b) /\
    anyfit valueof C b /\ bf2 C b /\ hdesc valueof b /\ Permutation (contents b) items.
  Proof.
    intros Hne Hnn H. unfold best_fit_decreasing in H.
    destruct (bf_struct C (sort_desc valueof items) b (sort_desc_nonnil valueof items Hne)
                (sort_desc_sorted valueof items) (sort_desc_nonneg valueof items Hnn) H)
      as ((Hw & _ & Hp & _ & _ & Ha) & H2 & Hh).
    assert (Hp' : Permutation (contents b) items) by (rewrite Hp; apply sort_desc_perm).
    split; [|split; [exact Hw|split; [|split; [exact Ha|split; [exact H2|split; [exact Hh|exact Hp']]]]]].
    - intros E. subst b. apply Permutation_nil in Hp'. congruence.
    - eapply Permutation_Forall; [symmetry; exact Hp'|exact Hnn].
  Qed.

  Lemma bfd_cap_nonneg C items b : items <> [] -> Forall (fun x => 0 <= valueof x) items ->
    best_fit_decreasing valueof true C items = Ok b -> 0 <= C.
  Proof.
    intros Hne Hnn H. destruct items as [|x t]; [congruence|].
    destruct (Z_lt_le_dec C (valueof x)) as [Hlt|Hle].
    - assert (Hex : exists e, best_fit_decreasing valueof true C (x :: t) = Err e).
      { apply bfd_error_iff. apply Exists_cons_hd. exact Hlt. }
      destruct Hex as [e He]. rewrite He in H. discriminate H.
    - apply Forall_cons_iff in Hnn. destruct Hnn as [Hx _]. lia.
  Qed.

  (** BFD <= 3/2 OPT *)
  Theorem bfd_ratio_32 C items b n :
    items <> [] -> Forall (fun x => 0 <= valueof x) items ->
    best_fit_decreasing valueof true C items = Ok b ->
    Packable C (map valueof items) n -> (2 * length b <= 3 * n)%nat.
  Proof.
    intros Hne Hnn H Hpack.
    destruct (bfd_structure C items b Hne Hnn H) as (Hb & Hw & Hnn' & Ha & H2 & Hh & Hp).
    apply (bf_struct_ratio_32 C b items n); auto. apply (bfd_cap_nonneg C items b); assumption.
  Qed.

  Corollary bfd_ratio_32_opt C items b n :
    items <> [] -> Forall (fun x => 0 <= valueof x) items ->
    best_fit_decreasing valueof true C items = Ok b ->
    MinBins C (map valueof items) n -> (2 * length b <= 3 * n)%nat.
  Proof. intros Hne Hnn H [Hpack _]. apply (bfd_ratio_32 C items b n); assumption. Qed.

  (** the sums-only binner makes the same decisions *)
  Corollary bfd_ratio_32_sums C items b n :
    items <> [] -> Forall (fun x => 0 <= valueof x) items ->
    best_fit_decreasing valueof false C items = Ok b ->
    Packable C (map valueof items) n -> (2 * length b <= 3 * n)%nat.
  Proof.
    intros Hne Hnn H Hpack. rewrite <- bfd_erase in H.
    destruct (best_fit_decreasing valueof true C items) as [b1|e] eqn:E; [|discriminate H].
    cbn [rmap] in H. injection H as H. subst b. rewrite erase_length.
    apply (bfd_ratio_32 C items b1 n); assumption.
  Qed.
End BFDStructure.

(** ---- 9. examples ---- *)

(** [sfit] (the invariant of the first-fit proof) fails for best-fit-decreasing: 15 fits bin 0 *)
Example bfd_not_sfit :
  best_fit_decreasing idZ true 100 [80; 30; 30; 25; 15] = Ok [(80, [80]); (100, [30; 30; 25; 15])].
Proof. vm_compute. reflexivity. Qed.

Example bfd_not_sfit' b : best_fit_decreasing idZ true 100 [80; 30; 30; 25; 15] = Ok b -> ~ sfit idZ 100 b.
Proof.
  rewrite bfd_not_sfit. intros H. injection H as H. subst b. cbn [sfit]. intros [H _].
  cbn in H. repeat (apply Forall_cons_iff in H; destruct H as [? H]). lia.
Qed.

(** the bound 3/2 is attained: BFD uses 3 bins, 2 suffice *)
Example bfd_32_tight :
  rmap (@length (bin Z)) (best_fit_decreasing idZ true 10 [4; 4; 3; 3; 3; 3]) = Ok 3%nat /\
  min_bins 10 [4; 4; 3; 3; 3; 3] = 2%nat.
Proof. vm_compute. split; reflexivity. Qed.

Example bfd_32_tight_thm b :
  best_fit_decreasing idZ true 10 [4; 4; 3; 3; 3; 3] = Ok b -> (2 * length b <= 3 * 2)%nat.
Proof.
  intros H. apply (bfd_ratio_32_opt idZ 10 [4; 4; 3; 3; 3; 3] b 2); [discriminate| |exact H|].
  - repeat constructor; lia.
  - assert (HF : Forall (fun v => 0 <= v <= 10) [4; 4; 3; 3; 3; 3]) by (repeat constructor; lia).
    pose proof (min_bins_spec_strong 10 [4; 4; 3; 3; 3; 3] HF) as M. rewrite map_id. exact M.
Qed.

(** boolean versions of the two new invariants, checked on the outputs of a pseudo-random family,
    together with the bound against the exact optimum *)
Definition l2ok (C s : Z) (c : bin Z) : bool :=
  match snd c with x :: y :: _ => (C <? s + y) || (C <? 2 * x) | _ => true end.
Fixpoint bf2b (C : Z) (b : bins Z) : bool :=
  match b with [] => true | bn :: t => forallb (l2ok C (fst bn)) t && bf2b C t end.
Definition bfd_32_check (C : Z) (vs : list Z) : bool :=
  match best_fit_decreasing idZ true C vs with
  | Ok b => bf2b C b && (1 <=? length b)%nat && (2 * length b <=? 3 * min_bins C vs)%nat
  | Err _ => false
  end.

Example bfd_32_random :
  forallb (fun s => bfd_32_check (fst (ffd_32_instance s)) (snd (ffd_32_instance s))) (map Z.of_nat (seq 1 80)) = true.
Proof. vm_compute. reflexivity. Qed.

Example bfd_32_johnson :
  bfd_32_check 100 (repeat 51 2 ++ repeat 27 2 ++ repeat 26 2 ++ repeat 23 4) = true.
Proof. vm_compute. reflexivity. Qed.

Check bf_scan_opt.
Check bf_place_cases.
Check bf_place_bf2.
Check step_hdesc.
Check bf_struct.
Check bf_struct_ratio_32.
Check bfd_ratio_32.
Check bfd_ratio_32_opt.
Check bfd_ratio_32_sums.

Print Assumptions bfd_ratio_32.
Print Assumptions bfd_ratio_32_opt.
Print Assumptions bfd_ratio_32_sums.
Print Assumptions bfd_32_tight_thm.
Print Assumptions bfd_not_sfit'.
