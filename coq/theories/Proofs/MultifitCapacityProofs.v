(** Capacity lemma for MultiFit below 5/4: the ratio 11/9 = 1.2222...
    (published constants: 1.22 Coffman-Garey-Johnson 1978, 6/5 Friesen 1984, 13/11 Yue 1990).

    PROVED here (values >= 0, k >= 1, T = largest sum of ANY partition of the values into k bins,
    c an integer capacity):
      ffd_capacity_119 : 11 T <= 9 c -> first-fit-decreasing with capacity c does not fail and
                         uses at most k bins
      multifit_ratio_119_exact : L <= (11 OPT + 8)/9 + OPT/2^it + OPT/2^51   (multiplied out)
      multifit_ratio_119       : 9 * 2^it * L <= (11 * 2^it + 9) * OPT + 44 * 2^it
                                 i.e.  L <= (11/9 + 2^-it) OPT + 44/9         (total <= 2^53)
      multifit_ratio_119_small : ... + 17/9                                   (total <= 2^51)
    by instantiating [MultifitRatioProofs.multifit_ratio_gen] (float model of the binary search).
    11/9 - 61/50 = 1/450: the published constant 1.22 is NOT reached (OPEN, see the end).

    Proof of the capacity lemma ([ffd_peel_119], induction on k).  Let d = c - T, x the value that
    opens bin k+1 (so x > d by volume, [overflow_big]), cut the descending list after x and let a
    be its largest value.
    - a + 2x > T: the bin of a in the packing holds at most one more value, the first bin of
      first-fit dominates it ([first_bin_dom_small]) and is peeled off with the exchange lemma
      [BCOptimalProofs.dom_exchange], as in the proof of 5/4.
    - otherwise every value lies in [x, T - 2x].  Weights, scale 12 ([w119]):
           6 above d + x,  5 in [c/3, d + x],  4 in ((c - x)/3, c/3),  3 in [x, (c - x)/3].
      A set that fits into T weighs <= 12 ([light119]; this is where 9 d >= 2 T is used, through
      5 x > 2 T - 4 d).  A bin of first-fit (closed for x: level > c - x) weighs >= 12, except
      three values of classes {5,3,3}, {4,4,3} (11) or {4,3,3} (10) ([bin119_cases]); by the
      invariant [FFD119Proofs.sfit2] every value of every later bin is then at most the smallest
      of the three, hence of class 3, and a closed bin of class-3 values holds at least four of
      them ([bin119_small], [heavy119_small]).  So the k bins weigh >= 12 k - 2 ([heavy119]),
      x weighs 3, the packing <= 12 k: contradiction.
    The weights were found by integer programming over all bin patterns on grids and checked
    with an SMT solver over the reals before formalising (/root/scratch/mf122: milp.py, enum3.py,
    chk.py, z3D2.py); the lemma itself was tested on 400000 random instances (test119.py).

    Hypotheses: those of [multifit_ratio_54] (items <> [], values >= 0, k >= 1, total <= 2^53). *)
From Prtpy Require Import Base.Prelude Model.Binner Model.Packing Model.Multifit Spec.Partition
  Model.Objectives Proofs.BaseLemmas Proofs.BinnerLemmas Proofs.PackingProofs Proofs.RatioProofs
  Proofs.MultifitProofs Proofs.CoveringProofs Proofs.BCOptimalProofs Proofs.FFDRatioProofs
  Proofs.FFD119Proofs Proofs.MultifitRatioProofs.
From Coq Require Import ZifyBool Sorting.Sorted.
Open Scope Z_scope.

Local Notation idZ := (fun v : Z => v).

(** ---- 1. the weights (scale 12), for a packing capacity T, a first-fit capacity C and the
        smallest value x:  6 above C - T + x, 5 in [C/3, C - T + x], 4 in ((C - x)/3, C/3),
        3 in [x, (C - x)/3], 0 below x ---- *)
Definition w119 (T C x a : Z) : Z :=
  if a <? x then 0
  else if C - T + x <? a then 6
  else if C <=? 3 * a then 5
  else if C - x <? 3 * a then 4
  else 3.

Lemma w119_spec T C x a :
  (a < x /\ w119 T C x a = 0) \/
  (x <= a /\ C - T + x < a /\ w119 T C x a = 6) \/
  (x <= a /\ a <= C - T + x /\ C <= 3 * a /\ w119 T C x a = 5) \/
  (x <= a /\ a <= C - T + x /\ 3 * a < C /\ C - x < 3 * a /\ w119 T C x a = 4) \/
  (x <= a /\ a <= C - T + x /\ 3 * a < C /\ 3 * a <= C - x /\ w119 T C x a = 3).
Proof.
  unfold w119. destruct (a <? x) eqn:E0; [left; lia|].
  destruct (C - T + x <? a) eqn:E1; [right; left; lia|].
  destruct (C <=? 3 * a) eqn:E2; [right; right; left; lia|].
  destruct (C - x <? 3 * a) eqn:E3; [right; right; right; left; lia|].
  right; right; right; right; lia.
Qed.

Notation ws119 T C x := (gws (w119 T C x)).

Lemma w119_nonneg T C x a : 0 <= w119 T C x a.
Proof. pose proof (w119_spec T C x a). lia. Qed.

Lemma w119_small T C x a : a < x -> w119 T C x a = 0.
Proof. intros H. pose proof (w119_spec T C x a). lia. Qed.

Lemma w119_ge3 T C x a : x <= a -> 3 <= w119 T C x a.
Proof. intros H. pose proof (w119_spec T C x a). lia. Qed.

(** a set that fits into capacity T weighs at most 12 *)
Lemma light119 T C x g : 0 <= T -> 11 * T <= 9 * C -> C - T < x ->
  Forall (fun a => 0 <= a) g -> zsum g <= T -> ws119 T C x g <= 12.
Proof.
  intros HT Hr Hx Hnn HS. rewrite <- (gws_sel (w119 T C x) x g (w119_small T C x)).
  pose proof (zsum_sel_le x g Hnn) as Hle. pose proof (sel_ge x g) as Hge.
  destruct (sel x g) as [|a [|c [|e [|f [|h r]]]]].
  - rewrite gws_nil. lia.
  - rewrite gws_cons, gws_nil. pose proof (w119_spec T C x a). lia.
  - rewrite !gws_cons, gws_nil. rewrite !pk_zsum_cons, pk_zsum_nil in Hle.
    apply Forall_cons_iff in Hge. destruct Hge as [Ha Hge].
    apply Forall_cons_iff in Hge. destruct Hge as [Hc _].
    pose proof (w119_spec T C x a). pose proof (w119_spec T C x c). lia.
  - rewrite !gws_cons, gws_nil. rewrite !pk_zsum_cons, pk_zsum_nil in Hle.
    apply Forall_cons_iff in Hge. destruct Hge as [Ha Hge].
    apply Forall_cons_iff in Hge. destruct Hge as [Hc Hge].
    apply Forall_cons_iff in Hge. destruct Hge as [He _].
    pose proof (w119_spec T C x a). pose proof (w119_spec T C x c). pose proof (w119_spec T C x e). lia.
  - rewrite !gws_cons, gws_nil. rewrite !pk_zsum_cons, pk_zsum_nil in Hle.
    apply Forall_cons_iff in Hge. destruct Hge as [Ha Hge].
    apply Forall_cons_iff in Hge. destruct Hge as [Hc Hge].
    apply Forall_cons_iff in Hge. destruct Hge as [He Hge].
    apply Forall_cons_iff in Hge. destruct Hge as [Hf _].
    pose proof (w119_spec T C x a). pose proof (w119_spec T C x c).
    pose proof (w119_spec T C x e). pose proof (w119_spec T C x f). lia.
  - exfalso. rewrite !pk_zsum_cons in Hle.
    apply Forall_cons_iff in Hge. destruct Hge as [Ha Hge].
    apply Forall_cons_iff in Hge. destruct Hge as [Hc Hge].
    apply Forall_cons_iff in Hge. destruct Hge as [He Hge].
    apply Forall_cons_iff in Hge. destruct Hge as [Hf Hge].
    apply Forall_cons_iff in Hge. destruct Hge as [Hh Hge].
    assert (0 <= zsum r).
    { apply zsum_nonneg. eapply Forall_impl; [|exact Hge]. intros z Hz. cbv beta in Hz. lia. }
    lia.
Qed.

(** a set of values in [x, T - 2x] that x does not fit with (capacity C) weighs at least 12,
    except for three values weighing 10 or 11, and then a value above the smallest of them
    fits in beside the values that are at least as large *)
Lemma bin119_cases T C x l : 0 <= T -> 11 * T <= 9 * C -> C - T < x -> x <= C ->
  Forall (fun a => x <= a <= T - 2 * x) l -> C < zsum l + x ->
  12 <= ws119 T C x l \/
  (10 <= ws119 T C x l /\ forall y, x <= y <= T - 2 * x -> C < zsum (sel y l) + y -> 3 * y <= C - x).
Proof.
  intros HT Hr Hx HxC Hge Hcl. destruct l as [|a [|c [|e [|f r]]]].
  - rewrite pk_zsum_nil in Hcl. lia.
  - rewrite pk_zsum_cons, pk_zsum_nil in Hcl.
    apply Forall_cons_iff in Hge. destruct Hge as [Ha _]. lia.
  - left. rewrite !pk_zsum_cons, pk_zsum_nil in Hcl. rewrite !gws_cons, gws_nil.
    apply Forall_cons_iff in Hge. destruct Hge as [Ha Hge].
    apply Forall_cons_iff in Hge. destruct Hge as [Hc _].
    pose proof (w119_spec T C x a). pose proof (w119_spec T C x c). lia.
  - rewrite !pk_zsum_cons, pk_zsum_nil in Hcl. rewrite !gws_cons, gws_nil.
    apply Forall_cons_iff in Hge. destruct Hge as [Ha Hge].
    apply Forall_cons_iff in Hge. destruct Hge as [Hc Hge].
    apply Forall_cons_iff in Hge. destruct Hge as [He _].
    pose proof (w119_spec T C x a) as Sa. pose proof (w119_spec T C x c) as Sc.
    pose proof (w119_spec T C x e) as Se.
    destruct (Z_le_dec 12 (w119 T C x a + (w119 T C x c + (w119 T C x e + 0)))) as [H12|H12];
      [left; exact H12|].
    right. split; [lia|]. intros y Hy.
    rewrite !sel_cons, sel_nil.
    destruct (y <=? a) eqn:Ea; destruct (y <=? c) eqn:Ec; destruct (y <=? e) eqn:Ee;
      rewrite ?pk_zsum_cons, ?pk_zsum_nil; intros Hfit; lia.
  - left. rewrite !gws_cons.
    apply Forall_cons_iff in Hge. destruct Hge as [Ha Hge].
    apply Forall_cons_iff in Hge. destruct Hge as [Hc Hge].
    apply Forall_cons_iff in Hge. destruct Hge as [He Hge].
    apply Forall_cons_iff in Hge. destruct Hge as [Hf _].
    pose proof (gws_nonneg (w119 T C x) r (w119_nonneg T C x)).
    pose proof (w119_ge3 T C x a ltac:(lia)). pose proof (w119_ge3 T C x c ltac:(lia)).
    pose proof (w119_ge3 T C x e ltac:(lia)). pose proof (w119_ge3 T C x f ltac:(lia)). lia.
Qed.

(** ... and when all values are at most (C - x)/3 there is no exception *)
Lemma bin119_small T C x l :
  Forall (fun a => x <= a /\ 3 * a <= C - x) l -> x <= C -> C < zsum l + x -> 12 <= ws119 T C x l.
Proof.
  intros Hge HxC Hcl. destruct l as [|a [|c [|e [|f r]]]].
  - rewrite pk_zsum_nil in Hcl. lia.
  - rewrite pk_zsum_cons, pk_zsum_nil in Hcl.
    apply Forall_cons_iff in Hge. destruct Hge as [Ha _]. lia.
  - rewrite !pk_zsum_cons, pk_zsum_nil in Hcl.
    apply Forall_cons_iff in Hge. destruct Hge as [Ha Hge].
    apply Forall_cons_iff in Hge. destruct Hge as [Hc _]. lia.
  - rewrite !pk_zsum_cons, pk_zsum_nil in Hcl.
    apply Forall_cons_iff in Hge. destruct Hge as [Ha Hge].
    apply Forall_cons_iff in Hge. destruct Hge as [Hc Hge].
    apply Forall_cons_iff in Hge. destruct Hge as [He _]. lia.
  - rewrite !gws_cons.
    apply Forall_cons_iff in Hge. destruct Hge as [Ha Hge].
    apply Forall_cons_iff in Hge. destruct Hge as [Hc Hge].
    apply Forall_cons_iff in Hge. destruct Hge as [He Hge].
    apply Forall_cons_iff in Hge. destruct Hge as [Hf _].
    pose proof (gws_nonneg (w119 T C x) r (w119_nonneg T C x)).
    pose proof (w119_ge3 T C x a ltac:(lia)). pose proof (w119_ge3 T C x c ltac:(lia)).
    pose proof (w119_ge3 T C x e ltac:(lia)). pose proof (w119_ge3 T C x f ltac:(lia)). lia.
Qed.

(** ---- 2. the bins of first-fit on a descending list are heavy: at most one of them weighs
        less than 12 (10 or 11); after such a bin every value is at most (C - x)/3 ---- *)
Section Heavy119.
  Context {A : Type} (valueof : A -> Z).
  Notation vals bn := (map valueof (snd bn)).
  Notation cw T C x b := (ws119 T C x (map valueof (contents b))).

  Lemma cw119_cons T C x bn (t : bins A) :
    cw T C x (bn :: t) = ws119 T C x (sel x (vals bn)) + cw T C x t.
  Proof.
    rewrite contents_cons, map_app, gws_app.
    rewrite (gws_sel (w119 T C x) x _ (w119_small T C x)). reflexivity.
  Qed.

  Lemma heavy119_small T C x : x <= C -> forall t : bins A, closed valueof C x t ->
    Forall (fun y => 3 * valueof y <= C - x) (contents t) ->
    12 * Z.of_nat (length t) <= cw T C x t.
  Proof.
    intros HxC. induction t as [|bn t IH]; intros Hcl Hsm.
    - cbn [length Z.of_nat]. unfold contents, lists. cbn [map concat]. rewrite gws_nil. lia.
    - unfold closed in Hcl. apply Forall_cons_iff in Hcl. destruct Hcl as [Hc Hcl].
      rewrite contents_cons in Hsm. apply Forall_app in Hsm. destruct Hsm as [Hsm1 Hsm2].
      specialize (IH Hcl Hsm2). rewrite cw119_cons. cbn [length]. rewrite Nat2Z.inj_succ.
      assert (H12 : 12 <= ws119 T C x (sel x (vals bn))).
      { apply bin119_small; [|exact HxC|exact Hc].
        apply Forall_forall. intros a Ha. split.
        - pose proof (sel_ge x (vals bn)) as Hg. rewrite Forall_forall in Hg. apply Hg. exact Ha.
        - assert (Hs : Forall (fun a => 3 * a <= C - x) (sel x (vals bn))).
          { apply sel_incl. rewrite Forall_map. exact Hsm1. }
          rewrite Forall_forall in Hs. apply Hs. exact Ha. }
      lia.
  Qed.

  Lemma heavy119 T C x : 0 <= T -> 11 * T <= 9 * C -> C - T < x -> x <= C ->
    forall t : bins A, closed valueof C x t -> sfit2 valueof C t ->
    Forall (fun y => x <= valueof y <= T - 2 * x) (contents t) ->
    12 * Z.of_nat (length t) <= cw T C x t + 2.
  Proof.
    intros HT Hr Hx HxC. induction t as [|bn t IH]; intros Hcl Hsf Hrg.
    - cbn [length Z.of_nat]. unfold contents, lists. cbn [map concat]. rewrite gws_nil. lia.
    - pose proof Hcl as Hcl0. unfold closed in Hcl. apply Forall_cons_iff in Hcl. destruct Hcl as [Hc Hcl].
      cbn [sfit2] in Hsf. destruct Hsf as [Hs1 Hsf].
      rewrite contents_cons in Hrg. apply Forall_app in Hrg. destruct Hrg as [Hrg1 Hrg2].
      rewrite cw119_cons. cbn [length]. rewrite Nat2Z.inj_succ.
      assert (Hin : Forall (fun a => x <= a <= T - 2 * x) (sel x (vals bn))).
      { apply sel_incl. rewrite Forall_map. exact Hrg1. }
      destruct (bin119_cases T C x (sel x (vals bn)) HT Hr Hx HxC Hin Hc) as [H12|(H10 & HM)].
      + specialize (IH Hcl Hsf Hrg2). lia.
      + assert (Hsm : Forall (fun y => 3 * valueof y <= C - x) (contents t)).
        { rewrite Forall_forall in *. intros y Hy. specialize (Hs1 y Hy). cbv beta in Hs1.
          specialize (Hrg2 y Hy). cbv beta in Hrg2.
          apply (HM (valueof y) Hrg2). rewrite sel_sel; [exact Hs1|lia]. }
        pose proof (heavy119_small T C x HxC t Hcl Hsm). lia.
  Qed.
End Heavy119.

(** ---- 3. the state of first-fit (started on no bins) when bin k+1 is opened ---- *)
Lemma ff_loop_nil_inv C l1 b1 : l1 <> [] -> Forall (fun v => 0 <= v) l1 -> desc l1 ->
  ff_loop idZ true C l1 [] = Ok b1 ->
  wf idZ b1 /\ Permutation (contents b1) l1 /\ sfit2 idZ C b1.
Proof.
  intros Hne Hnn Hs H. rewrite <- (ff_loop_start C l1 Hne) in H.
  destruct (ff_Inv idZ C l1 b1 Hne Hnn H) as (Hw & _ & Hp & _).
  split; [exact Hw|]. split; [exact Hp|].
  apply (ff_loop_sfit2 idZ C l1 (new_bins 1) b1); [exact Hs|exact Hnn| | | |exact H].
  - rewrite new_bins_contents. constructor.
  - apply new_bins_wf.
  - unfold new_bins. cbn [repeat sfit2]. split; [apply Forall_nil|exact I].
Qed.

Lemma closed_of_full C x (b1 : bins Z) : wf idZ b1 -> Forall (fun v => x <= v) (contents b1) ->
  Forall (fun c => C < fst c + x) b1 -> closed idZ C x b1.
Proof.
  unfold closed, wf. induction b1 as [|bn t IH]; intros Hw Hge Hf; [constructor|].
  apply Forall_cons_iff in Hw. destruct Hw as [Hw1 Hw2].
  apply Forall_cons_iff in Hf. destruct Hf as [Hf1 Hf2].
  rewrite contents_cons in Hge. apply Forall_app in Hge. destruct Hge as [Hg1 Hg2].
  constructor; [|apply IH; assumption].
  unfold wf_bin in Hw1. rewrite sel_all; [lia|]. rewrite Forall_map. exact Hg1.
Qed.

Lemma desc_head_max a l : desc (a :: l) -> Forall (fun v => v <= a) l.
Proof. intros H. inversion H as [|a' l' _ Ha]; subst. exact Ha. Qed.

(** the first bin of first-fit dominates the rest of the bin of the largest value a when
    that bin holds at most one more value *)
Lemma first_bin_dom_small C a L0 B R' : desc L0 -> Forall (fun v => 0 <= v) L0 ->
  Permutation L0 (B ++ R') -> (length B <= 1)%nat -> a + zsum B <= C ->
  Dom (fst (fill C a L0)) B.
Proof.
  intros Hs Hnn HPB HlB Hfit.
  destruct (fill_Forall (fun v => 0 <= v) C L0 a Hnn) as [Htk _].
  destruct B as [|o2 [|o3 B']]; [apply dom_nil; exact Htk| |cbn [length] in HlB; lia].
  rewrite pk_zsum_cons, pk_zsum_nil in Hfit.
  assert (Hin : In o2 L0) by (eapply Permutation_in; [symmetry; exact HPB|left; reflexivity]).
  destruct (fill_dom1 C L0 a o2 Hs Hin ltac:(lia)) as (f & rest & E & Hf).
  rewrite E in *. apply Forall_cons_iff in Htk. destruct Htk as [_ Htk].
  apply dom_one; [exact Htk|exact Hf].
Qed.

(** ---- 4. r = 11/9 ----
    Induction on k.  Let x be the value that opens bin k+1, cut the list after x, let a be the
    largest value.  If a + 2x > T the bin of a in the packing holds at most one more value, the
    first bin of first-fit dominates it and is peeled off.  Otherwise all values lie in
    [x, T - 2x], the packing weighs at most 12 k, and the k bins of first-fit together with x
    weigh at least 12 k - 2 + 3. *)
Lemma ffd_peel_119 T C : 0 <= T -> 11 * T <= 9 * C -> forall k L b,
  desc L -> Forall (fun v => C - T < v) L -> GPack T L k ->
  ff_loop idZ true C L [] = Ok b -> (length b <= k)%nat.
Proof.
  intros HT0 Hr. assert (HTC : T <= C) by lia.
  induction k as [|k IH]; intros L b Hs Hbig HG H.
  - destruct HG as (G & HL & HP & _). destruct G as [|g G]; [|discriminate HL].
    cbn [concat] in HP. apply Permutation_nil in HP. subst L. cbn [ff_loop] in H.
    injection H as H. subst b. cbn [length]. lia.
  - destruct (le_lt_dec (length b) (S k)) as [Hle|Hgt]; [exact Hle|exfalso].
    destruct (ff_loop_overflow idZ C (S k) L [] b H ltac:(cbn [length]; lia) Hgt)
      as (l1 & x & l2 & b1 & E1 & E2 & E3 & E4 & E5).
    subst L.
    assert (Hne : l1 <> []).
    { intros E. subst l1. cbn [ff_loop] in E2. injection E2 as E2. subst b1. discriminate E3. }
    (* facts about the values *)
    pose proof (sorted_app_mid _ l1 x l2 Hs) as Hge. cbv beta in Hge.
    assert (Hs1 : desc (l1 ++ [x])).
    { change (x :: l2) with ([x] ++ l2) in Hs. rewrite app_assoc in Hs.
      apply sorted_app_l in Hs. exact Hs. }
    pose proof Hbig as Hbig'. apply Forall_app in Hbig'. destruct Hbig' as [Hb1 Hb2].
    apply Forall_cons_iff in Hb2. destruct Hb2 as [Hbx Hb2].
    assert (Hnn : forall l, Forall (fun v => C - T < v) l -> Forall (fun v => 0 <= v) l).
    { intros l Hl. eapply Forall_impl; [|exact Hl]. intros v Hv. cbv beta in Hv. lia. }
    assert (Hsl1 : desc l1) by (apply sorted_app_l in Hs1; exact Hs1).
    destruct (ff_loop_nil_inv C l1 b1 Hne (Hnn _ Hb1) Hsl1 E2) as (Hw & Hpc & Hsf).
    (* the list cut after x *)
    assert (HL : ff_loop idZ true C (l1 ++ [x]) [] = Ok (ff_place idZ true C x b1)).
    { rewrite ff_loop_app, E2. cbn [rbind ff_loop]. destruct (x >? C) eqn:E; [lia|reflexivity]. }
    assert (Hlen : length (ff_place idZ true C x b1) = S (S k)).
    { rewrite (ff_place_full idZ C x b1 E5), E3. reflexivity. }
    assert (HG1 : GPack T (l1 ++ [x]) (S k)).
    { apply (gpack_remove_all T l2 (Hnn _ Hb2)). apply (gpack_perm T (l1 ++ x :: l2)); [|exact HG].
      change (x :: l2) with ([x] ++ l2). rewrite app_assoc. apply Permutation_app_comm. }
    destruct l1 as [|a l1']; [congruence|].
    pose proof (desc_head_max a (l1' ++ [x]) Hs1) as Hmax.
    destruct (Z_lt_le_dec (T - 2 * x) a) as [Hlarge|Hsmall].
    + (* peel the first bin *)
      cbn [app] in HL, HG1, Hs1.
      destruct (gpack_head T a (l1' ++ [x]) (S k) HG1) as (B & R' & m & Em & HPB & HsumB & HGR).
      injection Em as Em. subst m.
      assert (HgeL0 : Forall (fun v => x <= v) (l1' ++ [x])).
      { apply Forall_app. split; [|constructor; [lia|constructor]].
        apply Forall_cons_iff in Hge. destruct Hge as [_ Hge]. exact Hge. }
      assert (HgeB : Forall (fun v => x <= v) B).
      { apply (Permutation_Forall HPB) in HgeL0. apply Forall_app in HgeL0. destruct HgeL0 as [HB _]. exact HB. }
      assert (HlB : (length B <= 1)%nat).
      { destruct B as [|o2 [|o3 B']]; [cbn [length]; lia|cbn [length]; lia|exfalso].
        rewrite !pk_zsum_cons in HsumB.
        apply Forall_cons_iff in HgeB. destruct HgeB as [Ho2 HgeB].
        apply Forall_cons_iff in HgeB. destruct HgeB as [Ho3 HgeB].
        assert (0 <= zsum B').
        { apply zsum_nonneg. eapply Forall_impl; [|exact HgeB]. intros v Hv. cbv beta in Hv. lia. }
        lia. }
      inversion Hs1 as [|a' L' Hs0 Ha]; subst.
      assert (HbigL0 : Forall (fun v => C - T < v) (l1' ++ [x])).
      { apply Forall_app. split; [|constructor; [exact Hbx|constructor]].
        apply Forall_cons_iff in Hb1. destruct Hb1 as [_ Hb1]. exact Hb1. }
      pose proof (first_bin_dom_small C a (l1' ++ [x]) B R' Hs0 (Hnn _ HbigL0) HPB HlB ltac:(lia)) as HD.
      cbn [ff_loop] in HL. destruct (a >? C) eqn:Ea; [discriminate HL|]. cbn [ff_place] in HL.
      destruct (ff_peel C (l1' ++ [x]) _ [] _ HL) as (t' & H1 & H2).
      unfold add_to_bin, empty_bin in H1. cbn [fst] in H1. rewrite Z.add_0_l in H1.
      destruct (fill_Forall (fun v => C - T < v) C (l1' ++ [x]) a HbigL0) as [_ Hlf].
      assert (HGl : GPack T (snd (fill C a (l1' ++ [x]))) k).
      { apply (dom_exchange T k (fst (fill C a (l1' ++ [x]))) B (snd (fill C a (l1' ++ [x]))) R');
          [| |exact HD|exact HGR].
        - eapply Forall_impl; [|exact HgeB]. intros v Hv. cbv beta in Hv. lia.
        - eapply Permutation_trans; [symmetry; apply fill_perm|exact HPB]. }
      pose proof (IH _ t' (fill_sorted C (l1' ++ [x]) a Hs0) Hlf HGl H1) as Hl. lia.
    + (* weights *)
      assert (Hrange : Forall (fun v => x <= v <= T - 2 * x) (a :: l1')).
      { constructor.
        - apply Forall_cons_iff in Hge. destruct Hge as [Hga _]. lia.
        - apply Forall_cons_iff in Hge. destruct Hge as [_ Hge].
          apply Forall_app in Hmax. destruct Hmax as [Hmax _].
          rewrite Forall_forall in *. intros v Hv. specialize (Hge v Hv). specialize (Hmax v Hv). lia. }
      assert (Hrb : Forall (fun y => x <= idZ y <= T - 2 * x) (contents b1)).
      { eapply Permutation_Forall; [symmetry; exact Hpc|exact Hrange]. }
      assert (Hcl : closed idZ C x b1).
      { apply closed_of_full; [exact Hw| |exact E5].
        eapply Forall_impl; [|exact Hrb]. intros v Hv. cbv beta in Hv. lia. }
      pose proof (heavy119 idZ T C x HT0 Hr Hbx E4 b1 Hcl Hsf Hrb) as Hheavy.
      rewrite map_id, (gws_perm _ _ _ Hpc), E3 in Hheavy.
      assert (Hlight : ws119 T C x ((a :: l1') ++ [x]) <= 12 * Z.of_nat (S k)).
      { apply (packable_gws (w119 T C x) T 12).
        - intros g Hg0 Hg. apply light119; assumption.
        - apply Hnn. apply Forall_app. split; [exact Hb1|constructor; [exact Hbx|constructor]].
        - apply gpack_packable. exact HG1. }
      assert (Ex : ws119 T C x [x] = w119 T C x x + 0) by reflexivity.
      rewrite gws_app, Ex in Hlight.
      pose proof (w119_ge3 T C x x ltac:(lia)). lia.
Qed.

Lemma ffd_fits_119 k T C vs b : (1 <= k)%nat -> Forall (fun v => 0 <= v) vs -> Packable T vs k ->
  11 * T <= 9 * C -> first_fit idZ true C (sort_desc idZ vs) = Ok b -> (length b <= k)%nat.
Proof.
  intros Hk Hnn Hpack HC H.
  destruct (le_lt_dec (length b) k) as [Hle|Hgt]; [exact Hle|exfalso].
  destruct (packable_bounds T vs k Hk Hnn Hpack) as [HT0 _].
  destruct (ffd_overflow C k vs b Hk Hnn H Hgt)
    as (l1 & x & l2 & b1 & Hp & Hge & Hx & Hlen & Hw & Hpc & Hna & Hfull & E1 & E2).
  pose proof (overflow_big C T k vs l1 x l2 b1 Hk Hnn Hpack Hp ltac:(lia) Hlen Hw Hpc Hfull) as Hbig.
  assert (HL : ff_loop idZ true C (l1 ++ [x]) [] = Ok (ff_place idZ true C x b1)).
  { rewrite <- ff_loop_start by (destruct l1; discriminate).
    rewrite ff_loop_app, E2. cbn [rbind ff_loop]. destruct (x >? C) eqn:E; [lia|reflexivity]. }
  assert (Hs : desc (l1 ++ [x])).
  { pose proof (sort_desc_sorted idZ vs) as Hs. rewrite E1 in Hs.
    change (x :: l2) with ([x] ++ l2) in Hs. rewrite app_assoc in Hs.
    apply sorted_app_l in Hs. exact Hs. }
  assert (Hall : Forall (fun v => C - T < v) (l1 ++ [x])).
  { apply Forall_app. split; [|constructor; [exact Hbig|constructor]].
    eapply Forall_impl; [|exact Hge]. intros v Hv. cbv beta in Hv. lia. }
  assert (HG : GPack T (l1 ++ [x]) k).
  { assert (Hnn2 : Forall (fun v => 0 <= v) l2).
    { apply (Permutation_Forall Hp) in Hnn. apply Forall_app in Hnn. destruct Hnn as [_ Hnn].
      apply Forall_cons_iff in Hnn. destruct Hnn as [_ Hnn]. exact Hnn. }
    apply (gpack_remove_all T l2 Hnn2). apply (gpack_perm T vs); [|apply packable_gpack; exact Hpack].
    eapply Permutation_trans; [exact Hp|]. perm_solve. }
  pose proof (ffd_peel_119 T C HT0 HC k _ _ Hs Hall HG HL) as Hl.
  rewrite (ff_place_full idZ C x b1 Hfull), Hlen in Hl. lia.
Qed.

(** (L_11/9) first-fit-decreasing with an integer capacity c >= 11/9 T, T the largest sum of ANY
    partition of the values into k bins, never fails and uses at most k bins *)
Theorem ffd_capacity_119 k T c vs : (1 <= k)%nat -> Forall (fun v => 0 <= v) vs -> Packable T vs k ->
  11 * T <= 9 * c ->
  exists b, first_fit idZ false c (sort_desc idZ vs) = Ok b /\ (length b <= k)%nat.
Proof.
  intros Hk Hnn Hpack HC.
  destruct (packable_bounds T vs k Hk Hnn Hpack) as [HT0 Hle].
  destruct (ff_run c (sort_desc idZ vs)) as (b & Hb & Hb').
  - eapply Permutation_Forall; [symmetry; apply sort_desc_perm|].
    eapply Forall_impl; [|exact Hle]. intros v Hv. cbv beta in Hv. lia.
  - exists (erase b). split; [exact Hb'|]. rewrite erase_length.
    apply (ffd_fits_119 k T c vs b); assumption.
Qed.

(** ---- 5. the rung r = 11/9 of MultiFit ---- *)
Section Rung119.
  Context {A : Type} (valueof : A -> Z).
  Variables (it k : nat) (items : list A) (b : bins A) (opt : Z).
  Hypothesis Hne : items <> [].
  Hypothesis Hnn : Forall (fun x => 0 <= valueof x) items.
  Hypothesis Hk : (1 <= k)%nat.
  Hypothesis Hrun : multifit valueof true it k items = Ok b.
  Hypothesis Hopt : Opt MinLargest k (map valueof items) opt.

  (** exact form: largest <= (11 opt + 8)/9 + opt / 2^it + opt / 2^51 *)
  Theorem multifit_ratio_119_exact : zsum (map valueof items) <= 2 ^ 53 ->
    2 ^ 51 * 2 ^ Z.of_nat it * (9 * zmax (sums b))
    <= 2 ^ 51 * 2 ^ Z.of_nat it * (11 * opt + 8) + 9 * (2 ^ 51 + 2 ^ Z.of_nat it) * opt.
  Proof.
    intros HS.
    pose proof (multifit_ratio_gen valueof 11 9 it k items b opt ltac:(lia)) as G.
    replace (11 * opt + 9 - 1) with (11 * opt + 8) in G by lia. apply G; auto.
    intros c Hc. apply (ffd_capacity_119 k opt c); auto.
    - apply vs_nonneg; exact Hnn.
    - apply opt_packable; exact Hopt.
  Qed.

  (** largest <= (11/9 + 2^-it) opt + 44/9 *)
  Theorem multifit_ratio_119 : zsum (map valueof items) <= 2 ^ 53 ->
    9 * 2 ^ Z.of_nat it * zmax (sums b) <= (11 * 2 ^ Z.of_nat it + 9) * opt + 44 * 2 ^ Z.of_nat it.
  Proof.
    intros HS. pose proof (multifit_ratio_119_exact HS) as H.
    pose proof (vs_nonneg valueof items Hnn) as Vnn.
    pose proof (opt_minlargest_nonneg k _ opt Hopt Vnn Hk) as O0.
    pose proof (opt_le_total k _ opt Hopt Vnn Hk) as O3.
    assert (HP : 0 < 2 ^ Z.of_nat it) by (apply pow2_pos; lia).
    pose proof (slack_arith (2 ^ 51) (2 ^ Z.of_nat it) 9 (zmax (sums b)) (11 * opt + 8) opt 4
                  ltac:(reflexivity) HP ltac:(lia) O0 ltac:(lia) H) as H1.
    lia.
  Qed.

  (** with a total of at most 2^51: largest <= (11/9 + 2^-it) opt + 17/9 *)
  Theorem multifit_ratio_119_small : zsum (map valueof items) <= 2 ^ 51 ->
    9 * 2 ^ Z.of_nat it * zmax (sums b) <= (11 * 2 ^ Z.of_nat it + 9) * opt + 17 * 2 ^ Z.of_nat it.
  Proof.
    intros HS. pose proof (multifit_ratio_119_exact ltac:(lia)) as H.
    pose proof (vs_nonneg valueof items Hnn) as Vnn.
    pose proof (opt_minlargest_nonneg k _ opt Hopt Vnn Hk) as O0.
    pose proof (opt_le_total k _ opt Hopt Vnn Hk) as O3.
    assert (HP : 0 < 2 ^ Z.of_nat it) by (apply pow2_pos; lia).
    pose proof (slack_arith (2 ^ 51) (2 ^ Z.of_nat it) 9 (zmax (sums b)) (11 * opt + 8) opt 1
                  ltac:(reflexivity) HP ltac:(lia) O0 ltac:(lia) H) as H1.
    lia.
  Qed.
End Rung119.

(** ---- 6. examples ---- *)
(** the instance on which the first bin of first-fit does not dominate the bin of the largest
    value (T = 400 = 200 + 106 + 94 = 199 + 101 + 100, k = 2): capacity 489 >= 11/9 * 400 *)
Example ffd_capacity_119_ex :
  loads 2 [200; 199; 106; 101; 100; 94] [0; 1; 0; 1; 1; 0]%nat = [400; 400] /\
  rmap (@length (bin Z)) (first_fit idZ false 489 (sort_desc idZ [200; 199; 106; 101; 100; 94])) = Ok 2%nat.
Proof. vm_compute. split; reflexivity. Qed.

(** a deficient bin of the weight argument: T = 108, c = 132, x = 26; the bin {37, 35, 35} is
    closed for x (107 + 26 > 132) and weighs 4 + 3 + 3 = 10 *)
Example w119_deficient :
  map (w119 108 132 26) [37; 35; 35; 26] = [4; 3; 3; 3] /\ 132 < 37 + 35 + 35 + 26.
Proof. vm_compute. split; reflexivity. Qed.

(* OPEN: every ratio below 11/9, in particular 61/50 (Coffman-Garey-Johnson), 6/5, 13/11.
     Theorem ffd_capacity_6150 k T c vs : (1 <= k)%nat -> Forall (fun v => 0 <= v) vs ->
       Packable T vs k -> 61 * T <= 50 * c ->
       exists b, first_fit idZ false c (sort_desc idZ vs) = Ok b /\ (length b <= k)%nat.
   What is known (SMT, /root/scratch/mf122/z3D3.py): the weights [w119] and the whole argument
   above remain valid for every ratio >= 6/5 PROVIDED 5 x >= 2 T - 4 d; only the window
   d < x < (2 T - 4 d) / 5 is open (for 61/50: 0.22 T < x < 0.224 T, and then k >= 56 by
   volume).  In that window {d + x + 1, (c - x)/3 + 1, x} fits into T (weight 6 + 4 + 3), three
   values just above (c - x)/3 close a bin of first-fit, five values x fit into one bin, and
   linear programs over all bin patterns (lp2.py, milp.py) only find weights that follow the
   volume v / T closely (15 classes at scale 48, with plateaus at 2/9, 1/4, 1/3, 3/8, 4/9, 1/2, 5/9),
   with several kinds of deficient bins; the single "no later bin is deficient" argument used
   here does not suffice there. *)

Print Assumptions ffd_capacity_119.
Print Assumptions multifit_ratio_119_exact.
Print Assumptions multifit_ratio_119.
Print Assumptions multifit_ratio_119_small.
