(** Properties of the first-fit / best-fit packing models (Model/Packing.v):
    C19 (refusal is exact), C03 (feasible packing of exactly the items, no empty bin),
    C09 (any-fit invariant and its weak consequence), C06 (sums-only run), C07 (names). *)
From Prtpy Require Import Base.Prelude Model.Binner Model.Packing Spec.Partition
  Proofs.BaseLemmas Proofs.BinnerLemmas.
From Coq Require Import ZifyBool.

(** ---- a generic online loop: both ff_loop and bf_loop are instances ---- *)
Section GenericLoop.
  Context {A : Type} (valueof : A -> Z) (place : Z -> A -> bins A -> bins A).

  Fixpoint gloop (C : Z) (items : list A) (b : bins A) : result (bins A) :=
    match items with
    | [] => Ok b
    | x :: t => if valueof x >? C then Err ValueError else gloop C t (place C x b)
    end.

  Lemma gloop_error_iff C items : forall b,
    (exists e, gloop C items b = Err e) <-> Exists (fun x => C < valueof x) items.
  Proof.
    induction items as [|x t IH]; intros b; cbn [gloop].
    - split.
      + intros [e He]. discriminate He.
      + intros H. inversion H.
    - destruct (valueof x >? C) eqn:E.
      + split.
        * intros _. apply Exists_cons_hd. lia.
        * intros _. exists ValueError. reflexivity.
      + rewrite IH. split.
        * intros H. apply Exists_cons_tl. exact H.
        * intros H. inversion H as [y l Hy|y l Hl]; subst; [lia|exact Hl].
  Qed.

  Lemma gloop_error_kind C items : forall b e, gloop C items b = Err e -> e = ValueError.
  Proof.
    induction items as [|x t IH]; intros b e; cbn [gloop].
    - intros H. discriminate H.
    - destruct (valueof x >? C) eqn:E.
      + intros H. injection H as H. symmetry. exact H.
      + apply IH.
  Qed.

  (** loop invariant rule: [P b acc] is kept by every placement of an admissible item *)
  Lemma gloop_inv C (P : bins A -> list A -> Prop) :
    (forall b acc x, 0 <= valueof x <= C -> P b acc -> P (place C x b) (acc ++ [x])) ->
    forall items b acc b',
      Forall (fun x => 0 <= valueof x) items ->
      gloop C items b = Ok b' -> P b acc -> P b' (acc ++ items).
  Proof.
    intros Hstep. induction items as [|x t IH]; intros b acc b' Hnn; cbn [gloop].
    - intros H HP. injection H as H. subst b'. rewrite app_nil_r. exact HP.
    - inversion Hnn as [|y l Hx Ht]; subst.
      destruct (valueof x >? C) eqn:E; [intros H; discriminate H|].
      intros H HP.
      replace (acc ++ x :: t) with ((acc ++ [x]) ++ t) by (rewrite <- app_assoc; reflexivity).
      apply (IH (place C x b)); auto. apply Hstep; auto. lia.
  Qed.
End GenericLoop.

(** two loops that make corresponding steps give corresponding results *)
Lemma gloop_map {A B : Type} (va : A -> Z) (vb : B -> Z)
      (pa : Z -> A -> bins A -> bins A) (pb : Z -> B -> bins B -> bins B)
      (g : A -> B) (f : bins A -> bins B) C :
  (forall x, vb (g x) = va x) ->
  (forall x b, f (pa C x b) = pb C (g x) (f b)) ->
  forall items b, rmap f (gloop va pa C items b) = gloop vb pb C (map g items) (f b).
Proof.
  intros Hv Hp. induction items as [|x t IH]; intros b; cbn [gloop map].
  - reflexivity.
  - rewrite Hv. destruct (va x >? C); [reflexivity|]. rewrite IH, Hp. reflexivity.
Qed.

Lemma ff_loop_gloop {A} (valueof : A -> Z) keep C items : forall b,
  ff_loop valueof keep C items b = gloop valueof (ff_place valueof keep) C items b.
Proof.
  induction items as [|x t IH]; intros b; cbn [ff_loop gloop]; [reflexivity|].
  destruct (valueof x >? C); [reflexivity|apply IH].
Qed.

Lemma bf_loop_gloop {A} (valueof : A -> Z) keep C items : forall b,
  bf_loop valueof keep C items b = gloop valueof (bf_place valueof keep) C items b.
Proof.
  induction items as [|x t IH]; intros b; cbn [bf_loop gloop]; [reflexivity|].
  destruct (valueof x >? C); [reflexivity|apply IH].
Qed.

(** ---- best-fit scan ---- *)
Section Scan.
  Context {A : Type}.

  Lemma bf_scan_some_keep C v (b : bins A) : forall i best k,
    fst best = Some k -> exists k', fst (bf_scan C v b i best) = Some k'.
  Proof.
    induction b as [|bn t IH]; intros i best k Hk; cbn [bf_scan].
    - exists k. exact Hk.
    - destruct ((fst bn + v <=? C) && (snd best <? fst bn + v)).
      + apply (IH (S i) _ i). reflexivity.
      + apply (IH (S i) _ k). exact Hk.
  Qed.

  (** a returned index points at a bin that fits *)
  Lemma bf_scan_some C v (b : bins A) : forall i best k,
    fst (bf_scan C v b i best) = Some k ->
    fst best = Some k \/
    exists l1 bn l2, b = l1 ++ bn :: l2 /\ k = (i + length l1)%nat /\ fst bn + v <= C.
  Proof.
    induction b as [|bn t IH]; intros i best k; cbn [bf_scan].
    - intros H. left. exact H.
    - intros H. apply IH in H. destruct H as [H|(l1 & bn' & l2 & E1 & E2 & E3)].
      + destruct ((fst bn + v <=? C) && (snd best <? fst bn + v)) eqn:E.
        * right. exists [], bn, t. cbn [fst] in H. injection H as H.
          cbn [app length]. repeat split; lia.
        * left. exact H.
      + right. exists (bn :: l1), bn', l2. subst t. cbn [app length]. repeat split; [lia|exact E3].
  Qed.

  (** no index is returned only if no bin both fits and beats the initial best *)
  Lemma bf_scan_none C v (b : bins A) : forall i best,
    fst (bf_scan C v b i best) = None ->
    Forall (fun bn => fst bn + v <= C -> fst bn + v <= snd best) b.
  Proof.
    induction b as [|bn t IH]; intros i best; cbn [bf_scan].
    - intros _. constructor.
    - destruct ((fst bn + v <=? C) && (snd best <? fst bn + v)) eqn:E.
      + intros H.
        destruct (bf_scan_some_keep C v t (S i) (Some i, fst bn + v) i eq_refl) as [k' Hk'].
        rewrite Hk' in H. discriminate H.
      + intros H. constructor; [lia|]. apply (IH (S i) best). exact H.
  Qed.

  (** the scan only looks at the sums *)
  Lemma bf_scan_map {B} (f : bin A -> bin B) C v (b : bins A) :
    (forall bn, fst (f bn) = fst bn) ->
    forall i best, bf_scan C v (map f b) i best = bf_scan C v b i best.
  Proof.
    intros Hf. induction b as [|bn t IH]; intros i best; cbn [bf_scan map]; [reflexivity|].
    rewrite Hf. apply IH.
  Qed.
End Scan.

(** ---- any-fit placement steps and what they preserve ---- *)
Section AnyFitStep.
  Context {A : Type} (valueof : A -> Z).

  Notation add := (add_to_bin valueof true).

  (** one any-fit step: the item goes into some bin where it fits, or, when it fits
      nowhere, into a new bin at the end *)
  Inductive af_step (C : Z) (x : A) : bins A -> bins A -> Prop :=
  | af_into (l1 : bins A) (bn : bin A) (l2 : bins A) : fst bn + valueof x <= C ->
      af_step C x (l1 ++ bn :: l2) (l1 ++ add x bn :: l2)
  | af_new (b : bins A) : Forall (fun bn : bin A => C < fst bn + valueof x) b ->
      af_step C x b (b ++ [add x empty_bin]).

  Lemma af_step_cons C x a t t' :
    C < fst a + valueof x -> af_step C x t t' -> af_step C x (a :: t) (a :: t').
  Proof.
    intros Ha H. destruct H as [l1 bn l2 Hfit|b Hall].
    - apply (af_into C x (a :: l1) bn l2). exact Hfit.
    - apply (af_new C x (a :: b)). constructor; auto.
  Qed.

  Lemma ff_place_step C x b : af_step C x b (ff_place valueof true C x b).
  Proof.
    induction b as [|bn t IH]; cbn [ff_place].
    - apply (af_new C x []). constructor.
    - destruct (fst bn + valueof x <=? C) eqn:E.
      + apply (af_into C x [] bn t). lia.
      + apply af_step_cons; [lia|exact IH].
  Qed.

  Lemma bf_place_step C x b :
    Forall (fun bn => -1 < fst bn + valueof x) b -> af_step C x b (bf_place valueof true C x b).
  Proof.
    intros Hpos. unfold bf_place.
    destruct (fst (bf_scan C (valueof x) b 0 (None, -1))) as [k|] eqn:E.
    - apply bf_scan_some in E. destruct E as [E|(l1 & bn & l2 & E1 & E2 & E3)].
      + discriminate E.
      + subst b. unfold add_item. cbn [Nat.add] in E2. subst k.
        assert (Hu : forall (l : bins A), update (length l) (add x) (l ++ bn :: l2) = l ++ add x bn :: l2).
        { induction l as [|y l IHl]; cbn [length app update]; [reflexivity|]. rewrite IHl. reflexivity. }
        rewrite Hu. apply af_into. exact E3.
    - apply af_new. apply bf_scan_none in E. cbn [snd] in E.
      rewrite Forall_forall in *. intros bn Hin. specialize (E bn Hin). specialize (Hpos bn Hin).
      lia.
  Qed.

  (** the very first item enters the initial empty bin *)
  Lemma af_step_first C x b' :
    valueof x <= C -> af_step C x (new_bins 1) b' -> b' = [add x empty_bin].
  Proof.
    intros Hx H. inversion H as [l1 bn l2 Hfit E1 E2|b Hall E1 E2].
    - destruct l1 as [|y l1].
      + cbn [app] in *. unfold new_bins in E1. cbn [repeat] in E1.
        injection E1 as E1a E1b. subst. reflexivity.
      + unfold new_bins in E1. cbn [repeat app] in E1. injection E1 as E1a E1b.
        destruct l1; discriminate E1b.
    - subst b. unfold new_bins in Hall. cbn [repeat] in Hall.
      inversion Hall as [|y l Hy Hl]; subst. unfold empty_bin in Hy. cbn [fst] in Hy. lia.
  Qed.

  Definition nonneg_sums (b : bins A) : Prop := Forall (fun bn => 0 <= fst bn) b.

  Lemma step_wf C x b b' : af_step C x b b' -> wf valueof b -> wf valueof b'.
  Proof.
    unfold wf. intros H Hw. destruct H as [l1 bn l2 Hfit|b Hall].
    - apply Forall_app in Hw. destruct Hw as [H1 H2]. inversion H2 as [|y l Hbn Hl2]; subst.
      apply Forall_app. split; [exact H1|]. constructor; [|exact Hl2].
      apply add_to_bin_wf; auto.
    - apply Forall_app. split; [exact Hw|]. constructor; [|constructor].
      apply add_to_bin_wf; auto. reflexivity.
  Qed.

  Lemma step_feasible C x b b' : valueof x <= C -> af_step C x b b' -> feasible C b -> feasible C b'.
  Proof.
    unfold feasible. intros Hx H Hf. destruct H as [l1 bn l2 Hfit|b Hall].
    - apply Forall_app in Hf. destruct Hf as [H1 H2]. inversion H2 as [|y l Hbn Hl2]; subst.
      apply Forall_app. split; [exact H1|]. constructor; [|exact Hl2].
      unfold add_to_bin. cbn [fst]. exact Hfit.
    - apply Forall_app. split; [exact Hf|]. constructor; [|constructor].
      unfold add_to_bin, empty_bin. cbn [fst]. lia.
  Qed.

  Lemma step_nonneg C x b b' : 0 <= valueof x -> af_step C x b b' -> nonneg_sums b -> nonneg_sums b'.
  Proof.
    unfold nonneg_sums. intros Hx H Hf. destruct H as [l1 bn l2 Hfit|b Hall].
    - apply Forall_app in Hf. destruct Hf as [H1 H2]. inversion H2 as [|y l Hbn Hl2]; subst.
      apply Forall_app. split; [exact H1|]. constructor; [|exact Hl2].
      unfold add_to_bin. cbn [fst]. lia.
    - apply Forall_app. split; [exact Hf|]. constructor; [|constructor].
      unfold add_to_bin, empty_bin. cbn [fst]. lia.
  Qed.

  Lemma step_contents C x b b' : af_step C x b b' -> Permutation (contents b') (contents b ++ [x]).
  Proof.
    intros H. destruct H as [l1 bn l2 Hfit|b Hall].
    - rewrite !contents_app, !contents_cons. unfold add_to_bin. cbn [snd].
      rewrite <- !app_assoc. apply Permutation_app_head. apply Permutation_app_head.
      apply Permutation_app_comm.
    - rewrite contents_app. apply Permutation_app_head.
      unfold contents, lists, add_to_bin, empty_bin. cbn. reflexivity.
  Qed.

  Lemma add_nonempty x (bn : bin A) : snd (add x bn) <> [].
  Proof. unfold add_to_bin. cbn [snd]. destruct (snd bn); discriminate. Qed.

  Lemma step_nonempty C x b b' : af_step C x b b' -> all_nonempty b -> all_nonempty b'.
  Proof.
    unfold all_nonempty. intros H Hf. destruct H as [l1 bn l2 Hfit|b Hall].
    - apply Forall_app in Hf. destruct Hf as [H1 H2]. inversion H2 as [|y l Hbn Hl2]; subst.
      apply Forall_app. split; [exact H1|]. constructor; [|exact Hl2]. apply add_nonempty.
    - apply Forall_app. split; [exact Hf|]. constructor; [|constructor]. apply add_nonempty.
  Qed.

  (** [later_ok C s later]: the first item of [later] does not fit a bin of sum [s] *)
  Definition later_ok (C s : Z) (later : bin A) : Prop :=
    match snd later with x :: _ => C < s + valueof x | [] => False end.

  Lemma anyfit_cons C bn t :
    anyfit valueof C (bn :: t) <-> Forall (later_ok C (fst bn)) t /\ anyfit valueof C t.
  Proof. reflexivity. Qed.

  Lemma later_ok_grow C s s' t : s <= s' -> Forall (later_ok C s) t -> Forall (later_ok C s') t.
  Proof.
    intros Hs H. eapply Forall_impl; [|exact H]. intros later. unfold later_ok.
    destruct (snd later) as [|y l]; [auto|lia].
  Qed.

  Lemma later_ok_add C s x bn : snd bn <> [] -> later_ok C s bn -> later_ok C s (add x bn).
  Proof.
    unfold later_ok, add_to_bin. cbn [snd]. destruct (snd bn) as [|y l]; [congruence|].
    intros _ H. cbn [app]. exact H.
  Qed.

  Lemma anyfit_into C x l1 : forall bn l2,
    0 <= valueof x -> snd bn <> [] ->
    anyfit valueof C (l1 ++ bn :: l2) -> anyfit valueof C (l1 ++ add x bn :: l2).
  Proof.
    induction l1 as [|a l1 IH]; intros bn l2 Hx Hne; cbn [app]; rewrite !anyfit_cons.
    - intros [H1 H2]. split; [|exact H2].
      apply (later_ok_grow C (fst bn)); [|exact H1]. unfold add_to_bin. cbn [fst]. lia.
    - intros [H1 H2]. split; [|apply IH; auto].
      apply Forall_app in H1. destruct H1 as [H1a H1b]. inversion H1b as [|y l Hbn Hl2]; subst.
      apply Forall_app. split; [exact H1a|]. constructor; [|exact Hl2].
      apply later_ok_add; auto.
  Qed.

  Lemma anyfit_new C x b :
    Forall (fun bn => C < fst bn + valueof x) b ->
    anyfit valueof C b -> anyfit valueof C (b ++ [add x empty_bin]).
  Proof.
    induction b as [|a t IH]; intros Hall; cbn [app]; rewrite !anyfit_cons.
    - intros _. split; constructor.
    - inversion Hall as [|y l Ha Ht]; subst. intros [H1 H2]. split; [|apply IH; auto].
      apply Forall_app. split; [exact H1|]. constructor; [|constructor].
      unfold later_ok, add_to_bin, empty_bin. cbn. exact Ha.
  Qed.

  Lemma step_anyfit C x b b' :
    0 <= valueof x -> af_step C x b b' -> all_nonempty b ->
    anyfit valueof C b -> anyfit valueof C b'.
  Proof.
    intros Hx H Hne Ha. destruct H as [l1 bn l2 Hfit|b Hall].
    - apply anyfit_into; auto. unfold all_nonempty in Hne.
      apply Forall_app in Hne. destruct Hne as [_ Hne]. inversion Hne; subst; auto.
    - apply anyfit_new; auto.
  Qed.

  (** the loop invariant *)
  Definition Inv (C : Z) (b : bins A) (acc : list A) : Prop :=
    wf valueof b /\ feasible C b /\ Permutation (contents b) acc /\ all_nonempty b /\
    nonneg_sums b /\ anyfit valueof C b.

  Lemma step_Inv C x b b' acc :
    0 <= valueof x <= C -> af_step C x b b' -> Inv C b acc -> Inv C b' (acc ++ [x]).
  Proof.
    intros Hx H (Hw & Hf & Hp & Hne & Hnn & Ha). repeat split.
    - eapply step_wf; eauto.
    - eapply step_feasible; eauto. lia.
    - rewrite (step_contents C x b b' H). apply Permutation_app_tail. exact Hp.
    - eapply step_nonempty; eauto.
    - eapply step_nonneg; eauto. lia.
    - eapply step_anyfit; eauto. lia.
  Qed.

  Lemma Inv_first C x : 0 <= valueof x <= C -> Inv C [add x empty_bin] [x].
  Proof.
    intros Hx. unfold Inv, wf, feasible, all_nonempty, nonneg_sums. repeat split.
    - constructor; [|constructor]. apply add_to_bin_wf; auto. reflexivity.
    - constructor; [|constructor]. unfold add_to_bin, empty_bin. cbn [fst]. lia.
    - unfold contents, lists, add_to_bin, empty_bin. cbn. reflexivity.
    - constructor; [|constructor]. apply add_nonempty.
    - constructor; [|constructor]. unfold add_to_bin, empty_bin. cbn [fst]. lia.
    - constructor.
  Qed.

  (** generic theorem: a loop whose placements are any-fit steps (on bins with
      non-negative sums) establishes the invariant on every non-empty input *)
  Lemma gloop_Inv (place : Z -> A -> bins A -> bins A) C :
    (forall x b, 0 <= valueof x -> nonneg_sums b -> af_step C x b (place C x b)) ->
    forall items b, items <> [] -> Forall (fun x => 0 <= valueof x) items ->
      gloop valueof place C items (new_bins 1) = Ok b -> Inv C b items.
  Proof.
    intros Hplace items b Hne Hnn. destruct items as [|x t]; [congruence|]. clear Hne.
    inversion Hnn as [|y l Hx Ht]; subst. cbn [gloop].
    destruct (valueof x >? C) eqn:E; [intros H; discriminate H|]. intros H.
    assert (Hfirst : place C x (new_bins 1) = [add x empty_bin]).
    { apply (af_step_first C x); [lia|]. apply Hplace; auto.
      unfold nonneg_sums, new_bins, empty_bin. cbn [repeat]. constructor; [cbn [fst]; lia|constructor]. }
    rewrite Hfirst in H. change (x :: t) with ([x] ++ t).
    apply (gloop_inv valueof place C (Inv C)) with (b := [add x empty_bin]); auto.
    - intros b0 acc x0 Hx0 HI. apply (step_Inv C x0 b0); auto.
      apply Hplace; [lia|]. destruct HI as (_ & _ & _ & _ & Hs & _). exact Hs.
    - apply Inv_first. lia.
  Qed.

  (** with no item the single initial empty bin is returned: still a packing *)
  Lemma packing_initial C : 0 <= C -> is_packing valueof C [] (new_bins 1).
  Proof.
    intros HC. unfold is_packing. repeat split.
    - rewrite new_bins_contents. constructor.
    - unfold feasible, new_bins, empty_bin. cbn [repeat]. constructor; [cbn [fst]; lia|constructor].
    - apply new_bins_wf.
  Qed.
End AnyFitStep.

(** ---- the four algorithms ---- *)
Section PackingTheorems.
  Context {A : Type} (valueof : A -> Z).

  Lemma nonneg_sums_pos (b : bins A) v :
    0 <= v -> nonneg_sums b -> Forall (fun bn => -1 < fst bn + v) b.
  Proof.
    intros Hv H. eapply Forall_impl; [|exact H]. intros bn Hbn. cbv beta in Hbn. lia.
  Qed.

  Lemma ff_is_step C x b :
    0 <= valueof x -> nonneg_sums b -> af_step valueof C x b (ff_place valueof true C x b).
  Proof. intros _ _. apply ff_place_step. Qed.

  Lemma bf_is_step C x b :
    0 <= valueof x -> nonneg_sums b -> af_step valueof C x b (bf_place valueof true C x b).
  Proof. intros Hx Hb. apply bf_place_step. apply nonneg_sums_pos; auto. Qed.

  Lemma sort_desc_nonneg items :
    Forall (fun x => 0 <= valueof x) items -> Forall (fun x => 0 <= valueof x) (sort_desc valueof items).
  Proof. intros H. eapply Permutation_Forall; [symmetry; apply sort_desc_perm|exact H]. Qed.

  Lemma sort_desc_nonnil items : items <> [] -> sort_desc valueof items <> [].
  Proof.
    intros H E. apply H. apply length_zero_iff_nil. rewrite <- (sort_desc_length valueof), E. reflexivity.
  Qed.

  Lemma sort_desc_Exists (P : A -> Prop) items : Exists P (sort_desc valueof items) <-> Exists P items.
  Proof.
    split; apply Permutation_Exists; [|symmetry]; apply sort_desc_perm.
  Qed.

  (** the invariant for each algorithm (keep = true) *)
  Lemma ff_Inv C items b : items <> [] -> Forall (fun x => 0 <= valueof x) items ->
    first_fit valueof true C items = Ok b -> Inv valueof C b items.
  Proof.
    intros Hne Hnn H. unfold first_fit in H. rewrite ff_loop_gloop in H.
    apply (gloop_Inv valueof (ff_place valueof true) C); auto. intros x b0. apply ff_is_step.
  Qed.

  Lemma bf_Inv C items b : items <> [] -> Forall (fun x => 0 <= valueof x) items ->
    best_fit valueof true C items = Ok b -> Inv valueof C b items.
  Proof.
    intros Hne Hnn H. unfold best_fit in H. rewrite bf_loop_gloop in H.
    apply (gloop_Inv valueof (bf_place valueof true) C); auto. intros x b0. apply bf_is_step.
  Qed.

  Lemma Inv_perm C b l1 l2 : Permutation l1 l2 -> Inv valueof C b l1 -> Inv valueof C b l2.
  Proof.
    intros P (Hw & Hf & Hp & Hne & Hnn & Ha). repeat split; auto. rewrite Hp. exact P.
  Qed.

  Lemma ffd_Inv C items b : items <> [] -> Forall (fun x => 0 <= valueof x) items ->
    first_fit_decreasing valueof true C items = Ok b -> Inv valueof C b items.
  Proof.
    intros Hne Hnn H. unfold first_fit_decreasing in H.
    apply (Inv_perm C b (sort_desc valueof items)); [apply sort_desc_perm|].
    apply ff_Inv; auto using sort_desc_nonnil, sort_desc_nonneg.
  Qed.

  Lemma bfd_Inv C items b : items <> [] -> Forall (fun x => 0 <= valueof x) items ->
    best_fit_decreasing valueof true C items = Ok b -> Inv valueof C b items.
  Proof.
    intros Hne Hnn H. unfold best_fit_decreasing in H.
    apply (Inv_perm C b (sort_desc valueof items)); [apply sort_desc_perm|].
    apply bf_Inv; auto using sort_desc_nonnil, sort_desc_nonneg.
  Qed.

  (** ---- 1. refusal is exact (C19) ---- *)
  Theorem ff_error_iff_gen keep C items :
    (exists e, first_fit valueof keep C items = Err e) <-> Exists (fun x => C < valueof x) items.
  Proof. unfold first_fit. rewrite ff_loop_gloop. apply gloop_error_iff. Qed.

  Theorem ff_error_kind_gen keep C items e : first_fit valueof keep C items = Err e -> e = ValueError.
  Proof. unfold first_fit. rewrite ff_loop_gloop. apply gloop_error_kind. Qed.

  Theorem bf_error_iff_gen keep C items :
    (exists e, best_fit valueof keep C items = Err e) <-> Exists (fun x => C < valueof x) items.
  Proof. unfold best_fit. rewrite bf_loop_gloop. apply gloop_error_iff. Qed.

  Theorem bf_error_kind_gen keep C items e : best_fit valueof keep C items = Err e -> e = ValueError.
  Proof. unfold best_fit. rewrite bf_loop_gloop. apply gloop_error_kind. Qed.

  Theorem ffd_error_iff_gen keep C items :
    (exists e, first_fit_decreasing valueof keep C items = Err e) <-> Exists (fun x => C < valueof x) items.
  Proof. unfold first_fit_decreasing. rewrite ff_error_iff_gen. apply sort_desc_Exists. Qed.

  Theorem ffd_error_kind_gen keep C items e :
    first_fit_decreasing valueof keep C items = Err e -> e = ValueError.
  Proof. unfold first_fit_decreasing. apply ff_error_kind_gen. Qed.

  Theorem bfd_error_iff_gen keep C items :
    (exists e, best_fit_decreasing valueof keep C items = Err e) <-> Exists (fun x => C < valueof x) items.
  Proof. unfold best_fit_decreasing. rewrite bf_error_iff_gen. apply sort_desc_Exists. Qed.

  Theorem bfd_error_kind_gen keep C items e :
    best_fit_decreasing valueof keep C items = Err e -> e = ValueError.
  Proof. unfold best_fit_decreasing. apply bf_error_kind_gen. Qed.

  Theorem ff_error_iff C items :
    (exists e, first_fit valueof true C items = Err e) <-> Exists (fun x => C < valueof x) items.
  Proof. apply ff_error_iff_gen. Qed.
  Theorem ff_error_kind C items e : first_fit valueof true C items = Err e -> e = ValueError.
  Proof. apply ff_error_kind_gen. Qed.
  Theorem ffd_error_iff C items :
    (exists e, first_fit_decreasing valueof true C items = Err e) <-> Exists (fun x => C < valueof x) items.
  Proof. apply ffd_error_iff_gen. Qed.
  Theorem ffd_error_kind C items e : first_fit_decreasing valueof true C items = Err e -> e = ValueError.
  Proof. apply ffd_error_kind_gen. Qed.
  Theorem bf_error_iff C items :
    (exists e, best_fit valueof true C items = Err e) <-> Exists (fun x => C < valueof x) items.
  Proof. apply bf_error_iff_gen. Qed.
  Theorem bf_error_kind C items e : best_fit valueof true C items = Err e -> e = ValueError.
  Proof. apply bf_error_kind_gen. Qed.
  Theorem bfd_error_iff C items :
    (exists e, best_fit_decreasing valueof true C items = Err e) <-> Exists (fun x => C < valueof x) items.
  Proof. apply bfd_error_iff_gen. Qed.
  Theorem bfd_error_kind C items e : best_fit_decreasing valueof true C items = Err e -> e = ValueError.
  Proof. apply bfd_error_kind_gen. Qed.

  (** ---- 2. feasible packing of exactly the items (C03) ----
      Extra hypothesis [items = [] -> 0 <= C]: on the empty input the result is the single
      initial empty bin of sum 0, which is not feasible for a negative capacity
      (see the counterexample [packing_empty_negative_capacity] below). *)
  Lemma Inv_packing C b items : Inv valueof C b items -> is_packing valueof C items b.
  Proof. intros (Hw & Hf & Hp & _). unfold is_packing. auto. Qed.

  Lemma sort_desc_nil_inv items : sort_desc valueof items = [] -> items = [].
  Proof.
    intros E. apply length_zero_iff_nil. rewrite <- (sort_desc_length valueof), E. reflexivity.
  Qed.

  Theorem ff_packing C items b :
    (items = [] -> 0 <= C) -> Forall (fun x => 0 <= valueof x) items ->
    first_fit valueof true C items = Ok b -> is_packing valueof C items b.
  Proof.
    intros HC Hnn H. destruct items as [|x t].
    - cbn in H. injection H as H. subst b. apply packing_initial. auto.
    - apply Inv_packing. apply ff_Inv; auto. discriminate.
  Qed.

  Theorem bf_packing C items b :
    (items = [] -> 0 <= C) -> Forall (fun x => 0 <= valueof x) items ->
    best_fit valueof true C items = Ok b -> is_packing valueof C items b.
  Proof.
    intros HC Hnn H. destruct items as [|x t].
    - cbn in H. injection H as H. subst b. apply packing_initial. auto.
    - apply Inv_packing. apply bf_Inv; auto. discriminate.
  Qed.

  Theorem ffd_packing C items b :
    (items = [] -> 0 <= C) -> Forall (fun x => 0 <= valueof x) items ->
    first_fit_decreasing valueof true C items = Ok b -> is_packing valueof C items b.
  Proof.
    intros HC Hnn H. destruct items as [|x t].
    - cbn in H. injection H as H. subst b. apply packing_initial. auto.
    - apply Inv_packing. apply ffd_Inv; auto. discriminate.
  Qed.

  Theorem bfd_packing C items b :
    (items = [] -> 0 <= C) -> Forall (fun x => 0 <= valueof x) items ->
    best_fit_decreasing valueof true C items = Ok b -> is_packing valueof C items b.
  Proof.
    intros HC Hnn H. destruct items as [|x t].
    - cbn in H. injection H as H. subst b. apply packing_initial. auto.
    - apply Inv_packing. apply bfd_Inv; auto. discriminate.
  Qed.

  (** ---- 3. no empty bin for a non-empty input (C03) ---- *)
  Theorem ff_nonempty C items b : items <> [] -> Forall (fun x => 0 <= valueof x) items ->
    first_fit valueof true C items = Ok b -> all_nonempty b.
  Proof. intros Hne Hnn H. destruct (ff_Inv C items b Hne Hnn H) as (_ & _ & _ & Hr & _). exact Hr. Qed.
  Theorem ffd_nonempty C items b : items <> [] -> Forall (fun x => 0 <= valueof x) items ->
    first_fit_decreasing valueof true C items = Ok b -> all_nonempty b.
  Proof. intros Hne Hnn H. destruct (ffd_Inv C items b Hne Hnn H) as (_ & _ & _ & Hr & _). exact Hr. Qed.
  Theorem bf_nonempty C items b : items <> [] -> Forall (fun x => 0 <= valueof x) items ->
    best_fit valueof true C items = Ok b -> all_nonempty b.
  Proof. intros Hne Hnn H. destruct (bf_Inv C items b Hne Hnn H) as (_ & _ & _ & Hr & _). exact Hr. Qed.
  Theorem bfd_nonempty C items b : items <> [] -> Forall (fun x => 0 <= valueof x) items ->
    best_fit_decreasing valueof true C items = Ok b -> all_nonempty b.
  Proof. intros Hne Hnn H. destruct (bfd_Inv C items b Hne Hnn H) as (_ & _ & _ & Hr & _). exact Hr. Qed.

  (** ---- 4. any-fit invariant (C09) ---- *)
  Theorem ff_anyfit C items b : Forall (fun x => 0 <= valueof x) items -> items <> [] ->
    first_fit valueof true C items = Ok b -> anyfit valueof C b.
  Proof. intros Hnn Hne H. destruct (ff_Inv C items b Hne Hnn H) as (_ & _ & _ & _ & _ & Hr). exact Hr. Qed.
  Theorem ffd_anyfit C items b : Forall (fun x => 0 <= valueof x) items -> items <> [] ->
    first_fit_decreasing valueof true C items = Ok b -> anyfit valueof C b.
  Proof. intros Hnn Hne H. destruct (ffd_Inv C items b Hne Hnn H) as (_ & _ & _ & _ & _ & Hr). exact Hr. Qed.
  Theorem bf_anyfit C items b : Forall (fun x => 0 <= valueof x) items -> items <> [] ->
    best_fit valueof true C items = Ok b -> anyfit valueof C b.
  Proof. intros Hnn Hne H. destruct (bf_Inv C items b Hne Hnn H) as (_ & _ & _ & _ & _ & Hr). exact Hr. Qed.
  Theorem bfd_anyfit C items b : Forall (fun x => 0 <= valueof x) items -> items <> [] ->
    best_fit_decreasing valueof true C items = Ok b -> anyfit valueof C b.
  Proof. intros Hnn Hne H. destruct (bfd_Inv C items b Hne Hnn H) as (_ & _ & _ & _ & _ & Hr). exact Hr. Qed.
End PackingTheorems.

(** counterexample to the packing statement without [items = [] -> 0 <= C]:
    no item, capacity -1: the returned single empty bin has sum 0 > -1 *)
Example packing_empty_negative_capacity :
  first_fit (fun v : Z => v) true (-1) [] = Ok [(0, [])] /\
  best_fit (fun v : Z => v) true (-1) [] = Ok [(0, [])] /\
  ~ is_packing (fun v : Z => v) (-1) [] [(0, [])].
Proof.
  split; [vm_compute; reflexivity|]. split; [vm_compute; reflexivity|].
  intros (_ & Hf & _). inversion Hf as [|y l Hy Hl]; subst. cbn [fst] in Hy. lia.
Qed.

(** without non-negative values best-fit violates "no empty bin": the value -1 gives
    new_sum = -1, which is not > best_bin[1] = -1, so a second bin is opened *)
Example bf_negative_value_leaves_empty_bin :
  best_fit (fun v : Z => v) true 9 [-1] = Ok [(0, []); (-1, [-1])].
Proof. vm_compute. reflexivity. Qed.

(** ---- 5. the sums-only run makes the same decisions (C06) ---- *)
Section Erase.
  Context {A : Type} (valueof : A -> Z).

  Lemma erase_add x (bn : bin A) :
    (fst (add_to_bin valueof true x bn), @nil A) = add_to_bin valueof false x (fst bn, @nil A).
  Proof. reflexivity. Qed.

  Lemma ff_place_erase C x b :
    erase (ff_place valueof true C x b) = ff_place valueof false C x (erase b).
  Proof.
    unfold erase. induction b as [|bn t IH]; cbn [ff_place map fst]; [reflexivity|].
    destruct (fst bn + valueof x <=? C); cbn [map]; [reflexivity|]. rewrite IH. reflexivity.
  Qed.

  Lemma bf_place_erase C x b :
    erase (bf_place valueof true C x b) = bf_place valueof false C x (erase b).
  Proof.
    unfold bf_place, erase.
    rewrite (bf_scan_map (fun bn : bin A => (fst bn, @nil A))) by reflexivity.
    destruct (fst (bf_scan C (valueof x) b 0 (None, -1))) as [k|].
    - unfold add_item. apply map_update. intros bn. reflexivity.
    - rewrite map_app. reflexivity.
  Qed.

  Lemma erase_new_bins k : erase (@new_bins A k) = new_bins k.
  Proof. unfold erase, new_bins. induction k as [|k IH]; cbn [repeat map]; [reflexivity|]. rewrite IH. reflexivity. Qed.

  Theorem ff_erase C items :
    rmap erase (first_fit valueof true C items) = first_fit valueof false C items.
  Proof.
    unfold first_fit. rewrite !ff_loop_gloop.
    rewrite (gloop_map valueof valueof (ff_place valueof true) (ff_place valueof false) (fun x => x) erase C).
    - rewrite map_id, erase_new_bins. reflexivity.
    - reflexivity.
    - intros x b. apply ff_place_erase.
  Qed.

  Theorem bf_erase C items :
    rmap erase (best_fit valueof true C items) = best_fit valueof false C items.
  Proof.
    unfold best_fit. rewrite !bf_loop_gloop.
    rewrite (gloop_map valueof valueof (bf_place valueof true) (bf_place valueof false) (fun x => x) erase C).
    - rewrite map_id, erase_new_bins. reflexivity.
    - reflexivity.
    - intros x b. apply bf_place_erase.
  Qed.

  Theorem ffd_erase C items :
    rmap erase (first_fit_decreasing valueof true C items) = first_fit_decreasing valueof false C items.
  Proof. unfold first_fit_decreasing. apply ff_erase. Qed.

  Theorem bfd_erase C items :
    rmap erase (best_fit_decreasing valueof true C items) = best_fit_decreasing valueof false C items.
  Proof. unfold best_fit_decreasing. apply bf_erase. Qed.
End Erase.

(** ---- 6. names are irrelevant (C07) ---- *)
Section Names.
  Context {A : Type} (valueof : A -> Z).

  Notation idv := (fun v : Z => v).

  Lemma map_bins_add x (bn : bin A) :
    (fst (add_to_bin valueof true x bn), map valueof (snd (add_to_bin valueof true x bn))) =
    add_to_bin idv true (valueof x) (fst bn, map valueof (snd bn)).
  Proof. unfold add_to_bin. cbn [fst snd]. rewrite map_app. reflexivity. Qed.

  Lemma ff_place_names C x b :
    map_bins valueof (ff_place valueof true C x b) =
    ff_place idv true C (valueof x) (map_bins valueof b).
  Proof.
    unfold map_bins. induction b as [|bn t IH]; cbn [ff_place map fst]; [reflexivity|].
    destruct (fst bn + valueof x <=? C); cbn [map].
    - rewrite map_bins_add. reflexivity.
    - rewrite IH. reflexivity.
  Qed.

  Lemma bf_place_names C x b :
    map_bins valueof (bf_place valueof true C x b) =
    bf_place idv true C (valueof x) (map_bins valueof b).
  Proof.
    unfold bf_place, map_bins.
    rewrite (bf_scan_map (fun bn : bin A => (fst bn, map valueof (snd bn)))) by reflexivity.
    destruct (fst (bf_scan C (valueof x) b 0 (None, -1))) as [k|].
    - unfold add_item. apply map_update. intros bn. apply map_bins_add.
    - rewrite map_app. reflexivity.
  Qed.

  Theorem ff_names C items :
    rmap (map_bins valueof) (first_fit valueof true C items) =
    first_fit idv true C (map valueof items).
  Proof.
    unfold first_fit. rewrite !ff_loop_gloop.
    rewrite (gloop_map valueof idv (ff_place valueof true) (ff_place idv true) valueof (map_bins valueof) C).
    - reflexivity.
    - reflexivity.
    - intros x b. apply ff_place_names.
  Qed.

  Theorem bf_names C items :
    rmap (map_bins valueof) (best_fit valueof true C items) =
    best_fit idv true C (map valueof items).
  Proof.
    unfold best_fit. rewrite !bf_loop_gloop.
    rewrite (gloop_map valueof idv (bf_place valueof true) (bf_place idv true) valueof (map_bins valueof) C).
    - reflexivity.
    - reflexivity.
    - intros x b. apply bf_place_names.
  Qed.

  Theorem ffd_names C items :
    rmap (map_bins valueof) (first_fit_decreasing valueof true C items) =
    first_fit_decreasing idv true C (map valueof items).
  Proof.
    unfold first_fit_decreasing. rewrite ff_names.
    rewrite (sort_desc_map valueof valueof idv) by reflexivity. reflexivity.
  Qed.

  Theorem bfd_names C items :
    rmap (map_bins valueof) (best_fit_decreasing valueof true C items) =
    best_fit_decreasing idv true C (map valueof items).
  Proof.
    unfold best_fit_decreasing. rewrite bf_names.
    rewrite (sort_desc_map valueof valueof idv) by reflexivity. reflexivity.
  Qed.
End Names.

(** ---- 7. the weak consequence of any-fit (C09): fewer than twice the optimum ---- *)
Lemma pk_zsum_nil : zsum [] = 0.
Proof. reflexivity. Qed.
Lemma pk_zsum_cons x l : zsum (x :: l) = x + zsum l.
Proof. reflexivity. Qed.

Section LoadsTotal.
  Notation lstep := (fun (s : list Z) (p : Z * nat) => update (snd p) (fun x => x + fst p) s).

  Lemma loads_fold_total : forall vs asg s,
    length asg = length vs -> Forall (fun i => (i < length s)%nat) asg ->
    zsum (fold_left lstep (combine vs asg) s) = zsum s + zsum vs /\
    length (fold_left lstep (combine vs asg) s) = length s.
  Proof.
    induction vs as [|v vs IH]; intros asg s Hlen Hasg.
    - cbn [combine fold_left]. rewrite pk_zsum_nil. split; [lia|reflexivity].
    - destruct asg as [|i asg]; [discriminate Hlen|]. cbn [length] in Hlen.
      inversion Hasg as [|j l Hi Hrest]; subst.
      cbn [combine fold_left snd fst].
      destruct (IH asg (update i (fun x => x + v) s)) as [E1 E2].
      + lia.
      + rewrite update_length. exact Hrest.
      + rewrite E1, E2, update_length. rewrite zsum_update by exact Hi.
        rewrite pk_zsum_cons. split; [lia|reflexivity].
  Qed.

  Lemma loads_total k vs asg : length asg = length vs -> valid_asg k asg ->
    zsum (loads k vs asg) = zsum vs /\ length (loads k vs asg) = k.
  Proof.
    intros Hlen Hv. unfold loads.
    destruct (loads_fold_total vs asg (repeat 0 k)) as [E1 E2].
    - exact Hlen.
    - rewrite repeat_length. exact Hv.
    - rewrite E1, E2, zsum_repeat0, repeat_length. split; [lia|reflexivity].
  Qed.

  Lemma zsum_le_cap C s : Forall (fun x => x <= C) s -> zsum s <= Z.of_nat (length s) * C.
  Proof.
    induction 1 as [|x l Hx Hl IH]; [rewrite pk_zsum_nil; cbn [length Z.of_nat]; lia|].
    rewrite pk_zsum_cons. cbn [length]. rewrite Nat2Z.inj_succ. lia.
  Qed.

  Lemma packable_total C vs n : Packable C vs n -> zsum vs <= Z.of_nat n * C.
  Proof.
    intros (s & (asg & Hlen & Hv & Hs) & Hcap).
    destruct (loads_total n vs asg Hlen Hv) as [E1 E2]. rewrite Hs in E1, E2.
    rewrite <- E1, <- E2. apply zsum_le_cap. exact Hcap.
  Qed.

  Lemma packable_zero C vs : Packable C vs 0 -> vs = [].
  Proof.
    intros (s & (asg & Hlen & Hv & _) & _). destruct asg as [|i asg].
    - destruct vs; [reflexivity|discriminate Hlen].
    - inversion Hv as [|j l Hi Hrest]; subst. lia.
  Qed.
End LoadsTotal.

Section AnyFitBound.
  Context {A : Type} (valueof : A -> Z).

  Lemma wf_bin_head_le (bn : bin A) y l :
    wf_bin valueof bn -> Forall (fun x => 0 <= valueof x) (snd bn) -> snd bn = y :: l ->
    valueof y <= fst bn.
  Proof.
    unfold wf_bin. intros Hw Hnn E. rewrite E in *. cbn [map] in Hw. rewrite pk_zsum_cons in Hw.
    inversion Hnn as [|z l' Hy Hl]; subst.
    assert (0 <= zsum (map valueof l)) by (apply zsum_nonneg; rewrite Forall_map; exact Hl).
    lia.
  Qed.

  Lemma sums_nonneg_total (b : bins A) :
    wf valueof b -> Forall (fun x => 0 <= valueof x) (contents b) -> 0 <= zsum (sums b).
  Proof.
    intros Hw Hnn. rewrite (wf_total valueof b Hw). apply zsum_nonneg. rewrite Forall_map. exact Hnn.
  Qed.

  (** any two bins together exceed the capacity, so k disjoint pairs hold at least k(C+1) *)
  Lemma anyfit_pairs C : forall k (b : bins A),
    anyfit valueof C b -> wf valueof b -> Forall (fun x => 0 <= valueof x) (contents b) ->
    (2 * k <= length b)%nat -> (C + 1) * Z.of_nat k <= zsum (sums b).
  Proof.
    induction k as [|k IH]; intros b Ha Hw Hnn Hlen.
    - pose proof (sums_nonneg_total b Hw Hnn). cbn [Z.of_nat]. lia.
    - destruct b as [|a [|c t]]; cbn [length] in Hlen; try lia.
      rewrite anyfit_cons in Ha. destruct Ha as [Hac Hct].
      rewrite anyfit_cons in Hct. destruct Hct as [_ Ht].
      inversion Hac as [|c' t' Hc _]; subst.
      inversion Hw as [|a' l' Hwa Hw1]; subst. inversion Hw1 as [|c' l' Hwc Hwt]; subst.
      rewrite !contents_cons in Hnn. apply Forall_app in Hnn. destruct Hnn as [_ Hnn].
      apply Forall_app in Hnn. destruct Hnn as [Hnc Hnt].
      assert (Hpair : C + 1 <= fst a + fst c).
      { unfold later_ok in Hc. destruct (snd c) as [|y l] eqn:E; [contradiction|].
        pose proof (wf_bin_head_le c y l Hwc) as Hy. rewrite E in Hy. specialize (Hy Hnc eq_refl). lia. }
      assert (Hrest : (C + 1) * Z.of_nat k <= zsum (sums t)) by (apply IH; auto; lia).
      unfold sums in *. cbn [map]. rewrite !pk_zsum_cons.
      rewrite Nat2Z.inj_succ. lia.
  Qed.

  Lemma anyfit_two_contents C (b : bins A) :
    anyfit valueof C b -> (2 <= length b)%nat -> contents b <> [].
  Proof.
    intros Ha Hlen. destruct b as [|a [|c t]]; cbn [length] in Hlen; try lia.
    rewrite anyfit_cons in Ha. destruct Ha as [Hac _]. inversion Hac as [|c' t' Hc _]; subst.
    unfold later_ok in Hc. rewrite !contents_cons. destruct (snd c) as [|y l]; [contradiction|].
    intros E. apply app_eq_nil in E. destruct E as [_ E]. discriminate E.
  Qed.

  (** general form: [vs] is any rearrangement of the packed values *)
  Lemma anyfit_lt_2n_perm C (b : bins A) vs n :
    anyfit valueof C b -> wf valueof b -> Forall (fun x => 0 <= valueof x) (contents b) ->
    Permutation (map valueof (contents b)) vs -> Packable C vs n ->
    (2 <= length b)%nat -> (length b <= 2 * n - 1)%nat.
  Proof.
    intros Ha Hw Hnn Hp Hpack Hlen.
    destruct (le_lt_dec (2 * n) (length b)) as [Hbig|Hsmall]; [|lia]. exfalso.
    pose proof (anyfit_pairs C n b Ha Hw Hnn Hbig) as H1.
    pose proof (packable_total C vs n Hpack) as H2.
    rewrite (wf_total valueof b Hw), (zsum_perm _ _ Hp) in H1.
    assert (n = 0)%nat by lia. subst n.
    apply packable_zero in Hpack. subst vs. apply Permutation_sym, Permutation_nil in Hp.
    apply map_eq_nil in Hp. exact (anyfit_two_contents C b Ha Hlen Hp).
  Qed.

  (** WEAK consequence of any-fit (the sharp 1.7 / 11/9 bounds are out of scope): if the
      packed values fit into n bins of capacity C, an any-fit packing with at least two
      bins uses at most 2n - 1 bins.  (With a single bin the bound needs n >= 1, i.e. a
      non-empty bin; see the per-algorithm corollaries below.) *)
  Theorem anyfit_lt_2n C (b : bins A) n :
    anyfit valueof C b -> wf valueof b -> Forall (fun x => 0 <= valueof x) (contents b) ->
    Packable C (map valueof (contents b)) n ->
    (2 <= length b)%nat -> (length b <= 2 * n - 1)%nat.
  Proof. intros Ha Hw Hnn. apply anyfit_lt_2n_perm; auto. Qed.

  Lemma Inv_lt_2n C (b : bins A) items n :
    Inv valueof C b items -> items <> [] -> Forall (fun x => 0 <= valueof x) items ->
    Packable C (map valueof items) n -> (length b <= 2 * n - 1)%nat.
  Proof.
    intros (Hw & _ & Hp & _ & _ & Ha) Hne Hnn Hpack.
    destruct (le_lt_dec 2 (length b)) as [Hbig|Hsmall].
    - apply (anyfit_lt_2n_perm C b (map valueof items) n); auto.
      + eapply Permutation_Forall; [symmetry; exact Hp|exact Hnn].
      + apply Permutation_map. exact Hp.
    - destruct n as [|n]; [|lia]. apply packable_zero in Hpack. apply map_eq_nil in Hpack. congruence.
  Qed.

  Theorem ff_lt_2n C items b n : items <> [] -> Forall (fun x => 0 <= valueof x) items ->
    first_fit valueof true C items = Ok b -> Packable C (map valueof items) n ->
    (length b <= 2 * n - 1)%nat.
  Proof. intros Hne Hnn H. apply Inv_lt_2n; auto. apply ff_Inv; auto. Qed.
  Theorem ffd_lt_2n C items b n : items <> [] -> Forall (fun x => 0 <= valueof x) items ->
    first_fit_decreasing valueof true C items = Ok b -> Packable C (map valueof items) n ->
    (length b <= 2 * n - 1)%nat.
  Proof. intros Hne Hnn H. apply Inv_lt_2n; auto. apply ffd_Inv; auto. Qed.
  Theorem bf_lt_2n C items b n : items <> [] -> Forall (fun x => 0 <= valueof x) items ->
    best_fit valueof true C items = Ok b -> Packable C (map valueof items) n ->
    (length b <= 2 * n - 1)%nat.
  Proof. intros Hne Hnn H. apply Inv_lt_2n; auto. apply bf_Inv; auto. Qed.
  Theorem bfd_lt_2n C items b n : items <> [] -> Forall (fun x => 0 <= valueof x) items ->
    best_fit_decreasing valueof true C items = Ok b -> Packable C (map valueof items) n ->
    (length b <= 2 * n - 1)%nat.
  Proof. intros Hne Hnn H. apply Inv_lt_2n; auto. apply bfd_Inv; auto. Qed.
End AnyFitBound.

Print Assumptions ff_error_iff.
Print Assumptions ff_error_kind.
Print Assumptions ff_error_iff_gen.
Print Assumptions ff_error_kind_gen.
Print Assumptions ff_packing.
Print Assumptions ff_nonempty.
Print Assumptions ff_anyfit.
Print Assumptions ff_erase.
Print Assumptions ff_names.
Print Assumptions ff_lt_2n.
Print Assumptions ffd_error_iff.
Print Assumptions ffd_error_kind.
Print Assumptions ffd_error_iff_gen.
Print Assumptions ffd_error_kind_gen.
Print Assumptions ffd_packing.
Print Assumptions ffd_nonempty.
Print Assumptions ffd_anyfit.
Print Assumptions ffd_erase.
Print Assumptions ffd_names.
Print Assumptions ffd_lt_2n.
Print Assumptions bf_error_iff.
Print Assumptions bf_error_kind.
Print Assumptions bf_error_iff_gen.
Print Assumptions bf_error_kind_gen.
Print Assumptions bf_packing.
Print Assumptions bf_nonempty.
Print Assumptions bf_anyfit.
Print Assumptions bf_erase.
Print Assumptions bf_names.
Print Assumptions bf_lt_2n.
Print Assumptions bfd_error_iff.
Print Assumptions bfd_error_kind.
Print Assumptions bfd_error_iff_gen.
Print Assumptions bfd_error_kind_gen.
Print Assumptions bfd_packing.
Print Assumptions bfd_nonempty.
Print Assumptions bfd_anyfit.
Print Assumptions bfd_erase.
Print Assumptions bfd_names.
Print Assumptions bfd_lt_2n.
Print Assumptions anyfit_lt_2n.
Print Assumptions anyfit_lt_2n_perm.
Print Assumptions packing_empty_negative_capacity.
Print Assumptions bf_negative_value_leaves_empty_bin.
