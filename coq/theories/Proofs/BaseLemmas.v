(** Lemmas about the base definitions: sums, update, stable sorts, argmin, max/min. *)
From Prtpy Require Import Base.Prelude.
From Coq Require Import Sorting.Sorted.

Lemma zsum_app l1 l2 : zsum (l1 ++ l2) = zsum l1 + zsum l2.
Proof. induction l1; simpl; lia. Qed.

Lemma zsum_perm l1 l2 : Permutation l1 l2 -> zsum l1 = zsum l2.
Proof. induction 1; simpl; lia. Qed.

Lemma zsum_nonneg l : Forall (fun x => 0 <= x) l -> 0 <= zsum l.
Proof. induction 1; simpl; lia. Qed.

Lemma zsum_repeat0 n : zsum (repeat 0 n) = 0.
Proof. induction n; simpl; lia. Qed.

Lemma zsum_rev l : zsum (rev l) = zsum l.
Proof. apply zsum_perm. symmetry. apply Permutation_rev. Qed.

(** ---- update ---- *)
Lemma update_length {T} i (f : T -> T) l : length (update i f l) = length l.
Proof. revert i; induction l as [|x t IH]; intros [|j]; simpl; auto. Qed.

Lemma update_nth_same {T} i (f : T -> T) l d : (i < length l)%nat -> nth i (update i f l) d = f (nth i l d).
Proof. revert i; induction l as [|x t IH]; intros [|j]; simpl; intros H; try lia; auto. apply IH; lia. Qed.

Lemma update_nth_other {T} i j (f : T -> T) l d : i <> j -> nth j (update i f l) d = nth j l d.
Proof. revert i j; induction l as [|x t IH]; intros [|i] [|j]; simpl; intros H; try congruence; auto. Qed.

Lemma update_out {T} i (f : T -> T) l : (length l <= i)%nat -> update i f l = l.
Proof. revert i; induction l as [|x t IH]; intros [|j]; simpl; intros H; try lia; auto. f_equal. apply IH; lia. Qed.

Lemma update_split {T} i (f : T -> T) l : (i < length l)%nat ->
  exists l1 x l2, l = l1 ++ x :: l2 /\ length l1 = i /\ update i f l = l1 ++ f x :: l2.
Proof.
  revert i; induction l as [|x t IH]; intros [|j]; simpl; intros H; try lia.
  - exists [], x, t; auto.
  - destruct (IH j) as (l1 & y & l2 & E1 & E2 & E3); [lia|].
    exists (x :: l1), y, l2. simpl. rewrite E3. subst. auto.
Qed.

Lemma zsum_update i f l : (i < length l)%nat ->
  zsum (update i f l) = zsum l - nth i l 0 + f (nth i l 0).
Proof.
  revert i; induction l as [|x t IH]; intros [|j]; simpl; intros H; try lia.
  rewrite IH; lia.
Qed.

Lemma map_update {T U} (g : T -> U) (f : T -> T) (f' : U -> U) i l :
  (forall x, g (f x) = f' (g x)) -> map g (update i f l) = update i f' (map g l).
Proof. intros H. revert i; induction l as [|x t IH]; intros [|j]; simpl; auto; f_equal; auto. Qed.

(** ---- stable insertion sort ---- *)
Section SortLemmas.
  Context {T : Type} (key : T -> Z).

  Lemma insert_asc_perm x l : Permutation (insert_asc key x l) (x :: l).
  Proof.
    induction l as [|y t IH]; simpl; auto.
    destruct (key x <=? key y); auto.
    rewrite IH. apply perm_swap.
  Qed.

  Lemma sort_asc_perm l : Permutation (sort_asc key l) l.
  Proof. induction l as [|x t IH]; simpl; auto. rewrite insert_asc_perm. auto. Qed.

  Lemma sort_asc_length l : length (sort_asc key l) = length l.
  Proof. apply Permutation_length, sort_asc_perm. Qed.

  Definition key_sorted (l : list T) : Prop := StronglySorted (fun a b => key a <= key b) l.

  Lemma insert_asc_sorted x l : key_sorted l -> key_sorted (insert_asc key x l).
  Proof.
    induction 1 as [|y t Ht IH Hy]; simpl.
    - repeat constructor.
    - destruct (key x <=? key y) eqn:E.
      + constructor. constructor; auto. constructor; [lia|].
        eapply Forall_impl; [|exact Hy]. simpl; intros; lia.
      + constructor; auto.
        eapply Permutation_Forall; [symmetry; apply insert_asc_perm|].
        constructor; auto; lia.
  Qed.

  Lemma sort_asc_sorted l : key_sorted (sort_asc key l).
  Proof. induction l; simpl; [constructor|apply insert_asc_sorted; auto]. Qed.

  (** a sorted list is a fixpoint of the sort (so re-sorting is the identity) *)
  Lemma insert_asc_head x l : Forall (fun y => key x <= key y) l -> insert_asc key x l = x :: l.
  Proof. destruct l as [|y t]; simpl; auto. intros H. inversion H; subst. destruct (key x <=? key y) eqn:E; auto; lia. Qed.

  Lemma sort_asc_id l : key_sorted l -> sort_asc key l = l.
  Proof. induction 1 as [|y t Ht IH Hy]; simpl; auto. rewrite IH. apply insert_asc_head; auto. Qed.

  Lemma sort_asc_idem l : sort_asc key (sort_asc key l) = sort_asc key l.
  Proof. apply sort_asc_id, sort_asc_sorted. Qed.

  Lemma sort_asc_In x l : In x (sort_asc key l) <-> In x l.
  Proof. split; apply Permutation_in; [|symmetry]; apply sort_asc_perm. Qed.
End SortLemmas.

Lemma sort_desc_perm {T} (key : T -> Z) l : Permutation (sort_desc key l) l.
Proof. apply sort_asc_perm. Qed.

Lemma sort_desc_length {T} (key : T -> Z) l : length (sort_desc key l) = length l.
Proof. apply sort_asc_length. Qed.

Lemma sort_desc_sorted {T} (key : T -> Z) l :
  StronglySorted (fun a b => key b <= key a) (sort_desc key l).
Proof.
  pose proof (sort_asc_sorted (fun x => - key x) l) as H. unfold sort_desc, key_sorted in *.
  induction H; constructor; auto. eapply Forall_impl; [|eassumption]. simpl; intros; lia.
Qed.

(** sorting commutes with a key-preserving map (used for names-irrelevance) *)
Lemma insert_asc_map {T U} (g : T -> U) (kT : T -> Z) (kU : U -> Z) x l :
  (forall y, kU (g y) = kT y) -> map g (insert_asc kT x l) = insert_asc kU (g x) (map g l).
Proof. intros H. induction l as [|y t IH]; simpl; auto. rewrite !H. destruct (kT x <=? kT y); simpl; auto. f_equal; auto. Qed.

Lemma sort_asc_map {T U} (g : T -> U) (kT : T -> Z) (kU : U -> Z) l :
  (forall y, kU (g y) = kT y) -> map g (sort_asc kT l) = sort_asc kU (map g l).
Proof. intros H. induction l as [|x t IH]; simpl; auto. rewrite (insert_asc_map g kT kU); auto. rewrite IH; auto. Qed.

Lemma sort_desc_map {T U} (g : T -> U) (kT : T -> Z) (kU : U -> Z) l :
  (forall y, kU (g y) = kT y) -> map g (sort_desc kT l) = sort_desc kU (map g l).
Proof. intros H. apply sort_asc_map. intros; rewrite H; auto. Qed.

(** ---- max / min ---- *)
Lemma zmax_list_ge d l : d <= zmax_list d l /\ Forall (fun x => x <= zmax_list d l) l.
Proof.
  revert d; induction l as [|x t IH]; intros d; simpl; [split; [lia|constructor]|].
  destruct (IH (Z.max d x)) as [H1 H2]. split; [lia|]. constructor; auto; lia.
Qed.
Lemma zmax_list_in d l : zmax_list d l = d \/ In (zmax_list d l) l.
Proof.
  revert d; induction l as [|x t IH]; intros d; simpl; auto.
  destruct (IH (Z.max d x)) as [H|H]; auto. rewrite H. destruct (Z.max_spec d x) as [[_ E]|[_ E]]; rewrite E; auto.
Qed.
Lemma zmin_list_le d l : zmin_list d l <= d /\ Forall (fun x => zmin_list d l <= x) l.
Proof.
  revert d; induction l as [|x t IH]; intros d; simpl; [split; [lia|constructor]|].
  destruct (IH (Z.min d x)) as [H1 H2]. split; [lia|]. constructor; auto; lia.
Qed.
Lemma zmin_list_in d l : zmin_list d l = d \/ In (zmin_list d l) l.
Proof.
  revert d; induction l as [|x t IH]; intros d; simpl; auto.
  destruct (IH (Z.min d x)) as [H|H]; auto. rewrite H. destruct (Z.min_spec d x) as [[_ E]|[_ E]]; rewrite E; auto.
Qed.

Lemma zmax_ge l : Forall (fun x => x <= zmax l) l.
Proof. destruct l as [|x t]; simpl; [constructor|]. destruct (zmax_list_ge x t). constructor; auto. Qed.
Lemma zmax_in l : l <> [] -> In (zmax l) l.
Proof. destruct l as [|x t]; [congruence|]. intros _. simpl. destruct (zmax_list_in x t); auto. Qed.
Lemma zmin_le l : Forall (fun x => zmin l <= x) l.
Proof. destruct l as [|x t]; simpl; [constructor|]. destruct (zmin_list_le x t). constructor; auto. Qed.
Lemma zmin_in l : l <> [] -> In (zmin l) l.
Proof. destruct l as [|x t]; [congruence|]. intros _. simpl. destruct (zmin_list_in x t); auto. Qed.

Lemma zmax_perm l1 l2 : Permutation l1 l2 -> zmax l1 = zmax l2.
Proof.
  intros P. destruct l1 as [|x t].
  - apply Permutation_nil in P. subst; auto.
  - assert (l2 <> []) by (intro; subst; apply Permutation_sym, Permutation_nil in P; discriminate).
    assert (H1 : In (zmax (x :: t)) l2) by (eapply Permutation_in; [exact P|apply zmax_in; discriminate]).
    assert (H2 : In (zmax l2) (x :: t)) by (eapply Permutation_in; [symmetry; exact P|apply zmax_in; auto]).
    pose proof (zmax_ge (x :: t)) as G1. pose proof (zmax_ge l2) as G2.
    rewrite Forall_forall in G1, G2. apply G1 in H2. apply G2 in H1. lia.
Qed.
Lemma zmin_perm l1 l2 : Permutation l1 l2 -> zmin l1 = zmin l2.
Proof.
  intros P. destruct l1 as [|x t].
  - apply Permutation_nil in P. subst; auto.
  - assert (l2 <> []) by (intro; subst; apply Permutation_sym, Permutation_nil in P; discriminate).
    assert (H1 : In (zmin (x :: t)) l2) by (eapply Permutation_in; [exact P|apply zmin_in; discriminate]).
    assert (H2 : In (zmin l2) (x :: t)) by (eapply Permutation_in; [symmetry; exact P|apply zmin_in; auto]).
    pose proof (zmin_le (x :: t)) as G1. pose proof (zmin_le l2) as G2.
    rewrite Forall_forall in G1, G2. apply G1 in H2. apply G2 in H1. lia.
Qed.

(** ---- argmin: first index of a minimum ---- *)
Lemma argmin_aux_spec l i besti bestv :
  let r := argmin_aux l i besti bestv in
  (r = besti /\ Forall (fun x => bestv <= x) l) \/
  (exists j, r = (i + j)%nat /\ (j < length l)%nat /\ nth j l 0 < bestv /\
             Forall (fun x => nth j l 0 <= x) l /\
             forall j', (j' < j)%nat -> nth j l 0 < nth j' l 0).
Proof.
  revert i besti bestv; induction l as [|x t IH]; intros i besti bestv; simpl.
  - left; auto.
  - destruct (x <? bestv) eqn:E.
    + destruct (IH (S i) i x) as [[H1 H2]|(j & H1 & H2 & H3 & H4 & H5)].
      * right. exists O. simpl. repeat split; try lia; auto. constructor; auto; lia.
      * right. exists (S j). simpl. repeat split; try lia; auto.
        -- constructor; auto; lia.
        -- intros [|j'] Hj; [lia|]. apply H5; lia.
    + destruct (IH (S i) besti bestv) as [[H1 H2]|(j & H1 & H2 & H3 & H4 & H5)].
      * left. split; auto. constructor; auto; lia.
      * right. exists (S j). simpl. repeat split; try lia; auto.
        -- constructor; auto; lia.
        -- intros [|j'] Hj; [lia|]. apply H5; lia.
Qed.

Lemma argmin_spec l : l <> [] ->
  (argmin l < length l)%nat /\ Forall (fun x => nth (argmin l) l 0 <= x) l /\
  forall j, (j < argmin l)%nat -> nth (argmin l) l 0 < nth j l 0.
Proof.
  destruct l as [|x t]; [congruence|]. intros _. unfold argmin.
  destruct (argmin_aux_spec t 1%nat O x) as [[H1 H2]|(j & H1 & H2 & H3 & H4 & H5)]; rewrite H1; simpl.
  - repeat split; try lia. constructor; auto; lia.
  - repeat split; try lia.
    + constructor; auto; lia.
    + intros [|j'] Hj; [lia|]. apply H5; lia.
Qed.
