(** C18, exact algorithms: symmetry and cross-agreement corollaries obtained from the optimality
    theorems (C02) and the specification-level symmetries of the optimum (Proofs/MetaProofs.v).
    Plain values: A = Z, valueof = nameof = fun v => v. *)
From Prtpy Require Import Base.Prelude Model.Binner Model.Objectives Model.Greedy Model.KK Model.CG Model.DP Model.SNP
  Spec.Partition Proofs.DPProofs Proofs.CGOptimal Proofs.CKKOptimal Proofs.Glue Proofs.MetaProofs Proofs.RatioProofs.

Notation idv := (fun v : Z => v).

(** "b is an optimal result for objective o": its objective value is the optimum over all assignments *)
Definition optimal_result (o : objective) (k : nat) (vs : list Z) (b : bins Z) : Prop :=
  Opt o k vs (value o (sums b) false).

Lemma map_idv (l : list Z) : map idv l = l.
Proof. apply map_id. Qed.

(** each exact algorithm returns an optimal result (restated on plain values) *)
Theorem dp_optimal_result o k vs b : (1 <= k)%nat -> dp idv true o k vs = Ok b -> optimal_result o k vs b.
Proof. intros Hk H. pose proof (dp_optimal idv o k vs b Hk H) as G. rewrite map_idv in G. exact G. Qed.

Theorem cg_optimal_result o flags k vs b : (1 <= k)%nat -> Forall (fun v => 0 <= v) vs ->
  cg idv true o flags None k vs = Some b -> optimal_result o k vs b.
Proof. intros Hk Hnn H. pose proof (cg_optimal idv o flags k vs b Hk Hnn H) as G. rewrite map_idv in G. exact G. Qed.

Theorem ckk_optimal_result k vs b : (1 <= k)%nat -> vs <> [] -> Forall (fun v => 0 <= v) vs ->
  ckk idv idv true k vs = Ok b -> optimal_result MinDiff k vs b.
Proof. intros Hk Hne Hnn H. pose proof (ckk_optimal_values idv k vs b Hk Hne Hnn H) as G. rewrite map_idv in G. exact G. Qed.

Theorem snp_optimal_result k vs b : (1 <= k)%nat -> vs <> [] -> Forall (fun v => 0 <= v) vs ->
  snp idv idv true k vs = Ok b -> optimal_result MinDiff k vs b.
Proof. intros Hk Hne Hnn H. exact (snp_optimal_values k vs b Hk Hne Hnn H). Qed.

(** any two optimal results for the same objective report the same optimal value ... *)
Theorem optimal_results_agree o k vs b1 b2 : optimal_result o k vs b1 -> optimal_result o k vs b2 ->
  value o (sums b1) false = value o (sums b2) false.
Proof. intros H1 H2. exact (exact_agree o k vs _ _ H1 H2). Qed.

(** ... whatever the order of the input ... *)
Theorem optimal_results_perm o k vs vs' b b' : Permutation vs vs' ->
  optimal_result o k vs b -> optimal_result o k vs' b' -> value o (sums b) false = value o (sums b') false.
Proof. intros P H1 H2. exact (exact_agree_perm o k vs vs' _ _ P H1 H2). Qed.

(** ... multiplied by c when every value is multiplied by c > 0 ... *)
Theorem optimal_results_scale o k vs c b b' : 0 < c ->
  optimal_result o k vs b -> optimal_result o k (map (Z.mul c) vs) b' ->
  value o (sums b') false = c * value o (sums b) false.
Proof. intros Hc H1 H2. exact (exact_agree_scale o k vs c _ _ Hc H1 H2). Qed.

(** ... and unchanged by adding zero-valued items anywhere *)
Theorem optimal_results_zeros o k vs vs' n b b' : (1 <= k)%nat -> Permutation vs' (vs ++ repeat 0 n) ->
  optimal_result o k vs b -> optimal_result o k vs' b' -> value o (sums b) false = value o (sums b') false.
Proof. intros Hk P H1 H2. exact (exact_agree_zeros o k vs vs' n _ _ Hk P H1 H2). Qed.

(** never worse than greedy (or any algorithm returning attainable sums) *)
Theorem optimal_result_le_greedy o k vs b : (1 <= k)%nat -> optimal_result o k vs b ->
  value o (sums b) false <= value o (sums (greedy id true k vs)) false.
Proof. intros Hk H. exact (greedy_ge_opt o k vs _ Hk H). Qed.

(** concrete instances: complete greedy (any switches) agrees with dynamic programming; the three
    difference-minimisers agree with each other *)
Theorem cg_dp_agree o flags k vs b1 b2 : (1 <= k)%nat -> Forall (fun v => 0 <= v) vs ->
  cg idv true o flags None k vs = Some b1 -> dp idv true o k vs = Ok b2 ->
  value o (sums b1) false = value o (sums b2) false.
Proof.
  intros Hk Hnn H1 H2. apply (optimal_results_agree o k vs); [apply (cg_optimal_result o flags)|apply dp_optimal_result]; assumption.
Qed.

Theorem cg_switches_agree o f1 f2 k vs b1 b2 : (1 <= k)%nat -> Forall (fun v => 0 <= v) vs ->
  cg idv true o f1 None k vs = Some b1 -> cg idv true o f2 None k vs = Some b2 ->
  value o (sums b1) false = value o (sums b2) false.
Proof.
  intros Hk Hnn H1 H2. apply (optimal_results_agree o k vs); [apply (cg_optimal_result o f1)|apply (cg_optimal_result o f2)]; assumption.
Qed.

Theorem ckk_snp_cg_agree flags k vs b1 b2 b3 : (1 <= k)%nat -> vs <> [] -> Forall (fun v => 0 <= v) vs ->
  ckk idv idv true k vs = Ok b1 -> snp idv idv true k vs = Ok b2 -> cg idv true MinDiff flags None k vs = Some b3 ->
  value MinDiff (sums b1) false = value MinDiff (sums b2) false /\
  value MinDiff (sums b2) false = value MinDiff (sums b3) false.
Proof.
  intros Hk Hne Hnn H1 H2 H3.
  pose proof (ckk_optimal_result k vs b1 Hk Hne Hnn H1) as O1.
  pose proof (snp_optimal_result k vs b2 Hk Hne Hnn H2) as O2.
  pose proof (cg_optimal_result MinDiff flags k vs b3 Hk Hnn H3) as O3.
  split; [exact (optimal_results_agree _ _ _ _ _ O1 O2)|exact (optimal_results_agree _ _ _ _ _ O2 O3)].
Qed.

Print Assumptions dp_optimal_result.
Print Assumptions cg_optimal_result.
Print Assumptions ckk_optimal_result.
Print Assumptions snp_optimal_result.
Print Assumptions optimal_results_agree.
Print Assumptions optimal_results_perm.
Print Assumptions optimal_results_scale.
Print Assumptions optimal_results_zeros.
Print Assumptions optimal_result_le_greedy.
Print Assumptions cg_dp_agree.
Print Assumptions cg_switches_agree.
Print Assumptions ckk_snp_cg_agree.
