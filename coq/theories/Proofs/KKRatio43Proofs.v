(** Property C08, second part: the Karmarkar-Karp heuristic (Model/KK.v, [kk]) never produces a
    largest sum above (4/3 - 1/(3k)) times the optimal largest sum, for EVERY k >= 1
    (Michiels, Korst, Aarts, van Leeuwen 2003/2007).  This closes [KKRatioProofs.kk_ratio_43_statement].

    Proved (hypotheses: 1 <= k, items <> [], values >= 0, kk = Ok b, Opt MinLargest k values opt):
      kk_dichotomy_third          : zmax (sums b) <= opt  \/  zmax (sums b) - zmin (sums b) <= opt / 3
      kk_ratio_43                 : 3 k L <= (4 k - 1) opt          (the requested bound, every k)
      kk_ratio_43_statement_holds : KKRatioProofs.kk_ratio_43_statement
      kk_ratio_43_flat            : 3 L <= 4 opt
      kk_ratio_k3                 : k = 3:  9 L <= 11 opt
    (the bound is attained for k = 2, [kk_43_attained_k2]; for k >= 3 the best known lower bound is
    4/3 - 1/(3(k-1)), so the sharp constant for k = 3 lies between 7/6 and the 11/9 proved here).

    Plan of the proof (T = the optimum, G = T / 3, an item is "large" when its value exceeds G, an
    entry of the heap is "big" when its spread exceeds G, a bin of an entry is "low" when it is
    within G of the smallest bin of that entry).  The dichotomy is an invariant of the heap
    ([Inv], section 7): either all spreads are <= G (and stay so, [KKProofs.kk_combine_spread]), or
      - every entry but possibly the first is "clean": a single small item ([SUk]), or made of large
        items only with every bin <= T and at most one item per bin while it has an empty bin ([PUk]);
      - the first entry may be "dirty" (it has absorbed small items); then every other entry has
        spread <= G, and every bin of the first entry is low or made of large items and <= T ([Bk]);
      - ([Rel]) the large items of an entry that has a bin without large item are below the large
        items of every other entry with at least two items; two entries with a large item in
        every bin are ordered.
    A step combines the two first entries.  small + small is small; dirty/clean + single small
    item: the item lands in the smallest bin, which becomes low ([abs_Bk]); clean + clean
    ([pp_PUk]) and dirty + clean of small spread ([bs_Bk]) create bins with two large items, and
    these are bounded by T with Graham's weight argument ([RatioProofs.two_per_bin_contra]): for a
    large x, an item a >= x weighs 2 if a + x > T and 1 otherwise ([wx]); an optimal partition shows
    that the total weight is <= 2k ([W_upper]); if a new bin (u, x) exceeded T, every bin of the new
    entry would weigh >= 2 and that bin >= 3 ([cert_full], [pp_eq]).  The way the bins of the two
    entries are matched (largest with smallest) is used only through its anti-monotonicity
    ([matching_AM]), so ties between sums or spreads need no special treatment.
    All invariants were first validated numerically (python transcription of kk against a
    brute-force optimum, 30000 random instances with k = 2..5 and 3..13 items). *)
From Prtpy Require Import Base.Prelude Base.Perms Model.Binner Model.KK Model.Objectives
  Spec.Partition Proofs.BaseLemmas Proofs.BinnerLemmas Proofs.KKProofs Proofs.RatioProofs
  Proofs.CKKOptimal Proofs.GreedyProofs Oracle.Reach Proofs.OracleSpec Proofs.KKRatioProofs.
From Coq Require Import Sorting.Sorted ZifyBool.

(** ---- 1. weights ---- *)
Definition wx (T x a : Z) : Z := if a <? x then 0 else if T <? a + x then 2 else 1.
Definition W (T x : Z) (l : list Z) : Z := zsum (map (wx T x) l).

Lemma wx_nonneg T x a : 0 <= wx T x a.
Proof. unfold wx. destruct (a <? x); [lia|]. destruct (T <? a + x); lia. Qed.

Lemma W_nil T x : W T x [] = 0.
Proof. reflexivity. Qed.

Lemma W_cons T x a l : W T x (a :: l) = wx T x a + W T x l.
Proof. reflexivity. Qed.

Lemma W_app T x l1 l2 : W T x (l1 ++ l2) = W T x l1 + W T x l2.
Proof. unfold W. rewrite map_app, zsum_app. reflexivity. Qed.

Lemma W_perm T x l1 l2 : Permutation l1 l2 -> W T x l1 = W T x l2.
Proof. intros P. unfold W. apply zsum_perm, Permutation_map, P. Qed.

Lemma W_nonneg T x l : 0 <= W T x l.
Proof. induction l as [|a t IH]; [rewrite W_nil; lia|]. rewrite W_cons. pose proof (wx_nonneg T x a). lia. Qed.

Lemma W_ge_cnt T x l : cnt_ge x l <= W T x l.
Proof.
  induction l as [|a t IH]; [cbn; lia|]. rewrite W_cons, cnt_ge_cons. unfold ind_ge, wx.
  destruct (x <=? a) eqn:E1; destruct (a <? x) eqn:E2; try lia; destruct (T <? a + x); lia.
Qed.

(** upper side: the optimum *)
Definition Pw (T x l wl : Z) : Prop :=
  0 <= wl /\ 0 <= l /\ (wl = 1 -> x <= l /\ T < 3 * l) /\
  (wl = 2 -> T < l + x \/ 2 * T < 3 * l) /\ (3 <= wl -> T < l).

Lemma Pw_step T x a l wl : 0 <= x -> T < 3 * x -> 0 <= a ->
  Pw T x l wl -> Pw T x (l + a) (wl + wx T x a).
Proof.
  unfold Pw, wx. intros Hx HTx Ha (H0 & H1 & H2 & H3 & H4).
  destruct (a <? x) eqn:E1; [|destruct (T <? a + x) eqn:E2]; lia.
Qed.

Lemma W_upper k T x vs s : 0 <= x -> T < 3 * x -> Forall (fun v => 0 <= v) vs ->
  Attainable k vs s -> Forall (fun a => a <= T) s -> W T x vs <= 2 * Z.of_nat k.
Proof.
  intros Hx HTx Hpos Hs HT.
  destruct (weights_along (Pw T x) (wx T x) k vs s) as (t & H1 & H2 & H3).
  - unfold Pw. lia.
  - eapply Forall_impl; [|exact Hpos]. intros a Ha l wl Hl. apply Pw_step; assumption.
  - exact Hs.
  - unfold W. rewrite <- H3.
    assert (Ht : Forall (fun b => b <= 2) t).
    { apply (Forall2_transfer (Pw T x) (fun a => a <= T) (fun b => b <= 2)) with (s := s); auto.
      unfold Pw. intros a b Hab Ha. lia. }
    pose proof (zsum_le_bound 2 t Ht) as H4. rewrite H2 in H4. lia.
Qed.

(** lower side: a group of values >= x whose sum exceeds T - x weighs at least 2 *)
Definition Pl (T x l wl : Z) : Prop := 0 <= wl /\ (wl = 0 -> l <= 0) /\ (wl = 1 -> l + x <= T).

Lemma W_Pl T x l : Forall (fun a => x <= a) l -> Pl T x (zsum l) (W T x l).
Proof.
  induction 1 as [|a t Ha Ht IH]; [unfold Pl; cbn; lia|].
  rewrite W_cons, zs_cons. unfold Pl, wx in *.
  destruct (a <? x) eqn:E1; [lia|]. destruct (T <? a + x) eqn:E2; lia.
Qed.

Lemma W_heavy T x l : x <= T -> Forall (fun a => x <= a) l -> T - x < zsum l -> 2 <= W T x l.
Proof. intros HxT Hl Hs. pose proof (W_Pl T x l Hl) as H. unfold Pl in H. lia. Qed.

Lemma cnt_ge_in g z l : In z l -> g <= z -> 1 <= cnt_ge g l.
Proof.
  induction l as [|a t IH]; [intros []|]. intros [E|Hin] Hz; rewrite cnt_ge_cons; unfold ind_ge.
  - subst a. pose proof (cnt_ge_nonneg g t). destruct (g <=? z) eqn:E; lia.
  - specialize (IH Hin Hz). destruct (g <=? a); lia.
Qed.

(** the number of values above T/3 *)
Definition Pc (T l wl : Z) : Prop :=
  0 <= wl /\ 0 <= l /\ (1 <= wl -> T < 3 * l) /\ (2 <= wl -> 2 * T < 3 * l) /\ (3 <= wl -> T < l).

Lemma Pc_step T g a l wl : T < 3 * g + 3 -> 0 <= a -> Pc T l wl -> Pc T (l + a) (wl + ind_gt g a).
Proof. unfold Pc, ind_gt. intros Hg Ha (H0 & H1 & H2 & H3 & H4). destruct (g <? a) eqn:E; lia. Qed.

Lemma large_count k T g vs s : T < 3 * g + 3 -> Forall (fun v => 0 <= v) vs ->
  Attainable k vs s -> Forall (fun a => a <= T) s -> cnt_gt g vs <= 2 * Z.of_nat k.
Proof.
  intros Hg Hpos Hs HT.
  destruct (weights_along (Pc T) (ind_gt g) k vs s) as (t & H1 & H2 & H3).
  - unfold Pc. lia.
  - eapply Forall_impl; [|exact Hpos]. intros a Ha l wl Hl. apply Pc_step; assumption.
  - exact Hs.
  - unfold cnt_gt. rewrite <- H3.
    assert (Ht : Forall (fun b => b <= 2) t).
    { apply (Forall2_transfer (Pc T) (fun a => a <= T) (fun b => b <= 2)) with (s := s); auto.
      unfold Pc. intros a b Hab Ha. lia. }
    pose proof (zsum_le_bound 2 t Ht) as H4. rewrite H2 in H4. lia.
Qed.

(** ---- 2. lists: pairwise relations, sorted insertion, matchings ---- *)
Fixpoint PW {X} (R : X -> X -> Prop) (l : list X) : Prop :=
  match l with [] => True | x :: t => Forall (R x) t /\ PW R t end.

Lemma PW_perm {X} (R : X -> X -> Prop) : (forall x y, R x y -> R y x) ->
  forall l l', Permutation l l' -> PW R l -> PW R l'.
Proof.
  intros Hsym l l' P. induction P as [|x l l' P IH|x y l|l l' l'' P1 IH1 P2 IH2]; intros H.
  - exact H.
  - destruct H as [H1 H2]. split; [eapply Permutation_Forall; eassumption|apply IH; exact H2].
  - destruct H as [H1 [H2 H3]]. apply Forall_cons_iff in H1. destruct H1 as [Hyx H1].
    split; [constructor; [apply Hsym; exact Hyx|exact H2]|split; assumption].
  - apply IH2, IH1, H.
Qed.

Lemma PW_tail {X} (R : X -> X -> Prop) x l : PW R (x :: l) -> PW R l.
Proof. intros [_ H]. exact H. Qed.

Lemma PW_in {X} (R : X -> X -> Prop) : (forall x y, R x y -> R y x) ->
  forall l x y l1 l2, PW R l -> l = l1 ++ x :: l2 -> In y (l1 ++ l2) -> R x y.
Proof.
  intros Hsym l x y l1 l2 H E Hy. subst l.
  assert (P : Permutation (l1 ++ x :: l2) (x :: l1 ++ l2)) by (symmetry; apply Permutation_middle).
  pose proof (PW_perm R Hsym _ _ P H) as [H1 _]. rewrite Forall_forall in H1. apply H1. exact Hy.
Qed.

Lemma in_two {X} (x y : X) l : In x l -> In y l -> x <> y ->
  exists l1 l2 l3, l = l1 ++ x :: l2 ++ y :: l3 \/ l = l1 ++ y :: l2 ++ x :: l3.
Proof.
  intros Hx Hy Hne. destruct (in_split x l Hx) as (l1 & l2 & E). subst l.
  apply in_app_or in Hy. destruct Hy as [Hy|[Hy|Hy]]; [|congruence|].
  - destruct (in_split y l1 Hy) as (m1 & m2 & E). subst l1.
    exists m1, m2, l2. right. rewrite <- app_assoc. reflexivity.
  - destruct (in_split y l2 Hy) as (m1 & m2 & E). subst l2.
    exists l1, m1, m2. left. reflexivity.
Qed.

Lemma map_fst_combine {X Y} : forall (l1 : list X) (l2 : list Y), length l1 = length l2 ->
  map fst (combine l1 l2) = l1.
Proof.
  induction l1 as [|x t IH]; intros [|y t2] H; cbn [length] in H; try discriminate; [reflexivity|].
  cbn [combine map fst]. f_equal. apply IH. lia.
Qed.

Lemma map_snd_combine {X Y} : forall (l1 : list X) (l2 : list Y), length l1 = length l2 ->
  map snd (combine l1 l2) = l2.
Proof.
  induction l1 as [|x t IH]; intros [|y t2] H; cbn [length] in H; try discriminate; [reflexivity|].
  cbn [combine map snd]. f_equal. apply IH. lia.
Qed.

Lemma SSorted_combine {X Y} (R1 : X -> X -> Prop) (R2 : Y -> Y -> Prop) : forall l1 l2,
  StronglySorted R1 l1 -> StronglySorted R2 l2 ->
  StronglySorted (fun p q => R1 (fst p) (fst q) /\ R2 (snd p) (snd q)) (combine l1 l2).
Proof.
  induction l1 as [|x t IH]; intros [|y t2] H1 H2; cbn [combine]; try constructor.
  - apply IH; [inversion H1; assumption|inversion H2; assumption].
  - inversion H1 as [|x' t' _ Hx]; subst. inversion H2 as [|y' t2' _ Hy]; subst.
    rewrite Forall_forall in *. intros [p q] Hin. cbn [fst snd]. split.
    + apply Hx. eapply in_combine_l. exact Hin.
    + apply Hy. eapply in_combine_r. exact Hin.
Qed.

Lemma SSorted_total {X} (R : X -> X -> Prop) l : StronglySorted R l -> (forall x, R x x) ->
  forall x y, In x l -> In y l -> R x y \/ R y x.
Proof.
  intros Hs Hrefl. induction Hs as [|a t Ht IH Ha]; intros x y Hx Hy; [destruct Hx|].
  rewrite Forall_forall in Ha. destruct Hx as [Ex|Hx]; destruct Hy as [Ey|Hy]; subst.
  - left. apply Hrefl.
  - left. apply Ha. exact Hy.
  - right. apply Ha. exact Hx.
  - apply IH; assumption.
Qed.

Lemma zsum_ge_with_one {X} (g : X -> Z) b l x0 : Forall (fun x => b <= g x) l -> In x0 l ->
  b + 1 <= g x0 -> Z.of_nat (length l) * b + 1 <= zsum (map g l).
Proof.
  intros HF Hin H0. destruct (in_split x0 l Hin) as (l1 & l2 & E). subst l.
  apply Forall_app in HF. destruct HF as [HF1 HF2]. apply Forall_cons_iff in HF2. destruct HF2 as [_ HF2].
  rewrite map_app, zsum_app. cbn [map]. rewrite zs_cons.
  assert (G1 : Forall (fun a => b <= a) (map g l1)) by (rewrite Forall_map; exact HF1).
  assert (G2 : Forall (fun a => b <= a) (map g l2)) by (rewrite Forall_map; exact HF2).
  pose proof (zsum_ge_bound b _ G1) as B1. pose proof (zsum_ge_bound b _ G2) as B2.
  rewrite map_length in B1, B2. rewrite app_length. cbn [length]. lia.
Qed.

Section Heap0.
  Context {A : Type}.
  Definition keysorted (h : @heap A) : Prop := StronglySorted (fun x y : @hentry A => fst x <= fst y) h.

  Lemma heap_insert_sorted (e : @hentry A) h : keysorted h -> keysorted (heap_insert e h).
  Proof.
    unfold keysorted. induction 1 as [|y t Ht IH Hy]; cbn [heap_insert]; [repeat constructor|].
    destruct (fst e <? fst y) eqn:E.
    - constructor; [constructor; assumption|]. constructor; [lia|].
      eapply Forall_impl; [|exact Hy]. intros z Hz. cbv beta in Hz. lia.
    - constructor; [exact IH|]. eapply Permutation_Forall; [symmetry; apply heap_insert_perm|].
      constructor; [lia|exact Hy].
  Qed.

  Lemma keysorted_tail (e : @hentry A) h : keysorted (e :: h) -> keysorted h /\ Forall (fun y => fst e <= fst y) h.
  Proof. intros H. inversion H as [|x t H1 H2]; subst. split; assumption. Qed.

  Lemma PW_heap_insert (R : @hentry A -> @hentry A -> Prop) : (forall x y, R x y -> R y x) ->
    forall e h, PW R h -> Forall (R e) h -> PW R (heap_insert e h).
  Proof.
    intros Hsym e h H1 H2. apply (PW_perm R Hsym (e :: h)); [symmetry; apply heap_insert_perm|].
    split; assumption.
  Qed.

  (** zip_combine as a map over the list of matched pairs *)
  Definition cb (p : bin A * bin A) : bin A := combine_bin (fst p) (snd p).

  Lemma zip_combine_map : forall b1 b2 : bins A, length b1 = length b2 ->
    zip_combine b1 b2 = map cb (combine b1 b2).
  Proof.
    induction b1 as [|x t IH]; intros [|y t2] H; cbn [length] in H; try discriminate; [reflexivity|].
    cbn [zip_combine combine map]. f_equal. apply IH. lia.
  Qed.

  Lemma sums_sorted_bins (b : bins A) : StronglySorted Z.le (sums b) ->
    StronglySorted (fun x y : bin A => fst x <= fst y) b.
  Proof.
    unfold sums. induction b as [|bn b IH]; intros H; [constructor|].
    cbn [map] in H. inversion H as [|x t H1 H2]; subst. constructor; [apply IH; exact H1|].
    rewrite Forall_map in H2. exact H2.
  Qed.

  (** the matching of the bins of two entries: anti-monotone in the sums *)
  Definition AM (p q : bin A * bin A) : Prop :=
    fst (fst p) <= fst (fst q) /\ fst (snd q) <= fst (snd p).
  Definition matching (a f : bins A) : list (bin A * bin A) := combine a (rev f).

  Lemma matching_AM (a f : bins A) : StronglySorted Z.le (sums a) -> StronglySorted Z.le (sums f) ->
    forall p q, In p (matching a f) -> In q (matching a f) -> AM p q \/ AM q p.
  Proof.
    intros Sa Sf. unfold matching, AM.
    apply (SSorted_total (fun p q : bin A * bin A => fst (fst p) <= fst (fst q) /\ fst (snd q) <= fst (snd p))).
    - apply (SSorted_combine (fun x y : bin A => fst x <= fst y) (fun x y : bin A => fst y <= fst x)).
      + apply sums_sorted_bins. exact Sa.
      + apply SSorted_rev. apply sums_sorted_bins. exact Sf.
    - intros x. lia.
  Qed.

  Lemma matching_fst (a f : bins A) : length a = length f -> map fst (matching a f) = a.
  Proof. intros H. apply map_fst_combine. rewrite rev_length. exact H. Qed.

  Lemma matching_snd (a f : bins A) : length a = length f -> map snd (matching a f) = rev f.
  Proof. intros H. apply map_snd_combine. rewrite rev_length. exact H. Qed.

  Lemma matching_length (a f : bins A) : length a = length f -> length (matching a f) = length a.
  Proof. intros H. rewrite <- (matching_fst a f H) at 2. rewrite map_length. reflexivity. Qed.

  Lemma kk_combine_matching (a f : bins A) : length a = length f ->
    kk_combine a f = map cb (matching a f).
  Proof. intros H. unfold kk_combine, matching. apply zip_combine_map. rewrite rev_length. exact H. Qed.

  Lemma matching_in (a f : bins A) p : In p (matching a f) -> In (fst p) a /\ In (snd p) f.
  Proof.
    destruct p as [x y]. intros H. split.
    - eapply in_combine_l. exact H.
    - apply in_rev. eapply in_combine_r. exact H.
  Qed.

  Lemma matching_has_fst (a f : bins A) bn : length a = length f -> In bn a ->
    exists p, In p (matching a f) /\ fst p = bn.
  Proof.
    intros H Hin. rewrite <- (matching_fst a f H) in Hin. apply in_map_iff in Hin.
    destruct Hin as (p & E & Hp). exists p. split; assumption.
  Qed.

  Lemma matching_has_snd (a f : bins A) bn : length a = length f -> In bn f ->
    exists p, In p (matching a f) /\ snd p = bn.
  Proof.
    intros H Hin. apply in_rev in Hin. rewrite <- (matching_snd a f H) in Hin. apply in_map_iff in Hin.
    destruct Hin as (p & E & Hp). exists p. split; assumption.
  Qed.
End Heap0.

(** ---- 3. bins made of large and small items ---- *)
Section Struct.
  Context {A : Type} (valueof : A -> Z).
  Variables (k : nat) (T G : Z).
  Hypothesis Hk2 : (2 <= k)%nat.
  Hypothesis HG0 : 0 <= G.
  Hypothesis HGT : 3 * G <= T < 3 * G + 3.

  Definition bv (bn : bin A) : list Z := map valueof (snd bn).
  Definition allv (b : bins A) : list Z := map valueof (contents b).
  Definition pureb (bn : bin A) : Prop := Forall (fun v => G < v) (bv bn).
  Definition nLb (bn : bin A) : Z := cnt_gt G (bv bn).
  Definition nLt (b : bins A) : Z := cnt_gt G (allv b).
  Definition bmin (b : bins A) : Z := zmin (sums b).
  Definition lowb (b : bins A) (bn : bin A) : Prop := fst bn - bmin b <= G.
  Definition okb (b : bins A) (bn : bin A) : Prop := lowb b bn \/ (pureb bn /\ fst bn <= T).
  Definition Bk (b : bins A) : Prop :=
    Forall (okb b) b /\ (nLt b <= Z.of_nat k -> Forall (fun bn => nLb bn <= 1) b).
  Definition hasempty (b : bins A) : Prop := exists bn, In bn b /\ snd bn = [].
  Definition PUk (b : bins A) : Prop :=
    Forall (fun bn => pureb bn /\ fst bn <= T) b /\
    (hasempty b -> Forall (fun bn => (length (snd bn) <= 1)%nat) b).
  Definition fullL (b : bins A) : Prop := Forall (fun bn => 1 <= nLb bn) b.
  Definition nonfullL (b : bins A) : Prop := exists bn, In bn b /\ nLb bn = 0.
  Definition lower (b b' : bins A) : Prop :=
    forall v v', In v (allv b) -> In v' (allv b') -> G < v -> G < v' -> v <= v'.
  Definition nonunit (b : bins A) : Prop := (2 <= length (contents b))%nat.
  (** well-formed bins with non-negative values *)
  Definition gb (bn : bin A) : Prop := fst bn = zsum (bv bn) /\ Forall (fun v => 0 <= v) (bv bn).
  Definition gbs (b : bins A) : Prop := Forall gb b.

  Lemma allv_concat (b : bins A) : allv b = concat (map bv b).
  Proof.
    unfold allv, contents, lists, bv. rewrite concat_map, map_map. reflexivity.
  Qed.

  Lemma allv_cons (bn : bin A) b : allv (bn :: b) = bv bn ++ allv b.
  Proof. rewrite !allv_concat. reflexivity. Qed.

  Lemma allv_nil : allv [] = [].
  Proof. reflexivity. Qed.

  Lemma allv_app (b1 b2 : bins A) : allv (b1 ++ b2) = allv b1 ++ allv b2.
  Proof. unfold allv. rewrite contents_app, map_app. reflexivity. Qed.

  Lemma allv_perm (b1 b2 : bins A) : Permutation b1 b2 -> Permutation (allv b1) (allv b2).
  Proof. intros P. unfold allv. apply Permutation_map, contents_perm, P. Qed.

  Lemma allv_in (b : bins A) bn v : In bn b -> In v (bv bn) -> In v (allv b).
  Proof.
    intros Hb Hv. rewrite allv_concat. apply in_concat. exists (bv bn). split; [|exact Hv].
    apply in_map. exact Hb.
  Qed.

  Lemma allv_in_inv (b : bins A) v : In v (allv b) -> exists bn, In bn b /\ In v (bv bn).
  Proof.
    rewrite allv_concat. intros H. apply in_concat in H. destruct H as (l & Hl & Hv).
    apply in_map_iff in Hl. destruct Hl as (bn & E & Hb). subst l. exists bn. split; assumption.
  Qed.

  Lemma nLt_cons (bn : bin A) b : nLt (bn :: b) = nLb bn + nLt b.
  Proof. unfold nLt, nLb. rewrite allv_cons, cnt_gt_app. reflexivity. Qed.

  Lemma nLt_sum (b : bins A) : nLt b = zsum (map nLb b).
  Proof. induction b as [|bn b IH]; [reflexivity|]. rewrite nLt_cons, IH. reflexivity. Qed.

  Lemma nLt_perm (b1 b2 : bins A) : Permutation b1 b2 -> nLt b1 = nLt b2.
  Proof. intros P. unfold nLt. apply cnt_gt_perm, allv_perm, P. Qed.

  Lemma nLb_nonneg (bn : bin A) : 0 <= nLb bn.
  Proof. unfold nLb. pose proof (cnt_gt_bounds G (bv bn)). lia. Qed.

  Lemma nLt_nonneg (b : bins A) : 0 <= nLt b.
  Proof. unfold nLt. pose proof (cnt_gt_bounds G (allv b)). lia. Qed.

  Lemma nLt_in (b : bins A) bn : In bn b -> nLb bn <= nLt b.
  Proof.
    intros Hin. destruct (in_split bn b Hin) as (l1 & l2 & E). subst b.
    unfold nLt. rewrite allv_app, allv_cons, !cnt_gt_app. fold (nLb bn).
    pose proof (cnt_gt_bounds G (allv l1)). pose proof (cnt_gt_bounds G (allv l2)). lia.
  Qed.

  Lemma W_allv x (b : bins A) : W T x (allv b) = zsum (map (fun bn => W T x (bv bn)) b).
  Proof.
    induction b as [|bn b IH]; [reflexivity|]. rewrite allv_cons, W_app, IH. reflexivity.
  Qed.

  (** facts about a single good bin *)
  Lemma gb_nonneg (bn : bin A) : gb bn -> 0 <= fst bn.
  Proof. intros [E H]. rewrite E. apply zsum_nonneg. exact H. Qed.

  Lemma gb_empty (bn : bin A) : gb bn -> snd bn = [] -> fst bn = 0.
  Proof. intros [E _] H. rewrite E. unfold bv. rewrite H. reflexivity. Qed.

  Lemma zsum_ge_in v l : Forall (fun a => 0 <= a) l -> In v l -> v <= zsum l.
  Proof.
    induction 1 as [|a t Ha Ht IH]; [intros []|]. rewrite zs_cons. intros [E|Hin].
    - subst a. pose proof (zsum_nonneg t Ht). lia.
    - specialize (IH Hin). lia.
  Qed.

  Lemma gb_ge_item (bn : bin A) v : gb bn -> In v (bv bn) -> v <= fst bn.
  Proof. intros [E H] Hv. rewrite E. apply zsum_ge_in; assumption. Qed.

  Lemma gb_single (bn : bin A) x : gb bn -> snd bn = [x] -> fst bn = valueof x.
  Proof. intros [E _] H. rewrite E. unfold bv. rewrite H. cbn. lia. Qed.

  Lemma pureb_pos (bn : bin A) : gb bn -> pureb bn -> snd bn <> [] -> G < fst bn.
  Proof.
    intros Hg Hp Hne. destruct (snd bn) as [|x t] eqn:E; [congruence|].
    assert (Hin : In (valueof x) (bv bn)) by (unfold bv; rewrite E; left; reflexivity).
    pose proof (gb_ge_item bn _ Hg Hin). unfold pureb in Hp. rewrite Forall_forall in Hp.
    specialize (Hp _ Hin). lia.
  Qed.

  Lemma pureb_nLb (bn : bin A) : pureb bn -> nLb bn = Z.of_nat (length (snd bn)).
  Proof. intros Hp. unfold nLb. rewrite cnt_gt_all by exact Hp. unfold bv. rewrite map_length. reflexivity. Qed.

  Lemma nLb_zero_pure_empty (bn : bin A) : pureb bn -> nLb bn = 0 -> snd bn = [].
  Proof. intros Hp H. rewrite (pureb_nLb bn Hp) in H. destruct (snd bn); [reflexivity|cbn [length] in H; lia]. Qed.

  Lemma nLb_pos_item (bn : bin A) : 1 <= nLb bn -> exists v, In v (bv bn) /\ G < v.
  Proof. intros H. apply cnt_gt_ex. exact H. Qed.

  Lemma nLb_zero_small (bn : bin A) v : nLb bn = 0 -> In v (bv bn) -> v <= G.
  Proof.
    intros H Hv. destruct (Z_lt_le_dec G v) as [Hlt|Hle]; [|exact Hle].
    pose proof (cnt_gt_in G v (bv bn) Hv Hlt). unfold nLb in H. lia.
  Qed.

  Lemma lg_T x : G < x -> T < 3 * x.
  Proof. lia. Qed.

  Lemma full_or_not (b : bins A) : nonfullL b \/ fullL b.
  Proof.
    induction b as [|bn b IH]; [right; constructor|].
    destruct (Z.eq_dec (nLb bn) 0) as [E|E].
    - left. exists bn. split; [left; reflexivity|exact E].
    - destruct IH as [(bn' & Hin & E')|IH].
      + left. exists bn'. split; [right; exact Hin|exact E'].
      + right. constructor; [pose proof (nLb_nonneg bn); lia|exact IH].
  Qed.

  Lemma zsum_ge_len (g : bin A -> Z) (b : bins A) : Forall (fun bn => 1 <= g bn) b ->
    Z.of_nat (length b) <= zsum (map g b).
  Proof.
    intros H. assert (H' : Forall (fun a => 1 <= a) (map g b)) by (rewrite Forall_map; exact H).
    pose proof (zsum_ge_bound 1 _ H') as B. rewrite map_length in B. lia.
  Qed.

  Lemma all_one (g : bin A -> Z) (b : bins A) : Forall (fun bn => 1 <= g bn) b ->
    zsum (map g b) <= Z.of_nat (length b) -> Forall (fun bn => g bn = 1) b.
  Proof.
    induction 1 as [|bn b Hbn Hb IH]; intros Hs; [constructor|].
    cbn [map length] in Hs. rewrite zs_cons in Hs. pose proof (zsum_ge_len g b Hb) as Hl.
    constructor; [lia|]. apply IH. lia.
  Qed.

  Lemma all_zero (g : bin A -> Z) (b : bins A) : Forall (fun bn => 0 <= g bn) b ->
    zsum (map g b) <= 0 -> Forall (fun bn => g bn = 0) b.
  Proof.
    induction 1 as [|bn b Hbn Hb IH]; intros Hs; [constructor|].
    cbn [map] in Hs. rewrite zs_cons in Hs.
    assert (H0 : 0 <= zsum (map g b)) by (apply zsum_nonneg; rewrite Forall_map; exact Hb).
    constructor; [lia|]. apply IH. lia.
  Qed.

  Lemma fullL_count (b : bins A) : fullL b -> Z.of_nat (length b) <= nLt b.
  Proof. intros H. rewrite nLt_sum. apply zsum_ge_len. exact H. Qed.

  Lemma fullL_exact (b : bins A) : fullL b -> nLt b <= Z.of_nat (length b) -> Forall (fun bn => nLb bn = 1) b.
  Proof. intros H Hc. apply all_one; [exact H|]. rewrite <- nLt_sum. exact Hc. Qed.

  Lemma contents_length_ge (b : bins A) : Forall (fun bn => snd bn <> []) b ->
    (length b <= length (contents b))%nat.
  Proof.
    induction 1 as [|bn b Hbn Hb IH]; [cbn; lia|].
    change (contents (bn :: b)) with (snd bn ++ contents b). rewrite app_length. cbn [length].
    destruct (snd bn); [congruence|cbn [length]; lia].
  Qed.

  Lemma fullL_nonunit (b : bins A) : length b = k -> fullL b -> nonunit b.
  Proof.
    intros HL H. unfold nonunit. assert (Hne : Forall (fun bn => snd bn <> []) b).
    { eapply Forall_impl; [|exact H]. intros bn Hbn E. unfold nLb, bv in Hbn. rewrite E in Hbn. cbn in Hbn. lia. }
    pose proof (contents_length_ge b Hne). lia.
  Qed.

  Lemma contents_two (l1 l2 l3 : bins A) (x y : bin A) : snd x <> [] -> snd y <> [] ->
    (2 <= length (contents (l1 ++ x :: l2 ++ y :: l3)))%nat.
  Proof.
    intros Hx Hy. rewrite contents_app.
    change (contents (x :: l2 ++ y :: l3)) with (snd x ++ contents (l2 ++ y :: l3)). rewrite contents_app.
    change (contents (y :: l3)) with (snd y ++ contents l3). rewrite !app_length.
    destruct (snd x); [congruence|]. destruct (snd y); [congruence|]. cbn [length]. lia.
  Qed.

  (** permutation invariance *)
  Lemma bmin_perm (b1 b2 : bins A) : Permutation b1 b2 -> bmin b1 = bmin b2.
  Proof. intros P. unfold bmin, sums. apply zmin_perm, Permutation_map, P. Qed.

  Lemma Bk_perm (b1 b2 : bins A) : Permutation b1 b2 -> Bk b1 -> Bk b2.
  Proof.
    intros P [H1 H2]. split.
    - eapply Permutation_Forall; [exact P|]. eapply Forall_impl; [|exact H1].
      intros bn Hbn. unfold okb, lowb in *. rewrite <- (bmin_perm _ _ P). exact Hbn.
    - intros Hc. rewrite <- (nLt_perm _ _ P) in Hc. eapply Permutation_Forall; [exact P|apply H2; exact Hc].
  Qed.

  Lemma PUk_perm (b1 b2 : bins A) : Permutation b1 b2 -> PUk b1 -> PUk b2.
  Proof.
    intros P [H1 H2]. split.
    - eapply Permutation_Forall; [exact P|exact H1].
    - intros (bn & Hin & E). eapply Permutation_Forall; [exact P|]. apply H2. exists bn.
      split; [eapply Permutation_in; [symmetry; exact P|exact Hin]|exact E].
  Qed.

  Lemma gbs_perm (b1 b2 : bins A) : Permutation b1 b2 -> gbs b1 -> gbs b2.
  Proof. intros P H. eapply Permutation_Forall; eassumption. Qed.

  Lemma lower_perm_l (b1 b2 b' : bins A) : Permutation b1 b2 -> lower b1 b' -> lower b2 b'.
  Proof.
    intros P H v v' Hv Hv'. apply H; [|exact Hv'].
    eapply Permutation_in; [symmetry; apply allv_perm; exact P|exact Hv].
  Qed.

  Lemma lower_perm_r (b b1 b2 : bins A) : Permutation b1 b2 -> lower b b1 -> lower b b2.
  Proof.
    intros P H v v' Hv Hv'. apply H; [exact Hv|].
    eapply Permutation_in; [symmetry; apply allv_perm; exact P|exact Hv'].
  Qed.

  Lemma fullL_perm (b1 b2 : bins A) : Permutation b1 b2 -> fullL b1 -> fullL b2.
  Proof. intros P H. eapply Permutation_Forall; eassumption. Qed.

  Lemma nonfullL_perm (b1 b2 : bins A) : Permutation b1 b2 -> nonfullL b1 -> nonfullL b2.
  Proof. intros P (bn & Hin & E). exists bn. split; [eapply Permutation_in; eassumption|exact E]. Qed.

  Lemma nonunit_perm (b1 b2 : bins A) : Permutation b1 b2 -> nonunit b1 -> nonunit b2.
  Proof. intros P H. unfold nonunit in *. rewrite <- (Permutation_length (contents_perm _ _ P)). exact H. Qed.

  (** clean entries made of large items are also fine as a dirty first entry *)
  Lemma PUk_Bk (b : bins A) : length b = k -> PUk b -> Bk b.
  Proof.
    intros HL [H1 H2]. split.
    - eapply Forall_impl; [|exact H1]. intros bn Hbn. right. exact Hbn.
    - intros Hc. destruct (full_or_not b) as [(bn & Hin & E)|Hf].
      + assert (He : hasempty b).
        { exists bn. split; [exact Hin|]. rewrite Forall_forall in H1. apply nLb_zero_pure_empty; [apply H1; exact Hin|exact E]. }
        specialize (H2 He). rewrite Forall_forall in *. intros bn' Hin'.
        rewrite (pureb_nLb bn') by (apply H1; exact Hin'). specialize (H2 bn' Hin'). lia.
      + rewrite <- HL in Hc. pose proof (fullL_exact b Hf Hc) as Hx.
        eapply Forall_impl; [|exact Hx]. intros bn' E. cbv beta in E. lia.
  Qed.

  (** ---- 4. combining two entries ---- *)
  Definition good (b : bins A) : Prop := length b = k /\ StronglySorted Z.le (sums b) /\ gbs b.

  Lemma bv_cb (p : bin A * bin A) : bv (cb p) = bv (fst p) ++ bv (snd p).
  Proof. unfold bv, cb, combine_bin. cbn [snd]. apply map_app. Qed.

  Lemma fst_cb (p : bin A * bin A) : fst (cb p) = fst (fst p) + fst (snd p).
  Proof. reflexivity. Qed.

  Lemma gb_cb (p : bin A * bin A) : gb (fst p) -> gb (snd p) -> gb (cb p).
  Proof.
    intros [E1 H1] [E2 H2]. split.
    - rewrite fst_cb, bv_cb, zsum_app. lia.
    - rewrite bv_cb. apply Forall_app. split; assumption.
  Qed.

  Lemma pureb_cb (p : bin A * bin A) : pureb (fst p) -> pureb (snd p) -> pureb (cb p).
  Proof. intros H1 H2. unfold pureb. rewrite bv_cb. apply Forall_app. split; assumption. Qed.

  Lemma nLb_cb (p : bin A * bin A) : nLb (cb p) = nLb (fst p) + nLb (snd p).
  Proof. unfold nLb. rewrite bv_cb, cnt_gt_app. reflexivity. Qed.

  Section Merge.
    Variables a f : bins A.
    Hypothesis Ga : good a.
    Hypothesis Gf : good f.
    Let M := matching a f.
    Let c := kk_combine a f.

    Lemma len_af : length a = length f.
    Proof. destruct Ga as (H1 & _). destruct Gf as (H2 & _). congruence. Qed.

    Lemma c_map : c = map cb M.
    Proof. apply kk_combine_matching, len_af. Qed.

    Lemma M_len : length M = k.
    Proof. unfold M. rewrite matching_length by apply len_af. apply Ga. Qed.

    Lemma M_in p : In p M -> In (fst p) a /\ In (snd p) f.
    Proof. apply matching_in. Qed.

    Lemma M_gb p : In p M -> gb (fst p) /\ gb (snd p).
    Proof.
      intros Hp. destruct (M_in p Hp) as [H1 H2]. destruct Ga as (_ & _ & Ba). destruct Gf as (_ & _ & Bf).
      unfold gbs in *. rewrite Forall_forall in Ba, Bf. split; [apply Ba|apply Bf]; assumption.
    Qed.

    Lemma M_AM p q : In p M -> In q M -> AM p q \/ AM q p.
    Proof. apply matching_AM; [apply Ga|apply Gf]. Qed.

    Lemma c_gbs : gbs c.
    Proof.
      rewrite c_map. unfold gbs. rewrite Forall_map. apply Forall_forall. intros p Hp.
      destruct (M_gb p Hp). apply gb_cb; assumption.
    Qed.

    Lemma c_len : length c = k.
    Proof. unfold c. rewrite kk_combine_length. apply Ga. Qed.

    Lemma c_allv : Permutation (allv c) (allv a ++ allv f).
    Proof.
      unfold allv, c. rewrite <- map_app. apply Permutation_map. apply kk_combine_contents, len_af.
    Qed.

    Lemma c_nLt : nLt c = nLt a + nLt f.
    Proof. unfold nLt. rewrite (cnt_gt_perm _ _ _ c_allv), cnt_gt_app. reflexivity. Qed.

    Lemma c_W x : W T x (allv c) = zsum (map (fun p => W T x (bv (fst p) ++ bv (snd p))) M).
    Proof.
      rewrite W_allv, c_map, map_map. f_equal. apply map_ext. intros p. rewrite bv_cb. reflexivity.
    Qed.

    Lemma c_W_split x : W T x (allv c) = W T x (allv a) + W T x (allv f).
    Proof. rewrite (W_perm _ _ _ _ c_allv), W_app. reflexivity. Qed.

    Lemma c_bmin : exists p, In p M /\ fst (cb p) = bmin c.
    Proof.
      assert (Hne : sums c <> []).
      { intros E. pose proof c_len as L. unfold sums in E. apply map_eq_nil in E. rewrite E in L. cbn in L. lia. }
      pose proof (zmin_in (sums c) Hne) as Hin. fold (bmin c) in Hin. unfold sums in Hin.
      apply in_map_iff in Hin. destruct Hin as (bn & E & Hbn). rewrite c_map in Hbn.
      apply in_map_iff in Hbn. destruct Hbn as (p & E2 & Hp). subst bn. exists p. split; assumption.
    Qed.

    Lemma bmin_le (b : bins A) bn : In bn b -> bmin b <= fst bn.
    Proof. intros H. unfold bmin. apply zmin_le_in. unfold sums. apply in_map. exact H. Qed.

    Lemma sp_ge (b : bins A) bn bn' : In bn b -> In bn' b -> fst bn - fst bn' <= sp (sums b).
    Proof.
      intros H1 H2. unfold sp.
      assert (fst bn <= zmax (sums b)) by (apply zmax_ge_in; unfold sums; apply in_map; exact H1).
      assert (zmin (sums b) <= fst bn') by (apply zmin_le_in; unfold sums; apply in_map; exact H2). lia.
    Qed.

    (** a low bin of [a] stays low when [f] has a small spread *)
    Lemma low_stays p : sp (sums f) <= G -> In p M -> lowb a (fst p) -> lowb c (cb p).
    Proof.
      intros Hsp Hp Hlow. destruct c_bmin as (q & Hq & Eq). unfold lowb in *. rewrite <- Eq, !fst_cb.
      destruct (M_in p Hp) as [Pa Pf]. destruct (M_in q Hq) as [Qa Qf].
      pose proof (bmin_le a (fst q) Qa). pose proof (sp_ge f (snd p) (snd q) Pf Qf).
      destruct (M_AM p q Hp Hq) as [[H1 H2]|[H1 H2]]; lia.
    Qed.

    (** roles: with [sw = false] the bins of [a] are the "upper" ones, with [sw = true] those of [f] *)
    Definition pu (sw : bool) (p : bin A * bin A) : bin A := if sw then snd p else fst p.
    Definition pl (sw : bool) (p : bin A * bin A) : bin A := if sw then fst p else snd p.
    Definition Ub (sw : bool) : bins A := if sw then f else a.
    Definition Lb (sw : bool) : bins A := if sw then a else f.

    Lemma roles_in sw p : In p M -> In (pu sw p) (Ub sw) /\ In (pl sw p) (Lb sw).
    Proof. intros Hp. destruct (M_in p Hp). destruct sw; cbn; split; assumption. Qed.

    Lemma roles_gb sw p : In p M -> gb (pu sw p) /\ gb (pl sw p).
    Proof. intros Hp. destruct (M_gb p Hp). destruct sw; cbn; split; assumption. Qed.

    Lemma roles_fst sw p : fst (cb p) = fst (pu sw p) + fst (pl sw p).
    Proof. rewrite fst_cb. destruct sw; cbn [pu pl]; lia. Qed.

    Lemma roles_W sw x p : W T x (bv (fst p) ++ bv (snd p)) = W T x (bv (pu sw p)) + W T x (bv (pl sw p)).
    Proof. rewrite W_app. destruct sw; cbn [pu pl]; lia. Qed.

    Lemma roles_AM sw p q : In p M -> In q M ->
      (fst (pu sw p) <= fst (pu sw q) /\ fst (pl sw q) <= fst (pl sw p)) \/
      (fst (pu sw q) <= fst (pu sw p) /\ fst (pl sw p) <= fst (pl sw q)).
    Proof.
      intros Hp Hq. destruct (M_AM p q Hp Hq) as [[H1 H2]|[H1 H2]]; destruct sw; cbn [pu pl]; lia.
    Qed.

    Hypothesis HW : forall x, G < x -> W T x (allv a) + W T x (allv f) <= 2 * Z.of_nat k.
    Hypothesis HC : nLt a + nLt f <= 2 * Z.of_nat k.

    (** the weight certificate: the upper bins all hold an item >= x, the lower bin of [p0] is the
        single item x, and the bin of [p0] exceeds T: impossible *)
    Lemma cert_full sw x p0 : G < x -> x <= T -> In p0 M -> bv (pl sw p0) = [x] ->
      T < fst (pu sw p0) + x ->
      (forall p, In p M -> 1 <= cnt_ge x (bv (pu sw p))) ->
      (forall p, In p M -> fst (pu sw p0) <= fst (pu sw p) -> Forall (fun v => x <= v) (bv (pu sw p))) ->
      (forall p, In p M -> cnt_ge x (bv (pl sw p)) = 0 -> fst (pl sw p) < x) ->
      False.
    Proof.
      intros Hx HxT Hp0 Ex Hbig U1 U2 L1.
      assert (E0 : fst (pl sw p0) = x).
      { destruct (roles_gb sw p0 Hp0) as [_ [E _]]. rewrite E, Ex. cbn. lia. }
      assert (Hup : forall p, In p M -> fst (pu sw p0) <= fst (pu sw p) -> 2 <= W T x (bv (pu sw p))).
      { intros p Hp Hle. apply W_heavy; [exact HxT|apply U2; assumption|].
        destruct (roles_gb sw p Hp) as [[E _] _]. rewrite <- E. lia. }
      assert (Hall : Forall (fun p => 2 <= W T x (bv (fst p) ++ bv (snd p))) M).
      { apply Forall_forall. intros p Hp. rewrite (roles_W sw).
        pose proof (W_nonneg T x (bv (pl sw p))) as N1. pose proof (cnt_ge_nonneg x (bv (pl sw p))) as N2.
        destruct (Z.eq_dec (cnt_ge x (bv (pl sw p))) 0) as [Ez|Enz].
        - pose proof (L1 p Hp Ez) as Hlt.
          destruct (roles_AM sw p p0 Hp Hp0) as [[H1 H2]|[H1 H2]]; [lia|].
          pose proof (Hup p Hp H1). lia.
        - pose proof (W_ge_cnt T x (bv (pu sw p))). pose proof (W_ge_cnt T x (bv (pl sw p))).
          pose proof (U1 p Hp). lia. }
      assert (H3 : 2 + 1 <= W T x (bv (fst p0) ++ bv (snd p0))).
      { rewrite (roles_W sw). pose proof (Hup p0 Hp0 ltac:(lia)) as H2. rewrite Ex.
        assert (1 <= W T x [x]); [|lia]. unfold W, wx. cbn [map]. rewrite zs_cons.
        destruct (x <? x) eqn:E1; [lia|]. destruct (T <? x + x); cbn; lia. }
      pose proof (zsum_ge_with_one (fun p => W T x (bv (fst p) ++ bv (snd p))) 2 M p0 Hall Hp0 H3) as HS.
      rewrite <- c_W, M_len, c_W_split in HS. specialize (HW x Hx). lia.
    Qed.

    Definition rel1 (b b' : bins A) : Prop :=
      (nonfullL b -> nonunit b' -> lower b b') /\ (fullL b -> fullL b' -> lower b b' \/ lower b' b).

    Lemma PUk_bin (b : bins A) bn : PUk b -> In bn b -> pureb bn /\ fst bn <= T.
    Proof. intros [H _] Hin. rewrite Forall_forall in H. apply H. exact Hin. Qed.

    Lemma pure_item_large (bn : bin A) v : pureb bn -> In v (bv bn) -> G < v.
    Proof. intros H Hv. unfold pureb in H. rewrite Forall_forall in H. apply H. exact Hv. Qed.

    Lemma nonfull_pure_empty (b : bins A) : PUk b -> nonfullL b -> hasempty b.
    Proof.
      intros Hb (bn & Hin & E). exists bn. split; [exact Hin|].
      apply nLb_zero_pure_empty; [apply (PUk_bin b bn Hb Hin)|exact E].
    Qed.

    Lemma single_bv (bn : bin A) x : snd bn = [x] -> bv bn = [valueof x].
    Proof. intros E. unfold bv. rewrite E. reflexivity. Qed.

    Lemma short_bin (bn : bin A) : (length (snd bn) <= 1)%nat -> snd bn = [] \/ exists x, snd bn = [x].
    Proof. destruct (snd bn) as [|x [|y t]]; cbn [length]; intros H; [left; reflexivity|right; exists x; reflexivity|lia]. Qed.

    (** both entries made of large items *)
    Section PP.
      Hypothesis Pa : PUk a.
      Hypothesis Pf : PUk f.
      Hypothesis Raf : rel1 a f.
      Hypothesis Rfa : rel1 f a.

      Lemma pp_pure p : In p M -> pureb (fst p) /\ pureb (snd p) /\ fst (fst p) <= T /\ fst (snd p) <= T.
      Proof.
        intros Hp. destruct (M_in p Hp) as [H1 H2].
        destruct (PUk_bin a _ Pa H1). destruct (PUk_bin f _ Pf H2). repeat split; assumption.
      Qed.

      Lemma pp_empty_side p : In p M -> fst (fst p) <= 0 -> snd (fst p) = [].
      Proof.
        intros Hp H0. destruct (pp_pure p Hp) as (P1 & _). destruct (M_gb p Hp) as [G1 _].
        destruct (snd (fst p)) eqn:E; [reflexivity|]. pose proof (pureb_pos (fst p) G1 P1 ltac:(congruence)). lia.
      Qed.

      Lemma pp_empty_side' p : In p M -> fst (snd p) <= 0 -> snd (snd p) = [].
      Proof.
        intros Hp H0. destruct (pp_pure p Hp) as (_ & P2 & _). destruct (M_gb p Hp) as [_ G2].
        destruct (snd (snd p)) eqn:E; [reflexivity|]. pose proof (pureb_pos (snd p) G2 P2 ltac:(congruence)). lia.
      Qed.

      (** if the new entry has an empty bin, no two items meet *)
      Lemma pp_S1 : hasempty c -> Forall (fun bn => (length (snd bn) <= 1)%nat) c.
      Proof.
        intros (bn & Hin & E). rewrite c_map in Hin. apply in_map_iff in Hin. destruct Hin as (p0 & E0 & Hp0).
        subst bn. unfold cb, combine_bin in E. cbn [snd] in E. apply app_eq_nil in E. destruct E as [E1 E2].
        destruct (M_in p0 Hp0) as [I1 I2]. destruct (M_gb p0 Hp0) as [G1 G2].
        pose proof (gb_empty _ G1 E1) as Z1. pose proof (gb_empty _ G2 E2) as Z2.
        assert (Ea : hasempty a) by (exists (fst p0); split; assumption).
        assert (Ef : hasempty f) by (exists (snd p0); split; assumption).
        destruct Pa as [_ Sa]. destruct Pf as [_ Sf]. specialize (Sa Ea). specialize (Sf Ef).
        rewrite Forall_forall in Sa, Sf.
        rewrite c_map, Forall_map. apply Forall_forall. intros p Hp. destruct (M_in p Hp) as [J1 J2].
        unfold cb, combine_bin. cbn [snd].
        destruct (M_AM p p0 Hp Hp0) as [[H1 H2]|[H1 H2]].
        - rewrite (pp_empty_side p Hp ltac:(lia)). cbn [app]. apply Sf. exact J2.
        - rewrite (pp_empty_side' p Hp ltac:(lia)), app_nil_r. apply Sa. exact J1.
      Qed.

      (** one entry has a large item in every bin and is above the other *)
      Lemma pp_full sw p : fullL (Ub sw) -> lower (Lb sw) (Ub sw) ->
        Forall (fun bn => (length (snd bn) <= 1)%nat) (Lb sw) ->
        In p M -> snd (pu sw p) <> [] -> snd (pl sw p) <> [] -> T < fst (cb p) -> False.
      Proof.
        intros HF HL HS Hp N1 N2 Hbig.
        assert (HUP : forall q, In q M -> pureb (pu sw q) /\ pureb (pl sw q) /\ fst (pl sw q) <= T).
        { intros q Hq. destruct (pp_pure q Hq) as (Q1 & Q2 & Q3 & Q4). destruct sw; cbn [pu pl]; repeat split; assumption. }
        destruct (roles_in sw p Hp) as [I1 I2]. rewrite Forall_forall in HS.
        destruct (short_bin _ (HS _ I2)) as [E|(xx & E)]; [congruence|].
        set (x := valueof xx). pose proof (single_bv _ _ E) as Ebv. fold x in Ebv.
        destruct (HUP p Hp) as (P1 & P2 & P3).
        assert (Hx : G < x) by (apply (pure_item_large (pl sw p)); [exact P2|rewrite Ebv; left; reflexivity]).
        destruct (roles_gb sw p Hp) as [_ G2]. pose proof (gb_single _ _ G2 E) as Ex. fold x in Ex.
        assert (Hxa : In x (allv (Lb sw))) by (apply (allv_in _ (pl sw p)); [exact I2|rewrite Ebv; left; reflexivity]).
        apply (cert_full sw x p); try assumption.
        - lia.
        - rewrite (roles_fst sw) in Hbig. lia.
        - intros q Hq. destruct (roles_in sw q Hq) as [J1 _]. destruct (HUP q Hq) as (Q1 & _).
          unfold fullL in HF. rewrite Forall_forall in HF. destruct (nLb_pos_item _ (HF _ J1)) as (v & Hv & Hgv).
          apply (cnt_ge_in x v); [exact Hv|]. apply HL; [exact Hxa|apply (allv_in _ (pu sw q)); assumption|exact Hx|exact Hgv].
        - intros q Hq _. destruct (roles_in sw q Hq) as [J1 _]. destruct (HUP q Hq) as (Q1 & _).
          apply Forall_forall. intros v Hv. apply HL; [exact Hxa|apply (allv_in _ (pu sw q)); assumption|exact Hx|].
          apply (pure_item_large (pu sw q)); assumption.
        - intros q Hq Hc. destruct (roles_in sw q Hq) as [_ J2]. destruct (roles_gb sw q Hq) as [_ Gq].
          destruct (short_bin _ (HS _ J2)) as [Eq|(yy & Eq)].
          + rewrite (gb_empty _ Gq Eq). lia.
          + rewrite (gb_single _ _ Gq Eq). rewrite (single_bv _ _ Eq) in Hc. cbn in Hc. unfold ind_ge in Hc.
            destruct (x <=? valueof yy) eqn:E1; lia.
      Qed.

      (** neither entry has a large item in every bin: two items can meet only if both entries
          have at least two items *)
      Lemma pp_nonunit_f p : hasempty a -> In p M -> snd (fst p) <> [] -> snd (snd p) <> [] -> nonunit f.
      Proof.
        intros (bn0 & I0 & E0) Hp N1 N2.
        destruct (matching_has_fst a f bn0 (len_af) I0) as (p1 & Hp1 & F1). fold M in Hp1.
        destruct (M_gb p1 Hp1) as [G1 G1']. destruct (M_gb p Hp) as [Gp Gp'].
        destruct (pp_pure p Hp) as (P1 & P2 & _).
        pose proof (pureb_pos _ Gp P1 N1) as Pos1. pose proof (pureb_pos _ Gp' P2 N2) as Pos2.
        assert (Z1 : fst (fst p1) = 0) by (apply gb_empty; [exact G1|rewrite F1; exact E0]).
        assert (N3 : snd (snd p1) <> []).
        { intros E. pose proof (gb_empty _ G1' E) as Z2.
          destruct (M_AM p p1 Hp Hp1) as [[H1 H2]|[H1 H2]]; lia. }
        assert (Hne : p <> p1) by (intros E; subst p1; rewrite F1 in N1; congruence).
        unfold nonunit. rewrite <- (Permutation_length (rev_contents f)).
        rewrite <- (matching_snd a f len_af). fold M.
        destruct (in_two p p1 M Hp Hp1 Hne) as (l1 & l2 & l3 & [E|E]); rewrite E, map_app; cbn [map];
          rewrite map_app; cbn [map]; apply contents_two; assumption.
      Qed.

      Lemma pp_nonunit_a p : hasempty f -> In p M -> snd (fst p) <> [] -> snd (snd p) <> [] -> nonunit a.
      Proof.
        intros (bn0 & I0 & E0) Hp N1 N2.
        destruct (matching_has_snd a f bn0 (len_af) I0) as (p1 & Hp1 & F1). fold M in Hp1.
        destruct (M_gb p1 Hp1) as [G1 G1']. destruct (M_gb p Hp) as [Gp Gp'].
        destruct (pp_pure p Hp) as (P1 & P2 & _).
        pose proof (pureb_pos _ Gp P1 N1) as Pos1. pose proof (pureb_pos _ Gp' P2 N2) as Pos2.
        assert (Z1 : fst (snd p1) = 0) by (apply gb_empty; [exact G1'|rewrite F1; exact E0]).
        assert (N3 : snd (fst p1) <> []).
        { intros E. pose proof (gb_empty _ G1 E) as Z2.
          destruct (M_AM p p1 Hp Hp1) as [[H1 H2]|[H1 H2]]; lia. }
        assert (Hne : p <> p1) by (intros E; subst p1; rewrite F1 in N2; congruence).
        unfold nonunit. rewrite <- (matching_fst a f len_af). fold M.
        destruct (in_two p p1 M Hp Hp1 Hne) as (l1 & l2 & l3 & [E|E]); rewrite E, map_app; cbn [map];
          rewrite map_app; cbn [map]; apply contents_two; assumption.
      Qed.

      Lemma W_all_eq v l : T < v + v -> Forall (fun z => z = v) l -> W T v l = 2 * Z.of_nat (length l).
      Proof.
        intros Hv. induction 1 as [|z t Hz Ht IH]; [reflexivity|]. subst z. rewrite W_cons, IH. cbn [length].
        unfold wx. destruct (v <? v) eqn:E1; [lia|]. destruct (T <? v + v) eqn:E2; lia.
      Qed.

      (** all items equal *)
      Lemma pp_eq p : nonfullL a -> nonfullL f -> In p M -> snd (fst p) <> [] -> snd (snd p) <> [] ->
        T < fst (cb p) -> False.
      Proof.
        intros Na Nf Hp N1 N2 Hbig.
        pose proof (nonfull_pure_empty a Pa Na) as Ea. pose proof (nonfull_pure_empty f Pf Nf) as Ef.
        pose proof (pp_nonunit_f p Ea Hp N1 N2) as Uf. pose proof (pp_nonunit_a p Ef Hp N1 N2) as Ua.
        pose proof (proj1 Raf Na Uf) as Laf. pose proof (proj1 Rfa Nf Ua) as Lfa.
        destruct Pa as [Pa1 Sa]. destruct Pf as [Pf1 Sf]. specialize (Sa Ea). specialize (Sf Ef).
        rewrite Forall_forall in Sa, Sf. destruct (M_in p Hp) as [I1 I2]. destruct (M_gb p Hp) as [G1 G2].
        destruct (short_bin _ (Sa _ I1)) as [E|(uu & E1)]; [congruence|].
        destruct (short_bin _ (Sf _ I2)) as [E|(ww & E2)]; [congruence|].
        set (u := valueof uu). set (w := valueof ww).
        destruct (pp_pure p Hp) as (P1 & P2 & _).
        assert (Hu : G < u) by (apply (pure_item_large (fst p)); [exact P1|rewrite (single_bv _ _ E1); left; reflexivity]).
        assert (Hw : G < w) by (apply (pure_item_large (snd p)); [exact P2|rewrite (single_bv _ _ E2); left; reflexivity]).
        assert (Iu : In u (allv a)) by (apply (allv_in _ (fst p)); [exact I1|rewrite (single_bv _ _ E1); left; reflexivity]).
        assert (Iw : In w (allv f)) by (apply (allv_in _ (snd p)); [exact I2|rewrite (single_bv _ _ E2); left; reflexivity]).
        assert (Euw : w = u) by (pose proof (Laf u w Iu Iw Hu Hw); pose proof (Lfa w u Iw Iu Hw Hu); lia).
        assert (Alla : forall v, In v (allv a) -> v = u).
        { intros v Hv. destruct (allv_in_inv a v Hv) as (bn & Hbn & Hvb).
          rewrite Forall_forall in Pa1. pose proof (pure_item_large bn v (proj1 (Pa1 bn Hbn)) Hvb) as Hgv.
          pose proof (Laf v w Hv Iw Hgv Hw). pose proof (Lfa w v Iw Hv Hw Hgv). lia. }
        assert (Allf : forall v, In v (allv f) -> v = u).
        { intros v Hv. destruct (allv_in_inv f v Hv) as (bn & Hbn & Hvb).
          rewrite Forall_forall in Pf1. pose proof (pure_item_large bn v (proj1 (Pf1 bn Hbn)) Hvb) as Hgv.
          pose proof (Laf u v Iu Hv Hu Hgv). pose proof (Lfa v u Hv Iu Hgv Hu). lia. }
        assert (Hbig2 : T < u + u).
        { rewrite fst_cb, (gb_single _ _ G1 E1), (gb_single _ _ G2 E2) in Hbig. fold u w in Hbig. lia. }
        assert (Hne : forall q, In q M -> snd (cb q) <> []).
        { intros q Hq E. assert (He : hasempty c) by (exists (cb q); split; [rewrite c_map; apply in_map; exact Hq|exact E]).
          pose proof (pp_S1 He) as HS. rewrite Forall_forall in HS.
          specialize (HS (cb p) ltac:(rewrite c_map; apply in_map; exact Hp)).
          unfold cb, combine_bin in HS. cbn [snd] in HS. rewrite E1, E2 in HS. cbn in HS. lia. }
        assert (Heq : forall q, In q M -> Forall (fun z => z = u) (bv (fst q) ++ bv (snd q))).
        { intros q Hq. destruct (M_in q Hq) as [J1 J2]. apply Forall_app. split; apply Forall_forall; intros v Hv.
          - apply Alla. apply (allv_in _ (fst q)); assumption.
          - apply Allf. apply (allv_in _ (snd q)); assumption. }
        assert (Hall : Forall (fun q => 2 <= W T u (bv (fst q) ++ bv (snd q))) M).
        { apply Forall_forall. intros q Hq. rewrite (W_all_eq u _ Hbig2 (Heq q Hq)).
          specialize (Hne q Hq). rewrite <- bv_cb. unfold bv. rewrite map_length.
          destruct (snd (cb q)); [congruence|cbn [length]; lia]. }
        assert (H3 : 2 + 1 <= W T u (bv (fst p) ++ bv (snd p))).
        { rewrite (W_all_eq u _ Hbig2 (Heq p Hp)), (single_bv _ _ E1), (single_bv _ _ E2). cbn. lia. }
        pose proof (zsum_ge_with_one (fun q => W T u (bv (fst q) ++ bv (snd q))) 2 M p Hall Hp H3) as HS.
        rewrite <- c_W, M_len, c_W_split in HS. specialize (HW u Hu). lia.
      Qed.

      Lemma exact_short (b : bins A) : PUk b -> length b = k -> fullL b -> nLt b <= Z.of_nat k ->
        Forall (fun bn => (length (snd bn) <= 1)%nat) b.
      Proof.
        intros Pb HL Fb Hc. rewrite <- HL in Hc. pose proof (fullL_exact b Fb Hc) as Hx.
        rewrite Forall_forall in *. intros bn Hbn. specialize (Hx bn Hbn).
        rewrite (pureb_nLb bn (proj1 (PUk_bin b bn Pb Hbn))) in Hx. lia.
      Qed.

      Lemma pp_le p : In p M -> fst (cb p) <= T.
      Proof.
        intros Hp. destruct (pp_pure p Hp) as (P1 & P2 & T1 & T2). destruct (M_gb p Hp) as [G1 G2].
        destruct (snd (fst p)) eqn:E1; [rewrite fst_cb, (gb_empty _ G1 E1); lia|].
        destruct (snd (snd p)) eqn:E2; [rewrite fst_cb, (gb_empty _ G2 E2); lia|].
        destruct (Z_le_gt_dec (fst (cb p)) T) as [Hle|Hgt]; [exact Hle|exfalso].
        assert (N1 : snd (fst p) <> []) by (rewrite E1; discriminate).
        assert (N2 : snd (snd p) <> []) by (rewrite E2; discriminate).
        pose proof (proj1 Ga) as La. pose proof (proj1 Gf) as Lf.
        destruct (full_or_not a) as [Na|Fa]; destruct (full_or_not f) as [Nf|Ff].
        - apply (pp_eq p); try assumption. lia.
        - apply (pp_full true p); cbn [Ub Lb pu pl]; try assumption; [|apply (proj2 Pa); apply nonfull_pure_empty; assumption|lia].
          apply (proj1 Raf Na). apply fullL_nonunit; assumption.
        - apply (pp_full false p); cbn [Ub Lb pu pl]; try assumption; [|apply (proj2 Pf); apply nonfull_pure_empty; assumption|lia].
          apply (proj1 Rfa Nf). apply fullL_nonunit; assumption.
        - pose proof (fullL_count a Fa) as Ca. pose proof (fullL_count f Ff) as Cf. rewrite La in Ca. rewrite Lf in Cf.
          destruct (proj2 Raf Fa Ff) as [L|L].
          + apply (pp_full true p); cbn [Ub Lb pu pl]; try assumption; [|lia].
            apply exact_short; try assumption. lia.
          + apply (pp_full false p); cbn [Ub Lb pu pl]; try assumption; [|lia].
            apply exact_short; try assumption. lia.
      Qed.

      Lemma pp_PUk : PUk c.
      Proof.
        split; [|exact pp_S1]. rewrite c_map, Forall_map. apply Forall_forall. intros p Hp.
        destruct (pp_pure p Hp) as (P1 & P2 & _). split; [apply pureb_cb; assumption|apply pp_le; exact Hp].
      Qed.
    End PP.

    Lemma bmin_nonneg (b : bins A) : gbs b -> b <> [] -> 0 <= bmin b.
    Proof.
      intros Hg Hne. assert (Hs : sums b <> []) by (unfold sums; intros E; apply map_eq_nil in E; exact (Hne E)).
      pose proof (zmin_in (sums b) Hs) as Hin. fold (bmin b) in Hin. unfold sums in Hin.
      apply in_map_iff in Hin. destruct Hin as (bn & E & Hbn). rewrite <- E.
      unfold gbs in Hg. rewrite Forall_forall in Hg. apply gb_nonneg, Hg, Hbn.
    Qed.

    Lemma contents_nonempty_bin (b : bins A) : contents b <> [] -> exists bn, In bn b /\ snd bn <> [].
    Proof.
      induction b as [|bn b IH]; [intros H; exfalso; apply H; reflexivity|].
      change (contents (bn :: b)) with (snd bn ++ contents b). intros H.
      destruct (snd bn) eqn:E.
      - cbn [app] in H. destruct (IH H) as (bn' & Hin & Hne). exists bn'. split; [right; exact Hin|exact Hne].
      - exists bn. split; [left; reflexivity|rewrite E; discriminate].
    Qed.

    (** a first entry that may hold small items absorbs an entry of large items with a small spread *)
    Section BS.
      Hypothesis Ba : Bk a.
      Hypothesis Pf : PUk f.
      Hypothesis Hsp : sp (sums f) <= G.
      Hypothesis Hne : contents f <> [].
      Hypothesis Raf : rel1 a f.

      Lemma bs_f_nonempty bn : In bn f -> snd bn <> [].
      Proof.
        intros Hin E. destruct (contents_nonempty_bin f Hne) as (bn1 & Hin1 & Hne1).
        destruct Gf as (_ & _ & Bf). unfold gbs in Bf. rewrite Forall_forall in Bf.
        pose proof (gb_empty _ (Bf _ Hin) E) as Z0.
        pose proof (pureb_pos _ (Bf _ Hin1) (proj1 (PUk_bin f _ Pf Hin1)) Hne1) as Pos.
        pose proof (sp_ge f bn1 bn Hin1 Hin). lia.
      Qed.

      Lemma bs_f_full : fullL f.
      Proof.
        apply Forall_forall. intros bn Hin. rewrite (pureb_nLb bn (proj1 (PUk_bin f _ Pf Hin))).
        pose proof (bs_f_nonempty bn Hin). destruct (snd bn); [congruence|cbn [length]; lia].
      Qed.

      Lemma bs_f_count : Z.of_nat k <= nLt f.
      Proof. pose proof (fullL_count f bs_f_full) as H. rewrite (proj1 Gf) in H. exact H. Qed.

      Lemma bs_a_ne : a <> [].
      Proof. intros E. pose proof (proj1 Ga) as L. rewrite E in L. cbn in L. lia. Qed.

      (** the entry of large items is above the large items of the first entry *)
      Lemma bs_upper p : lower a f -> In p M -> G < fst (fst p) - bmin a -> pureb (fst p) -> fst (fst p) <= T ->
        T < fst (cb p) -> False.
      Proof.
        intros HL Hp Hnl P1 T1 Hbig. destruct (M_in p Hp) as [I1 I2]. destruct (M_gb p Hp) as [G1 G2].
        pose proof bs_f_count as Cf. destruct Ba as [Ok B2].
        assert (B2' : Forall (fun bn => nLb bn <= 1) a) by (apply B2; lia).
        rewrite Forall_forall in B2', Ok.
        pose proof (bmin_nonneg a (proj2 (proj2 Ga)) bs_a_ne) as Hm.
        assert (Hshort : forall bn, In bn a -> pureb bn -> (length (snd bn) <= 1)%nat).
        { intros bn Hbn Pb. pose proof (B2' bn Hbn) as H. rewrite (pureb_nLb bn Pb) in H. lia. }
        destruct (short_bin _ (Hshort _ I1 P1)) as [E|(xx & E)]; [rewrite (gb_empty _ G1 E) in Hnl; lia|].
        set (x := valueof xx). pose proof (single_bv _ _ E) as Ebv. fold x in Ebv.
        pose proof (gb_single _ _ G1 E) as Ex. fold x in Ex.
        assert (Hx : G < x) by (apply (pure_item_large (fst p)); [exact P1|rewrite Ebv; left; reflexivity]).
        assert (Hxa : In x (allv a)) by (apply (allv_in _ (fst p)); [exact I1|rewrite Ebv; left; reflexivity]).
        assert (Hup : forall q v, In q M -> In v (bv (snd q)) -> x <= v).
        { intros q v Hq Hv. destruct (M_in q Hq) as [_ J2]. apply HL; [exact Hxa|apply (allv_in _ (snd q)); assumption|exact Hx|].
          apply (pure_item_large (snd q)); [apply (PUk_bin f _ Pf J2)|exact Hv]. }
        apply (cert_full true x p); cbn [pu pl]; try assumption.
        - lia.
        - rewrite fst_cb in Hbig. lia.
        - intros q Hq. destruct (M_in q Hq) as [_ J2]. pose proof (bs_f_nonempty _ J2) as Hq2.
          destruct (snd (snd q)) as [|yy t] eqn:Eq; [congruence|].
          assert (Hv : In (valueof yy) (bv (snd q))) by (unfold bv; rewrite Eq; left; reflexivity).
          apply (cnt_ge_in x (valueof yy)); [exact Hv|apply (Hup q); assumption].
        - intros q Hq _. apply Forall_forall. intros v Hv. apply (Hup q); assumption.
        - intros q Hq Hc. destruct (M_in q Hq) as [J1 _]. destruct (M_gb q Hq) as [Gq _].
          destruct (Ok _ J1) as [Hlow|[Pq Tq]].
          + unfold lowb in Hlow. lia.
          + destruct (short_bin _ (Hshort _ J1 Pq)) as [Eq|(yy & Eq)].
            * rewrite (gb_empty _ Gq Eq). lia.
            * rewrite (gb_single _ _ Gq Eq). rewrite (single_bv _ _ Eq) in Hc. cbn in Hc. unfold ind_ge in Hc.
              destruct (x <=? valueof yy) eqn:E1; lia.
      Qed.

      (** the first entry has a large item in every bin and is above the entry of large items *)
      Lemma bs_lower p : lower f a -> fullL a -> In p M -> G < fst (fst p) - bmin a -> T < fst (cb p) -> False.
      Proof.
        intros HL Fa Hp Hnl Hbig. destruct (M_in p Hp) as [I1 I2]. destruct (M_gb p Hp) as [G1 G2].
        pose proof (fullL_count a Fa) as Ca. rewrite (proj1 Ga) in Ca. destruct Ba as [Ok _].
        rewrite Forall_forall in Ok.
        assert (HS : Forall (fun bn => (length (snd bn) <= 1)%nat) f).
        { apply exact_short; [exact Pf|apply Gf|exact bs_f_full|lia]. }
        rewrite Forall_forall in HS.
        destruct (short_bin _ (HS _ I2)) as [E|(xx & E)]; [exfalso; exact (bs_f_nonempty _ I2 E)|].
        set (x := valueof xx). pose proof (single_bv _ _ E) as Ebv. fold x in Ebv.
        pose proof (gb_single _ _ G2 E) as Ex. fold x in Ex.
        destruct (PUk_bin f _ Pf I2) as [P2 T2].
        assert (Hx : G < x) by (apply (pure_item_large (snd p)); [exact P2|rewrite Ebv; left; reflexivity]).
        assert (Hxf : In x (allv f)) by (apply (allv_in _ (snd p)); [exact I2|rewrite Ebv; left; reflexivity]).
        apply (cert_full false x p); cbn [pu pl]; try assumption.
        - lia.
        - rewrite fst_cb in Hbig. lia.
        - intros q Hq. destruct (M_in q Hq) as [J1 _]. unfold fullL in Fa. rewrite Forall_forall in Fa.
          destruct (nLb_pos_item _ (Fa _ J1)) as (v & Hv & Hgv).
          apply (cnt_ge_in x v); [exact Hv|]. apply HL; [exact Hxf|apply (allv_in _ (fst q)); assumption|exact Hx|exact Hgv].
        - intros q Hq Hle. destruct (M_in q Hq) as [J1 _].
          destruct (Ok _ J1) as [Hlow|[Pq Tq]]; [unfold lowb in Hlow; lia|].
          apply Forall_forall. intros v Hv. apply HL; [exact Hxf|apply (allv_in _ (fst q)); assumption|exact Hx|].
          apply (pure_item_large (fst q)); assumption.
        - intros q Hq Hc. destruct (M_in q Hq) as [_ J2]. destruct (M_gb q Hq) as [_ Gq].
          destruct (short_bin _ (HS _ J2)) as [Eq|(yy & Eq)].
          + rewrite (gb_empty _ Gq Eq). lia.
          + rewrite (gb_single _ _ Gq Eq). rewrite (single_bv _ _ Eq) in Hc. cbn in Hc. unfold ind_ge in Hc.
            destruct (x <=? valueof yy) eqn:E1; lia.
      Qed.

      Lemma bs_ok p : In p M -> okb c (cb p).
      Proof.
        intros Hp. destruct (M_in p Hp) as [I1 I2]. pose proof (proj1 Ba) as Ok. rewrite Forall_forall in Ok.
        destruct (Z_le_gt_dec (fst (fst p) - bmin a) G) as [Hlow|Hnl].
        { left. apply low_stays; assumption. }
        destruct (Ok _ I1) as [Hlow|[P1 T1]]; [unfold lowb in Hlow; lia|].
        right. split; [apply pureb_cb; [exact P1|apply (PUk_bin f _ Pf I2)]|].
        destruct (Z_le_gt_dec (fst (cb p)) T) as [Hle|Hgt]; [exact Hle|exfalso].
        pose proof (fullL_nonunit f (proj1 Gf) bs_f_full) as Uf.
        destruct (full_or_not a) as [Na|Fa].
        - apply (bs_upper p); try assumption; [apply (proj1 Raf Na Uf)|lia|lia].
        - destruct (proj2 Raf Fa bs_f_full) as [L|L].
          + apply (bs_upper p); try assumption; lia.
          + apply (bs_lower p); try assumption; lia.
      Qed.

      Lemma bs_Bk : Bk c.
      Proof.
        split.
        - rewrite c_map, Forall_map. apply Forall_forall. intros p Hp. rewrite <- c_map. apply bs_ok. exact Hp.
        - intros Hc. rewrite c_nLt in Hc. pose proof bs_f_count as Cf. pose proof (nLt_nonneg a) as Na.
          assert (Za : Forall (fun bn => nLb bn = 0) a).
          { apply all_zero; [apply Forall_forall; intros bn _; apply nLb_nonneg|rewrite <- nLt_sum; lia]. }
          assert (Of : Forall (fun bn => nLb bn = 1) f).
          { apply fullL_exact; [exact bs_f_full|rewrite (proj1 Gf); lia]. }
          rewrite Forall_forall in Za, Of. rewrite c_map, Forall_map. apply Forall_forall. intros p Hp.
          destruct (M_in p Hp) as [I1 I2]. rewrite nLb_cb, (Za _ I1), (Of _ I2). lia.
      Qed.
    End BS.
  End Merge.

  (** ---- 5. absorbing a single small item ---- *)
  Definition unitbins (x : A) : bins A := repeat empty_bin (k - 1) ++ [(valueof x, [x])].

  Lemma combine_bin_empty (bn : bin A) : combine_bin bn empty_bin = bn.
  Proof. destruct bn as [z l]. unfold combine_bin, empty_bin. cbn [fst snd]. rewrite app_nil_r. f_equal. lia. Qed.

  Lemma zip_combine_empty : forall (b : bins A) n, zip_combine b (repeat empty_bin n) = b.
  Proof.
    induction b as [|bn b IH]; intros [|n]; cbn [repeat zip_combine]; try reflexivity.
    rewrite combine_bin_empty, IH. reflexivity.
  Qed.

  Lemma combine_unit (a1 : bin A) (a' : bins A) x :
    kk_combine (a1 :: a') (unitbins x) = (fst a1 + valueof x, snd a1 ++ [x]) :: a'.
  Proof.
    unfold kk_combine, unitbins. rewrite rev_app_distr, rev_repeat. cbn [rev app zip_combine].
    rewrite zip_combine_empty. reflexivity.
  Qed.

  Lemma abs_Bk (a : bins A) x : good a -> Bk a -> 0 <= valueof x <= G -> Bk (kk_combine a (unitbins x)).
  Proof.
    intros (La & Sa & Ba) [Ok B2] Hx. destruct a as [|a1 a']; [cbn in La; lia|].
    rewrite combine_unit. set (y := valueof x) in *. set (nb := (fst a1 + y, snd a1 ++ [x]) : bin A).
    match goal with |- Bk ?l => set (cl := l) end.
    assert (Em : bmin (a1 :: a') = fst a1) by (unfold bmin, sums; cbn [map]; apply sorted_hd_zmin; exact Sa).
    assert (Hmin : fst a1 <= bmin cl).
    { unfold bmin. apply zmin_glb; [discriminate|]. unfold cl, sums. cbn [map]. constructor; [cbn; lia|].
      unfold sums in Sa. cbn [map] in Sa. inversion Sa as [|z t _ Hz]; subst. exact Hz. }
    assert (Enb : nLb nb = nLb a1).
    { unfold nLb, nb, bv. cbn [snd]. rewrite map_app, cnt_gt_app. cbn [map]. fold y.
      unfold cnt_gt. cbn. unfold ind_gt. destruct (G <? y) eqn:E; lia. }
    assert (Ent : nLt cl = nLt (a1 :: a')) by (unfold cl; rewrite !nLt_cons, Enb; reflexivity).
    apply Forall_cons_iff in Ok. destruct Ok as [Ok1 Ok']. split.
    - change (Forall (okb cl) (nb :: a')). constructor.
      + left. unfold lowb. change (fst nb) with (fst a1 + y). lia.
      + eapply Forall_impl; [|exact Ok']. intros bn [Hl|Hp]; [left|right; exact Hp].
        unfold lowb in *. rewrite Em in Hl. lia.
    - rewrite Ent. intros Hc. specialize (B2 Hc).
      apply Forall_cons_iff in B2. destruct B2 as [B21 B2']. change (Forall (fun bn => nLb bn <= 1) (nb :: a')).
      constructor; [lia|exact B2'].
  Qed.

  Lemma map_repeat' {X Y} (g : X -> Y) x n : map g (repeat x n) = repeat (g x) n.
  Proof. induction n as [|n IH]; [reflexivity|]. cbn [repeat map]. rewrite IH. reflexivity. Qed.

  Lemma unitbins_good x : 0 <= valueof x -> good (unitbins x).
  Proof.
    intros Hx. unfold good, unitbins. split; [|split].
    - rewrite app_length, repeat_length. cbn [length]. lia.
    - unfold sums. rewrite map_app, map_repeat'. cbn [map fst empty_bin]. apply unit_sorted. exact Hx.
    - unfold gbs. apply Forall_app. split.
      + apply Forall_forall. intros bn Hbn. apply repeat_spec in Hbn. subst bn. split; [reflexivity|constructor].
      + constructor; [|constructor]. split; [cbn; lia|constructor; [exact Hx|constructor]].
  Qed.

  Lemma unitbins_allv x : allv (unitbins x) = [valueof x].
  Proof.
    unfold unitbins. rewrite allv_app. replace (allv (repeat empty_bin (k - 1))) with (@nil Z).
    - reflexivity.
    - induction (k - 1)%nat as [|n IH]; [reflexivity|]. cbn [repeat]. rewrite allv_cons. exact IH.
  Qed.

  (** ---- 6. the relations between entries ---- *)
  Definition Rel (b b' : bins A) : Prop := rel1 b b' /\ rel1 b' b.

  Lemma Rel_sym b b' : Rel b b' -> Rel b' b.
  Proof. intros [H1 H2]. split; assumption. Qed.

  Lemma lower_nolarge_l (b b' : bins A) : nLt b <= 0 -> lower b b'.
  Proof. intros H v v' Hv _ Hg _. pose proof (cnt_gt_in G v (allv b) Hv Hg). unfold nLt in H. lia. Qed.

  Lemma lower_nolarge_r (b b' : bins A) : nLt b' <= 0 -> lower b b'.
  Proof. intros H v v' _ Hv' _ Hg. pose proof (cnt_gt_in G v' (allv b') Hv' Hg). unfold nLt in H. lia. Qed.

  Lemma lower_union_l (c a f r : bins A) : Permutation (allv c) (allv a ++ allv f) ->
    lower a r -> lower f r -> lower c r.
  Proof.
    intros P H1 H2 v v' Hv Hv'. pose proof (Permutation_in _ P Hv) as Hv2. apply in_app_or in Hv2.
    destruct Hv2 as [Hv2|Hv2]; [apply H1|apply H2]; assumption.
  Qed.

  Lemma lower_union_r (c a f r : bins A) : Permutation (allv c) (allv a ++ allv f) ->
    lower r a -> lower r f -> lower r c.
  Proof.
    intros P H1 H2 v v' Hv Hv'. pose proof (Permutation_in _ P Hv') as Hv2. apply in_app_or in Hv2.
    destruct Hv2 as [Hv2|Hv2]; [apply H1|apply H2]; assumption.
  Qed.

  Lemma rel_merge (a f r c : bins A) : length r = k -> length a = k -> length f = k ->
    Permutation (allv c) (allv a ++ allv f) -> (nonfullL c -> nonfullL a /\ nonfullL f) ->
    Rel a r -> Rel f r -> nLt a + nLt f + nLt r <= 2 * Z.of_nat k ->
    (nonfullL r -> ~ nonunit a -> lower r a) -> (nonfullL r -> ~ nonunit f -> lower r f) -> Rel c r.
  Proof.
    intros Lr La Lf P Hnf [Rar Rra] [Rfr Rrf] Hc Ua Uf.
    pose proof (nLt_nonneg a) as Na. pose proof (nLt_nonneg f) as Nf. pose proof (nLt_nonneg r) as Nr.
    assert (Hboth : fullL r -> (lower c r \/ lower r c)).
    { intros Fr. pose proof (fullL_count r Fr) as Cr. rewrite Lr in Cr.
      destruct (full_or_not a) as [Hna|Fa].
      - destruct (full_or_not f) as [Hnf'|Ff].
        + left. pose proof (fullL_nonunit r Lr Fr) as Ur.
          apply (lower_union_l c a f r P); [apply (proj1 Rar Hna Ur)|apply (proj1 Rfr Hnf' Ur)].
        + pose proof (fullL_count f Ff) as Cf. rewrite Lf in Cf.
          destruct (proj2 Rfr Ff Fr) as [L|L].
          * left. apply (lower_union_l c a f r P); [apply lower_nolarge_l; lia|exact L].
          * right. apply (lower_union_r c a f r P); [apply lower_nolarge_r; lia|exact L].
      - pose proof (fullL_count a Fa) as Ca. rewrite La in Ca.
        destruct (proj2 Rar Fa Fr) as [L|L].
        + left. apply (lower_union_l c a f r P); [exact L|apply lower_nolarge_l; lia].
        + right. apply (lower_union_r c a f r P); [exact L|apply lower_nolarge_r; lia]. }
    split; split.
    - intros Hn Ur. destruct (Hnf Hn) as [Hna Hnf']. apply (lower_union_l c a f r P); [apply (proj1 Rar Hna Ur)|apply (proj1 Rfr Hnf' Ur)].
    - intros _ Fr. apply Hboth. exact Fr.
    - intros Hn _. apply (lower_union_r c a f r P).
      + destruct (le_lt_dec 2 (length (contents a))) as [H|H]; [apply (proj1 Rra Hn H)|apply Ua; [exact Hn|unfold nonunit; lia]].
      + destruct (le_lt_dec 2 (length (contents f))) as [H|H]; [apply (proj1 Rrf Hn H)|apply Uf; [exact Hn|unfold nonunit; lia]].
    - intros Fr _. destruct (Hboth Fr) as [L|L]; [right|left]; exact L.
  Qed.

  Lemma combine_nonfull (a f : bins A) : good a -> good f -> nonfullL (kk_combine a f) -> nonfullL a /\ nonfullL f.
  Proof.
    intros Ga Gf (bn & Hin & E). rewrite (c_map a f Ga Gf) in Hin. apply in_map_iff in Hin.
    destruct Hin as (p & Ep & Hp). subst bn. rewrite nLb_cb in E.
    pose proof (nLb_nonneg (fst p)). pose proof (nLb_nonneg (snd p)). destruct (M_in a f p Hp) as [I1 I2].
    split; [exists (fst p)|exists (snd p)]; split; try assumption; lia.
  Qed.

  Lemma zmax_le_zsum l : Forall (fun v => 0 <= v) l -> l <> [] -> zmax l <= zsum l.
  Proof. intros H Hne. apply zsum_ge_in; [exact H|apply zmax_in; exact Hne]. Qed.

  (** an entry with at most one item is above the large items of a clean entry of smaller spread
      that has an empty bin *)
  Lemma unit_lower (r a : bins A) : PUk r -> nonfullL r -> gbs r -> gbs a -> a <> [] -> r <> [] ->
    ~ nonunit a -> sp (sums r) <= sp (sums a) -> lower r a.
  Proof.
    intros Pr Nr Gr Ga Hna Hnr Ua Hsp v v' Hv Hv' Hg Hg'.
    (* v <= spread of r *)
    destruct (nonfull_pure_empty r Pr Nr) as (bn0 & I0 & E0).
    destruct (allv_in_inv r v Hv) as (bn & Hbn & Hvb).
    unfold gbs in Gr, Ga. rewrite Forall_forall in Gr, Ga.
    pose proof (gb_ge_item bn v (Gr _ Hbn) Hvb) as H1. pose proof (gb_empty _ (Gr _ I0) E0) as H2.
    pose proof (sp_ge r bn bn0 Hbn I0) as H3.
    (* spread of a <= v' *)
    assert (Ea : allv a = [v']).
    { unfold nonunit in Ua. unfold allv in *. destruct (contents a) as [|x [|y t]]; cbn [length] in Ua; [destruct Hv'| |lia].
      cbn [map] in *. destruct Hv' as [E|[]]. rewrite E. reflexivity. }
    assert (Hs : zsum (sums a) = v').
    { assert (Hw : wf valueof a) by (unfold wf; apply Forall_forall; intros b Hb; apply (proj1 (Ga _ Hb))).
      rewrite (wf_total valueof a Hw). fold (allv a). rewrite Ea. cbn. lia. }
    assert (Hpos : Forall (fun z => 0 <= z) (sums a)).
    { unfold sums. rewrite Forall_map. apply Forall_forall. intros b Hb. apply gb_nonneg, Ga, Hb. }
    assert (Hne : sums a <> []) by (unfold sums; intros E; apply map_eq_nil in E; exact (Hna E)).
    pose proof (zmax_le_zsum _ Hpos Hne) as H4.
    assert (H5 : 0 <= zmin (sums a)) by (apply zmin_glb; assumption).
    unfold sp in Hsp, H3. lia.
  Qed.

  (** ---- 7. the heap invariant ---- *)
  Variable items : list A.
  Hypothesis HWi : forall x, G < x -> W T x (map valueof items) <= 2 * Z.of_nat k.
  Hypothesis HCi : cnt_gt G (map valueof items) <= 2 * Z.of_nat k.

  Notation sv e := (sums (snd e)).
  Definition hgood (e : @hentry A) : Prop := base k e /\ gbs (snd e) /\ contents (snd e) <> [].
  Definition SUk (e : @hentry A) : Prop := exists x, snd e = unitbins x /\ 0 <= valueof x <= G.
  Definition clean (e : @hentry A) : Prop := SUk e \/ PUk (snd e).
  Definition RelE (e e' : @hentry A) : Prop := Rel (snd e) (snd e').
  Definition Struct (h : @heap A) : Prop :=
    PW RelE h /\
    (Forall clean h \/
     exists B rest, h = B :: rest /\ Bk (snd B) /\ Forall clean rest /\ Forall (small G) rest).
  Definition Inv (h : @heap A) : Prop :=
    Forall hgood h /\ heap_inv valueof k items h /\ keysorted h /\ (Forall (small G) h \/ Struct h).

  Lemma RelE_sym e e' : RelE e e' -> RelE e' e.
  Proof. apply Rel_sym. Qed.

  Lemma hgood_good e : hgood e -> good (snd e).
  Proof. intros (B & Gb & _). split; [apply (base_len_bins k e B)|split; [apply B|exact Gb]]. Qed.

  Lemma hgood_ne e : hgood e -> snd e <> [].
  Proof. intros H E. pose proof (proj1 (hgood_good e H)) as L. rewrite E in L. cbn in L. lia. Qed.

  Lemma small_sp e : hgood e -> (small G e <-> sp (sv e) <= G).
  Proof.
    intros H. split.
    - intros Hs. apply spread_sp; [|exact Hs]. unfold sums. intros E. apply map_eq_nil in E. exact (hgood_ne e H E).
    - apply sp_spread.
  Qed.

  Lemma SU_sums x : sums (unitbins x) = repeat 0 (k - 1) ++ [valueof x].
  Proof. unfold unitbins, sums. rewrite map_app, map_repeat'. reflexivity. Qed.

  Lemma SU_small e : SUk e -> sp (sv e) <= G.
  Proof. intros (x & E & Hx). rewrite E, SU_sums. pose proof (unit_spread (k - 1) (valueof x) ltac:(lia)). lia. Qed.

  Lemma SU_nLt e : SUk e -> nLt (snd e) = 0.
  Proof.
    intros (x & E & Hx). rewrite E. unfold nLt. rewrite unitbins_allv. unfold cnt_gt. cbn. unfold ind_gt.
    destruct (G <? valueof x) eqn:E1; lia.
  Qed.

  (** the new entry *)
  Definition newe (a f : @hentry A) : @hentry A := pushed (kk_combine (snd a) (snd f)).

  Lemma newe_perm a f : Permutation (snd (newe a f)) (kk_combine (snd a) (snd f)).
  Proof. unfold newe, pushed. cbn [snd]. apply sort_bins_perm. Qed.

  Lemma newe_hgood a f : hgood a -> hgood f -> hgood (newe a f).
  Proof.
    intros Ha Hf. pose proof (hgood_good a Ha) as Ga. pose proof (hgood_good f Hf) as Gf.
    split; [apply new_base; [apply Ha|apply Hf]|split].
    - apply (gbs_perm (kk_combine (snd a) (snd f))); [symmetry; apply newe_perm|apply c_gbs; assumption].
    - intros E. pose proof (contents_perm _ _ (newe_perm a f)) as P. rewrite E in P.
      pose proof (kk_combine_contents (snd a) (snd f) (len_af _ _ Ga Gf)) as P2.
      pose proof (Permutation_length P) as L1. pose proof (Permutation_length P2) as L2.
      rewrite app_length in L2. cbn [length] in L1. destruct Ha as (_ & _ & Na).
      destruct (contents (snd a)); [congruence|cbn [length] in L2; lia].
  Qed.

  Lemma newe_allv a f : hgood a -> hgood f -> Permutation (allv (snd (newe a f))) (allv (snd a) ++ allv (snd f)).
  Proof.
    intros Ha Hf. rewrite (allv_perm _ _ (newe_perm a f)). apply c_allv; apply hgood_good; assumption.
  Qed.

  (** weights and counts of the two first entries *)
  Lemma heap_contents_in (r : @hentry A) h : In r h ->
    exists l1 l2, Permutation (heap_contents h) (contents (snd r) ++ l1 ++ l2).
  Proof.
    intros Hin. destruct (in_split r h Hin) as (h1 & h2 & E). subst h.
    exists (heap_contents h1), (heap_contents h2).
    rewrite (heap_contents_perm _ _ (Permutation_sym (Permutation_middle h1 h2 r))), heap_contents_cons.
    apply Permutation_app_head. unfold heap_contents. rewrite map_app, concat_app. reflexivity.
  Qed.

  Lemma top_W a f rest x : heap_inv valueof k items (a :: f :: rest) -> G < x ->
    W T x (allv (snd a)) + W T x (allv (snd f)) <= 2 * Z.of_nat k.
  Proof.
    intros [_ P] Hx. specialize (HWi x Hx). rewrite <- (W_perm T x _ _ (Permutation_map valueof P)) in HWi.
    rewrite !heap_contents_cons, !map_app, !W_app in HWi. fold (allv (snd a)) (allv (snd f)) in HWi.
    pose proof (W_nonneg T x (map valueof (heap_contents rest))). lia.
  Qed.

  Lemma top_C a f rest : heap_inv valueof k items (a :: f :: rest) ->
    nLt (snd a) + nLt (snd f) <= 2 * Z.of_nat k /\
    forall r, In r rest -> nLt (snd a) + nLt (snd f) + nLt (snd r) <= 2 * Z.of_nat k.
  Proof.
    intros [_ P]. rewrite <- (cnt_gt_perm G _ _ (Permutation_map valueof P)) in HCi.
    rewrite !heap_contents_cons, !map_app, !cnt_gt_app in HCi. fold (allv (snd a)) (allv (snd f)) in HCi.
    fold (nLt (snd a)) (nLt (snd f)) in HCi. split.
    - pose proof (cnt_gt_bounds G (map valueof (heap_contents rest))). lia.
    - intros r Hr. destruct (heap_contents_in r rest Hr) as (l1 & l2 & P2).
      rewrite (cnt_gt_perm G _ _ (Permutation_map valueof P2)), !map_app, !cnt_gt_app in HCi.
      fold (allv (snd r)) in HCi. fold (nLt (snd r)) in HCi.
      pose proof (cnt_gt_bounds G (map valueof l1)). pose proof (cnt_gt_bounds G (map valueof l2)). lia.
  Qed.

  Lemma sorted_sp (e r : @hentry A) h : keysorted (e :: h) -> hgood e -> hgood r -> In r h -> sp (sv r) <= sp (sv e).
  Proof.
    intros HS He Hr Hin. destruct (keysorted_tail e h HS) as [_ HF]. rewrite Forall_forall in HF.
    specialize (HF r Hin). destruct He as ((_ & _ & Ke) & _). destruct Hr as ((_ & _ & Kr) & _). lia.
  Qed.

  (** relations of the new entry with the others *)
  Lemma newe_rel a f rest : Forall hgood (a :: f :: rest) -> heap_inv valueof k items (a :: f :: rest) ->
    keysorted (a :: f :: rest) -> PW RelE (a :: f :: rest) -> Forall clean rest ->
    Forall (RelE (newe a f)) rest.
  Proof.
    intros HG HI HS HP HC.
    pose proof (Forall_inv HG) as Ha. pose proof (Forall_inv (Forall_inv_tail HG)) as Hf.
    pose proof (Forall_inv_tail (Forall_inv_tail HG)) as Hr.
    destruct HP as [Pa [Pf _]]. apply Forall_cons_iff in Pa. destruct Pa as [_ Pa].
    destruct (top_C a f rest HI) as [_ Hcnt].
    pose proof (hgood_good a Ha) as Ga. pose proof (hgood_good f Hf) as Gf.
    rewrite Forall_forall in *. intros r Hin.
    pose proof (hgood_good r (Hr r Hin)) as Gr.
    assert (Hlow : forall e, hgood e -> sp (sv r) <= sp (sv e) -> nonfullL (snd r) -> ~ nonunit (snd e) -> lower (snd r) (snd e)).
    { intros e He Hsp Hn Hu. destruct (HC r Hin) as [Hsu|Hpu].
      - apply lower_nolarge_l. rewrite (SU_nLt r Hsu). lia.
      - apply unit_lower; try assumption; [apply (Hr r Hin)|apply He|apply hgood_ne; exact He|apply hgood_ne; apply (Hr r Hin)]. }
    apply (rel_merge (snd a) (snd f) (snd r) (snd (newe a f))).
    - apply Gr.
    - apply Ga.
    - apply Gf.
    - apply newe_allv; assumption.
    - intros Hn. apply combine_nonfull; try assumption. eapply nonfullL_perm; [apply newe_perm|exact Hn].
    - apply Pa. exact Hin.
    - apply Pf. exact Hin.
    - apply Hcnt. exact Hin.
    - apply (Hlow a Ha). apply (sorted_sp a r (f :: rest)); [exact HS|exact Ha|apply (Hr r Hin)|right; exact Hin].
    - apply (Hlow f Hf). destruct (keysorted_tail a _ HS) as [HS' _].
      apply (sorted_sp f r rest); [exact HS'|exact Hf|apply (Hr r Hin)|exact Hin].
  Qed.

  Lemma finish_dirty new rest : hgood new -> Forall hgood rest -> Bk (snd new) -> Forall clean rest ->
    Forall (small G) rest -> PW RelE rest -> Forall (RelE new) rest ->
    Forall (small G) (heap_insert new rest) \/ Struct (heap_insert new rest).
  Proof.
    intros Hn Hr HB HC HSm HP HR. destruct (Z_le_gt_dec (sp (sv new)) G) as [Hs|Hb].
    - left. apply heap_insert_Forall; [exact HSm|]. apply (small_sp new Hn). exact Hs.
    - right. rewrite heap_insert_front.
      + split; [split; assumption|]. right. exists new, rest. split; [reflexivity|split; [exact HB|split; assumption]].
      + rewrite Forall_forall in *. intros y Hy. pose proof (proj1 (small_sp y (Hr y Hy)) (HSm y Hy)) as Hy2.
        destruct Hn as ((_ & _ & Kn) & _). destruct (Hr y Hy) as ((_ & _ & Ky) & _). lia.
  Qed.

  Lemma step_Inv a f rest : Inv (a :: f :: rest) -> Inv (heap_push rest (kk_combine (snd a) (snd f))).
  Proof.
    intros (HG & HI & HS & Hcase).
    pose proof (kk_step_inv valueof k items a f rest HI) as HI'.
    rewrite heap_push_pushed in *. fold (newe a f) in *.
    pose proof (Forall_inv HG) as Ha. pose proof (Forall_inv (Forall_inv_tail HG)) as Hf.
    pose proof (Forall_inv_tail (Forall_inv_tail HG)) as Hr.
    pose proof (newe_hgood a f Ha Hf) as Hnew.
    destruct (keysorted_tail a _ HS) as [HS1 _]. destruct (keysorted_tail f _ HS1) as [HS2 _].
    assert (HBase : Forall (base k) (a :: f :: rest)).
    { eapply Forall_impl; [|exact HG]. intros e He. apply He. }
    assert (Hsmall : Forall (small G) (a :: f :: rest) -> Forall (small G) (heap_insert (newe a f) rest)).
    { intros H. pose proof (step_small G HG0 k a f rest HBase H) as H2. rewrite heap_push_pushed in H2. exact H2. }
    split; [apply heap_insert_Forall; assumption|split; [exact HI'|split; [apply heap_insert_sorted; exact HS2|]]].
    destruct Hcase as [Hsm|[HP Hform]]; [left; apply Hsmall; exact Hsm|].
    destruct (Z_le_gt_dec (sp (sv a)) G) as [Hsa|Hba].
    { left. apply Hsmall. apply Forall_forall. intros e [E|Hin].
      - subst e. apply (small_sp a Ha). exact Hsa.
      - assert (He : hgood e) by (rewrite Forall_forall in HG; apply HG; right; exact Hin).
        apply (small_sp e He). pose proof (sorted_sp a e (f :: rest) HS Ha He Hin). lia. }
    pose proof (hgood_good a Ha) as Ga. pose proof (hgood_good f Hf) as Gf.
    assert (HW : forall x, G < x -> W T x (allv (snd a)) + W T x (allv (snd f)) <= 2 * Z.of_nat k).
    { intros x Hx. apply (top_W a f rest x HI Hx). }
    destruct (top_C a f rest HI) as [HC _].
    assert (Raf : RelE a f). { destruct HP as [Pa _]. apply (Forall_inv Pa). }
    assert (HPr : PW RelE rest) by (apply (PW_tail RelE f), (PW_tail RelE a), HP).
    assert (Habs : forall x, snd f = unitbins x -> 0 <= valueof x <= G -> Bk (snd a) -> Bk (snd (newe a f))).
    { intros x E Hx HB. apply (Bk_perm (kk_combine (snd a) (snd f))); [symmetry; apply newe_perm|].
      rewrite E. apply abs_Bk; assumption. }
    assert (Hrsm : sp (sv f) <= G -> Forall (small G) rest).
    { intros Hsf. apply Forall_forall. intros e Hin.
      assert (He : hgood e) by (rewrite Forall_forall in Hr; apply Hr; exact Hin).
      apply (small_sp e He). pose proof (sorted_sp f e rest HS1 Hf He Hin). lia. }
    destruct Hform as [Hall|(B & rest' & E & HB & Hcl & Hsm)].
    - pose proof (Forall_inv Hall) as Ca. pose proof (Forall_inv (Forall_inv_tail Hall)) as Cf.
      pose proof (Forall_inv_tail (Forall_inv_tail Hall)) as Cr.
      pose proof (newe_rel a f rest HG HI HS HP Cr) as HR.
      destruct Ca as [Sa|Pa]; [pose proof (SU_small a Sa); lia|].
      destruct Cf as [(x & Ex & Hx)|Pf].
      + apply finish_dirty; try assumption.
        * apply (Habs x Ex Hx). apply PUk_Bk; [apply Ga|exact Pa].
        * apply Hrsm. apply SU_small. exists x. split; assumption.
      + right. split.
        * apply PW_heap_insert; [intros u v; apply RelE_sym|exact HPr|exact HR].
        * left. apply heap_insert_Forall; [exact Cr|]. right.
          apply (PUk_perm (kk_combine (snd a) (snd f))); [symmetry; apply newe_perm|].
          apply pp_PUk; try assumption; [apply Raf|apply (RelE_sym _ _ Raf)].
    - injection E as E1 E2. subst B rest'.
      pose proof (Forall_inv Hcl) as Cf. pose proof (Forall_inv_tail Hcl) as Cr.
      pose proof (Forall_inv_tail Hsm) as Smr.
      pose proof (newe_rel a f rest HG HI HS HP Cr) as HR.
      apply finish_dirty; try assumption.
      destruct Cf as [(x & Ex & Hx)|Pf].
      + apply (Habs x Ex Hx HB).
      + apply (Bk_perm (kk_combine (snd a) (snd f))); [symmetry; apply newe_perm|].
        assert (Hspf : sp (sv f) <= G) by (apply (proj1 (small_sp f Hf)); apply (Forall_inv Hsm)).
        assert (Hcf : contents (snd f) <> []) by apply Hf.
        pose proof (proj1 Raf) as Raf1.
        apply bs_Bk; assumption.
  Qed.

  Lemma kk_loop_Inv' : forall fuel (h : @heap A), Inv h -> Inv (kk_loop fuel h).
  Proof.
    induction fuel as [|n IH]; intros h Hh; cbn [kk_loop]; [exact Hh|].
    destruct h as [|e1 [|e2 rest]]; try exact Hh. apply IH, step_Inv, Hh.
  Qed.

  (** what the invariant says about a heap with a single entry *)
  Lemma Inv_single' (e : @hentry A) : Inv [e] -> zmax (sv e) <= T \/ zmax (sv e) - zmin (sv e) <= G.
  Proof.
    intros (HG & _ & _ & Hcase). pose proof (Forall_inv HG) as He.
    destruct Hcase as [Hsm|[_ Hform]].
    - right. change (sp (sv e) <= G). apply (proj1 (small_sp e He)). exact (Forall_inv Hsm).
    - assert (HB : sp (sv e) <= G \/ Bk (snd e)).
      { destruct Hform as [Hall|(B & rest' & E & HB & _)].
        - destruct (Forall_inv Hall) as [Su|Pu].
          + left. apply SU_small. exact Su.
          + right. apply PUk_Bk; [apply (hgood_good e He)|exact Pu].
        - injection E as E1 E2. subst B. right. exact HB. }
      destruct HB as [Hs|HB]; [right; exact Hs|].
      destruct (Z_le_gt_dec (zmax (sv e) - zmin (sv e)) G) as [Hle|Hgt]; [right; exact Hle|left].
      assert (Hne : sv e <> []) by (unfold sums; intros E; apply map_eq_nil in E; exact (hgood_ne e He E)).
      pose proof (zmax_in (sv e) Hne) as Hin. unfold sums in Hin. apply in_map_iff in Hin.
      destruct Hin as (bn & Ebn & Hbn). destruct HB as [Ok _]. rewrite Forall_forall in Ok.
      destruct (Ok bn Hbn) as [Hlow|[_ HT]].
      + unfold lowb, bmin in Hlow. unfold sums in *. lia.
      + unfold sums in *. lia.
  Qed.

  (** ---- 8. the initial heap ---- *)
  Definition isunit (e : @hentry A) : Prop :=
    exists x, e = pushed (singleton_bins valueof true k x) /\ snd e = unitbins x /\ 0 <= valueof x <= T.

  Lemma unitbins_sorted x : 0 <= valueof x -> key_sorted (@fst Z (list A)) (unitbins x).
  Proof.
    intros Hx. unfold key_sorted, unitbins. induction (k - 1)%nat as [|n IH]; cbn [repeat app]; [repeat constructor|].
    constructor; [exact IH|]. apply Forall_app. split.
    - apply Forall_forall. intros bn Hbn. apply repeat_spec in Hbn. subst bn. cbn. lia.
    - constructor; [cbn; lia|constructor].
  Qed.

  Lemma singleton_unitbins x : 0 <= valueof x -> snd (pushed (singleton_bins valueof true k x)) = unitbins x.
  Proof.
    intros Hx. unfold pushed. cbn [snd].
    assert (E : singleton_bins valueof true k x = unitbins x).
    { unfold singleton_bins, add_item, new_bins, unitbins.
      assert (Er : repeat (@empty_bin A) k = repeat empty_bin (k - 1) ++ [empty_bin]).
      { replace k with ((k - 1) + 1)%nat at 1 by lia. rewrite repeat_app. reflexivity. }
      rewrite Er. rewrite <- (repeat_length (@empty_bin A) (k - 1)) at 1. rewrite update_mid.
      unfold add_to_bin, empty_bin. cbn [fst snd app]. rewrite Z.add_0_l. reflexivity. }
    rewrite E. unfold sort_bins. apply sort_asc_id. apply unitbins_sorted. exact Hx.
  Qed.

  Lemma unitbins_contents x : contents (unitbins x) = [x].
  Proof.
    unfold unitbins. rewrite contents_app. replace (contents (repeat (@empty_bin A) (k - 1))) with (@nil A).
    - reflexivity.
    - induction (k - 1)%nat as [|n IH]; [reflexivity|]. cbn [repeat].
      change (contents (empty_bin :: repeat (@empty_bin A) n)) with (snd (@empty_bin A) ++ contents (repeat (@empty_bin A) n)).
      rewrite <- IH. reflexivity.
  Qed.

  Lemma HT0 : 0 <= T.
  Proof. lia. Qed.

  Lemma isunit_hgood e : isunit e -> hgood e.
  Proof.
    intros (x & E & Es & Hx). split; [rewrite E; apply entry_base|split].
    - rewrite Es. apply (unitbins_good x). lia.
    - rewrite Es, unitbins_contents. discriminate.
  Qed.

  Lemma unitbins_in x bn : In bn (unitbins x) -> bn = empty_bin \/ bn = (valueof x, [x]).
  Proof.
    unfold unitbins. intros H. apply in_app_or in H. destruct H as [H|[H|[]]].
    - left. apply repeat_spec in H. exact H.
    - right. symmetry. exact H.
  Qed.

  Lemma isunit_clean e : isunit e -> clean e.
  Proof.
    intros (x & E & Es & Hx). destruct (Z_le_gt_dec (valueof x) G) as [Hs|Hb].
    - left. exists x. split; [exact Es|lia].
    - right. rewrite Es. split.
      + apply Forall_forall. intros bn Hbn. destruct (unitbins_in x bn Hbn) as [Eb|Eb]; subst bn.
        * split; [constructor|cbn; apply HT0].
        * split; [constructor; [lia|constructor]|cbn; lia].
      + intros _. apply Forall_forall. intros bn Hbn. destruct (unitbins_in x bn Hbn) as [Eb|Eb]; subst bn; cbn; lia.
  Qed.

  Lemma isunit_rel e e' : isunit e -> isunit e' -> RelE e e'.
  Proof.
    assert (H1 : forall x y, rel1 (unitbins x) (unitbins y)).
    { intros x y. split.
      - intros _ Hu. unfold nonunit in Hu. rewrite unitbins_contents in Hu. cbn in Hu. lia.
      - intros Hf _. exfalso. unfold fullL, unitbins in Hf. apply Forall_app in Hf. destruct Hf as [Hf _].
        destruct (k - 1)%nat as [|n] eqn:En; [lia|]. cbn [repeat] in Hf. apply Forall_inv in Hf.
        unfold nLb, bv in Hf. cbn in Hf. lia. }
    intros (x & _ & Es & _) (y & _ & Es' & _). unfold RelE, Rel. rewrite Es, Es'. split; apply H1.
  Qed.

  Lemma PW_of_Forall {X} (P : X -> Prop) (R : X -> X -> Prop) l :
    (forall x y, P x -> P y -> R x y) -> Forall P l -> PW R l.
  Proof.
    intros HR. induction 1 as [|x t Hx Ht IH]; [exact I|]. split; [|exact IH].
    eapply Forall_impl; [|exact Ht]. intros y Hy. apply HR; assumption.
  Qed.

  Lemma init_fold' : forall l (h : @heap A), Forall (fun x => 0 <= valueof x <= T) l ->
    Forall isunit h -> keysorted h ->
    Forall isunit (fold_left (fun h x => heap_push h (singleton_bins valueof true k x)) l h) /\
    keysorted (fold_left (fun h x => heap_push h (singleton_bins valueof true k x)) l h).
  Proof.
    induction l as [|x t IH]; intros h Hl Hh Hs; [split; assumption|].
    apply Forall_cons_iff in Hl. destruct Hl as [Hx Hl]. cbn [fold_left]. apply IH; [exact Hl| |].
    - rewrite heap_push_pushed. apply heap_insert_Forall; [exact Hh|]. exists x.
      split; [reflexivity|split; [apply singleton_unitbins; lia|exact Hx]].
    - rewrite heap_push_pushed. apply heap_insert_sorted. exact Hs.
  Qed.

  Lemma initial_Inv' : Forall (fun x => 0 <= valueof x <= T) items -> Inv (initial_heap valueof true k items).
  Proof.
    intros Hl.
    assert (Hl' : Forall (fun x => 0 <= valueof x <= T) (sort_desc valueof items)).
    { eapply Permutation_Forall; [symmetry; apply sort_desc_perm|exact Hl]. }
    destruct (init_fold' (sort_desc valueof items) [] Hl' ltac:(constructor) ltac:(constructor)) as [HU HS].
    fold (initial_heap valueof true k items) in HU, HS.
    split; [|split; [apply (initial_heap_inv valueof k items); lia|split; [exact HS|]]].
    - eapply Forall_impl; [|exact HU]. apply isunit_hgood.
    - right. split.
      + apply (PW_of_Forall isunit RelE); [apply isunit_rel|exact HU].
      + left. eapply Forall_impl; [|exact HU]. apply isunit_clean.
  Qed.

  Theorem kk_dichotomy_struct b : items <> [] -> Forall (fun x => 0 <= valueof x <= T) items ->
    kk valueof true k items = Ok b -> zmax (sums b) <= T \/ zmax (sums b) - zmin (sums b) <= G.
  Proof.
    intros Hne Hl Hkk.
    pose proof (kk_loop_Inv' (length items - 1) _ (initial_Inv' Hl)) as HI.
    assert (Hpos : (1 <= length items)%nat) by (destruct items; [congruence|cbn [length]; lia]).
    pose proof (kk_loop_length (length items - 1) (initial_heap valueof true k items)) as HN.
    rewrite initial_heap_length in HN. specialize (HN Hpos ltac:(lia)).
    unfold kk in Hkk.
    destruct (kk_loop (length items - 1) (initial_heap valueof true k items)) as [|e [|e' r]];
      cbn [length] in HN; try lia.
    injection Hkk as <-. apply Inv_single'. exact HI.
  Qed.
End Struct.

(** ---- 9. the theorems ---- *)
Section KK43.
  Context {A : Type} (valueof : A -> Z).

  (** either the largest sum is at most the optimum, or the sums differ by at most a third of it *)
  Theorem kk_dichotomy_third k items b opt : (1 <= k)%nat -> items <> [] ->
    Forall (fun x => 0 <= valueof x) items -> kk valueof true k items = Ok b ->
    Opt MinLargest k (map valueof items) opt ->
    zmax (sums b) <= opt \/ zmax (sums b) - zmin (sums b) <= opt / 3.
  Proof.
    intros Hk Hne Hpos Hkk Hopt.
    pose proof (values_nonneg valueof items Hpos) as Hvs.
    pose proof (opt_minlargest_nonneg _ _ _ Hopt Hvs Hk) as H0.
    assert (HG0 : 0 <= opt / 3) by (apply Z.div_pos; lia).
    destruct (Nat.eq_dec k 1) as [E1|E1].
    - right. destruct (kk_partition valueof k items Hk Hne) as (b' & Hb' & (_ & HL & _)).
      rewrite Hkk in Hb'. injection Hb' as <-. rewrite E1 in HL.
      destruct b as [|x [|y t]]; cbn [length] in HL; try lia. cbn. lia.
    - assert (HGT : 3 * (opt / 3) <= opt < 3 * (opt / 3) + 3).
      { pose proof (Z.div_mod opt 3 ltac:(lia)). pose proof (Z.mod_pos_bound opt 3 ltac:(lia)). lia. }
      destruct (opt_minlargest_lower_bounds _ _ _ Hopt Hvs Hk) as [_ Hle].
      destruct Hopt as [(s & Hs & Ev) _]. rewrite value_MinLargest in Ev.
      assert (HsT : Forall (fun a => a <= opt) s) by (rewrite <- Ev; apply zmax_ge).
      apply (kk_dichotomy_struct valueof k opt (opt / 3) ltac:(lia) HG0 HGT items); try assumption.
      + intros x Hx. apply (W_upper k opt x (map valueof items) s); try assumption; lia.
      + apply (large_count k opt (opt / 3) (map valueof items) s); try assumption; lia.
      + rewrite Forall_map in Hle. rewrite Forall_forall in *. intros x Hx. split; [apply Hpos|apply Hle]; exact Hx.
  Qed.

  (** Karmarkar-Karp's largest sum is at most (4/3 - 1/(3k)) times the optimum, for every k *)
  Theorem kk_ratio_43 k items b opt : (1 <= k)%nat -> items <> [] ->
    Forall (fun x => 0 <= valueof x) items -> kk valueof true k items = Ok b ->
    Opt MinLargest k (map valueof items) opt ->
    3 * Z.of_nat k * zmax (sums b) <= (4 * Z.of_nat k - 1) * opt.
  Proof.
    intros Hk Hne Hpos Hkk Hopt.
    pose proof (values_nonneg valueof items Hpos) as Hvs.
    pose proof (opt_minlargest_nonneg _ _ _ Hopt Hvs Hk) as H0.
    destruct (kk_partition valueof k items Hk Hne) as (b' & Hb' & Hpart).
    rewrite Hkk in Hb'. injection Hb' as <-.
    apply (gap_ratio_43 k (map valueof items) (sums b) opt (opt / 3)); try assumption.
    - apply partition_attainable. exact Hpart.
    - pose proof (Z.div_mod opt 3 ltac:(lia)). pose proof (Z.mod_pos_bound opt 3 ltac:(lia)). lia.
    - apply (kk_dichotomy_third k items b opt); assumption.
  Qed.

  (** flat corollaries *)
  Corollary kk_ratio_43_flat k items b opt : (1 <= k)%nat -> items <> [] ->
    Forall (fun x => 0 <= valueof x) items -> kk valueof true k items = Ok b ->
    Opt MinLargest k (map valueof items) opt -> 3 * zmax (sums b) <= 4 * opt.
  Proof.
    intros Hk Hne Hpos Hkk Hopt.
    pose proof (kk_ratio_43 k items b opt Hk Hne Hpos Hkk Hopt) as H.
    pose proof (values_nonneg valueof items Hpos) as Hvs.
    pose proof (opt_minlargest_nonneg _ _ _ Hopt Hvs Hk) as H0.
    assert (HK : 1 <= Z.of_nat k) by lia.
    apply (Z.mul_le_mono_pos_l _ _ (Z.of_nat k)); [lia|]. nia.
  Qed.

  (** k = 3: 11/9 *)
  Corollary kk_ratio_k3 items b opt : items <> [] ->
    Forall (fun x => 0 <= valueof x) items -> kk valueof true 3 items = Ok b ->
    Opt MinLargest 3 (map valueof items) opt -> 9 * zmax (sums b) <= 11 * opt.
  Proof.
    intros Hne Hpos Hkk Hopt.
    pose proof (kk_ratio_43 3 items b opt ltac:(lia) Hne Hpos Hkk Hopt) as H. cbn [Z.of_nat] in H. lia.
  Qed.
End KK43.

(** the requested statement of KKRatioProofs *)
Theorem kk_ratio_43_statement_holds : kk_ratio_43_statement.
Proof. unfold kk_ratio_43_statement. intros A v k items b opt. apply kk_ratio_43. Qed.

(** ---- 10. examples and machine checks against the exact oracle ---- *)

(** the bound is attained for k = 2 (3,3,2,2,2: 7 against 6) and the dichotomy is sharp there:
    the largest sum exceeds the optimum and the spread is exactly opt / 3 *)
Example kk_43_attained_k2 :
  kk_sums 2 [3; 3; 2; 2; 2] = [5; 7] /\ optv 2 [3; 3; 2; 2; 2] = 6 /\ 3 * 2 * 7 = (4 * 2 - 1) * 6 /\ 7 - 5 = 6 / 3.
Proof. vm_compute. repeat split; reflexivity. Qed.

(** the instance on which the threshold "(2k+1)-th largest value" fails ([kk_dichotomy_2k_fails_k3]):
    sums 6, 7, 8, optimum 7; the spread 2 is at most 7 / 3 = 2 *)
Example kk_dichotomy_third_k3 :
  kk_sums 3 [6; 4; 3; 3; 2; 2; 1] = [6; 7; 8] /\ optv 3 [6; 4; 3; 3; 2; 2; 1] = 7 /\ 8 - 6 <= 7 / 3.
Proof. vm_compute. repeat split; try reflexivity. discriminate. Qed.

(** the theorem applied through the verified oracle *)
Example kk_43_example_k3 b : kk idZ true 3 [6; 4; 3; 3; 2; 2; 1] = Ok b -> 9 * zmax (sums b) <= 11 * 7.
Proof.
  intros H. apply (kk_ratio_k3 idZ [6; 4; 3; 3; 2; 2; 1] b 7); [discriminate| |exact H|].
  - repeat constructor; lia.
  - destruct (opt_value_spec MinLargest 3 [6; 4; 3; 3; 2; 2; 1] ltac:(lia)) as (v & Ev & Hv).
    vm_compute in Ev. injection Ev as <-. rewrite map_id. exact Hv.
Qed.

(** the dichotomy and the ratio on 300 pseudo-random instances, k = 1..4, up to 9 items *)
Definition check_third (k : nat) (vs : list Z) : bool :=
  let s := kk_sums k vs in (zmax s <=? optv k vs) || (zmax s - zmin s <=? optv k vs / 3).

Example kk_third_checks_random :
  forallb (fun s => let (k, vs) := inst43 s in check_third k vs && check_43 k vs)
          (map Z.of_nat (seq 1 300)) = true.
Proof. vm_compute. reflexivity. Qed.

Check kk_dichotomy_third.
Check kk_ratio_43.
Check kk_ratio_43_statement_holds.
Check kk_ratio_43_flat.
Check kk_ratio_k3.

Print Assumptions kk_dichotomy_third.
Print Assumptions kk_ratio_43.
Print Assumptions kk_ratio_43_statement_holds.
Print Assumptions kk_ratio_43_flat.
Print Assumptions kk_ratio_k3.
Print Assumptions kk_43_example_k3.
