(** Property C07 (presentation independence) for sequential number partitioning [snp] and
    recursive number partitioning [rnp]: two presentations of the same list of values (named
    items / plain numbers / any two namings in which names determine values) give the same
    vector of bin sums.

    Route (every step is an exact lock-step simulation):
      1. contents manager -> sums manager      [snp_erase'], [rnp_erase']  (the [nonneg] hypothesis
         of EraseProofs.snp_erase / rnp_erase is dropped);
      2. sums manager on named items -> sums manager on the plain values
         [snp_sums_manager_names], [rnp_sums_manager_names].
    Step 2 is NOT a plain projection: find_diff (collections.Counter on the item names) returns
    the remaining items grouped by NAME, so with plain numbers equal values are grouped together
    while with distinct names they keep their places: the remaining items of the two runs are only
    PERMUTATIONS of each other by value.  The simulation therefore relates [items : list A] with
    any [itemsZ : list Z] such that [Permutation (map valueof items) itemsZ]; it goes through
    because every consumer sorts first (sort_desc is stable and, on plain numbers, a function of the
    multiset) or only adds up.
      3. rnp's even case feeds the CONTENTS of the partitions yielded by the 2-way generator
         (always a contents manager) back into the search: [ckk_generator_values] / [ckk_values]
         show that the contents run of ckk on named items, seen through the ascending list of
         VALUES of every bin, is the contents run on the plain values (any k).
    Results (all without [nonneg], for EVERY number of bins, errors included):
      [snp_names_sums_gen], [rnp_names_sums_gen]  two presentations with names_ok, contents manager
      [snp_names_sums_gen_false], [rnp_names_sums_gen_false]  the same for the sums manager
      [snp_names_sums], [rnp_names_sums]          named items against their plain values
    So C07 HOLDS for snp and rnp in the model; no counterexample exists (tests before proving: all 3125 lists
    of length 5 over 0..4 with names in both orders, snp 3-4 bins, rnp 3-5 bins; 300 random runs
    of the Python library, dict against list, agree). *)
From Prtpy Require Import Base.Prelude Base.Perms Model.Binner Model.KK Model.InExTree Model.SNP
  Proofs.BaseLemmas Proofs.BinnerLemmas Proofs.EnumProofs Proofs.KKProofs Proofs.CKKOptimal
  Proofs.ObjectivesProofs Proofs.NamesProofs Proofs.SNPProofs Proofs.RNPProofs Proofs.EraseProofs
  Proofs.CKKManagersProofs.
From Coq Require Import Sorting.Sorted ZifyBool.

Local Notation idv := (fun v : Z => v).

(** ---------------------------------------------------------------------------------- *)
(** * 0. plain numbers: everything that sorts first is a function of the multiset       *)
(** ---------------------------------------------------------------------------------- *)
Lemma map_opp_opp (l : list Z) : map Z.opp (map Z.opp l) = l.
Proof.
  rewrite map_map. induction l as [|x t IH]; cbn [map]; [reflexivity|].
  rewrite IH, Z.opp_involutive. reflexivity.
Qed.

Lemma sort_desc_idv_perm (l l' : list Z) : Permutation l l' -> sort_desc idv l = sort_desc idv l'.
Proof.
  intros P.
  assert (E : forall m : list Z, map Z.opp (sort_desc idv m) = sort_asc idv (map Z.opp m)).
  { intros m. unfold sort_desc. apply (sort_asc_map Z.opp (fun x : Z => - x) idv). intros y. reflexivity. }
  rewrite <- (map_opp_opp (sort_desc idv l)), <- (map_opp_opp (sort_desc idv l')), !E.
  f_equal. apply sort_asc_perm_eq. apply Permutation_map. exact P.
Qed.

Lemma vsum_idv (l : list Z) : vsum idv l = zsum l.
Proof. unfold vsum. rewrite nm_map_id. reflexivity. Qed.

Lemma vsum_idv_perm (l l' : list Z) : Permutation l l' -> vsum idv l = vsum idv l'.
Proof. intros P. rewrite !vsum_idv. apply zsum_perm. exact P. Qed.

Lemma initial_heap_idv_perm (keep : bool) (k : nat) (l l' : list Z) : Permutation l l' ->
  initial_heap idv keep k l = initial_heap idv keep k l'.
Proof. intros P. unfold initial_heap. rewrite (sort_desc_idv_perm l l' P). reflexivity. Qed.

Lemma ckk_run_idv_perm (nm : Z -> Z) (keep mode : bool) (init : option Z) (k : nat) (l l' : list Z) :
  Permutation l l' -> ckk_run idv nm keep mode init k l = ckk_run idv nm keep mode init k l'.
Proof.
  intros P. unfold ckk_run. rewrite (initial_heap_idv_perm keep k l l' P), (Permutation_length P).
  reflexivity.
Qed.

Lemma ckk_idv_perm (nm : Z -> Z) (keep : bool) (k : nat) (l l' : list Z) :
  Permutation l l' -> ckk idv nm keep k l = ckk idv nm keep k l'.
Proof. intros P. unfold ckk. rewrite (ckk_run_idv_perm nm keep true None k l l' P). reflexivity. Qed.

Lemma ckk_generator_idv_perm (nm : Z -> Z) (keep : bool) (k : nat) (l l' : list Z) (init : option Z) :
  Permutation l l' -> ckk_generator idv nm keep k l init = ckk_generator idv nm keep k l' init.
Proof. intros P. unfold ckk_generator. rewrite (ckk_run_idv_perm nm keep _ init k l l' P). reflexivity. Qed.

(** ---------------------------------------------------------------------------------- *)
(** * 1. find_diff at the level of values                                               *)
(** ---------------------------------------------------------------------------------- *)
Section FindDiff.
  Context {A : Type} (valueof nameof : A -> Z).

  Lemma existsb_item_map (x : A) (seen : list A) :
    existsb (item_eqb idv (nameof x)) (map nameof seen) = existsb (item_eqb nameof x) seen.
  Proof. induction seen as [|y t IH]; cbn [map existsb]; [reflexivity|]. rewrite IH. reflexivity. Qed.

  Lemma distinct_in_order_map (l : list A) : forall seen,
    map nameof (distinct_in_order nameof l seen) = distinct_in_order idv (map nameof l) (map nameof seen).
  Proof.
    induction l as [|x t IH]; intros seen; cbn [map distinct_in_order]; [reflexivity|].
    rewrite existsb_item_map. destruct (existsb (item_eqb nameof x) seen); [apply IH|].
    cbn [map]. f_equal. apply (IH (x :: seen)).
  Qed.

  Lemma count_occ_b_map (x : A) (l : list A) :
    count_occ_b idv (nameof x) (map nameof l) = count_occ_b nameof x l.
  Proof.
    unfold count_occ_b. induction l as [|y t IH]; cbn [map filter]; [reflexivity|].
    change (item_eqb idv (nameof x) (nameof y)) with (item_eqb nameof x y).
    destruct (item_eqb nameof x y); cbn [length]; rewrite IH; reflexivity.
  Qed.

  Lemma find_diff_map_names (l1 l2 : list A) :
    map nameof (find_diff nameof l1 l2) = find_diff idv (map nameof l1) (map nameof l2).
  Proof.
    unfold find_diff. change (@nil Z) with (map nameof []). rewrite <- (distinct_in_order_map l1 []).
    generalize (distinct_in_order nameof l1 []) as d.
    induction d as [|x t IH]; cbn [map flat_map]; [reflexivity|].
    rewrite map_app, IH, map_repeat_eq, !count_occ_b_map. reflexivity.
  Qed.

  (** names: find_diff is the multiset difference *)
  Lemma find_diff_names_perm (items cur : list A) :
    (exists ex, Permutation (cur ++ ex) items) ->
    Permutation (map nameof (cur ++ find_diff nameof items cur)) (map nameof items).
  Proof.
    intros (ex & P). rewrite map_app, find_diff_map_names.
    apply (find_diff_perm idv); [intros x y E; exact E|].
    exists (map nameof ex). rewrite <- map_app. apply Permutation_map. exact P.
  Qed.

  (** the value carried by a name, read off a reference list *)
  Definition val_of (its : list A) (n : Z) : Z :=
    match find (fun x => nameof x =? n) its with Some x => valueof x | None => 0 end.

  Lemma val_of_name (its : list A) (x : A) :
    names_ok valueof nameof its -> In x its -> val_of its (nameof x) = valueof x.
  Proof.
    intros HN Hx. unfold val_of.
    destruct (find (fun y => nameof y =? nameof x) its) as [y|] eqn:E.
    - apply find_some in E. destruct E as [Hy E]. apply Z.eqb_eq in E. apply HN; assumption.
    - exfalso. apply (find_none _ _ E x) in Hx. rewrite Z.eqb_refl in Hx. discriminate Hx.
  Qed.

  Lemma map_val_of (its l : list A) :
    names_ok valueof nameof its -> incl l its -> map (val_of its) (map nameof l) = map valueof l.
  Proof.
    intros HN Hi. rewrite map_map. apply map_ext_in. intros x Hx. apply val_of_name; [exact HN|].
    apply Hi, Hx.
  Qed.

  (** values: under [names_ok] the values of find_diff are the multiset difference of the values *)
  Lemma find_diff_values_perm (its items cur : list A) :
    names_ok valueof nameof its -> incl items its ->
    (exists ex, Permutation (cur ++ ex) items) ->
    Permutation (map valueof (cur ++ find_diff nameof items cur)) (map valueof items).
  Proof.
    intros HN Hi Hsub. pose proof (find_diff_names_perm items cur Hsub) as P.
    apply (Permutation_map (val_of its)) in P.
    rewrite (map_val_of its items HN Hi) in P.
    rewrite (map_val_of its _ HN) in P; [exact P|].
    destruct Hsub as (ex & Pex). intros x Hx. apply in_app_or in Hx. destruct Hx as [Hx|Hx].
    - apply Hi. eapply Permutation_in; [exact Pex|]. apply in_or_app. left. exact Hx.
    - apply Hi. exact (find_diff_incl nameof items cur x Hx).
  Qed.

  (** the two presentations: the remaining items are permutations of each other by value *)
  Lemma find_diff_vperm (its items cur : list A) (itemsZ : list Z) :
    names_ok valueof nameof its -> incl items its ->
    Permutation (map valueof items) itemsZ ->
    (exists ex, Permutation (cur ++ ex) items) ->
    Permutation (map valueof (find_diff nameof items cur)) (find_diff idv itemsZ (map valueof cur)).
  Proof.
    intros HN Hi PZ Hsub. pose proof (find_diff_values_perm its items cur HN Hi Hsub) as P1.
    assert (P2 : Permutation (map valueof cur ++ find_diff idv itemsZ (map valueof cur)) itemsZ).
    { apply (find_diff_perm idv); [intros x y E; exact E|]. destruct Hsub as (ex & Pex).
      exists (map valueof ex). rewrite <- map_app, <- PZ. apply Permutation_map. exact Pex. }
    rewrite map_app in P1. apply (Permutation_app_inv_l (map valueof cur)).
    rewrite P1, P2. exact PZ.
  Qed.
End FindDiff.

(** ---------------------------------------------------------------------------------- *)
(** * 2. projections                                                                    *)
(** ---------------------------------------------------------------------------------- *)
Section Proj.
  Context {A : Type} (valueof : A -> Z).
  Local Notation mb := (map_bins valueof).

  Lemma vsum_map (l : list A) : vsum idv (map valueof l) = vsum valueof l.
  Proof. rewrite vsum_idv. reflexivity. Qed.

  Lemma vsum_vperm (l : list A) (lZ : list Z) : Permutation (map valueof l) lZ -> vsum valueof l = vsum idv lZ.
  Proof. intros P. rewrite <- vsum_map. apply vsum_idv_perm. exact P. Qed.

  Lemma sort_desc_vperm (l : list A) (lZ : list Z) : Permutation (map valueof l) lZ ->
    map valueof (sort_desc valueof l) = sort_desc idv lZ.
  Proof. intros P. rewrite sort_desc_names. apply sort_desc_idv_perm. exact P. Qed.

  Lemma bins_spread_mb (b : bins A) : bins_spread (mb b) = bins_spread b.
  Proof. unfold bins_spread. rewrite (mb_sums valueof). reflexivity. Qed.

  Lemma mb_snoc_bin_of (prior : bins A) (cur : list A) :
    mb (prior ++ [bin_of valueof false cur]) = mb prior ++ [bin_of idv false (map valueof cur)].
  Proof. rewrite (mb_app valueof), !bin_of_keep, vsum_map. reflexivity. Qed.

  Lemma dfs_pruned_mb kz t (rest cur : list A) (b : bins A) :
    dfs_pruned idv kz t (map valueof rest) (map valueof cur) (mb b) = dfs_pruned valueof kz t rest cur b.
  Proof. unfold dfs_pruned. rewrite !vsum_map, bins_spread_mb. reflexivity. Qed.
End Proj.

(** ---------------------------------------------------------------------------------- *)
(** * 3. snp                                                                            *)
(** ---------------------------------------------------------------------------------- *)
Section SNPNames.
  Context {A : Type} (valueof nameof : A -> Z).
  Local Notation mb := (map_bins valueof).

  Variable items0 : list A.
  Hypothesis HN0 : names_ok valueof nameof items0.

  (** the two-way base case of the sums manager *)
  Lemma ckk2_false_vperm (k : nat) (items : list A) (itemsZ : list Z) :
    Permutation (map valueof items) itemsZ ->
    rmap mb (ckk valueof nameof false k items) = ckk idv idv false k itemsZ.
  Proof.
    intros P. rewrite (ckk_sums_manager_names valueof nameof idv k items).
    apply ckk_idv_perm. exact P.
  Qed.

  (** the inclusion/exclusion search, the continuation being abstract; [cur] stays a
      sub-collection of [base] *)
  Lemma snp_dfs_names (base : list A) nextA nextZ kz t :
    (forall cur b, (exists ex, Permutation (cur ++ ex) base) ->
       mb (nextA cur b) = nextZ (map valueof cur) (mb b)) ->
    forall rest cur b, (exists ex, Permutation (cur ++ rest ++ ex) base) ->
      mb (snp_dfs valueof nextA kz t rest cur b) =
      snp_dfs idv nextZ kz t (map valueof rest) (map valueof cur) (mb b).
  Proof.
    intros Hn. induction rest as [|x r IH]; intros cur b Hsub; cbn [map].
    - rewrite !snp_dfs_nil, <- (dfs_pruned_mb valueof kz t [] cur b). cbn [map].
      destruct (dfs_pruned idv kz t [] (map valueof cur) (mb b)); [reflexivity|].
      apply Hn. destruct Hsub as (ex & P). exists ex. exact P.
    - rewrite !snp_dfs_cons, <- (dfs_pruned_mb valueof kz t (x :: r) cur b). cbn [map].
      destruct (dfs_pruned idv kz t (valueof x :: map valueof r) (map valueof cur) (mb b)); [reflexivity|].
      destruct Hsub as (ex & P).
      rewrite IH.
      + rewrite IH; [rewrite map_app; reflexivity|].
        exists ex. rewrite <- P, <- app_assoc. reflexivity.
      + exists (x :: ex). rewrite <- P. apply Permutation_app_head. cbn [app].
        symmetry. apply Permutation_middle.
  Qed.

  Lemma snp_rec_names : forall kc prior items best itemsZ, incl items items0 ->
    Permutation (map valueof items) itemsZ ->
    mb (snp_rec valueof nameof false kc prior items best) =
    snp_rec idv idv false kc (mb prior) itemsZ (mb best).
  Proof.
    induction kc as [|kc IH]; intros prior items best itemsZ Hi PZ; [reflexivity|].
    destruct kc as [|[|n]]; [reflexivity| |].
    - rewrite !snp_rec_2, <- (ckk2_false_vperm 2 items itemsZ PZ).
      destruct (ckk valueof nameof false 2 items) as [two|e]; cbn [rmap]; [|reflexivity].
      rewrite !(mb_sums valueof), bins_spread_mb.
      destruct (_ <? _); [apply (mb_app valueof)|reflexivity].
    - rewrite !snp_rec_3, <- (vsum_vperm valueof items itemsZ PZ), <- (sort_desc_vperm valueof items itemsZ PZ).
      change (@nil Z) with (map valueof []).
      apply (snp_dfs_names items).
      + intros cur b Hsub. rewrite <- mb_snoc_bin_of. apply IH.
        * eapply incl_tran; [apply find_diff_incl|exact Hi].
        * apply (find_diff_vperm valueof nameof items0); assumption.
      + exists []. rewrite app_nil_r. cbn [app]. apply sort_desc_perm.
  Qed.
End SNPNames.

(** the sums manager of snp: named items against their plain values *)
Theorem snp_sums_manager_names {A : Type} (valueof nameof : A -> Z) (k : nat) (items : list A) :
  names_ok valueof nameof items ->
  rmap (map_bins valueof) (snp valueof nameof false k items) = snp idv idv false k (map valueof items).
Proof.
  intros HN. unfold snp. rewrite <- (kk_names valueof false k items).
  destruct (kk valueof false k items) as [best|e]; cbn [rmap]; [|reflexivity].
  rewrite bins_spread_mb. destruct (bins_spread best =? 0); cbn [rmap]; [reflexivity|].
  f_equal. apply (snp_rec_names valueof nameof items HN); [apply incl_refl|apply Permutation_refl].
Qed.

(** ---------------------------------------------------------------------------------- *)
(** * 4. contents manager -> sums manager without the hypothesis [nonneg]               *)
(** ---------------------------------------------------------------------------------- *)
Section EraseNoNonneg.
  Context {A : Type} (valueof nameof : A -> Z).
  Variable items0 : list A.
  Hypothesis HN0 : names_ok valueof nameof items0.

  Lemma names_ok_incl (l : list A) : incl l items0 -> names_ok valueof nameof l.
  Proof. intros Hi x y Hx Hy. apply HN0; apply Hi; assumption. Qed.

  Lemma ckk2_sub' items' : incl items' items0 ->
    rmap erase (ckk valueof nameof true 2 items') = ckk valueof nameof false 2 items'.
  Proof. intros Hi. apply ckk_erase. apply names_ok_incl. exact Hi. Qed.

  Lemma snp_rec_erase' : forall kc prior items' best, incl items' items0 ->
    erase (snp_rec valueof nameof true kc prior items' best) =
    snp_rec valueof nameof false kc (erase prior) items' (erase best).
  Proof.
    induction kc as [|kc IH]; intros prior items' best Hi; [reflexivity|].
    destruct kc as [|[|n]]; [reflexivity| |].
    - rewrite !snp_rec_2, <- (ckk2_sub' items' Hi).
      destruct (ckk valueof nameof true 2 items') as [two|e]; cbn [rmap]; [|reflexivity].
      rewrite !sums_erase, bins_spread_erase.
      destruct (_ <? _); [apply erase_app|reflexivity].
    - rewrite !snp_rec_3. apply snp_dfs_erase. intros cur b.
      rewrite IH; [|eapply incl_tran; [apply find_diff_incl|exact Hi]].
      rewrite erase_snoc_bin_of. reflexivity.
  Qed.

  Lemma rnp_rec_erase' : forall fuel kc isfloat prior items' best, incl items' items0 ->
    rmap erase (rnp_rec valueof nameof true fuel kc isfloat prior items' best) =
    rnp_rec valueof nameof false fuel kc isfloat (erase prior) items' (erase best).
  Proof.
    induction fuel as [|f IH]; intros kc isfloat prior items' best Hi; [reflexivity|].
    rewrite !rnp_rec_S, bins_spread_erase.
    destruct (Nat.eqb kc 2); [apply ckk2_sub'; exact Hi|].
    destruct (Nat.odd kc).
    - apply rnp_dfs_erase. intros cur b. unfold rnp_next_odd.
      destruct (isfloat && negb (Nat.eqb (length cur) 0)); [reflexivity|]. cbv zeta.
      rewrite <- erase_snoc_bin_of, <- IH by (eapply incl_tran; [apply find_diff_incl|exact Hi]).
      destruct (rnp_rec valueof nameof true f (kc - 1) isfloat _ _ b) as [nb|e]; cbn [rmap]; [|reflexivity].
      rewrite !sums_erase, bins_spread_erase.
      destruct (_ <? _); cbn [rmap]; [rewrite erase_app|]; reflexivity.
    - generalize (generator_parts_incl valueof nameof items0 items' (Some (- bins_spread best))) as Hparts.
      generalize (ckk_generator valueof nameof true 2 items' (Some (- bins_spread best))) as parts.
      intros parts Hparts.
      assert (G : forall acc_t acc_f, rmap erase acc_t = acc_f ->
                  rmap erase (fold_left (rnp_step_even valueof nameof true f kc prior (bins_spread best)) parts acc_t) =
                  fold_left (rnp_step_even valueof nameof false f kc (erase prior) (bins_spread best)) parts acc_f).
      { induction parts as [|part ps IHp]; intros acc_t acc_f Eacc; cbn [fold_left]; [exact Eacc|].
        apply IHp; [intros part' Hi' Hp'; apply Hparts; [exact Hi'|right; exact Hp']|].
        subst acc_f. destruct acc_t as [b|e]; cbn [rmap rnp_step_even]; [|reflexivity]. cbv zeta.
        pose proof (Hparts part Hi (or_introl eq_refl)) as Hl.
        rewrite <- (IH _ true prior _ b (Hl 0%nat)), <- (IH _ true prior _ b (Hl 1%nat)).
        destruct (rnp_rec valueof nameof true f (Nat.div kc 2) true prior (snd (nth 0 part empty_bin)) b)
          as [nb1|e1]; cbn [rmap]; [|reflexivity].
        destruct (rnp_rec valueof nameof true f (Nat.div kc 2) true prior (snd (nth 1 part empty_bin)) b)
          as [nb2|e2]; cbn [rmap]; [|reflexivity].
        rewrite !sums_erase. destruct (_ <? _); cbn [rmap]; [rewrite erase_app|]; reflexivity. }
      apply G. reflexivity.
  Qed.
End EraseNoNonneg.

Theorem snp_erase' {A} (valueof nameof : A -> Z) : forall k items,
  names_ok valueof nameof items ->
  rmap erase (snp valueof nameof true k items) = snp valueof nameof false k items.
Proof.
  intros k items HN. unfold snp. rewrite <- (kk_erase valueof k items).
  destruct (kk valueof true k items) as [best|e]; cbn [rmap]; [|reflexivity].
  rewrite (bins_spread_erase best). destruct (bins_spread best =? 0); cbn [rmap]; [reflexivity|].
  f_equal. apply (snp_rec_erase' valueof nameof items HN k [] items best). apply incl_refl.
Qed.

Theorem rnp_erase' {A} (valueof nameof : A -> Z) : forall k items,
  names_ok valueof nameof items ->
  rmap erase (rnp valueof nameof true k items) = rnp valueof nameof false k items.
Proof.
  intros k items HN. unfold rnp. rewrite <- (kk_erase valueof k items).
  destruct (kk valueof true k items) as [best|e]; cbn [rmap]; [|reflexivity].
  rewrite (bins_spread_erase best). destruct (bins_spread best =? 0); cbn [rmap]; [reflexivity|].
  apply (rnp_rec_erase' valueof nameof items HN (S k) k false [] items best). apply incl_refl.
Qed.

(** ---------------------------------------------------------------------------------- *)
(** * 5. C07 for snp                                                                    *)
(** ---------------------------------------------------------------------------------- *)
Lemma rmap_sums_mb {A} (valueof : A -> Z) (r : result (bins A)) :
  rmap sums (rmap (map_bins valueof) r) = rmap sums r.
Proof. destruct r as [b|e]; cbn [rmap]; [|reflexivity]. rewrite (mb_sums valueof). reflexivity. Qed.

(** contents manager on named items = sums manager on the plain values, as far as sums go *)
Lemma snp_sums_to_values {A} (valueof nameof : A -> Z) (k : nat) (items : list A) :
  names_ok valueof nameof items ->
  rmap sums (snp valueof nameof true k items) = rmap sums (snp idv idv false k (map valueof items)).
Proof.
  intros HN. rewrite <- (rmap_sums_erase (snp valueof nameof true k items)), (snp_erase' valueof nameof k items HN).
  rewrite <- (rmap_sums_mb valueof), (snp_sums_manager_names valueof nameof k items HN). reflexivity.
Qed.

Section SNPNamesSums.
  Context {A B : Type} (valueof nameof : A -> Z) (valueof' nameof' : B -> Z).

  (** two presentations of the same list of values, contents manager *)
  Theorem snp_names_sums_gen (k : nat) (items : list A) (items' : list B) :
    map valueof items = map valueof' items' ->
    names_ok valueof nameof items -> names_ok valueof' nameof' items' ->
    rmap sums (snp valueof nameof true k items) = rmap sums (snp valueof' nameof' true k items').
  Proof.
    intros EV HN HN'.
    rewrite (snp_sums_to_values valueof nameof k items HN), (snp_sums_to_values valueof' nameof' k items' HN'), EV.
    reflexivity.
  Qed.

  (** the same for the sums manager (every sums-family output type) *)
  Theorem snp_names_sums_gen_false (k : nat) (items : list A) (items' : list B) :
    map valueof items = map valueof' items' ->
    names_ok valueof nameof items -> names_ok valueof' nameof' items' ->
    rmap sums (snp valueof nameof false k items) = rmap sums (snp valueof' nameof' false k items').
  Proof.
    intros EV HN HN'.
    rewrite <- (rmap_sums_mb valueof), <- (rmap_sums_mb valueof').
    rewrite (snp_sums_manager_names valueof nameof k items HN),
            (snp_sums_manager_names valueof' nameof' k items' HN'), EV.
    reflexivity.
  Qed.
End SNPNamesSums.

(** named items against their plain values (a Python dict against the list of its values) *)
Theorem snp_names_sums {A : Type} (valueof nameof : A -> Z) (k : nat) (items : list A) :
  names_ok valueof nameof items ->
  rmap sums (snp valueof nameof true k items) = rmap sums (snp idv idv true k (map valueof items)).
Proof.
  intros HN. apply snp_names_sums_gen; [|exact HN|apply names_ok_values].
  rewrite map_id. reflexivity.
Qed.

Definition snp_names_sums_statement : Prop :=
  forall (A : Type) (valueof nameof : A -> Z) (k : nat) (items : list A) (b : bins A) (b' : bins Z),
    names_ok valueof nameof items ->
    snp valueof nameof true k items = Ok b ->
    snp idv idv true k (map valueof items) = Ok b' ->
    sums b = sums b'.

Theorem snp_names_sums_holds : snp_names_sums_statement.
Proof.
  intros A valueof nameof k items b b' HN Eb Eb'.
  pose proof (snp_names_sums valueof nameof k items HN) as E.
  rewrite Eb, Eb' in E. cbn [rmap] in E. injection E as E. exact E.
Qed.

(** the remaining items of the two runs really are in a different order (so the plain
    projection [map valueof] of the run is NOT the run on the values) *)
Example find_diff_groups_by_name :
  find_diff idv [3; 2; 3; 1] [1] = [3; 3; 2] /\
  map (@snd Z Z) (find_diff (@fst Z Z) [(1, 3); (2, 2); (3, 3); (4, 1)] [(4, 1)]) = [3; 2; 3].
Proof. vm_compute. split; reflexivity. Qed.

(** [names_ok] cannot be dropped *)
Example snp_names_sums_needs_names_ok :
  rmap sums (snp idv (fun _ => 0) true 2 [4; 5; 6; 7; 8]) = Ok [14; 16] /\
  rmap sums (snp idv idv true 2 [4; 5; 6; 7; 8]) = Ok [15; 15].
Proof. vm_compute. split; reflexivity. Qed.

(** ---------------------------------------------------------------------------------- *)
(** * 6. the contents run of complete Karmarkar-Karp, seen through the VALUES it holds  *)
(** ---------------------------------------------------------------------------------- *)
(** rnp feeds the CONTENTS of the two-way partitions yielded by the generator (contents
    manager) back into the search, so the sums alone are not enough: we need the multiset of
    values of every bin of every yielded partition.  [vb] maps a bins-array to (sum, ascending
    list of the values in the bin); the contents run on named items, seen through [vb], IS the
    contents run on the plain values (whose bins are sorted by name = value). *)
Definition canon (bn : bin Z) : bin Z := (fst bn, sort_asc idv (snd bn)).

Lemma canon_idem (x : bin Z) : canon (canon x) = canon x.
Proof. unfold canon. cbn [fst snd]. rewrite sort_asc_idem. reflexivity. Qed.

Lemma canon_combine (x y : bin Z) : canon (combine_bin (canon x) (canon y)) = canon (combine_bin x y).
Proof.
  unfold canon, combine_bin. cbn [fst snd]. f_equal. apply sort_asc_perm_eq.
  apply Permutation_app; apply sort_asc_perm.
Qed.

Lemma map_canon_idem (l : bins Z) : map canon (map canon l) = map canon l.
Proof. rewrite map_map. apply map_ext. intros x. apply canon_idem. Qed.

Lemma canon_zip : forall P Q : bins Z,
  map canon (zip_combine (map canon P) (map canon Q)) = map canon (zip_combine P Q).
Proof.
  induction P as [|x t IH]; intros [|y u]; cbn [map zip_combine]; try reflexivity.
  - rewrite canon_idem, map_canon_idem. reflexivity.
  - rewrite canon_combine, IH. reflexivity.
Qed.

Lemma sort_bins_canon (b : bins Z) : sort_bins (map canon b) = map canon (sort_bins b).
Proof. unfold sort_bins. symmetry. apply sort_asc_map. intros y. reflexivity. Qed.

Lemma sums_canon (b : bins Z) : sums (map canon b) = sums b.
Proof. unfold sums. rewrite map_map. apply map_ext. intros x. reflexivity. Qed.

Lemma fold_sim_cond {S S' T T' : Type} (ps : S -> S') (pt : T -> T') (P : T -> Prop)
      (f : S -> T -> S) (f' : S' -> T' -> S') :
  (forall s x, P x -> ps (f s x) = f' (ps s) (pt x)) ->
  forall l s, Forall P l -> ps (fold_left f l s) = fold_left f' (map pt l) (ps s).
Proof.
  intros Hstep l. induction l as [|x t IH]; intros s HF; cbn [fold_left map]; [reflexivity|].
  rewrite IH by exact (Forall_inv_tail HF). rewrite Hstep by exact (Forall_inv HF). reflexivity.
Qed.

(** the children of a node of the contents run are the first representatives of the sums-classes *)
Lemma ckk_children_true_eq {A : Type} (valueof nameof : A -> Z) (k : nat) (its : list A) (b1 b2 : bins A) :
  names_ok valueof nameof its ->
  length b1 = k -> length b2 = k -> wf valueof b1 -> wf valueof b2 ->
  Forall (fun x => In x its) (contents b1) -> Forall (fun x => In x its) (contents b2) ->
  ckk_children nameof true b1 b2 =
  dedup_sums [] (map (combo_of_perm nameof true b1 b2) (perms (length b1))).
Proof.
  intros HN L1 L2 W1 W2 I1 I2. unfold ckk_children, all_combinations.
  apply (dedup_sums_dedup_combos nameof (combo_ok valueof its) (combo_ok_key valueof nameof its HN)).
  - apply Forall_forall. intros c Hc. apply in_map_iff in Hc.
    destruct Hc as (p & <- & Hp). apply perms_spec in Hp. rewrite L1 in Hp.
    destruct (combo_of_perm_ok valueof nameof k b1 b2 p L1 L2 W1 W2 Hp) as (_ & Wc & Pc).
    split; [exact Wc|]. split.
    + eapply Permutation_Forall; [symmetry; exact Pc|]. apply Forall_app. split; assumption.
    + rewrite combo_of_perm_eq. apply sort_bins_sorted.
  - intros x _ [].
Qed.

Section VB.
  Context {A : Type} (valueof nameof : A -> Z).
  Local Notation mb := (map_bins valueof).

  Definition vb (b : bins A) : bins Z := map canon (mb b).

  Lemma vb_sums (b : bins A) : sums (vb b) = sums b.
  Proof. unfold vb. rewrite sums_canon. apply (mb_sums valueof). Qed.

  Lemma vb_length (b : bins A) : length (vb b) = length b.
  Proof. unfold vb. rewrite map_length. apply (mb_length valueof). Qed.

  Lemma vb_sort_bins (b : bins A) : vb (sort_bins b) = sort_bins (vb b).
  Proof. unfold vb. rewrite (mb_sort_bins valueof), sort_bins_canon. reflexivity. Qed.

  Lemma vb_bins_diff (b : bins A) : bins_diff (vb b) = bins_diff b.
  Proof. unfold bins_diff. rewrite vb_sums. reflexivity. Qed.

  Lemma vb_wf (b : bins A) : wf valueof b -> wf idv (vb b).
  Proof.
    intros W. unfold vb, wf. rewrite (mb_map valueof), map_map. apply Forall_map.
    eapply Forall_impl; [|exact W]. intros bn Hb. unfold wf_bin, canon, pbin in *. cbn [fst snd].
    rewrite nm_map_id, Hb. symmetry. apply zsum_perm. apply sort_asc_perm.
  Qed.

  (** ---- heaps ---- *)
  Definition vhe (e : hentry (A:=A)) : hentry (A:=Z) := (fst e, vb (snd e)).
  Definition vh (h : heap (A:=A)) : heap (A:=Z) := map vhe h.

  Lemma vh_heap_insert (e : hentry) (h : heap) : vh (heap_insert e h) = heap_insert (vhe e) (vh h).
  Proof.
    induction h as [|y t IH]; cbn [heap_insert vh map]; [reflexivity|].
    change (fst (vhe e)) with (fst e). change (fst (vhe y)) with (fst y).
    destruct (fst e <? fst y); cbn [map]; [reflexivity|].
    fold (vh t). fold (vh (heap_insert e t)). rewrite IH. reflexivity.
  Qed.

  Lemma vh_heap_push (h : heap) (b : bins A) : vh (heap_push h b) = heap_push (vh h) (vb b).
  Proof.
    unfold heap_push. cbv zeta. rewrite vh_heap_insert. unfold vhe. cbn [fst snd].
    rewrite <- vb_sort_bins, vb_bins_diff. reflexivity.
  Qed.

  Lemma vh_flat_sums (h : heap) : heap_flat_sums (vh h) = heap_flat_sums h.
  Proof.
    unfold heap_flat_sums. induction h as [|e t IH]; cbn [vh map flat_map]; [reflexivity|].
    fold (vh t). rewrite IH. unfold vhe. cbn [snd]. rewrite vb_sums. reflexivity.
  Qed.

  Lemma vh_bound (k : nat) (h : heap) : ckk_bound k (vh h) = ckk_bound k h.
  Proof. unfold ckk_bound. rewrite vh_flat_sums. reflexivity. Qed.

  Lemma vh_topdiff (h : heap) : topdiff (vh h) = topdiff h.
  Proof. destruct h as [|e t]; reflexivity. Qed.

  (** ---- the initial heap ---- *)
  Lemma canon_update_repeat (f : bin Z -> bin Z) (e : bin Z) : canon e = e -> canon (f e) = f e ->
    forall k i, map canon (update i f (repeat e k)) = update i f (repeat e k).
  Proof.
    intros He Hf. induction k as [|n IH]; intros i; cbn [repeat]; [destruct i; reflexivity|].
    destruct i as [|j]; cbn [update map].
    - rewrite Hf. f_equal. clear IH. induction n as [|m IHm]; cbn [repeat map]; [reflexivity|].
      rewrite He, IHm. reflexivity.
    - rewrite He, IH. reflexivity.
  Qed.

  Lemma vb_singleton_bins (k : nat) (x : A) :
    vb (singleton_bins valueof true k x) = singleton_bins idv true k (valueof x).
  Proof.
    unfold vb. rewrite (mb_singleton_bins valueof true). unfold singleton_bins, add_item, new_bins.
    apply canon_update_repeat; reflexivity.
  Qed.

  Lemma vh_initial_heap (k : nat) (items : list A) :
    vh (initial_heap valueof true k items) = initial_heap idv true k (map valueof items).
  Proof.
    unfold initial_heap.
    rewrite (nm_fold_left_sim vh valueof
               (fun h x => heap_push h (singleton_bins valueof true k x))
               (fun h v => heap_push h (singleton_bins idv true k v))).
    - rewrite sort_desc_names. reflexivity.
    - intros h x. rewrite vh_heap_push, vb_singleton_bins. reflexivity.
  Qed.

  (** ---- combinations ---- *)
  Lemma vb_name_sorted (raw : bins A) :
    vb (map (fun x => (fst x, sort_names nameof (snd x))) raw) = vb raw.
  Proof.
    unfold vb. rewrite !(mb_map valueof), !map_map. apply map_ext. intros x.
    unfold canon, pbin. cbn [fst snd]. f_equal. apply sort_asc_perm_eq. apply Permutation_map.
    unfold sort_names. apply sort_asc_perm.
  Qed.

  Lemma vb_picked (b1 : bins A) (p : list nat) :
    map (fun i => match nth_opt (vb b1) i with Some x => x | None => empty_bin end) p =
    vb (map (fun i => match nth_opt b1 i with Some x => x | None => empty_bin end) p).
  Proof.
    unfold vb. rewrite !(mb_map valueof), !map_map. apply map_ext. intros i.
    rewrite <- (map_map (pbin valueof) canon b1), !nth_opt_map.
    destruct (nth_opt b1 i) as [x|]; reflexivity.
  Qed.

  Lemma vb_combo_of_perm (b1 b2 : bins A) (p : list nat) :
    vb (combo_of_perm nameof true b1 b2 p) = combo_of_perm idv true (vb b1) (vb b2) p.
  Proof.
    unfold combo_of_perm. cbv zeta. rewrite vb_sort_bins, vb_name_sorted. f_equal.
    rewrite vb_picked.
    change (map (fun x : bin Z => (fst x, sort_names idv (snd x))) ?l) with (map canon l).
    unfold vb at 2 3. rewrite canon_zip. unfold vb. rewrite (mb_zip_combine valueof). reflexivity.
  Qed.

  Lemma vb_dedup_sums (l : list (bins A)) : forall seen,
    map vb (dedup_sums seen l) = dedup_sums seen (map vb l).
  Proof.
    induction l as [|b t IH]; intros seen; cbn [dedup_sums map]; [reflexivity|].
    cbv zeta. rewrite vb_sums.
    destruct (existsb (list_eqb Z.eqb (sums b)) seen); [apply IH|].
    cbn [map]. rewrite IH. reflexivity.
  Qed.

  Lemma vb_ckk_children k its (b1 b2 : bins A) : names_ok valueof nameof its ->
    length b1 = k -> length b2 = k -> wf valueof b1 -> wf valueof b2 ->
    Forall (fun x => In x its) (contents b1) -> Forall (fun x => In x its) (contents b2) ->
    map vb (ckk_children nameof true b1 b2) = ckk_children idv true (vb b1) (vb b2).
  Proof.
    intros HN L1 L2 W1 W2 I1 I2.
    rewrite (ckk_children_true_eq valueof nameof k its b1 b2 HN L1 L2 W1 W2 I1 I2).
    rewrite (ckk_children_true_eq idv idv k (contents (vb b1) ++ contents (vb b2)) (vb b1) (vb b2)).
    - rewrite vb_dedup_sums, map_map, vb_length. f_equal. apply map_ext. intros p. apply vb_combo_of_perm.
    - apply names_ok_values.
    - rewrite vb_length. exact L1.
    - rewrite vb_length. exact L2.
    - apply vb_wf. exact W1.
    - apply vb_wf. exact W2.
    - apply Forall_forall. intros x Hx. apply in_or_app. left. exact Hx.
    - apply Forall_forall. intros x Hx. apply in_or_app. right. exact Hx.
  Qed.

  (** ---- the two runs are in lock step ---- *)
  Definition vst (st : ckk_state (A:=A)) : ckk_state (A:=Z) :=
    mk_ckk (ckk_best st) (option_map vb (ckk_part st)) (map vb (ckk_yields st)) (ckk_stop st) (ckk_nodes st).

  Theorem vb_explore k its mode : names_ok valueof nameof its ->
    forall fuel h st, Forall (entry_its valueof k its) h ->
      vst (ckk_explore nameof true fuel mode k h st) =
      ckk_explore idv true fuel mode k (vh h) (vst st).
  Proof.
    intros HN. induction fuel as [|f IH]; intros h st Hh.
    - cbn [ckk_explore]. change (ckk_stop (vst st)) with (ckk_stop st).
      destruct (ckk_stop st); [reflexivity|]. rewrite vh_bound.
      cbn [ckk_best ckk_part ckk_yields ckk_nodes vst].
      destruct (match ckk_bound k h with Some lb => le_best lb (ckk_best st) | None => false end);
        [reflexivity|].
      destruct h as [|e1 [|e2 rest]]; cbn [vh map]; try reflexivity.
      change (fst (vhe e1)) with (fst e1).
      destruct (gt_best (fst e1) (ckk_best st)); [|reflexivity].
      destruct mode; reflexivity.
    - cbn [ckk_explore]. change (ckk_stop (vst st)) with (ckk_stop st).
      destruct (ckk_stop st); [reflexivity|]. rewrite vh_bound.
      cbn [ckk_best ckk_part ckk_yields ckk_nodes vst].
      destruct (match ckk_bound k h with Some lb => le_best lb (ckk_best st) | None => false end);
        [reflexivity|].
      destruct h as [|e1 [|e2 rest]]; cbn [vh map]; try reflexivity.
      + change (fst (vhe e1)) with (fst e1).
        destruct (gt_best (fst e1) (ckk_best st)); [|reflexivity].
        destruct mode; reflexivity.
      + fold (vh rest). cbv zeta.
        destruct (Forall_inv Hh) as (L1 & W1 & I1).
        destruct (Forall_inv (Forall_inv_tail Hh)) as (L2 & W2 & I2).
        set (cs := ckk_children nameof true (snd e1) (snd e2)).
        rewrite (fold_sim_cond vst vh (fun c => Forall (entry_its valueof k its) c) _
                   (fun s c => ckk_explore idv true f mode k c s) (fun s c Hc => IH c s Hc)).
        * f_equal. rewrite map_rev. f_equal.
          rewrite (sort_asc_map vh topdiff topdiff _ vh_topdiff). f_equal.
          unfold vhe at 1 2. cbn [snd].
          rewrite <- (vb_ckk_children k its (snd e1) (snd e2) HN L1 L2 W1 W2 I1 I2).
          fold cs. rewrite !map_map. apply map_ext. intros b. apply vh_heap_push.
        * apply Forall_forall. intros c Hc. apply in_rev, sort_asc_In in Hc.
          apply in_map_iff in Hc. destruct Hc as (b & <- & Hb).
          eapply entry_its_child; [exact Hh|exact Hb].
  Qed.

  Lemma vb_run (mode : bool) (init : option Z) (k : nat) (items : list A) :
    names_ok valueof nameof items ->
    vst (ckk_run valueof nameof true mode init k items) =
    ckk_run idv idv true mode init k (map valueof items).
  Proof.
    intros HN. unfold ckk_run. rewrite map_length, <- (vh_initial_heap k items).
    change (mk_ckk (A:=Z) init None [] false 0) with (vst (mk_ckk init None [] false 0)).
    apply (vb_explore k items mode HN). apply initial_heap_its.
  Qed.

  (** the generator of the contents manager: the same partitions by value, in the same order *)
  Theorem ckk_generator_values (k : nat) (items : list A) (init : option Z) :
    names_ok valueof nameof items ->
    map vb (ckk_generator valueof nameof true k items init) =
    ckk_generator idv idv true k (map valueof items) init.
  Proof.
    intros HN. unfold ckk_generator. rewrite <- (vb_run _ init k items HN).
    cbn [vst ckk_yields]. rewrite map_rev. reflexivity.
  Qed.

  (** complete_karmarkar_karp.optimal: the same partition by value (strengthens ckk_names_sums) *)
  Theorem ckk_values (k : nat) (items : list A) :
    names_ok valueof nameof items ->
    rmap vb (ckk valueof nameof true k items) = ckk idv idv true k (map valueof items).
  Proof.
    intros HN. unfold ckk. rewrite <- (vb_run true None k items HN).
    destruct (ckk_run valueof nameof true true None k items) as [bst [p|] ys sp nd];
      cbn [vst ckk_part option_map rmap]; [|reflexivity].
    rewrite vb_sort_bins. reflexivity.
  Qed.
End VB.

Print Assumptions ckk_generator_values.
Print Assumptions ckk_values.

(** ---------------------------------------------------------------------------------- *)
(** * 7. rnp                                                                            *)
(** ---------------------------------------------------------------------------------- *)
Section RNPNames.
  Context {A : Type} (valueof nameof : A -> Z).
  Local Notation mb := (map_bins valueof).

  Variable items0 : list A.
  Hypothesis HN0 : names_ok valueof nameof items0.

  Lemma rnp_dfs_names (base : list A) nextA nextZ kz t d0 :
    (forall cur b, (exists ex, Permutation (cur ++ ex) base) ->
       rmap mb (nextA cur b) = nextZ (map valueof cur) (mb b)) ->
    forall rest cur b, (exists ex, Permutation (cur ++ rest ++ ex) base) ->
      rmap mb (rnp_dfs valueof nextA kz t d0 rest cur b) =
      rnp_dfs idv nextZ kz t d0 (map valueof rest) (map valueof cur) (mb b).
  Proof.
    intros Hn. induction rest as [|x r IH]; intros cur b Hsub; cbn [map rnp_dfs].
    - rewrite !vsum_map. change (vsum idv []) with (vsum valueof []).
      destruct (_ || _); [reflexivity|].
      apply Hn. destruct Hsub as (ex & P). exists ex. exact P.
    - rewrite !vsum_map. change (vsum idv (valueof x :: map valueof r)) with (vsum idv (map valueof (x :: r))).
      rewrite vsum_map.
      destruct (_ || _); [reflexivity|].
      destruct Hsub as (ex & P).
      assert (S1 : exists ex', Permutation ((cur ++ [x]) ++ r ++ ex') base).
      { exists ex. rewrite <- P, <- app_assoc. reflexivity. }
      assert (S2 : exists ex', Permutation (cur ++ r ++ ex') base).
      { exists (x :: ex). rewrite <- P. apply Permutation_app_head. cbn [app].
        symmetry. apply Permutation_middle. }
      rewrite <- (map_last valueof cur x), <- (IH (cur ++ [x]) b S1).
      destruct (rnp_dfs valueof nextA kz t d0 r (cur ++ [x]) b) as [b1|e]; cbn [rmap]; [|reflexivity].
      apply IH. exact S2.
  Qed.

  Lemma nth_vb (part : bins A) (i : nat) :
    nth i (vb valueof part) empty_bin = canon (pbin valueof (nth i part empty_bin)).
  Proof.
    unfold vb. rewrite (mb_map valueof), map_map.
    change (@empty_bin Z) with (canon (pbin valueof (@empty_bin A))).
    apply (map_nth (fun x => canon (pbin valueof x))).
  Qed.

  Lemma nth_vb_perm (part : bins A) (i : nat) :
    Permutation (map valueof (snd (nth i part empty_bin))) (snd (nth i (vb valueof part) empty_bin)).
  Proof. rewrite nth_vb. unfold canon, pbin. cbn [snd]. symmetry. apply sort_asc_perm. Qed.

  Lemma rnp_rec_names : forall fuel kc isfloat prior items best itemsZ, incl items items0 ->
    Permutation (map valueof items) itemsZ ->
    rmap mb (rnp_rec valueof nameof false fuel kc isfloat prior items best) =
    rnp_rec idv idv false fuel kc isfloat (mb prior) itemsZ (mb best).
  Proof.
    induction fuel as [|f IH]; intros kc isfloat prior items best itemsZ Hi PZ; [reflexivity|].
    rewrite !rnp_rec_S, bins_spread_mb.
    destruct (Nat.eqb kc 2); [apply ckk2_false_vperm; exact PZ|].
    destruct (Nat.odd kc).
    - rewrite <- (vsum_vperm valueof items itemsZ PZ), <- (sort_desc_vperm valueof items itemsZ PZ).
      change (@nil Z) with (map valueof []).
      apply (rnp_dfs_names items).
      + intros cur b Hsub. unfold rnp_next_odd. rewrite map_length.
        destruct (isfloat && negb (Nat.eqb (length cur) 0)); [reflexivity|]. cbv zeta.
        rewrite <- mb_snoc_bin_of.
        rewrite <- (IH (kc - 1)%nat isfloat (prior ++ [bin_of valueof false cur]) (find_diff nameof items cur) b
                       (find_diff idv itemsZ (map valueof cur))).
        * destruct (rnp_rec valueof nameof false f (kc - 1) isfloat _ _ b) as [nb|e]; cbn [rmap]; [|reflexivity].
          rewrite !(mb_sums valueof), bins_spread_mb.
          destruct (_ <? _); cbn [rmap]; [rewrite (mb_app valueof)|]; reflexivity.
        * eapply incl_tran; [apply find_diff_incl|exact Hi].
        * apply (find_diff_vperm valueof nameof items0); assumption.
      + exists []. rewrite app_nil_r. cbn [app]. apply sort_desc_perm.
    - rewrite <- (ckk_generator_idv_perm idv true 2 (map valueof items) itemsZ _ PZ).
      rewrite <- (ckk_generator_values valueof nameof 2 items _ (names_ok_incl valueof nameof items0 HN0 items Hi)).
      generalize (fun part => generator_parts_incl valueof nameof items0 items (Some (- bins_spread best)) part Hi) as Hparts.
      generalize (ckk_generator valueof nameof true 2 items (Some (- bins_spread best))) as parts.
      intros parts Hparts.
      assert (G : forall accA accZ, rmap mb accA = accZ ->
                  rmap mb (fold_left (rnp_step_even valueof nameof false f kc prior (bins_spread best)) parts accA) =
                  fold_left (rnp_step_even idv idv false f kc (mb prior) (bins_spread best))
                            (map (vb valueof) parts) accZ).
      { induction parts as [|part ps IHp]; intros accA accZ Eacc; cbn [fold_left map]; [exact Eacc|].
        apply IHp; [intros part' Hp'; apply Hparts; right; exact Hp'|].
        subst accZ. destruct accA as [b|e]; cbn [rmap rnp_step_even]; [|reflexivity]. cbv zeta.
        pose proof (Hparts part (or_introl eq_refl)) as Hl.
        rewrite <- (IH (Nat.div kc 2) true prior _ b _ (Hl 0%nat) (nth_vb_perm part 0)).
        rewrite <- (IH (Nat.div kc 2) true prior _ b _ (Hl 1%nat) (nth_vb_perm part 1)).
        destruct (rnp_rec valueof nameof false f (Nat.div kc 2) true prior (snd (nth 0 part empty_bin)) b)
          as [nb1|e1]; cbn [rmap]; [|reflexivity].
        destruct (rnp_rec valueof nameof false f (Nat.div kc 2) true prior (snd (nth 1 part empty_bin)) b)
          as [nb2|e2]; cbn [rmap]; [|reflexivity].
        rewrite !(mb_sums valueof). destruct (_ <? _); cbn [rmap]; [rewrite (mb_app valueof)|]; reflexivity. }
      apply G. reflexivity.
  Qed.
End RNPNames.

(** the sums manager of rnp: named items against their plain values (every number of bins) *)
Theorem rnp_sums_manager_names {A : Type} (valueof nameof : A -> Z) (k : nat) (items : list A) :
  names_ok valueof nameof items ->
  rmap (map_bins valueof) (rnp valueof nameof false k items) = rnp idv idv false k (map valueof items).
Proof.
  intros HN. unfold rnp. rewrite <- (kk_names valueof false k items).
  destruct (kk valueof false k items) as [best|e]; cbn [rmap]; [|reflexivity].
  rewrite bins_spread_mb. destruct (bins_spread best =? 0); cbn [rmap]; [reflexivity|].
  apply (rnp_rec_names valueof nameof items HN); [apply incl_refl|apply Permutation_refl].
Qed.

Lemma rnp_sums_to_values {A} (valueof nameof : A -> Z) (k : nat) (items : list A) :
  names_ok valueof nameof items ->
  rmap sums (rnp valueof nameof true k items) = rmap sums (rnp idv idv false k (map valueof items)).
Proof.
  intros HN. rewrite <- (rmap_sums_erase (rnp valueof nameof true k items)), (rnp_erase' valueof nameof k items HN).
  rewrite <- (rmap_sums_mb valueof), (rnp_sums_manager_names valueof nameof k items HN). reflexivity.
Qed.

Section RNPNamesSums.
  Context {A B : Type} (valueof nameof : A -> Z) (valueof' nameof' : B -> Z).

  (** two presentations of the same list of values, contents manager, EVERY number of bins
      (including the numbers of bins on which the pinned rnp raises: same error) *)
  Theorem rnp_names_sums_gen (k : nat) (items : list A) (items' : list B) :
    map valueof items = map valueof' items' ->
    names_ok valueof nameof items -> names_ok valueof' nameof' items' ->
    rmap sums (rnp valueof nameof true k items) = rmap sums (rnp valueof' nameof' true k items').
  Proof.
    intros EV HN HN'.
    rewrite (rnp_sums_to_values valueof nameof k items HN), (rnp_sums_to_values valueof' nameof' k items' HN'), EV.
    reflexivity.
  Qed.

  Theorem rnp_names_sums_gen_false (k : nat) (items : list A) (items' : list B) :
    map valueof items = map valueof' items' ->
    names_ok valueof nameof items -> names_ok valueof' nameof' items' ->
    rmap sums (rnp valueof nameof false k items) = rmap sums (rnp valueof' nameof' false k items').
  Proof.
    intros EV HN HN'.
    rewrite <- (rmap_sums_mb valueof), <- (rmap_sums_mb valueof').
    rewrite (rnp_sums_manager_names valueof nameof k items HN),
            (rnp_sums_manager_names valueof' nameof' k items' HN'), EV.
    reflexivity.
  Qed.
End RNPNamesSums.

Theorem rnp_names_sums {A : Type} (valueof nameof : A -> Z) (k : nat) (items : list A) :
  names_ok valueof nameof items ->
  rmap sums (rnp valueof nameof true k items) = rmap sums (rnp idv idv true k (map valueof items)).
Proof.
  intros HN. apply rnp_names_sums_gen; [|exact HN|apply names_ok_values].
  rewrite map_id. reflexivity.
Qed.

Definition rnp_names_sums_statement : Prop :=
  forall (A : Type) (valueof nameof : A -> Z) (k : nat) (items : list A) (b : bins A) (b' : bins Z),
    names_ok valueof nameof items ->
    rnp valueof nameof true k items = Ok b ->
    rnp idv idv true k (map valueof items) = Ok b' ->
    sums b = sums b'.

Theorem rnp_names_sums_holds : rnp_names_sums_statement.
Proof.
  intros A valueof nameof k items b b' HN Eb Eb'.
  pose proof (rnp_names_sums valueof nameof k items HN) as E.
  rewrite Eb, Eb' in E. cbn [rmap] in E. injection E as E. exact E.
Qed.

Example rnp_names_sums_needs_names_ok :
  rmap sums (rnp idv (fun _ => 0) true 2 [4; 5; 6; 7; 8]) = Ok [12; 18] /\
  rmap sums (rnp idv idv true 2 [4; 5; 6; 7; 8]) = Ok [15; 15].
Proof. vm_compute. split; reflexivity. Qed.

(** ---------------------------------------------------------------------------------- *)
(** * 8. instances (vm_compute): equal values with names in opposite orders, layered     *)
(** values as in CKKManagersProofs, zeros, negative values                              *)
(** ---------------------------------------------------------------------------------- *)
(** item = (name, value) *)
Definition tied_up : list (Z * Z) := [(1, 3); (2, 2); (3, 3); (4, 1); (5, 5); (6, 4); (7, 3)].
Definition tied_dn : list (Z * Z) := [(7, 3); (6, 2); (5, 3); (4, 1); (3, 5); (2, 4); (1, 3)].

Example snp_rnp_tied_names :
  rmap sums (snp (@snd Z Z) (@fst Z Z) true 3 tied_up) = Ok [7; 7; 7] /\
  rmap sums (snp (@snd Z Z) (@fst Z Z) true 3 tied_dn) = Ok [7; 7; 7] /\
  rmap sums (snp idv idv true 3 (map snd tied_up)) = Ok [7; 7; 7] /\
  rmap sums (rnp (@snd Z Z) (@fst Z Z) true 4 tied_up) = rmap sums (rnp idv idv true 4 (map snd tied_up)) /\
  rmap sums (rnp (@snd Z Z) (@fst Z Z) true 4 tied_dn) = rmap sums (rnp idv idv true 4 (map snd tied_up)) /\
  rmap sums (rnp (@snd Z Z) (@fst Z Z) true 5 tied_dn) = rmap sums (rnp idv idv true 5 (map snd tied_up)).
Proof. vm_compute. repeat split; reflexivity. Qed.

(** the former four-bin witness of the ckk managers defect, plain and named *)
Example snp_rnp_layered :
  rmap sums (snp idv idv true 4 w4) = rmap sums (snp idv idv false 4 w4) /\
  rmap sums (rnp idv idv true 4 w4) = rmap sums (rnp idv idv false 4 w4) /\
  rmap sums (snp (@snd Z Z) (@fst Z Z) true 4 w4n) = rmap sums (snp idv idv true 4 (map snd w4n)) /\
  rmap sums (rnp (@snd Z Z) (@fst Z Z) true 4 w4n) = rmap sums (rnp idv idv true 4 (map snd w4n)).
Proof. vm_compute. repeat split; reflexivity. Qed.

(** zeros and negative values (no [nonneg] hypothesis anywhere in this file) *)
Example snp_rnp_zeros_negative :
  let items := [(1, 0); (2, -2); (3, 3); (4, 0); (5, -2); (6, 4); (7, 1)] in
  rmap sums (snp (@snd Z Z) (@fst Z Z) true 3 items) = rmap sums (snp idv idv true 3 (map snd items)) /\
  rmap sums (rnp (@snd Z Z) (@fst Z Z) true 4 items) = rmap sums (rnp idv idv true 4 (map snd items)) /\
  rmap erase (snp (@snd Z Z) (@fst Z Z) true 3 items) = snp (@snd Z Z) (@fst Z Z) false 3 items /\
  rmap erase (rnp (@snd Z Z) (@fst Z Z) true 5 items) = rnp (@snd Z Z) (@fst Z Z) false 5 items.
Proof. vm_compute. repeat split; reflexivity. Qed.

(** * Index *)
Check @snp_erase'.
Check @rnp_erase'.
Check @snp_sums_manager_names.
Check @rnp_sums_manager_names.
Check @ckk_generator_values.
Check @ckk_values.
Check @snp_names_sums_gen.
Check @rnp_names_sums_gen.
Check @snp_names_sums.
Check @rnp_names_sums.

Print Assumptions snp_sums_manager_names.
Print Assumptions snp_erase'.
Print Assumptions rnp_erase'.
Print Assumptions snp_names_sums_gen.
Print Assumptions snp_names_sums_gen_false.
Print Assumptions snp_names_sums.
Print Assumptions snp_names_sums_holds.
Print Assumptions rnp_sums_manager_names.
Print Assumptions rnp_names_sums_gen.
Print Assumptions rnp_names_sums_gen_false.
Print Assumptions rnp_names_sums.
Print Assumptions rnp_names_sums_holds.
