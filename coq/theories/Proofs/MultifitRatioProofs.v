(** Worst-case ratio of MultiFit (Model/Multifit.v, prtpy/partitioning/multifit.py) below 2.

    Published claim (Coffman, Garey, Johnson 1978): largest sum <= (1.22 + 2^-iterations) OPT.
    PROVED here, for the float model of the binary search (capacities are IEEE doubles, [rnd53]):

      multifit_ratio_54 :  4 * 2^it * L <= (5 * 2^it + 4) * OPT + 19 * 2^it
                           i.e.  L <= (5/4 + 2^-it) OPT + 19/4          (total <= 2^53)
      multifit_ratio_54_small : ... + 7/4                               (total <= 2^51)
      multifit_ratio_54_exact :  L <= (5 OPT + 3)/4 + OPT/2^it + OPT/2^51   (multiplied out)
      multifit_ratio_43, _43_small, _43_exact, multifit_ratio_32 : the lower rungs 4/3 and 3/2
      multifit_ratio_gen : the same bound for ANY ratio rn/rd >= 1 for which the capacity lemma
                           (L_r) below is supplied as a hypothesis.
    r = 61/50 is OPEN (see the end of the file).

    Where the slack comes from (it is forced by the proof, not observed in tests):
      +1 (precisely (rd - 1)/rd): first-fit is run with the INTEGER capacity floor(upper); a
         failed probe at a double c only says  rd * floor(c) < rn * OPT;
      OPT / 2^51: each midpoint (lo + up)/2 is one rounding of a sum < 4 OPT, relative error
         2^-53, i.e. at most OPT/2^52 after halving, and the errors add up to twice that over
         the run ([mf_mid_err], [mf_loop_gap]).  With OPT <= total <= 2^53 this is at most 4.
    The initial gap is exactly right: rnd53(2S/k) = 2 rnd53(S/k) ([rnd53_double]), hence
    upper0 - lower0 <= OPT, upper0 <= 2 OPT and lower0 <= OPT ([init_bounds]).

    Capacity lemmas (valuable on their own; T = largest sum of ANY partition into k bins, c an
    integer capacity, values >= 0, k >= 1):
      ffd_capacity_54 : 5 T <= 4 c -> first-fit-decreasing with capacity c does not fail and
                        uses at most k bins;     ffd_capacity_43, ffd_capacity_32 likewise.
    Proofs.  Let x be the value that opens bin k+1 ([ffd_overflow]); the k bins it meets are
    all above c - x, so x > c - T by volume ([overflow_big]); only the values placed before x
    (all >= x) and x matter.
      4/3: these values exceed T/3; weight 2 if v + x > T, else 1: a bin of capacity T weighs
           <= 2, each of first-fit's k bins >= 2, and x >= 1 ([w43_upper], [w43_bins]).
      5/4: they exceed T/4, at most three per bin of capacity T.  The rest of first-fit's FIRST
           bin dominates the rest of the bin of the largest value in the packing
           ([first_bin_dom]); the exchange lemma [BCOptimalProofs.dom_exchange] then packs the
           values outside first-fit's first bin into k - 1 bins; induction ([ffd_peel_54]).

    Hypotheses: those of [multifit_ratio_2] (items <> [], values >= 0, k >= 1, total <= 2^53). *)
From Prtpy Require Import Base.Prelude Model.Binner Model.Packing Model.Multifit Spec.Partition
  Model.Objectives Proofs.BaseLemmas Proofs.BinnerLemmas Proofs.PackingProofs Proofs.RatioProofs
  Proofs.MultifitProofs Proofs.CoveringProofs Proofs.BCOptimalProofs.
From Coq Require Import QArith Qround Qpower Lqa ZifyBool Sorting.Sorted.
Open Scope Z_scope.

Local Notation idZ := (fun v : Z => v).

(** ---- 1. the item that opens bin k+1 ---- *)
Section Overflow.
  Context {A : Type} (valueof : A -> Z).
  Notation place := (ff_place valueof true).

  Lemma ff_place_length C x (b : bins A) :
    length (place C x b) = length b \/
    (length (place C x b) = S (length b) /\ Forall (fun c => C < fst c + valueof x) b).
  Proof.
    induction b as [|bn t IH]; cbn [ff_place].
    - right. split; [reflexivity|constructor].
    - destruct (fst bn + valueof x <=? C) eqn:E.
      + left. reflexivity.
      + cbn [length]. destruct IH as [IH|[IH1 IH2]].
        * left. rewrite IH. reflexivity.
        * right. split; [rewrite IH1; reflexivity|constructor; [lia|exact IH2]].
  Qed.

  (** if first-fit ends with more than k bins, some item x found k bins, none of which it fits *)
  Lemma ff_loop_overflow C k : forall items (b0 b : bins A),
    ff_loop valueof true C items b0 = Ok b -> (length b0 <= k)%nat -> (k < length b)%nat ->
    exists l1 x l2 b1, items = l1 ++ x :: l2 /\ ff_loop valueof true C l1 b0 = Ok b1 /\
      length b1 = k /\ valueof x <= C /\ Forall (fun c => C < fst c + valueof x) b1.
  Proof.
    induction items as [|x t IH]; intros b0 b H Hl0 Hl; cbn [ff_loop] in H.
    - injection H as H. subst b. lia.
    - destruct (valueof x >? C) eqn:E; [discriminate H|].
      destruct (le_lt_dec (length (place C x b0)) k) as [Hle|Hgt].
      + destruct (IH _ _ H Hle Hl) as (l1 & y & l2 & b1 & E1 & E2 & E3 & E4 & E5).
        exists (x :: l1), y, l2, b1. split; [rewrite E1; reflexivity|].
        split; [cbn [ff_loop]; rewrite E; exact E2|]. auto.
      + destruct (ff_place_length C x b0) as [Hp|[Hp1 Hp2]]; [lia|].
        exists [], x, t, b0. split; [reflexivity|]. split; [reflexivity|].
        split; [lia|]. split; [lia|exact Hp2].
  Qed.

  Lemma nonempty_count (b : bins A) : all_nonempty b -> (length b <= length (contents b))%nat.
  Proof.
    induction b as [|bn t IH]; intros H; [cbn [length]; lia|].
    apply Forall_cons_iff in H. destruct H as [H1 H2]. specialize (IH H2).
    rewrite contents_cons, app_length. cbn [length].
    destruct (snd bn) as [|y l]; [congruence|]. cbn [length]. lia.
  Qed.
End Overflow.

Lemma sorted_app_mid {T} (R : T -> T -> Prop) l1 x l2 :
  StronglySorted R (l1 ++ x :: l2) -> Forall (fun a => R a x) l1.
Proof.
  induction l1 as [|a l1 IH]; cbn [app]; intros H; [constructor|].
  inversion H as [|a' l' Hs Ha]; subst. constructor; [|apply IH; exact Hs].
  rewrite Forall_forall in Ha. apply Ha. apply in_or_app. right. left. reflexivity.
Qed.

(** first-fit-decreasing on values: the structure at the moment bin k+1 is opened.
    l1 = the values placed before x (all >= x), b1 = their k bins, none of which takes x. *)
Lemma ffd_overflow C k vs b : (1 <= k)%nat -> Forall (fun v => 0 <= v) vs ->
  first_fit idZ true C (sort_desc idZ vs) = Ok b -> (k < length b)%nat ->
  exists l1 x l2 b1, Permutation vs (l1 ++ x :: l2) /\ Forall (fun v => x <= v) l1 /\
    0 <= x <= C /\ length b1 = k /\ wf idZ b1 /\ Permutation (contents b1) l1 /\
    all_nonempty b1 /\ Forall (fun c => C < fst c + x) b1 /\
    sort_desc idZ vs = l1 ++ x :: l2 /\ ff_loop idZ true C l1 (new_bins 1) = Ok b1.
Proof.
  intros Hk Hnn H Hlen. unfold first_fit in H.
  destruct (ff_loop_overflow idZ C k _ _ _ H) as (l1 & x & l2 & b1 & E1 & E2 & E3 & E4 & E5).
  - rewrite new_bins_length. exact Hk.
  - exact Hlen.
  - assert (Hp : Permutation vs (l1 ++ x :: l2)).
    { rewrite <- E1. symmetry. apply sort_desc_perm. }
    assert (Hnn' : Forall (fun v => 0 <= v) (l1 ++ x :: l2)).
    { eapply Permutation_Forall; [exact Hp|exact Hnn]. }
    apply Forall_app in Hnn'. destruct Hnn' as [Hn1 Hn2].
    apply Forall_cons_iff in Hn2. destruct Hn2 as [Hx _].
    assert (Hne : l1 <> []).
    { intros E. subst l1. cbn [ff_loop] in E2. injection E2 as E2. subst b1.
      unfold new_bins, empty_bin in E5. cbn [repeat] in E5.
      apply Forall_cons_iff in E5. destruct E5 as [E5 _]. cbn [fst] in E5. lia. }
    destruct (ff_Inv idZ C l1 b1 Hne Hn1 E2) as (Hw & _ & Hpc & Hna & _ & _).
    exists l1, x, l2, b1. split; [exact Hp|]. split.
    { pose proof (sort_desc_sorted idZ vs) as Hs. rewrite E1 in Hs.
      apply sorted_app_mid in Hs. exact Hs. }
    split; [lia|]. split; [exact E3|]. split; [exact Hw|]. split; [exact Hpc|].
    split; [exact Hna|]. split; [exact E5|]. split; [exact E1|exact E2].
Qed.

(** volume: if the values fit into k bins of capacity T <= C, the overflowing item exceeds C - T *)
Lemma overflow_big C T k vs l1 x l2 (b1 : bins Z) : (1 <= k)%nat -> Forall (fun v => 0 <= v) vs ->
  Packable T vs k -> Permutation vs (l1 ++ x :: l2) -> 0 <= x -> length b1 = k -> wf idZ b1 ->
  Permutation (contents b1) l1 -> Forall (fun c => C < fst c + x) b1 -> C - T < x.
Proof.
  intros Hk Hnn Hpack Hp Hx Hlen Hw Hpc Hfull.
  pose proof (packable_total T vs k Hpack) as Htot.
  rewrite (zsum_perm _ _ Hp), zsum_app, pk_zsum_cons in Htot.
  assert (Hnn' : Forall (fun v => 0 <= v) (l1 ++ x :: l2)).
  { eapply Permutation_Forall; [exact Hp|exact Hnn]. }
  apply Forall_app in Hnn'. destruct Hnn' as [_ Hn2].
  apply Forall_cons_iff in Hn2. destruct Hn2 as [_ Hn2]. pose proof (zsum_nonneg l2 Hn2) as H2.
  assert (E : zsum l1 = zsum (sums b1)).
  { rewrite (wf_total idZ b1 Hw), map_id. symmetry. apply zsum_perm. exact Hpc. }
  assert (Hs : Forall (fun s => C - x + 1 <= s) (sums b1)).
  { unfold sums. rewrite Forall_map. eapply Forall_impl; [|exact Hfull]. intros c Hc. cbv beta in Hc. lia. }
  pose proof (zsum_ge_bound _ _ Hs) as Hb.
  assert (Hl : length (sums b1) = k) by (unfold sums; rewrite map_length; exact Hlen).
  rewrite Hl in Hb.
  destruct (Z_lt_le_dec (C - T) x) as [Hlt|Hle]; [exact Hlt|exfalso].
  assert (Z.of_nat k * (T + 1) <= Z.of_nat k * (C - x + 1)) by (apply Z.mul_le_mono_nonneg_l; lia).
  lia.
Qed.

(** ---- 2. what a packing into k bins of capacity T gives ---- *)
Lemma packable_bounds T vs k : (1 <= k)%nat -> Forall (fun v => 0 <= v) vs -> Packable T vs k ->
  0 <= T /\ Forall (fun v => v <= T) vs.
Proof.
  intros Hk Hnn (s & Hs & Hcap).
  destruct (Attainable_bounds k vs Hnn s Hs) as [B1 B2].
  pose proof (Attainable_length _ _ _ Hs) as Hlen.
  assert (Hne : s <> []) by (apply length_pos_ne; lia).
  pose proof (zmax_in s Hne) as Hin. rewrite Forall_forall in Hcap, B1.
  pose proof (Hcap _ Hin) as H1. pose proof (B1 _ Hin) as H0.
  split; [lia|]. eapply Forall_impl; [|exact B2]. intros v Hv. cbv beta in Hv. lia.
Qed.

Lemma opt_packable k vs opt : Opt MinLargest k vs opt -> Packable opt vs k.
Proof.
  intros [(s & Hs & Ev) _]. rewrite value_MinLargest in Ev. subst opt.
  exists s. split; [exact Hs|apply zmax_ge].
Qed.

(** no ValueError, and the sums-only run has as many bins as the contents-keeping run *)
Lemma ff_run C vs : Forall (fun v => v <= C) vs ->
  exists b, first_fit idZ true C vs = Ok b /\ first_fit idZ false C vs = Ok (erase b).
Proof.
  intros Hle. pose proof (ff_erase idZ C vs) as He.
  destruct (first_fit idZ true C vs) as [b|e] eqn:E.
  - exists b. split; [reflexivity|]. cbn [rmap] in He. symmetry. exact He.
  - exfalso. assert (Hex : exists e', first_fit idZ true C vs = Err e') by (exists e; exact E).
    apply ff_error_iff_gen in Hex. apply Exists_exists in Hex. destruct Hex as (v & Hin & Hv).
    rewrite Forall_forall in Hle. specialize (Hle v Hin). lia.
Qed.

(** ---- 3. r = 4/3: items above T/3, weights 2 (alone in a bin of capacity T) or 1 ---- *)
Definition w43 (T x a : Z) : Z := if a <? x then 0 else if T <? a + x then 2 else 1.

Lemma w43_nonneg T x a : 0 <= w43 T x a.
Proof. unfold w43. destruct (a <? x); [lia|]. destruct (T <? a + x); lia. Qed.

Lemma w43_ge1 T x a : x <= a -> 1 <= w43 T x a.
Proof. unfold w43. intros H. destruct (a <? x) eqn:E; [lia|]. destruct (T <? a + x); lia. Qed.

Lemma w43_sum_nonneg T x l : 0 <= zsum (map (w43 T x) l).
Proof. apply zsum_nonneg. rewrite Forall_map. apply Forall_forall. intros a _. apply w43_nonneg. Qed.

Definition P43 (T x l wl : Z) : Prop :=
  0 <= wl /\ 0 <= l /\ (1 <= wl -> x <= l) /\ (2 <= wl -> 2 * x <= l \/ T < l + x) /\ (3 <= wl -> T < l).

Lemma P43_step T x a l wl : 0 <= x -> T < 3 * x -> 0 <= a ->
  P43 T x l wl -> P43 T x (l + a) (wl + w43 T x a).
Proof.
  unfold P43, w43. intros Hx HT Ha (H0 & H1 & H2 & H3 & H4).
  destruct (a <? x) eqn:E1; [lia|]. destruct (T <? a + x) eqn:E2; lia.
Qed.

Lemma w43_upper k T x vs : 0 <= x -> T < 3 * x -> Forall (fun v => 0 <= v) vs -> Packable T vs k ->
  zsum (map (w43 T x) vs) <= 2 * Z.of_nat k.
Proof.
  intros Hx HT Hnn (s & Hs & Hcap).
  destruct (weights_along (P43 T x) (w43 T x) k vs s) as (t & H1 & H2 & H3).
  - unfold P43. lia.
  - eapply Forall_impl; [|exact Hnn]. intros a Ha l wl Hl. apply P43_step; auto.
  - exact Hs.
  - rewrite <- H3.
    assert (Ht : Forall (fun b => b <= 2) t).
    { apply (Forall2_transfer (P43 T x) (fun a => a <= T) (fun b => b <= 2)) with (s := s); auto.
      unfold P43. intros a b Hab Ha. lia. }
    pose proof (zsum_le_bound 2 t Ht) as H4. rewrite H2 in H4. lia.
Qed.

Lemma w43_bin T C x (c : bin Z) : T <= C -> wf_bin idZ c -> snd c <> [] ->
  Forall (fun v => x <= v) (snd c) -> C < fst c + x -> 2 <= zsum (map (w43 T x) (snd c)).
Proof.
  unfold wf_bin. intros HTC Hw Hne Hge Hfull. rewrite map_id in Hw.
  destruct (snd c) as [|y [|z r]]; [congruence| |].
  - rewrite pk_zsum_cons, pk_zsum_nil in Hw. cbn [map]. rewrite pk_zsum_cons, pk_zsum_nil.
    unfold w43. apply Forall_cons_iff in Hge. destruct Hge as [Hy _].
    destruct (y <? x) eqn:E1; [lia|]. destruct (T <? y + x) eqn:E2; lia.
  - apply Forall_cons_iff in Hge. destruct Hge as [Hy Hge].
    apply Forall_cons_iff in Hge. destruct Hge as [Hz _].
    cbn [map]. rewrite !pk_zsum_cons.
    pose proof (w43_ge1 T x y Hy). pose proof (w43_ge1 T x z Hz). pose proof (w43_sum_nonneg T x r). lia.
Qed.

Lemma w43_bins T C x : T <= C -> forall b : bins Z, wf idZ b -> all_nonempty b ->
  Forall (fun v => x <= v) (contents b) -> Forall (fun c => C < fst c + x) b ->
  2 * Z.of_nat (length b) <= zsum (map (w43 T x) (contents b)).
Proof.
  intros HTC. induction b as [|c t IH]; intros Hw Hne Hge Hfull.
  - cbn [length contents lists map concat]. rewrite pk_zsum_nil. lia.
  - apply Forall_cons_iff in Hw. destruct Hw as [Hw1 Hw2].
    apply Forall_cons_iff in Hne. destruct Hne as [Hn1 Hn2].
    apply Forall_cons_iff in Hfull. destruct Hfull as [Hf1 Hf2].
    rewrite contents_cons in *. apply Forall_app in Hge. destruct Hge as [Hg1 Hg2].
    specialize (IH Hw2 Hn2 Hg2 Hf2). pose proof (w43_bin T C x c HTC Hw1 Hn1 Hg1 Hf1) as H1.
    rewrite map_app, zsum_app. cbn [length]. rewrite Nat2Z.inj_succ. lia.
Qed.

Lemma ffd_fits_43 k T C vs b : (1 <= k)%nat -> Forall (fun v => 0 <= v) vs -> Packable T vs k ->
  4 * T <= 3 * C -> first_fit idZ true C (sort_desc idZ vs) = Ok b -> (length b <= k)%nat.
Proof.
  intros Hk Hnn Hpack HC H.
  destruct (le_lt_dec (length b) k) as [Hle|Hgt]; [exact Hle|exfalso].
  destruct (packable_bounds T vs k Hk Hnn Hpack) as [HT0 _].
  destruct (ffd_overflow C k vs b Hk Hnn H Hgt)
    as (l1 & x & l2 & b1 & Hp & Hge & Hx & Hlen & Hw & Hpc & Hna & Hfull & _ & _).
  pose proof (overflow_big C T k vs l1 x l2 b1 Hk Hnn Hpack Hp ltac:(lia) Hlen Hw Hpc Hfull) as Hbig.
  pose proof (w43_upper k T x vs ltac:(lia) ltac:(lia) Hnn Hpack) as Hup.
  rewrite (zsum_perm _ _ (Permutation_map (w43 T x) Hp)), map_app, zsum_app in Hup.
  cbn [map] in Hup. rewrite pk_zsum_cons in Hup.
  pose proof (w43_ge1 T x x ltac:(lia)) as Hwx. pose proof (w43_sum_nonneg T x l2) as Hw2.
  assert (Hge' : Forall (fun v => x <= v) (contents b1)).
  { eapply Permutation_Forall; [symmetry; exact Hpc|exact Hge]. }
  pose proof (w43_bins T C x ltac:(lia) b1 Hw Hna Hge' Hfull) as Hlow.
  rewrite (zsum_perm _ _ (Permutation_map (w43 T x) Hpc)), Hlen in Hlow. lia.
Qed.

(** (L_4/3) first-fit-decreasing with an integer capacity c >= 4/3 T, T the largest sum of ANY
    partition of the values into k bins, never fails and uses at most k bins *)
Theorem ffd_capacity_43 k T c vs : (1 <= k)%nat -> Forall (fun v => 0 <= v) vs -> Packable T vs k ->
  4 * T <= 3 * c ->
  exists b, first_fit idZ false c (sort_desc idZ vs) = Ok b /\ (length b <= k)%nat.
Proof.
  intros Hk Hnn Hpack HC.
  destruct (packable_bounds T vs k Hk Hnn Hpack) as [HT0 Hle].
  destruct (ff_run c (sort_desc idZ vs)) as (b & Hb & Hb').
  - eapply Permutation_Forall; [symmetry; apply sort_desc_perm|].
    eapply Forall_impl; [|exact Hle]. intros v Hv. cbv beta in Hv. lia.
  - exists (erase b). split; [exact Hb'|]. rewrite erase_length.
    apply (ffd_fits_43 k T c vs b); assumption.
Qed.

(** (L_3/2) is a special case *)
Corollary ffd_capacity_32 k T c vs : (1 <= k)%nat -> Forall (fun v => 0 <= v) vs -> Packable T vs k ->
  3 * T <= 2 * c ->
  exists b, first_fit idZ false c (sort_desc idZ vs) = Ok b /\ (length b <= k)%nat.
Proof.
  intros Hk Hnn Hpack HC. destruct (packable_bounds T vs k Hk Hnn Hpack) as [HT0 _].
  apply (ffd_capacity_43 k T c vs Hk Hnn Hpack). lia.
Qed.

(** ---- 4. float bookkeeping: 2 S / k rounds to twice what S / k rounds to ---- *)
Lemma rne_double n d : 0 < d -> rne (2 * n) (2 * d) = rne n d.
Proof.
  intros Hd. unfold rne. cbv zeta. rewrite Z.div_mul_cancel_l by lia. rewrite Z.mul_mod_distr_l by lia.
  set (q := n / d). set (r := n mod d).
  destruct (2 * r <? d) eqn:E1; destruct (2 * (2 * r) <? 2 * d) eqn:E1'; try lia; try reflexivity.
  destruct (d <? 2 * r) eqn:E2; destruct (2 * d <? 2 * (2 * r)) eqn:E2'; try lia; reflexivity.
Qed.

Lemma rnd53_double num den : 0 < num -> 0 < den -> rnd53 (2 * num) den = dbl (rnd53 num den).
Proof.
  intros Hn Hd. unfold rnd53. destruct (2 * num <=? 0) eqn:E0; [lia|]. destruct (num <=? 0) eqn:E0'; [lia|].
  cbv zeta. rewrite Z.log2_double by lia.
  set (e0 := Z.log2 num - Z.log2 den - 53).
  replace (Z.succ (Z.log2 num) - Z.log2 den - 53) with (e0 + 1) by (subst e0; lia).
  clearbody e0. unfold dy_scale. destruct (0 <=? e0) eqn:E1.
  - destruct (0 <=? e0 + 1) eqn:E2; [|lia]. cbn [fst snd].
    rewrite Z.pow_add_r by lia. change (2 ^ 1) with 2.
    replace (den * (2 ^ e0 * 2)) with (2 * (den * 2 ^ e0)) by ring.
    assert (Hp : 0 < den * 2 ^ e0) by (pose proof (pow2_pos e0 ltac:(lia)); nia).
    rewrite Z.div_mul_cancel_l by lia.
    destruct (num / (den * 2 ^ e0) <? 2 ^ 53); rewrite rne_double by lia; reflexivity.
  - destruct (0 <=? e0 + 1) eqn:E2.
    + assert (He : e0 = -1) by lia. subst e0. cbn [fst snd].
      change (2 ^ (- -1)) with 2. change (2 ^ (-1 + 1)) with 1.
      rewrite Z.mul_1_r. replace (num * 2) with (2 * num) by ring.
      destruct (2 * num / den <? 2 ^ 53); reflexivity.
    + cbn [fst snd].
      replace (num * 2 ^ (- e0)) with (2 * num * 2 ^ (- (e0 + 1))).
      * destruct (2 * num * 2 ^ (- (e0 + 1)) / den <? 2 ^ 53); reflexivity.
      * replace (- e0) with (- (e0 + 1) + 1) by lia. rewrite Z.pow_add_r by lia. change (2 ^ 1) with 2. ring.
Qed.

Lemma rnd53_double_val num den : 0 <= num -> 0 < den ->
  (dval (rnd53 (2 * num) den) == dval (rnd53 num den) * 2)%Q.
Proof.
  intros Hn Hd. destruct (Z.eq_dec num 0) as [E|E].
  - subst num. reflexivity.
  - rewrite rnd53_double by lia. apply dbl_spec.
Qed.

Lemma dval_nonneg a : 0 <= fst a -> (0 <= dval a)%Q.
Proof.
  intros H. unfold dval. pose proof (p2_pos (snd a)). pose proof (inject_Z_nonneg _ H). nra.
Qed.

(** ---- 5. the initial bounds: lower0 <= T, upper0 - lower0 <= T, upper0 <= 2 T ---- *)
Lemma init_bounds k S M T : 0 < k -> 0 <= S -> 0 <= M -> S <= k * T -> M <= T -> 0 <= T <= 2 ^ 53 ->
  (dval (mf_lower0 k S M) <= inject_Z T)%Q /\
  (dval (mf_upper0 k S M) - dval (mf_lower0 k S M) <= inject_Z T)%Q /\
  (dval (mf_upper0 k S M) <= 2 * inject_Z T)%Q.
Proof.
  intros Hk HS HM HST HMT HT. unfold mf_lower0, mf_upper0, fdiv_int.
  set (x1 := (inject_Z S / inject_Z k)%Q).
  assert (X1 : (x1 * inject_Z k == inject_Z S)%Q) by (apply Qdiv_Z_spec; exact Hk).
  pose proof (rnd53_rounds S k x1 HS Hk X1) as (R1 & _ & G3 & _ & _).
  pose proof (rnd53_double_val S k HS Hk) as D.
  set (a := rnd53 S k) in *. set (u := rnd53 (2 * S) k) in *.
  assert (HaT : (dval a <= inject_Z T)%Q).
  { rewrite <- (dval_fof_Z T). apply G3; [apply fof_Z_repr; exact HT|]. rewrite dval_fof_Z.
    apply (Qcancel_r _ _ (inject_Z k) (inject_Z_pos k Hk)). rewrite X1, <- inject_Z_mult, <- Zle_Qle. lia. }
  assert (Ha0 : (0 <= dval a)%Q) by (apply dval_nonneg; destruct R1; assumption).
  assert (HMT' : (inject_Z M <= inject_Z T)%Q) by (rewrite <- Zle_Qle; exact HMT).
  assert (HT0 : (0 <= inject_Z T)%Q) by (apply inject_Z_nonneg; lia).
  destruct (fmax_spec a (fof_Z M)) as (A1 & A2 & A3). destruct (fmax_spec u (fof_Z M)) as (B1 & B2 & B3).
  rewrite dval_fof_Z in A2, B2.
  assert (EA : (dval (fmax a (fof_Z M)) == dval a \/ dval (fmax a (fof_Z M)) == inject_Z M)%Q).
  { destruct A3 as [-> | ->]; [left; reflexivity|right; apply dval_fof_Z]. }
  assert (EB : (dval (fmax u (fof_Z M)) == dval u \/ dval (fmax u (fof_Z M)) == inject_Z M)%Q).
  { destruct B3 as [-> | ->]; [left; reflexivity|right; apply dval_fof_Z]. }
  set (lo := dval (fmax a (fof_Z M))) in *. set (up := dval (fmax u (fof_Z M))) in *.
  set (va := dval a) in *. set (vu := dval u) in *.
  split; [|split].
  - destruct EA as [E|E]; rewrite E; lra.
  - destruct EB as [E|E]; rewrite E; lra.
  - destruct EB as [E|E]; rewrite E; lra.
Qed.

(** ---- 6. one rounding of the midpoint: |mid - (lo + up)/2| <= e  when  up <= e * 2^53 ---- *)
Lemma mf_mid_err lo up e : repr lo -> repr up -> (dval lo <= dval up)%Q ->
  (dval up <= e * inject_Z (2 ^ 53))%Q ->
  (dval lo + dval up - 2 * e <= 2 * dval (mf_mid lo up))%Q /\
  (2 * dval (mf_mid lo up) <= dval lo + dval up + 2 * e)%Q.
Proof.
  intros Hlo Hup Hle He. unfold mf_mid.
  destruct (fadd_rounds lo up ltac:(destruct Hlo; assumption) ltac:(destruct Hup; assumption))
    as (_ & _ & _ & E1 & E2).
  pose proof (fhalf_spec (fadd lo up)) as Hh.
  pose proof (dval_nonneg lo ltac:(destruct Hlo; assumption)) as L0.
  change (inject_Z (2 ^ 53)) with 9007199254740992%Q in *.
  change (inject_Z (2 ^ 53 - 1)) with 9007199254740991%Q in *.
  change (inject_Z (2 ^ 53 + 1)) with 9007199254740993%Q in *.
  set (r := dval (fadd lo up)) in *. set (m := dval (fhalf (fadd lo up))) in *.
  set (a := dval lo) in *. set (c := dval up) in *. split; lra.
Qed.

(** ---- 7. the binary search: the gap halves (up to the midpoint rounding e), and [lo] stays
        below every bound Lb on the failing capacities ---- *)
Lemma pow2_succ_Q it : (inject_Z (2 ^ Z.of_nat (S it)) == 2 * inject_Z (2 ^ Z.of_nat it))%Q.
Proof. rewrite Nat2Z.inj_succ, Z.pow_succ_r by lia. rewrite inject_Z_mult. reflexivity. Qed.

Lemma mf_loop_gap M k svs (Lb e : Q) : Forall (fun v => v <= M) svs ->
  (forall c b, repr c -> first_fit idZ false (ffloor c) svs = Ok b -> (k < length b)%nat -> (dval c <= Lb)%Q) ->
  forall it lo up G, mf_ok M lo up -> (dval lo <= Lb)%Q -> (dval up <= e * inject_Z (2 ^ 53))%Q ->
    (dval up - dval lo <= G + 2 * e)%Q ->
  exists cap, mf_loop it k svs lo up = Ok cap /\
    (dval cap * inject_Z (2 ^ Z.of_nat it) <= (Lb + 2 * e) * inject_Z (2 ^ Z.of_nat it) + G)%Q.
Proof.
  intros Hall Hfail. induction it as [|it IH]; intros lo up G Hok HloB HupE Hgap; cbn [mf_loop].
  - exists up. split; [reflexivity|]. change (inject_Z (2 ^ Z.of_nat 0)) with 1%Q. lra.
  - destruct Hok as (Hlo & Hup & HM & Hle).
    destruct (mf_mid_spec lo up Hlo Hup Hle) as (Hm & Hm1 & Hm2).
    destruct (mf_mid_err lo up e Hlo Hup Hle HupE) as [Me1 Me2].
    set (mid := mf_mid lo up) in *.
    destruct (probe_ok M svs mid Hall ltac:(lra)) as [b Hb]. unfold mf_probe. rewrite Hb. cbn [rmap].
    pose proof (pow2_succ_Q it) as Ep.
    set (p := inject_Z (2 ^ Z.of_nat it)) in *. set (p' := inject_Z (2 ^ Z.of_nat (S it))) in *.
    destruct (length b <=? k)%nat eqn:E.
    + destruct (IH lo mid (G * (1 # 2))%Q) as (cap & H1 & H2).
      * exact (conj Hlo (conj Hm (conj HM Hm1))).
      * exact HloB.
      * lra.
      * lra.
      * exists cap. split; [exact H1|]. rewrite Ep. nra.
    + assert (HmB : (dval mid <= Lb)%Q).
      { apply (Hfail mid b Hm Hb). apply Nat.leb_gt in E. exact E. }
      destruct (IH mid up (G * (1 # 2))%Q) as (cap & H1 & H2).
      * assert (HM' : (inject_Z M <= dval mid)%Q) by lra. exact (conj Hm (conj Hup (conj HM' Hm2))).
      * exact HmB.
      * exact HupE.
      * lra.
      * exists cap. split; [exact H1|]. rewrite Ep. nra.
Qed.

(** ---- 8. from a capacity lemma for r = rn / rd to the ratio of MultiFit ---- *)
Lemma opt_le_total k vs opt : Opt MinLargest k vs opt -> Forall (fun v => 0 <= v) vs -> (1 <= k)%nat ->
  opt <= zsum vs.
Proof.
  intros [(s & Hs & Ev) _] Hnn Hk. rewrite value_MinLargest in Ev. subst opt.
  destruct (Attainable_bounds k vs Hnn s Hs) as [B1 _].
  rewrite <- (Attainable_sum _ _ _ Hs). apply zmax_le_zsum. exact B1.
Qed.

Section MultifitRatio.
  Context {A : Type} (valueof : A -> Z).

  Theorem multifit_ratio_gen (rn rd : Z) it k items b opt :
    0 < rd <= rn ->
    (forall c, rn * opt <= rd * c ->
       exists b0, first_fit idZ false c (sort_desc idZ (map valueof items)) = Ok b0 /\ (length b0 <= k)%nat) ->
    items <> [] -> Forall (fun x => 0 <= valueof x) items -> (1 <= k)%nat ->
    zsum (map valueof items) <= 2 ^ 53 ->
    multifit valueof true it k items = Ok b ->
    Opt MinLargest k (map valueof items) opt ->
    2 ^ 51 * 2 ^ Z.of_nat it * (rd * zmax (sums b))
    <= 2 ^ 51 * 2 ^ Z.of_nat it * (rn * opt + rd - 1) + rd * (2 ^ 51 + 2 ^ Z.of_nat it) * opt.
  Proof.
    intros Hr Hcap Hne Hnn Hk HS H Hopt.
    pose proof (vs_nonneg valueof items Hnn) as Vnn. pose proof (vs_sum_nonneg valueof items Hnn) as VS.
    pose proof (vs_max_nonneg valueof items Hne Hnn) as VM.
    destruct (opt_minlargest_lower_bounds k _ opt Hopt Vnn Hk) as [O1 _].
    pose proof (opt_minlargest_ge_vmax k _ opt Hopt Vnn Hk) as O2.
    pose proof (opt_le_total k _ opt Hopt Vnn Hk) as O3.
    set (vs := map valueof items) in *. set (S := zsum vs) in *. set (M := zmax vs) in *.
    set (kz := Z.of_nat k) in *. assert (Hkz : 0 < kz) by (subst kz; lia).
    set (T := opt) in *. assert (HT : 0 <= T <= 2 ^ 53) by lia.
    set (N := rn * T + rd - 1).
    set (Lb := (inject_Z N / inject_Z rd)%Q).
    assert (HLb : (Lb * inject_Z rd == inject_Z N)%Q) by (apply Qdiv_Z_spec; lia).
    set (e := (inject_Z T * (1 # 4503599627370496))%Q).
    assert (He : (e * inject_Z (2 ^ 53) == 2 * inject_Z T)%Q).
    { subst e. change (inject_Z (2 ^ 53)) with 9007199254740992%Q. field. }
    assert (HTq : (0 <= inject_Z T)%Q) by (apply inject_Z_nonneg; lia).
    assert (He0 : (0 <= e)%Q) by (subst e; lra).
    assert (Prd : (0 < inject_Z rd)%Q) by (apply inject_Z_pos; lia).
    destruct (init_bounds kz S M T Hkz VS VM O1 O2 HT) as (I1 & I2 & I3).
    assert (HTLb : (inject_Z T <= Lb)%Q).
    { apply (Qcancel_r _ _ (inject_Z rd) Prd). rewrite HLb, <- inject_Z_mult, <- Zle_Qle. subst N. nia. }
    (* the binary search *)
    destruct (mf_loop_gap M k (sort_desc idZ vs) Lb e (svs_le_max valueof items)) with
      (it := it) (lo := mf_lower0 kz S M) (up := mf_upper0 kz S M) (G := inject_Z T)
      as (cap & Hc & Hbound).
    - intros c b0 Hc Hb0 Hlen.
      destruct (Z_le_gt_dec (rn * T) (rd * ffloor c)) as [Hle|Hgt].
      + destruct (Hcap (ffloor c) Hle) as (b1 & Hb1 & Hl1). fold vs in Hb1.
        rewrite Hb0 in Hb1. injection Hb1 as Hb1. subst b1. lia.
      + destruct (ffloor_spec c) as [_ F2].
        apply (Qcancel_r _ _ (inject_Z rd) Prd). rewrite HLb.
        assert (F3 : (inject_Z (ffloor c + 1) * inject_Z rd <= inject_Z N)%Q).
        { rewrite <- inject_Z_mult, <- Zle_Qle. subst N. lia. }
        assert (F4 : (dval c * inject_Z rd <= inject_Z (ffloor c + 1) * inject_Z rd)%Q).
        { apply Qmult_le_compat_r; lra. }
        lra.
    - apply init_ok; [exact Hkz|exact VS|]. split; [exact VM|lia].
    - lra.
    - rewrite He. exact I3.
    - lra.
    - (* the final first-fit run *)
      unfold multifit in H. fold vs in H.
      rewrite (multifit_capacity_unfold it k vs (vs_ne valueof items Hne Hnn) Hk) in H.
      fold S M kz in H. rewrite Hc in H. cbn [rbind] in H.
      destruct (ffd_Inv valueof (ffloor cap) items b Hne Hnn H) as (_ & Hf & Hp & _).
      assert (Hbne : sums b <> []).
      { destruct b as [|bn t]; [|discriminate]. apply Permutation_nil in Hp. congruence. }
      pose proof (zmax_in (sums b) Hbne) as Hin. unfold sums in Hin at 2. apply in_map_iff in Hin.
      destruct Hin as (bn & Ebn & Hin). unfold feasible in Hf. rewrite Forall_forall in Hf.
      specialize (Hf bn Hin). rewrite Ebn in Hf. set (ms := zmax (sums b)) in *.
      destruct (ffloor_spec cap) as [F1 _].
      assert (Hms : (inject_Z ms <= dval cap)%Q).
      { eapply Qle_trans; [rewrite <- Zle_Qle; exact Hf|exact F1]. }
      set (P := 2 ^ Z.of_nat it) in *.
      assert (HP : 0 < P) by (subst P; apply pow2_pos; lia).
      assert (PP : (0 < inject_Z P)%Q) by (apply inject_Z_pos; exact HP).
      assert (B1 : (inject_Z ms * inject_Z P <= (Lb + 2 * e) * inject_Z P + inject_Z T)%Q).
      { eapply Qle_trans; [|exact Hbound]. apply Qmult_le_compat_r; lra. }
      assert (B2 : (inject_Z ms * inject_Z P * (inject_Z rd * 2251799813685248)
                    <= ((Lb + 2 * e) * inject_Z P + inject_Z T) * (inject_Z rd * 2251799813685248))%Q).
      { apply Qmult_le_compat_r; [exact B1|]. lra. }
      assert (B3 : (((Lb + 2 * e) * inject_Z P + inject_Z T) * (inject_Z rd * 2251799813685248)
                    == 2251799813685248 * inject_Z P * inject_Z N
                       + inject_Z rd * (2251799813685248 + inject_Z P) * inject_Z T)%Q).
      { rewrite <- HLb. subst e. field. }
      rewrite B3 in B2.
      rewrite Zle_Qle. rewrite !inject_Z_plus, !inject_Z_mult, !inject_Z_plus.
      change (inject_Z (2 ^ 51)) with 2251799813685248%Q.
      replace (rn * T + rd - 1) with N by reflexivity.
      eapply Qle_trans; [|exact B2]. apply Qle_lteq. right. ring.
  Qed.
End MultifitRatio.

(** ---- 9. the rungs ---- *)
Lemma slack_arith (c P rd ms X opt n : Z) : 0 < c -> 0 < P -> 0 <= rd -> 0 <= opt -> opt <= n * c ->
  c * P * (rd * ms) <= c * P * X + rd * (c + P) * opt ->
  P * (rd * ms) <= P * X + rd * opt + rd * n * P.
Proof.
  intros Hc HP Hrd Hopt Hn H.
  assert (H1 : rd * P * opt <= rd * P * (n * c)) by (apply Z.mul_le_mono_nonneg_l; nia).
  apply (Z.mul_le_mono_pos_l _ _ c Hc). nia.
Qed.

Section Rungs.
  Context {A : Type} (valueof : A -> Z).

  Section Hyps.
    Variables (it k : nat) (items : list A) (b : bins A) (opt : Z).
    Hypothesis Hne : items <> [].
    Hypothesis Hnn : Forall (fun x => 0 <= valueof x) items.
    Hypothesis Hk : (1 <= k)%nat.
    Hypothesis Hrun : multifit valueof true it k items = Ok b.
    Hypothesis Hopt : Opt MinLargest k (map valueof items) opt.

    (** r = 4/3, exact form: largest <= (4 opt + 2)/3 + opt / 2^it + opt / 2^51
        (opt / 2^51 bounds the accumulated rounding of the midpoints) *)
    Theorem multifit_ratio_43_exact : zsum (map valueof items) <= 2 ^ 53 ->
      2 ^ 51 * 2 ^ Z.of_nat it * (3 * zmax (sums b))
      <= 2 ^ 51 * 2 ^ Z.of_nat it * (4 * opt + 2) + 3 * (2 ^ 51 + 2 ^ Z.of_nat it) * opt.
    Proof.
      intros HS.
      pose proof (multifit_ratio_gen valueof 4 3 it k items b opt ltac:(lia)) as G.
      replace (4 * opt + 3 - 1) with (4 * opt + 2) in G by lia. apply G; auto.
      intros c Hc. apply (ffd_capacity_43 k opt c); auto.
      - apply vs_nonneg; exact Hnn.
      - apply opt_packable; exact Hopt.
    Qed.

    (** r = 4/3: largest <= (4/3 + 2^-it) opt + 14/3 *)
    Theorem multifit_ratio_43 : zsum (map valueof items) <= 2 ^ 53 ->
      3 * 2 ^ Z.of_nat it * zmax (sums b) <= (4 * 2 ^ Z.of_nat it + 3) * opt + 14 * 2 ^ Z.of_nat it.
    Proof.
      intros HS. pose proof (multifit_ratio_43_exact HS) as H.
      pose proof (vs_nonneg valueof items Hnn) as Vnn.
      pose proof (opt_minlargest_nonneg k _ opt Hopt Vnn Hk) as O0.
      pose proof (opt_le_total k _ opt Hopt Vnn Hk) as O3.
      assert (HP : 0 < 2 ^ Z.of_nat it) by (apply pow2_pos; lia).
      pose proof (slack_arith (2 ^ 51) (2 ^ Z.of_nat it) 3 (zmax (sums b)) (4 * opt + 2) opt 4
                    ltac:(reflexivity) HP ltac:(lia) O0 ltac:(lia) H) as H1.
      lia.
    Qed.

    (** with a total of at most 2^51 the rounding costs at most 1: largest <= (4/3 + 2^-it) opt + 5/3 *)
    Theorem multifit_ratio_43_small : zsum (map valueof items) <= 2 ^ 51 ->
      3 * 2 ^ Z.of_nat it * zmax (sums b) <= (4 * 2 ^ Z.of_nat it + 3) * opt + 5 * 2 ^ Z.of_nat it.
    Proof.
      intros HS. pose proof (multifit_ratio_43_exact ltac:(lia)) as H.
      pose proof (vs_nonneg valueof items Hnn) as Vnn.
      pose proof (opt_minlargest_nonneg k _ opt Hopt Vnn Hk) as O0.
      pose proof (opt_le_total k _ opt Hopt Vnn Hk) as O3.
      assert (HP : 0 < 2 ^ Z.of_nat it) by (apply pow2_pos; lia).
      pose proof (slack_arith (2 ^ 51) (2 ^ Z.of_nat it) 3 (zmax (sums b)) (4 * opt + 2) opt 1
                    ltac:(reflexivity) HP ltac:(lia) O0 ltac:(lia) H) as H1.
      lia.
    Qed.

    (** r = 3/2 (weaker; kept because it was the first rung): largest <= (3/2 + 2^-it) opt + 9/2 *)
    Theorem multifit_ratio_32 : zsum (map valueof items) <= 2 ^ 53 ->
      2 * 2 ^ Z.of_nat it * zmax (sums b) <= (3 * 2 ^ Z.of_nat it + 2) * opt + 9 * 2 ^ Z.of_nat it.
    Proof.
      intros HS.
      pose proof (multifit_ratio_gen valueof 3 2 it k items b opt ltac:(lia)) as G.
      replace (3 * opt + 2 - 1) with (3 * opt + 1) in G by lia.
      assert (H : 2 ^ 51 * 2 ^ Z.of_nat it * (2 * zmax (sums b))
                  <= 2 ^ 51 * 2 ^ Z.of_nat it * (3 * opt + 1) + 2 * (2 ^ 51 + 2 ^ Z.of_nat it) * opt).
      { apply G; auto. intros c Hc. apply (ffd_capacity_32 k opt c); auto.
        - apply vs_nonneg; exact Hnn.
        - apply opt_packable; exact Hopt. }
      pose proof (vs_nonneg valueof items Hnn) as Vnn.
      pose proof (opt_minlargest_nonneg k _ opt Hopt Vnn Hk) as O0.
      pose proof (opt_le_total k _ opt Hopt Vnn Hk) as O3.
      assert (HP : 0 < 2 ^ Z.of_nat it) by (apply pow2_pos; lia).
      pose proof (slack_arith (2 ^ 51) (2 ^ Z.of_nat it) 2 (zmax (sums b)) (3 * opt + 1) opt 4
                    ltac:(reflexivity) HP ltac:(lia) O0 ltac:(lia) H) as H1.
      lia.
    Qed.
  End Hyps.
End Rungs.


(** ---- 10. r = 5/4: peel off the first bin of first-fit-decreasing (exchange argument) ----
    All values exceed d = C - T >= T/4, so a bin of capacity T holds at most three of them.
    Let a be the largest value and {a, o2, o3} its bin in a packing into k bins of capacity T.
    First-fit's first bin is a, then the largest value f2 that fits (f2 >= o2 because
    a + o2 <= T <= C), then the largest remaining value f3 that fits (f3 >= o3 because
    a + f2 + o3 <= 2 a + o3 <= C when T <= 4 d).  So the rest of first-fit's first bin
    dominates the rest of a's bin, and by the exchange lemma [dom_exchange] of BCOptimalProofs
    the values outside first-fit's first bin fit into k - 1 bins of capacity T.  Induction. *)
Notation desc := (StronglySorted (fun a c : Z => c <= a)).

(** what first-fit puts into a bin of level s (fst) and what it leaves (snd) *)
Fixpoint fill (C s : Z) (L : list Z) : list Z * list Z :=
  match L with
  | [] => ([], [])
  | v :: t => if s + v <=? C then (v :: fst (fill C (s + v) t), snd (fill C (s + v) t))
              else (fst (fill C s t), v :: snd (fill C s t))
  end.

Lemma fill_perm C : forall L s, Permutation L (fst (fill C s L) ++ snd (fill C s L)).
Proof.
  induction L as [|v L IH]; intros s; cbn [fill]; [apply Permutation_refl|].
  destruct (s + v <=? C); cbn [fst snd].
  - cbn [app]. apply perm_skip, IH.
  - apply Permutation_cons_app, IH.
Qed.

Lemma fill_Forall (P : Z -> Prop) C L s : Forall P L ->
  Forall P (fst (fill C s L)) /\ Forall P (snd (fill C s L)).
Proof. intros H. apply Forall_app. eapply Permutation_Forall; [apply fill_perm|exact H]. Qed.

Lemma fill_sorted C : forall L s, desc L -> desc (snd (fill C s L)).
Proof.
  induction L as [|v L IH]; intros s Hs; cbn [fill]; [constructor|].
  inversion Hs as [|v' L' Hs' Hv]; subst.
  destruct (s + v <=? C); cbn [snd]; [apply IH; exact Hs'|].
  constructor; [apply IH; exact Hs'|]. apply (fill_Forall _ C L s Hv).
Qed.

Lemma ff_peel C : forall L (bn : bin Z) t b, ff_loop idZ true C L (bn :: t) = Ok b ->
  exists t', ff_loop idZ true C (snd (fill C (fst bn) L)) t = Ok t' /\ length b = S (length t').
Proof.
  induction L as [|v L IH]; intros bn t b H; cbn [ff_loop] in H.
  - injection H as H. subst b. exists t. split; reflexivity.
  - destruct (v >? C) eqn:Ev; [discriminate H|]. cbn [ff_place] in H. cbn [fill].
    destruct (fst bn + v <=? C) eqn:E.
    + destruct (IH _ _ _ H) as (t' & H1 & H2). exists t'. cbn [snd].
      unfold add_to_bin in H1. cbn [fst] in H1. split; assumption.
    + destruct (IH _ _ _ H) as (t' & H1 & H2). exists t'. cbn [snd]. split; [|exact H2].
      cbn [ff_loop]. rewrite Ev. exact H1.
Qed.

Lemma fill_dom1 C : forall L s o, desc L -> In o L -> s + o <= C ->
  exists f rest, fst (fill C s L) = f :: rest /\ o <= f.
Proof.
  induction L as [|v L IH]; intros s o Hs Hin Hfit; [destruct Hin|].
  inversion Hs as [|v' L' Hs' Hv]; subst. cbn [fill].
  destruct (s + v <=? C) eqn:E; cbn [fst].
  - exists v, (fst (fill C (s + v) L)). split; [reflexivity|].
    destruct Hin as [->|Hin]; [lia|]. rewrite Forall_forall in Hv. apply Hv. exact Hin.
  - destruct Hin as [->|Hin]; [lia|]. apply IH; assumption.
Qed.

Lemma perm_second v L o2 o3 W : Permutation (v :: L) (o2 :: o3 :: W) -> o3 <= o2 -> o2 <= v -> In o3 L.
Proof.
  intros Hp H32 H2v. destruct (in_dec Z.eq_dec o3 L) as [Hi|Hn]; [exact Hi|exfalso].
  assert (Hin : In o3 (v :: L)).
  { eapply Permutation_in; [symmetry; exact Hp|right; left; reflexivity]. }
  destruct Hin as [E|Hin]; [|contradiction]. subst o3. assert (o2 = v) by lia. subst o2.
  apply Permutation_cons_inv in Hp. apply Hn. eapply Permutation_in; [symmetry; exact Hp|left; reflexivity].
Qed.

Lemma fill_dom2 C amax : forall L s o2 o3 W, desc L -> Forall (fun v => v <= amax) L ->
  Permutation L (o2 :: o3 :: W) -> o3 <= o2 -> s + o2 <= C -> s + amax + o3 <= C ->
  exists f2 f3 rest, fst (fill C s L) = f2 :: f3 :: rest /\ o2 <= f2 /\ o3 <= f3.
Proof.
  induction L as [|v L IH]; intros s o2 o3 W Hs Hmax Hp H32 Hfit Hfit2.
  - apply Permutation_nil in Hp. discriminate Hp.
  - inversion Hs as [|v' L' Hs' Hv]; subst. apply Forall_cons_iff in Hmax. destruct Hmax as [Hvm Hmax].
    assert (Hin2 : In o2 (v :: L)).
    { eapply Permutation_in; [symmetry; exact Hp|left; reflexivity]. }
    assert (Ho2 : o2 <= v).
    { destruct Hin2 as [->|Hin2]; [lia|]. rewrite Forall_forall in Hv. apply Hv. exact Hin2. }
    cbn [fill]. destruct (s + v <=? C) eqn:E; cbn [fst].
    + pose proof (perm_second v L o2 o3 W Hp H32 Ho2) as Hin3.
      destruct (fill_dom1 C L (s + v) o3 Hs' Hin3 ltac:(lia)) as (f3 & rest & E3 & H3).
      exists v, f3, rest. rewrite E3. split; [reflexivity|]. split; assumption.
    + assert (HinW : In v W).
      { assert (Hin : In v (o2 :: o3 :: W)) by (eapply Permutation_in; [exact Hp|left; reflexivity]).
        destruct Hin as [E1|[E1|Hin]]; [lia|lia|exact Hin]. }
      apply in_split in HinW. destruct HinW as (W1 & W2 & EW). subst W.
      apply (IH s o2 o3 (W1 ++ W2)); auto.
      apply (Permutation_cons_inv (a := v)).
      eapply Permutation_trans; [exact Hp|]. perm_solve.
Qed.

Lemma dom_perm A B B' : Permutation B B' -> Dom A B -> Dom A B'.
Proof. intros P (G & H1 & H2). exists G. split; [exact H1|]. eapply Permutation_trans; eassumption. Qed.

Lemma dom_one f2 rest o2 : Forall (fun v => 0 <= v) rest -> o2 <= f2 -> Dom (f2 :: rest) [o2].
Proof.
  intros Hnn H2. destruct (dom_nil rest Hnn) as (G0 & HF & HP). exists ([o2] :: G0). split.
  - constructor; [|exact HF]. rewrite pk_zsum_cons, pk_zsum_nil. lia.
  - cbn [concat app]. apply perm_skip. exact HP.
Qed.

Lemma dom_two f2 f3 rest o2 o3 : Forall (fun v => 0 <= v) rest -> o2 <= f2 -> o3 <= f3 ->
  Dom (f2 :: f3 :: rest) [o2; o3].
Proof.
  intros Hnn H2 H3. destruct (dom_nil rest Hnn) as (G0 & HF & HP). exists ([o2] :: [o3] :: G0). split.
  - constructor; [rewrite pk_zsum_cons, pk_zsum_nil; lia|].
    constructor; [rewrite pk_zsum_cons, pk_zsum_nil; lia|exact HF].
  - cbn [concat app]. apply perm_skip, perm_skip. exact HP.
Qed.

(** the rest of first-fit's first bin dominates the rest of any bin of capacity T holding a *)
Lemma first_bin_dom T C a L0 B R' : 0 <= T -> T <= 4 * (C - T) ->
  desc (a :: L0) -> Forall (fun v => C - T < v) (a :: L0) ->
  Permutation L0 (B ++ R') -> a + zsum B <= T -> Dom (fst (fill C a L0)) B.
Proof.
  intros HT0 Hd Hs Hbig HPB HsumB.
  inversion Hs as [|a' L' Hs0 Ha]; subst.
  apply Forall_cons_iff in Hbig. destruct Hbig as [Hab Hbig0].
  assert (HbigB : Forall (fun v => C - T < v) B).
  { apply (Permutation_Forall HPB) in Hbig0. apply Forall_app in Hbig0. destruct Hbig0 as [H _]. exact H. }
  assert (Hnn : forall l, Forall (fun v => C - T < v) l -> Forall (fun v => 0 <= v) l).
  { intros l Hl. eapply Forall_impl; [|exact Hl]. intros v Hv. cbv beta in Hv. lia. }
  destruct (fill_Forall (fun v => C - T < v) C L0 a Hbig0) as [Htk _].
  destruct B as [|o2 [|o3 [|o4 B']]].
  - apply dom_nil. apply Hnn. exact Htk.
  - rewrite pk_zsum_cons, pk_zsum_nil in HsumB.
    apply Forall_cons_iff in HbigB. destruct HbigB as [Ho2 _].
    assert (Hin : In o2 L0) by (eapply Permutation_in; [symmetry; exact HPB|left; reflexivity]).
    destruct (fill_dom1 C L0 a o2 Hs0 Hin ltac:(lia)) as (f & rest & E & Hf).
    rewrite E in *. apply Forall_cons_iff in Htk. destruct Htk as [_ Htk].
    apply dom_one; [apply Hnn; exact Htk|exact Hf].
  - rewrite !pk_zsum_cons, pk_zsum_nil in HsumB.
    apply Forall_cons_iff in HbigB. destruct HbigB as [Ho2 HbigB].
    apply Forall_cons_iff in HbigB. destruct HbigB as [Ho3 _].
    cbn [app] in HPB.
    destruct (Z_le_gt_dec o3 o2) as [Hle|Hgt].
    + destruct (fill_dom2 C a L0 a o2 o3 R' Hs0 Ha HPB Hle ltac:(lia) ltac:(lia))
        as (f2 & f3 & rest & E & H2 & H3).
      rewrite E in *. apply Forall_cons_iff in Htk. destruct Htk as [_ Htk].
      apply Forall_cons_iff in Htk. destruct Htk as [_ Htk].
      apply dom_two; [apply Hnn; exact Htk|exact H2|exact H3].
    + assert (HPB' : Permutation L0 (o3 :: o2 :: R')).
      { eapply Permutation_trans; [exact HPB|apply perm_swap]. }
      destruct (fill_dom2 C a L0 a o3 o2 R' Hs0 Ha HPB' ltac:(lia) ltac:(lia) ltac:(lia))
        as (f2 & f3 & rest & E & H2 & H3).
      rewrite E in *. apply Forall_cons_iff in Htk. destruct Htk as [_ Htk].
      apply Forall_cons_iff in Htk. destruct Htk as [_ Htk].
      apply (dom_perm _ [o3; o2]); [apply perm_swap|].
      apply dom_two; [apply Hnn; exact Htk|exact H2|exact H3].
  - exfalso. rewrite !pk_zsum_cons in HsumB.
    apply Forall_cons_iff in HbigB. destruct HbigB as [Ho2 HbigB].
    apply Forall_cons_iff in HbigB. destruct HbigB as [Ho3 HbigB].
    apply Forall_cons_iff in HbigB. destruct HbigB as [Ho4 HbigB].
    pose proof (zsum_nonneg B' (Hnn _ HbigB)). lia.
Qed.

Lemma ffd_peel_54 T C : 0 <= T -> T <= 4 * (C - T) -> forall k L b,
  desc L -> Forall (fun v => C - T < v) L -> GPack T L k ->
  ff_loop idZ true C L [] = Ok b -> (length b <= k)%nat.
Proof.
  intros HT0 Hd. induction k as [|k IH]; intros L b Hs Hbig HG H.
  - destruct HG as (G & HL & HP & _). destruct G as [|g G]; [|discriminate HL].
    cbn [concat] in HP. apply Permutation_nil in HP. subst L. cbn [ff_loop] in H.
    injection H as H. subst b. cbn [length]. lia.
  - destruct L as [|a L0].
    + cbn [ff_loop] in H. injection H as H. subst b. cbn [length]. lia.
    + cbn [ff_loop] in H. destruct (a >? C) eqn:Ea; [discriminate H|]. cbn [ff_place] in H.
      destruct (ff_peel C L0 _ [] b H) as (t' & H1 & H2).
      unfold add_to_bin, empty_bin in H1. cbn [fst] in H1. rewrite Z.add_0_l in H1.
      destruct (gpack_head T a L0 (S k) HG) as (B & R' & m & Em & HPB & HsumB & HGR).
      injection Em as Em. subst m.
      pose proof (first_bin_dom T C a L0 B R' HT0 Hd Hs Hbig HPB HsumB) as HD.
      inversion Hs as [|a' L' Hs0 Ha]; subst.
      apply Forall_cons_iff in Hbig. destruct Hbig as [Hab Hbig0].
      destruct (fill_Forall (fun v => C - T < v) C L0 a Hbig0) as [_ Hlf].
      assert (HGl : GPack T (snd (fill C a L0)) k).
      { apply (dom_exchange T k (fst (fill C a L0)) B (snd (fill C a L0)) R'); [| |exact HD|exact HGR].
        - apply (Permutation_Forall HPB) in Hbig0. apply Forall_app in Hbig0. destruct Hbig0 as [HB _].
          eapply Forall_impl; [|exact HB]. intros v Hv. cbv beta in Hv. lia.
        - eapply Permutation_trans; [symmetry; apply fill_perm|exact HPB]. }
      pose proof (IH _ t' (fill_sorted C L0 a Hs0) Hlf HGl H1) as Hl. lia.
Qed.

Lemma ff_loop_app {A} (valueof : A -> Z) keep C : forall l1 l2 b0,
  ff_loop valueof keep C (l1 ++ l2) b0 = rbind (ff_loop valueof keep C l1 b0) (ff_loop valueof keep C l2).
Proof.
  induction l1 as [|x l1 IH]; intros l2 b0; cbn [app ff_loop]; [reflexivity|].
  destruct (valueof x >? C); [reflexivity|apply IH].
Qed.

Lemma ff_place_full {A} (valueof : A -> Z) C x (b : bins A) :
  Forall (fun c => C < fst c + valueof x) b -> length (ff_place valueof true C x b) = S (length b).
Proof.
  induction b as [|bn t IH]; intros H; cbn [ff_place]; [reflexivity|].
  apply Forall_cons_iff in H. destruct H as [H1 H2].
  destruct (fst bn + valueof x <=? C) eqn:E; [lia|]. cbn [length]. rewrite IH by exact H2. reflexivity.
Qed.

Lemma ff_loop_start C L : L <> [] -> ff_loop idZ true C L (new_bins 1) = ff_loop idZ true C L [].
Proof.
  intros Hne. destruct L as [|a L]; [congruence|]. cbn [ff_loop].
  destruct (a >? C) eqn:E; [reflexivity|]. unfold new_bins, empty_bin. cbn [repeat ff_place fst].
  destruct (0 + a <=? C) eqn:E2; [reflexivity|lia].
Qed.

Lemma sorted_app_l {T} (R : T -> T -> Prop) l1 l2 : StronglySorted R (l1 ++ l2) -> StronglySorted R l1.
Proof.
  induction l1 as [|a l1 IH]; cbn [app]; intros H; [constructor|].
  inversion H as [|a' l' Hs Ha]; subst. constructor; [apply IH; exact Hs|].
  apply Forall_app in Ha. destruct Ha as [Ha _]. exact Ha.
Qed.

Lemma ffd_fits_54 k T C vs b : (1 <= k)%nat -> Forall (fun v => 0 <= v) vs -> Packable T vs k ->
  5 * T <= 4 * C -> first_fit idZ true C (sort_desc idZ vs) = Ok b -> (length b <= k)%nat.
Proof.
  intros Hk Hnn Hpack HC H.
  destruct (le_lt_dec (length b) k) as [Hle|Hgt]; [exact Hle|exfalso].
  destruct (packable_bounds T vs k Hk Hnn Hpack) as [HT0 _].
  destruct (ffd_overflow C k vs b Hk Hnn H Hgt)
    as (l1 & x & l2 & b1 & Hp & Hge & Hx & Hlen & Hw & Hpc & Hna & Hfull & E1 & E2).
  pose proof (overflow_big C T k vs l1 x l2 b1 Hk Hnn Hpack Hp ltac:(lia) Hlen Hw Hpc Hfull) as Hbig.
  assert (HL : ff_loop idZ true C (l1 ++ [x]) [] = Ok (ff_place idZ true C x b1)).
  { rewrite <- ff_loop_start by (destruct l1; discriminate).
    rewrite ff_loop_app, E2. cbn [rbind ff_loop]. destruct (x >? C) eqn:E; [lia|reflexivity]. }
  assert (Hs : desc (l1 ++ [x])).
  { pose proof (sort_desc_sorted idZ vs) as Hs. rewrite E1 in Hs.
    change (x :: l2) with ([x] ++ l2) in Hs. rewrite app_assoc in Hs.
    apply sorted_app_l in Hs. exact Hs. }
  assert (Hall : Forall (fun v => C - T < v) (l1 ++ [x])).
  { apply Forall_app. split; [|constructor; [exact Hbig|constructor]].
    eapply Forall_impl; [|exact Hge]. intros v Hv. cbv beta in Hv. lia. }
  assert (HG : GPack T (l1 ++ [x]) k).
  { assert (Hnn2 : Forall (fun v => 0 <= v) l2).
    { apply (Permutation_Forall Hp) in Hnn. apply Forall_app in Hnn. destruct Hnn as [_ Hnn].
      apply Forall_cons_iff in Hnn. destruct Hnn as [_ Hnn]. exact Hnn. }
    apply (gpack_remove_all T l2 Hnn2). apply (gpack_perm T vs); [|apply packable_gpack; exact Hpack].
    eapply Permutation_trans; [exact Hp|]. perm_solve. }
  pose proof (ffd_peel_54 T C HT0 ltac:(lia) k _ _ Hs Hall HG HL) as Hl.
  rewrite (ff_place_full idZ C x b1 Hfull), Hlen in Hl. lia.
Qed.

(** (L_5/4) *)
Theorem ffd_capacity_54 k T c vs : (1 <= k)%nat -> Forall (fun v => 0 <= v) vs -> Packable T vs k ->
  5 * T <= 4 * c ->
  exists b, first_fit idZ false c (sort_desc idZ vs) = Ok b /\ (length b <= k)%nat.
Proof.
  intros Hk Hnn Hpack HC.
  destruct (packable_bounds T vs k Hk Hnn Hpack) as [HT0 Hle].
  destruct (ff_run c (sort_desc idZ vs)) as (b & Hb & Hb').
  - eapply Permutation_Forall; [symmetry; apply sort_desc_perm|].
    eapply Forall_impl; [|exact Hle]. intros v Hv. cbv beta in Hv. lia.
  - exists (erase b). split; [exact Hb'|]. rewrite erase_length.
    apply (ffd_fits_54 k T c vs b); assumption.
Qed.

(** ---- 11. the rung r = 5/4 ---- *)
Section Rung54.
  Context {A : Type} (valueof : A -> Z).
  Variables (it k : nat) (items : list A) (b : bins A) (opt : Z).
  Hypothesis Hne : items <> [].
  Hypothesis Hnn : Forall (fun x => 0 <= valueof x) items.
  Hypothesis Hk : (1 <= k)%nat.
  Hypothesis Hrun : multifit valueof true it k items = Ok b.
  Hypothesis Hopt : Opt MinLargest k (map valueof items) opt.

  (** exact form: largest <= (5 opt + 3)/4 + opt / 2^it + opt / 2^51 *)
  Theorem multifit_ratio_54_exact : zsum (map valueof items) <= 2 ^ 53 ->
    2 ^ 51 * 2 ^ Z.of_nat it * (4 * zmax (sums b))
    <= 2 ^ 51 * 2 ^ Z.of_nat it * (5 * opt + 3) + 4 * (2 ^ 51 + 2 ^ Z.of_nat it) * opt.
  Proof.
    intros HS.
    pose proof (multifit_ratio_gen valueof 5 4 it k items b opt ltac:(lia)) as G.
    replace (5 * opt + 4 - 1) with (5 * opt + 3) in G by lia. apply G; auto.
    intros c Hc. apply (ffd_capacity_54 k opt c); auto.
    - apply vs_nonneg; exact Hnn.
    - apply opt_packable; exact Hopt.
  Qed.

  (** largest <= (5/4 + 2^-it) opt + 19/4 *)
  Theorem multifit_ratio_54 : zsum (map valueof items) <= 2 ^ 53 ->
    4 * 2 ^ Z.of_nat it * zmax (sums b) <= (5 * 2 ^ Z.of_nat it + 4) * opt + 19 * 2 ^ Z.of_nat it.
  Proof.
    intros HS. pose proof (multifit_ratio_54_exact HS) as H.
    pose proof (vs_nonneg valueof items Hnn) as Vnn.
    pose proof (opt_minlargest_nonneg k _ opt Hopt Vnn Hk) as O0.
    pose proof (opt_le_total k _ opt Hopt Vnn Hk) as O3.
    assert (HP : 0 < 2 ^ Z.of_nat it) by (apply pow2_pos; lia).
    pose proof (slack_arith (2 ^ 51) (2 ^ Z.of_nat it) 4 (zmax (sums b)) (5 * opt + 3) opt 4
                  ltac:(reflexivity) HP ltac:(lia) O0 ltac:(lia) H) as H1.
    lia.
  Qed.

  (** with a total of at most 2^51: largest <= (5/4 + 2^-it) opt + 7/4 *)
  Theorem multifit_ratio_54_small : zsum (map valueof items) <= 2 ^ 51 ->
    4 * 2 ^ Z.of_nat it * zmax (sums b) <= (5 * 2 ^ Z.of_nat it + 4) * opt + 7 * 2 ^ Z.of_nat it.
  Proof.
    intros HS. pose proof (multifit_ratio_54_exact ltac:(lia)) as H.
    pose proof (vs_nonneg valueof items Hnn) as Vnn.
    pose proof (opt_minlargest_nonneg k _ opt Hopt Vnn Hk) as O0.
    pose proof (opt_le_total k _ opt Hopt Vnn Hk) as O3.
    assert (HP : 0 < 2 ^ Z.of_nat it) by (apply pow2_pos; lia).
    pose proof (slack_arith (2 ^ 51) (2 ^ Z.of_nat it) 4 (zmax (sums b)) (5 * opt + 3) opt 1
                  ltac:(reflexivity) HP ltac:(lia) O0 ltac:(lia) H) as H1.
    lia.
  Qed.
End Rung54.

(** ---- 12. examples ---- *)
(** the docstring instance of multifit.py: k = 4, OPT = 17 (total 68), capacity 22 >= 5/4 * 17 *)
Example ffd_capacity_54_ex :
  rmap (@length (bin Z)) (first_fit idZ false 22 (sort_desc idZ example4)) = Ok 4%nat.
Proof. vm_compute. reflexivity. Qed.

(** a ratio above 1 is needed: k = 2, T = 28 = 12 + 8 + 8, and capacity 31 (ratio 1.107)
    makes first-fit-decreasing open a third bin ({12, 12}, {8, 8, 8}, {8}) *)
Example ffd_capacity_needs_ratio :
  loads 2 [12; 12; 8; 8; 8; 8] [0; 1; 0; 0; 1; 1]%nat = [28; 28] /\
  rmap (@length (bin Z)) (first_fit idZ false 31 (sort_desc idZ [12; 12; 8; 8; 8; 8])) = Ok 3%nat.
Proof. vm_compute. split; reflexivity. Qed.

(* OPEN: r = 61/50 (Coffman-Garey-Johnson) and everything below 5/4.
     Theorem ffd_capacity_6150 k T c vs : (1 <= k)%nat -> Forall (fun v => 0 <= v) vs ->
       Packable T vs k -> 61 * T <= 50 * c ->
       exists b, first_fit idZ false c (sort_desc idZ vs) = Ok b /\ (length b <= k)%nat.
   Given that lemma, [multifit_ratio_gen valueof 61 50] yields at once
       L <= (61 OPT + 49)/50 + OPT/2^it + OPT/2^51.
   Where the proof stops: with d = c - T < T/4 a bin of capacity T can hold four of the values
   above d, and even for three-value bins {a, o2, o3} the step "a + f2 + o3 <= c" of
   [first_bin_dom] fails (T = 400, c = 492 = 1.23 T, a = 200, f2 = 199, o2 = 106, o3 = 94:
   first-fit's first bin is {200, 199}, which does not dominate {106, 94}).  Peeling a bin is
   still sound for ANY first-fit bin that dominates some bin of the packing, so a minimal
   counterexample has no such pair, every bin of its packing holds 3 or 4 values, and every
   value is in (d, T - 2 d); from there the published proofs (CGJ 1978 for 1.22, Friesen 1984
   for 1.2, Yue 1990 for 13/11) use long instance-dependent weighting arguments.  A weight
   that is a fixed function of the size cannot work below 4/3 in general, which is why the
   4/3 argument does not extend either. *)

Print Assumptions ffd_capacity_32.
Print Assumptions ffd_capacity_43.
Print Assumptions ffd_capacity_54.
Print Assumptions multifit_ratio_gen.
Print Assumptions multifit_ratio_32.
Print Assumptions multifit_ratio_43_exact.
Print Assumptions multifit_ratio_43.
Print Assumptions multifit_ratio_43_small.
Print Assumptions multifit_ratio_54_exact.
Print Assumptions multifit_ratio_54.
Print Assumptions multifit_ratio_54_small.
