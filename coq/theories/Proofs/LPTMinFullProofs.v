(** C08, max-min side, continued: the classical guarantee for the smallest sum produced by greedy (LPT),
        3 * OPTmin <= 4 * LPTmin     for every number of bins
    (Deuermeyer, Friesen, Langston 1982).  [Proofs/LPTMinProofs.v] has k * OPTmin <= (2k-1) * LPTmin.

    Method: weighting arguments whose weights depend on the run.  Let T be the value of the
    assignment greedy is compared with, L the smallest load of greedy, and assume 4 L < 3 T.
    A step is "overfull" when an item lands on a bin at least as large as itself and lifts it above T.
    - No overfull step: values capped at T ([k1_run]); every bin weighs at most T, the smallest at most L.
    - Otherwise let the last overfull step put a on a bin of load x.  If every earlier step onto a
      non-empty bin closes that bin (load above L), the two-level staircase [W] with parameter x is
      used ([k2_run]): all bins weigh at most 2 (T - x), the smallest one less.
    - Otherwise let p be the load of the bin that received the last such non-closing item.  The
      three-level staircase [W3] with u = max (x/2) p is used ([k3_run]): all bins weigh at most
      3 (T - 2u) (in doubled units 6 (T - u2)), the smallest one less.
    On the other side every set of values reaching T weighs at least the same bound
    ([VP_total], [VP3_total]; the staircases are subadditive). *)
From Prtpy Require Import Base.Prelude Model.Binner Model.Greedy Model.Objectives Spec.Partition
  Oracle.Reach Proofs.BaseLemmas Proofs.BinnerLemmas Proofs.GreedyProofs Proofs.RatioProofs Proofs.OracleSpec
  Proofs.LPTMinProofs.
From Coq Require Import Sorting.Sorted Arith ZifyBool.

(** ================= A. the two-level staircase ================= *)

(** Target T, parameter x with T/2 <= x <= T, h = T - x.  A value below h counts itself, a value
    in [h, x] counts h, a value above x counts h + (a - x), at most 2 h.  Every set of values
    reaching T weighs at least 2 h ([VP_run]). *)
Definition W (T x a : Z) : Z :=
  if a <=? x then Z.min a (T - x) else Z.min (2 * (T - x)) (a - x + (T - x)).

Lemma W_le T x a : T <= 2 * x -> x <= T -> 0 <= a -> 0 <= W T x a <= a.
Proof. intros H H2 Ha. unfold W. destruct (a <=? x) eqn:E; lia. Qed.

(** per-bin invariant of an arbitrary assignment *)
Definition VP (T x l wl : Z) : Prop :=
  0 <= l /\ (2 * (T - x) <= wl \/ (T - x <= wl /\ l - x + (T - x) <= wl) \/ l <= wl).

Lemma VP_step T x a l wl : T <= 2 * x -> x <= T -> 0 <= a ->
  VP T x l wl -> VP T x (l + a) (wl + W T x a).
Proof.
  intros H1 H2 Ha (Hl & Hc). unfold VP, W. destruct (a <=? x) eqn:E; lia.
Qed.

Lemma VP_run T x k vs s : T <= 2 * x -> x <= T -> Forall (fun v => 0 <= v) vs -> Attainable k vs s ->
  exists t, Forall2 (VP T x) s t /\ length t = k /\ zsum t = zsum (map (W T x) vs).
Proof.
  intros H1 H2 Hpos Hs. apply (weights_along (VP T x) (W T x) k vs s); [unfold VP; lia| |exact Hs].
  eapply Forall_impl; [|exact Hpos]. intros a Ha l wl Hv. cbv beta in Ha. apply VP_step; assumption.
Qed.

(** every bin of an assignment whose loads all reach T weighs at least 2 h *)
Lemma VP_total T x k vs s : T <= 2 * x -> x <= T -> Forall (fun v => 0 <= v) vs -> Attainable k vs s ->
  Forall (fun a => T <= a) s -> Z.of_nat k * (2 * (T - x)) <= zsum (map (W T x) vs).
Proof.
  intros H1 H2 Hpos Hs HT. destruct (VP_run T x k vs s H1 H2 Hpos Hs) as (t & Ht & Hlen & Hsum).
  rewrite <- Hsum, <- Hlen. apply zsum_ge_bound.
  clear Hlen Hsum Hs. induction Ht as [|a b s t Hab Hst IH]; constructor.
  - inversion HT as [|a' s' Ha Hs']; subst. unfold VP in Hab. lia.
  - apply IH. inversion HT; assumption.
Qed.

(** ================= B. the three-level staircase (doubled units) ================= *)

(** three-level staircase in doubled units, h the step height, dd twice the shift of the ramps *)
Definition S3 (h dd v : Z) : Z :=
  Z.min (2 * v) (Z.min (Z.max (2 * h) (2 * v - dd)) (Z.min (Z.max (4 * h) (2 * v - 2 * dd)) (6 * h))).

Lemma S3_cases h dd v :
  S3 h dd v = 2 * v \/ S3 h dd v = Z.max (2 * h) (2 * v - dd) \/
  S3 h dd v = Z.max (4 * h) (2 * v - 2 * dd) \/ S3 h dd v = 6 * h.
Proof. unfold S3. lia. Qed.

Lemma S3_caps h dd v :
  S3 h dd v <= 2 * v /\ S3 h dd v <= Z.max (2 * h) (2 * v - dd) /\
  S3 h dd v <= Z.max (4 * h) (2 * v - 2 * dd) /\ S3 h dd v <= 6 * h.
Proof. unfold S3. lia. Qed.

(** the staircase is subadditive *)
Lemma S3_sub h dd p q : 0 <= h -> 0 <= dd -> 0 <= p -> 0 <= q ->
  S3 h dd (p + q) <= S3 h dd p + S3 h dd q.
Proof.
  intros Hh Hd Hp Hq.
  destruct (S3_caps h dd (p + q)) as (C1 & C2 & C3 & C4).
  generalize dependent (S3 h dd (p + q)). intros z C1 C2 C3 C4.
  destruct (S3_cases h dd p) as [E|[E|[E|E]]]; rewrite E; clear E;
  destruct (S3_cases h dd q) as [E|[E|[E|E]]]; rewrite E; clear E; lia.
Qed.

Definition W3 (T u2 v : Z) : Z := S3 (T - u2) (3 * u2 - 2 * T) v.

Lemma W3_bounds T u2 v : 2 * T <= 3 * u2 -> u2 <= T -> 0 <= v ->
  0 <= W3 T u2 v <= 2 * v /\ W3 T u2 v <= 6 * (T - u2) /\
  (2 * v <= u2 -> W3 T u2 v <= 2 * (T - u2)) /\
  (v <= u2 -> W3 T u2 v <= 4 * (T - u2)) /\
  (u2 <= v -> W3 T u2 v <= 2 * v - 2 * (3 * u2 - 2 * T)).
Proof. intros H1 H2 Hv. unfold W3, S3. lia. Qed.

Lemma W3_top T u2 v : 2 * T <= 3 * u2 -> u2 <= T -> T <= v -> W3 T u2 v = 6 * (T - u2).
Proof. intros H1 H2 Hv. unfold W3, S3. lia. Qed.

Definition VP3 (T u2 l wl : Z) : Prop := 0 <= l /\ W3 T u2 l <= wl.

Lemma VP3_total T u2 k vs s : 2 * T <= 3 * u2 -> u2 <= T -> Forall (fun v => 0 <= v) vs ->
  Attainable k vs s -> Forall (fun a => T <= a) s ->
  Z.of_nat k * (6 * (T - u2)) <= zsum (map (W3 T u2) vs).
Proof.
  intros H1 H2 Hpos Hs HT.
  destruct (weights_along (VP3 T u2) (W3 T u2) k vs s) as (t & Ht & Hlen & Hsum).
  - unfold VP3, W3, S3. lia.
  - eapply Forall_impl; [|exact Hpos]. intros a Ha l wl [Hl Hw]. cbv beta in Ha. split; [lia|].
    pose proof (S3_sub (T - u2) (3 * u2 - 2 * T) l a ltac:(lia) ltac:(lia) Hl Ha) as Hsub.
    unfold W3 in *. lia.
  - exact Hs.
  - rewrite <- Hsum, <- Hlen. apply zsum_ge_bound.
    clear Hlen Hsum Hs. induction Ht as [|a b s t Hab Hst IH]; constructor.
    + pose proof (Forall_inv HT) as Ha. cbv beta in Ha. destruct Hab as [Hl Hw].
      rewrite (W3_top T u2 a H1 H2 Ha) in Hw. exact Hw.
    + apply IH. exact (Forall_inv_tail HT).
Qed.

(** ================= C. generic facts about the greedy loop ================= *)

Lemma vgreedy_cons a l g : vgreedy (a :: l) g = vgreedy l (vstep g a).
Proof. reflexivity. Qed.

Lemma vgreedy_app l1 l2 g : vgreedy (l1 ++ l2) g = vgreedy l2 (vgreedy l1 g).
Proof. unfold vgreedy. apply fold_left_app. Qed.

Lemma vgreedy_zmin_ge l : forall g, (1 <= length g)%nat -> Forall (fun v => 0 <= v) l ->
  zmin g <= zmin (vgreedy l g).
Proof.
  induction l as [|a l IH]; intros g Hg Hpos; [cbn; lia|].
  inversion Hpos as [|a' l' Ha Hl]; subst. rewrite vgreedy_cons.
  pose proof (vstep_zmin_ge g a Hg Ha) as H1.
  specialize (IH (vstep g a) ltac:(rewrite vstep_length; exact Hg) Hl). lia.
Qed.

Lemma init_zmin_nonneg k l : (1 <= k)%nat -> Forall (fun v => 0 <= v) l -> 0 <= zmin (vgreedy l (repeat 0 k)).
Proof.
  intros Hk Hpos.
  pose proof (vgreedy_zmin_ge l (repeat 0 k) ltac:(rewrite repeat_length; exact Hk) Hpos) as H.
  rewrite zmin_repeat0 in H. exact H.
Qed.

(** one step of the loop on loads paired with weights: the touched bin is the smallest one *)
Lemma step_F2 (P Q : Z -> Z -> Prop) g t a w : (1 <= length g)%nat -> Forall2 P g t ->
  (forall l wl, P l wl -> Q l wl) ->
  (forall wl, P (zmin g) wl -> Q (zmin g + a) (wl + w)) ->
  Forall2 Q (vstep g a) (update (argmin g) (fun b => b + w) t) /\
  zsum (update (argmin g) (fun b => b + w) t) = zsum t + w.
Proof.
  intros Hlen H Hw Ht. pose proof (argmin_lt g Hlen) as Hi. split.
  - unfold vstep. apply (Forall2_update_at _ _ _ 0 0).
    + eapply Forall2_impl; [|exact H]. exact Hw.
    + exact Hi.
    + pose proof (Forall2_nth _ 0 0 g t H (argmin g) Hi) as Hb.
      rewrite argmin_is_zmin in * by exact Hlen. apply Ht. exact Hb.
  - rewrite zsum_update; [lia|]. rewrite <- (Forall2_length_eq _ _ _ H). exact Hi.
Qed.

Lemma Forall2_impl_l {U V} (R : U -> Prop) (P Q : U -> V -> Prop) :
  (forall a b, R a -> P a b -> Q a b) -> forall s t, Forall R s -> Forall2 P s t -> Forall2 Q s t.
Proof.
  intros H s t HR H2. induction H2 as [|a b s t Hab Hst IH]; constructor.
  - apply H; [exact (Forall_inv HR)|exact Hab].
  - apply IH. exact (Forall_inv_tail HR).
Qed.

Lemma Forall2_ge_min C s t : Forall (fun a => C <= a) s -> Forall2 (SP C) s t -> Forall (fun b => C <= b) t.
Proof.
  intros Hs H. induction H as [|a b s t Hab Hst IH]; constructor.
  - pose proof (Forall_inv Hs) as Ha. cbv beta in Ha. unfold SP in Hab. lia.
  - apply IH. exact (Forall_inv_tail Hs).
Qed.

Lemma sorted_desc_app_inv l1 a l2 : StronglySorted (fun a b : Z => b <= a) (l1 ++ a :: l2) ->
  StronglySorted (fun a b : Z => b <= a) l1 /\ Forall (fun b => a <= b) l1 /\
  StronglySorted (fun a b : Z => b <= a) l2 /\ Forall (fun b => b <= a) l2.
Proof.
  induction l1 as [|y l1 IH]; cbn [app]; intros H; inversion H as [|y' t' Ht Hy]; subst.
  - repeat split; try constructor; assumption.
  - destruct (IH Ht) as (I1 & I2 & I3 & I4). repeat split; try assumption.
    + constructor; [exact I1|]. apply Forall_app in Hy. tauto.
    + constructor; [|exact I2]. apply Forall_app in Hy. destruct Hy as [_ Hy].
      exact (Forall_inv Hy).
Qed.

(** no step of the run of l from g satisfies R / every step satisfies S *)
Fixpoint nstep (R : list Z -> Z -> Prop) (l : list Z) (g : list Z) : Prop :=
  match l with [] => True | a :: l' => ~ R g a /\ nstep R l' (vstep g a) end.

Fixpoint allstep (S : list Z -> Z -> Prop) (l : list Z) (g : list Z) : Prop :=
  match l with [] => True | a :: l' => S g a /\ allstep S l' (vstep g a) end.

Lemma last_step (R : list Z -> Z -> Prop) : (forall g a, R g a \/ ~ R g a) -> forall l g,
  nstep R l g \/
  exists l1 a l2, l = l1 ++ a :: l2 /\ R (vgreedy l1 g) a /\ nstep R l2 (vstep (vgreedy l1 g) a).
Proof.
  intros dec l. induction l as [|a l IH]; intros g; [left; exact I|].
  destruct (IH (vstep g a)) as [Hn|(l1 & b & l2 & El & Ho & Hn)].
  - destruct (dec g a) as [Ho|Ho].
    + right. exists [], a, l. split; [reflexivity|]. split; [exact Ho|exact Hn].
    + left. split; assumption.
  - right. exists (a :: l1), b, l2. subst l. split; [reflexivity|]. split; assumption.
Qed.

(** the usual shape of a side condition: bounds on the smallest load, a property of the item,
    and the step is not of kind R *)
Definition side (lo m : Z) (E : Z -> Prop) (R : list Z -> Z -> Prop) (g : list Z) (c : Z) : Prop :=
  lo <= zmin g <= m /\ E c /\ ~ R g c.

Lemma allstep_intro lo m (E : Z -> Prop) R : forall l g, (1 <= length g)%nat ->
  Forall (fun c => 0 <= c /\ E c) l -> nstep R l g -> zmin (vgreedy l g) <= m -> lo <= zmin g ->
  allstep (side lo m E R) l g.
Proof.
  induction l as [|a l IH]; intros g Hg Hl Hn Hm Hlo; [exact I|].
  pose proof (Forall_inv Hl) as [Ha HE]. pose proof (Forall_inv_tail Hl) as Hl'.
  destruct Hn as [Hna Hn]. rewrite vgreedy_cons in Hm.
  assert (Hg' : (1 <= length (vstep g a))%nat) by (rewrite vstep_length; exact Hg).
  pose proof (vstep_zmin_ge g a Hg Ha) as Hm1.
  assert (Hpos : Forall (fun v => 0 <= v) l).
  { eapply Forall_impl; [|exact Hl']. intros b Hb. cbv beta in Hb. tauto. }
  pose proof (vgreedy_zmin_ge l (vstep g a) Hg' Hpos) as Hm2.
  split.
  - unfold side. repeat split; try assumption; lia.
  - apply IH; try assumption. lia.
Qed.

(** a per-bin invariant [Inv y] (y bounds the later items from above) along a run *)
Lemma run_inv (Inv : Z -> Z -> Z -> Prop) (w : Z -> Z) (S : list Z -> Z -> Prop) :
  (forall y c l wl, c <= y -> Inv y l wl -> Inv c l wl) ->
  (forall g c y wl, S g c -> c <= y -> Inv y (zmin g) wl -> Inv c (zmin g + c) (wl + w c)) ->
  forall l g t y, (1 <= length g)%nat -> StronglySorted (fun a b : Z => b <= a) l ->
  Forall (fun c => c <= y) l -> allstep S l g -> Forall2 (Inv y) g t ->
  exists t' y', Forall2 (Inv y') (vgreedy l g) t' /\ zsum t' = zsum t + zsum (map w l) /\
                Forall (fun c => y' <= c) l /\ y' <= y.
Proof.
  intros Hweak Hstep l. induction l as [|a l IH]; intros g t y Hg Hsort Hy Hall Ht.
  - exists t, y. split; [exact Ht|]. split; [cbn; lia|]. split; [constructor|lia].
  - apply StronglySorted_inv in Hsort. destruct Hsort as [Hsl Hal].
    pose proof (Forall_inv Hy) as Hay. cbv beta in Hay. destruct Hall as [HS Hall].
    assert (Hg' : (1 <= length (vstep g a))%nat) by (rewrite vstep_length; exact Hg).
    destruct (step_F2 (Inv y) (Inv a) g t a (w a) Hg Ht) as [HF Hs].
    + intros l0 wl Hq. apply (Hweak y); assumption.
    + intros wl Hq. apply (Hstep g a y); assumption.
    + destruct (IH _ _ a Hg' Hsl Hal Hall HF) as (t' & y' & Ht' & Hsum & Hy' & Hle).
      exists t', y'. rewrite vgreedy_cons. split; [exact Ht'|]. split; [|split].
      * rewrite Hsum, Hs. cbn [map]. change (zsum (?b :: ?r)) with (b + zsum r). lia.
      * constructor; [lia|exact Hy'].
      * lia.
Qed.

(** the empty kind of step *)
Definition RF (g : list Z) (c : Z) : Prop := False.

Lemma nstep_RF l : forall g, nstep RF l g.
Proof. induction l as [|a l IH]; intros g; cbn; [exact I|]. split; [intros H; exact H|apply IH]. Qed.

Lemma allstep_app S l1 : forall l2 g, allstep S l1 g -> allstep S l2 (vgreedy l1 g) -> allstep S (l1 ++ l2) g.
Proof.
  induction l1 as [|a l1 IH]; intros l2 g H1 H2; [exact H2|].
  destruct H1 as [Ha H1]. cbn [app allstep]. split; [exact Ha|]. apply IH; assumption.
Qed.

Lemma allstep_impl (S S' : list Z -> Z -> Prop) : (forall g c, S g c -> S' g c) ->
  forall l g, allstep S l g -> allstep S' l g.
Proof.
  intros H l. induction l as [|a l IH]; intros g Hl; [exact I|].
  destruct Hl as [Ha Hl]. split; [apply H; exact Ha|apply IH; exact Hl].
Qed.

(** a step is overfull when the item lands on a bin at least as large as itself and lifts it above T *)
Definition over (T : Z) (g : list Z) (a : Z) : Prop := a <= zmin g /\ T < zmin g + a.

Lemma over_dec T g a : over T g a \/ ~ over T g a.
Proof. unfold over. lia. Qed.

(** a step is open when the item lands on a bin at least as large as itself and the bin can still
    receive items afterwards (load at most L) *)
Definition opn (L : Z) (g : list Z) (c : Z) : Prop := c <= zmin g /\ zmin g + c <= L.

Lemma opn_dec L g c : opn L g c \/ ~ opn L g c.
Proof. unfold opn. lia. Qed.

(** side condition after the last overfull step *)
Definition SC (T L a : Z) (g : list Z) (c : Z) : Prop :=
  zmin g <= L /\ 0 <= c <= a /\ zmin g + c <= T.

(** ================= D. no overfull step ================= *)

(** values capped at T: a bin weighs at most T and at most its load *)
Definition P0 (T y l wl : Z) : Prop := 0 <= wl /\ wl <= T /\ wl <= l /\ (l = 0 \/ y <= l).

Definition S0 (T : Z) (g : list Z) (c : Z) : Prop := 0 <= c /\ ~ over T g c.

Lemma k1_run T k l : (1 <= k)%nat -> 0 <= T ->
  StronglySorted (fun a b : Z => b <= a) l -> Forall (fun v => 0 <= v) l ->
  nstep (over T) l (repeat 0 k) ->
  exists t, Forall2 (fun l wl => wl <= T /\ wl <= l) (vgreedy l (repeat 0 k)) t /\
            zsum t = zsum (map (cap T) l).
Proof.
  intros Hk HT Hsort Hpos Hn.
  assert (Hall : allstep (S0 T) l (repeat 0 k)).
  { eapply allstep_impl; [|apply (allstep_intro 0 (zmin (vgreedy l (repeat 0 k))) (fun c => 0 <= c) (over T)); try assumption].
    - intros g c (H1 & H2 & H3). unfold S0. tauto.
    - rewrite repeat_length. exact Hk.
    - eapply Forall_impl; [|exact Hpos]. intros c Hc. cbv beta in Hc |- *. lia.
    - lia.
    - rewrite zmin_repeat0. lia. }
  destruct (run_inv (P0 T) (cap T) (S0 T)) with (l := l) (g := repeat 0 k)
    (t := repeat 0 k) (y := zsum l) as (t1 & y1 & Ht1 & Hsum1 & _ & _).
  - intros y c l0 wl Hc Hq. unfold P0 in *. lia.
  - intros g c y wl (H1 & H2) Hcy Hq. unfold over in H2. unfold P0, cap in *. lia.
  - rewrite repeat_length. exact Hk.
  - exact Hsort.
  - apply Forall_forall. intros c Hc. apply in_le_zsum; assumption.
  - exact Hall.
  - apply Forall2_repeat. unfold P0. lia.
  - exists t1. rewrite zsum_repeat0 in Hsum1. split; [|lia].
    eapply Forall2_impl; [|exact Ht1]. intros c d Hcd. unfold P0 in Hcd. cbv beta. lia.
Qed.

(** ================= E. every pairing before the last overfull step closes its bin ================= *)

(** x is the load hit by the last overfull step, L the final smallest load *)
Definition par2 (T x L : Z) : Prop := x <= L /\ T < 2 * x /\ L < T /\ 0 <= L.

(** before the last overfull step: every item exceeds h = T - x, so a bin is empty, holds one
    item, or holds two items and is closed (load above L) *)
Definition P1 (T x L y l wl : Z) : Prop :=
  0 <= wl <= 2 * (T - x) /\ (l = 0 \/ y <= l) /\
  ((l = 0 /\ wl = 0) \/ L < l \/ (T - x < l /\ wl <= T - x + Z.max 0 (l - x))).

(** from the last overfull step on: a bin that can still receive items weighs at most
    its load plus h - x *)
Definition P2 (T x L l wl : Z) : Prop :=
  wl <= 2 * (T - x) /\ (L < l \/ wl <= l + (T - x) - x).

Lemma P1c_step T x L y mu a wl : par2 T x L -> 0 <= mu <= x -> T - x < a <= y ->
  ~ (a <= mu /\ mu + a <= L) -> P1 T x L y mu wl -> P1 T x L a (mu + a) (wl + W T x a).
Proof.
  intros Hp Hmu Ha Hno (H1 & H2 & H3). unfold par2 in Hp. unfold P1, W. destruct (a <=? x) eqn:E; lia.
Qed.

Lemma P1c_weak T x L y c l wl : c <= y -> P1 T x L y l wl -> P1 T x L c l wl.
Proof. unfold P1. lia. Qed.

Lemma P1c_P2 T x L y l wl : par2 T x L -> x <= l -> P1 T x L y l wl -> P2 T x L l wl.
Proof. intros Hp Hl (H1 & H2 & H3). unfold par2 in Hp. unfold P2. lia. Qed.

Lemma P2c_step T x L mu a wl : par2 T x L -> mu <= L -> 0 <= a -> mu + a <= T ->
  P2 T x L mu wl -> P2 T x L (mu + a) (wl + W T x a).
Proof.
  intros Hp Hmu Ha Hle (H1 & H2). unfold par2 in Hp.
  pose proof (W_le T x a ltac:(lia) ltac:(lia) Ha) as Hw. unfold P2. lia.
Qed.

Lemma P2c_step_over T x L a wl : par2 T x L -> 0 <= a <= x -> T < x + a ->
  P2 T x L x wl -> P2 T x L (x + a) (wl + W T x a).
Proof. intros Hp Ha Hov (H1 & H2). unfold par2 in Hp. unfold P2, W. destruct (a <=? x) eqn:E; lia. Qed.

(** side condition before the last overfull step *)
Definition S1 (T L x : Z) (g : list Z) (c : Z) : Prop := 0 <= zmin g <= x /\ T - x < c /\ ~ opn L g c.

(** the whole run: l1 without open step, the last overfull step a, lC *)
Lemma k2_run T k l1 a lC : (1 <= k)%nat ->
  StronglySorted (fun a b : Z => b <= a) (l1 ++ a :: lC) -> Forall (fun v => 0 <= v) (l1 ++ a :: lC) ->
  let g1 := vgreedy l1 (repeat 0 k) in let x := zmin g1 in
  let fin := vgreedy lC (vstep g1 a) in let L := zmin fin in
  nstep (opn L) l1 (repeat 0 k) -> over T g1 a -> nstep (over T) lC (vstep g1 a) -> L < T ->
  par2 T x L /\
  exists t, Forall2 (P2 T x L) fin t /\ zsum t = zsum (map (W T x) (l1 ++ a :: lC)).
Proof.
  intros Hk Hsort Hpos g1 x fin L Hn1 Hov HnC HLT.
  destruct (sorted_desc_app_inv l1 a lC Hsort) as (Hs1 & Hge1 & HsC & HleC).
  apply Forall_app in Hpos. destruct Hpos as [Hpos1 HposaC].
  pose proof (Forall_inv HposaC) as Ha0. pose proof (Forall_inv_tail HposaC) as HposC. cbv beta in Ha0.
  assert (Hg1 : (1 <= length g1)%nat) by (unfold g1; rewrite vgreedy_length, repeat_length; exact Hk).
  assert (HgC0 : (1 <= length (vstep g1 a))%nat) by (rewrite vstep_length; exact Hg1).
  pose proof (init_zmin_nonneg k l1 Hk Hpos1) as Hx0. fold g1 in Hx0. fold x in Hx0.
  pose proof (vstep_zmin_ge g1 a Hg1 Ha0) as Hm3. fold x in Hm3.
  pose proof (vgreedy_zmin_ge lC (vstep g1 a) HgC0 HposC) as Hm4. fold fin in Hm4. fold L in Hm4.
  destruct Hov as [Hax Hxa]. fold x in Hax, Hxa.
  assert (Hp : par2 T x L) by (unfold par2; lia).
  split; [exact Hp|].
  assert (Hall1 : allstep (S1 T L x) l1 (repeat 0 k)).
  { eapply allstep_impl; [|apply (allstep_intro 0 x (fun c => T - x < c) (opn L)); try assumption].
    - intros g c (H1 & H2 & H3). unfold S1. tauto.
    - rewrite repeat_length. exact Hk.
    - eapply Forall_impl; [|exact Hge1]. intros c Hc. cbv beta in Hc |- *. lia.
    - fold g1. fold x. lia.
    - rewrite zmin_repeat0. lia. }
  destruct (run_inv (P1 T x L) (W T x) (S1 T L x)) with (l := l1) (g := repeat 0 k)
    (t := repeat 0 k) (y := zsum l1) as (t1 & y1 & Ht1 & Hsum1 & _ & _).
  - intros y c l wl. apply P1c_weak.
  - intros g c y wl (H1 & H2 & H3) Hcy Hq. unfold opn in H3. apply (P1c_step T x L y); try assumption; lia.
  - rewrite repeat_length. exact Hk.
  - exact Hs1.
  - apply Forall_forall. intros c Hc. apply in_le_zsum; assumption.
  - exact Hall1.
  - apply Forall2_repeat. unfold P1. unfold par2 in Hp. lia.
  - fold g1 in Ht1. rewrite zsum_repeat0 in Hsum1.
    assert (Ht1' : Forall2 (P2 T x L) g1 t1).
    { apply (Forall2_impl_l (fun c => x <= c) (P1 T x L y1)); [| |exact Ht1].
      - intros c d Hc Hq. eapply P1c_P2; eassumption.
      - apply zmin_le. }
    destruct (step_F2 (P2 T x L) (P2 T x L) g1 t1 a (W T x a) Hg1 Ht1') as [HF Hs].
    { intros l0 wl Hq. exact Hq. }
    { intros wl Hq. fold x. apply P2c_step_over; try assumption; lia. }
    assert (HallC : allstep (SC T L a) lC (vstep g1 a)).
    { eapply allstep_impl; [|apply (allstep_intro x L (fun c => 0 <= c <= a) (over T)); try assumption].
      - intros g c (H1 & H2 & H3). cbv beta in H2. unfold over in H3. unfold SC. lia.
      - eapply Forall_impl; [|exact (Forall_and HposC HleC)]. intros c Hc. cbv beta in Hc |- *. lia.
      - fold fin. fold L. lia. }
    destruct (run_inv (fun _ => P2 T x L) (W T x) (SC T L a)) with (l := lC) (g := vstep g1 a)
      (t := update (argmin g1) (fun b0 => b0 + W T x a) t1) (y := a) as (t' & y' & Ht' & Hsum & _ & _).
    + intros y c l wl _ Hq. exact Hq.
    + intros g c y wl (H1 & H2 & H3) Hcy Hq. apply P2c_step; try assumption; lia.
    + exact HgC0.
    + exact HsC.
    + exact HleC.
    + exact HallC.
    + exact HF.
    + exists t'. fold fin in Ht'. split; [exact Ht'|].
      rewrite Hsum, Hs, Hsum1, (map_app (W T x) l1), zsum_app. cbn [map].
      change (zsum (W T x a :: ?r)) with (W T x a + zsum r). lia.
Qed.

(** ================= F. some pairing before the last overfull step leaves its bin open ================= *)

(** x: load hit by the last overfull step (item a); p: load hit by the last open step before it;
    u2 = max x (2 p) is twice the parameter u of the staircase *)
Definition par3 (T L x p a u2 : Z) : Prop :=
  x <= L /\ 4 * L < 3 * T /\ 0 <= L /\ 0 < p <= x /\ a <= p /\ p + a <= L /\ T < x + a /\
  x <= u2 /\ 2 * p <= u2 /\ (u2 = x \/ u2 = 2 * p).

Lemma par3_facts T L x p a u2 : par3 T L x p a u2 ->
  2 * T <= 3 * u2 /\ u2 < T /\ 2 * (L - x) <= T - u2 /\ L < 3 * (T - x) /\ L < T.
Proof. unfold par3. lia. Qed.

(** before the last overfull step every item exceeds T - x > L/3: a bin is empty, closed, holds one
    item (weight W3 of its load) or two items not above p (weight 4 h, h = T - u2) *)
Definition Q3 (T L u2 y l wl : Z) : Prop :=
  0 <= wl <= 6 * (T - u2) /\ (l = 0 \/ y <= l) /\
  ((l = 0 /\ wl = 0) \/ L < l \/ wl <= W3 T u2 l \/ (2 * y <= l /\ wl <= 4 * (T - u2))).

Lemma Q3_weak T L u2 y c l wl : c <= y -> Q3 T L u2 y l wl -> Q3 T L u2 c l wl.
Proof. unfold Q3. lia. Qed.

Lemma Q3_step T L x p a u2 y mu c wl : par3 T L x p a u2 ->
  (mu <= p \/ (c <= p /\ ~ (c <= mu /\ mu + c <= L))) -> 0 <= mu <= x -> T - x < c <= y ->
  Q3 T L u2 y mu wl -> Q3 T L u2 c (mu + c) (wl + W3 T u2 c).
Proof.
  intros Hp Hmode Hmu Hc (H1 & H2 & H3). pose proof (par3_facts _ _ _ _ _ _ Hp) as Hf.
  unfold par3 in Hp.
  pose proof (W3_bounds T u2 c ltac:(lia) ltac:(lia) ltac:(lia)) as Hwc.
  pose proof (W3_bounds T u2 mu ltac:(lia) ltac:(lia) ltac:(lia)) as Hwm.
  destruct (Z.eq_dec mu 0) as [E0|E0].
  - subst mu. replace (0 + c) with c by lia. unfold Q3.
    assert (wl = 0) by lia. subst wl. lia.
  - unfold Q3. lia.
Qed.

(** from the last overfull step on: a bin is closed, or its weight is at most twice its load minus
    4 delta (it started from one item >= u2), or it weighed at most 4 h at load be >= x and has since
    received l - be in items, each at least y if any *)
Definition R3 (T L x u2 y l wl : Z) : Prop :=
  wl <= 6 * (T - u2) /\
  (L < l \/ wl <= 2 * l - 2 * (3 * u2 - 2 * T) \/
   exists be, x <= be <= l /\ wl <= 4 * (T - u2) + 2 * (l - be) /\ (l = be \/ y <= l - be)).

Lemma R3_weak T L x u2 y c l wl : c <= y -> R3 T L x u2 y l wl -> R3 T L x u2 c l wl.
Proof.
  intros Hc (H1 & [H2|[H2|(be & H2 & H3 & H4)]]); split; try assumption; [left|right;left|right;right]; try assumption.
  exists be. lia.
Qed.

Lemma Q3_R3 T L x p a u2 y y' l wl : par3 T L x p a u2 -> x <= l -> Q3 T L u2 y l wl -> R3 T L x u2 y' l wl.
Proof.
  intros Hp Hl (H1 & H2 & H3). pose proof (par3_facts _ _ _ _ _ _ Hp) as Hf. unfold par3 in Hp.
  pose proof (W3_bounds T u2 l ltac:(lia) ltac:(lia) ltac:(lia)) as Hw.
  split; [lia|].
  destruct (Z.le_gt_cases l L) as [HlL|HlL]; [|left; lia].
  destruct H3 as [H3|[H3|[H3|H3]]]; try lia.
  - destruct (Z.le_gt_cases u2 l) as [Hu|Hu]; [right; left; lia|].
    right; right. exists l. lia.
  - right; right. exists l. lia.
Qed.

Lemma R3_step T L x p a u2 y mu c wl : par3 T L x p a u2 ->
  mu <= L -> 0 <= c <= y -> c <= a -> mu + c <= T ->
  R3 T L x u2 y mu wl -> R3 T L x u2 c (mu + c) (wl + W3 T u2 c).
Proof.
  intros Hp Hmu Hc Hca Hle (H1 & H2). pose proof (par3_facts _ _ _ _ _ _ Hp) as Hf. unfold par3 in Hp.
  pose proof (W3_bounds T u2 c ltac:(lia) ltac:(lia) ltac:(lia)) as Hw.
  destruct H2 as [H2|[H2|(be & H2 & H3 & H4)]]; [lia| |].
  - split; [lia|]. right; left. lia.
  - split; [lia|]. right; right. exists be. lia.
Qed.

Lemma R3_step_over T L x p a u2 y wl : par3 T L x p a u2 -> 0 <= a ->
  R3 T L x u2 y x wl -> R3 T L x u2 a (x + a) (wl + W3 T u2 a).
Proof.
  intros Hp Ha (H1 & H2). pose proof (par3_facts _ _ _ _ _ _ Hp) as Hf. unfold par3 in Hp.
  pose proof (W3_bounds T u2 a ltac:(lia) ltac:(lia) ltac:(lia)) as Hw.
  split; [|left; lia].
  destruct H2 as [H2|[H2|(be & H2 & H3 & H4)]]; lia.
Qed.

Lemma R3_final T L x p a u2 y wl : par3 T L x p a u2 -> R3 T L x u2 y L wl -> wl < 6 * (T - u2).
Proof.
  intros Hp (H1 & H2). pose proof (par3_facts _ _ _ _ _ _ Hp) as Hf. unfold par3 in Hp.
  destruct H2 as [H2|[H2|(be & H2 & H3 & H4)]]; lia.
Qed.

(** side condition before the last overfull step: up to the last open step the smallest load is at
    most p, after it the items are at most p and no step is open *)
Definition SAB (T L x p : Z) (g : list Z) (c : Z) : Prop :=
  0 <= zmin g <= x /\ T - x < c /\ (zmin g <= p \/ (c <= p /\ ~ opn L g c)).

(** phases A and B: from the empty bins to the state before the last overfull step *)
Lemma k3_phaseAB T L k lA b lB a u2 : (1 <= k)%nat ->
  StronglySorted (fun a b : Z => b <= a) (lA ++ b :: lB) ->
  Forall (fun c => a <= c) (lA ++ b :: lB) ->
  let gA := vgreedy lA (repeat 0 k) in let p := zmin gA in
  let gB := vgreedy lB (vstep gA b) in let x := zmin gB in
  par3 T L x p a u2 -> opn L gA b -> nstep (opn L) lB (vstep gA b) ->
  exists t y, Forall2 (Q3 T L u2 y) gB t /\ zsum t = zsum (map (W3 T u2) (lA ++ b :: lB)).
Proof.
  intros Hk Hsort Hge gA p gB x Hp Hopn Hn.
  pose proof (par3_facts _ _ _ _ _ _ Hp) as Hf. pose proof Hp as Hp'. unfold par3 in Hp'.
  destruct (sorted_desc_app_inv lA b lB Hsort) as (HsA & HgeA & HsB & HleB).
  apply Forall_app in Hge. destruct Hge as [HaA HaB].
  pose proof (Forall_inv HaB) as Hab. pose proof (Forall_inv_tail HaB) as HaB'. cbv beta in Hab.
  destruct Hopn as [Hbp Hpb]. fold p in Hbp, Hpb.
  assert (HgA : (1 <= length gA)%nat) by (unfold gA; rewrite vgreedy_length, repeat_length; exact Hk).
  assert (HgB0 : (1 <= length (vstep gA b))%nat) by (rewrite vstep_length; exact HgA).
  assert (HposA : Forall (fun c => 0 <= c /\ T - x < c) lA).
  { eapply Forall_impl; [|exact HgeA]. intros c Hc. cbv beta in Hc. lia. }
  assert (HposB : Forall (fun c => 0 <= c /\ (T - x < c /\ c <= p)) lB).
  { eapply Forall_impl; [|exact (Forall_and HaB' HleB)]. intros c Hc. cbv beta in Hc. lia. }
  assert (HallA : allstep (side 0 p (fun c => T - x < c) RF) lA (repeat 0 k)).
  { apply allstep_intro; try assumption.
    - rewrite repeat_length. exact Hk.
    - apply nstep_RF.
    - fold gA. fold p. lia.
    - rewrite zmin_repeat0. lia. }
  assert (HallB : allstep (side 0 x (fun c => T - x < c /\ c <= p) (opn L)) lB (vstep gA b)).
  { apply allstep_intro; try assumption.
    - fold gB. fold x. lia.
    - pose proof (vstep_zmin_ge gA b HgA ltac:(lia)) as H. fold p in H. lia. }
  assert (Hall : allstep (SAB T L x p) (lA ++ b :: lB) (repeat 0 k)).
  { apply allstep_app.
    - eapply allstep_impl; [|exact HallA]. intros g c (H1 & H2 & H3). unfold SAB. lia.
    - fold gA. split.
      + unfold SAB. fold p. lia.
      + eapply allstep_impl; [|exact HallB]. intros g c (H1 & H2 & H3). unfold SAB. tauto. }
  assert (Hnn : Forall (fun v => 0 <= v) (lA ++ b :: lB)).
  { apply Forall_app. split.
    - eapply Forall_impl; [|exact HposA]. intros c Hc. cbv beta in Hc |- *. lia.
    - constructor; [lia|]. eapply Forall_impl; [|exact HposB]. intros c Hc. cbv beta in Hc |- *. lia. }
  destruct (run_inv (Q3 T L u2) (W3 T u2) (SAB T L x p)) with (l := lA ++ b :: lB) (g := repeat 0 k)
    (t := repeat 0 k) (y := zsum (lA ++ b :: lB)) as (t' & y' & Ht' & Hsum & _ & _).
  - intros y c l wl. apply Q3_weak.
  - intros g c y wl (H1 & H2 & H3) Hcy Hq. apply (Q3_step T L x p a u2 y); try assumption; try lia.
  - rewrite repeat_length. exact Hk.
  - exact Hsort.
  - apply Forall_forall. intros c Hc. apply in_le_zsum; assumption.
  - exact Hall.
  - apply Forall2_repeat. unfold Q3. lia.
  - exists t', y'. rewrite vgreedy_app, vgreedy_cons in Ht'. fold gA in Ht'. fold gB in Ht'.
    split; [exact Ht'|]. rewrite Hsum, zsum_repeat0. lia.
Qed.

(** the whole run: lA, the last open step b, lB, the last overfull step a, lC *)
Lemma k3_run T k lA b lB a lC : (1 <= k)%nat ->
  let l1 := lA ++ b :: lB in
  StronglySorted (fun a b : Z => b <= a) (l1 ++ a :: lC) -> Forall (fun v => 0 <= v) (l1 ++ a :: lC) ->
  let gA := vgreedy lA (repeat 0 k) in let p := zmin gA in
  let gB := vgreedy lB (vstep gA b) in let x := zmin gB in
  let fin := vgreedy lC (vstep gB a) in let L := zmin fin in
  let u2 := Z.max x (2 * p) in
  opn L gA b -> nstep (opn L) lB (vstep gA b) -> over T gB a -> nstep (over T) lC (vstep gB a) ->
  4 * L < 3 * T ->
  par3 T L x p a u2 /\
  exists t y, Forall2 (R3 T L x u2 y) fin t /\ zsum t = zsum (map (W3 T u2) (l1 ++ a :: lC)).
Proof.
  intros Hk l1 Hsort Hpos gA p gB x fin L u2 Hopn HnB Hov HnC HLT.
  destruct (sorted_desc_app_inv l1 a lC Hsort) as (Hs1 & Hge1 & HsC & HleC).
  apply Forall_app in Hpos. destruct Hpos as [Hpos1 HposaC].
  pose proof (Forall_inv HposaC) as Ha0. pose proof (Forall_inv_tail HposaC) as HposC. cbv beta in Ha0.
  assert (HposA : Forall (fun v => 0 <= v) lA) by (apply Forall_app in Hpos1; tauto).
  assert (HposbB : Forall (fun v => 0 <= v) (b :: lB)) by (apply Forall_app in Hpos1; tauto).
  pose proof (Forall_inv HposbB) as Hb0. pose proof (Forall_inv_tail HposbB) as HposB. cbv beta in Hb0.
  assert (HgA : (1 <= length gA)%nat) by (unfold gA; rewrite vgreedy_length, repeat_length; exact Hk).
  assert (HgB0 : (1 <= length (vstep gA b))%nat) by (rewrite vstep_length; exact HgA).
  assert (HgB : (1 <= length gB)%nat) by (unfold gB; rewrite vgreedy_length; exact HgB0).
  assert (HgC0 : (1 <= length (vstep gB a))%nat) by (rewrite vstep_length; exact HgB).
  pose proof (init_zmin_nonneg k lA Hk HposA) as Hp0. fold gA in Hp0. fold p in Hp0.
  pose proof (vstep_zmin_ge gA b HgA Hb0) as Hm1. fold p in Hm1.
  pose proof (vgreedy_zmin_ge lB (vstep gA b) HgB0 HposB) as Hm2. fold gB in Hm2. fold x in Hm2.
  pose proof (vstep_zmin_ge gB a HgB Ha0) as Hm3. fold x in Hm3.
  pose proof (vgreedy_zmin_ge lC (vstep gB a) HgC0 HposC) as Hm4. fold fin in Hm4. fold L in Hm4.
  destruct Hopn as [Hbp Hpb]. fold p in Hbp, Hpb. destruct Hov as [Hax Hxa]. fold x in Hax, Hxa.
  assert (Hab : a <= b).
  { apply Forall_app in Hge1. destruct Hge1 as [_ H]. exact (Forall_inv H). }
  assert (Hp : par3 T L x p a u2) by (unfold par3, u2; lia).
  split; [exact Hp|].
  destruct (k3_phaseAB T L k lA b lB a u2 Hk Hs1 Hge1 Hp) as (t1 & y1 & Ht1 & Hsum1).
  { split; assumption. } { exact HnB. }
  fold gB in Ht1.
  assert (Ht1' : Forall2 (R3 T L x u2 a) gB t1).
  { apply (Forall2_impl_l (fun c => x <= c) (Q3 T L u2 y1)); [| |exact Ht1].
    - intros c d Hc Hq. eapply Q3_R3; eassumption.
    - apply zmin_le. }
  destruct (step_F2 (R3 T L x u2 a) (R3 T L x u2 a) gB t1 a (W3 T u2 a) HgB Ht1') as [HF Hs].
  { intros l0 wl Hq. exact Hq. }
  { intros wl Hq. fold x. eapply R3_step_over; eassumption. }
  assert (HallC : allstep (SC T L a) lC (vstep gB a)).
  { eapply allstep_impl; [|apply (allstep_intro x L (fun c => 0 <= c <= a) (over T)); try assumption].
    - intros g c (H1 & H2 & H3). cbv beta in H2. unfold over in H3. unfold SC.
      lia.
    - eapply Forall_impl; [|exact (Forall_and HposC HleC)]. intros c Hc. cbv beta in Hc |- *. lia.
    - fold fin. fold L. lia. }
  destruct (run_inv (R3 T L x u2) (W3 T u2) (SC T L a)) with (l := lC) (g := vstep gB a)
    (t := update (argmin gB) (fun b0 => b0 + W3 T u2 a) t1) (y := a) as (t' & y' & Ht' & Hsum & _ & _).
  - intros y c l wl. apply R3_weak.
  - intros g c y wl (H1 & H2 & H3) Hcy Hq. apply (R3_step T L x p a u2 y); try assumption; lia.
  - exact HgC0.
  - exact HsC.
  - exact HleC.
  - exact HallC.
  - exact HF.
  - exists t', y'. fold fin in Ht'. split; [exact Ht'|].
    rewrite Hsum, Hs, Hsum1. unfold l1. rewrite (map_app (W3 T u2) (lA ++ b :: lB)), zsum_app. cbn [map].
    change (zsum (W3 T u2 a :: ?r)) with (W3 T u2 a + zsum r). lia.
Qed.

(** ================= G. 3 * OPTmin <= 4 * LPTmin ================= *)

Theorem lpt_min_34_values k : (1 <= k)%nat -> forall l s,
  StronglySorted (fun a b : Z => b <= a) l -> Forall (fun v => 0 <= v) l -> Attainable k l s ->
  3 * zmin s <= 4 * zmin (vgreedy l (repeat 0 k)).
Proof.
  intros Hk l s Hsort Hpos Hs.
  set (T := zmin s). set (g := vgreedy l (repeat 0 k)). set (L := zmin g).
  destruct (Z.le_gt_cases (3 * T) (4 * L)) as [Hle|Hgt]; [exact Hle|exfalso].
  assert (Hg : length g = k) by (unfold g; rewrite vgreedy_length; apply repeat_length).
  pose proof (init_zmin_nonneg k l Hk Hpos) as HL0. fold g in HL0. fold L in HL0.
  assert (HsT : Forall (fun a => T <= a) s) by apply zmin_le.
  assert (Hi : (argmin g < length g)%nat) by (apply argmin_lt; lia).
  set (K := Z.of_nat k). assert (HK : 1 <= K) by (unfold K; lia).
  destruct (last_step (over T) (over_dec T) l (repeat 0 k)) as [Hn|(l1 & a & lC & El & Hov & HnC)].
  - (* no overfull step *)
    destruct (k1_run T k l Hk ltac:(lia) Hsort Hpos Hn) as (t & Ht & Hsum). fold g in Ht.
    pose proof (Forall2_length_eq _ _ _ Ht) as Hlt.
    pose proof (Forall2_nth _ 0 0 g t Ht (argmin g) Hi) as Hb. cbv beta in Hb.
    rewrite argmin_is_zmin in Hb by lia. fold L in Hb.
    assert (HtT : Forall (fun b => b <= T) t).
    { apply (Forall2_Forall_r (fun l wl : Z => wl <= T /\ wl <= l) (fun b => b <= T)) with (s := g); [|exact Ht].
      intros c b Hcb. cbv beta in Hcb. lia. }
    pose proof (zsum_le_one_plus_rest L T t (argmin g) ltac:(lia) ltac:(lia) HtT) as Hup.
    rewrite <- Hlt, Hg in Hup. fold K in Hup.
    destruct (SP_run T k l s ltac:(lia) Hpos Hs) as (t' & Ht' & Hlen' & Hsum').
    pose proof (zsum_ge_bound _ _ (Forall2_ge_min T s t' HsT Ht')) as Hdown.
    rewrite Hlen' in Hdown. fold K in Hdown. lia.
  - subst l.
    assert (EL : L = zmin (vgreedy lC (vstep (vgreedy l1 (repeat 0 k)) a))).
    { unfold L, g. rewrite vgreedy_app, vgreedy_cons. reflexivity. }
    assert (Eg : g = vgreedy lC (vstep (vgreedy l1 (repeat 0 k)) a)).
    { unfold g. rewrite vgreedy_app, vgreedy_cons. reflexivity. }
    destruct (last_step (opn L) (opn_dec L) l1 (repeat 0 k)) as [Hn1|(lA & b & lB & El1 & Hopn & HnB)].
    + (* every pairing before the last overfull step closes its bin *)
      rewrite EL in Hn1.
      destruct (k2_run T k l1 a lC Hk Hsort Hpos Hn1 Hov HnC ltac:(rewrite <- EL; lia)) as (Hp & t & Ht & Hsum).
      rewrite <- EL in Hp, Ht. rewrite <- Eg in Ht.
      set (x := zmin (vgreedy l1 (repeat 0 k))) in *. unfold par2 in Hp.
      pose proof (Forall2_length_eq _ _ _ Ht) as Hlt.
      pose proof (Forall2_nth _ 0 0 g t Ht (argmin g) Hi) as Hb.
      rewrite argmin_is_zmin in Hb by lia. fold L in Hb. unfold P2 in Hb.
      assert (HtD : Forall (fun b => b <= 2 * (T - x)) t).
      { apply (Forall2_Forall_r (P2 T x L) (fun b => b <= 2 * (T - x))) with (s := g); [|exact Ht].
        intros c d Hcd. unfold P2 in Hcd. lia. }
      pose proof (zsum_le_one_plus_rest (L + (T - x) - x) (2 * (T - x)) t (argmin g) ltac:(lia) ltac:(lia) HtD) as Hup.
      rewrite <- Hlt, Hg in Hup. fold K in Hup.
      pose proof (VP_total T x k _ s ltac:(lia) ltac:(lia) Hpos Hs HsT) as Hdown. fold K in Hdown.
      rewrite Hsum in Hup. lia.
    + (* some pairing before it leaves its bin open *)
      subst l1.
      assert (EAB : vgreedy (lA ++ b :: lB) (repeat 0 k) = vgreedy lB (vstep (vgreedy lA (repeat 0 k)) b))
        by (rewrite vgreedy_app, vgreedy_cons; reflexivity).
      rewrite EAB in EL, Eg, HnC, Hov. rewrite EL in Hopn, HnB.
      destruct (k3_run T k lA b lB a lC Hk Hsort Hpos Hopn HnB Hov HnC ltac:(rewrite <- EL; lia)) as (Hp & t & y & Ht & Hsum).
      rewrite <- EL in Hp, Ht. rewrite <- Eg in Ht.
      set (x := zmin (vgreedy lB (vstep (vgreedy lA (repeat 0 k)) b))) in *.
      set (p := zmin (vgreedy lA (repeat 0 k))) in *.
      set (u2 := Z.max x (2 * p)) in *.
      pose proof (par3_facts _ _ _ _ _ _ Hp) as Hf.
      pose proof (Forall2_length_eq _ _ _ Ht) as Hlt.
      pose proof (Forall2_nth _ 0 0 g t Ht (argmin g) Hi) as Hb.
      rewrite argmin_is_zmin in Hb by lia. fold L in Hb.
      pose proof (R3_final _ _ _ _ _ _ _ _ Hp Hb) as Hb'.
      assert (HtD : Forall (fun b => b <= 6 * (T - u2)) t).
      { apply (Forall2_Forall_r (R3 T L x u2 y) (fun b => b <= 6 * (T - u2))) with (s := g); [|exact Ht].
        intros c d Hcd. unfold R3 in Hcd. lia. }
      pose proof (zsum_le_one_plus_rest (6 * (T - u2) - 1) (6 * (T - u2)) t (argmin g) ltac:(lia) ltac:(lia) HtD) as Hup.
      rewrite <- Hlt, Hg in Hup. fold K in Hup.
      pose proof (VP3_total T u2 k _ s ltac:(lia) ltac:(lia) Hpos Hs HsT) as Hdown. fold K in Hdown.
      rewrite Hsum in Hup. lia.
Qed.

(** the weaker constant 2/3 *)
Corollary lpt_min_23_values k : (1 <= k)%nat -> forall l s,
  StronglySorted (fun a b : Z => b <= a) l -> Forall (fun v => 0 <= v) l -> Attainable k l s ->
  2 * zmin s <= 3 * zmin (vgreedy l (repeat 0 k)).
Proof.
  intros Hk l s Hsort Hpos Hs. pose proof (lpt_min_34_values k Hk l s Hsort Hpos Hs) as H.
  pose proof (init_zmin_nonneg k l Hk Hpos) as H0. lia.
Qed.

(** ================= H. item level ================= *)

Section MinThreeQuarters.
  Context {A : Type} (valueof : A -> Z) (keep : bool).

  (** greedy against any way of distributing the values over k bins *)
  Theorem lpt_min_34_attainable k items s : (1 <= k)%nat ->
    Forall (fun x => 0 <= valueof x) items -> Attainable k (map valueof items) s ->
    3 * zmin s <= 4 * zmin (sums (greedy valueof keep k items)).
  Proof.
    intros Hk Hpos Hs. rewrite greedy_sums_vgreedy.
    apply lpt_min_34_values; [exact Hk|apply sorted_values_sorted|apply sorted_values_nonneg; exact Hpos|].
    apply (Attainable_perm_local k (map valueof items)); [|exact Hs].
    symmetry. apply sorted_values_perm.
  Qed.

  (** Deuermeyer, Friesen, Langston 1982: LPTmin >= 3/4 * OPTmin for every number of bins *)
  Theorem lpt_min_ratio_34 k items v : (1 <= k)%nat ->
    Forall (fun x => 0 <= valueof x) items -> Opt MaxSmallest k (map valueof items) v ->
    3 * (- v) <= 4 * zmin (sums (greedy valueof keep k items)).
  Proof.
    intros Hk Hpos [(s & Hs & Ev) _]. rewrite value_MaxSmallest in Ev. subst v.
    rewrite Z.opp_involutive. apply lpt_min_34_attainable; auto.
  Qed.

  Corollary lpt_min_ratio_23 k items v : (1 <= k)%nat ->
    Forall (fun x => 0 <= valueof x) items -> Opt MaxSmallest k (map valueof items) v ->
    2 * (- v) <= 3 * zmin (sums (greedy valueof keep k items)).
  Proof.
    intros Hk Hpos Hopt. pose proof (lpt_min_ratio_34 k items v Hk Hpos Hopt) as H.
    pose proof (init_zmin_nonneg k (sorted_values valueof items) Hk (sorted_values_nonneg valueof items Hpos)) as H0.
    rewrite <- (greedy_sums_vgreedy valueof keep) in H0. lia.
  Qed.
End MinThreeQuarters.

(* OPEN: the exact constant of Csirik, Kellerer, Woeginger 1992, [lpt_min_ratio_statement] of
   Proofs/LPTMinProofs.v:  (3k-1) * OPTmin <= (4k-2) * LPTmin.  It is proved there for k <= 2 and checked
   on small instances for k = 3, 4; for k -> infinity it tends to the bound 3/4 proved here.
   The argument above loses the difference because it only uses that the smallest bin of greedy weighs
   strictly less than the common bound of the other bins; the exact constant needs the amount by
   which it is lighter, traded against an excess of the other k - 1 bins. *)

(* ==== FOOTER ==== *)
Print Assumptions lpt_min_34_values.
Print Assumptions lpt_min_ratio_34.
Print Assumptions lpt_min_ratio_23.
