(** C08, max-min side, continued: a constant guarantee for the smallest sum produced by greedy (LPT)
    that does not degrade with the number of bins.  [Proofs/LPTMinProofs.v] proves
    k * OPTmin <= (2k-1) * LPTmin; here a weighting argument with a run-dependent parameter gives
    2 * OPTmin <= 3 * LPTmin for every k. *)
From Prtpy Require Import Base.Prelude Model.Binner Model.Greedy Model.Objectives Spec.Partition
  Oracle.Reach Proofs.BaseLemmas Proofs.BinnerLemmas Proofs.GreedyProofs Proofs.RatioProofs Proofs.OracleSpec
  Proofs.LPTMinProofs.
From Coq Require Import Sorting.Sorted Arith ZifyBool.

(** ================= A. the weights ================= *)

(** Target T, parameter x with T/2 <= x <= T, h = T - x.  A value below h counts itself, a value
    in [h, x] counts h, a value above x counts h + (a - x), at most 2 h.  Every set of values
    reaching T weighs at least 2 h ([VP_run]). *)
Definition W (T x a : Z) : Z :=
  if a <=? x then Z.min a (T - x) else Z.min (2 * (T - x)) (a - x + (T - x)).

Lemma W_le T x a : T <= 2 * x -> x <= T -> 0 <= a -> 0 <= W T x a <= a.
Proof. intros H H2 Ha. unfold W. destruct (a <=? x) eqn:E; lia. Qed.

(** per-bin invariant of an arbitrary assignment *)
Definition VP (T x l wl : Z) : Prop :=
  0 <= l /\ (2 * (T - x) <= wl \/ (T - x <= wl /\ l - x + (T - x) <= wl) \/ l <= wl).

Lemma VP_step T x a l wl : T <= 2 * x -> x <= T -> 0 <= a ->
  VP T x l wl -> VP T x (l + a) (wl + W T x a).
Proof.
  intros H1 H2 Ha (Hl & Hc). unfold VP, W. destruct (a <=? x) eqn:E; lia.
Qed.

Lemma VP_run T x k vs s : T <= 2 * x -> x <= T -> Forall (fun v => 0 <= v) vs -> Attainable k vs s ->
  exists t, Forall2 (VP T x) s t /\ length t = k /\ zsum t = zsum (map (W T x) vs).
Proof.
  intros H1 H2 Hpos Hs. apply (weights_along (VP T x) (W T x) k vs s); [unfold VP; lia| |exact Hs].
  eapply Forall_impl; [|exact Hpos]. intros a Ha l wl Hv. cbv beta in Ha. apply VP_step; assumption.
Qed.

(** every bin of an assignment whose loads all reach T weighs at least 2 h *)
Lemma VP_total T x k vs s : T <= 2 * x -> x <= T -> Forall (fun v => 0 <= v) vs -> Attainable k vs s ->
  Forall (fun a => T <= a) s -> Z.of_nat k * (2 * (T - x)) <= zsum (map (W T x) vs).
Proof.
  intros H1 H2 Hpos Hs HT. destruct (VP_run T x k vs s H1 H2 Hpos Hs) as (t & Ht & Hlen & Hsum).
  rewrite <- Hsum, <- Hlen. apply zsum_ge_bound.
  clear Hlen Hsum Hs. induction Ht as [|a b s t Hab Hst IH]; constructor.
  - inversion HT as [|a' s' Ha Hs']; subst. unfold VP in Hab. lia.
  - apply IH. inversion HT; assumption.
Qed.

(** ================= B. generic facts about the greedy loop ================= *)

Lemma vgreedy_cons a l g : vgreedy (a :: l) g = vgreedy l (vstep g a).
Proof. reflexivity. Qed.

Lemma vgreedy_zmin_ge l : forall g, (1 <= length g)%nat -> Forall (fun v => 0 <= v) l ->
  zmin g <= zmin (vgreedy l g).
Proof.
  induction l as [|a l IH]; intros g Hg Hpos; [cbn; lia|].
  inversion Hpos as [|a' l' Ha Hl]; subst. rewrite vgreedy_cons.
  pose proof (vstep_zmin_ge g a Hg Ha) as H1.
  specialize (IH (vstep g a) ltac:(rewrite vstep_length; exact Hg) Hl). lia.
Qed.

(** one step of the loop on loads paired with weights: the touched bin is the smallest one *)
Lemma step_F2 (P Q : Z -> Z -> Prop) g t a w : (1 <= length g)%nat -> Forall2 P g t ->
  (forall l wl, P l wl -> Q l wl) ->
  (forall wl, P (zmin g) wl -> Q (zmin g + a) (wl + w)) ->
  Forall2 Q (vstep g a) (update (argmin g) (fun b => b + w) t) /\
  zsum (update (argmin g) (fun b => b + w) t) = zsum t + w.
Proof.
  intros Hlen H Hw Ht. pose proof (argmin_lt g Hlen) as Hi. split.
  - unfold vstep. apply (Forall2_update_at _ _ _ 0 0).
    + eapply Forall2_impl; [|exact H]. exact Hw.
    + exact Hi.
    + pose proof (Forall2_nth _ 0 0 g t H (argmin g) Hi) as Hb.
      rewrite argmin_is_zmin in * by exact Hlen. apply Ht. exact Hb.
  - rewrite zsum_update; [lia|]. rewrite <- (Forall2_length_eq _ _ _ H). exact Hi.
Qed.

(** a step is overfull when the item lands on a bin at least as large as itself and lifts it above T *)
Definition over (T : Z) (g : list Z) (a : Z) : Prop := a <= zmin g /\ T < zmin g + a.

Fixpoint nover (T : Z) (l : list Z) (g : list Z) : Prop :=
  match l with
  | [] => True
  | a :: l' => ~ over T g a /\ nover T l' (vstep g a)
  end.

Lemma over_dec T g a : over T g a \/ ~ over T g a.
Proof. unfold over. lia. Qed.

(** either no step is overfull or there is a last one *)
Lemma last_over T l : forall g, nover T l g \/
  exists l1 a l2, l = l1 ++ a :: l2 /\ over T (vgreedy l1 g) a /\ nover T l2 (vstep (vgreedy l1 g) a).
Proof.
  induction l as [|a l IH]; intros g; [left; exact I|].
  destruct (IH (vstep g a)) as [Hn|(l1 & b & l2 & El & Ho & Hn)].
  - destruct (over_dec T g a) as [Ho|Ho].
    + right. exists [], a, l. split; [reflexivity|]. split; [exact Ho|exact Hn].
    + left. split; assumption.
  - right. exists (a :: l1), b, l2. subst l. split; [reflexivity|]. split; assumption.
Qed.

Lemma Forall2_impl_l {U V} (R : U -> Prop) (P Q : U -> V -> Prop) :
  (forall a b, R a -> P a b -> Q a b) -> forall s t, Forall R s -> Forall2 P s t -> Forall2 Q s t.
Proof.
  intros H s t HR H2. induction H2 as [|a b s t Hab Hst IH]; constructor.
  - apply H; [exact (Forall_inv HR)|exact Hab].
  - apply IH. exact (Forall_inv_tail HR).
Qed.

Lemma sorted_desc_app_inv l1 a l2 : StronglySorted (fun a b : Z => b <= a) (l1 ++ a :: l2) ->
  StronglySorted (fun a b : Z => b <= a) l1 /\ Forall (fun b => a <= b) l1 /\
  StronglySorted (fun a b : Z => b <= a) l2 /\ Forall (fun b => b <= a) l2.
Proof.
  induction l1 as [|y l1 IH]; cbn [app]; intros H; inversion H as [|y' t' Ht Hy]; subst.
  - repeat split; try constructor; assumption.
  - destruct (IH Ht) as (I1 & I2 & I3 & I4). repeat split; try assumption.
    + constructor; [exact I1|]. apply Forall_app in Hy. tauto.
    + constructor; [|exact I2]. apply Forall_app in Hy. destruct Hy as [_ Hy].
      exact (Forall_inv Hy).
Qed.

(** ================= C. the two phases of a run with an overfull step ================= *)

(** before the last overfull step: every item exceeds h = T - x, so a bin is empty, holds one
    item, or holds two items and is closed (load above L) *)
Definition P1 (T x L y l wl : Z) : Prop :=
  0 <= wl <= 2 * (T - x) /\ (l = 0 \/ y <= l) /\
  ((l = 0 /\ wl = 0) \/ L < l \/ (T - x < l /\ wl <= T - x + Z.max 0 (l - x))).

(** from the last overfull step on: a bin that can still receive items weighs at most
    its load plus h - x *)
Definition P2 (T x L l wl : Z) : Prop :=
  wl <= 2 * (T - x) /\ (L < l \/ wl <= l + (T - x) - x).

(** the standing assumptions: x is a smallest load during the run, L the final one, and
    L < 2/3 T *)
Definition params (T x L : Z) : Prop := x <= L /\ T < 2 * x /\ 3 * L < 2 * T /\ 0 <= L.

Lemma P1_step T x L y mu a wl : params T x L -> mu <= x -> T - x < a <= y ->
  P1 T x L y mu wl -> P1 T x L a (mu + a) (wl + W T x a).
Proof. intros Hp Hmu Ha (H1 & H2 & H3). unfold params in Hp. unfold P1, W. destruct (a <=? x) eqn:E; lia. Qed.

Lemma P1_P2 T x L y l wl : params T x L -> x <= l -> P1 T x L y l wl -> P2 T x L l wl.
Proof. intros Hp Hl (H1 & H2 & H3). unfold params in Hp. unfold P2. lia. Qed.

Lemma P2_step T x L mu a wl : params T x L -> mu <= L -> 0 <= a -> mu + a <= T ->
  P2 T x L mu wl -> P2 T x L (mu + a) (wl + W T x a).
Proof.
  intros Hp Hmu Ha Hle (H1 & H2). unfold params in Hp.
  pose proof (W_le T x a ltac:(lia) ltac:(lia) Ha) as Hw. unfold P2. lia.
Qed.

Lemma P2_step_over T x L a wl : params T x L -> 0 <= a <= x -> T < x + a ->
  P2 T x L x wl -> P2 T x L (x + a) (wl + W T x a).
Proof. intros Hp Ha Hov (H1 & H2). unfold params in Hp. unfold P2, W. destruct (a <=? x) eqn:E; lia. Qed.

Lemma phase1_run T x L : params T x L ->
  forall l g t y, (1 <= length g)%nat ->
  StronglySorted (fun a b : Z => b <= a) l -> Forall (fun a => a <= y) l ->
  Forall (fun a => T - x < a) l -> Forall2 (P1 T x L y) g t -> zmin (vgreedy l g) = x ->
  exists t', Forall2 (P2 T x L) (vgreedy l g) t' /\ zsum t' = zsum t + zsum (map (W T x) l).
Proof.
  intros Hp l. pose proof Hp as (HxL & HT2x & HLT & HL0). induction l as [|a l IH]; intros g t y Hg Hsort Hy Hh Ht Hmin.
  - exists t. split; [|cbn; lia]. cbn in *.
    apply (Forall2_impl_l (fun a => x <= a) (P1 T x L y)); [| |exact Ht].
    + intros a b Ha Hab. eapply P1_P2; eassumption.
    + rewrite <- Hmin. apply zmin_le.
  - apply StronglySorted_inv in Hsort. destruct Hsort as [Hsl Hal].
    pose proof (Forall_inv Hy) as Hay. pose proof (Forall_inv_tail Hy) as Hyl.
    pose proof (Forall_inv Hh) as Hha. pose proof (Forall_inv_tail Hh) as Hhl.
    cbv beta in Hay, Hha. rewrite vgreedy_cons in *.
    assert (Hpos : Forall (fun v => 0 <= v) l).
    { eapply Forall_impl; [|exact Hhl]. intros b Hb. cbv beta in Hb. lia. }
    assert (Hg' : (1 <= length (vstep g a))%nat) by (rewrite vstep_length; exact Hg).
    pose proof (vstep_zmin_ge g a Hg ltac:(lia)) as Hm1.
    pose proof (vgreedy_zmin_ge l (vstep g a) Hg' Hpos) as Hm2.
    destruct (step_F2 (P1 T x L y) (P1 T x L a) g t a (W T x a) Hg Ht) as [HF Hs].
    + intros l0 wl (H1 & H2 & H3). unfold P1. lia.
    + intros wl Hp0. apply (P1_step T x L y); [exact Hp|lia|lia|exact Hp0].
    + destruct (IH _ _ a Hg' Hsl Hal Hhl HF Hmin) as (t' & Ht' & Hsum).
      exists t'. split; [exact Ht'|]. rewrite Hsum, Hs. cbn [map]. change (zsum (?b :: ?r)) with (b + zsum r). lia.
Qed.

Lemma phase2_run T x L : params T x L ->
  forall l g t, (1 <= length g)%nat -> Forall (fun a => 0 <= a <= x) l -> x <= zmin g ->
  nover T l g -> zmin (vgreedy l g) <= L -> Forall2 (P2 T x L) g t ->
  exists t', Forall2 (P2 T x L) (vgreedy l g) t' /\ zsum t' = zsum t + zsum (map (W T x) l).
Proof.
  intros Hp l. pose proof Hp as (HxL & HT2x & HLT & HL0). induction l as [|a l IH]; intros g t Hg Hl Hx Hn Hmin Ht.
  - exists t. split; [exact Ht|cbn; lia].
  - pose proof (Forall_inv Hl) as Ha. pose proof (Forall_inv_tail Hl) as Hl'. cbv beta in Ha.
    destruct Hn as [Hno Hn]. rewrite vgreedy_cons in *.
    assert (Hpos : Forall (fun v => 0 <= v) l).
    { eapply Forall_impl; [|exact Hl']. intros b Hb. cbv beta in Hb. lia. }
    assert (Hg' : (1 <= length (vstep g a))%nat) by (rewrite vstep_length; exact Hg).
    pose proof (vstep_zmin_ge g a Hg ltac:(lia)) as Hm1.
    pose proof (vgreedy_zmin_ge l (vstep g a) Hg' Hpos) as Hm2.
    unfold over in Hno.
    destruct (step_F2 (P2 T x L) (P2 T x L) g t a (W T x a) Hg Ht) as [HF Hs].
    + intros l0 wl Hq. exact Hq.
    + intros wl Hp0. apply P2_step; try lia; assumption.
    + destruct (IH _ _ Hg' Hl' ltac:(lia) Hn Hmin HF) as (t' & Ht' & Hsum).
      exists t'. split; [exact Ht'|]. rewrite Hsum, Hs. cbn [map]. change (zsum (?b :: ?r)) with (b + zsum r). lia.
Qed.

Lemma vgreedy_app l1 l2 g : vgreedy (l1 ++ l2) g = vgreedy l2 (vgreedy l1 g).
Proof. unfold vgreedy. apply fold_left_app. Qed.

(** a run whose last overfull step puts [a] on a bin of load x: all bins weigh at most 2 h and
    the open ones at most load + h - x *)
Lemma over_run T k l1 a l2 : (1 <= k)%nat ->
  StronglySorted (fun a b : Z => b <= a) (l1 ++ a :: l2) -> Forall (fun v => 0 <= v) (l1 ++ a :: l2) ->
  let g1 := vgreedy l1 (repeat 0 k) in let x := zmin g1 in
  let L := zmin (vgreedy (l1 ++ a :: l2) (repeat 0 k)) in
  over T g1 a -> nover T l2 (vstep g1 a) -> 3 * L < 2 * T ->
  params T x L /\
  exists t, Forall2 (P2 T x L) (vgreedy (l1 ++ a :: l2) (repeat 0 k)) t /\
            zsum t = zsum (map (W T x) (l1 ++ a :: l2)).
Proof.
  intros Hk Hsort Hpos g1 x L Hov Hn HLT.
  destruct (sorted_desc_app_inv l1 a l2 Hsort) as (Hs1 & Hge1 & Hs2 & Hle2).
  apply Forall_app in Hpos. destruct Hpos as [Hpos1 Hpos2].
  pose proof (Forall_inv Hpos2) as Ha0. pose proof (Forall_inv_tail Hpos2) as Hpos2'. cbv beta in Ha0.
  assert (Hg1 : (1 <= length g1)%nat) by (unfold g1; rewrite vgreedy_length, repeat_length; exact Hk).
  assert (Hg2 : (1 <= length (vstep g1 a))%nat) by (rewrite vstep_length; exact Hg1).
  assert (EL : L = zmin (vgreedy l2 (vstep g1 a))).
  { unfold L. rewrite vgreedy_app, vgreedy_cons. reflexivity. }
  pose proof (vstep_zmin_ge g1 a Hg1 Ha0) as Hm1. fold x in Hm1.
  pose proof (vgreedy_zmin_ge l2 (vstep g1 a) Hg2 Hpos2') as Hm2. rewrite <- EL in Hm2.
  assert (Hx0 : 0 <= x).
  { unfold x. pose proof (vgreedy_zmin_ge l1 (repeat 0 k) ltac:(rewrite repeat_length; exact Hk) Hpos1) as H.
    rewrite zmin_repeat0 in H. exact H. }
  destruct Hov as [Hax Hov]. fold x in Hax, Hov.
  assert (Hp : params T x L) by (unfold params; lia).
  split; [exact Hp|].
  destruct (phase1_run T x L Hp l1 (repeat 0 k) (repeat 0 k) (zsum l1)) as (t1 & Ht1 & Hsum1).
  - rewrite repeat_length. exact Hk.
  - exact Hs1.
  - apply Forall_forall. intros b Hb. apply in_le_zsum; assumption.
  - eapply Forall_impl; [|exact Hge1]. intros b Hb. cbv beta in Hb. lia.
  - apply Forall2_repeat. unfold P1. unfold params in Hp. lia.
  - reflexivity.
  - fold g1 in Ht1. rewrite zsum_repeat0 in Hsum1.
    destruct (step_F2 (P2 T x L) (P2 T x L) g1 t1 a (W T x a) Hg1 Ht1) as [HF Hs].
    + intros l0 wl Hq. exact Hq.
    + intros wl Hq. fold x. apply P2_step_over; try assumption; lia.
    + assert (Hl2 : Forall (fun b => 0 <= b <= x) l2).
      { eapply Forall_impl; [|exact (Forall_and Hpos2' Hle2)]. intros b Hb. cbv beta in Hb. lia. }
      destruct (phase2_run T x L Hp l2 _ _ Hg2 Hl2 Hm1 Hn ltac:(lia) HF) as (t2 & Ht2 & Hsum2).
      exists t2. rewrite vgreedy_app, vgreedy_cons. fold g1. split; [exact Ht2|].
      rewrite Hsum2, Hs, Hsum1, map_app, zsum_app. cbn [map].
      change (zsum (?b :: ?r)) with (b + zsum r). lia.
Qed.

(** ================= D. a run without overfull step ================= *)

Definition P0 (T y l wl : Z) : Prop := 0 <= wl /\ wl <= T /\ wl <= l /\ (l = 0 \/ y <= l).

Lemma nover_run T : 0 <= T -> forall l g t y, (1 <= length g)%nat ->
  StronglySorted (fun a b : Z => b <= a) l -> Forall (fun a => 0 <= a <= y) l ->
  nover T l g -> Forall2 (P0 T y) g t ->
  exists t', Forall2 (fun l wl => wl <= T /\ wl <= l) (vgreedy l g) t' /\
             zsum t' = zsum t + zsum (map (cap T) l).
Proof.
  intros HT l. induction l as [|a l IH]; intros g t y Hg Hsort Hy Hn Ht.
  - exists t. split; [|cbn; lia]. eapply Forall2_impl; [|exact Ht].
    intros b c Hbc. unfold P0 in Hbc. cbv beta. lia.
  - apply StronglySorted_inv in Hsort. destruct Hsort as [Hsl Hal].
    pose proof (Forall_inv Hy) as Hay. pose proof (Forall_inv_tail Hy) as Hyl. cbv beta in Hay.
    destruct Hn as [Hno Hn]. unfold over in Hno. rewrite vgreedy_cons.
    assert (Hg' : (1 <= length (vstep g a))%nat) by (rewrite vstep_length; exact Hg).
    destruct (step_F2 (P0 T y) (P0 T a) g t a (cap T a) Hg Ht) as [HF Hs].
    + intros l0 wl Hq. unfold P0 in *. lia.
    + intros wl Hq. unfold P0, cap in *. lia.
    + assert (Hal' : Forall (fun b => 0 <= b <= a) l).
      { eapply Forall_impl; [|exact (Forall_and Hyl Hal)]. intros b Hb. cbv beta in Hb. lia. }
      destruct (IH _ _ a Hg' Hsl Hal' Hn HF) as (t' & Ht' & Hsum).
      exists t'. split; [exact Ht'|]. rewrite Hsum, Hs. cbn [map].
      change (zsum (?b :: ?r)) with (b + zsum r). lia.
Qed.

(** ================= E. 2 * OPTmin <= 3 * LPTmin ================= *)

Lemma Forall2_ge_min C s t : Forall (fun a => C <= a) s -> Forall2 (SP C) s t -> Forall (fun b => C <= b) t.
Proof.
  intros Hs H. induction H as [|a b s t Hab Hst IH]; constructor.
  - pose proof (Forall_inv Hs) as Ha. cbv beta in Ha. unfold SP in Hab. lia.
  - apply IH. exact (Forall_inv_tail Hs).
Qed.

Theorem lpt_min_23_values k : (1 <= k)%nat -> forall l s,
  StronglySorted (fun a b : Z => b <= a) l -> Forall (fun v => 0 <= v) l -> Attainable k l s ->
  2 * zmin s <= 3 * zmin (vgreedy l (repeat 0 k)).
Proof.
  intros Hk l s Hsort Hpos Hs.
  set (T := zmin s). set (g := vgreedy l (repeat 0 k)). set (L := zmin g).
  destruct (Z.le_gt_cases (2 * T) (3 * L)) as [Hle|Hgt]; [exact Hle|exfalso].
  assert (Hg : length g = k) by (unfold g; rewrite vgreedy_length; apply repeat_length).
  assert (HL0 : 0 <= L).
  { pose proof (vgreedy_zmin_ge l (repeat 0 k) ltac:(rewrite repeat_length; exact Hk) Hpos) as H.
    rewrite zmin_repeat0 in H. exact H. }
  assert (HsT : Forall (fun a => T <= a) s) by apply zmin_le.
  assert (Hi : (argmin g < length g)%nat) by (apply argmin_lt; lia).
  set (K := Z.of_nat k). assert (HK : 1 <= K) by (unfold K; lia).
  destruct (last_over T l (repeat 0 k)) as [Hn|(l1 & a & l2 & El & Hov & Hn)].
  - destruct (nover_run T ltac:(lia) l (repeat 0 k) (repeat 0 k) (zsum l)) as (t & Ht & Hsum); auto.
    + rewrite repeat_length. exact Hk.
    + apply Forall_forall. intros b Hb. split.
      * rewrite Forall_forall in Hpos. apply Hpos. exact Hb.
      * apply in_le_zsum; assumption.
    + apply Forall2_repeat. unfold P0. lia.
    + fold g in Ht. rewrite zsum_repeat0 in Hsum.
      pose proof (Forall2_length_eq _ _ _ Ht) as Hlt.
      pose proof (Forall2_nth _ 0 0 g t Ht (argmin g) Hi) as Hb. cbv beta in Hb.
      rewrite argmin_is_zmin in Hb by lia. fold L in Hb.
      assert (HtT : Forall (fun b => b <= T) t).
      { apply (Forall2_Forall_r (fun l wl : Z => wl <= T /\ wl <= l) (fun b => b <= T)) with (s := g); [|exact Ht].
        intros c b Hcb. cbv beta in Hcb. lia. }
      pose proof (zsum_le_one_plus_rest L T t (argmin g) ltac:(lia) ltac:(lia) HtT) as Hup.
      rewrite <- Hlt, Hg in Hup. fold K in Hup.
      destruct (SP_run T k l s ltac:(lia) Hpos Hs) as (t' & Ht' & Hlen' & Hsum').
      pose proof (zsum_ge_bound _ _ (Forall2_ge_min T s t' HsT Ht')) as Hdown.
      rewrite Hlen' in Hdown. fold K in Hdown. lia.
  - subst l. fold g in L.
    destruct (over_run T k l1 a l2 Hk Hsort Hpos Hov Hn ltac:(fold g; fold L; lia)) as (Hp & t & Ht & Hsum).
    fold g in Ht. fold L in Ht, Hp. set (x := zmin (vgreedy l1 (repeat 0 k))) in *.
    unfold params in Hp.
    pose proof (Forall2_length_eq _ _ _ Ht) as Hlt.
    pose proof (Forall2_nth _ 0 0 g t Ht (argmin g) Hi) as Hb.
    rewrite argmin_is_zmin in Hb by lia. fold L in Hb. unfold P2 in Hb.
    assert (HtD : Forall (fun b => b <= 2 * (T - x)) t).
    { apply (Forall2_Forall_r (P2 T x L) (fun b => b <= 2 * (T - x))) with (s := g); [|exact Ht].
      intros c b Hcb. unfold P2 in Hcb. lia. }
    pose proof (zsum_le_one_plus_rest (L + (T - x) - x) (2 * (T - x)) t (argmin g) ltac:(lia) ltac:(lia) HtD) as Hup.
    rewrite <- Hlt, Hg in Hup. fold K in Hup.
    pose proof (VP_total T x k _ s ltac:(lia) ltac:(lia) Hpos Hs HsT) as Hdown. fold K in Hdown.
    rewrite Hsum in Hup. lia.
Qed.

Section MinTwoThirds.
  Context {A : Type} (valueof : A -> Z) (keep : bool).

  Theorem lpt_min_23_attainable k items s : (1 <= k)%nat ->
    Forall (fun x => 0 <= valueof x) items -> Attainable k (map valueof items) s ->
    2 * zmin s <= 3 * zmin (sums (greedy valueof keep k items)).
  Proof.
    intros Hk Hpos Hs. rewrite greedy_sums_vgreedy.
    apply lpt_min_23_values; [exact Hk|apply sorted_values_sorted|apply sorted_values_nonneg; exact Hpos|].
    apply (Attainable_perm_local k (map valueof items)); [|exact Hs].
    symmetry. apply sorted_values_perm.
  Qed.

  (** LPTmin >= 2/3 * OPTmin for every number of bins *)
  Theorem lpt_min_ratio_23 k items v : (1 <= k)%nat ->
    Forall (fun x => 0 <= valueof x) items -> Opt MaxSmallest k (map valueof items) v ->
    2 * (- v) <= 3 * zmin (sums (greedy valueof keep k items)).
  Proof.
    intros Hk Hpos [(s & Hs & Ev) _]. rewrite value_MaxSmallest in Ev. subst v.
    rewrite Z.opp_involutive. apply lpt_min_23_attainable; auto.
  Qed.
End MinTwoThirds.

(** ================= F. the classical statements, and what is open ================= *)

(** Deuermeyer, Friesen, Langston 1982: LPTmin >= 3/4 * OPTmin *)
Definition lpt_min_ratio_34 : Prop :=
  forall (A : Type) (valueof : A -> Z) (keep : bool) (k : nat) (items : list A) (v : Z),
    (1 <= k)%nat -> Forall (fun x => 0 <= valueof x) items ->
    Opt MaxSmallest k (map valueof items) v ->
    3 * (- v) <= 4 * zmin (sums (greedy valueof keep k items)).

Lemma greedy_min_nonneg {A} (valueof : A -> Z) keep k items : (1 <= k)%nat ->
  Forall (fun x => 0 <= valueof x) items -> 0 <= zmin (sums (greedy valueof keep k items)).
Proof.
  intros Hk Hpos. rewrite greedy_sums_vgreedy.
  pose proof (vgreedy_zmin_ge (sorted_values valueof items) (repeat 0 k)
                ltac:(rewrite repeat_length; exact Hk) (sorted_values_nonneg valueof items Hpos)) as H.
  rewrite zmin_repeat0 in H. exact H.
Qed.

(** the exact bound of Csirik, Kellerer, Woeginger implies the 3/4 bound *)
Theorem lpt_min_ratio_implies_34 : lpt_min_ratio_statement -> lpt_min_ratio_34.
Proof.
  intros H A valueof keep k items v Hk Hpos Hopt.
  specialize (H A valueof keep k items v Hk Hpos Hopt).
  pose proof (greedy_min_nonneg valueof keep k items Hk Hpos) as HL.
  set (L := zmin (sums (greedy valueof keep k items))) in *. set (K := Z.of_nat k) in *.
  assert (HK : 1 <= K) by (unfold K; lia). nia.
Qed.

(* ==== FOOTER ==== *)
Print Assumptions lpt_min_23_values.
Print Assumptions lpt_min_ratio_23.
Print Assumptions lpt_min_ratio_implies_34.
