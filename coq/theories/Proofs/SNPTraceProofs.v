(** The traced SNP / RNP return exactly what snp / rnp return. *)
From Prtpy Require Import Base.Prelude Model.Binner Model.KK Model.InExTree Model.SNP Model.SNPTrace.

Section P.
  Context {A : Type} (valueof : A -> Z) (nameof : A -> Z) (keep : bool).

  Local Notation snp_rec := (snp_rec valueof nameof keep).
  Local Notation snp_rec_tr := (snp_rec_tr valueof nameof keep).
  Local Notation bins_spread := (bins_spread (A := A)).

  Definition dfs_pruned (kz t : Z) (rest cur : list A) (best : bins A) : bool :=
    (t <? kz * vsum valueof cur) || (kz * (vsum valueof cur + vsum valueof rest) <? t - (kz - 1) * bins_spread best).

  (** ---- SNP: the two inner searches with the recursive call abstracted ---- *)
  Definition sdfs (next : list A -> bins A -> bins A) (kz t : Z) : list A -> list A -> bins A -> bins A :=
    fix dfs (rest cur : list A) (best : bins A) : bins A :=
      if dfs_pruned kz t rest cur best then best
      else match rest with
           | [] => next cur best
           | x :: r => dfs r cur (dfs r (cur ++ [x]) best)
           end.

  Definition sdfs_tr (next : list A -> bins A -> strace -> bins A * strace) (kz t : Z)
    : list A -> list A -> bins A -> strace -> bins A * strace :=
    fix dfs (rest cur : list A) (best : bins A) (tr : strace) : bins A * strace :=
      if dfs_pruned kz t rest cur best then (best, tr)
      else match rest with
           | [] => next cur best (tr ++ [map valueof cur])
           | x :: r => let p := dfs r (cur ++ [x]) best tr in dfs r cur (fst p) (snd p)
           end.

  Lemma snp_rec_unfold3 n prior items best :
    snp_rec (S (S (S n))) prior items best =
    sdfs (fun cur b => snp_rec (S (S n)) (prior ++ [bin_of valueof keep cur]) (find_diff nameof items cur) b)
         (Z.of_nat (S (S (S n)))) (vsum valueof items) (sort_desc valueof items) [] best.
  Proof. reflexivity. Qed.

  Lemma snp_rec_tr_unfold3 n prior items best tr :
    snp_rec_tr (S (S (S n))) prior items best tr =
    sdfs_tr (fun cur b tr' => snp_rec_tr (S (S n)) (prior ++ [bin_of valueof keep cur]) (find_diff nameof items cur) b tr')
         (Z.of_nat (S (S (S n)))) (vsum valueof items) (sort_desc valueof items) [] best tr.
  Proof. reflexivity. Qed.

  Lemma sdfs_tr_fst next next_tr kz t :
    (forall cur b tr, fst (next_tr cur b tr) = next cur b) ->
    forall rest cur best tr, fst (sdfs_tr next_tr kz t rest cur best tr) = sdfs next kz t rest cur best.
  Proof.
    intros Hnext. induction rest as [|x r IH]; intros cur best tr.
    - cbn [sdfs_tr sdfs]. destruct (dfs_pruned kz t [] cur best); [reflexivity|]. apply Hnext.
    - cbn [sdfs_tr sdfs]. destruct (dfs_pruned kz t (x :: r) cur best); [reflexivity|].
      cbv zeta. rewrite IH. rewrite IH. reflexivity.
  Qed.

  Lemma snp_rec_tr_fst : forall kc prior items best tr,
    fst (snp_rec_tr kc prior items best tr) = snp_rec kc prior items best.
  Proof.
    induction kc as [|kc IH]; intros prior items best tr; [reflexivity|].
    destruct kc as [|[|n]]; [reflexivity| |].
    - cbn [SNPTrace.snp_rec_tr SNP.snp_rec].
      destruct (ckk valueof nameof keep 2 items) as [two|e]; [|reflexivity].
      destruct (spread (sums two ++ sums prior) <? bins_spread best); reflexivity.
    - rewrite snp_rec_tr_unfold3, snp_rec_unfold3. apply sdfs_tr_fst.
      intros cur b tr'. apply IH.
  Qed.

  Theorem snp_tr_result : forall k items, fst (snp_tr valueof nameof keep k items) = snp valueof nameof keep k items.
  Proof.
    intros k items. unfold snp_tr, snp.
    destruct (kk valueof keep k items) as [best|e]; [|reflexivity].
    destruct (bins_spread best =? 0); [reflexivity|].
    cbv zeta. cbn [fst]. rewrite snp_rec_tr_fst. reflexivity.
  Qed.

  (** ---- RNP ---- *)
  Local Notation rnp_rec := (rnp_rec valueof nameof keep).
  Local Notation rnp_rec_tr := (rnp_rec_tr valueof nameof keep).

  Definition rpruned (kz t d0 : Z) (rest cur : list A) : bool :=
    (t <? kz * vsum valueof cur) || (kz * (vsum valueof cur + vsum valueof rest) <? t - (kz - 1) * d0).

  Definition rdfs (leaf : list A -> bins A -> result (bins A)) (kz t d0 : Z)
    : list A -> list A -> bins A -> result (bins A) :=
    fix dfs (rest cur : list A) (best : bins A) : result (bins A) :=
      if rpruned kz t d0 rest cur then Ok best
      else match rest with
           | [] => leaf cur best
           | x :: r => match dfs r (cur ++ [x]) best with
                       | Err e => Err e
                       | Ok best1 => dfs r cur best1
                       end
           end.

  Definition rdfs_tr (leaf : list A -> bins A -> strace -> result (bins A) * strace) (kz t d0 : Z)
    : list A -> list A -> bins A -> strace -> result (bins A) * strace :=
    fix dfs (rest cur : list A) (best : bins A) (tr : strace) : result (bins A) * strace :=
      if rpruned kz t d0 rest cur then (Ok best, tr)
      else match rest with
           | [] => leaf cur best tr
           | x :: r => let p := dfs r (cur ++ [x]) best tr in
                       match fst p with
                       | Err e => (Err e, snd p)
                       | Ok best1 => dfs r cur best1 (snd p)
                       end
           end.

  Lemma rdfs_tr_fst leaf leaf_tr kz t d0 :
    (forall cur b tr, fst (leaf_tr cur b tr) = leaf cur b) ->
    forall rest cur best tr, fst (rdfs_tr leaf_tr kz t d0 rest cur best tr) = rdfs leaf kz t d0 rest cur best.
  Proof.
    intros Hleaf. induction rest as [|x r IH]; intros cur best tr.
    - cbn [rdfs_tr rdfs]. destruct (rpruned kz t d0 [] cur); [reflexivity|]. apply Hleaf.
    - cbn [rdfs_tr rdfs]. destruct (rpruned kz t d0 (x :: r) cur); [reflexivity|].
      cbv zeta. rewrite IH. destruct (rdfs leaf kz t d0 r (cur ++ [x]) best) as [b1|e]; [|reflexivity].
      apply IH.
  Qed.

  Lemma fold_fst {S T U : Type} (F : T -> U -> T) (G : T * S -> U -> T * S) :
    (forall a u, fst (G a u) = F (fst a) u) ->
    forall l r s, fst (fold_left G l (r, s)) = fold_left F l r.
  Proof.
    intros HG. induction l as [|u l IH]; intros r s; [reflexivity|].
    cbn [fold_left]. specialize (HG (r, s) u). cbn [fst] in HG.
    destruct (G (r, s) u) as [r' s']. cbn [fst] in HG. rewrite <- HG. apply IH.
  Qed.

  Lemma rnp_rec_tr_fst : forall fuel kc isfloat prior items best tr,
    fst (rnp_rec_tr fuel kc isfloat prior items best tr) = rnp_rec fuel kc isfloat prior items best.
  Proof.
    induction fuel as [|f IH]; intros kc isfloat prior items best tr; [reflexivity|].
    cbn [SNPTrace.rnp_rec_tr SNP.rnp_rec].
    destruct (Nat.eqb kc 2); [reflexivity|]. destruct (Nat.odd kc).
    - cbv zeta.
      apply (rdfs_tr_fst
               (fun cur b =>
                  if isfloat && negb (Nat.eqb (length cur) 0) then Err IndexError
                  else match rnp_rec f (kc - 1) isfloat (prior ++ [bin_of valueof keep cur]) (find_diff nameof items cur) b with
                       | Err e => Err e
                       | Ok nb => if spread (sums nb ++ sums (prior ++ [bin_of valueof keep cur])) <? bins_spread b
                                  then Ok ((prior ++ [bin_of valueof keep cur]) ++ nb) else Ok b
                       end)
               (fun cur b tr0 =>
                  if isfloat && negb (Nat.eqb (length cur) 0) then (Err IndexError, tr0 ++ [map valueof cur])
                  else let p := rnp_rec_tr f (kc - 1) isfloat (prior ++ [bin_of valueof keep cur])
                                  (find_diff nameof items cur) b (tr0 ++ [map valueof cur]) in
                       match fst p with
                       | Err e => (Err e, snd p)
                       | Ok nb => if spread (sums nb ++ sums (prior ++ [bin_of valueof keep cur])) <? bins_spread b
                                  then (Ok ((prior ++ [bin_of valueof keep cur]) ++ nb), snd p) else (Ok b, snd p)
                       end)).
      intros cur b tr0. destruct (isfloat && negb (Nat.eqb (length cur) 0)); [reflexivity|].
      cbv zeta. rewrite IH.
      destruct (rnp_rec f (kc - 1) isfloat _ _ b) as [nb|e]; [|reflexivity].
      destruct (spread _ <? bins_spread b); reflexivity.
    - cbv zeta. apply fold_fst. intros [r s] part. cbn [fst snd].
      destruct r as [b|e]; [|reflexivity].
      rewrite IH. destruct (rnp_rec f (Nat.div kc 2) true prior (snd (nth 0 part empty_bin)) b) as [nb1|e1]; [|reflexivity].
      rewrite IH. destruct (rnp_rec f (Nat.div kc 2) true prior (snd (nth 1 part empty_bin)) b) as [nb2|e2]; [|reflexivity].
      destruct (spread _ <? bins_spread best); reflexivity.
  Qed.

  Theorem rnp_tr_result : forall k items, fst (rnp_tr valueof nameof keep k items) = rnp valueof nameof keep k items.
  Proof.
    intros k items. unfold rnp_tr, rnp.
    destruct (kk valueof keep k items) as [best|e]; [|reflexivity].
    destruct (bins_spread best =? 0); [reflexivity|]. apply rnp_rec_tr_fst.
  Qed.
End P.

Print Assumptions snp_tr_result.
Print Assumptions rnp_tr_result.
