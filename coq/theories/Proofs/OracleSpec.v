(** Specifications of the executable oracles of Oracle/Reach.v against Spec/Partition.v. *)
From Coq Require Import Sorting.Sorted ZifyBool.
From Prtpy Require Import Base.Prelude Model.Objectives Spec.Partition Oracle.Reach Proofs.BaseLemmas.

Local Notation srt := (sort_asc (fun x : Z => x)).
Local Notation zsorted := (StronglySorted Z.le).

(** ---------------------------------------------------------------- *)
(** * 1. normalize                                                    *)

Lemma zl_eqb_eq a b : zl_eqb a b = true <-> a = b.
Proof.
  revert b; induction a as [|x s IH]; intros [|y t]; cbn [zl_eqb]; split; intros H;
    try discriminate; auto.
  - apply andb_true_iff in H. destruct H as [H1 H2]. apply IH in H2. f_equal; [lia|exact H2].
  - injection H as H1 H2. apply andb_true_iff. split; [lia|]. apply IH; exact H2.
Qed.

Lemma dedup_adj_In x l : In x (dedup_adj l) <-> In x l.
Proof.
  induction l as [|a t IH]; [reflexivity|].
  destruct t as [|b t'].
  - reflexivity.
  - change (dedup_adj (a :: b :: t'))
      with (if zl_eqb a b then dedup_adj (b :: t') else a :: dedup_adj (b :: t')).
    destruct (zl_eqb a b) eqn:E.
    + apply zl_eqb_eq in E. subst b. rewrite IH. cbn [In]. tauto.
    + cbn [In] in *. rewrite IH. tauto.
Qed.

Lemma normalize_In : forall x l, In x (normalize l) <-> In x l.
Proof.
  intros x l. unfold normalize. rewrite dedup_adj_In.
  split; apply Permutation_in; [symmetry|]; apply LexSort.Permuted_sort.
Qed.

(** ---------------------------------------------------------------- *)
(** * Sorted vectors                                                  *)

Lemma srt_sorted l : zsorted (srt l).
Proof. exact (sort_asc_sorted (fun x : Z => x) l). Qed.

Lemma srt_id l : zsorted l -> srt l = l.
Proof. intros H. apply (sort_asc_id (fun x : Z => x)). exact H. Qed.

Lemma sorted_perm_eq l1 l2 : zsorted l1 -> zsorted l2 -> Permutation l1 l2 -> l1 = l2.
Proof.
  revert l2; induction l1 as [|a t1 IH]; intros l2 S1 S2 P.
  - apply Permutation_nil in P. auto.
  - destruct l2 as [|b t2]; [apply Permutation_sym, Permutation_nil in P; discriminate|].
    inversion S1 as [|? ? S1t F1]; subst. inversion S2 as [|? ? S2t F2]; subst.
    assert (Hab : a = b).
    { assert (I1 : In a (b :: t2)) by (eapply Permutation_in; [exact P|left; reflexivity]).
      assert (I2 : In b (a :: t1)) by (eapply Permutation_in; [symmetry; exact P|left; reflexivity]).
      rewrite Forall_forall in F1, F2.
      destruct I1 as [I1|I1]; [auto|]. destruct I2 as [I2|I2]; [auto|].
      apply F2 in I1. apply F1 in I2. lia. }
    subst b. f_equal. apply IH; auto. eapply Permutation_cons_inv; exact P.
Qed.

Lemma srt_perm_eq l1 l2 : Permutation l1 l2 -> srt l1 = srt l2.
Proof.
  intros P. apply sorted_perm_eq; try apply srt_sorted.
  rewrite !sort_asc_perm. exact P.
Qed.

Lemma srt_unique l s : zsorted s -> Permutation s l -> srt l = s.
Proof. intros Hs P. rewrite <- (srt_id s Hs). apply srt_perm_eq. symmetry; exact P. Qed.

Lemma ins_insert x l : ins x l = insert_asc (fun x : Z => x) x l.
Proof. induction l as [|y t IH]; cbn [ins insert_asc]; auto. rewrite IH. reflexivity. Qed.

Lemma fold_ins_srt pre l : fold_right ins (srt l) pre = srt (pre ++ l).
Proof.
  induction pre as [|p pre IH]; cbn [fold_right app]; auto.
  rewrite IH, ins_insert. reflexivity.
Qed.

Lemma ins_srt x t : zsorted t -> ins x t = srt (x :: t).
Proof. intros Hs. rewrite ins_insert. cbn [sort_asc fold_right]. fold (srt t). rewrite srt_id; auto. Qed.

Lemma ins_srt_cons x l : ins x (srt l) = srt (x :: l).
Proof. rewrite ins_insert. reflexivity. Qed.

Lemma ins_perm x l : Permutation (ins x l) (x :: l).
Proof. rewrite ins_insert. apply insert_asc_perm. Qed.

Lemma ins_sorted x l : zsorted l -> zsorted (ins x l).
Proof. intros Hs. rewrite ins_insert. apply (insert_asc_sorted (fun x : Z => x)). exact Hs. Qed.

Lemma sorted_tail x t : zsorted (x :: t) -> zsorted t.
Proof. intros Hs. inversion Hs; auto. Qed.

(** ---------------------------------------------------------------- *)
(** * One step: add v to one entry of a sorted vector                 *)

Lemma add_each_spec v s : forall pre t, zsorted s ->
  (In t (add_each v pre s) <->
   exists i, (i < length s)%nat /\ t = srt (pre ++ update i (fun x => x + v) s)).
Proof.
  induction s as [|x s' IH]; intros pre t Hs.
  - cbn [add_each In length]. split; [tauto|]. intros (i & Hi & _). lia.
  - cbn [add_each In]. pose proof (sorted_tail _ _ Hs) as S'.
    assert (Hhd : fold_right ins (ins (x + v) s') pre = srt (pre ++ (x + v) :: s')).
    { rewrite ins_srt by exact S'. apply fold_ins_srt. }
    rewrite IH by exact S'. split.
    + intros [H|(i & Hi & H)].
      * exists O. cbn [update length]. split; [lia|]. rewrite <- H. exact Hhd.
      * exists (S i). cbn [update length]. split; [lia|]. rewrite H, <- app_assoc. reflexivity.
    + intros (i & Hi & H). destruct i as [|i].
      * left. cbn [update] in H. rewrite H. exact Hhd.
      * right. exists i. cbn [update length] in *. split; [lia|]. rewrite H, <- app_assoc. reflexivity.
Qed.

(** updating an index commutes with permutations, up to the choice of the index *)
Lemma perm_update (f : Z -> Z) d l1 l2 : Permutation l1 l2 -> forall i, (i < length l1)%nat ->
  exists j, (j < length l2)%nat /\ nth j l2 d = nth i l1 d /\
            Permutation (update i f l1) (update j f l2).
Proof.
  induction 1 as [|x l1 l2 P IH|x y l|l1 l2 l3 P1 IH1 P2 IH2]; intros i Hi.
  - cbn [length] in Hi. lia.
  - destruct i as [|i].
    + exists O. cbn [update length nth]. split; [lia|]. split; auto.
    + destruct (IH i) as (j & Hj & Hn & HP); [cbn [length] in Hi; lia|].
      exists (S j). cbn [update length nth]. split; [lia|]. split; auto.
  - destruct i as [|[|i]].
    + exists 1%nat. cbn [update length nth]. split; [lia|]. split; auto. apply perm_swap.
    + exists O. cbn [update length nth]. split; [lia|]. split; auto. apply perm_swap.
    + exists (S (S i)). cbn [update length nth] in *. split; [lia|]. split; auto. apply perm_swap.
  - destruct (IH1 i Hi) as (j & Hj & Hn & HP).
    destruct (IH2 j Hj) as (k & Hk & Hn' & HP').
    exists k. split; auto. split; [congruence|]. eapply perm_trans; eauto.
Qed.

(** ---------------------------------------------------------------- *)
(** * loads                                                           *)

Definition lstep (s : list Z) (p : Z * nat) : list Z := update (snd p) (fun x => x + fst p) s.

Lemma loads_unfold k vs asg : loads k vs asg = fold_left lstep (combine vs asg) (repeat 0 k).
Proof. reflexivity. Qed.

Lemma fold_lstep_length ps : forall s, length (fold_left lstep ps s) = length s.
Proof.
  induction ps as [|p ps IH]; intros s; cbn [fold_left]; auto.
  rewrite IH. unfold lstep. apply update_length.
Qed.

Lemma loads_length k vs asg : length (loads k vs asg) = k.
Proof. rewrite loads_unfold, fold_lstep_length. apply repeat_length. Qed.

Lemma combine_snoc {A B} (l1 : list A) (l2 : list B) a b : length l1 = length l2 ->
  combine (l1 ++ [a]) (l2 ++ [b]) = combine l1 l2 ++ [(a, b)].
Proof.
  revert l2; induction l1 as [|x l1 IH]; intros [|y l2] H; cbn [length] in H; try discriminate; auto.
  cbn [app combine]. rewrite IH by lia. reflexivity.
Qed.

Lemma loads_snoc k vs asg v i : length asg = length vs ->
  loads k (vs ++ [v]) (asg ++ [i]) = update i (fun x => x + v) (loads k vs asg).
Proof.
  intros H. rewrite !loads_unfold, combine_snoc by auto.
  rewrite fold_left_app. reflexivity.
Qed.

Lemma Attainable_nil k s : Attainable k [] s <-> s = repeat 0 k.
Proof.
  split.
  - intros (asg & _ & _ & H). rewrite <- H. reflexivity.
  - intros ->. exists []. split; auto. split; [constructor|reflexivity].
Qed.

Lemma snoc_cases {A} (l : list A) n : length l = S n -> exists l' a, l = l' ++ [a] /\ length l' = n.
Proof.
  intros H. destruct (exists_last (l := l)) as (l' & a & E).
  - intro; subst; discriminate.
  - exists l', a. split; auto. subst l. rewrite app_length in H. cbn [length] in H. lia.
Qed.

Lemma Attainable_snoc k vs v s :
  Attainable k (vs ++ [v]) s <->
  exists s0 i, Attainable k vs s0 /\ (i < k)%nat /\ s = update i (fun x => x + v) s0.
Proof.
  split.
  - intros (asg & HL & HV & HS).
    rewrite app_length in HL. cbn [length] in HL.
    destruct (snoc_cases asg (length vs)) as (asg' & i & -> & HL'); [lia|].
    unfold valid_asg in HV. apply Forall_app in HV. destruct HV as [HV Hi].
    inversion Hi as [|? ? Hi' _]; subst.
    exists (loads k vs asg'), i. split; [exists asg'; auto|]. split; auto.
    rewrite loads_snoc by auto. reflexivity.
  - intros (s0 & i & (asg & HL & HV & HS) & Hi & ->).
    exists (asg ++ [i]). split; [rewrite !app_length; cbn [length]; lia|].
    split; [apply Forall_app; split; auto|].
    rewrite loads_snoc by auto. rewrite HS. reflexivity.
Qed.

Lemma Attainable_length k vs s : Attainable k vs s -> length s = k.
Proof. intros (asg & _ & _ & <-). apply loads_length. Qed.

(** ---------------------------------------------------------------- *)
(** * 2. reach                                                        *)

Lemma reach_snoc k vs v : reach k (vs ++ [v]) = reach_step v (reach k vs).
Proof. unfold reach. rewrite fold_left_app. reflexivity. Qed.

Lemma reach_step_In v states t :
  In t (reach_step v states) <-> exists s, In s states /\ In t (add_each v [] s).
Proof. unfold reach_step. rewrite normalize_In, in_flat_map. reflexivity. Qed.

Theorem reach_spec : forall k vs s,
  In s (reach k vs) <-> exists s', Attainable k vs s' /\ sort_asc (fun x => x) s' = s.
Proof.
  intros k vs; induction vs as [|v vs IH] using rev_ind; intros s.
  - cbn [reach fold_left In]. split.
    + intros [H|[]]. exists (repeat 0 k). split; [apply Attainable_nil; reflexivity|].
      rewrite <- H. apply srt_id. clear. induction k as [|k IHk]; cbn [repeat]; constructor; auto.
      apply Forall_forall. intros x Hx. apply repeat_spec in Hx. lia.
    + intros (s' & HA & HS). left. apply Attainable_nil in HA. subst s'.
      rewrite <- HS. symmetry. apply srt_id.
      clear. induction k as [|k IHk]; cbn [repeat]; constructor; auto.
      apply Forall_forall. intros x Hx. apply repeat_spec in Hx. lia.
  - rewrite reach_snoc, reach_step_In. split.
    + intros (st & Hst & Ht). apply IH in Hst. destruct Hst as (s0 & HA & HS).
      assert (Sst : zsorted st) by (rewrite <- HS; apply srt_sorted).
      apply add_each_spec in Ht; [|exact Sst]. destruct Ht as (j & Hj & Ht).
      cbn [app] in Ht.
      assert (P : Permutation st s0) by (rewrite <- HS; apply sort_asc_perm).
      destruct (perm_update (fun x => x + v) 0 _ _ P j Hj) as (i & Hi & _ & HP).
      exists (update i (fun x => x + v) s0). split.
      * apply Attainable_snoc. exists s0, i. split; auto. split; auto.
        rewrite <- (Attainable_length _ _ _ HA). exact Hi.
      * rewrite Ht. apply srt_perm_eq. symmetry; exact HP.
    + intros (s' & HA & HS). apply Attainable_snoc in HA.
      destruct HA as (s0 & i & HA & Hi & ->).
      exists (srt s0). split; [apply IH; exists s0; auto|].
      apply add_each_spec; [apply srt_sorted|]. cbn [app].
      assert (P : Permutation s0 (srt s0)) by (symmetry; apply sort_asc_perm).
      rewrite <- (Attainable_length _ _ _ HA) in Hi.
      destruct (perm_update (fun x => x + v) 0 _ _ P i Hi) as (j & Hj & _ & HP).
      exists j. split; auto. rewrite <- HS. apply srt_perm_eq. exact HP.
Qed.

Lemma reach_sorted k vs s : In s (reach k vs) -> zsorted s.
Proof. intros H. apply reach_spec in H. destruct H as (s' & _ & <-). apply srt_sorted. Qed.

Lemma reach_length k vs s : In s (reach k vs) -> length s = k.
Proof.
  intros H. apply reach_spec in H. destruct H as (s' & HA & <-).
  rewrite sort_asc_length. eapply Attainable_length; eauto.
Qed.

(** ---------------------------------------------------------------- *)
(** * 3. value is invariant under permutation                         *)

Lemma value_perm_local o s1 s2 : Permutation s1 s2 -> value o s1 false = value o s2 false.
Proof.
  intros P. destruct o as [| | |k|k]; cbn [value].
  - rewrite (zmin_perm _ _ P). reflexivity.
  - apply zmax_perm; exact P.
  - rewrite (zmin_perm _ _ P), (zmax_perm _ _ P). reflexivity.
  - rewrite (srt_perm_eq _ _ P). reflexivity.
  - rewrite (srt_perm_eq _ _ P). reflexivity.
Qed.

Lemma value_sorted_perm o s : value o (sort_asc (fun x => x) s) false = value o s false.
Proof. apply value_perm_local. apply sort_asc_perm. Qed.

(** ---------------------------------------------------------------- *)
(** * 4. opt_value                                                    *)

Lemma min_over_le f l : forall best,
  min_over f best l <= best /\ Forall (fun s => min_over f best l <= f s) l.
Proof.
  induction l as [|s t IH]; intros best; cbn [min_over]; [split; [lia|constructor]|].
  destruct (IH (Z.min best (f s))) as [H1 H2]. split; [lia|]. constructor; auto. lia.
Qed.

Lemma min_over_in f l : forall best,
  min_over f best l = best \/ exists s, In s l /\ min_over f best l = f s.
Proof.
  induction l as [|s t IH]; intros best; cbn [min_over]; auto.
  destruct (IH (Z.min best (f s))) as [H|(s' & Hs' & H)].
  - rewrite H. destruct (Z.min_spec best (f s)) as [[_ E]|[_ E]]; rewrite E; auto.
    right. exists s. split; [left|]; auto.
  - right. exists s'. split; [right|]; auto.
Qed.

Lemma Attainable_exists k vs : (1 <= k)%nat -> exists s, Attainable k vs s.
Proof.
  intros Hk. exists (loads k vs (repeat O (length vs))), (repeat O (length vs)).
  split; [apply repeat_length|]. split; auto.
  apply Forall_forall. intros i Hi. apply repeat_spec in Hi. lia.
Qed.

Theorem opt_value_spec : forall o k vs, (1 <= k)%nat ->
  exists v, opt_value o k vs = Some v /\ Opt o k vs v.
Proof.
  intros o k vs Hk. unfold opt_value.
  destruct (reach k vs) as [|s0 t] eqn:E.
  - exfalso. destruct (Attainable_exists k vs Hk) as (s & HA).
    assert (H : In (srt s) (reach k vs)) by (apply reach_spec; exists s; auto).
    rewrite E in H. exact H.
  - pose (f := fun x => value o x false).
    exists (min_over f (f s0) t). split; [reflexivity|].
    destruct (min_over_le f t (f s0)) as [L1 L2]. rewrite Forall_forall in L2.
    assert (Hin : forall s, In s (s0 :: t) -> min_over f (f s0) t <= f s).
    { intros s [<-|Hs]; auto. }
    split.
    + assert (Hex : exists s, In s (s0 :: t) /\ min_over f (f s0) t = f s).
      { destruct (min_over_in f t (f s0)) as [H|(s & Hs & H)].
        - exists s0. split; [left|]; auto.
        - exists s. split; [right|]; auto. }
      destruct Hex as (s & Hs & Hv). rewrite <- E in Hs. apply reach_spec in Hs.
      destruct Hs as (s' & HA & HS). exists s'. split; auto.
      rewrite Hv. unfold f. rewrite <- HS. symmetry. apply value_sorted_perm.
    + intros s HA. rewrite <- (value_sorted_perm o s). apply Hin.
      rewrite <- E. apply reach_spec. exists s; auto.
Qed.

(** ---------------------------------------------------------------- *)
(** * 6. bin covering                                                 *)

Lemma Forall_srt (P : Z -> Prop) s : Forall P (srt s) <-> Forall P s.
Proof. split; apply Permutation_Forall; [|symmetry]; apply sort_asc_perm. Qed.

Lemma coverable_b_spec C vs n : coverable_b C vs n = true <-> Coverable C vs n.
Proof.
  destruct n as [|n]; cbn [coverable_b].
  - split; auto. intros _. left; reflexivity.
  - rewrite existsb_exists. split.
    + intros (s & Hs & Hf). right. apply reach_spec in Hs. destruct Hs as (s' & HA & HS).
      exists s'. split; auto. rewrite forallb_forall in Hf.
      apply Forall_srt. rewrite HS. apply Forall_forall. intros x Hx. apply Hf in Hx. lia.
    + intros [H|(s & HA & HF)]; [discriminate|]. exists (srt s). split.
      * apply reach_spec. exists s; auto.
      * apply forallb_forall. intros x Hx. apply Forall_srt in HF.
        rewrite Forall_forall in HF. apply HF in Hx. lia.
Qed.

(** merging the first two bins *)
Definition merge2 (s : list Z) : list Z :=
  match s with a :: b :: r => (a + b) :: r | _ => s end.

Lemma merge2_update v i s : (2 <= length s)%nat ->
  merge2 (update i (fun x => x + v) s) = update (pred i) (fun x => x + v) (merge2 s).
Proof.
  destruct s as [|a [|b r]]; cbn [length]; intros H; try lia.
  destruct i as [|[|i]]; cbn [update merge2 pred]; try reflexivity; f_equal; lia.
Qed.

Definition relabel (g : nat -> nat) (p : Z * nat) : Z * nat := (fst p, g (snd p)).

Lemma combine_map_r (g : nat -> nat) (vs : list Z) : forall asg,
  combine vs (map g asg) = map (relabel g) (combine vs asg).
Proof.
  induction vs as [|v vs IH]; intros [|i asg]; cbn [combine map]; auto.
  rewrite IH. reflexivity.
Qed.

Lemma fold_merge2 ps : forall s, (2 <= length s)%nat ->
  merge2 (fold_left lstep ps s) = fold_left lstep (map (relabel pred) ps) (merge2 s).
Proof.
  induction ps as [|p ps IH]; intros s Hs; cbn [fold_left map]; auto.
  rewrite IH by (unfold lstep; rewrite update_length; exact Hs).
  f_equal. unfold lstep, relabel. cbn [fst snd]. apply merge2_update; exact Hs.
Qed.

Lemma Attainable_merge2 m vs s : Attainable (S (S m)) vs s -> Attainable (S m) vs (merge2 s).
Proof.
  intros (asg & HL & HV & HS). exists (map pred asg).
  split; [rewrite map_length; exact HL|]. split.
  - unfold valid_asg in *. rewrite Forall_map. eapply Forall_impl; [|exact HV].
    cbn beta. intros i Hi. lia.
  - rewrite <- HS, !loads_unfold, combine_map_r, fold_merge2.
    + reflexivity.
    + rewrite repeat_length. lia.
Qed.

Lemma merge2_covered C s : 0 <= C -> Forall (fun x => C <= x) s -> Forall (fun x => C <= x) (merge2 s).
Proof.
  intros HC HF. destruct s as [|a [|b r]]; cbn [merge2]; auto.
  inversion HF as [|? ? Ha HF']; subst. inversion HF' as [|? ? Hb HF'']; subst.
  constructor; auto. lia.
Qed.

Lemma Coverable_down1 C vs n : 0 <= C -> Coverable C vs (S n) -> Coverable C vs n.
Proof.
  intros HC [H|(s & HA & HF)]; [discriminate|].
  destruct n as [|m]; [left; reflexivity|].
  right. exists (merge2 s). split; [apply Attainable_merge2; exact HA|apply merge2_covered; auto].
Qed.

Lemma Coverable_down C vs n m : 0 <= C -> (m <= n)%nat -> Coverable C vs n -> Coverable C vs m.
Proof.
  intros HC Hle. induction Hle as [|n Hle IH]; auto.
  intros H. apply IH. apply Coverable_down1; auto.
Qed.

(** number of non-zero entries: each value makes at most one more bin non-zero *)
Fixpoint nnz (s : list Z) : nat :=
  match s with [] => O | x :: t => ((if Z.eqb x 0 then O else 1%nat) + nnz t)%nat end.

Lemma nnz_update f s : forall i, (nnz (update i f s) <= S (nnz s))%nat.
Proof.
  induction s as [|x t IH]; intros [|i]; cbn [update nnz]; try lia.
  - destruct (x =? 0), (f x =? 0); lia.
  - specialize (IH i). lia.
Qed.

Lemma nnz_fold ps : forall s, (nnz (fold_left lstep ps s) <= nnz s + length ps)%nat.
Proof.
  induction ps as [|p ps IH]; intros s; cbn [fold_left length]; [lia|].
  specialize (IH (lstep s p)). pose proof (nnz_update (fun x => x + fst p) s (snd p)) as H.
  unfold lstep in *. lia.
Qed.

Lemma nnz_repeat0 k : nnz (repeat 0 k) = O.
Proof. induction k as [|k IH]; cbn [repeat nnz]; auto. Qed.

Lemma nnz_all s : Forall (fun x => 0 < x) s -> nnz s = length s.
Proof.
  induction 1 as [|x t Hx Ht IH]; cbn [nnz length]; auto.
  destruct (x =? 0) eqn:E; lia.
Qed.

Lemma nnz_loads k vs asg : (nnz (loads k vs asg) <= length vs)%nat.
Proof.
  rewrite loads_unfold. pose proof (nnz_fold (combine vs asg) (repeat 0 k)) as H.
  rewrite nnz_repeat0, combine_length in H. lia.
Qed.

Lemma Coverable_bound C vs n : 0 < C -> Coverable C vs n -> (n <= length vs)%nat.
Proof.
  intros HC [->|(s & HA & HF)]; [lia|].
  pose proof (Attainable_length _ _ _ HA) as HL.
  destruct HA as (asg & _ & _ & HS).
  pose proof (nnz_loads n vs asg) as Hn. rewrite HS in Hn.
  rewrite nnz_all in Hn; [lia|].
  eapply Forall_impl; [|exact HF]. cbn beta. intros x Hx. lia.
Qed.

Lemma max_cover_from_spec C vs : 0 <= C -> forall fuel n,
  Coverable C vs n -> (forall m, Coverable C vs m -> (m <= n + fuel)%nat) ->
  MaxCover C vs (max_cover_from fuel C vs n).
Proof.
  intros HC. induction fuel as [|fuel IH]; intros n Hn Hb; cbn [max_cover_from].
  - split; auto. intros m Hm. apply Hb in Hm. lia.
  - destruct (coverable_b C vs (S n)) eqn:E.
    + apply IH; [apply coverable_b_spec; exact E|]. intros m Hm. apply Hb in Hm. lia.
    + split; auto. intros m Hm. destruct (le_lt_dec m n) as [Hle|Hlt]; auto. exfalso.
      assert (Hc : Coverable C vs (S n)) by (apply (Coverable_down C vs m); auto; lia).
      apply coverable_b_spec in Hc. congruence.
Qed.

(** the positivity hypothesis on the values is not needed *)
Theorem max_cover_spec_strong : forall C vs, 0 < C -> MaxCover C vs (max_cover C vs).
Proof.
  intros C vs HC. unfold max_cover. apply max_cover_from_spec; [lia|left; reflexivity|].
  intros m Hm. cbn [Nat.add]. apply (Coverable_bound C); auto.
Qed.

Theorem max_cover_spec : forall C vs, 0 < C -> Forall (fun v => 0 < v) vs ->
  MaxCover C vs (max_cover C vs).
Proof. intros C vs HC _. apply max_cover_spec_strong; exact HC. Qed.

(** ---------------------------------------------------------------- *)
(** * 7. balanced two-way partition                                   *)

Lemma in_cons_eq {A} (p y : A) t : In p (y :: t) <-> p = y \/ In p t.
Proof. cbn [In]. split; intros [H|H]; auto. Qed.

Lemma ins_pair_In p x l : In p (ins_pair x l) <-> p = x \/ In p l.
Proof.
  induction l as [|y t IH]; cbn [ins_pair].
  - rewrite in_cons_eq. reflexivity.
  - destruct ((fst x =? fst y) && (snd x =? snd y)) eqn:E.
    + assert (Hxy : x = y).
      { apply andb_true_iff in E. destruct E as [E1 E2]. destruct x as [x1 x2], y as [y1 y2].
        cbn [fst snd] in *. f_equal; lia. }
      subst y. rewrite in_cons_eq. tauto.
    + destruct (pair_leb x y).
      * rewrite in_cons_eq. reflexivity.
      * rewrite !in_cons_eq, IH. tauto.
Qed.

Definition sstep (st : list (Z * Z)) (v : Z) : list (Z * Z) :=
  fold_left (fun acc p => ins_pair (fst p + v, snd p + 1) acc) st st.

Lemma fold_ins_pair_In (g : Z * Z -> Z * Z) q l : forall acc,
  In q (fold_left (fun acc p => ins_pair (g p) acc) l acc) <->
  In q acc \/ exists p, In p l /\ q = g p.
Proof.
  induction l as [|a l IH]; intros acc; cbn [fold_left].
  - split; auto. intros [H|(p & [] & _)]; auto.
  - rewrite IH, ins_pair_In. split.
    + intros [[H|H]|(p & Hp & H)]; auto.
      * right. exists a. split; [left; reflexivity|exact H].
      * right. exists p. split; [right; exact Hp|exact H].
    + intros [H|(p & [Hp|Hp] & H)]; auto.
      * subst p. auto.
      * right. exists p. auto.
Qed.

Lemma sstep_In q st v :
  In q (sstep st v) <-> In q st \/ exists p, In p st /\ q = (fst p + v, snd p + 1).
Proof. unfold sstep. apply (fold_ins_pair_In (fun p => (fst p + v, snd p + 1))). Qed.

Lemma side_states_unfold vs : side_states vs = fold_left sstep vs [(0, 0)].
Proof. reflexivity. Qed.

Lemma side_fold_spec vs : forall st s c,
  In (s, c) (fold_left sstep vs st) <->
  exists s0 c0 mask, In (s0, c0) st /\ length mask = length vs /\
                     s = s0 + side_sum vs mask /\ c = c0 + side_count mask.
Proof.
  induction vs as [|v vs IH]; intros st s c; cbn [fold_left].
  - split.
    + intros H. exists s, c, []. cbn [length side_sum side_count]. repeat split; auto; lia.
    + intros (s0 & c0 & mask & Hin & HL & Hs & Hc).
      destruct mask as [|b mask]; [|discriminate].
      cbn [side_sum side_count] in *. replace s with s0 by lia. replace c with c0 by lia. exact Hin.
  - rewrite IH. split.
    + intros (s1 & c1 & mask & Hin & HL & Hs & Hc). apply sstep_In in Hin.
      destruct Hin as [Hin|([s0 c0] & Hin & Heq)].
      * exists s1, c1, (false :: mask). cbn [length side_sum side_count].
        repeat split; auto; lia.
      * cbn [fst snd] in Heq. injection Heq as -> ->.
        exists s0, c0, (true :: mask). cbn [length side_sum side_count].
        repeat split; auto; lia.
    + intros (s0 & c0 & mask & Hin & HL & Hs & Hc).
      destruct mask as [|b mask]; [discriminate|].
      cbn [length side_sum side_count] in *. destruct b.
      * exists (s0 + v), (c0 + 1), mask. split.
        -- apply sstep_In. right. exists (s0, c0). split; auto.
        -- repeat split; lia.
      * exists s0, c0, mask. split; [apply sstep_In; left; exact Hin|]. repeat split; lia.
Qed.

Lemma side_states_spec vs s c :
  In (s, c) (side_states vs) <->
  exists mask, length mask = length vs /\ side_sum vs mask = s /\ side_count mask = c.
Proof.
  rewrite side_states_unfold, side_fold_spec. split.
  - intros (s0 & c0 & mask & [Hin|[]] & HL & Hs & Hc). injection Hin as <- <-.
    exists mask. repeat split; auto; lia.
  - intros (mask & HL & Hs & Hc). exists 0, 0, mask. split; [left; reflexivity|].
    repeat split; auto; lia.
Qed.

Lemma balanced_mask_exists n : exists mask, length mask = n /\
  (2 * side_count mask - Z.of_nat n = 0 \/ 2 * side_count mask - Z.of_nat n = 1).
Proof.
  induction n as [|n (mask & HL & H)].
  - exists []. cbn [length side_count]. split; auto.
  - destruct H as [H|H].
    + exists (true :: mask). cbn [length side_count]. split; [lia|]. right. lia.
    + exists (false :: mask). cbn [length side_count]. split; [lia|]. left. lia.
Qed.

Lemma opt_balanced2_In d vs x :
  In x (map (fun p => Z.abs (2 * fst p - zsum vs))
            (filter (fun p => Z.abs (2 * snd p - Z.of_nat (length vs)) <=? d) (side_states vs))) <->
  exists mask, balanced_split d vs mask /\ split_diff vs mask = x.
Proof.
  rewrite in_map_iff. split.
  - intros ([s c] & Hx & Hf). apply filter_In in Hf. destruct Hf as [Hin Hg].
    apply side_states_spec in Hin. destruct Hin as (mask & HL & Hs & Hc).
    cbn [fst snd] in *. exists mask. split.
    + split; auto. rewrite Hc. lia.
    + unfold split_diff. rewrite Hs. exact Hx.
  - intros (mask & [HL Hb] & Hx). exists (side_sum vs mask, side_count mask). cbn [fst snd].
    split; [exact Hx|]. apply filter_In. split.
    + apply side_states_spec. exists mask. auto.
    + cbn [snd]. lia.
Qed.

(** the hypothesis [vs <> []] is not needed *)
Theorem opt_balanced2_spec_strong : forall d vs, 1 <= d ->
  exists v, opt_balanced2 d vs = Some v /\ OptBalanced d vs v.
Proof.
  intros d vs Hd. unfold opt_balanced2. cbv zeta.
  pose proof (opt_balanced2_In d vs) as HIn.
  destruct (map _ _) as [|x l].
  - exfalso. destruct (balanced_mask_exists (length vs)) as (mask & HL & Hb).
    apply (HIn (split_diff vs mask)). exists mask. split; auto. split; auto. lia.
  - exists (zmin_list x l). split; auto. split.
    + apply HIn. destruct (zmin_list_in x l) as [H|H]; [left; auto|right; exact H].
    + intros mask Hm. assert (H : In (split_diff vs mask) (x :: l)) by (apply HIn; exists mask; auto).
      destruct (zmin_list_le x l) as [H1 H2]. rewrite Forall_forall in H2.
      destruct H as [<-|H]; auto.
Qed.

Theorem opt_balanced2_spec : forall d vs, 1 <= d -> vs <> [] ->
  exists v, opt_balanced2 d vs = Some v /\ OptBalanced d vs v.
Proof. intros d vs Hd _. apply opt_balanced2_spec_strong; exact Hd. Qed.

(** ---------------------------------------------------------------- *)
(** * 5. bin packing                                                  *)

Lemma add_each_cap_spec C v s : forall pre t, zsorted s ->
  (In t (add_each_cap C v pre s) <->
   exists i, (i < length s)%nat /\ nth i s 0 + v <= C /\
             t = srt (pre ++ update i (fun x => x + v) s)).
Proof.
  induction s as [|x s' IH]; intros pre t Hs.
  - cbn [add_each_cap In length]. split; [tauto|]. intros (i & Hi & _). lia.
  - cbn [add_each_cap]. rewrite in_app_iff. pose proof (sorted_tail _ _ Hs) as S'.
    assert (Hhd : fold_right ins (ins (x + v) s') pre = srt (pre ++ (x + v) :: s')).
    { rewrite ins_srt by exact S'. apply fold_ins_srt. }
    rewrite IH by exact S'. split.
    + intros [H|(i & Hi & Hc & H)].
      * destruct (x + v <=? C) eqn:E; [|destruct H]. destruct H as [H|[]].
        exists O. cbn [update length nth]. split; [lia|]. split; [lia|]. rewrite <- H. exact Hhd.
      * exists (S i). cbn [update length nth]. split; [lia|]. split; [exact Hc|].
        rewrite H, <- app_assoc. reflexivity.
    + intros (i & Hi & Hc & H). destruct i as [|i].
      * left. cbn [update nth] in *. destruct (x + v <=? C) eqn:E; [|lia].
        left. rewrite H. exact Hhd.
      * right. exists i. cbn [update length nth] in *. split; [lia|]. split; [exact Hc|].
        rewrite H, <- app_assoc. reflexivity.
Qed.

Lemma pack_states_snoc C vs v : pack_states C (vs ++ [v]) = pack_step C v (pack_states C vs).
Proof. unfold pack_states. rewrite fold_left_app. reflexivity. Qed.

Lemma pack_step_In C v states t :
  In t (pack_step C v states) <->
  exists s, In s states /\ (t = ins v s \/ In t (add_each_cap C v [] s)).
Proof.
  unfold pack_step. rewrite normalize_In, in_flat_map. split.
  - intros (s & Hs & [H|H]); exists s; auto.
  - intros (s & Hs & [H|H]); exists s; split; auto; [left; auto|right; auto].
Qed.

Lemma update_middle {T} (f : T -> T) (A : list T) x B :
  update (length A) f (A ++ x :: B) = A ++ f x :: B.
Proof. induction A as [|a A IH]; cbn [length app update]; auto. rewrite IH. reflexivity. Qed.

Lemma Forall_update_nth (P : Z -> Prop) (f : Z -> Z) d l : forall i,
  Forall P l -> P (f (nth i l d)) -> Forall P (update i f l).
Proof.
  induction l as [|x t IH]; intros [|i] HF Hp; cbn [update nth] in *; auto.
  - inversion HF; subst. constructor; auto.
  - inversion HF; subst. constructor; auto.
Qed.

Lemma repeat_snoc {T} (a : T) n : repeat a (S n) = repeat a n ++ [a].
Proof. induction n as [|n IH]; cbn [repeat app] in *; auto. rewrite <- IH. reflexivity. Qed.

Lemma update_app_l {T} (f : T -> T) z : forall s i, (i < length s)%nat ->
  update i f (s ++ z) = update i f s ++ z.
Proof.
  induction s as [|x s IH]; intros [|i] Hi; cbn [length app update] in *; try lia; auto.
  rewrite IH by lia. reflexivity.
Qed.

Lemma fold_lstep_app z ps : forall s, Forall (fun p => (snd p < length s)%nat) ps ->
  fold_left lstep ps (s ++ z) = fold_left lstep ps s ++ z.
Proof.
  induction ps as [|p ps IH]; intros s HF; cbn [fold_left]; auto.
  inversion HF as [|? ? Hp HF']; subst.
  unfold lstep at 2. rewrite update_app_l by exact Hp. fold (lstep s p).
  apply IH. eapply Forall_impl; [|exact HF']. cbn beta. intros q Hq.
  unfold lstep. rewrite update_length. exact Hq.
Qed.

Lemma combine_valid k (vs : list Z) : forall asg, valid_asg k asg ->
  Forall (fun p => (snd p < k)%nat) (combine vs asg).
Proof.
  induction vs as [|v vs IH]; intros [|i asg] HV; cbn [combine]; auto.
  inversion HV as [|? ? Hi HV']; subst. constructor; [exact Hi|apply IH; exact HV'].
Qed.

Lemma Attainable_extend k vs s : Attainable k vs s -> Attainable (S k) vs (s ++ [0]).
Proof.
  intros (asg & HL & HV & HS). exists asg. split; auto. split.
  - eapply Forall_impl; [|exact HV]. cbn beta. intros i Hi. lia.
  - rewrite <- HS, !loads_unfold, repeat_snoc. apply fold_lstep_app.
    rewrite repeat_length. apply combine_valid. exact HV.
Qed.

Lemma Attainable_nonneg k vs : Forall (fun v => 0 <= v) vs ->
  forall s, Attainable k vs s -> Forall (fun x => 0 <= x) s.
Proof.
  induction vs as [|v vs IH] using rev_ind; intros HF s HA.
  - apply Attainable_nil in HA. subst s. apply Forall_forall. intros x Hx.
    apply repeat_spec in Hx. lia.
  - apply Forall_app in HF. destruct HF as [HF Hv]. inversion Hv as [|? ? Hv' _]; subst.
    apply Attainable_snoc in HA. destruct HA as (s0 & i & HA & Hi & ->).
    specialize (IH HF s0 HA). apply (Forall_update_nth _ _ 0); auto.
    destruct (Nat.lt_ge_cases i (length s0)) as [Hlt|Hge].
    + pose proof (nth_In s0 0 Hlt) as Hin. rewrite Forall_forall in IH. apply IH in Hin. lia.
    + rewrite nth_overflow by exact Hge. lia.
Qed.

Definition nz (x : Z) : bool := negb (x =? 0).

Lemma filter_nz_repeat0 k : filter nz (repeat 0 k) = [].
Proof. induction k as [|k IH]; cbn [repeat filter]; auto. Qed.

Lemma filter_nz_all s : Forall (fun x => 0 < x) s -> filter nz s = s.
Proof.
  induction 1 as [|x t Hx Ht IH]; cbn [filter]; auto.
  unfold nz at 1. destruct (x =? 0) eqn:E; [lia|]. cbn [negb]. rewrite IH. reflexivity.
Qed.

Lemma filter_length_le' {T} (f : T -> bool) l : (length (filter f l) <= length l)%nat.
Proof. induction l as [|x t IH]; cbn [filter length]; auto. destruct (f x); cbn [length]; lia. Qed.

(** soundness: every state is the sorted load vector of a feasible packing without empty bin *)
Lemma pack_sound C vs : Forall (fun v => 0 < v <= C) vs ->
  forall s, In s (pack_states C vs) ->
  zsorted s /\ Forall (fun x => 0 < x <= C) s /\
  exists s', Attainable (length s) vs s' /\ Permutation s' s.
Proof.
  induction vs as [|v vs IH] using rev_ind; intros HF s Hs.
  - cbn [pack_states fold_left In] in Hs. destruct Hs as [<-|[]].
    split; [constructor|]. split; [constructor|].
    exists []. split; [apply Attainable_nil; reflexivity|constructor].
  - apply Forall_app in HF. destruct HF as [HF Hv]. inversion Hv as [|? ? Hv' _]; subst.
    rewrite pack_states_snoc, pack_step_In in Hs. destruct Hs as (st & Hst & Hs).
    destruct (IH HF st Hst) as (Sst & Fst & s0 & HA & HP).
    pose proof (Permutation_length HP) as HLen.
    destruct Hs as [->|Hs].
    + split; [apply ins_sorted; exact Sst|]. split.
      * eapply Permutation_Forall; [symmetry; apply ins_perm|]. constructor; auto.
      * exists (s0 ++ [v]). split.
        -- rewrite (Permutation_length (ins_perm v st)). cbn [length].
           apply Attainable_snoc. exists (s0 ++ [0]), (length st). split.
           ++ apply Attainable_extend. exact HA.
           ++ split; [lia|]. rewrite <- HLen, update_middle. rewrite Z.add_0_l. reflexivity.
        -- rewrite ins_perm. rewrite <- Permutation_cons_append. constructor. exact HP.
    + apply add_each_cap_spec in Hs; [|exact Sst]. destruct Hs as (j & Hj & Hc & ->).
      cbn [app].
      assert (Hpos : 0 < nth j st 0).
      { pose proof (nth_In st 0 Hj) as Hin. rewrite Forall_forall in Fst. apply Fst in Hin. lia. }
      split; [apply srt_sorted|]. split.
      * apply Forall_srt. apply (Forall_update_nth _ _ 0); auto. lia.
      * rewrite sort_asc_length, update_length.
        destruct (perm_update (fun x => x + v) 0 _ _ (Permutation_sym HP) j Hj)
          as (i & Hi & _ & HP').
        exists (update i (fun x => x + v) s0). split.
        -- apply Attainable_snoc. exists s0, i. split; auto. split; [lia|reflexivity].
        -- rewrite sort_asc_perm. symmetry. exact HP'.
Qed.

(** completeness: the non-empty bins of any feasible packing form a state *)
Lemma pack_complete C vs : Forall (fun v => 0 < v <= C) vs ->
  forall k s', Attainable k vs s' -> Forall (fun x => x <= C) s' ->
  In (srt (filter nz s')) (pack_states C vs).
Proof.
  induction vs as [|v vs IH] using rev_ind; intros HF k s' HA HC.
  - apply Attainable_nil in HA. subst s'. rewrite filter_nz_repeat0. left. reflexivity.
  - apply Forall_app in HF. destruct HF as [HF Hv]. inversion Hv as [|? ? Hv' _]; subst.
    apply Attainable_snoc in HA. destruct HA as (L & i & HA & Hi & ->).
    assert (Hnn : Forall (fun x => 0 <= x) L).
    { apply (Attainable_nonneg k vs); auto. eapply Forall_impl; [|exact HF].
      cbn beta. intros x Hx. lia. }
    rewrite <- (Attainable_length _ _ _ HA) in Hi.
    destruct (update_split i (fun x => x + v) L Hi) as (l1 & x & l2 & EL & Hl1 & EU).
    rewrite EU in *. clear EU.
    apply Forall_app in HC. destruct HC as [HC1 HC2].
    inversion HC2 as [|? ? Hxv HC2']; subst x0 l.
    assert (Hx0 : 0 <= x).
    { rewrite EL in Hnn. apply Forall_app in Hnn. destruct Hnn as [_ Hnn].
      inversion Hnn; subst; auto. }
    assert (HCL : Forall (fun x => x <= C) L).
    { rewrite EL. apply Forall_app. split; auto. constructor; auto. lia. }
    specialize (IH HF k L HA HCL).
    rewrite pack_states_snoc, pack_step_In. exists (srt (filter nz L)). split; [exact IH|].
    rewrite EL, !filter_app. cbn [filter].
    assert (Hnzv : nz (x + v) = true) by (unfold nz; destruct (x + v =? 0) eqn:E; [lia|reflexivity]).
    rewrite Hnzv.
    destruct (nz x) eqn:Enz.
    + right. apply add_each_cap_spec; [apply srt_sorted|]. cbn [app].
      set (A := filter nz l1) in *. set (B := filter nz l2) in *.
      assert (P : Permutation (A ++ x :: B) (srt (A ++ x :: B))) by (symmetry; apply sort_asc_perm).
      assert (Hlt : (length A < length (A ++ x :: B))%nat)
        by (rewrite app_length; cbn [length]; lia).
      destruct (perm_update (fun y => y + v) 0 _ _ P (length A) Hlt) as (j & Hj & Hn & HP).
      rewrite nth_middle in Hn. rewrite update_middle in HP.
      exists j. split; [exact Hj|]. split; [lia|]. apply srt_perm_eq. exact HP.
    + left. assert (x = 0) by (unfold nz in Enz; destruct (x =? 0) eqn:E; [lia|discriminate]).
      subst x. rewrite Z.add_0_l. rewrite ins_srt_cons.
      apply srt_perm_eq. symmetry. apply Permutation_middle.
Qed.

Theorem pack_states_spec : forall C vs s, 0 <= C -> Forall (fun v => 0 < v <= C) vs ->
  (In s (pack_states C vs) <->
   StronglySorted Z.le s /\ Forall (fun x => 0 < x <= C) s /\
   exists s', Attainable (length s) vs s' /\ Permutation s' s).
Proof.
  intros C vs s _ HF. split; [apply pack_sound; exact HF|].
  intros (Hs & HFs & s' & HA & HP).
  assert (HFs' : Forall (fun x => 0 < x <= C) s') by (eapply Permutation_Forall; [symmetry; exact HP|exact HFs]).
  assert (E : srt (filter nz s') = s).
  { rewrite filter_nz_all.
    - apply srt_unique; auto. symmetry; exact HP.
    - eapply Forall_impl; [|exact HFs']. cbn beta. intros x Hx. lia. }
  rewrite <- E. apply (pack_complete C vs HF (length s) s' HA).
  eapply Forall_impl; [|exact HFs']. cbn beta. intros x Hx. lia.
Qed.

Lemma pack_states_nonempty C vs : pack_states C vs <> [].
Proof.
  induction vs as [|v vs IH] using rev_ind; [discriminate|].
  rewrite pack_states_snoc. destruct (pack_states C vs) as [|s t]; [congruence|].
  intros E. assert (H : In (ins v s) (pack_step C v (s :: t))).
  { apply pack_step_In. exists s. split; [left; reflexivity|left; reflexivity]. }
  rewrite E in H. exact H.
Qed.

Lemma min_len_le l : forall best,
  (min_len best l <= best)%nat /\ Forall (fun s => (min_len best l <= length s)%nat) l.
Proof.
  induction l as [|s t IH]; intros best; cbn [min_len]; [split; [lia|constructor]|].
  destruct (IH (Nat.min best (length s))) as [H1 H2]. split; [lia|]. constructor; auto. lia.
Qed.

Lemma min_len_in l : forall best,
  min_len best l = best \/ exists s, In s l /\ min_len best l = length s.
Proof.
  induction l as [|s t IH]; intros best; cbn [min_len]; auto.
  destruct (IH (Nat.min best (length s))) as [H|(s' & Hs' & H)].
  - rewrite H. destruct (Nat.min_spec best (length s)) as [[_ E]|[_ E]]; rewrite E; auto.
    right. exists s. split; [left|]; auto.
  - right. exists s'. split; [right|]; auto.
Qed.

(** the hypothesis [0 < C] is not needed *)
Theorem min_bins_spec_strong : forall C vs, Forall (fun v => 0 <= v <= C) vs ->
  MinBins C (filter (fun v => negb (v =? 0)) vs) (min_bins C vs).
Proof.
  intros C vs HF. unfold min_bins. fold nz.
  set (vs' := filter nz vs).
  assert (HF' : Forall (fun v => 0 < v <= C) vs').
  { apply Forall_forall. intros x Hx. apply filter_In in Hx. destruct Hx as [Hx Hn].
    rewrite Forall_forall in HF. apply HF in Hx. unfold nz in Hn.
    destruct (x =? 0) eqn:E; [discriminate|]. lia. }
  pose proof (pack_states_nonempty C vs') as Hne.
  destruct (pack_states C vs') as [|s0 t] eqn:E; [congruence|].
  destruct (min_len_le t (length s0)) as [L1 L2]. rewrite Forall_forall in L2.
  split.
  - assert (Hex : exists s, In s (s0 :: t) /\ min_len (length s0) t = length s).
    { destruct (min_len_in t (length s0)) as [H|(s & Hs & H)].
      - exists s0. split; [left|]; auto.
      - exists s. split; [right|]; auto. }
    destruct Hex as (s & Hs & ->). rewrite <- E in Hs.
    destruct (pack_sound C vs' HF' s Hs) as (_ & HFs & s' & HA & HP).
    exists s'. split; auto. eapply Permutation_Forall; [symmetry; exact HP|].
    eapply Forall_impl; [|exact HFs]. cbn beta. intros x Hx. lia.
  - intros m (s' & HA & HC).
    pose proof (pack_complete C vs' HF' m s' HA HC) as Hin. rewrite E in Hin.
    assert (Hle : (min_len (length s0) t <= length (srt (filter nz s')))%nat).
    { destruct Hin as [<-|Hin]; auto. }
    rewrite sort_asc_length in Hle. pose proof (filter_length_le' nz s') as Hfl.
    rewrite (Attainable_length _ _ _ HA) in Hfl. lia.
Qed.

Theorem min_bins_spec : forall C vs, 0 < C -> Forall (fun v => 0 <= v <= C) vs ->
  MinBins C (filter (fun v => negb (v =? 0)) vs) (min_bins C vs).
Proof. intros C vs _ HF. apply min_bins_spec_strong; exact HF. Qed.

Print Assumptions normalize_In.
Print Assumptions reach_spec.
Print Assumptions value_sorted_perm.
Print Assumptions opt_value_spec.
Print Assumptions pack_states_spec.
Print Assumptions min_bins_spec.
Print Assumptions max_cover_spec.
Print Assumptions opt_balanced2_spec.
Print Assumptions side_states_spec.
Print Assumptions coverable_b_spec.
